import RbModel.Lex
/-!
C09 — letter case, spacing, comments and line endings never change a program's meaning: the lexical layer.

Everything here is about `RbModel.Lex` (ports of `rusty_common::cmp_str/hash_str`, the keyword lookup,
`any_token()`, `common_separator()`, `char_to_alphabet_index`).  That the hand-written grammar above the
tokenizer depends only on `norm ∘ lex` is NOT proved here (see checks.d/C09.json → unproved).
-/
namespace RbThm.C09
open RbModel.Lex

/-! ## 1. `cmp_str`, `hash_str`, `CaseInsensitiveString` -/

theorem upper_idem (c : Nat) : upper (upper c) = upper c := by
  unfold upper; (repeat' split) <;> omega

theorem upper_lower (c : Nat) : upper (lower c) = upper c := by
  unfold upper lower; (repeat' split) <;> omega

theorem map_upper_idem (s : List Nat) : (s.map upper).map upper = s.map upper := by
  simp [List.map_map, Function.comp_def, upper_idem]

theorem cmpStr_refl (a : List Nat) : cmpStr a a = .eq := by
  induction a with
  | nil => rfl
  | cons x xs ih => simp [cmpStr, ih]

/-- `cmp_str a b = Equal` exactly when the two strings are equal after ASCII upper-casing every byte. -/
theorem cmp_str_eq_iff (a b : List Nat) : cmpStr a b = .eq ↔ a.map upper = b.map upper := by
  induction a generalizing b with
  | nil => cases b <;> simp [cmpStr]
  | cons x xs ih =>
    cases b with
    | nil => simp [cmpStr]
    | cons y ys =>
      simp only [cmpStr, List.map_cons, List.cons.injEq]
      cases h : compare (upper x) (upper y) with
      | eq => simp [Nat.compare_eq_eq.mp h, ih]
      | lt => have := Nat.compare_eq_lt.mp h; simp; omega
      | gt => have := Nat.compare_eq_gt.mp h; simp; omega

/-- `cmp_str` only looks at the folded bytes. -/
theorem cmpStr_fold (a b : List Nat) : cmpStr (a.map upper) (b.map upper) = cmpStr a b := by
  induction a generalizing b with
  | nil => cases b <;> simp [cmpStr]
  | cons x xs ih =>
    cases b with
    | nil => simp [cmpStr]
    | cons y ys => simp only [cmpStr, List.map_cons, upper_idem, ih]

theorem cmpStr_fold_right (a b : List Nat) : cmpStr a (b.map upper) = cmpStr a b := by
  rw [← cmpStr_fold a (b.map upper), map_upper_idem, cmpStr_fold]

/-- Strings equal up to case compare alike against anything. -/
theorem cmpStr_congr_right (p a b : List Nat) (h : a.map upper = b.map upper) : cmpStr p a = cmpStr p b := by
  rw [← cmpStr_fold_right p a, ← cmpStr_fold_right p b, h]

theorem cmpStr_swap (a b : List Nat) : cmpStr b a = (cmpStr a b).swap := by
  induction a generalizing b with
  | nil => cases b <;> simp [cmpStr, Ordering.swap]
  | cons x xs ih =>
    cases b with
    | nil => simp [cmpStr, Ordering.swap]
    | cons y ys =>
      simp only [cmpStr]
      rw [Nat.compare_swap (upper x) (upper y) |>.symm]
      cases h : compare (upper x) (upper y) <;> simp [Ordering.swap, ih]

/-- Equal under `cmp_str` ⇒ the same byte stream is fed to the hasher (`Hash` is consistent with `Eq`). -/
theorem hash_str_congr (a b : List Nat) (h : cmpStr a b = .eq) : hashStr a = hashStr b :=
  (cmp_str_eq_iff a b).mp h

/-- … and conversely: `CaseInsensitiveString`'s `Eq` identifies exactly the strings with the same hash stream. -/
theorem ci_eq_iff_hash (a b : List Nat) : ciEq a b = true ↔ hashStr a = hashStr b := by
  simp [ciEq, hashStr, cmp_str_eq_iff]

/-- Case variants are equal: changing the case of any letters gives an `Eq`-equal string. -/
theorem ci_eq_case_variant (a : List Nat) : ciEq a (a.map lower) = true ∧ ciEq a (a.map upper) = true := by
  simp [ciEq, cmp_str_eq_iff, List.map_map, Function.comp_def, upper_lower, upper_idem]

/-- … and nothing else is: `[` `@` `` ` `` `{` (the neighbours of the letter ranges) and different letters stay apart. -/
example : ciEq [65, 98] [97, 66] = true ∧ ciEq [64] [96] = false ∧ ciEq [91] [123] = false ∧ ciEq [65] [66] = false := by
  decide

/-! ## 2. keyword lookup -/

/-- strictly increasing under `cmpStr`, pairwise -/
def sortedB : List (List Nat) → Bool
  | [] => true
  | a :: r => r.all (fun b => cmpStr a b == .lt) && sortedB r

/-- The extracted keyword table is strictly sorted under `cmp_str` (what `binary_search_by` needs). -/
theorem keyword_table_sorted : sortedB RbGen.keywords = true := by decide +kernel

theorem sorted_get (t : List (List Nat)) (hs : sortedB t = true) (i j : Nat) (a b : List Nat)
    (hij : i < j) (ha : t[i]? = some a) (hb : t[j]? = some b) : cmpStr a b = .lt := by
  induction t generalizing i j with
  | nil => simp at ha
  | cons x r ih =>
    simp only [sortedB, Bool.and_eq_true, List.all_eq_true, beq_iff_eq] at hs
    cases j with
    | zero => omega
    | succ j' =>
      simp only [List.getElem?_cons_succ] at hb
      cases i with
      | zero =>
        simp only [List.getElem?_cons_zero, Option.some.injEq] at ha
        subst ha
        exact hs.1 b (List.mem_of_getElem? hb)
      | succ i' =>
        simp only [List.getElem?_cons_succ] at ha
        exact ih hs.2 i' j' (by omega) ha hb

/-- Against a target equal (up to case) to row `j`, the probe at row `m` compares like `m` against `j`. -/
theorem probe_cmp (t : List (List Nat)) (hs : sortedB t = true) (s p q : List Nat) (j m : Nat)
    (hj : t[j]? = some p) (hm : t[m]? = some q) (he : cmpStr p s = .eq) : cmpStr q s = compare m j := by
  have hps : p.map upper = s.map upper := (cmp_str_eq_iff p s).mp he
  rw [← cmpStr_congr_right q p s hps]
  rcases Nat.lt_trichotomy m j with h | h | h
  · rw [sorted_get t hs m j q p h hm hj, (Nat.compare_eq_lt).mpr h]
  · subst h
    rw [hm] at hj
    cases hj
    rw [cmpStr_refl, (Nat.compare_eq_eq).mpr rfl]
  · rw [cmpStr_swap p q, sorted_get t hs j m p q h hj hm, (Nat.compare_eq_gt).mpr h]; rfl

theorem bsearch_sound (t : List (List Nat)) (s : List Nat) (fuel lo hi i : Nat)
    (h : bsearch t s fuel lo hi = some i) : ∃ p, t[i]? = some p ∧ cmpStr p s = .eq := by
  induction fuel generalizing lo hi with
  | zero => simp [bsearch] at h
  | succ f ih =>
    unfold bsearch at h
    split at h
    · simp only at h
      split at h
      · simp at h
      · next p hp =>
        split at h
        · next hc => cases h; exact ⟨p, hp, hc⟩
        · exact ih _ _ h
        · exact ih _ _ h
    · simp at h

theorem bsearch_complete (t : List (List Nat)) (hs : sortedB t = true) (s p : List Nat) (fuel lo hi j : Nat)
    (hhi : hi ≤ t.length) (hf : hi - lo < fuel) (hlo : lo ≤ j) (hjh : j < hi)
    (hj : t[j]? = some p) (he : cmpStr p s = .eq) : bsearch t s fuel lo hi = some j := by
  induction fuel generalizing lo hi with
  | zero => omega
  | succ f ih =>
    unfold bsearch
    have hlt : lo < hi := by omega
    simp only [hlt, if_true]
    have hmid : lo + (hi - lo) / 2 < t.length := by omega
    rw [List.getElem?_eq_getElem hmid]
    simp only
    have hc := probe_cmp t hs s p _ j _ hj (List.getElem?_eq_getElem hmid) he
    cases hcase : cmpStr t[lo + (hi - lo) / 2] s with
    | eq =>
      rw [hcase] at hc
      have := (Nat.compare_eq_eq).mp hc.symm
      simp [this]
    | lt =>
      rw [hcase] at hc
      have := (Nat.compare_eq_lt).mp hc.symm
      exact ih (lo + (hi - lo) / 2 + 1) hi hhi (by omega) (by omega) hjh
    | gt =>
      rw [hcase] at hc
      have := (Nat.compare_eq_gt).mp hc.symm
      exact ih lo (lo + (hi - lo) / 2) (by omega) (by omega) hlo (by omega)

/-- The lookup does not see the case of its argument. -/
theorem bsearch_fold (t : List (List Nat)) (s : List Nat) (fuel lo hi : Nat) :
    bsearch t (s.map upper) fuel lo hi = bsearch t s fuel lo hi := by
  induction fuel generalizing lo hi with
  | zero => rfl
  | succ f ih => unfold bsearch; simp only [cmpStr_fold_right, ih]

theorem kwLookup_fold (s : List Nat) : kwLookup (s.map upper) = kwLookup s := bsearch_fold _ _ _ _ _

theorem isKeyword_fold (s : List Nat) : isKeyword (s.map upper) = isKeyword s := by
  simp [isKeyword, kwLookup_fold]

/-- The binary search finds row `i` exactly when row `i` of the table equals the word up to case. -/
theorem keyword_lookup_row (s : List Nat) (i : Nat) :
    kwLookup s = some i ↔ ∃ k, RbGen.keywords[i]? = some k ∧ k.map upper = s.map upper := by
  constructor
  · intro h
    obtain ⟨p, hp, he⟩ := bsearch_sound _ _ _ _ _ _ h
    exact ⟨p, hp, (cmp_str_eq_iff p s).mp he⟩
  · rintro ⟨k, hk, he⟩
    have hlt : i < RbGen.keywords.length := by
      rcases Nat.lt_or_ge i RbGen.keywords.length with h | h
      · exact h
      · rw [List.getElem?_eq_none h] at hk; cases hk
    exact bsearch_complete _ keyword_table_sorted s k _ 0 _ i (Nat.le_refl _) (by omega) (Nat.zero_le _) hlt hk
      ((cmp_str_eq_iff k s).mpr he)

/-- A run of letters is recognised as a keyword iff some table entry equals it up to letter case. -/
theorem keyword_lookup_case_insensitive (s : List Nat) :
    isKeyword s = true ↔ ∃ k ∈ RbGen.keywords, k.map upper = s.map upper := by
  unfold isKeyword
  rw [Option.isSome_iff_exists]
  constructor
  · rintro ⟨i, hi⟩
    obtain ⟨k, hk, he⟩ := (keyword_lookup_row s i).mp hi
    exact ⟨k, List.mem_of_getElem? hk, he⟩
  · rintro ⟨k, hk, he⟩
    obtain ⟨i, hi⟩ := List.getElem?_of_mem hk
    exact ⟨i, (keyword_lookup_row s i).mpr ⟨k, hi, he⟩⟩

/-- `print`, `PRINT`, `pRiNt` are the keyword in row 49; `PRINTS` and `PRIN` are not keywords. -/
example : kwLookup [112, 114, 105, 110, 116] = some 49 ∧ kwLookup [80, 82, 73, 78, 84] = some 49
    ∧ kwLookup [112, 82, 105, 78, 116] = some 49 ∧ isKeyword [80, 82, 73, 78, 84, 83] = false
    ∧ isKeyword [80, 82, 73, 78] = false := by decide +kernel

/-! ## 3. the tokenizer: ends of line, blank runs, case blindness -/

/-- `eol` yields ONE `Eol` token for CR LF (two characters), for a lone CR and for a lone LF. -/
theorem eol_one_token (r : List Nat) :
    lexOne (13 :: 10 :: r) = .tok .eol 2
    ∧ (r.head? ≠ some 10 → lexOne (13 :: r) = .tok .eol 1)
    ∧ lexOne (10 :: r) = .tok .eol 1 := by
  refine ⟨by simp [lexOne, nextIs], ?_, by simp [lexOne]⟩
  intro h
  simp [lexOne, nextIs, h]

theorem word_not_eol (c : Nat) (cs : List Nat) (n : Nat) : word c cs ≠ .tok .eol n := by
  unfold word; (repeat' split) <;> simp

theorem ampersand_not_eol (cs : List Nat) (n : Nat) : ampersand cs ≠ .tok .eol n := by
  unfold ampersand; (repeat' split) <;> simp

/-- … and nothing else is an `Eol` token: it consumes exactly CR LF, a CR not followed by LF, or a LF. -/
theorem eol_token_only (s : List Nat) (n : Nat) (h : lexOne s = .tok .eol n) :
    (∃ r, s = 13 :: 10 :: r ∧ n = 2) ∨ (∃ r, s = 13 :: r ∧ r.head? ≠ some 10 ∧ n = 1) ∨ (∃ r, s = 10 :: r ∧ n = 1) := by
  cases s with
  | nil => simp [lexOne] at h
  | cons c cs =>
    simp only [lexOne] at h
    split at h
    · next hc =>
      subst hc
      split at h
      · next hn =>
        cases cs with
        | nil => simp [nextIs] at hn
        | cons d ds =>
          simp [nextIs] at hn
          subst hn
          simp at h
          exact Or.inl ⟨ds, rfl, h.symm⟩
      · next hn =>
        simp at h
        refine Or.inr (Or.inl ⟨cs, rfl, ?_, h.symm⟩)
        simpa [nextIs] using hn
    · split at h
      · next hc => subst hc; simp at h; exact Or.inr (Or.inr ⟨cs, rfl, h.symm⟩)
      · exfalso
        revert h
        (repeat' split) <;> simp [word_not_eol, ampersand_not_eol]

theorem takeWhile_append_all (p : Nat → Bool) (w rest : List Nat) (hw : w.all p = true)
    (hr : ∀ c, rest.head? = some c → p c = false) : (w ++ rest).takeWhile p = w := by
  induction w with
  | nil =>
    cases rest with
    | nil => rfl
    | cons c cs => simp [hr c rfl]
  | cons x xs ih =>
    simp only [List.all_cons, Bool.and_eq_true] at hw
    simp [hw.1, ih hw.2]

theorem isWs_not_eol (c : Nat) (h : isWs c = true) : c ≠ 13 ∧ c ≠ 10 := by
  simp only [isWs, Bool.or_eq_true, beq_iff_eq] at h; omega

/-- A maximal run of blanks and tabs is ONE `Whitespace` token, whatever its length and composition. -/
theorem whitespace_run_one_token (w rest : List Nat) (hne : w ≠ []) (hw : w.all isWs = true)
    (hr : ∀ c, rest.head? = some c → isWs c = false) : lexOne (w ++ rest) = .tok .ws w.length := by
  cases w with
  | nil => exact absurd rfl hne
  | cons c cs =>
    simp only [List.all_cons, Bool.and_eq_true] at hw
    have h1 := isWs_not_eol c hw.1
    simp only [List.cons_append, lexOne, h1.1, h1.2, if_false, hw.1, if_true,
      takeWhile_append_all isWs cs rest hw.2 hr, List.length_cons]
    congr 1; omega

theorem radixLen_pos (p : Nat → Bool) (ds : List Nat) (n : Nat) (h : radixLen p ds = some n) : 1 ≤ n := by
  unfold radixLen at h
  revert h
  (repeat' split) <;> intro h <;> cases h <;> omega

theorem ampersand_pos (cs : List Nat) (k : Kind) (n : Nat) (h : ampersand cs = .tok k n) : 1 ≤ n := by
  unfold ampersand at h
  revert h
  (repeat' split) <;> intro h <;> cases h <;> first | omega | exact radixLen_pos _ _ _ (by assumption)

theorem word_pos (c : Nat) (cs : List Nat) (k : Kind) (n : Nat) (h : word c cs = .tok k n) : 1 ≤ n := by
  unfold word at h
  revert h
  (repeat' split) <;> intro h <;> cases h <;> omega

/-- Every token consumes at least one character. -/
theorem lexOne_pos (s : List Nat) (k : Kind) (n : Nat) (h : lexOne s = .tok k n) : 1 ≤ n := by
  cases s with
  | nil => simp [lexOne] at h
  | cons c cs =>
    simp only [lexOne] at h
    revert h
    (repeat' split) <;> intro h <;>
      first
      | exact word_pos _ _ _ _ h
      | exact ampersand_pos _ _ _ h
      | (cases h; omega)

theorem lexF_fuel2 (n m : Nat) (s : List Nat) (hn : s.length ≤ n) (hm : s.length ≤ m) : lexF n s = lexF m s := by
  induction n generalizing m s with
  | zero =>
    have : s = [] := List.eq_nil_of_length_eq_zero (by omega)
    subst this
    cases m <;> simp [lexF, lexOne]
  | succ n ih =>
    cases s with
    | nil => cases m <;> simp [lexF, lexOne]
    | cons c cs =>
      cases m with
      | zero => simp at hm
      | succ m =>
        simp only [lexF]
        cases hl : lexOne (c :: cs) with
        | eof => rfl
        | tok k j =>
          have hp := lexOne_pos _ _ _ hl
          simp only [List.length_cons] at hn hm
          simp only
          congr 1
          apply ih <;> (simp only [List.length_drop, List.length_cons]; omega)

theorem lexF_fuel (n : Nat) (s : List Nat) (h : s.length ≤ n) : lexF n s = lexF s.length s :=
  lexF_fuel2 n s.length s h (Nat.le_refl _)

/-- Unfolding `lex` by one token. -/
theorem lex_step (s : List Nat) (k : Kind) (n : Nat) (h : lexOne s = .tok k n) :
    lex s = ⟨k, s.take n⟩ :: lex (s.drop n) := by
  have hp := lexOne_pos _ _ _ h
  cases s with
  | nil => simp [lexOne] at h
  | cons c cs =>
    unfold lex
    simp only [List.length_cons, lexF, h]
    rw [lexF_fuel cs.length _ (by simp only [List.length_drop, List.length_cons]; omega)]

/-- So a program text starting with a blank run lexes as that one token followed by the tokens of the rest. -/
theorem lex_whitespace_run (w rest : List Nat) (hne : w ≠ []) (hw : w.all isWs = true)
    (hr : ∀ c, rest.head? = some c → isWs c = false) : lex (w ++ rest) = ⟨.ws, w⟩ :: lex rest := by
  rw [lex_step _ _ _ (whitespace_run_one_token w rest hne hw hr)]
  simp

/-! ### the tokenizer never looks at letter case -/

theorem upper_eq_const (c d : Nat) (hd : d < 65 ∨ (90 < d ∧ d < 97) ∨ 122 < d) : upper c = d ↔ c = d := by
  unfold upper; split <;> omega

theorem isLetter_upper (c : Nat) : isLetter (upper c) = isLetter c := by
  unfold upper; split
  · apply Bool.eq_iff_iff.mpr
    simp only [isLetter, Bool.or_eq_true, Bool.and_eq_true, decide_eq_true_eq]
    omega
  · rfl
theorem isDigit_upper (c : Nat) : isDigit (upper c) = isDigit c := by
  unfold upper; split
  · apply Bool.eq_iff_iff.mpr
    simp only [isDigit, Bool.and_eq_true, decide_eq_true_eq]
    omega
  · rfl
theorem isOct_upper (c : Nat) : isOct (upper c) = isOct c := by
  unfold upper; split
  · apply Bool.eq_iff_iff.mpr
    simp only [isOct, Bool.and_eq_true, decide_eq_true_eq]
    omega
  · rfl
theorem isWs_upper (c : Nat) : isWs (upper c) = isWs c := by
  unfold upper; split
  · apply Bool.eq_iff_iff.mpr
    simp only [isWs, Bool.or_eq_true, beq_iff_eq]
    omega
  · rfl
theorem isHex_upper (c : Nat) : isHex (upper c) = isHex c := by
  unfold upper; split
  · apply Bool.eq_iff_iff.mpr
    simp only [isHex, isDigit, Bool.or_eq_true, Bool.and_eq_true, decide_eq_true_eq]
    omega
  · rfl
theorem isAlnum_upper (c : Nat) : isAlnum (upper c) = isAlnum c := by
  simp only [isAlnum, isLetter_upper, isDigit_upper]
theorem isIdentChar_upper (c : Nat) : isIdentChar (upper c) = isIdentChar c := by
  have h : (upper c == 46) = (c == 46) := by
    apply Bool.eq_iff_iff.mpr; simp only [beq_iff_eq]; exact upper_eq_const c 46 (by omega)
  simp only [isIdentChar, isAlnum_upper, h]

theorem takeWhile_map_upper (p : Nat → Bool) (hp : ∀ c, p (upper c) = p c) (s : List Nat) :
    (s.map upper).takeWhile p = (s.takeWhile p).map upper := by
  induction s with
  | nil => rfl
  | cons x xs ih =>
    simp only [List.map_cons, List.takeWhile, hp]
    cases p x <;> simp [ih]

theorem dropWhile_map_upper (p : Nat → Bool) (hp : ∀ c, p (upper c) = p c) (s : List Nat) :
    (s.map upper).dropWhile p = (s.dropWhile p).map upper := by
  induction s with
  | nil => rfl
  | cons x xs ih =>
    simp only [List.map_cons, List.dropWhile, hp]
    cases p x <;> simp [ih]

theorem takeWhile_len_upper (p : Nat → Bool) (hp : ∀ c, p (upper c) = p c) (s : List Nat) :
    ((s.map upper).takeWhile p).length = (s.takeWhile p).length := by
  rw [takeWhile_map_upper p hp, List.length_map]

theorem nextIs_upper (cs : List Nat) (d : Nat) (hd : d < 65 ∨ (90 < d ∧ d < 97) ∨ 122 < d) :
    nextIs (cs.map upper) d = nextIs cs d := by
  cases cs with
  | nil => rfl
  | cons x xs =>
    apply Bool.eq_iff_iff.mpr
    simp only [nextIs, List.map_cons, List.head?_cons, beq_iff_eq, Option.some.injEq]
    exact upper_eq_const x d hd

theorem allowedAfterKeyword_upper (o : Option Nat) : allowedAfterKeyword (o.map upper) = allowedAfterKeyword o := by
  cases o with
  | none => rfl
  | some c =>
    have h1 : (upper c != 46) = (c != 46) := by
      apply Bool.eq_iff_iff.mpr
      simp only [bne_iff_ne, ne_eq]
      exact not_congr (upper_eq_const c 46 (by omega))
    have h2 : (upper c != 36) = (c != 36) := by
      apply Bool.eq_iff_iff.mpr
      simp only [bne_iff_ne, ne_eq]
      exact not_congr (upper_eq_const c 36 (by omega))
    simp only [Option.map_some, allowedAfterKeyword, h1, h2, isAlnum_upper]

theorem word_upper (c : Nat) (cs : List Nat) : word (upper c) (cs.map upper) = word c cs := by
  unfold word
  have hk : isKeyword (upper c :: (cs.map upper).takeWhile isLetter) = isKeyword (c :: cs.takeWhile isLetter) := by
    rw [takeWhile_map_upper isLetter isLetter_upper, ← List.map_cons, isKeyword_fold]
  rw [hk, dropWhile_map_upper isLetter isLetter_upper, List.head?_map, allowedAfterKeyword_upper,
    takeWhile_len_upper isLetter isLetter_upper, takeWhile_len_upper isIdentChar isIdentChar_upper]

theorem radixLen_upper (p : Nat → Bool) (hp : ∀ c, p (upper c) = p c) (ds : List Nat) :
    radixLen p (ds.map upper) = radixLen p ds := by
  cases ds with
  | nil => rfl
  | cons d t =>
    have h45 : (upper d = 45) = (d = 45) := propext (upper_eq_const d 45 (by omega))
    simp only [radixLen, List.map_cons, h45, takeWhile_len_upper p hp]
    have := takeWhile_len_upper p hp (d :: t)
    simp only [List.map_cons] at this
    rw [this]

theorem ampersand_upper (cs : List Nat) : ampersand (cs.map upper) = ampersand cs := by
  cases cs with
  | nil => rfl
  | cons r ds =>
    simp only [ampersand, List.map_cons, upper_idem, radixLen_upper isOct isOct_upper,
      radixLen_upper isHex isHex_upper]

/-- One `any_token()` call gives the same kind and length on a text and on its upper-cased copy:
no recogniser of the tokenizer looks at letter case (keyword lookup, radix letters and hex digits included). -/
theorem lexOne_upper (s : List Nat) : lexOne (s.map upper) = lexOne s := by
  cases s with
  | nil => rfl
  | cons c cs =>
    have e13 : (upper c = 13) = (c = 13) := propext (upper_eq_const c 13 (by omega))
    have e10 : (upper c = 10) = (c = 10) := propext (upper_eq_const c 10 (by omega))
    have e38 : (upper c = 38) = (c = 38) := propext (upper_eq_const c 38 (by omega))
    have e62 : (upper c = 62) = (c = 62) := propext (upper_eq_const c 62 (by omega))
    have e60 : (upper c = 60) = (c = 60) := propext (upper_eq_const c 60 (by omega))
    have e61 : (upper c = 61) = (c = 61) := propext (upper_eq_const c 61 (by omega))
    simp only [List.map_cons, lexOne, e13, e10, e38, e62, e60, e61, isWs_upper, isDigit_upper, isLetter_upper,
      nextIs_upper cs 10 (by omega), nextIs_upper cs 61 (by omega), nextIs_upper cs 62 (by omega),
      takeWhile_len_upper isWs isWs_upper, takeWhile_len_upper isDigit isDigit_upper, word_upper, ampersand_upper]

theorem lexF_upper (n : Nat) (s : List Nat) : lexF n (s.map upper) = (lexF n s).map Tok.fold := by
  induction n generalizing s with
  | zero => rfl
  | succ m ih =>
    simp only [lexF, lexOne_upper]
    cases lexOne s with
    | eof => rfl
    | tok k j => simp only [List.map_cons, Tok.fold, ← List.map_take, ← List.map_drop, ih]

/-- Lexing commutes with case folding: the tokens of the upper-cased text are the tokens of the text,
upper-cased one by one (same boundaries, same kinds). -/
theorem lex_fold_commute (s : List Nat) : lex (s.map upper) = (lex s).map Tok.fold := by
  unfold lex; rw [List.length_map, lexF_upper]

/-- Two spellings of a program that differ only in letter case have the same token boundaries and kinds,
and token texts equal up to case. -/
theorem case_variants_same_tokens (s s' : List Nat) (h : s.map upper = s'.map upper) :
    (lex s).map Tok.fold = (lex s').map Tok.fold := by
  rw [← lex_fold_commute, ← lex_fold_commute, h]

/-- The 40-character limit on names looks only at the length of the token, which no layout transformation
changes: case folding keeps it, and (`case_variants_same_tokens`) case variants have the same token lengths. -/
theorem name_limit_fold (t : Tok) : nameTooLong t.fold = nameTooLong t := by
  simp [nameTooLong, Tok.fold]

/-- a word of 41 letters is ONE identifier token (it may stand in a string literal or a comment), too long for a name;
40 letters are fine -/
example :
    lex (List.replicate 41 97) = [⟨.ident, List.replicate 41 97⟩] ∧ nameTooLong ⟨.ident, List.replicate 41 97⟩ = true
    ∧ nameTooLong ⟨.ident, List.replicate 40 97⟩ = false := by decide +kernel

/-! ## 4. DEFtype letter ranges -/

/-- `char_to_alphabet_index c = char_to_alphabet_index (upper c)` (and likewise for the lower-case letter). -/
theorem deftype_fold (c : Nat) :
    charToAlphabetIndex (upper c) = charToAlphabetIndex c ∧ charToAlphabetIndex (lower c) = charToAlphabetIndex c := by
  simp only [charToAlphabetIndex, upper_idem, upper_lower, and_self]

/-- the index is the position in the alphabet for letters of either case, and undefined (panic) otherwise -/
theorem deftype_index (c : Nat) :
    charToAlphabetIndex c = if isLetter c then some (upper c - 65) else none := by
  unfold charToAlphabetIndex isLetter upper
  (repeat' split) <;> simp_all <;> omega

example : charToAlphabetIndex 97 = some 0 ∧ charToAlphabetIndex 90 = some 25 ∧ charToAlphabetIndex 64 = none := by decide

/-! ## 5. the separator between statements -/

theorem all_takeWhile {α} (p : α → Bool) (l : List α) : (l.takeWhile p).all p = true := by
  induction l with
  | nil => rfl
  | cons x xs ih =>
    simp only [List.takeWhile]
    cases h : p x <;> simp [h, ih]

theorem head_dropWhile {α} (p : α → Bool) (l : List α) (t : α) (h : (l.dropWhile p).head? = some t) : p t = false := by
  induction l with
  | nil => simp at h
  | cons x xs ih =>
    simp only [List.dropWhile] at h
    cases hx : p x
    · simp [hx] at h; subst h; exact hx
    · simp [hx] at h; exact ih h

theorem dropWhile_append_all {α} (p : α → Bool) (tail rest : List α) (ht : tail.all p = true)
    (hr : ∀ t, rest.head? = some t → p t = false) : (tail ++ rest).dropWhile p = rest := by
  induction tail with
  | nil =>
    cases rest with
    | nil => rfl
    | cons c cs => simp [hr c rfl]
  | cons x xs ih =>
    simp only [List.all_cons, Bool.and_eq_true] at ht
    simp [ht.1, ih ht.2]

/-- optional leading blank token -/
def Lead (l : List Tok) : Prop := l = [] ∨ ∃ w, l = [w] ∧ w.isWsTok = true

/-- `ts` is `rest` preceded by a separator: `ws? (EOL | ':') (ws | EOL)*` taken maximally,
or `ws?` directly in front of a `'` comment (which stays unread). -/
def SepShape (ts rest : List Tok) : Prop :=
  (∃ lead sep tail, ts = lead ++ sep :: tail ++ rest ∧ Lead lead ∧ sep.isSepStart = true
      ∧ tail.all Tok.isEolWs = true ∧ ∀ t, rest.head? = some t → t.isEolWs = false)
  ∨ (∃ lead t r, ts = lead ++ rest ∧ Lead lead ∧ rest = t :: r ∧ t.isSym 39 = true)

theorem sepStart_not_ws (t : Tok) (h : t.isSepStart = true) : t.isWsTok = false := by
  simp only [Tok.isSepStart, Tok.isEolTok, Tok.isSym, Bool.or_eq_true, Bool.and_eq_true, beq_iff_eq] at h
  simp only [Tok.isWsTok, beq_eq_false_iff_ne, ne_eq]
  rcases h with h | h
  · rw [h]; simp
  · rw [h.1]; simp

theorem sym_not_ws (t : Tok) (c : Nat) (h : t.isSym c = true) : t.isWsTok = false := by
  simp only [Tok.isSym, Bool.and_eq_true, beq_iff_eq] at h
  simp only [Tok.isWsTok, beq_eq_false_iff_ne, ne_eq]
  rw [h.1]; simp

theorem skipWs_lead (lead r : List Tok) (t : Tok) (hl : Lead lead) (ht : t.isWsTok = false) :
    skipWs (lead ++ t :: r) = t :: r := by
  rcases hl with h | ⟨w, h, hw⟩
  · subst h; simp [skipWs, ht]
  · subst h; simp [skipWs, hw]

/-- Every spelling of a separator is accepted and consumed completely: optional blanks, then a newline or a
colon, then any mix of further newlines (blank lines), blanks (indentation) — up to the next statement;
and blanks in front of a trailing comment need no separator at all. -/
theorem separator_accepts (ts rest : List Tok) (h : SepShape ts rest) : commonSeparator ts = some rest := by
  rcases h with ⟨lead, sep, tail, rfl, hl, hs, ht, hr⟩ | ⟨lead, t, r, rfl, hl, rfl, ha⟩
  · unfold commonSeparator
    rw [List.append_assoc, List.cons_append, skipWs_lead lead _ sep hl (sepStart_not_ws sep hs)]
    simp only [hs, if_true, dropWhile_append_all Tok.isEolWs tail rest ht hr]
  · unfold commonSeparator
    rw [skipWs_lead lead r t hl (sym_not_ws t 39 ha)]
    have hns : t.isSepStart = false := by
      simp only [Tok.isSym, Bool.and_eq_true, beq_iff_eq] at ha
      simp [Tok.isSepStart, Tok.isEolTok, Tok.isSym, ha.1, ha.2]
    simp [hns, ha]

/-- … and nothing else is: whenever `common_separator` succeeds it has consumed exactly such a spelling. -/
theorem separator_only (ts rest : List Tok) (h : commonSeparator ts = some rest) : SepShape ts rest := by
  unfold commonSeparator at h
  have key : ∃ lead, Lead lead ∧ ts = lead ++ skipWs ts := by
    cases ts with
    | nil => exact ⟨[], Or.inl rfl, rfl⟩
    | cons t r =>
      cases hw : t.isWsTok
      · exact ⟨[], Or.inl rfl, by simp [skipWs, hw]⟩
      · exact ⟨[t], Or.inr ⟨t, rfl, hw⟩, by simp [skipWs, hw]⟩
  obtain ⟨lead, hl, hts⟩ := key
  cases hk : skipWs ts with
  | nil => rw [hk] at h; simp at h
  | cons t r =>
    rw [hk] at h hts
    simp only at h
    split at h
    · next hs =>
      cases h
      refine Or.inl ⟨lead, t, r.takeWhile Tok.isEolWs, ?_, hl, hs, all_takeWhile _ _, fun x hx => head_dropWhile _ _ _ hx⟩
      rw [List.append_assoc, List.cons_append, List.takeWhile_append_dropWhile]
      exact hts
    · split at h
      · next ha =>
        cases h
        exact Or.inr ⟨lead, t, r, hts, hl, rfl, ha⟩
      · cases h

/-- `common_separator` accepts exactly `ws? (EOL | ':') (ws | EOL)*` (maximal) and `ws?` before `'`. -/
theorem separator_language (ts rest : List Tok) : commonSeparator ts = some rest ↔ SepShape ts rest :=
  ⟨separator_only ts rest, separator_accepts ts rest⟩

/-- newline, colon, CR LF + blank line + indentation, and blanks before a comment: all separators, all consumed -/
example :
    let x : Tok := ⟨.ident, [88]⟩
    let nl : Tok := ⟨.eol, [10]⟩
    let crlf : Tok := ⟨.eol, [13, 10]⟩
    let sp : Tok := ⟨.ws, [32, 32]⟩
    let colon : Tok := ⟨.symbol, [58]⟩
    let apos : Tok := ⟨.symbol, [39]⟩
    commonSeparator [nl, x] = some [x] ∧ commonSeparator [sp, colon, sp, x] = some [x]
    ∧ commonSeparator [crlf, crlf, sp, x] = some [x] ∧ commonSeparator [sp, apos, x] = some [apos, x]
    ∧ commonSeparator [sp, x] = none := by decide

/-! ## 6. the normal form is invariant under the layout transformations -/

/-- The two token streams carry the same text wherever the stream is inside a string literal. -/
def agreeInStr : Mode → List Tok → List Tok → Bool
  | _, [], [] => true
  | m, t :: ts, t' :: ts' => (m != .str || t.text == t'.text) && agreeInStr (m.next t) ts ts'
  | _, _, _ => false

theorem fold_parts (t t' : Tok) (h : t.fold = t'.fold) : t.kind = t'.kind ∧ t.text.map upper = t'.text.map upper := by
  cases t; cases t'; simp only [Tok.fold, Tok.mk.injEq] at h; exact h

theorem next_congr (m : Mode) (t t' : Tok) (h : t.fold = t'.fold) : m.next t = m.next t' := by
  obtain ⟨hk, ht⟩ := fold_parts t t' h
  unfold Mode.next Tok.isQuote Tok.isApos
  rw [hk, ht]

theorem normTok_congr (m : Mode) (t t' : Tok) (h : t.fold = t'.fold) (hs : m = .str → t.text = t'.text) :
    normTok m t = normTok m t' := by
  obtain ⟨hk, ht⟩ := fold_parts t t' h
  cases m with
  | code => unfold normTok Tok.isQuote Tok.isApos; rw [hk, ht]
  | str => unfold normTok; rw [hk, hs rfl]
  | comment => unfold normTok; rw [hk]

theorem normM_case (m : Mode) (ts ts' : List Tok) (h : ts.map Tok.fold = ts'.map Tok.fold)
    (ha : agreeInStr m ts ts' = true) : normM m ts = normM m ts' := by
  induction ts generalizing m ts' with
  | nil =>
    cases ts' with
    | nil => rfl
    | cons _ _ => simp at h
  | cons t r ih =>
    cases ts' with
    | nil => simp at h
    | cons t' r' =>
      simp only [List.map_cons, List.cons.injEq] at h
      simp only [agreeInStr, Bool.and_eq_true, Bool.or_eq_true, bne_iff_ne, ne_eq, beq_iff_eq] at ha
      have hs : m = .str → t.text = t'.text := fun hm => ha.1.resolve_left (fun hn => hn hm)
      simp only [normM]
      rw [normTok_congr m t t' h.1 hs, ← next_congr m t t' h.1, ih (m.next t) r' h.2 ha.2]

/-- LETTER CASE.  Two program texts that differ only in the case of letters (`s.map upper = s'.map upper`) and
carry identical text inside string literals have the same normal form: same token boundaries and kinds,
keywords / identifiers / radix letters / hex digits / comments compare equal.  For all inputs. -/
theorem lexical_normal_form_case (s s' : List Nat) (h : s.map upper = s'.map upper)
    (hstr : agreeInStr .code (lex s) (lex s') = true) : norm (lex s) = norm (lex s') := by
  unfold norm
  rw [normM_case .code _ _ (case_variants_same_tokens s s' h) hstr]

/-- `print "aB" 'x` and `PrInT "aB" 'X` — the hypotheses hold on a program with a keyword, a string literal
and a comment, and the normal forms agree; changing the case inside the literal is (rightly) not covered. -/
example :
    let s := [112, 114, 105, 110, 116, 32, 34, 97, 66, 34, 32, 39, 120]
    let s' := [80, 114, 73, 110, 84, 32, 34, 97, 66, 34, 32, 39, 88]
    let s'' := [80, 114, 73, 110, 84, 32, 34, 65, 66, 34, 32, 39, 88]
    s.map upper = s'.map upper ∧ agreeInStr .code (lex s) (lex s') = true ∧ norm (lex s) = norm (lex s')
    ∧ s.map upper = s''.map upper ∧ norm (lex s) ≠ norm (lex s'') := by
  decide +kernel

/-- A spelling of the end of line in front of `rest`: CR LF, LF, or a CR that is not followed by a LF. -/
def EolSpelling (e rest : List Nat) : Prop := e = [13, 10] ∨ e = [10] ∨ (e = [13] ∧ rest.head? ≠ some 10)

theorem lex_eol (e rest : List Nat) (h : EolSpelling e rest) : lex (e ++ rest) = ⟨.eol, e⟩ :: lex rest := by
  rcases h with rfl | rfl | ⟨rfl, hn⟩
  · show lex (13 :: 10 :: rest) = _
    rw [lex_step _ _ _ (eol_one_token rest).1]; rfl
  · show lex (10 :: rest) = _
    rw [lex_step _ _ _ (eol_one_token rest).2.2]; rfl
  · show lex (13 :: rest) = _
    rw [lex_step _ _ _ ((eol_one_token rest).2.1 hn)]; rfl

/-- LINE ENDINGS.  From any token boundary on, and in every mode (code, string literal, comment), the spelling
of an end of line — CR LF, lone CR, lone LF — does not change the normal form of the remaining program. -/
theorem lexical_normal_form_eol (m : Mode) (e e' rest : List Nat) (h : EolSpelling e rest) (h' : EolSpelling e' rest) :
    normM m (lex (e ++ rest)) = normM m (lex (e' ++ rest)) := by
  rw [lex_eol e rest h, lex_eol e' rest h']
  simp [normM, normTok, Mode.next]

/-- BLANK RUNS.  From any token boundary on, outside string literals, the length and the composition
(blanks / tabs) of a blank run does not change the normal form of the remaining program. -/
theorem lexical_normal_form_blanks (m : Mode) (hm : m ≠ .str) (w w' rest : List Nat)
    (hne : w ≠ []) (hne' : w' ≠ []) (hw : w.all isWs = true) (hw' : w'.all isWs = true)
    (hr : ∀ c, rest.head? = some c → isWs c = false) :
    normM m (lex (w ++ rest)) = normM m (lex (w' ++ rest)) := by
  rw [lex_whitespace_run w rest hne hw hr, lex_whitespace_run w' rest hne' hw' hr]
  cases m with
  | str => exact absurd rfl hm
  | code => simp [normM, normTok, Mode.next, Tok.isQuote, Tok.isApos]
  | comment => simp [normM, normTok, Mode.next]

/-- Both, for whole programs that start at such a place (the transformations at the first token). -/
theorem lexical_normal_form (rest : List Nat) :
    (∀ e e', EolSpelling e rest → EolSpelling e' rest → norm (lex (e ++ rest)) = norm (lex (e' ++ rest)))
    ∧ (∀ w w', w ≠ [] → w' ≠ [] → w.all isWs = true → w'.all isWs = true →
        (∀ c, rest.head? = some c → isWs c = false) → norm (lex (w ++ rest)) = norm (lex (w' ++ rest))) := by
  refine ⟨fun e e' h h' => ?_, fun w w' h1 h2 h3 h4 h5 => ?_⟩
  · unfold norm; rw [lexical_normal_form_eol .code e e' rest h h']
  · unfold norm; rw [lexical_normal_form_blanks .code (by decide) w w' rest h1 h2 h3 h4 h5]

theorem squeeze_eol_eol (r : List NTok) : squeeze (.eol :: .eol :: r) = squeeze (.eol :: r) := by
  rw [squeeze]; simp

/-- BLANK LINES.  An extra end of line directly after an end of line (an empty line) disappears in the normal form. -/
theorem blank_line_insert (e e2 rest : List Nat) (h2 : EolSpelling e2 rest) (h : EolSpelling e (e2 ++ rest))
    (h' : EolSpelling e rest) : norm (lex (e ++ (e2 ++ rest))) = norm (lex (e ++ rest)) := by
  unfold norm
  rw [lex_eol e _ h, lex_eol e2 rest h2, lex_eol e rest h']
  simp only [normM, normTok, Mode.next, beq_self_eq_true, if_true, List.cons_append, List.nil_append]
  exact squeeze_eol_eol _

/-- `X` CR LF CR LF `Y`, `X` LF `Y` and `X` CR `Y`; `X`␠␠⇥`=` and `X`␠`=`: same normal forms; but a blank
inside a string literal is kept. -/
example :
    norm (lex [88, 13, 10, 13, 10, 89]) = norm (lex [88, 10, 89])
    ∧ norm (lex [88, 13, 89]) = norm (lex [88, 10, 89])
    ∧ norm (lex [88, 32, 32, 9, 61]) = norm (lex [88, 32, 61])
    ∧ norm (lex [34, 32, 32, 34]) ≠ norm (lex [34, 32, 34]) := by decide +kernel

end RbThm.C09
