import Thm.C16
/-!
# C16 — a string item that ends in a lone CR or LF leaves the column at 0

The device column after a write is the number of characters since the last CR / LF of the text (`colFrom`,
`colFrom_eq_sinceNewline`).  Taking it as the length of the last *line* of the text (Rust `text.lines().last()`)
is not the same thing: `lines()` drops a trailing empty line, so a text whose LAST character is a CR or LF would
leave the column where it was before the line break, and the next comma would pad short.  The theorems here state
the fact for all strings, in the vocabulary of `Thm.C16` (`colFrom`, `expand`, `sinceNewline`, `print_eq`,
`comma_next_zone`, `devices_independent`).

* `colFrom_trailing_newline`, `colFrom_expand_trailing_newline`, `sinceNewline_trailing_newline`
      a text whose last character is CR or LF ends at column 0, whatever the start column
* `colFrom_after_last_newline` (+ `_expand`, `sinceNewline_after_last_newline`)
      `a ++ [x] ++ b`, `x` a CR / LF, none in `b`: the column is `b.length`, whatever the start column and `a`
* `print_trailing_newline`, `print_after_last_newline`          the same for `WritePrinter.print`
* `zone_after_trailing_newline`, `zone_after_text_since_newline`  device level: the comma writes 14, resp.
      `14 - b.length % 14` spaces
* `comma_after_trailing_newline`, `comma_after_text_since_newline`  instruction level: whatever the device held
      before and whatever happens on other devices between the item and the comma
* `comma_after_trailing_newline_from_init`   the same from the initial state after any earlier history
-/
namespace RbThm.C16Newline
open RbModel.Print RbThm.C16

/-! ## 1. The last character is a CR or LF: column 0 -/

/-- **colFrom_trailing_newline**: a text whose last character is a CR or LF ends at column 0, whatever the column
it started from and whatever came before the last character (other CR / LF included). -/
theorem colFrom_trailing_newline (c : Nat) (s' : List Char) (x : Char) (hx : isCrLf x = true) :
    colFrom c (s' ++ [x]) = 0 := by
  rw [colFrom_append]
  simp [colFrom, hx]

/-- The same for what reaches the device (the lone CR / LF written as CR LF). -/
theorem colFrom_expand_trailing_newline (c : Nat) (s' : List Char) (x : Char) (hx : isCrLf x = true) :
    colFrom c (expand (s' ++ [x])) = 0 := by
  rw [colFrom_expand]
  exact colFrom_trailing_newline c s' x hx

/-- In the terms of `column_tracks_text`: no characters since the last CR / LF. -/
theorem sinceNewline_trailing_newline (s' : List Char) (x : Char) (hx : isCrLf x = true) :
    sinceNewline (s' ++ [x]) = 0 := by
  rw [← colFrom_eq_sinceNewline]
  exact colFrom_trailing_newline 0 s' x hx

/-- ... and of the device's bytes: whatever the device held (`out`), after the expanded text there are no characters
since the last CR / LF. -/
theorem sinceNewline_out_trailing_newline (out s' : List Char) (x : Char) (hx : isCrLf x = true) :
    sinceNewline (out ++ expand (s' ++ [x])) = 0 := by
  rw [← colFrom_eq_sinceNewline, colFrom_append]
  exact colFrom_expand_trailing_newline _ s' x hx

example : colFrom 7 (['a', 'b', 'c'] ++ ['\n']) = 0 := by decide
example : colFrom 7 (['a', '\r', 'c'] ++ ['\r']) = 0 := colFrom_trailing_newline 7 _ _ (by decide)
/-- The reading `text.lines().last().len()` would give 3 here (the column of `abc`), not 0. -/
example : colFrom 0 ['a', 'b', 'c'] = 3 ∧ colFrom 0 (['a', 'b', 'c'] ++ ['\n']) = 0 := by decide

/-! ## 2. Text after the last CR / LF -/

/-- **colFrom_after_last_newline**: with `x` a CR or LF and none in `b`, the column after `a ++ [x] ++ b` is the
length of `b` — independent of the start column `c` and of `a`. -/
theorem colFrom_after_last_newline (c : Nat) (a b : List Char) (x : Char) (hx : isCrLf x = true)
    (hb : ∀ y ∈ b, isCrLf y = false) :
    colFrom c (a ++ [x] ++ b) = b.length := by
  rw [colFrom_append, colFrom_trailing_newline c a x hx, colFrom_noNewline 0 b hb]
  omega

theorem colFrom_expand_after_last_newline (c : Nat) (a b : List Char) (x : Char) (hx : isCrLf x = true)
    (hb : ∀ y ∈ b, isCrLf y = false) :
    colFrom c (expand (a ++ [x] ++ b)) = b.length := by
  rw [colFrom_expand]
  exact colFrom_after_last_newline c a b x hx hb

theorem sinceNewline_after_last_newline (a b : List Char) (x : Char) (hx : isCrLf x = true)
    (hb : ∀ y ∈ b, isCrLf y = false) :
    sinceNewline (a ++ [x] ++ b) = b.length := by
  rw [← colFrom_eq_sinceNewline]
  exact colFrom_after_last_newline 0 a b x hx hb

/-- `colFrom_trailing_newline` is the case `b = []`. -/
example (c : Nat) (a : List Char) (x : Char) (hx : isCrLf x = true) : colFrom c (a ++ [x] ++ []) = 0 :=
  colFrom_after_last_newline c a [] x hx (by simp)

example : colFrom 5 (['a'] ++ ['\r'] ++ ['b', 'c']) = 2 := by decide
example : colFrom 5 (['a', '\n', 'q'] ++ ['\r'] ++ ['b', 'c']) = 2 :=
  colFrom_after_last_newline 5 _ _ _ (by decide) (by decide)

/-- The hypothesis on `b` is needed: with a CR / LF in `b` the column is shorter than `b.length`. -/
example : colFrom 0 (['a'] ++ ['\n'] ++ ['b', '\n', 'c']) = 1 := by decide

/-! ## The device: `WritePrinter.print` -/

/-- Printing a text that ends in a CR or LF leaves the device's column at 0, whatever it was. -/
theorem print_trailing_newline (p : WritePrinter) (s' : List Char) (x : Char) (hx : isCrLf x = true) :
    p.print (s' ++ [x]) = { out := p.out ++ expand (s' ++ [x]), lastColumn := 0 } := by
  rw [print_eq, colFrom_trailing_newline _ s' x hx]

theorem print_after_last_newline (p : WritePrinter) (a b : List Char) (x : Char) (hx : isCrLf x = true)
    (hb : ∀ y ∈ b, isCrLf y = false) :
    p.print (a ++ [x] ++ b) = { out := p.out ++ expand (a ++ [x] ++ b), lastColumn := b.length } := by
  rw [print_eq, colFrom_after_last_newline _ a b x hx hb]

/-- Device level: after a text that ends in a CR or LF the move to the next print zone writes exactly 14 spaces and
the column becomes 14 — whatever the device held and whatever its column was. -/
theorem zone_after_trailing_newline (p : WritePrinter) (s' : List Char) (x : Char) (hx : isCrLf x = true) :
    (p.print (s' ++ [x])).moveToNextPrintZone
      = { out := p.out ++ expand (s' ++ [x]) ++ List.replicate 14 ' ', lastColumn := 14 } := by
  rw [print_trailing_newline p s' x hx]
  exact (comma_next_zone _).1

/-- Device level: after `a ++ [x] ++ b` the move to the next print zone writes `14 - b.length % 14` spaces. -/
theorem zone_after_text_since_newline (p : WritePrinter) (a b : List Char) (x : Char) (hx : isCrLf x = true)
    (hb : ∀ y ∈ b, isCrLf y = false) :
    (p.print (a ++ [x] ++ b)).moveToNextPrintZone
      = { out := p.out ++ expand (a ++ [x] ++ b) ++ List.replicate (14 - b.length % 14) ' ',
          lastColumn := b.length + (14 - b.length % 14) } := by
  rw [print_after_last_newline p a b x hx hb]
  exact (comma_next_zone _).1

/-- The same inside any history of trait calls on one device. -/
theorem run_zone_after_trailing_newline (p : WritePrinter) (pre : List Op) (s' : List Char) (x : Char)
    (hx : isCrLf x = true) :
    p.run (pre ++ [.print (s' ++ [x]), .zone])
      = { out := (p.run pre).out ++ expand (s' ++ [x]) ++ List.replicate 14 ' ', lastColumn := 14 } := by
  rw [wp_run_append]
  exact zone_after_trailing_newline (p.run pre) s' x hx

example : ((WritePrinter.mk ['q', 'q', 'q'] 3).print (['a'] ++ ['\n'])).moveToNextPrintZone
    = ⟨['q', 'q', 'q', 'a', '\r', '\n'] ++ List.replicate 14 ' ', 14⟩ := by decide

/-! ## 3. Instruction level: the item, anything on other devices, the comma -/

/-- The one step of a plain (no USING) string item. -/
theorem step_string_item (st : St) (p : WritePrinter) (s : List Char)
    (hfmt : st.ps.formatString = none) (hp : st.dev st.ps.target = some p) :
    step st (.valueFromA (.str s))
      = .ok { ps := { st.ps with skipNewLine := false }, dev := st.dev.set st.ps.target (p.print s) } := by
  have hps : psStep st.ps (.valueFromA (.str s))
      = .ok ({ st.ps with skipNewLine := false }, some [.print s]) := by
    simp only [psStep, valueText]
    rw [hfmt]
  rw [step_write st _ _ _ p hps rfl hp]
  rfl

/-- A history none of whose printer calls addresses `d` sends no operation to `d` (the converse fails: a `PrintEnd`
after a separator addresses its device with an empty list of calls). -/
theorem opsFor_nil_of_no_events (d : Device) (evs : List (Device × List Op)) (hno : ∀ e ∈ evs, e.1 ≠ d) :
    opsFor d evs = [] := by
  induction evs with
  | nil => rfl
  | cons e r ih =>
    obtain ⟨e1, e2⟩ := e
    have h1 : e1 ≠ d := hno (e1, e2) (by simp)
    simp only [opsFor, h1, if_false]
    exact ih (fun x hx => hno x (by simp [hx]))

/-- Frame for part 3: a string item `s` on device `d`, then any history `mid` that sends no operation to `d`, then a
comma on `d`: `d` holds what `(p.print s).moveToNextPrintZone` holds. -/
theorem item_mid_comma (st st3 : St) (d : Device) (p : WritePrinter) (s : List Char) (mid : List Instr)
    (hd : st.ps.target = d) (hfmt : st.ps.formatString = none) (hp : st.dev d = some p)
    (hno : opsFor d (events { st.ps with skipNewLine := false } mid) = [])
    (hrun : run st (Instr.valueFromA (.str s) :: (mid ++ [Instr.comma])) = .ok st3)
    (hd3 : st3.ps.target = d) :
    st3.dev d = some (p.print s).moveToNextPrintZone := by
  subst hd
  simp only [run] at hrun
  rw [step_string_item st p s hfmt hp] at hrun
  simp only at hrun
  rw [run_append] at hrun
  generalize hst1 : ({ ps := { st.ps with skipNewLine := false },
                       dev := st.dev.set st.ps.target (p.print s) } : St) = st1 at hrun
  cases hm : run st1 mid with
  | error e => rw [hm] at hrun; cases hrun
  | ok st2 =>
    rw [hm] at hrun
    simp only [run] at hrun
    have hps1 : st1.ps = { st.ps with skipNewLine := false } := by rw [← hst1]
    have hdev2 : st2.dev st.ps.target = some (p.print s) := by
      rw [devices_independent st1 st2 mid hm st.ps.target, hps1, hno, ← hst1]
      simp [set_same, WritePrinter.run]
    cases hc : step st2 .comma with
    | error e => rw [hc] at hrun; cases hrun
    | ok st3' =>
      rw [hc] at hrun
      have ht3 : st3'.ps.target = st2.ps.target := by
        unfold step at hc
        simp only [psStep] at hc
        split at hc
        · cases hc
        · cases hc; rfl
      have e3 : st3' = st3 := by simpa [run] using hrun
      subst e3
      have ht2 : st2.ps.target = st.ps.target := by rw [← ht3]; exact hd3
      rw [← ht2] at hdev2
      rw [comma_instr st2 _ hdev2] at hc
      cases hc
      simp only
      rw [ht2]
      exact set_same _ _ _

/-- **comma_after_trailing_newline**: on a device `d` holding anything (`p`: any bytes, any column), a plain PRINT
item whose string ends in a lone CR or LF, then any print instructions `mid` that send no operation to `d` (`opsFor d (events …) = []`: their
printer calls go to other devices; `opsFor_nil_of_no_events`), then a comma addressed to `d`: the comma writes exactly 14 spaces on `d` and `d`'s column is 14. -/
theorem comma_after_trailing_newline (st st3 : St) (d : Device) (p : WritePrinter) (s' : List Char) (x : Char)
    (mid : List Instr) (hx : isCrLf x = true)
    (hd : st.ps.target = d) (hfmt : st.ps.formatString = none) (hp : st.dev d = some p)
    (hno : opsFor d (events { st.ps with skipNewLine := false } mid) = [])
    (hrun : run st (Instr.valueFromA (.str (s' ++ [x])) :: (mid ++ [Instr.comma])) = .ok st3)
    (hd3 : st3.ps.target = d) :
    st3.dev d = some { out := p.out ++ expand (s' ++ [x]) ++ List.replicate 14 ' ', lastColumn := 14 } := by
  rw [item_mid_comma st st3 d p _ mid hd hfmt hp hno hrun hd3, zone_after_trailing_newline p s' x hx]

/-- **comma_after_text_since_newline**: the same with text `b` (no CR / LF) after the last CR / LF of the item: the
comma writes `14 - b.length % 14` spaces — the zone is counted from the line break inside the item, not from
anything before it. -/
theorem comma_after_text_since_newline (st st3 : St) (d : Device) (p : WritePrinter) (a b : List Char) (x : Char)
    (mid : List Instr) (hx : isCrLf x = true) (hb : ∀ y ∈ b, isCrLf y = false)
    (hd : st.ps.target = d) (hfmt : st.ps.formatString = none) (hp : st.dev d = some p)
    (hno : opsFor d (events { st.ps with skipNewLine := false } mid) = [])
    (hrun : run st (Instr.valueFromA (.str (a ++ [x] ++ b)) :: (mid ++ [Instr.comma])) = .ok st3)
    (hd3 : st3.ps.target = d) :
    st3.dev d = some { out := p.out ++ expand (a ++ [x] ++ b) ++ List.replicate (14 - b.length % 14) ' ',
                       lastColumn := b.length + (14 - b.length % 14) } := by
  rw [item_mid_comma st st3 d p _ mid hd hfmt hp hno hrun hd3, zone_after_text_since_newline p a b x hx hb]

/-- From the initial state: after ANY earlier history `pre` of print instructions (on any devices), the item, `mid`
on other devices and the comma append `expand s ++ 14 spaces` to what `d` held and leave its column at 14. -/
theorem comma_after_trailing_newline_from_init (files : List Nat) (pre mid : List Instr) (st st3 : St)
    (d : Device) (p : WritePrinter) (s' : List Char) (x : Char) (hx : isCrLf x = true)
    (hpre : run (St.init files) pre = .ok st)
    (hd : st.ps.target = d) (hfmt : st.ps.formatString = none) (hp : st.dev d = some p)
    (hno : opsFor d (events { st.ps with skipNewLine := false } mid) = [])
    (hrun : run (St.init files) (pre ++ Instr.valueFromA (.str (s' ++ [x])) :: (mid ++ [Instr.comma])) = .ok st3)
    (hd3 : st3.ps.target = d) :
    st3.dev d = some { out := p.out ++ expand (s' ++ [x]) ++ List.replicate 14 ' ', lastColumn := 14 }
    ∧ sinceNewline (p.out ++ expand (s' ++ [x]) ++ List.replicate 14 ' ') = 14 := by
  rw [run_append, hpre] at hrun
  have h := comma_after_trailing_newline st st3 d p s' x mid hx hd hfmt hp hno hrun hd3
  refine ⟨h, ?_⟩
  have hr : run (St.init files) (pre ++ Instr.valueFromA (.str (s' ++ [x])) :: (mid ++ [Instr.comma])) = .ok st3 := by
    rw [run_append, hpre]; exact hrun
  exact (column_tracks_text_all files _ st3 hr d _ h).symm

/-! ### Non-vacuity: the hypotheses hold on a history that interleaves another device -/

/-- `PRINT #1, "ab" + CHR$(13);` … `PRINT "zzz"` on the screen … then a comma on file 1. -/
example :
    let st : St := ⟨{ PrintState.new with printerType := .file, fileHandle := 1 },
                    (St.init [1]).dev.set (.file 1) ⟨['q', 'q', 'q', 'q', 'q'], 5⟩⟩
    let mid : List Instr := [.semicolon, .printEnd] ++ lower ⟨.screen, none, [.expr (.str ['z', 'z', 'z'])]⟩
      ++ [.setPrinterType .file, .setFileHandle 1]
    st.ps.target = .file 1 ∧ st.ps.formatString = none
    ∧ st.dev (.file 1) = some ⟨['q', 'q', 'q', 'q', 'q'], 5⟩
    ∧ opsFor (.file 1) (events { st.ps with skipNewLine := false } mid) = []
    ∧ ∃ st3, run st (Instr.valueFromA (.str (['a', 'b'] ++ ['\r'])) :: (mid ++ [Instr.comma])) = .ok st3
        ∧ st3.ps.target = .file 1
        ∧ st3.dev (.file 1) = some ⟨['q', 'q', 'q', 'q', 'q', 'a', 'b', '\r', '\n'] ++ List.replicate 14 ' ', 14⟩
        ∧ st3.dev .screen = some ⟨['z', 'z', 'z', '\r', '\n'], 0⟩ := by
  refine ⟨rfl, rfl, by decide, by decide, _, rfl, rfl, by decide, by decide⟩

/-! ## 4. Evaluated examples -/

/-- `PRINT "abc" + CHR$(10); : PRINT "x", "y"`: the second statement starts at column 0, so `y` is in the second
zone: `x`, 13 spaces, `y`. -/
example : ∃ st', run (St.init []) (lowerProgram
      [⟨.screen, none, [.expr (.str ['a', 'b', 'c', '\n']), .semicolon]⟩,
       ⟨.screen, none, [.expr (.str ['x']), .comma, .expr (.str ['y'])]⟩]) = .ok st'
    ∧ st'.dev .screen
        = some ⟨['a', 'b', 'c', '\r', '\n'] ++ ['x'] ++ List.replicate 13 ' ' ++ ['y', '\r', '\n'], 0⟩ :=
  ⟨_, rfl, by decide⟩

/-- The same with a lone CR. -/
example : (runOn .screen WritePrinter.new
      [⟨.screen, none, [.expr (.str ['a', 'b', 'c', '\r']), .semicolon]⟩,
       ⟨.screen, none, [.expr (.str ['x']), .comma, .expr (.str ['y'])]⟩]).toOption
    = some ⟨['a', 'b', 'c', '\r', '\n'] ++ ['x'] ++ List.replicate 13 ' ' ++ ['y', '\r', '\n'], 0⟩ := by decide

/-- `PRINT #1, "abc" + CHR$(10); : PRINT "hello"; : PRINT #1, "x", "y"`: the file's column is 0 after the first
statement and the screen PRINT in between does not move it. -/
example : ∃ st', run (St.init [1]) (lowerProgram
      [⟨.file 1, none, [.expr (.str ['a', 'b', 'c', '\n']), .semicolon]⟩,
       ⟨.screen, none, [.expr (.str ['h', 'e', 'l', 'l', 'o']), .semicolon]⟩,
       ⟨.file 1, none, [.expr (.str ['x']), .comma, .expr (.str ['y'])]⟩]) = .ok st'
    ∧ st'.dev (.file 1)
        = some ⟨['a', 'b', 'c', '\r', '\n'] ++ ['x'] ++ List.replicate 13 ' ' ++ ['y', '\r', '\n'], 0⟩
    ∧ st'.dev .screen = some ⟨['h', 'e', 'l', 'l', 'o'], 5⟩ :=
  ⟨_, rfl, by decide, by decide⟩

/-- The comma directly after the item, in one statement: `PRINT "abc" + CHR$(10), "y"` pads a whole zone. -/
example : (runOn .screen WritePrinter.new
      [⟨.screen, none, [.expr (.str ['a', 'b', 'c', '\n']), .comma, .expr (.str ['y'])]⟩]).toOption
    = some ⟨['a', 'b', 'c', '\r', '\n'] ++ List.replicate 14 ' ' ++ ['y', '\r', '\n'], 0⟩ := by decide

end RbThm.C16Newline
