import Thm.ProcJSimBase
import Thm.ProcJShape
import Thm.ProcJDepths
/-!
Layer "procedures ∪ jumps", simulation part — the jump-handling rule, VM side: a jump that came out of a part of a statement
to a label *inside* the statement is a re-entry of the statement in seek mode (`restart_seek`); every other outcome of the part
that is not `normal` is the outcome of the statement (`StmtPost.pass`); `catch_spec` packages the rule as the reference
semantics writes it.  `JumpDepths` is the one fact of the reference semantics the rule needs (a `jump L` that comes out of a
well-formed statement names a label that is outside it and not deeper): proved in `Thm/ProcJDepths.lean`, taken as a hypothesis
by the case files so that they do not depend on it.
-/
namespace RbThm.ProcJSim
set_option linter.unusedVariables false
set_option linter.unusedSimpArgs false
open RbModel RbModel.ProcJ RbModel.ProcJ.Compile RbModel.ProcJ.Vm
open RbModel.Num hiding Expr
open RbModel.Ast (Pos)
open RbModel.Proc (Var SlotTabs Expr Args PrintItem CaseExpr ProcDecl zeroOf Sigs sigsOf)
open RbModel.Proc.Compile (Layout Layout.addr sizeExpr sizePush refCount sizeExprTo sizeSubCall sizeItems sizeCaseExpr sizeConds
  sizeExit labelName stepSuffix maxPos)
open RbModel.Proc.Vm (Regs Regs.new Frame CtxState getVar setVar curVars modCur curStatic applyArgs readVars binInstr)
open RbModel.ProcJ.Ref (Outcome Mode Act)
open RbThm.ProcJLen
open RbThm.ProcSim (Scope)


/-- the fact of the reference semantics the jump-handling rule needs (`Thm/ProcJDepths.lean` proves it for every world) -/
def JumpDepths (W : World) : Prop :=
  ∀ (sc : Scope) (labs : List Nat) (stmt : SStmt) (d e : Nat), Wf W.sg sc W.env.dp labs d e stmt →
    ∀ (fuel : Nat) (A : Act) (m : Mode) (s s' : St) (L : Nat),
      ProcJ.Ref.exec W.P fuel A (desugar stmt) m s = (s', .jump L) →
      L ∉ stmt.labels ∧ (W.env.dp.fd L ≤ d ∧ W.env.dp.sd L ≤ e)

/-- an outcome that ends the run or the activation, or is outside the claim, is passed on by every construct, whatever the
depths and the end address (`exited` is anchored at the bottom of the stacks: `ExitedTo` does not mention depths) -/
theorem StmtPost.pass {W : World} {sc : Scope} {below : List CtxState} {fd sd fin fd' sd' fin' : Nat} {σ : Vm} {s' : St}
    {o : Outcome} (ho : ∀ L, o ≠ .jump L) (hn : o ≠ .normal) (hr : ∀ p, o ≠ .ret p)
    (h : StmtPost W sc below fd sd fin σ (s', o)) : StmtPost W sc below fd' sd' fin' σ (s', o) := by
  cases o with
  | normal => exact absurd rfl hn
  | jump L => exact absurd rfl (ho L)
  | ret p => exact absurd rfl (hr p)
  | exited => exact h
  | halted => exact h
  | error c p => exact h
  | inexact => trivial
  | outOfFuel => trivial
  | illFormed => trivial
  | notHere => trivial

/-- a jump that leaves a sub-statement at the same depths towards a label *inside* the enclosing statement arrives at the
label with the stacks of the entry state: the enclosing statement can be re-entered in seek mode -/
theorem jump_caught {W : World} {sc : Scope} {below : List CtxState} {fd sd fin : Nat} {σ : Vm} {s' : St} {L : Nat}
    (h : StmtPost W sc below fd sd fin σ (s', .jump L)) (h1 : W.env.dp.fd L ≤ fd) (h2 : fd ≤ W.env.dp.fd L)
    (h3 : W.env.dp.sd L ≤ sd) (h4 : sd ≤ W.env.dp.sd L) :
    ∃ τ, Steps W.code σ τ ∧ τ.pc = W.env.addr L ∧ Rel W sc [] below s' τ ∧ SameStacks σ τ := by
  obtain ⟨τ, st, hp, hr, e1, e2, e3, e4, e5, e6, e7, e8⟩ := h
  have hd : fd - W.env.dp.fd L = 0 := by omega
  have he : sd - W.env.dp.sd L = 0 := by omega
  rw [hd] at e1; rw [he] at e2
  exact ⟨τ, st, hp, hr, ⟨by simpa using e2, e3, by simpa using e1, e5, e6, e4, e7, e8⟩⟩

/-- **the jump-handling rule, VM side**: a jump that came out of a part of `stmt` (specification relative to `σ` at the depths
of `stmt`) to a label *inside* `stmt` is a re-entry of `stmt` in seek mode, one unit of fuel down -/
theorem restart_seek {W : World} {fuel : Nat} (ih : StmtIH W fuel) {B : BodyCtx} (hB : B.Ok W) {stmt : SStmt} {sfx : String}
    {fd sd off : Nat} {below : List CtxState} {σ : Vm}
    (hc : CodeAt W.code off (compileStmt W.lay W.env sfx fd sd off stmt)) (hl : LabAt W.env fd sd off stmt)
    (hw : Wf W.sg B.sc W.env.dp B.body.labels fd sd stmt) (hinv : ActInv B.sc fd sd σ)
    {fin : Nat} {s' : St} {L : Nat} (h : StmtPost W B.sc below fd sd fin σ (s', .jump L))
    (hdep : W.env.dp.fd L ≤ fd ∧ W.env.dp.sd L ≤ sd) (hL : L ∈ stmt.labels) :
    StmtPost W B.sc below fd sd (off + sizeStmt W.env.dp fd sd stmt) σ
      (ProcJ.Ref.exec W.P fuel B.act (desugar stmt) (.seek L) s') := by
  obtain ⟨g1, g2⟩ := hl.depth_ge hL
  obtain ⟨τ, st, hp, hr, hss⟩ := jump_caught h hdep.1 g1 hdep.2 g2
  have := ih B stmt sfx fd sd off (.seek L) below s' τ hB hc hl hw ⟨hL, hp⟩ hr (hinv.of_same hss)
  exact StmtPost.of_steps st hss this

/-- the jump-handling rule of a construct, as the reference semantics writes it (`match r with | (s', .jump L) => if … then
restart else pass | r => r`), given the specification of the part's result relative to the construct's entry state -/
theorem catch_spec {W : World} {fuel : Nat} (ih : StmtIH W fuel) {B : BodyCtx} (hB : B.Ok W) {stmt : SStmt} {sfx : String}
    {fd sd off : Nat} {below : List CtxState} {σ : Vm}
    (hc : CodeAt W.code off (compileStmt W.lay W.env sfx fd sd off stmt)) (hl : LabAt W.env fd sd off stmt)
    (hw : Wf W.sg B.sc W.env.dp B.body.labels fd sd stmt) (hinv : ActInv B.sc fd sd σ)
    (r1 : St × Outcome) (h1 : StmtPost W B.sc below fd sd (off + sizeStmt W.env.dp fd sd stmt) σ r1)
    (hdep : ∀ s' L, r1 = (s', .jump L) → W.env.dp.fd L ≤ fd ∧ W.env.dp.sd L ≤ sd) :
    StmtPost W B.sc below fd sd (off + sizeStmt W.env.dp fd sd stmt) σ
      (match (generalizing := false) r1 with
       | (s', .jump L) =>
         if (desugar stmt).hasLabel L = true then ProcJ.Ref.exec W.P fuel B.act (desugar stmt) (.seek L) s' else (s', .jump L)
       | r => r) := by
  obtain ⟨s1, o1⟩ := r1
  cases o1 with
  | jump L =>
    simp only
    by_cases hL : (desugar stmt).hasLabel L = true
    · simp only [hL, if_true]
      exact restart_seek ih hB hc hl hw hinv h1 (hdep _ _ rfl) ((hasLabel_iff hw L).mp hL)
    · simp only [hL]
      exact h1
  | normal => exact h1
  | exited => exact h1
  | halted => exact h1
  | ret p => exact h1
  | error c p => exact h1
  | inexact => trivial
  | outOfFuel => trivial
  | illFormed => trivial
  | notHere => trivial

end RbThm.ProcJSim
