import Thm.JmpLSimBase
/-!
Jump layer, simulation part: `READ` (port of `C01SimRead.case_read`).  `READ a, b` is generated as `READ a : READ b` (one call
of the built-in per variable) and desugared to `readSeq`; no label can be inside, so the statement is only entered from its
first instruction and the jump-handling rule of the desugared `seq`s never fires.
-/
namespace RbThm.JmpLSim
set_option linter.unusedVariables false
set_option linter.unusedSimpArgs false
open RbModel RbModel.Num RbModel.JmpL RbModel.JmpL.Compile RbModel.JmpL.Vm
open RbModel.Ast (Pos PrintItem CaseExpr)
open RbModel.Ref (St ERes eval evalTo codeOf codeOutOfData codeZeroStep zeroOf truthy printValue endsInSeparator StepSign
  binStep lift)
open RbModel.JmpL.Ref
open RbThm.JmpLLen
open RbThm.C01Sim (Typed SlotsBelow ExprWt NumericAt NumericCond ItemsSlots CaseSlots CondsSlots)

/-- the code of one single-variable READ -/
def readBlock (p : Pos) (v : Nat × Ty × Pos) : Code :=
  [(CInstr.beginArgs, p), (CInstr.varPath v.1, v.2.2), (CInstr.copyVarPathToA, v.2.2), (CInstr.pushByRef, v.2.2),
   (CInstr.pushStack, p), (CInstr.builtInRead, p), (CInstr.enqueue 0, v.2.2), (CInstr.popStack, p),
   (CInstr.dequeue, v.2.2), (CInstr.varPath v.1, v.2.2), (CInstr.copyAToVarPath, v.2.2)]

theorem compile_read (env : LEnv) (sfx : String) (d e off : Nat) (vars : List (Nat × Ty × Pos)) (p : Pos) :
    compileStmt env sfx d e off (.read vars p) =
      if vars.isEmpty then
        [(CInstr.beginArgs, p), (CInstr.pushStack, p), (CInstr.builtInRead, p), (CInstr.popStack, p)]
      else vars.flatMap (readBlock p) := by
  simp only [compileStmt]
  rfl

/-- **one single-variable READ**: the built-in converts the next DATA item to the type of the value the variable holds
(`v0`, of the declared type `t`), the converted value travels through the return queue back into the variable -/
theorem one_read (C : Ctx) (d e : Nat) (f : Nat) (x : Nat) (t : Ty) (q p : Pos) (off : Nat) (σ : Vm) (s : St) (v0 : Val)
    (hc : CodeAt C.code off (readBlock p (x, t, q))) (hpc : σ.pc = off) (hr : Rel C.sl s σ)
    (hx : C.sl[x]? = some t) (hv0 : s.env[x]? = some v0) (htag : v0.tag = t) :
    StmtSpec C d e (off + 11) σ (exec (f + 1) C.P (.read x t p) .run s) := by
  subst hpc
  simp only [readBlock] at hc
  have h0 : C.code[σ.pc]? = some (CInstr.beginArgs, p) := hc.head
  have h1 : C.code[σ.pc + 1]? = some (CInstr.varPath x, q) := hc.tail.head
  have h2 : C.code[σ.pc + 1 + 1]? = some (CInstr.copyVarPathToA, q) := hc.tail.tail.head
  have h3 : C.code[σ.pc + 1 + 1 + 1]? = some (CInstr.pushByRef, q) := hc.tail.tail.tail.head
  have h4 : C.code[σ.pc + 1 + 1 + 1 + 1]? = some (CInstr.pushStack, p) := hc.tail.tail.tail.tail.head
  have h5 : C.code[σ.pc + 1 + 1 + 1 + 1 + 1]? = some (CInstr.builtInRead, p) := hc.tail.tail.tail.tail.tail.head
  have h6 : C.code[σ.pc + 1 + 1 + 1 + 1 + 1 + 1]? = some (CInstr.enqueue 0, q) := hc.tail.tail.tail.tail.tail.tail.head
  have h7 : C.code[σ.pc + 1 + 1 + 1 + 1 + 1 + 1 + 1]? = some (CInstr.popStack, p) :=
    hc.tail.tail.tail.tail.tail.tail.tail.head
  have h8 : C.code[σ.pc + 1 + 1 + 1 + 1 + 1 + 1 + 1 + 1]? = some (CInstr.dequeue, q) :=
    hc.tail.tail.tail.tail.tail.tail.tail.tail.head
  have h9 : C.code[σ.pc + 1 + 1 + 1 + 1 + 1 + 1 + 1 + 1 + 1]? = some (CInstr.varPath x, q) :=
    hc.tail.tail.tail.tail.tail.tail.tail.tail.tail.head
  have h10 : C.code[σ.pc + 1 + 1 + 1 + 1 + 1 + 1 + 1 + 1 + 1 + 1]? = some (CInstr.copyAToVarPath, q) :=
    hc.tail.tail.tail.tail.tail.tail.tail.tail.tail.tail.head
  have hs : σ.env[x]? = some v0 := by rw [hr.env]; exact hv0
  let σ1 : Vm := advance { σ with args := [] }
  let σ2 : Vm := advance { σ1 with paths := x :: σ1.paths }
  let σ3 : Vm := advance (setA σ2 v0)
  let σ4 : Vm := advance { σ3 with args := [(v0, some x)], paths := σ.paths }
  let σ5 : Vm := advance { σ4 with callPos := p }
  have s1 : Vm.step C.code σ = .next σ1 := by simp only [Vm.step, h0]; rfl
  have s2 : Vm.step C.code σ1 = .next σ2 := by simp only [Vm.step, σ1, advance, h1]; rfl
  have s3 : Vm.step C.code σ2 = .next σ3 := by simp only [Vm.step, σ2, σ1, advance, h2, hs]; rfl
  have s4 : Vm.step C.code σ3 = .next σ4 := by simp only [Vm.step, σ3, σ2, σ1, advance, setA, h3]; rfl
  have s5 : Vm.step C.code σ4 = .next σ5 := by simp only [Vm.step, σ4, σ3, σ2, σ1, advance, setA, h4]; rfl
  have pre : Steps C.code σ σ5 := Steps.cons s1 (Steps.cons s2 (Steps.cons s3 (Steps.cons s4 (Steps.one s5))))
  have hread : Vm.step C.code σ5 =
      match readArgs [(v0, some x)] s.data s.dataIdx with
      | .inr () => .error Ref.codeOutOfData p σ5
      | .inl (.error e) => .error (Ref.codeOf e) p σ5
      | .inl (.ok (args', idx')) => .next (advance { σ5 with args := args', dataIdx := idx' }) := by
    have h5' : C.code[σ5.pc]? = some (CInstr.builtInRead, p) := h5
    have e : readArgs σ5.args σ5.data σ5.dataIdx = readArgs [(v0, some x)] s.data s.dataIdx := by
      have e2 : σ5.data = s.data := hr.data
      have e3 : σ5.dataIdx = s.dataIdx := hr.dataIdx
      rw [e2, e3]; rfl
    simp only [Vm.step, h5']
    rw [e]; rfl
  simp only [exec]
  cases hd : s.data[s.dataIdx]? with
  | none =>
    simp only [StmtSpec]
    refine ⟨σ.env, σ5, σ5, pre, ?_, rfl, hr.out⟩
    rw [hread]; simp only [readArgs, hd]
  | some v =>
    simp only
    cases hcst : Num.cast v t with
    | inexact => simp only [StmtSpec]
    | err e =>
      simp only [StmtSpec]
      refine ⟨σ.env, σ5, σ5, pre, ?_, rfl, hr.out⟩
      rw [hread]; simp only [readArgs, hd, htag, hcst]
    | ok w =>
      simp only [StmtSpec]
      let σ6 : Vm := advance { σ5 with args := [(w, some x)], dataIdx := s.dataIdx + 1 }
      let σ7 : Vm := advance { σ6 with queue := σ6.queue ++ [w] }
      let σ8 : Vm := advance { σ7 with args := [] }
      let σ9 : Vm := advance { setA σ8 w with queue := [] }
      let σ10 : Vm := advance { σ9 with paths := x :: σ9.paths }
      let σ11 : Vm := advance { σ10 with env := σ10.env.set x σ10.regs.a, paths := σ.paths }
      have s6 : Vm.step C.code σ5 = .next σ6 := by
        rw [hread]; simp only [readArgs, hd, htag, hcst]; rfl
      have s7 : Vm.step C.code σ6 = .next σ7 := by
        have h6' : C.code[σ6.pc]? = some (CInstr.enqueue 0, q) := h6
        have ha : σ6.args[0]? = some (w, some x) := rfl
        simp only [Vm.step, h6', ha]; rfl
      have s8 : Vm.step C.code σ7 = .next σ8 := by
        have h7' : C.code[σ7.pc]? = some (CInstr.popStack, p) := h7
        simp only [Vm.step, h7']; rfl
      have s9 : Vm.step C.code σ8 = .next σ9 := by
        have h8' : C.code[σ8.pc]? = some (CInstr.dequeue, q) := h8
        have hq8 : σ8.queue = [w] := by show σ.queue ++ [w] = [w]; rw [hr.queue]; rfl
        simp only [Vm.step, h8', hq8]; rfl
      have s10 : Vm.step C.code σ9 = .next σ10 := by
        have h9' : C.code[σ9.pc]? = some (CInstr.varPath x, q) := h9
        simp only [Vm.step, h9']; rfl
      have s11 : Vm.step C.code σ10 = .next σ11 := by
        have h10' : C.code[σ10.pc]? = some (CInstr.copyAToVarPath, q) := h10
        have hp10 : σ10.paths = x :: σ.paths := rfl
        simp only [Vm.step, h10', hp10]; rfl
      refine ⟨σ11, pre.trans (Steps.cons s6 (Steps.cons s7 (Steps.cons s8 (Steps.cons s9
        (Steps.cons s10 (Steps.one s11)))))), rfl, ?_, ⟨rfl, rfl, rfl, rfl⟩⟩
      have hwt : w.tag = t := RbThm.C01Sim.SimRead.cast_tag v t w hcst
      refine ⟨?_, RbThm.C01Sim.SimRead.typed_set hr.typed hx hwt, hr.out, hr.skip, hr.data, ?_, rfl⟩
      · show σ.env.set x w = s.env.set x w
        rw [hr.env]
      · show s.dataIdx + 1 = s.dataIdx + 1
        rfl

theorem hasLabel_readSeq (p : Pos) (vars : List (Nat × Ty × Pos)) (L : Nat) : (readSeq p vars).hasLabel L = false := by
  simp [Stmt.hasLabel, labels_readSeq]

/-- the rounds of a READ statement: `readSeq` against the blocks, one unit of fuel per round -/
theorem reads_correct (C : Ctx) (d e : Nat) (p : Pos) :
    ∀ (vars : List (Nat × Ty × Pos)) (fuel : Nat) (off : Nat) (σ : Vm) (s : St),
      CodeAt C.code off (vars.flatMap (readBlock p)) → σ.pc = off → Rel C.sl s σ →
      (∀ v ∈ vars, C.sl[v.1]? = some v.2.1) →
      StmtSpec C d e (off + 11 * vars.length) σ (exec (fuel + 1) C.P (readSeq p vars) .run s)
  | [], fuel, off, σ, s, _, hpc, hr, _ => by
    simp only [readSeq, exec, StmtSpec]
    exact ⟨σ, Steps.refl σ, by simp [hpc], hr, SameStacks.refl σ⟩
  | (x, t, q) :: rest, fuel, off, σ, s, hc, hpc, hr, hw => by
    simp only [List.flatMap_cons] at hc
    have hnl : ∀ L, (Stmt.seq (.read x t p) (readSeq p rest)).hasLabel L = false := by
      intro L; exact hasLabel_readSeq p ((x, t, q) :: rest) L
    simp only [readSeq, exec, Mode.enters, if_true]
    cases fuel with
    | zero => simp only [exec, StmtSpec]
    | succ f =>
      have hx : C.sl[x]? = some t := hw (x, t, q) (List.mem_cons_self ..)
      obtain ⟨v0, hv0, htag⟩ := hr.typed.2 x t hx
      have h1 := one_read C d e f x t q p off σ s v0 hc.append_left hpc hr hx hv0 htag
      generalize hra : exec (f + 1) C.P (Stmt.read x t p) .run s = ra at h1 ⊢
      obtain ⟨s1, o1⟩ := ra
      cases o1 with
      | normal =>
        obtain ⟨τ, st, hp, hrel, hss⟩ := h1
        have hcr : CodeAt C.code (off + 11) (rest.flatMap (readBlock p)) := hc.append_right
        have h2 := reads_correct C d e p rest f (off + 11) τ s1 hcr hp hrel
          (fun v hv => hw v (List.mem_cons_of_mem _ hv))
        have hfin : off + 11 + 11 * rest.length = off + 11 * ((x, t, q) :: rest).length := by
          simp only [List.length_cons]; omega
        have h3 := StmtSpec.of_steps st hss (h2.addr hfin)
        simp only
        generalize exec (f + 1) C.P (readSeq p rest) .run s1 = rb at h3 ⊢
        obtain ⟨s2, o2⟩ := rb
        cases o2 with
        | jump L => simp only [hnl L]; exact h3
        | _ => exact h3
      | jump L => simp only [hnl L]; exact h1
      | halted => exact h1
      | error c q' => exact h1
      | ret q' => exact h1
      | inexact => trivial
      | outOfFuel => trivial
      | illFormed => trivial
      | notHere => trivial

/-- **READ**: one call of the built-in per variable; a READ without variables is an empty call -/
theorem case_read (C : Ctx) (fuel : Nat) (vars : List (Nat × Ty × Pos)) (p : Pos) (sfx : String) (d e off : Nat)
    (m : Mode) (σ : Vm) (s : St)
    (hc : CodeAt C.code off (compileStmt C.env sfx d e off (.read vars p)))
    (hw : Wf C.sl C.env.dp d e (.read vars p))
    (hen : Entry C.env off (.read vars p) m σ) (hr : Rel C.sl s σ) :
    StmtSpec C d e (off + sizeStmt C.env.dp d e (.read vars p)) σ (exec (fuel + 1) C.P (desugar (.read vars p)) m s) := by
  obtain ⟨rfl, hpc⟩ := hen.of_nolabels rfl
  rw [compile_read] at hc
  simp only [Wf] at hw
  cases vars with
  | nil =>
    simp only [List.isEmpty_nil, if_true] at hc
    subst hpc
    have h0 : C.code[σ.pc]? = some (CInstr.beginArgs, p) := hc.head
    have h1 : C.code[σ.pc + 1]? = some (CInstr.pushStack, p) := hc.tail.head
    have h2 : C.code[σ.pc + 1 + 1]? = some (CInstr.builtInRead, p) := hc.tail.tail.head
    have h3 : C.code[σ.pc + 1 + 1 + 1]? = some (CInstr.popStack, p) := hc.tail.tail.tail.head
    let σ1 : Vm := advance { σ with args := [] }
    let σ2 : Vm := advance { σ1 with callPos := p }
    let σ3 : Vm := advance { σ2 with args := [], dataIdx := σ2.dataIdx }
    let σ4 : Vm := advance { σ3 with args := [] }
    have s1 : Vm.step C.code σ = .next σ1 := by simp only [Vm.step, h0]; rfl
    have s2 : Vm.step C.code σ1 = .next σ2 := by simp only [Vm.step, σ1, advance, h1]; rfl
    have s3 : Vm.step C.code σ2 = .next σ3 := by
      have h2' : C.code[σ2.pc]? = some (CInstr.builtInRead, p) := h2
      have ha : σ2.args = [] := rfl
      simp only [Vm.step, h2', ha, readArgs]; rfl
    have s4 : Vm.step C.code σ3 = .next σ4 := by
      have h3' : C.code[σ3.pc]? = some (CInstr.popStack, p) := h3
      simp only [Vm.step, h3']; rfl
    simp only [desugar, readSeq, exec, sizeStmt, List.isEmpty_nil, if_true, StmtSpec]
    exact ⟨σ4, Steps.cons s1 (Steps.cons s2 (Steps.cons s3 (Steps.one s4))), rfl,
      hr.same rfl rfl rfl rfl rfl rfl, ⟨rfl, rfl, rfl, rfl⟩⟩
  | cons v rest =>
    simp only [List.isEmpty_cons, Bool.false_eq_true, if_false] at hc
    have h := reads_correct C d e p (v :: rest) fuel off σ s hc hpc hr hw
    simp only [desugar, sizeStmt, List.isEmpty_cons, Bool.false_eq_true, if_false]
    exact h

end RbThm.JmpLSim
