import Thm.AoRSimExpr0
import Thm.AoRSimIdx
import Thm.AoRSimElem
import Thm.AoRSimCall
/-!
Layer AoR, simulation part — **the expression theorem**: one mutual structural recursion over `AoR.Expr` / `AoR.Exprs`
that puts the case lemmas together:

* `case_lit`, `case_var`, `case_un`, `case_paren`, `case_bin` (`Thm/AoRSimExpr0.lean`: ports of the records layer),
* `idx_nil`, `idx_cons` (`Thm/AoRSimIdx.lean`: the subscripts of a path),
* `case_elem` (`Thm/AoRSimElem.lean`: an element `a(i…)` or a field `a(i…).f.g` of it),
* `case_bound`, `case_boundD` (`Thm/AoRSimCall.lean`: `LBOUND` / `UBOUND`).

The theorems are named `expr_correct_real` / `idx_correct_real` because `expr_correct` is the name of the hypothetical
form (`[ExprOk]`) the statement case files are written against (`Thm/AoRSimExprHyp.lean`); `Thm/AoRSim.lean` discharges
that hypothesis with `instance : ExprOk := ⟨expr_correct_real⟩`.  Neither theorem has an `[ExprOk]` argument.
-/
namespace RbThm.AoRSim
set_option linter.unusedVariables false
open RbModel RbModel.Num RbModel.AoR RbModel.AoR.Compile RbModel.AoR.Vm
open RbModel.Ast (Pos)
open RbModel.RecL (ETy FTy FFields expand zeroOf)

mutual
/-- **expressions**: the code of every well-formed expression leaves `AoR.Ref.eval` of it in register A (a scalar, or the
whole tree of a record), or ends the run with the error the reference semantics reports, at the same position -/
theorem expr_correct_real (code : Code) (sc : Scope) : (e : AoR.Expr) → RvSpec code sc e
  | .lit v p => case_lit code sc v p
  | .var x path t p => case_var code sc x path t p
  | .un op e p => case_un code sc op e p (expr_correct_real code sc e)
  | .bin op l r t p => case_bin code sc op l r t p (expr_correct_real code sc l) (expr_correct_real code sc r)
  | .paren e p => case_paren code sc e p (expr_correct_real code sc e)
  | .elem a idx path t p => case_elem code sc a idx path t p (idx_correct_real code sc idx)
  | .bound up a ap p => case_bound code sc up a ap p
  | .boundD up a ap d p => case_boundD code sc up a ap d p (expr_correct_real code sc d)
/-- **subscripts**: the code of a subscript list extends the path on top of the path stack by the converted subscripts
(`AoR.Ref.evalIdx`), leaving A alone, or ends the run with the error the reference semantics reports -/
theorem idx_correct_real (code : Code) (sc : Scope) : (idx : Exprs) → IdxSpec code sc idx
  | .nil => idx_nil code sc
  | .cons e rest => idx_cons code sc e rest (expr_correct_real code sc e) (idx_correct_real code sc rest)
end

end RbThm.AoRSim
