import Thm.C01SimBase
import Thm.C01SimIf
import Thm.C01SimDo
import Thm.C01SimSelect
import Thm.C01SimFor
import Thm.C01SimRead
import Thm.C01SimProg
/-!
C01, simulation part — the statement theorem and the whole-program theorem.

`Thm/C01SimBase.lean` holds the infrastructure and the cases for sequencing, DIM, assignment, PRINT, WHILE and END;
`Thm/C01Sim{If,Do,Select,For,Read}.lean` the cases for IF/ELSEIF/ELSE, the four DO forms, SELECT CASE, FOR with and
without STEP, and READ (with type preservation of the reference semantics); `Thm/C01SimProg.lean` the lift to whole
programs (DATA hoisting, the DATA phase, the final `Halt`).  Here they are put together.
-/
namespace RbThm.C01Sim
open RbModel RbModel.Num RbModel.Ast RbModel.Src RbModel.Core RbModel.CoreVm RbModel.Ref
open RbThm.C01Len

theorem stmtIH_zero (code : Code) : StmtIH code 0 := by
  intro stmt sfx off σ s sl _ _ _ _ _
  simp [exec, StmtSpec]

/-- one more unit of fuel: every construct of the core language, given the theorem at all smaller amounts -/
theorem stmtIH_succ (code : Code) (fuel : Nat) (ih : StmtIHle code fuel) : StmtIH code (fuel + 1) := by
  intro stmt sfx off σ s sl hc hpc hr hw hty
  have ih0 : StmtIH code fuel := ih fuel (Nat.le_refl _)
  cases stmt with
  | skip =>
    simp only [desugar, exec, StmtSpec, sizeStmt]
    exact ⟨σ, Steps.refl σ, by simpa using hpc, hr, SameStacks.refl σ, trivial⟩
  | comment =>
    simp only [desugar, exec, StmtSpec, sizeStmt]
    exact ⟨σ, Steps.refl σ, by simpa using hpc, hr, SameStacks.refl σ, trivial⟩
  | seq a b => exact case_seq code fuel ih0 exec_typed a b sfx off σ s hc hpc hr sl hw hty
  | dim x t p => exact case_dim code x t p sfx off σ s fuel hc hpc hr
  | assign x t e p => exact case_assign code x t e p sfx off σ s fuel hc hpc hr sl hw hty
  | print items p => exact case_print code items p sfx off σ s fuel hc hpc hr sl hw hty
  | «while» c body p => exact case_while code fuel ih0 exec_typed c body p sfx off σ s hc hpc hr sl hw hty
  | end_ p => exact case_end code p sfx off σ s fuel hc hpc hr
  | data _ _ => exact hw.elim
  | read vars p => exact case_read code fuel vars p sfx off σ s hc hpc hr sl hw hty
  | ifBlock c thn elifs hasElse els p =>
    exact case_if code fuel ih exec_typed c thn elifs hasElse els p sfx off σ s hc hpc hr sl hw hty
  | select e cases hasElse els p =>
    exact case_select code fuel ih exec_typed e cases hasElse els p sfx off σ s hc hpc hr sl hw hty
  | forLoop x t lo hi step body p =>
    exact case_for code fuel ih exec_typed x t lo hi step body p sfx off σ s hc hpc hr sl hw hty
  | doLoop c top u body p => exact case_do code fuel ih exec_typed c top u body p sfx off σ s hc hpc hr sl hw hty

theorem stmtIHle_all (code : Code) : ∀ fuel, StmtIHle code fuel := by
  intro fuel
  induction fuel with
  | zero =>
    intro f hf
    have : f = 0 := by omega
    subst this
    exact stmtIH_zero code
  | succ n ih =>
    intro f hf
    by_cases h : f ≤ n
    · exact ih f h
    · have : f = n + 1 := by omega
      subst this
      exact stmtIH_succ code n ih

/-- **`compileStmt_correct`** — every statement of the core language (sequencing, comments, DIM, assignment with
conversion, PRINT, READ, IF / ELSEIF / ELSE, SELECT CASE with simple / IS / range items, FOR with and without STEP,
WHILE, the four DO forms, END): for every amount of fuel, the code of a well-formed statement placed anywhere in a
program and started in a VM state that represents reference state `s` does what `Ref.exec` prescribes — it reaches the
end of the statement's code in a state representing the prescribed final state, with value stack, var-path stack and
register stack restored (normal end); or it halts in such a state (END); or it stops with the prescribed error code
at the prescribed position with the prescribed output.  No bound on program size, nesting depth or run length. -/
theorem compileStmt_correct (code : Code) : ∀ fuel, StmtIH code fuel :=
  fun fuel => stmtIHle_all code fuel fuel (Nat.le_refl _)

/-- **`C01_core_correct`** — whole programs: for every core program whose statements are well formed (`WfTop`:
what the checker establishes — names resolved to typed slots, numeric conditions — plus DATA only at top level) and
every amount of fuel, if the reference semantics `Ref.run` ends normally or with END, the VM model running the code
the generator model emits (`Core.compile`) from the initial state reaches a `Halt` with the same variables and the same
output; if it ends with BASIC error `c` at position `p`, the VM stops with error `c` at `p` with the same output. -/
theorem C01_core_correct (prog : SProgram) (fuel : Nat) (hw : WfTop prog.slots prog.body) :
    match Ref.run fuel prog.toAst with
    | (s', .normal) => ∃ τ υ, Steps (compile prog) (Vm.init prog.slots) τ ∧
        CoreVm.step (compile prog) τ = .halt υ ∧ υ.env = s'.env ∧ υ.out = s'.out
    | (s', .halted) => ∃ τ υ, Steps (compile prog) (Vm.init prog.slots) τ ∧
        CoreVm.step (compile prog) τ = .halt υ ∧ υ.env = s'.env ∧ υ.out = s'.out
    | (s', .error c p) => ∃ τ υ, Steps (compile prog) (Vm.init prog.slots) τ ∧
        CoreVm.step (compile prog) τ = .error c p υ ∧ υ.out = s'.out
    | (_, .inexact) => True
    | (_, .outOfFuel) => True :=
  compile_correct prog fuel hw compileStmt_correct

/-- `Steps` is what `CoreVm.run` does: a run that takes the steps and then halts is a halted run of the bounded
interpreter the correspondence check executes, for every sufficient amount of fuel -/
theorem run_of_steps (code : Code) {σ τ υ : Vm} (h : Steps code σ τ) (hh : CoreVm.step code τ = .halt υ) :
    ∃ n, ∀ m, n ≤ m → ∃ ω, CoreVm.run code m σ = .halted ω ∧ ω = υ := by
  induction h with
  | refl σ =>
    refine ⟨1, fun m hm => ?_⟩
    obtain ⟨k, rfl⟩ : ∃ k, m = k + 1 := ⟨m - 1, by omega⟩
    exact ⟨υ, by simp [CoreVm.run, hh], rfl⟩
  | cons hs _ ih =>
    obtain ⟨n, hn⟩ := ih hh
    refine ⟨n + 1, fun m hm => ?_⟩
    obtain ⟨k, rfl⟩ : ∃ k, m = k + 1 := ⟨m - 1, by omega⟩
    obtain ⟨ω, h1, h2⟩ := hn k (by omega)
    exact ⟨ω, by simp [CoreVm.run, hs, h1], h2⟩

theorem run_of_steps_error (code : Code) {σ τ υ : Vm} {c : Nat} {p : Pos} (h : Steps code σ τ)
    (hh : CoreVm.step code τ = .error c p υ) :
    ∃ n, ∀ m, n ≤ m → CoreVm.run code m σ = .error c p υ := by
  induction h with
  | refl σ =>
    refine ⟨1, fun m hm => ?_⟩
    obtain ⟨k, rfl⟩ : ∃ k, m = k + 1 := ⟨m - 1, by omega⟩
    simp [CoreVm.run, hh]
  | cons hs _ ih =>
    obtain ⟨n, hn⟩ := ih hh
    refine ⟨n + 1, fun m hm => ?_⟩
    obtain ⟨k, rfl⟩ : ∃ k, m = k + 1 := ⟨m - 1, by omega⟩
    simp [CoreVm.run, hs, hn k (by omega)]

/-- **`C01_run_correct`** — `C01_core_correct` restated for the bounded interpreter `CoreVm.run` that the
correspondence check executes against the real VM: for every sufficient step budget the run of the generated code ends
as the reference semantics prescribes -/
theorem C01_run_correct (prog : SProgram) (fuel : Nat) (hw : WfTop prog.slots prog.body) :
    match Ref.run fuel prog.toAst with
    | (s', .normal) => ∃ n υ, (∀ m, n ≤ m → CoreVm.run (compile prog) m (Vm.init prog.slots) = .halted υ) ∧
        υ.env = s'.env ∧ υ.out = s'.out
    | (s', .halted) => ∃ n υ, (∀ m, n ≤ m → CoreVm.run (compile prog) m (Vm.init prog.slots) = .halted υ) ∧
        υ.env = s'.env ∧ υ.out = s'.out
    | (s', .error c p) => ∃ n υ, (∀ m, n ≤ m → CoreVm.run (compile prog) m (Vm.init prog.slots) = .error c p υ) ∧
        υ.out = s'.out
    | (_, .inexact) => True
    | (_, .outOfFuel) => True := by
  have h := C01_core_correct prog fuel hw
  generalize Ref.run fuel prog.toAst = r at h ⊢
  obtain ⟨s', o⟩ := r
  cases o with
  | normal =>
    obtain ⟨τ, υ, st, hh, he, ho⟩ := h
    obtain ⟨n, hn⟩ := run_of_steps _ st hh
    exact ⟨n, υ, fun m hm => by obtain ⟨ω, h1, h2⟩ := hn m hm; rw [h1, h2], he, ho⟩
  | halted =>
    obtain ⟨τ, υ, st, hh, he, ho⟩ := h
    obtain ⟨n, hn⟩ := run_of_steps _ st hh
    exact ⟨n, υ, fun m hm => by obtain ⟨ω, h1, h2⟩ := hn m hm; rw [h1, h2], he, ho⟩
  | error c p =>
    obtain ⟨τ, υ, st, hh, ho⟩ := h
    obtain ⟨n, hn⟩ := run_of_steps_error _ st hh
    exact ⟨n, υ, hn, ho⟩
  | inexact => trivial
  | outOfFuel => trivial

/-! #### non-vacuity: a concrete program in the covered fragment, its code and its run -/

private def demoProg : SStmt :=
  .seq (.assign 0 .int (.lit (.int 0) ⟨1, 5⟩) ⟨1, 1⟩)
  (.seq (.while (.bin .less (.var 0 .int ⟨2, 7⟩) (.lit (.int 2) ⟨2, 11⟩) .int ⟨2, 9⟩)
          (.seq (.print [.expr (.var 0 .int ⟨3, 7⟩)] ⟨3, 1⟩)
            (.seq (.assign 0 .int (.bin .plus (.var 0 .int ⟨4, 5⟩) (.lit (.int 1) ⟨4, 9⟩) .int ⟨4, 7⟩) ⟨4, 1⟩) .skip)) ⟨2, 1⟩)
    .skip)

example : Wf [.int] demoProg := by
  refine ⟨⟨rfl, trivial, trivial⟩, ⟨⟨Nat.zero_lt_one, trivial⟩, ?_, ?_⟩, trivial⟩
  · exact fun env _ => numericCond_of_rel _ _ _ _ _ (.inl rfl) env
  · exact ⟨⟨Nat.zero_lt_one, trivial⟩, ⟨rfl, ⟨Nat.zero_lt_one, trivial⟩, rfl, trivial, .inr rfl⟩, trivial⟩

/-- the premise of `C01_core_correct` is satisfiable: the demo program is a well-formed core program -/
example : WfTop [.int] demoProg := by
  refine ⟨⟨rfl, trivial, trivial⟩, ⟨⟨Nat.zero_lt_one, trivial⟩, ?_, ?_⟩, trivial⟩
  · exact fun env _ => numericCond_of_rel _ _ _ _ _ (.inl rfl) env
  · exact ⟨⟨Nat.zero_lt_one, trivial⟩, ⟨rfl, ⟨Nat.zero_lt_one, trivial⟩, rfl, trivial, .inr rfl⟩, trivial⟩

end RbThm.C01Sim
