import RbModel.Frames
/-!
C05, register frames: leaving a loop by GOTO (or EXIT SUB / FUNCTION) leaves every enclosing loop's
limit and step intact.

The FOR at loop depth `j` keeps its limit and step in frame `j` of `register_stack` (counted from
the bottom) and runs its body at depth `j + 1`.  `frames_intact` shows, for every path of the edges
the generator emits, that the stack height is `depth + 1` throughout and that the frames below the
LEAST depth visited are untouched; `goto_keeps_enclosing_loops` is the property's clause.
(The loop counter is a BASIC variable; no edge of this machine touches variables.)
The harness ties the model to the code: the stack height before every executed instruction of the
traced programs (`frames.depths`), and `height = 1 + number of enclosing FOR statements` at every
statement start of the GOTO families, are compared with the real VM.
-/
namespace RbThm.C05
open RbModel.Frames

/-! ### helper lemmas -/

theorem take_push {st : List Frame} {m : Nat} (x : Frame) (h : m ≤ st.length) :
    (st ++ [x]).take m = st.take m := by
  rw [List.take_append_of_le_length h]

theorem take_dropLast {st : List Frame} {m : Nat} (h : m + 1 ≤ st.length) :
    st.dropLast.take m = st.take m := by
  rw [List.dropLast_eq_take, List.take_take]
  congr 1
  omega

theorem length_write {st : List Frame} (f : Frame → Frame) : (apply st (.write f)).length = st.length := by
  unfold apply
  cases h : st.getLast? with
  | none => rfl
  | some top =>
    simp only [List.length_append, List.length_dropLast, List.length_cons, List.length_nil]
    have : st ≠ [] := by intro hn; simp [hn] at h
    have := List.length_pos_iff.mpr this
    omega

theorem take_write {st : List Frame} {m : Nat} (f : Frame → Frame) (h : m + 1 ≤ st.length) :
    (apply st (.write f)).take m = st.take m := by
  unfold apply
  cases hl : st.getLast? with
  | none => rfl
  | some top =>
    simp only
    rw [take_push _ (by simp; omega), take_dropLast h]

theorem applyOps_pops (k : Nat) : ∀ (st : List Frame), k ≤ st.length →
    (applyOps st (List.replicate k .pop)).length = st.length - k ∧
    ∀ m, m + k ≤ st.length → (applyOps st (List.replicate k .pop)).take m = st.take m := by
  induction k with
  | zero => intro st _; simp [applyOps]
  | succ k ih =>
    intro st hk
    have hst : (apply st .pop).length = st.length - 1 := by simp [apply]
    have := ih (apply st .pop) (by omega)
    simp only [applyOps, List.replicate_succ, List.foldl_cons] at this ⊢
    refine ⟨by omega, fun m hm => ?_⟩
    rw [this.2 m (by omega)]
    exact take_dropLast (by omega)

/-! ### the property -/

/-- **frames_intact**: along every path of generator edges that starts at loop depth `d` with a stack
of height `d + 1`: the path ends at depth `d'` with height `d' + 1`, and the `m` bottom frames — `m`
the least depth visited — are exactly what they were. -/
theorem frames_intact : ∀ (path : List Edge) (d : Nat) (st : List Frame) (d' : Nat) (st' : List Frame) (m : Nat),
    st.length = d + 1 → runPath d st path = some (d', st', m) →
    st'.length = d' + 1 ∧ m ≤ d ∧ m ≤ d' ∧ st'.take m = st.take m := by
  intro path
  induction path with
  | nil =>
    intro d st d' st' m hlen h
    simp only [runPath, Option.some.injEq, Prod.mk.injEq] at h
    obtain ⟨rfl, rfl, rfl⟩ := h
    exact ⟨hlen, Nat.le_refl _, Nat.le_refl _, rfl⟩
  | cons e rest ih =>
    intro d st d' st' m hlen h
    simp only [runPath] at h
    cases ht : e.target d with
    | none => simp [ht] at h
    | some d1 =>
      simp only [ht] at h
      cases hr : runPath d1 (applyOps st (e.ops d)) rest with
      | none => simp [hr] at h
      | some r =>
        obtain ⟨d2, st2, m2⟩ := r
        simp only [hr, Option.some.injEq, Prod.mk.injEq] at h
        obtain ⟨rfl, rfl, rfl⟩ := h
        -- the edge itself: height follows the depth, frames below min d d1 untouched
        have hedge : (applyOps st (e.ops d)).length = d1 + 1 ∧
            ∀ k, k ≤ d → k ≤ d1 → (applyOps st (e.ops d)).take k = st.take k := by
          cases e with
          | stmt f =>
            simp only [Edge.target, Option.some.injEq] at ht
            subst ht
            simp only [Edge.ops, applyOps, List.foldl_cons, List.foldl_nil]
            exact ⟨by rw [length_write]; exact hlen, fun k hk _ => take_write f (by omega)⟩
          | enter =>
            simp only [Edge.target, Option.some.injEq] at ht
            subst ht
            simp only [Edge.ops, applyOps, List.foldl_cons, List.foldl_nil, apply]
            exact ⟨by simp [hlen], fun k hk _ => take_push _ (by omega)⟩
          | leave =>
            simp only [Edge.target] at ht
            split at ht
            · injection ht with ht
              subst ht
              simp only [Edge.ops, applyOps, List.foldl_cons, List.foldl_nil, apply]
              exact ⟨by simp [hlen]; omega, fun k _ hk => take_dropLast (by omega)⟩
            · cases ht
          | goto t =>
            simp only [Edge.target] at ht
            split at ht
            · injection ht with ht
              subst ht
              have := applyOps_pops (d - t) st (by omega)
              simp only [Edge.ops]
              exact ⟨by rw [this.1]; omega, fun k _ hk => this.2 k (by omega)⟩
            · cases ht
        obtain ⟨h1, h2, h3, h4⟩ := ih d1 _ d2 st2 m2 hedge.1 hr
        refine ⟨h1, Nat.min_le_left _ _, Nat.le_trans (Nat.min_le_right _ _) h3, ?_⟩
        have hmin1 : min d m2 ≤ m2 := Nat.min_le_right _ _
        have : st2.take (min d m2) = (applyOps st (e.ops d)).take (min d m2) := by
          have := congrArg (List.take (min d m2)) h4
          simpa [List.take_take, Nat.min_eq_left hmin1] using this
        rw [this]
        exact hedge.2 _ (Nat.min_le_left _ _) (Nat.le_trans hmin1 h2)

/-- **goto_keeps_enclosing_loops**: a FOR at loop depth `j` keeps its limit and step in frame `j`.
Whatever happens inside its body — nested loops of any kind, GOTOs out of them to labels anywhere in
the body, any number of iterations of inner loops — as long as control stays inside the body (depth
`> j`), frame `j` and every frame below it (the enclosing loops' limits and steps) are unchanged; and
when a GOTO (or the end of the body) brings control back to depth `j`, the top frame is that frame. -/
theorem goto_keeps_enclosing_loops (path : List Edge) (j d d' : Nat) (st st' : List Frame) (m : Nat)
    (hlen : st.length = d + 1) (hrun : runPath d st path = some (d', st', m)) (hin : j < m) :
    ∀ i, i ≤ j → st'[i]? = st[i]? := by
  obtain ⟨_, _, _, h4⟩ := frames_intact path d st d' st' m hlen hrun
  intro i hi
  have := congrArg (fun l => l[i]?) h4
  simpa [List.getElem?_take, show i < m by omega] using this

/-- leaving the loop at depth `j` itself by a GOTO to a label at depth `j' ≤ j` leaves the loops that
still enclose the label (frames below `j'`) intact and restores the stack height of the label -/
theorem goto_out_restores_depth (j' d : Nat) (st : List Frame) (hlen : st.length = d + 1) (h : j' ≤ d) :
    ∃ st', runPath d st [.goto j'] = some (j', st', j') ∧ st'.length = j' + 1 ∧ st'.take j' = st.take j' := by
  have hr : runPath d st [.goto j'] = some (j', applyOps st (List.replicate (d - j') .pop), min d j') := by
    simp [runPath, Edge.target, Edge.ops, h]
  rw [Nat.min_eq_right h] at hr
  obtain ⟨h1, _, _, h4⟩ := frames_intact _ d st _ _ _ hlen hr
  exact ⟨_, hr, h1, h4⟩

/-- what goes wrong without the `PopRegisters` (the defect fixed by 5510a6c, and what a label whose
depth is not recorded still causes): jumping from depth 2 to a label at depth 1 with no pops leaves
the inner frame on top — the enclosing loop then tests its counter against the inner loop's limit -/
example :
    let outer : Frame := ⟨0, 0, 2, 1⟩
    let inner : Frame := ⟨0, 0, 5, 1⟩
    (applyOps [Frame.fresh, outer, inner] []).getLast? = some inner ∧
    (applyOps [Frame.fresh, outer, inner] (Edge.ops 2 (.goto 1))).getLast? = some outer := by
  decide

/-- the hypotheses are satisfiable: FOR (limit 2) > FOR (limit 5) > GOTO to a label in the outer body,
then the outer body ends; the outer loop's frame is intact throughout -/
example :
    let outer : Frame := ⟨0, 0, 2, 1⟩
    ∃ st' m, runPath 2 [Frame.fresh, outer, Frame.fresh]
        [.stmt (fun f => { f with c := 5, d := 1 }), .enter, .stmt (fun f => { f with a := 7 }), .goto 2, .stmt id] =
      some (2, st', m) ∧ 1 < m ∧ st'[1]? = some outer := by
  refine ⟨_, _, rfl, by decide, by decide⟩

end RbThm.C05
