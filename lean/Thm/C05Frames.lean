import RbModel.Frames
/-!
C05, register frames: leaving a loop by GOTO (or EXIT SUB / FUNCTION) leaves every enclosing loop's
limit and step intact.

The FOR at loop depth `j` keeps its limit and step in frame `j` of `register_stack` (counted from
the bottom) and runs its body at depth `j + 1`.  `frames_intact` shows, for every path of the edges
the generator emits, that the stack height is `depth + 1` throughout and that the frames below the
LEAST depth visited are untouched; `goto_keeps_enclosing_loops` is the property's clause.
(The loop counter is a BASIC variable; no edge of this machine touches variables.)
The harness ties the model to the code: the stack height before every executed instruction of the
traced programs (`frames.depths`), and `height = 1 + number of enclosing FOR statements` at every
statement start of the GOTO families, are compared with the real VM.
-/
namespace RbThm.C05
open RbModel.Frames

/-! ### helper lemmas -/

theorem take_push {st : List Frame} {m : Nat} (x : Frame) (h : m ≤ st.length) :
    (st ++ [x]).take m = st.take m := by
  rw [List.take_append_of_le_length h]

theorem take_dropLast {st : List Frame} {m : Nat} (h : m + 1 ≤ st.length) :
    st.dropLast.take m = st.take m := by
  rw [List.dropLast_eq_take, List.take_take]
  congr 1
  omega

theorem length_write {st : List Frame} (f : Frame → Frame) : (apply st (.write f)).length = st.length := by
  unfold apply
  cases h : st.getLast? with
  | none => rfl
  | some top =>
    simp only [List.length_append, List.length_dropLast, List.length_cons, List.length_nil]
    have : st ≠ [] := by intro hn; simp [hn] at h
    have := List.length_pos_iff.mpr this
    omega

theorem take_write {st : List Frame} {m : Nat} (f : Frame → Frame) (h : m + 1 ≤ st.length) :
    (apply st (.write f)).take m = st.take m := by
  unfold apply
  cases hl : st.getLast? with
  | none => rfl
  | some top =>
    simp only
    rw [take_push _ (by simp; omega), take_dropLast h]

theorem applyOps_pops (k : Nat) : ∀ (st : List Frame), k ≤ st.length →
    (applyOps st (List.replicate k .pop)).length = st.length - k ∧
    ∀ m, m + k ≤ st.length → (applyOps st (List.replicate k .pop)).take m = st.take m := by
  induction k with
  | zero => intro st _; simp [applyOps]
  | succ k ih =>
    intro st hk
    have hst : (apply st .pop).length = st.length - 1 := by simp [apply]
    have := ih (apply st .pop) (by omega)
    simp only [applyOps, List.replicate_succ, List.foldl_cons] at this ⊢
    refine ⟨by omega, fun m hm => ?_⟩
    rw [this.2 m (by omega)]
    exact take_dropLast (by omega)

/-! ### the property -/

/-- **frames_intact**: along every path of generator edges that starts at loop depth `d` with a stack
of height `d + 1`: the path ends at depth `d'` with height `d' + 1`, and the `m` bottom frames — `m`
the least depth visited — are exactly what they were. -/
theorem frames_intact : ∀ (path : List Edge) (d : Nat) (st : List Frame) (d' : Nat) (st' : List Frame) (m : Nat),
    st.length = d + 1 → runPath d st path = some (d', st', m) →
    st'.length = d' + 1 ∧ m ≤ d ∧ m ≤ d' ∧ st'.take m = st.take m := by
  intro path
  induction path with
  | nil =>
    intro d st d' st' m hlen h
    simp only [runPath, Option.some.injEq, Prod.mk.injEq] at h
    obtain ⟨rfl, rfl, rfl⟩ := h
    exact ⟨hlen, Nat.le_refl _, Nat.le_refl _, rfl⟩
  | cons e rest ih =>
    intro d st d' st' m hlen h
    simp only [runPath] at h
    cases ht : e.target d with
    | none => simp [ht] at h
    | some d1 =>
      simp only [ht] at h
      cases hr : runPath d1 (applyOps st (e.ops d)) rest with
      | none => simp [hr] at h
      | some r =>
        obtain ⟨d2, st2, m2⟩ := r
        simp only [hr, Option.some.injEq, Prod.mk.injEq] at h
        obtain ⟨rfl, rfl, rfl⟩ := h
        -- the edge itself: height follows the depth, frames below min d d1 untouched
        have hedge : (applyOps st (e.ops d)).length = d1 + 1 ∧
            ∀ k, k ≤ d → k ≤ d1 → (applyOps st (e.ops d)).take k = st.take k := by
          cases e with
          | stmt f =>
            simp only [Edge.target, Option.some.injEq] at ht
            subst ht
            simp only [Edge.ops, applyOps, List.foldl_cons, List.foldl_nil]
            exact ⟨by rw [length_write]; exact hlen, fun k hk _ => take_write f (by omega)⟩
          | enter =>
            simp only [Edge.target, Option.some.injEq] at ht
            subst ht
            simp only [Edge.ops, applyOps, List.foldl_cons, List.foldl_nil, apply]
            exact ⟨by simp [hlen], fun k hk _ => take_push _ (by omega)⟩
          | leave =>
            simp only [Edge.target] at ht
            split at ht
            · injection ht with ht
              subst ht
              simp only [Edge.ops, applyOps, List.foldl_cons, List.foldl_nil, apply]
              exact ⟨by simp [hlen]; omega, fun k _ hk => take_dropLast (by omega)⟩
            · cases ht
          | goto t =>
            simp only [Edge.target] at ht
            split at ht
            · injection ht with ht
              subst ht
              have := applyOps_pops (d - t) st (by omega)
              simp only [Edge.ops]
              exact ⟨by rw [this.1]; omega, fun k _ hk => this.2 k (by omega)⟩
            · cases ht
        obtain ⟨h1, h2, h3, h4⟩ := ih d1 _ d2 st2 m2 hedge.1 hr
        refine ⟨h1, Nat.min_le_left _ _, Nat.le_trans (Nat.min_le_right _ _) h3, ?_⟩
        have hmin1 : min d m2 ≤ m2 := Nat.min_le_right _ _
        have : st2.take (min d m2) = (applyOps st (e.ops d)).take (min d m2) := by
          have := congrArg (List.take (min d m2)) h4
          simpa [List.take_take, Nat.min_eq_left hmin1] using this
        rw [this]
        exact hedge.2 _ (Nat.min_le_left _ _) (Nat.le_trans hmin1 h2)

/-- **goto_keeps_enclosing_loops**: a FOR at loop depth `j` keeps its limit and step in frame `j`.
Whatever happens inside its body — nested loops of any kind, GOTOs out of them to labels anywhere in
the body, any number of iterations of inner loops — as long as control stays inside the body (depth
`> j`), frame `j` and every frame below it (the enclosing loops' limits and steps) are unchanged; and
when a GOTO (or the end of the body) brings control back to depth `j`, the top frame is that frame. -/
theorem goto_keeps_enclosing_loops (path : List Edge) (j d d' : Nat) (st st' : List Frame) (m : Nat)
    (hlen : st.length = d + 1) (hrun : runPath d st path = some (d', st', m)) (hin : j < m) :
    ∀ i, i ≤ j → st'[i]? = st[i]? := by
  obtain ⟨_, _, _, h4⟩ := frames_intact path d st d' st' m hlen hrun
  intro i hi
  have := congrArg (fun l => l[i]?) h4
  simpa [List.getElem?_take, show i < m by omega] using this

/-- leaving the loop at depth `j` itself by a GOTO to a label at depth `j' ≤ j` leaves the loops that
still enclose the label (frames below `j'`) intact and restores the stack height of the label -/
theorem goto_out_restores_depth (j' d : Nat) (st : List Frame) (hlen : st.length = d + 1) (h : j' ≤ d) :
    ∃ st', runPath d st [.goto j'] = some (j', st', j') ∧ st'.length = j' + 1 ∧ st'.take j' = st.take j' := by
  have hr : runPath d st [.goto j'] = some (j', applyOps st (List.replicate (d - j') .pop), min d j') := by
    simp [runPath, Edge.target, Edge.ops, h]
  rw [Nat.min_eq_right h] at hr
  obtain ⟨h1, _, _, h4⟩ := frames_intact _ d st _ _ _ hlen hr
  exact ⟨_, hr, h1, h4⟩

/-- what goes wrong without the `PopRegisters` (the defect fixed by 5510a6c, and what a label whose
depth is not recorded still causes): jumping from depth 2 to a label at depth 1 with no pops leaves
the inner frame on top — the enclosing loop then tests its counter against the inner loop's limit -/
example :
    let outer : Frame := ⟨0, 0, 2, 1⟩
    let inner : Frame := ⟨0, 0, 5, 1⟩
    (applyOps [Frame.fresh, outer, inner] []).getLast? = some inner ∧
    (applyOps [Frame.fresh, outer, inner] (Edge.ops 2 (.goto 1))).getLast? = some outer := by
  decide

/-- the hypotheses are satisfiable: FOR (limit 2) > FOR (limit 5) > GOTO to a label in the outer body,
then the outer body ends; the outer loop's frame is intact throughout -/
example :
    let outer : Frame := ⟨0, 0, 2, 1⟩
    ∃ st' m, runPath 2 [Frame.fresh, outer, Frame.fresh]
        [.stmt (fun f => { f with c := 5, d := 1 }), .enter, .stmt (fun f => { f with a := 7 }), .goto 2, .stmt id] =
      some (2, st', m) ∧ 1 < m ∧ st'[1]? = some outer := by
  refine ⟨_, _, rfl, by decide, by decide⟩

/-! ### RESUME label (1a4d83d): exactly the loops that enclose the label remain -/

/-- RESUME label only ever removes frames from the top: what remains is an initial segment of the
stack, whatever calls were in progress and whatever depth the label has; no call stays in progress -/
theorem resume_label_prefix (s : MSt) (fd : Option Nat) :
    ∃ n, (stepM s (.leave fd)).st = s.st.take n ∧ (stepM s (.leave fd)).marks = [] := by
  unfold stepM
  cases hm : s.marks.getLast? with
  | none =>
    cases fd with
    | none => exact ⟨s.st.length, by simp, rfl⟩
    | some d => exact ⟨_, rfl, rfl⟩
  | some mg =>
    obtain ⟨m, g⟩ := mg
    cases fd with
    | none => exact ⟨_, rfl, rfl⟩
    | some d => exact ⟨_, List.take_take .., rfl⟩

/-- what RESUME label leaves of the GOSUB stack: the GOSUBs of the main module -/
def gosAfterLeave (s : MSt) : List Nat :=
  match s.marks.getLast? with
  | some (_, g) => keepOldest g s.gos
  | none => s.gos

/-- RESUME label to a label enclosed by `d` FOR loops, from an error that happened anywhere below (any
number of inner loops, any number of calls in progress, each call recorded above the label's loops:
every mark is at least `h + d`), where `h` is the height the innermost pending GOSUB of the main
module found (`1` when none is pending: the module's own frame): the stack height is `h + d` again
and those frames — the `h` frames of the code that issued the GOSUB, in particular the limit and
step of a FOR whose body issued it (26672d3), and the frames of the `d` loops around the label —
are the ones that were there -/
theorem resume_label_keeps_enclosing_loops (s : MSt) (d : Nat)
    (hlen : gosubBase (gosAfterLeave s) + d ≤ s.st.length)
    (hmarks : ∀ m ∈ s.marks, gosubBase (gosAfterLeave s) + d ≤ m.1) :
    (stepM s (.leave (some d))).st = s.st.take (gosubBase (gosAfterLeave s) + d) ∧
    (stepM s (.leave (some d))).st.length = gosubBase (gosAfterLeave s) + d := by
  have key : (stepM s (.leave (some d))).st = s.st.take (gosubBase (gosAfterLeave s) + d) := by
    unfold stepM gosAfterLeave
    cases hm : s.marks.getLast? with
    | none => simp only
    | some mg =>
      obtain ⟨m, g⟩ := mg
      simp only
      have : gosubBase (gosAfterLeave s) + d ≤ m := hmarks (m, g) (List.mem_of_getLast? hm)
      simp only [gosAfterLeave, hm] at this
      rw [List.take_take, Nat.min_eq_left this]
  refine ⟨key, ?_⟩
  rw [key, List.length_take]
  omega

/-- the main-module case without a pending GOSUB (what 1a4d83d stated): the height is `d + 1` -/
theorem resume_label_keeps_enclosing_loops_no_gosub (s : MSt) (d : Nat) (hg : s.gos = [])
    (hlen : d + 1 ≤ s.st.length) (hmarks : ∀ m ∈ s.marks, d + 1 ≤ m.1) :
    (stepM s (.leave (some d))).st = s.st.take (d + 1) ∧
    (stepM s (.leave (some d))).st.length = d + 1 := by
  have hb : gosubBase (gosAfterLeave s) = 1 := by
    unfold gosAfterLeave
    cases s.marks.getLast? with
    | none => simp [hg, gosubBase]
    | some mg => simp [hg, keepOldest, gosubBase]
  have := resume_label_keeps_enclosing_loops s d (by rw [hb]; omega) (by rw [hb]; intro m hm; have := hmarks m hm; omega)
  rw [hb, Nat.add_comm 1 d] at this
  exact this

/-- **RESUME label inside a GOSUB routine keeps the caller's frames** (26672d3).  A GOSUB found the
height `h` (the caller may be inside any number of FOR bodies); the routine is at any height above;
no call is in progress: RESUME label to a label of the routine enclosed by `d` of its FOR loops
leaves `h + d` frames, the caller's `h` frames first and unchanged, and the GOSUB stays pending -/
theorem resume_label_in_routine_keeps_caller_frames (s : MSt) (h d : Nat) (rest : List Nat)
    (hg : s.gos = h :: rest) (hm : s.marks = []) (hlen : h + d ≤ s.st.length) :
    let s' := stepM s (.leave (some d))
    s'.st.length = h + d ∧ s'.st.take h = s.st.take h ∧ s'.gos = s.gos := by
  have hb : gosubBase (gosAfterLeave s) = h := by simp [gosAfterLeave, hm, hg, gosubBase]
  obtain ⟨k1, k2⟩ := resume_label_keeps_enclosing_loops s d (by rw [hb]; exact hlen) (by simp [hm])
  rw [hb] at k1 k2
  refine ⟨k2, ?_, ?_⟩
  · rw [k1, List.take_take, Nat.min_eq_left (by omega)]
  · simp [stepM, hm]

/-- the defect repaired by 1a4d83d, on the model of the pinned behaviour (`fd = none`: no depth is
known for the label): an error in the body of an inner FOR with RESUME label into the enclosing FOR's
body leaves the inner frame on top, the enclosing loop goes on with the inner limit and step; with
the label's depth the enclosing loop's own frame is on top again -/
example :
    let outer : Frame := ⟨0, 0, 2, 1⟩
    let inner : Frame := ⟨0, 0, 3, 2⟩
    (stepM ⟨[Frame.fresh, outer, inner], [], [], 0⟩ (.leave none)).st.getLast? = some inner ∧
    (stepM ⟨[Frame.fresh, outer, inner], [], [], 0⟩ (.leave (some 1))).st.getLast? = some outer := by
  decide

/-- the hypotheses of `resume_label_keeps_enclosing_loops` are satisfiable: the error happened two
calls deep (marks 3 and 4, innermost first), the label sits in the body of the outer loop -/
example :
    let outer : Frame := ⟨0, 0, 2, 1⟩
    let inner : Frame := ⟨0, 0, 3, 2⟩
    (stepM ⟨[Frame.fresh, outer, inner, Frame.fresh, Frame.fresh], [(4, 0), (3, 0)], [], 0⟩
      (.leave (some 1))).st = [Frame.fresh, outer] := by
  decide

/-- the defect repaired by 26672d3, on the model: `FOR I (limit 2) : GOSUB R : NEXT` with an error in `R` and
`RESUME LR`, `LR` a label of `R` outside every loop: counted from the bottom (the pinned rule `1 + d`) the
frame with I's limit is dropped, counted from the height the GOSUB found it is on top again when the RETURN
comes back (the dispatch pushed the handler's frame, df9ea58) -/
example :
    let iLimit : Frame := ⟨0, 0, 2, 1⟩
    let atResume : MSt := ⟨[iLimit, Frame.fresh, Frame.fresh], [], [2], 2⟩
    atResume.st.take (1 + 0) = [iLimit] ∧
    (stepM atResume (.leave (some 0))).st = [iLimit, Frame.fresh] ∧
    (apply (stepM (stepM atResume (.leave (some 0))) .gret).st .pop).getLast? = some iLimit := by
  decide

/-! ### GOSUB / RETURN (8f09b9b): a RETURN from inside the routine's loops leaves them -/

/-- the height never drops below `h` while `ops` run (the routine never pops a frame that was
there when it was entered: the generator pops only what the routine's own FOR statements pushed) -/
def StaysAbove (h : Nat) : List Frame → List Op → Prop
  | _, [] => True
  | st, o :: rest => h ≤ (apply st o).length ∧ StaysAbove h (apply st o) rest

theorem ops_keep_below {h : Nat} : ∀ (ops : List Op) (st : List Frame), h ≤ st.length → StaysAbove h st ops →
    h ≤ (applyOps st ops).length ∧ (applyOps st ops).take (h - 1) = st.take (h - 1) := by
  intro ops
  induction ops with
  | nil => intro st hl _; exact ⟨hl, rfl⟩
  | cons o rest ih =>
    intro st hl hs
    obtain ⟨h1, h2⟩ := hs
    have := ih (apply st o) h1 h2
    refine ⟨by simpa [applyOps] using this.1, ?_⟩
    have e : (applyOps st (o :: rest)) = applyOps (apply st o) rest := rfl
    rw [e, this.2]
    cases h with
    | zero => simp
    | succ k =>
      cases o with
      | push => exact take_push _ (by omega)
      | pop => exact take_dropLast (by simpa using hl)
      | write f => exact take_write f (by simpa using hl)

/-- **RETURN restores the caller's frames.**  GOSUB at a stack `st` (the caller may be inside any
number of FOR bodies), then a routine that pushes and pops frames of its own in any way (FOR loops
entered, completed, left by GOTO) but never pops the caller's, then RETURN from wherever the routine
is — inside any number of its own FOR bodies: the stack has the caller's height again and every
frame below the caller's top frame — in particular the limit and step of the FOR whose body issued
the GOSUB — is what it was.  (The top frame itself is scratch between statements.) -/
theorem return_restores_caller_frames (s : MSt) (ops : List Op) (hne : 1 ≤ s.st.length)
    (hs : StaysAbove s.st.length s.st ops) :
    let s' := stepM (runM (stepM s .gosub) (ops.map .op)) .gret
    s'.st.length = s.st.length ∧ s'.st.take (s.st.length - 1) = s.st.take (s.st.length - 1) ∧
    s'.gos = s.gos ∧ s'.marks = s.marks := by
  have run : ∀ (ops : List Op) (t : MSt), runM t (ops.map .op) = { t with st := applyOps t.st ops } := by
    intro ops
    induction ops with
    | nil => intro t; rfl
    | cons o rest ih => intro t; simp only [List.map_cons, runM, List.foldl_cons]; exact ih _
  obtain ⟨h1, h2⟩ := ops_keep_below ops s.st (Nat.le_refl _) hs
  simp only [run, stepM]
  refine ⟨?_, ?_, trivial, trivial⟩
  · rw [List.length_take]; omega
  · rw [List.take_take, Nat.min_eq_left (by omega)]; exact h2

/-- the defect repaired by 8f09b9b, on the model: `FOR I (limit 3) : GOSUB R : NEXT` with
`R: FOR J (limit 5) : RETURN`: without the recorded height the routine's two frames stay, the
caller's NEXT (PopRegisters) then finds J's limit frame on top instead of I's; with it I's own
limit frame is on top after the caller's NEXT -/
example :
    let iLimit : Frame := ⟨0, 0, 3, 1⟩
    let jLimit : Frame := ⟨0, 0, 5, 1⟩
    let atReturn : List Frame := [iLimit, jLimit, Frame.fresh]
    (apply atReturn .pop).dropLast.getLast? = some iLimit ∧          -- pinned: NEXT pops J's body frame only
    (apply atReturn .pop).getLast? = some jLimit ∧
    (apply (stepM ⟨atReturn, [], [2], 0⟩ .gret).st .pop).getLast? = some iLimit := by
  decide

/-- the hypotheses of `return_restores_caller_frames` are satisfiable: the routine enters two FOR
bodies and returns from the inner one -/
example :
    StaysAbove 2 [Frame.fresh, Frame.fresh] [.write id, .push, .write id, .push, .write id] := by
  simp [StaysAbove, apply]

/-! ### the handler's own frames (dee4bd6, df9ea58) -/

/-- **RESUME / RESUME NEXT restore the frames of the failing statement.**  An error is handed to the handler at a
stack `st`; the handler pushes and pops frames of its own in any way (FOR loops entered, completed, left by GOTO;
it never pops below its own frame) and writes whatever registers it likes; then RESUME or RESUME NEXT from wherever
the handler is — inside any number of its FOR bodies: the stack is EXACTLY what it was when the statement failed,
the top frame included (between the PopRegisters and the back jump of a NEXT the limit and the step of the loop
live there: the handler's own FOR must not overwrite them) -/
theorem resume_restores_failing_frames (s : MSt) (ops : List Op)
    (hs : StaysAbove (s.st.length + 1) (s.st ++ [Frame.fresh]) ops) :
    let s' := stepM (runM (stepM s .raise) (ops.map .op)) .resume
    s'.st = s.st ∧ s'.gos = s.gos ∧ s'.marks = s.marks := by
  have run : ∀ (ops : List Op) (t : MSt), runM t (ops.map .op) = { t with st := applyOps t.st ops } := by
    intro ops
    induction ops with
    | nil => intro t; rfl
    | cons o rest ih => intro t; simp only [List.map_cons, runM, List.foldl_cons]; exact ih _
  obtain ⟨h1, h2⟩ := ops_keep_below ops (s.st ++ [Frame.fresh]) (by simp) hs
  simp only [run, stepM]
  refine ⟨?_, trivial, trivial⟩
  have : (applyOps (s.st ++ [Frame.fresh]) ops).take s.st.length = (s.st ++ [Frame.fresh]).take s.st.length := by
    simpa using h2
  rw [this]; simp

/-- the two defects on the model: `FOR I (limit 2)` whose body fails, a handler with `FOR J (limit 12) : RESUME`:
without the recorded height the handler loop's frames stay and I's NEXT finds J's limit; and when I's NEXT itself
fails (the frame with I's limit is on top), a handler that writes its registers changes it unless it has a frame of
its own -/
example :
    let iLimit : Frame := ⟨0, 0, 2, 1⟩
    let jLimit : Frame := ⟨0, 0, 12, 1⟩
    let inBody : MSt := ⟨[iLimit, Frame.fresh], [], [], 0⟩
    let handler : List MOp := [.op (.write fun _ => jLimit), .op .push]
    (apply (runM inBody handler).st .pop).getLast? = some jLimit ∧                      -- pinned
    (apply (stepM (runM (stepM inBody .raise) handler) .resume).st .pop).getLast? = some iLimit ∧
    (runM ⟨[iLimit], [], [], 0⟩ handler).st.head? = some jLimit ∧                         -- pinned: NEXT failed
    (stepM (runM (stepM ⟨[iLimit], [], [], 0⟩ .raise) handler) .resume).st = [iLimit] := by
  decide

/-- the hypotheses of `resume_restores_failing_frames` are satisfiable: the handler enters a FOR body and resumes
from inside it -/
example :
    StaysAbove 3 ([Frame.fresh, Frame.fresh] ++ [Frame.fresh]) [.write id, .push, .write id] := by
  simp [StaysAbove, apply]

end RbThm.C05
