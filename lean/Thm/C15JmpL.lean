import Thm.JmpLWf
/-!
Property C15 for the jump layer: **every branch of the generated code lands on a `Label` instruction**.

For every program of the jump layer that passes the premise checker `JmpL.progWfB`, every `Jump a` / `JumpIfFalse a` /
`GoSub a` instruction of `JmpL.Compile.compile prog` has a target `a` that is a valid address of the code and holds a `Label`
instruction.  The targets of the generator model are resolved numbers (computed from `off` and `sizeStmt`), so the statement
says that the layout arithmetic of the model — and with it the `LabelResolver` it stands for — is right: the forward
addresses of IF / ELSEIF / SELECT / FOR / WHILE / DO point at the construct's own labels, the addresses of GOTO / GOSUB at
the `Label` instruction of the user label.

Main results: `branches_land` (premise `ProgWf prog`), `branches_land_checked` (premise `progWfB prog = true`), both for the
statement `BranchesLand prog`; `label_resolved` / `goto_lands_on_its_label` / `gosub_lands_on_its_label` (the target of a
GOTO / GOSUB is the `Label` instruction of the label it names); `goto_code` / `goto_code_depths` (the run of `PopRegisters` /
`PopValueStackIntoA` in front of the `Jump` of a GOTO has `d − fd L` / `e − sd L` instructions, `fd` / `sd` being the real
depths of the label); `gotosDefined` (`ProgWf` implies that every GOTO target is defined).

Route: `TargetsOk code frag` (every branch instruction of `frag` has a target that is a label of `code`) is proved by
recursion on the syntax for `compileStmt`, given that the fragment sits in `code` (`CodeAt`) and that the labels named by the
statement's GOTOs / GOSUBs are resolved to `Label` instructions; `addrTable` (the model's resolver) lists only addresses of
`Label` instructions, by a second recursion of the same shape; `progCtx_ok` connects the two for `compile prog`.
-/
namespace RbThm.C15JmpL
set_option linter.unusedVariables false
set_option linter.unusedSimpArgs false
open RbModel RbModel.Num RbModel.JmpL RbModel.JmpL.Compile
open RbModel.Ast (Pos PrintItem CaseExpr)
open RbThm.JmpLLen
open RbThm.JmpLSim (CodeAt LabAt Wf WfElifs WfCases WfTop ProgWf progCtx progCtx_ok strip datas others compile_eq
  code_seqOf_append code_strip size_strip labels_strip addr_keys datas_isData progWfB_sound top_induction atom_cases depth_strip goto_depths)

/-! ### the property -/

/-- address `a` of `code` holds a `Label` instruction (so `a` is a valid address) -/
def IsLabel (code : Code) (a : Nat) : Prop := ∃ name q, code[a]? = some (CInstr.label name, q)

theorem IsLabel.lt {code : Code} {a : Nat} (h : IsLabel code a) : a < code.length := by
  obtain ⟨name, q, h⟩ := h
  exact (List.getElem?_eq_some_iff.mp h).1

/-- a branch instruction has a target that is a label -/
def InstrOk (code : Code) : CInstr → Prop
  | .jump a => IsLabel code a
  | .jumpIfFalse a => IsLabel code a
  | .goSub a => IsLabel code a
  | _ => True

/-- every branch instruction of the fragment `frag` has a target that holds a `Label` instruction of `code` -/
def TargetsOk (code : Code) (frag : Code) : Prop := ∀ x ∈ frag, InstrOk code x.1

theorem targetsOk_nil (code : Code) : TargetsOk code [] ↔ True := by simp [TargetsOk]

theorem targetsOk_cons (code : Code) (x : CInstr × Pos) (rest : Code) :
    TargetsOk code (x :: rest) ↔ InstrOk code x.1 ∧ TargetsOk code rest := by simp [TargetsOk]

theorem targetsOk_append (code : Code) (a b : Code) :
    TargetsOk code (a ++ b) ↔ TargetsOk code a ∧ TargetsOk code b := by
  simp only [TargetsOk, List.mem_append]
  exact ⟨fun h => ⟨fun x hx => h x (.inl hx), fun x hx => h x (.inr hx)⟩, fun h x hx => hx.elim (h.1 x) (h.2 x)⟩

theorem targetsOk_flatMap {α : Type} (code : Code) (f : α → Code) (h : ∀ a, TargetsOk code (f a)) (l : List α) :
    TargetsOk code (l.flatMap f) := by
  intro x hx
  obtain ⟨a, _, hxa⟩ := List.mem_flatMap.mp hx
  exact h a x hxa

/-- the index form of `TargetsOk` -/
theorem TargetsOk.at {code frag : Code} (h : TargetsOk code frag) {i a : Nat} {p : Pos}
    (hi : frag[i]? = some (.jump a, p) ∨ frag[i]? = some (.jumpIfFalse a, p) ∨ frag[i]? = some (.goSub a, p)) :
    IsLabel code a := by
  rcases hi with hi | hi | hi
  · exact h _ (List.mem_of_getElem? hi)
  · exact h _ (List.mem_of_getElem? hi)
  · exact h _ (List.mem_of_getElem? hi)

/-! ### placement helpers -/

theorem CodeAt.cast {code : Code} {a b : Nat} {frag : Code} (h : CodeAt code a frag) (e : a = b) : CodeAt code b frag :=
  e ▸ h

theorem get_cast {code : Code} {a b : Nat} {x : CInstr × Pos} (h : code[a]? = some x) (e : a = b) : code[b]? = some x :=
  e ▸ h

theorem IsLabel.cast {code : Code} {a b : Nat} (h : IsLabel code a) (e : a = b) : IsLabel code b := e ▸ h

theorem len_storeVar (x : Nat) (p : Pos) : (storeVar x p).length = 2 := rfl

theorem len_loadVar (x : Nat) (p : Pos) : (loadVar x p).length = 3 := rfl

/-- closes a goal `CodeAt code a frag`, `code[a]? = some x` or `IsLabel code a` from a fact of the same shape whose address
differs by length arithmetic -/
macro "place " t:term : tactic => `(tactic| (
  have hplace := $t
  try simp only [List.length_append, List.length_singleton, List.length_cons, List.length_nil, len_stmt, len_elifs,
    len_cases, len_conds, len_forBody, len_goto, len_caseExpr, len_storeVar, len_loadVar, ↓reduceIte,
    Bool.false_eq_true] at hplace
  first
    | exact hplace
    | exact CodeAt.cast hplace (by omega)
    | exact get_cast hplace (by omega)
    | exact ⟨_, _, hplace⟩
    | exact IsLabel.cast hplace (by omega)
    | exact ⟨_, _, get_cast hplace (by omega)⟩))

/-! ### the pieces without branches -/

theorem targets_expr (code : Code) : ∀ e : Ast.Expr, TargetsOk code (compileExpr e) := by
  intro e
  induction e with
  | lit v p => simp [compileExpr, targetsOk_cons, targetsOk_nil, InstrOk]
  | var x t p => simp [compileExpr, targetsOk_cons, targetsOk_nil, InstrOk]
  | un op e p ih => cases op <;> simp [compileExpr, targetsOk_append, targetsOk_cons, targetsOk_nil, InstrOk, ih]
  | paren e p ih => simpa [compileExpr] using ih
  | bin op l r t p ihl ihr =>
    simp only [compileExpr, targetsOk_append, targetsOk_cons, targetsOk_nil, InstrOk, ihl, ihr, true_and, and_true]
    split <;> simp [targetsOk_cons, targetsOk_nil, InstrOk]

theorem targets_exprTo (code : Code) (e : Ast.Expr) (t : Ty) : TargetsOk code (compileExprTo e t) := by
  simp only [compileExprTo, targetsOk_append, targets_expr, true_and]
  split <;> simp [targetsOk_cons, targetsOk_nil, InstrOk]

theorem targets_storeVar (code : Code) (x : Nat) (p : Pos) : TargetsOk code (storeVar x p) := by
  simp [storeVar, targetsOk_cons, targetsOk_nil, InstrOk]

theorem targets_loadVar (code : Code) (x : Nat) (p : Pos) : TargetsOk code (loadVar x p) := by
  simp [loadVar, targetsOk_cons, targetsOk_nil, InstrOk]

theorem targets_items (code : Code) (p : Pos) : ∀ items : List PrintItem, TargetsOk code (compileItems p items)
  | [] => by simp [compileItems, targetsOk_nil]
  | it :: rest => by
    have ih := targets_items code p rest
    cases it <;>
      simp [compileItems, compileItem, targetsOk_append, targetsOk_cons, targetsOk_nil, InstrOk, targets_expr, ih]

theorem targets_caseExpr (code : Code) (p : Pos) (next : Nat) (h : IsLabel code next) (c : CaseExpr) :
    TargetsOk code (compileCaseExpr p next c) := by
  cases c <;>
    simp [compileCaseExpr, targetsOk_append, targetsOk_cons, targetsOk_nil, InstrOk, targets_expr, h]

/-! ### CASE condition lists and FOR bodies -/

/-- the condition list of a CASE block: a failing item goes to the label of the next item (in the list) or to `nextCase`;
a matching item of a list of several goes to `stmts` -/
theorem targets_conds (code : Code) (p : Pos) (sfx : String) (bi nextCase stmts : Nat) (hn : IsLabel code nextCase) :
    ∀ (conds : List CaseExpr) (off ei : Nat), CodeAt code off (compileConds p sfx bi nextCase stmts off ei conds) →
      (conds.length > 1 → IsLabel code stmts) → TargetsOk code (compileConds p sfx bi nextCase stmts off ei conds)
  | [], _, _, _, _ => by simp [compileConds, targetsOk_nil]
  | [c], _, _, _, _ => by simpa [compileConds] using targets_caseExpr code p nextCase hn c
  | c :: c' :: rest, off, ei, hc, hs => by
    simp only [compileConds] at hc ⊢
    have hst : IsLabel code stmts := hs (by simp)
    have hlab : IsLabel code (off + sizeCaseExpr c + 1) := by place hc.append_left.append_right.head
    have hrest : CodeAt code (off + sizeCaseExpr c + 1 + 1)
        (compileConds p sfx bi nextCase stmts (off + sizeCaseExpr c + 1 + 1) (ei + 1) (c' :: rest)) := by
      place hc.append_right
    have ih := targets_conds code p sfx bi nextCase stmts hn (c' :: rest) _ _ hrest (fun _ => hst)
    simp only [targetsOk_append, targetsOk_cons, targetsOk_nil, InstrOk, and_true, true_and, and_assoc]
    exact ⟨targets_caseExpr code p _ hlab c, hst, ih⟩

/-- the body of a FOR loop sits 8 instructions behind the loop head -/
theorem forBody_body {code : Code} {sfx : String} {x : Nat} {t : Ty} {bodyCode : Code} {up : Bool} {p : Pos}
    {off outOff : Nat} (hc : CodeAt code off (forBody sfx x t bodyCode up p off outOff)) :
    CodeAt code (off + 8) bodyCode := by
  simp only [forBody] at hc
  place hc.append_left.append_left.append_left.append_left.append_left.append_right

/-- the loop head jumps to `outOff`, the increment jumps back to the loop's own label -/
theorem targets_forBody {code : Code} {sfx : String} {x : Nat} {t : Ty} {bodyCode : Code} {up : Bool} {p : Pos}
    {off outOff : Nat} (hc : CodeAt code off (forBody sfx x t bodyCode up p off outOff)) (hout : IsLabel code outOff)
    (hb : TargetsOk code bodyCode) : TargetsOk code (forBody sfx x t bodyCode up p off outOff) := by
  have hoff : IsLabel code off := by
    simp only [forBody] at hc
    exact ⟨_, _, hc.append_left.append_left.append_left.append_left.append_left.append_left.append_left.append_left.head⟩
  simp only [forBody, targetsOk_append, targetsOk_cons, targetsOk_nil, InstrOk, targets_loadVar, targets_storeVar,
    and_true, true_and, and_assoc]
  exact ⟨hout, hb, hoff⟩

/-! ### where the parts of a construct sit, and which of its addresses hold its own labels -/

section parts
variable {code : Code} {env : LEnv} {sfx : String} {d e off : Nat}

theorem parts_seq {a b : SStmt} (hc : CodeAt code off (compileStmt env sfx d e off (.seq a b))) :
    CodeAt code off (compileStmt env sfx d e off a) ∧
    CodeAt code (off + sizeStmt env.dp d e a) (compileStmt env sfx d e (off + sizeStmt env.dp d e a) b) := by
  simp only [compileStmt] at hc
  exact ⟨hc.append_left, by place hc.append_right⟩

theorem parts_if {c : Ast.Expr} {thn : SStmt} {elifs : ElseIfs} {hasElse : Bool} {els : SStmt} {p : Pos}
    (hc : CodeAt code off (compileStmt env sfx d e off (.ifBlock c thn elifs hasElse els p))) :
    let thnOff := off + (compileExpr c).length + 1
    let afterThn := thnOff + sizeStmt env.dp d e thn + 1
    let elseOff := afterThn + sizeElifs env.dp d e elifs
    let endOff := elseOff + (if hasElse then 1 + sizeStmt env.dp d e els else 0)
    CodeAt code thnOff (compileStmt env sfx d e thnOff thn) ∧
    CodeAt code afterThn (compileElifs env sfx d e p endOff elseOff afterThn 0 elifs) ∧
    (hasElse = true → CodeAt code (elseOff + 1) (compileStmt env sfx d e (elseOff + 1) els)) ∧
    IsLabel code elseOff ∧ IsLabel code endOff := by
  dsimp only
  simp only [compileStmt] at hc
  cases hasElse with
  | false =>
    simp only [Bool.false_eq_true, ↓reduceIte] at hc ⊢
    refine ⟨?_, ?_, fun h => absurd h (by simp), ?_, ?_⟩
    · place hc.append_left.append_left.append_left.append_left.append_right
    · place hc.append_left.append_left.append_right
    · place hc.append_right.head
    · place hc.append_right.head
  | true =>
    simp only [↓reduceIte] at hc ⊢
    refine ⟨?_, ?_, fun _ => ?_, ?_, ?_⟩
    · place hc.append_left.append_left.append_left.append_left.append_right
    · place hc.append_left.append_left.append_right
    · place hc.append_left.append_right.append_right
    · place hc.append_left.append_right.append_left.head
    · place hc.append_right.head

theorem parts_select {sel : Ast.Expr} {cases : SCases} {hasElse : Bool} {els : SStmt} {p : Pos}
    (hc : CodeAt code off (compileStmt env sfx d e off (.select sel cases hasElse els p))) :
    let casesOff := off + (compileExpr sel).length + 1 + 3
    let elseOff := casesOff + sizeCases env.dp d (e + 1) cases
    let endOff := elseOff + (if hasElse then 1 + sizeStmt env.dp d (e + 1) els else 0)
    CodeAt code casesOff (compileCases env sfx d (e + 1) p endOff elseOff casesOff 0 cases) ∧
    (hasElse = true → CodeAt code (elseOff + 1) (compileStmt env sfx d (e + 1) (elseOff + 1) els)) ∧
    IsLabel code (casesOff - 1) ∧ IsLabel code (endOff + 2) ∧ IsLabel code elseOff ∧ IsLabel code endOff := by
  dsimp only
  simp only [compileStmt] at hc
  cases hasElse with
  | false =>
    simp only [Bool.false_eq_true, ↓reduceIte] at hc ⊢
    refine ⟨?_, fun h => absurd h (by simp), ?_, ?_, ?_, ?_⟩
    · place hc.append_left.append_left.append_right
    · place hc.append_left.append_left.append_left.append_right.tail.tail.head
    · place hc.append_right.tail.tail.head
    · place hc.append_right.head
    · place hc.append_right.head
  | true =>
    simp only [↓reduceIte] at hc ⊢
    refine ⟨?_, fun _ => ?_, ?_, ?_, ?_, ?_⟩
    · place hc.append_left.append_left.append_right
    · place hc.append_left.append_right.append_right
    · place hc.append_left.append_left.append_left.append_right.tail.tail.head
    · place hc.append_right.tail.tail.head
    · place hc.append_left.append_right.append_left.head
    · place hc.append_right.head

theorem parts_forNone {x : Nat} {t : Ty} {lo hi : Ast.Expr} {body : SStmt} {p : Pos}
    (hc : CodeAt code off (compileStmt env sfx d e off (.forLoop x t lo hi none body p))) :
    let hdr := off + (compileExprTo lo t).length + 2 + (compileExprTo hi t).length
    let bodyOff := hdr + 6
    let outOff := bodyOff + sizeForBody env.dp d e x body
    CodeAt code bodyOff
      (forBody sfx x t (compileStmt env (stepSuffix sfx true) (d + 1) e (bodyOff + 8) body) true p bodyOff outOff) ∧
    IsLabel code (hdr + 5) ∧ IsLabel code outOff := by
  dsimp only
  simp only [compileStmt] at hc
  have hM := hc.append_right
  refine ⟨?_, ?_, ?_⟩
  · place hM.append_left.append_right
  · place hM.append_left.append_left.tail.tail.tail.tail.tail.head
  · simp only [sizeForBody]
    place hM.append_right.head

theorem parts_forSome {x : Nat} {t : Ty} {lo hi s : Ast.Expr} {body : SStmt} {p : Pos}
    (hc : CodeAt code off (compileStmt env sfx d e off (.forLoop x t lo hi (some s) body p))) :
    let hdr := off + (compileExprTo lo t).length + 2 + (compileExprTo hi t).length
    let negOff := hdr + 1 + (compileExpr s).length + 11
    let testPosOff := negOff + sizeForBody env.dp d e x body + 1
    let posOff := testPosOff + 4
    let zeroOff := posOff + sizeForBody env.dp d e x body + 1
    let outOff := zeroOff + 2
    CodeAt code negOff
      (forBody sfx x t (compileStmt env (stepSuffix sfx false) (d + 1) e (negOff + 8) body) false p negOff outOff) ∧
    CodeAt code posOff
      (forBody sfx x t (compileStmt env (stepSuffix sfx true) (d + 1) e (posOff + 8) body) true p posOff outOff) ∧
    IsLabel code (hdr + 1 + (compileExpr s).length + 5) ∧ IsLabel code outOff ∧ IsLabel code testPosOff ∧
    IsLabel code zeroOff := by
  dsimp only
  simp only [compileStmt] at hc
  have hM := hc.append_right
  simp only [sizeForBody]
  refine ⟨?_, ?_, ?_, ?_, ?_, ?_⟩
  · place hM.append_left.append_left.append_left.append_right
  · place hM.append_left.append_right
  · place hM.append_left.append_left.append_left.append_left.append_right.tail.tail.tail.tail.tail.head
  · place hM.append_right.tail.tail.tail.head
  · place hM.append_left.append_left.append_right.tail.head
  · place hM.append_right.tail.head

theorem parts_while {c : Ast.Expr} {body : SStmt} {p : Pos}
    (hc : CodeAt code off (compileStmt env sfx d e off (.while c body p))) :
    let bodyOff := off + 1 + (compileExpr c).length + 1
    CodeAt code bodyOff (compileStmt env sfx d e bodyOff body) ∧
    IsLabel code off ∧ IsLabel code (bodyOff + sizeStmt env.dp d e body + 1) := by
  dsimp only
  simp only [compileStmt] at hc
  refine ⟨?_, ?_, ?_⟩
  · place hc.append_left.append_right
  · place hc.append_left.append_left.append_left.append_left.head
  · place hc.append_right.tail.head

theorem parts_doTop {c : Ast.Expr} {u : Bool} {body : SStmt} {p : Pos}
    (hc : CodeAt code off (compileStmt env sfx d e off (.doLoop c true u body p))) :
    let bodyOff := off + 1 + (compileExpr c).length + (if u then 3 else 1)
    CodeAt code bodyOff (compileStmt env sfx d e bodyOff body) ∧
    IsLabel code off ∧ IsLabel code (bodyOff + sizeStmt env.dp d e body + 1) ∧ (u = true → IsLabel code (bodyOff - 1)) := by
  dsimp only
  simp only [compileStmt, ↓reduceIte] at hc
  cases u with
  | false =>
    simp only [Bool.false_eq_true, ↓reduceIte] at hc ⊢
    refine ⟨?_, ?_, ?_, fun h => absurd h (by simp)⟩
    · place hc.append_left.append_right
    · place hc.append_left.append_left.append_left.append_left.head
    · place hc.append_right.tail.head
  | true =>
    simp only [↓reduceIte] at hc ⊢
    refine ⟨?_, ?_, ?_, fun _ => ?_⟩
    · place hc.append_left.append_right
    · place hc.append_left.append_left.append_left.append_left.head
    · place hc.append_right.tail.head
    · place hc.append_left.append_left.append_right.tail.tail.head

theorem parts_doBottom {c : Ast.Expr} {u : Bool} {body : SStmt} {p : Pos}
    (hc : CodeAt code off (compileStmt env sfx d e off (.doLoop c false u body p))) :
    CodeAt code (off + 1) (compileStmt env sfx d e (off + 1) body) ∧ IsLabel code off ∧
    IsLabel code (off + 1 + sizeStmt env.dp d e body + (compileExpr c).length + (if u then 1 else 2)) := by
  simp only [compileStmt, Bool.false_eq_true, ↓reduceIte] at hc
  cases u with
  | false =>
    simp only [Bool.false_eq_true, ↓reduceIte] at hc ⊢
    refine ⟨?_, ?_, ?_⟩
    · place hc.append_left.append_left.append_left.append_right
    · place hc.append_left.append_left.append_left.append_left.head
    · place hc.append_right.head
  | true =>
    simp only [↓reduceIte] at hc ⊢
    refine ⟨?_, ?_, ?_⟩
    · place hc.append_left.append_left.append_left.append_right
    · place hc.append_left.append_left.append_left.append_left.head
    · place hc.append_right.head

theorem parts_elifs {p : Pos} {endOff elseOff i : Nat} {c : Ast.Expr} {body : SStmt} {rest : ElseIfs}
    (hc : CodeAt code off (compileElifs env sfx d e p endOff elseOff off i (.cons c body rest))) :
    let bodyOff := off + 1 + (compileExpr c).length + 1
    let next := bodyOff + sizeStmt env.dp d e body + 1
    CodeAt code bodyOff (compileStmt env sfx d e bodyOff body) ∧
    CodeAt code next (compileElifs env sfx d e p endOff elseOff next (i + 1) rest) ∧ IsLabel code off := by
  dsimp only
  simp only [compileElifs] at hc
  refine ⟨?_, ?_, ?_⟩
  · place hc.append_left.append_left.append_right
  · place hc.append_right
  · place hc.append_left.append_left.append_left.append_left.append_left.head

theorem parts_cases {p : Pos} {endOff elseOff i : Nat} {conds : List CaseExpr} {body : SStmt} {rest : SCases}
    (hc : CodeAt code off (compileCases env sfx d e p endOff elseOff off i (.cons conds body rest))) :
    let stmtsLabel := off + 1 + sizeConds conds
    let bodyOff := stmtsLabel + (if conds.length > 1 then 1 else 0)
    let next := bodyOff + sizeStmt env.dp d e body + 1
    CodeAt code (off + 1) (compileConds p sfx i next stmtsLabel (off + 1) 0 conds) ∧
    CodeAt code bodyOff (compileStmt env sfx d e bodyOff body) ∧
    CodeAt code next (compileCases env sfx d e p endOff elseOff next (i + 1) rest) ∧ IsLabel code off ∧
    (conds.length > 1 → IsLabel code stmtsLabel) := by
  dsimp only
  simp only [compileCases, decide_eq_true_eq] at hc
  by_cases hm : conds.length > 1
  · simp only [hm, ↓reduceIte] at hc ⊢
    refine ⟨?_, ?_, ?_, ?_, fun _ => ?_⟩
    · place hc.append_left.append_left.append_left.append_left.append_right
    · place hc.append_left.append_left.append_right
    · place hc.append_right
    · place hc.append_left.append_left.append_left.append_left.append_left.head
    · place hc.append_left.append_left.append_left.append_right.head
  · simp only [hm, ↓reduceIte] at hc ⊢
    refine ⟨?_, ?_, ?_, ?_, fun h => h.elim⟩
    · place hc.append_left.append_left.append_left.append_left.append_right
    · place hc.append_left.append_left.append_right
    · place hc.append_right
    · place hc.append_left.append_left.append_left.append_left.append_left.head

end parts

/-- the address of an ELSEIF chain holds a label: that of its first arm, or (empty chain) what follows it -/
theorem elifs_head {code : Code} {env : LEnv} {sfx : String} {d e off : Nat} {p : Pos} {endOff elseOff i : Nat}
    (el : ElseIfs) (hc : CodeAt code off (compileElifs env sfx d e p endOff elseOff off i el))
    (hfol : IsLabel code (off + sizeElifs env.dp d e el)) : IsLabel code off := by
  cases el with
  | nil => simpa [sizeElifs] using hfol
  | cons c body rest => exact (parts_elifs hc).2.2

/-- the address of a list of CASE blocks holds a label: that of its first block, or (empty list) what follows it -/
theorem cases_head {code : Code} {env : LEnv} {sfx : String} {d e off : Nat} {p : Pos} {endOff elseOff i : Nat}
    (cs : SCases) (hc : CodeAt code off (compileCases env sfx d e p endOff elseOff off i cs))
    (hfol : IsLabel code (off + sizeCases env.dp d e cs)) : IsLabel code off := by
  cases cs with
  | nil => simpa [sizeCases] using hfol
  | cons conds body rest => exact (parts_cases hc).2.2.2.1

theorem targetsOk_replicate (code : Code) (n : Nat) (x : CInstr × Pos) (h : InstrOk code x.1) :
    TargetsOk code (List.replicate n x) := by
  intro y hy
  rw [(List.mem_replicate.mp hy).2]; exact h

theorem targets_data (code : Code) (items : List (Val × Pos)) (p : Pos) (env : LEnv) (sfx : String) (d e off : Nat) :
    TargetsOk code (compileStmt env sfx d e off (.data items p)) := by
  simp only [compileStmt, targetsOk_append, targetsOk_cons, targetsOk_nil, InstrOk, and_true, true_and]
  exact targetsOk_flatMap code _ (fun a => by obtain ⟨v, q⟩ := a; simp [targetsOk_cons, targetsOk_nil, InstrOk]) items

/-! ### the statement lemma: every branch of the code of a statement lands on a label -/

mutual
theorem targets_stmt (code : Code) (env : LEnv) : ∀ (s : SStmt) (sfx : String) (d e off : Nat),
    CodeAt code off (compileStmt env sfx d e off s) →
    (∀ L ∈ s.gotos, IsLabel code (env.addr L)) → (∀ L ∈ s.gosubs, IsLabel code (env.addr L)) →
    TargetsOk code (compileStmt env sfx d e off s)
  | .skip, _, _, _, _, _, _, _ => by simp [compileStmt, targetsOk_nil]
  | .comment, _, _, _, _, _, _, _ => by simp [compileStmt, targetsOk_nil]
  | .dim x t p, _, _, _, _, _, _, _ => by simp [compileStmt, targetsOk_cons, targetsOk_nil, InstrOk]
  | .assign x t ex p, _, _, _, _, _, _, _ => by
    simp [compileStmt, targetsOk_append, targets_exprTo, targets_storeVar]
  | .print items p, _, _, _, _, _, _, _ => by
    simp [compileStmt, targetsOk_append, targetsOk_cons, targetsOk_nil, InstrOk, targets_items]
  | .data items p, sfx, d, e, off, _, _, _ => targets_data code items p env sfx d e off
  | .read vars p, _, _, _, _, _, _, _ => by
    simp only [compileStmt]
    split
    · simp [targetsOk_cons, targetsOk_nil, InstrOk]
    · exact targetsOk_flatMap code _
        (fun a => by obtain ⟨x, t, q⟩ := a; simp [targetsOk_cons, targetsOk_nil, InstrOk]) vars
  | .end_ p, _, _, _, _, _, _, _ => by simp [compileStmt, targetsOk_cons, targetsOk_nil, InstrOk]
  | .label L name p, _, _, _, _, _, _, _ => by simp [compileStmt, targetsOk_cons, targetsOk_nil, InstrOk]
  | .ret p, _, _, _, _, _, _, _ => by simp [compileStmt, targetsOk_cons, targetsOk_nil, InstrOk]
  | .goto L p, sfx, d, e, off, _, hg, _ => by
    have hL : IsLabel code (env.addr L) := hg L (by simp [SStmt.gotos])
    simp only [compileStmt, compileGoto, targetsOk_append, targetsOk_cons, targetsOk_nil, InstrOk, and_true]
    exact ⟨⟨targetsOk_replicate code _ _ trivial, targetsOk_replicate code _ _ trivial⟩, hL⟩
  | .gosub L p, sfx, d, e, off, _, _, hs => by
    have hL : IsLabel code (env.addr L) := hs L (by simp [SStmt.gosubs])
    simpa [compileStmt, targetsOk_cons, targetsOk_nil, InstrOk] using hL
  | .seq a b, sfx, d, e, off, hc, hg, hs => by
    obtain ⟨ha, hb⟩ := parts_seq hc
    simp only [SStmt.gotos, SStmt.gosubs, List.mem_append] at hg hs
    simp only [compileStmt, targetsOk_append]
    exact ⟨targets_stmt code env a sfx d e off ha (fun L h => hg L (.inl h)) (fun L h => hs L (.inl h)),
      targets_stmt code env b sfx d e _ hb (fun L h => hg L (.inr h)) (fun L h => hs L (.inr h))⟩
  | .ifBlock c thn elifs hasElse els p, sfx, d, e, off, hc, hg, hs => by
    obtain ⟨hT, hEL, hELS, hlElse, hlEnd⟩ := parts_if hc
    simp only [SStmt.gotos, SStmt.gosubs, List.mem_append] at hg hs
    have iT := targets_stmt code env thn sfx d e _ hT (fun L h => hg L (.inl h)) (fun L h => hs L (.inl h))
    have iEL := targets_elifs code env elifs sfx d e p _ _ _ 0 hEL hlEnd hlElse
      (fun L h => hg L (.inr (.inl h))) (fun L h => hs L (.inr (.inl h)))
    have hAfter := elifs_head elifs hEL hlElse
    simp only [compileStmt, targetsOk_append, targetsOk_cons, targetsOk_nil, InstrOk, targets_expr, and_true, true_and,
      and_assoc]
    refine ⟨hAfter, iT, hlEnd, iEL, ?_⟩
    cases hasElse with
    | false => simp [targetsOk_nil]
    | true =>
      simp only [↓reduceIte, targetsOk_append, targetsOk_cons, targetsOk_nil, InstrOk, and_true, true_and]
      exact targets_stmt code env els sfx d e _ (hELS rfl) (fun L h => hg L (.inr (.inr h)))
        (fun L h => hs L (.inr (.inr h)))
  | .select sel cases hasElse els p, sfx, d, e, off, hc, hg, hs => by
    obtain ⟨hCS, hELS, hlBegin, hlSkip, hlElse, hlEnd⟩ := parts_select hc
    simp only [SStmt.gotos, SStmt.gosubs, List.mem_append] at hg hs
    have iCS := targets_cases code env cases sfx d (e + 1) p _ _ _ 0 hCS hlEnd hlElse
      (fun L h => hg L (.inl h)) (fun L h => hs L (.inl h))
    simp only [compileStmt, targetsOk_append, targetsOk_cons, targetsOk_nil, InstrOk, targets_expr, and_true, true_and,
      and_assoc]
    refine ⟨hlBegin, hlSkip, iCS, ?_⟩
    cases hasElse with
    | false => simp [targetsOk_nil]
    | true =>
      simp only [↓reduceIte, targetsOk_append, targetsOk_cons, targetsOk_nil, InstrOk, and_true, true_and]
      exact targets_stmt code env els sfx d (e + 1) _ (hELS rfl) (fun L h => hg L (.inr h)) (fun L h => hs L (.inr h))
  | .forLoop x t lo hi none body p, sfx, d, e, off, hc, hg, hs => by
    obtain ⟨hFB, hlBegin, hlOut⟩ := parts_forNone hc
    simp only [SStmt.gotos, SStmt.gosubs] at hg hs
    have iB := targets_stmt code env body _ (d + 1) e _ (forBody_body hFB) hg hs
    have iFB := targets_forBody hFB hlOut iB
    simp only [compileStmt, targetsOk_append, targetsOk_cons, targetsOk_nil, InstrOk, targets_exprTo, targets_storeVar,
      and_true, true_and, and_assoc]
    exact ⟨hlBegin, hlOut, iFB⟩
  | .forLoop x t lo hi (some se) body p, sfx, d, e, off, hc, hg, hs => by
    obtain ⟨hN, hP, hlBegin, hlOut, hlTest, hlZero⟩ := parts_forSome hc
    simp only [SStmt.gotos, SStmt.gosubs] at hg hs
    have iBn := targets_stmt code env body _ (d + 1) e _ (forBody_body hN) hg hs
    have iBp := targets_stmt code env body _ (d + 1) e _ (forBody_body hP) hg hs
    have iN := targets_forBody hN hlOut iBn
    have iP := targets_forBody hP hlOut iBp
    simp only [compileStmt, targetsOk_append, targetsOk_cons, targetsOk_nil, InstrOk, targets_exprTo, targets_storeVar,
      targets_expr, and_true, true_and, and_assoc]
    exact ⟨hlBegin, hlOut, hlTest, iN, hlOut, hlZero, iP, hlOut⟩
  | .while c body p, sfx, d, e, off, hc, hg, hs => by
    obtain ⟨hB, hlOff, hlWend⟩ := parts_while hc
    simp only [SStmt.gotos, SStmt.gosubs] at hg hs
    have iB := targets_stmt code env body sfx d e _ hB hg hs
    simp only [compileStmt, targetsOk_append, targetsOk_cons, targetsOk_nil, InstrOk, targets_expr, and_true, true_and,
      and_assoc]
    exact ⟨hlWend, iB, hlOff⟩
  | .doLoop c top u body p, sfx, d, e, off, hc, hg, hs => by
    simp only [SStmt.gotos, SStmt.gosubs] at hg hs
    cases top with
    | true =>
      obtain ⟨hB, hlOff, hlLoop, hlBody⟩ := parts_doTop hc
      have iB := targets_stmt code env body sfx d e _ hB hg hs
      cases u with
      | true =>
        simp only [compileStmt, ↓reduceIte, targetsOk_append, targetsOk_cons, targetsOk_nil, InstrOk, targets_expr,
          and_true, true_and, and_assoc]
        exact ⟨hlBody rfl, hlLoop, iB, hlOff⟩
      | false =>
        simp only [compileStmt, ↓reduceIte, Bool.false_eq_true, targetsOk_append, targetsOk_cons, targetsOk_nil, InstrOk,
          targets_expr, and_true, true_and, and_assoc]
        exact ⟨hlLoop, iB, hlOff⟩
    | false =>
      obtain ⟨hB, hlOff, hlLoop⟩ := parts_doBottom hc
      have iB := targets_stmt code env body sfx d e _ hB hg hs
      cases u with
      | true =>
        simp only [compileStmt, ↓reduceIte, Bool.false_eq_true, targetsOk_append, targetsOk_cons, targetsOk_nil, InstrOk,
          targets_expr, and_true, true_and, and_assoc]
        exact ⟨iB, hlOff⟩
      | false =>
        simp only [compileStmt, ↓reduceIte, Bool.false_eq_true, targetsOk_append, targetsOk_cons, targetsOk_nil, InstrOk,
          targets_expr, and_true, true_and, and_assoc]
        exact ⟨iB, hlLoop, hlOff⟩
theorem targets_elifs (code : Code) (env : LEnv) : ∀ (el : ElseIfs) (sfx : String) (d e : Nat) (p : Pos)
    (endOff elseOff off i : Nat), CodeAt code off (compileElifs env sfx d e p endOff elseOff off i el) →
    IsLabel code endOff → IsLabel code (off + sizeElifs env.dp d e el) →
    (∀ L ∈ el.gotos, IsLabel code (env.addr L)) → (∀ L ∈ el.gosubs, IsLabel code (env.addr L)) →
    TargetsOk code (compileElifs env sfx d e p endOff elseOff off i el)
  | .nil, _, _, _, _, _, _, _, _, _, _, _, _, _ => by simp [compileElifs, targetsOk_nil]
  | .cons c body rest, sfx, d, e, p, endOff, elseOff, off, i, hc, hend, hfol, hg, hs => by
    obtain ⟨hB, hR, hl⟩ := parts_elifs hc
    simp only [ElseIfs.gotos, ElseIfs.gosubs, List.mem_append] at hg hs
    simp only [sizeElifs] at hfol
    have hfol' : IsLabel code (off + 1 + (compileExpr c).length + 1 + sizeStmt env.dp d e body + 1 +
        sizeElifs env.dp d e rest) := by place hfol
    have hnext := elifs_head rest hR hfol'
    have iB := targets_stmt code env body sfx d e _ hB (fun L h => hg L (.inl h)) (fun L h => hs L (.inl h))
    have iR := targets_elifs code env rest sfx d e p endOff elseOff _ (i + 1) hR hend hfol'
      (fun L h => hg L (.inr h)) (fun L h => hs L (.inr h))
    simp only [compileElifs, targetsOk_append, targetsOk_cons, targetsOk_nil, InstrOk, targets_expr, and_true, true_and,
      and_assoc]
    exact ⟨hnext, iB, hend, iR⟩
theorem targets_cases (code : Code) (env : LEnv) : ∀ (cs : SCases) (sfx : String) (d e : Nat) (p : Pos)
    (endOff elseOff off i : Nat), CodeAt code off (compileCases env sfx d e p endOff elseOff off i cs) →
    IsLabel code endOff → IsLabel code (off + sizeCases env.dp d e cs) →
    (∀ L ∈ cs.gotos, IsLabel code (env.addr L)) → (∀ L ∈ cs.gosubs, IsLabel code (env.addr L)) →
    TargetsOk code (compileCases env sfx d e p endOff elseOff off i cs)
  | .nil, _, _, _, _, _, _, _, _, _, _, _, _, _ => by simp [compileCases, targetsOk_nil]
  | .cons conds body rest, sfx, d, e, p, endOff, elseOff, off, i, hc, hend, hfol, hg, hs => by
    obtain ⟨hCD, hB, hR, hl, hst⟩ := parts_cases hc
    simp only [SCases.gotos, SCases.gosubs, List.mem_append] at hg hs
    simp only [sizeCases] at hfol
    have hfol' : IsLabel code (off + 1 + sizeConds conds + (if conds.length > 1 then 1 else 0) +
        sizeStmt env.dp d e body + 1 + sizeCases env.dp d e rest) := by place hfol
    have hnext := cases_head rest hR hfol'
    have iCD := targets_conds code p sfx i _ _ hnext conds _ 0 hCD hst
    have iB := targets_stmt code env body sfx d e _ hB (fun L h => hg L (.inl h)) (fun L h => hs L (.inl h))
    have iR := targets_cases code env rest sfx d e p endOff elseOff _ (i + 1) hR hend hfol'
      (fun L h => hg L (.inr h)) (fun L h => hs L (.inr h))
    simp only [compileCases, decide_eq_true_eq, targetsOk_append, targetsOk_cons, targetsOk_nil, InstrOk, and_true,
      true_and, and_assoc]
    refine ⟨iCD, ?_, iB, hend, iR⟩
    split <;> simp [targetsOk_cons, targetsOk_nil, InstrOk]
end

/-! ### the resolver table lists addresses of `Label` instructions — those of the label statements -/

mutual
/-- `(L, name, p)` for every label statement `label L name p` inside the statement -/
def labelDefs : SStmt → List (Nat × String × Pos)
  | .seq a b => labelDefs a ++ labelDefs b
  | .ifBlock _ thn elifs _ els _ => labelDefs thn ++ (labelDefsElifs elifs ++ labelDefs els)
  | .select _ cases _ els _ => labelDefsCases cases ++ labelDefs els
  | .forLoop _ _ _ _ _ body _ => labelDefs body
  | .while _ body _ => labelDefs body
  | .doLoop _ _ _ body _ => labelDefs body
  | .label L name p => [(L, name, p)]
  | _ => []
def labelDefsElifs : ElseIfs → List (Nat × String × Pos)
  | .nil => []
  | .cons _ body rest => labelDefs body ++ labelDefsElifs rest
def labelDefsCases : SCases → List (Nat × String × Pos)
  | .nil => []
  | .cons _ body rest => labelDefs body ++ labelDefsCases rest
end

/-- address `a` holds the `Label` instruction of a label statement of `defs` that defines `L` -/
def LabelOf (code : Code) (defs : List (Nat × String × Pos)) (L a : Nat) : Prop :=
  ∃ name q, (L, name, q) ∈ defs ∧ code[a]? = some (CInstr.label name, q)

theorem LabelOf.isLabel {code : Code} {defs : List (Nat × String × Pos)} {L a : Nat} (h : LabelOf code defs L a) :
    IsLabel code a := by
  obtain ⟨name, q, _, h⟩ := h
  exact ⟨name, q, h⟩

theorem LabelOf.mono {code : Code} {defs defs' : List (Nat × String × Pos)} {L a : Nat} (h : LabelOf code defs L a)
    (hs : ∀ x ∈ defs, x ∈ defs') : LabelOf code defs' L a := by
  obtain ⟨name, q, hm, h⟩ := h
  exact ⟨name, q, hs _ hm, h⟩

mutual
/-- every entry `(L, a)` of the model's resolver table (`addrTable`, which follows the layout of `compileStmt`) is the
address of the `Label` instruction of a label statement that defines `L` -/
theorem addr_label (code : Code) (env : LEnv) : ∀ (s : SStmt) (sfx : String) (d e off : Nat),
    CodeAt code off (compileStmt env sfx d e off s) →
    ∀ L a, (L, a) ∈ addrTable env.dp d e off s → LabelOf code (labelDefs s) L a
  | .seq a b, sfx, d, e, off, hc, L, x, hm => by
    obtain ⟨ha, hb⟩ := parts_seq hc
    simp only [addrTable, List.mem_append] at hm
    rcases hm with hm | hm
    · exact (addr_label code env a sfx d e off ha L x hm).mono (by simp only [labelDefs, List.mem_append]; grind)
    · exact (addr_label code env b sfx d e _ hb L x hm).mono (by simp only [labelDefs, List.mem_append]; grind)
  | .ifBlock c thn elifs hasElse els p, sfx, d, e, off, hc, L, x, hm => by
    obtain ⟨hT, hEL, hELS, _, _⟩ := parts_if hc
    simp only [addrTable, List.mem_append] at hm
    rcases hm with (hm | hm) | hm
    · exact (addr_label code env thn sfx d e _ hT L x hm).mono (by simp only [labelDefs, List.mem_append]; grind)
    · exact (addr_label_elifs code env elifs sfx d e p _ _ _ 0 hEL L x hm).mono
        (by simp only [labelDefs, List.mem_append]; grind)
    · cases hasElse with
      | false => simp at hm
      | true =>
        simp only [↓reduceIte] at hm
        exact (addr_label code env els sfx d e _ (hELS rfl) L x hm).mono
          (by simp only [labelDefs, List.mem_append]; grind)
  | .select sel cases hasElse els p, sfx, d, e, off, hc, L, x, hm => by
    obtain ⟨hCS, hELS, _, _, _, _⟩ := parts_select hc
    simp only [addrTable, List.mem_append] at hm
    rcases hm with hm | hm
    · exact (addr_label_cases code env cases sfx d (e + 1) p _ _ _ 0 hCS L x hm).mono
        (by simp only [labelDefs, List.mem_append]; grind)
    · cases hasElse with
      | false => simp at hm
      | true =>
        simp only [↓reduceIte] at hm
        exact (addr_label code env els sfx d (e + 1) _ (hELS rfl) L x hm).mono
          (by simp only [labelDefs, List.mem_append]; grind)
  | .forLoop v t lo hi none body p, sfx, d, e, off, hc, L, x, hm => by
    obtain ⟨hFB, _, _⟩ := parts_forNone hc
    simp only [addrTable] at hm
    exact (addr_label code env body _ (d + 1) e _ (forBody_body hFB) L x hm).mono (by simp only [labelDefs]; grind)
  | .forLoop v t lo hi (some se) body p, sfx, d, e, off, hc, L, x, hm => by
    obtain ⟨hN, hP, _, _, _, _⟩ := parts_forSome hc
    simp only [addrTable, List.mem_append] at hm
    rcases hm with hm | hm
    · exact (addr_label code env body _ (d + 1) e _ (forBody_body hP) L x hm).mono (by simp only [labelDefs]; grind)
    · exact (addr_label code env body _ (d + 1) e _ (forBody_body hN) L x hm).mono (by simp only [labelDefs]; grind)
  | .while c body p, sfx, d, e, off, hc, L, x, hm => by
    obtain ⟨hB, _, _⟩ := parts_while hc
    simp only [addrTable] at hm
    exact (addr_label code env body sfx d e _ hB L x hm).mono (by simp only [labelDefs]; grind)
  | .doLoop c top u body p, sfx, d, e, off, hc, L, x, hm => by
    cases top with
    | true =>
      obtain ⟨hB, _, _, _⟩ := parts_doTop hc
      simp only [addrTable, ↓reduceIte] at hm
      exact (addr_label code env body sfx d e _ hB L x hm).mono (by simp only [labelDefs]; grind)
    | false =>
      obtain ⟨hB, _, _⟩ := parts_doBottom hc
      simp only [addrTable, Bool.false_eq_true, ↓reduceIte] at hm
      exact (addr_label code env body sfx d e _ hB L x hm).mono (by simp only [labelDefs]; grind)
  | .label L' name p, sfx, d, e, off, hc, L, x, hm => by
    simp only [addrTable, List.mem_singleton, Prod.mk.injEq] at hm
    obtain ⟨rfl, rfl⟩ := hm
    simp only [compileStmt] at hc
    exact ⟨name, p, by simp [labelDefs], hc.head⟩
  | .skip, _, _, _, _, _, _, _, hm => by simp [addrTable] at hm
  | .comment, _, _, _, _, _, _, _, hm => by simp [addrTable] at hm
  | .dim _ _ _, _, _, _, _, _, _, _, hm => by simp [addrTable] at hm
  | .assign _ _ _ _, _, _, _, _, _, _, _, hm => by simp [addrTable] at hm
  | .print _ _, _, _, _, _, _, _, _, hm => by simp [addrTable] at hm
  | .data _ _, _, _, _, _, _, _, _, hm => by simp [addrTable] at hm
  | .read _ _, _, _, _, _, _, _, _, hm => by simp [addrTable] at hm
  | .end_ _, _, _, _, _, _, _, _, hm => by simp [addrTable] at hm
  | .goto _ _, _, _, _, _, _, _, _, hm => by simp [addrTable] at hm
  | .gosub _ _, _, _, _, _, _, _, _, hm => by simp [addrTable] at hm
  | .ret _, _, _, _, _, _, _, _, hm => by simp [addrTable] at hm
theorem addr_label_elifs (code : Code) (env : LEnv) : ∀ (el : ElseIfs) (sfx : String) (d e : Nat) (p : Pos)
    (endOff elseOff off i : Nat), CodeAt code off (compileElifs env sfx d e p endOff elseOff off i el) →
    ∀ L a, (L, a) ∈ addrElifs env.dp d e off el → LabelOf code (labelDefsElifs el) L a
  | .nil, _, _, _, _, _, _, _, _, _, _, _, hm => by simp [addrElifs] at hm
  | .cons c body rest, sfx, d, e, p, endOff, elseOff, off, i, hc, L, x, hm => by
    obtain ⟨hB, hR, _⟩ := parts_elifs hc
    simp only [addrElifs, List.mem_append] at hm
    rcases hm with hm | hm
    · exact (addr_label code env body sfx d e _ hB L x hm).mono (by simp only [labelDefsElifs, List.mem_append]; grind)
    · exact (addr_label_elifs code env rest sfx d e p endOff elseOff _ (i + 1) hR L x hm).mono
        (by simp only [labelDefsElifs, List.mem_append]; grind)
theorem addr_label_cases (code : Code) (env : LEnv) : ∀ (cs : SCases) (sfx : String) (d e : Nat) (p : Pos)
    (endOff elseOff off i : Nat), CodeAt code off (compileCases env sfx d e p endOff elseOff off i cs) →
    ∀ L a, (L, a) ∈ addrCases env.dp d e off cs → LabelOf code (labelDefsCases cs) L a
  | .nil, _, _, _, _, _, _, _, _, _, _, _, hm => by simp [addrCases] at hm
  | .cons conds body rest, sfx, d, e, p, endOff, elseOff, off, i, hc, L, x, hm => by
    obtain ⟨_, hB, hR, _, _⟩ := parts_cases hc
    simp only [addrCases, List.mem_append] at hm
    rcases hm with hm | hm
    · exact (addr_label code env body sfx d e _ hB L x hm).mono (by simp only [labelDefsCases, List.mem_append]; grind)
    · exact (addr_label_cases code env rest sfx d e p endOff elseOff _ (i + 1) hR L x hm).mono
        (by simp only [labelDefsCases, List.mem_append]; grind)
end

/-! ### whole programs -/

theorem gotos_strip : ∀ b : SStmt, (strip b).gotos = b.gotos := by
  refine top_induction ?_ ?_
  · intro a b iha ihb
    simp only [strip, SStmt.gotos, iha, ihb]
  · intro st hns
    rcases atom_cases st hns with ⟨rfl, _, _⟩ | ⟨⟨items, p, rfl⟩, _, _⟩ | ⟨_, _, hs, _⟩
    · rfl
    · rfl
    · rw [hs]

theorem gosubs_strip : ∀ b : SStmt, (strip b).gosubs = b.gosubs := by
  refine top_induction ?_ ?_
  · intro a b iha ihb
    simp only [strip, SStmt.gosubs, iha, ihb]
  · intro st hns
    rcases atom_cases st hns with ⟨rfl, _, _⟩ | ⟨⟨items, p, rfl⟩, _, _⟩ | ⟨_, _, hs, _⟩
    · rfl
    · rfl
    · rw [hs]

theorem labelDefs_strip : ∀ b : SStmt, labelDefs (strip b) = labelDefs b := by
  refine top_induction ?_ ?_
  · intro a b iha ihb
    simp only [strip, labelDefs, iha, ihb]
  · intro st hns
    rcases atom_cases st hns with ⟨rfl, _, _⟩ | ⟨⟨items, p, rfl⟩, _, _⟩ | ⟨_, _, hs, _⟩
    · rfl
    · rfl
    · rw [hs]

mutual
/-- a GOSUB of a well-formed statement names a label recorded at FOR depth 0 (so a defined one: `Ctx.Ok.gosubOk`) -/
theorem gosub_depth (sl : List Ty) (dp : Dp) : ∀ (s : SStmt) (d e L : Nat), Wf sl dp d e s → L ∈ s.gosubs → dp.fd L = 0
  | .seq a b, d, e, L, hw, h => by
    simp only [SStmt.gosubs, List.mem_append] at h
    rcases h with h | h
    · exact gosub_depth sl dp a d e L hw.1 h
    · exact gosub_depth sl dp b d e L hw.2 h
  | .ifBlock c thn elifs hasElse els p, d, e, L, hw, h => by
    obtain ⟨_, _, h1, h2, h3, _⟩ := hw
    simp only [SStmt.gosubs, List.mem_append] at h
    rcases h with h | h | h
    · exact gosub_depth sl dp thn d e L h1 h
    · exact gosub_depth_elifs sl dp elifs d e L h2 h
    · exact gosub_depth sl dp els d e L h3 h
  | .select sel cases hasElse els p, d, e, L, hw, h => by
    obtain ⟨_, h1, h2, _, _⟩ := hw
    simp only [SStmt.gosubs, List.mem_append] at h
    rcases h with h | h
    · exact gosub_depth_cases sl dp cases d (e + 1) L h1 h
    · exact gosub_depth sl dp els d (e + 1) L h2 h
  | .forLoop x t lo hi step body p, d, e, L, hw, h => by
    simp only [SStmt.gosubs] at h
    exact gosub_depth sl dp body (d + 1) e L hw.2.2.2.2.2.1 h
  | .while c body p, d, e, L, hw, h => by
    simp only [SStmt.gosubs] at h
    exact gosub_depth sl dp body d e L hw.2.2 h
  | .doLoop c top u body p, d, e, L, hw, h => by
    simp only [SStmt.gosubs] at h
    exact gosub_depth sl dp body d e L hw.2.2 h
  | .gosub L' p, d, e, L, hw, h => by
    simp only [SStmt.gosubs, List.mem_singleton] at h
    subst h
    exact hw.1
  | .skip, _, _, _, _, h => by simp [SStmt.gosubs] at h
  | .comment, _, _, _, _, h => by simp [SStmt.gosubs] at h
  | .dim _ _ _, _, _, _, _, h => by simp [SStmt.gosubs] at h
  | .assign _ _ _ _, _, _, _, _, h => by simp [SStmt.gosubs] at h
  | .print _ _, _, _, _, _, h => by simp [SStmt.gosubs] at h
  | .data _ _, _, _, _, _, h => by simp [SStmt.gosubs] at h
  | .read _ _, _, _, _, _, h => by simp [SStmt.gosubs] at h
  | .end_ _, _, _, _, _, h => by simp [SStmt.gosubs] at h
  | .label _ _ _, _, _, _, _, h => by simp [SStmt.gosubs] at h
  | .goto _ _, _, _, _, _, h => by simp [SStmt.gosubs] at h
  | .ret _, _, _, _, _, h => by simp [SStmt.gosubs] at h
theorem gosub_depth_elifs (sl : List Ty) (dp : Dp) : ∀ (el : ElseIfs) (d e L : Nat), WfElifs sl dp d e el →
    L ∈ el.gosubs → dp.fd L = 0
  | .nil, _, _, _, _, h => by simp [ElseIfs.gosubs] at h
  | .cons c body rest, d, e, L, hw, h => by
    obtain ⟨_, _, h1, h2⟩ := hw
    simp only [ElseIfs.gosubs, List.mem_append] at h
    rcases h with h | h
    · exact gosub_depth sl dp body d e L h1 h
    · exact gosub_depth_elifs sl dp rest d e L h2 h
theorem gosub_depth_cases (sl : List Ty) (dp : Dp) : ∀ (cs : SCases) (d e L : Nat), WfCases sl dp d e cs →
    L ∈ cs.gosubs → dp.fd L = 0
  | .nil, _, _, _, _, h => by simp [SCases.gosubs] at h
  | .cons conds body rest, d, e, L, hw, h => by
    obtain ⟨_, _, h1, h2⟩ := hw
    simp only [SCases.gosubs, List.mem_append] at h
    rcases h with h | h
    · exact gosub_depth sl dp body d e L h1 h
    · exact gosub_depth_cases sl dp rest d e L h2 h
end

/-- the hoisted DATA statements contain no branch -/
theorem targets_dataList (code : Code) (env : LEnv) (sfx : String) : ∀ (l : List SStmt), (∀ x ∈ l, isData x = true) →
    ∀ off, TargetsOk code (compileStmt env sfx 0 0 off (seqOf l))
  | [], _, _ => by simp [seqOf, compileStmt, targetsOk_nil]
  | a :: rest, h, off => by
    have ha := h a (by simp)
    have ih := fun off => targets_dataList code env sfx rest (fun x hx => h x (by simp [hx])) off
    cases a <;> simp [isData] at ha
    rename_i items p
    have hd := targets_data code items p env sfx 0 0 off
    have e1 : compileStmt env sfx 0 0 off (seqOf (SStmt.data items p :: rest)) =
        compileStmt env sfx 0 0 off (.data items p) ++
          compileStmt env sfx 0 0 (off + sizeStmt env.dp 0 0 (.data items p)) (seqOf rest) := by
      simp only [seqOf, compileStmt]
    rw [e1, targetsOk_append]
    exact ⟨hd, ih _⟩

/-- every GOTO of the program names a label that is defined -/
def GotosDefined (prog : SProgram) : Prop := ∀ L ∈ prog.body.gotos, L ∈ prog.body.labels

/-- `ProgWf` contains it (so the third and the fourth conjunct of `progWfB` follow from the first two): an undefined label
has the recorded depths 1000000 / 1000000; a GOTO whose label is not in the program leaves every construct around it, so by
`goto_depths` its label is recorded at depth 0 / 0 -/
theorem gotosDefined (prog : SProgram) (hw : ProgWf prog) : GotosDefined prog := by
  have hC := progCtx_ok prog hw
  have hwf : Wf prog.slots (envOf (reorder prog.body)).dp 0 0 (strip prog.body) := hC.wf
  have hgs : ∀ L, (envOf (reorder prog.body)).dp.fd L = 0 → L ∈ (strip prog.body).labels := hC.gosubOk
  intro L hL
  rw [← labels_strip]
  apply Classical.byContradiction
  intro hn
  have := goto_depths prog.slots _ (strip prog.body) 0 0 L hwf (by rw [gotos_strip]; exact hL) hn
  exact hn (hgs L (by omega))

/-- **the resolver is right about every label**: the resolved address of a label of the program holds the `Label`
instruction of (a label statement that defines) that label -/
theorem label_resolved (prog : SProgram) (hw : ProgWf prog) (L : Nat) (hL : L ∈ prog.body.labels) :
    LabelOf (compile prog) (labelDefs prog.body) L ((envOf (reorder prog.body)).addr L) := by
  have hC := progCtx_ok prog hw
  have hcode : CodeAt (compile prog) (progCtx prog).base
      (compileStmt (envOf (reorder prog.body)) "" 0 0 (progCtx prog).base (strip prog.body)) := hC.hcode
  have hwf : Wf prog.slots (envOf (reorder prog.body)).dp 0 0 (strip prog.body) := hC.wf
  have hkeys := addr_keys prog.slots (envOf (reorder prog.body)).dp (strip prog.body) 0 0 (progCtx prog).base hwf
  have hL' : L ∈ (addrTable (envOf (reorder prog.body)).dp 0 0 (progCtx prog).base (strip prog.body)).map Prod.fst := by
    rw [hkeys, labels_strip]; exact hL
  obtain ⟨⟨L', a⟩, hm, rfl⟩ := List.mem_map.mp hL'
  have ha : (envOf (reorder prog.body)).addr L' = a := hC.lab.1 L' a hm
  have := addr_label (compile prog) (envOf (reorder prog.body)) (strip prog.body) "" 0 0 _ hcode L' a hm
  rw [labelDefs_strip] at this
  rw [ha]; exact this

/-- the depths the generator records for a label are those of its label statement -/
theorem label_depths (prog : SProgram) (hw : ProgWf prog) (L d' e' : Nat) (hm : (L, d', e') ∈ depthTable 0 0 prog.body) :
    (envOf (reorder prog.body)).dp.fd L = d' ∧ (envOf (reorder prog.body)).dp.sd L = e' := by
  have hC := progCtx_ok prog hw
  have hlab : LabAt (envOf (reorder prog.body)) 0 0 (progCtx prog).base (strip prog.body) := hC.lab
  exact hlab.2 L d' e' (by rw [depth_strip]; exact hm)

/-- **`TargetsOk` for the whole code** -/
theorem compile_targets (prog : SProgram) (hw : ProgWf prog) : TargetsOk (compile prog) (compile prog) := by
  have hC := progCtx_ok prog hw
  have hd := gotosDefined prog hw
  have hcode : CodeAt (compile prog) (progCtx prog).base
      (compileStmt (envOf (reorder prog.body)) "" 0 0 (progCtx prog).base (strip prog.body)) := hC.hcode
  have hwf : Wf prog.slots (envOf (reorder prog.body)).dp 0 0 (strip prog.body) := hC.wf
  have hgs : ∀ L, (envOf (reorder prog.body)).dp.fd L = 0 → L ∈ (strip prog.body).labels := hC.gosubOk
  have hbody : TargetsOk (compile prog)
      (compileStmt (envOf (reorder prog.body)) "" 0 0 (progCtx prog).base (strip prog.body)) := by
    refine targets_stmt _ _ _ _ _ _ _ hcode ?_ ?_
    · intro L hL
      rw [gotos_strip] at hL
      exact (label_resolved prog hw L (hd L hL)).isLabel
    · intro L hL
      have h0 := gosub_depth _ _ _ 0 0 L hwf hL
      have hl := hgs L h0
      rw [labels_strip] at hl
      exact (label_resolved prog hw L hl).isLabel
  have hdata := targets_dataList (compile prog) (envOf (reorder prog.body)) "" (datas prog.body)
    (datas_isData prog.body) 0
  intro x hx
  rw [compile_eq, code_seqOf_append, Nat.zero_add, ← code_strip] at hx
  simp only [List.mem_append, List.mem_singleton] at hx
  rcases hx with (hx | hx) | rfl
  · exact hdata x hx
  · exact hbody x hx
  · trivial

/-- **C15 for the jump layer, at full strength**: every `Jump a` / `JumpIfFalse a` / `GoSub a` instruction of the generated
code has a target that is a valid address of the code and holds a `Label` instruction -/
def BranchesLand (prog : SProgram) : Prop :=
  ∀ (i a : Nat) (p : Pos),
    ((compile prog)[i]? = some (.jump a, p) ∨ (compile prog)[i]? = some (.jumpIfFalse a, p) ∨
      (compile prog)[i]? = some (.goSub a, p)) →
    a < (compile prog).length ∧ ∃ name q, (compile prog)[a]? = some (CInstr.label name, q)

theorem branches_land (prog : SProgram) (hw : ProgWf prog) : BranchesLand prog := by
  intro i a p hi
  have h := (compile_targets prog hw).at hi
  exact ⟨h.lt, h⟩

/-- the same for the executable premise: what the driver evaluates on every explored program -/
theorem branches_land_checked (prog : SProgram) (h : progWfB prog = true) : BranchesLand prog :=
  branches_land prog (progWfB_sound prog h)

/-! ### what a GOTO / GOSUB is compiled to -/

/-- `GOTO L` at FOR depth `d` / SELECT depth `e`: exactly `d − fd L` × `PopRegisters`, `e − sd L` × `PopValueStackIntoA`,
then the jump to the resolved address of `L` -/
theorem goto_code (env : LEnv) (sfx : String) (d e off L : Nat) (p : Pos) :
    compileStmt env sfx d e off (.goto L p) =
      List.replicate (d - env.dp.fd L) (CInstr.popRegs, p) ++ List.replicate (e - env.dp.sd L) (CInstr.popA, p) ++
        [(CInstr.jump (env.addr L), p)] := by
  simp only [compileStmt, compileGoto]

/-- … where, for the label environment of a program, `fd L` / `sd L` are the numbers of FOR bodies / SELECT statements around
the label statement of `L` (`depthTable`): the run of pops in front of the `Jump` is exactly as long as the number of FOR
frames / selectors the jump leaves behind -/
theorem goto_code_depths (prog : SProgram) (hw : ProgWf prog) (L d' e' : Nat)
    (hm : (L, d', e') ∈ depthTable 0 0 prog.body) (sfx : String) (d e off : Nat) (p : Pos) :
    compileStmt (envOf (reorder prog.body)) sfx d e off (.goto L p) =
      List.replicate (d - d') (CInstr.popRegs, p) ++ List.replicate (e - e') (CInstr.popA, p) ++
        [(CInstr.jump ((envOf (reorder prog.body)).addr L), p)] := by
  obtain ⟨h1, h2⟩ := label_depths prog hw L d' e' hm
  rw [goto_code, h1, h2]

theorem gosub_code (env : LEnv) (sfx : String) (d e off L : Nat) (p : Pos) :
    compileStmt env sfx d e off (.gosub L p) = [(CInstr.goSub (env.addr L), p)] := by
  simp only [compileStmt]

/-- the target of the `Jump` of a `GOTO L` of the program is the `Label` instruction of `L` -/
theorem goto_lands_on_its_label (prog : SProgram) (hw : ProgWf prog) (L : Nat) (hL : L ∈ prog.body.gotos) :
    LabelOf (compile prog) (labelDefs prog.body) L ((envOf (reorder prog.body)).addr L) :=
  label_resolved prog hw L (gotosDefined prog hw L hL)

/-- the target of the `GoSub` of a `GOSUB L` of the program is the `Label` instruction of `L` (a GOSUB target is recorded
at depth 0 / 0, an undefined label at depth 1000000) -/
theorem gosub_lands_on_its_label (prog : SProgram) (hw : ProgWf prog) (L : Nat) (hL : L ∈ prog.body.gosubs) :
    LabelOf (compile prog) (labelDefs prog.body) L ((envOf (reorder prog.body)).addr L) := by
  have hC := progCtx_ok prog hw
  have hwf : Wf prog.slots (envOf (reorder prog.body)).dp 0 0 (strip prog.body) := hC.wf
  have hgs : ∀ L, (envOf (reorder prog.body)).dp.fd L = 0 → L ∈ (strip prog.body).labels := hC.gosubOk
  have hl := hgs L (gosub_depth _ _ _ 0 0 L hwf (by rw [gosubs_strip]; exact hL))
  rw [labels_strip] at hl
  exact label_resolved prog hw L hl

/-! ### non-vacuity: a concrete program

```
FOR I% = 1 TO 3
  IF I% THEN GOTO out          ' GOTO out of a FOR body: one PopRegisters in front of the Jump
NEXT
out:
GOSUB sub
WHILE 0 : WEND
SELECT CASE I%
  CASE 1, 2 : PRINT
  CASE ELSE
END SELECT
END
sub:
RETURN
```
-/

private def demo : SProgram :=
  { slots := [.int],
    body :=
      .seq (.forLoop 0 .int (.lit (.int 1) ⟨1, 10⟩) (.lit (.int 3) ⟨1, 15⟩) none
        (.seq (.ifBlock (.var 0 .int ⟨2, 6⟩) (.seq (.goto 0 ⟨2, 14⟩) .skip) .nil false .skip ⟨2, 3⟩) .skip) ⟨1, 1⟩)
      (.seq (.label 0 "out" ⟨4, 1⟩)
      (.seq (.gosub 1 ⟨5, 1⟩)
      (.seq (.while (.lit (.int 0) ⟨6, 7⟩) .skip ⟨6, 1⟩)
      (.seq (.select (.var 0 .int ⟨7, 13⟩)
          (.cons [.simple (.lit (.int 1) ⟨8, 8⟩), .simple (.lit (.int 2) ⟨8, 11⟩)] (.seq (.print [] ⟨8, 15⟩) .skip) .nil)
          true .skip ⟨7, 1⟩)
      (.seq (.end_ ⟨11, 1⟩)
      (.seq (.label 1 "sub" ⟨12, 1⟩)
      (.seq (.ret ⟨13, 1⟩) .skip))))))) }

/-- the premise is satisfiable: the demo program passes the checker -/
example : progWfB demo = true := by decide

/-- the generated code has 80 instructions; 16 of them are branches -/
example : (compile demo).length = 80 := by decide

example : ((compile demo).filter fun x => match x.1 with
    | .jump _ => true | .jumpIfFalse _ => true | .goSub _ => true | _ => false).length = 16 := by decide

/-- the theorem applies to it -/
example : BranchesLand demo := branches_land_checked demo (by decide)

/-- … and says something: instruction 23 is the `Jump` of the `GOTO out` (behind one `PopRegisters`, for the FOR body it
leaves), instruction 38 the `GoSub` of `GOSUB sub`; their targets 37 and 77 hold `Label` instructions -/
example : (compile demo)[22]? = some (.popRegs, ⟨2, 14⟩) ∧ (compile demo)[23]? = some (.jump 37, ⟨2, 14⟩) ∧
    (compile demo)[38]? = some (.goSub 77, ⟨5, 1⟩) := by decide

example : 37 < (compile demo).length ∧ ∃ name q, (compile demo)[37]? = some (CInstr.label name, q) :=
  branches_land_checked demo (by decide) 23 37 ⟨2, 14⟩ (.inl (by decide))

example : 77 < (compile demo).length ∧ ∃ name q, (compile demo)[77]? = some (CInstr.label name, q) :=
  branches_land_checked demo (by decide) 38 77 ⟨5, 1⟩ (.inr (.inr (by decide)))

/-- the resolved address of label 0 (`out`) is 37, and it holds the `Label` instruction of a label statement of `out` -/
example : (envOf (reorder demo.body)).addr 0 = 37 ∧
    LabelOf (compile demo) (labelDefs demo.body) 0 ((envOf (reorder demo.body)).addr 0) :=
  ⟨by decide, goto_lands_on_its_label demo (progWfB_sound demo (by decide)) 0 (by decide)⟩

example : LabelOf (compile demo) (labelDefs demo.body) 1 ((envOf (reorder demo.body)).addr 1) :=
  gosub_lands_on_its_label demo (progWfB_sound demo (by decide)) 1 (by decide)

/-- `TargetsOk` is not trivially true: a jump to an address that holds no label violates it -/
example : ¬ TargetsOk [(.jump 1, ⟨0, 0⟩), (.halt, ⟨0, 0⟩)] [(.jump 1, ⟨0, 0⟩), (.halt, ⟨0, 0⟩)] := by
  intro h
  obtain ⟨name, q, h⟩ := h (.jump 1, ⟨0, 0⟩) (by simp)
  simp at h

end RbThm.C15JmpL

