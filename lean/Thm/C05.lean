import RbModel.Ctl
/-!
C05 — GOTO/GOSUB/RETURN and ON ERROR/RESUME transfer control exactly as written.

Theorems over the control machine `RbModel.Ctl` (a transcription of the control part of
`Interpreter::interpret` / `interpret_one` and of `NearestStatementFinder`).  `binary_search` is
modelled by its contract: every finder theorem holds for ANY answer the contract admits.

What is proved here is about the VM: given the recorded statement addresses, where each
instruction sends control and what it does to the GOSUB stack, the handler and the error
registers.  That the generator records the right addresses (one mark at the first instruction of
every statement, the extra marks before back-edges, `PopRegisters`, `PopRet` and the jumps that
leave IF / CASE blocks) is decided by the harness on the real code (token programs against a
line-based reference interpreter).
-/
namespace RbThm.C05
open RbModel RbModel.Ctl

/-! ### the statement finder -/

/-- `m` is the greatest recorded address `≤ a` -/
def IsGreatestLE (l : List Nat) (a m : Nat) : Prop := m ∈ l ∧ m ≤ a ∧ ∀ x ∈ l, x ≤ a → x ≤ m

/-- `m` is the least recorded address `> a` -/
def IsLeastGT (l : List Nat) (a m : Nat) : Prop := m ∈ l ∧ a < m ∧ ∀ x ∈ l, a < x → m ≤ x

theorem sorted_get {l : List Nat} (hs : l.Pairwise (· ≤ ·)) {i j x y : Nat} (hij : i ≤ j)
    (hx : l[i]? = some x) (hy : l[j]? = some y) : x ≤ y := by
  rcases Nat.lt_or_eq_of_le hij with hlt | heq
  · obtain ⟨hi, rfl⟩ := List.getElem?_eq_some_iff.1 hx
    obtain ⟨hj, rfl⟩ := List.getElem?_eq_some_iff.1 hy
    exact (List.pairwise_iff_getElem.1 hs) i j hi hj hlt
  · subst heq
    rw [hx] at hy
    injection hy with hy
    omega

theorem mem_of_get {l : List Nat} {i x : Nat} (h : l[i]? = some x) : x ∈ l :=
  List.mem_of_getElem? h

theorem get_of_mem {l : List Nat} {x : Nat} (h : x ∈ l) : ∃ i : Nat, l[i]? = some x := by
  obtain ⟨i, hi, hx⟩ := List.getElem_of_mem h
  exact ⟨i, List.getElem?_eq_some_iff.2 ⟨hi, hx⟩⟩

/-- **finder_current**: for any admissible binary-search answer, `find_current a` is the greatest
recorded address `≤ a`; if there is none the real code panics (`should never happen`). -/
theorem finder_current {l : List Nat} (hs : l.Pairwise (· ≤ ·)) {a : Nat} {r : BsResult}
    (hr : Admissible l a r) :
    ((∃ x ∈ l, x ≤ a) → ∃ m, findCurrentWith l a r = some m ∧ IsGreatestLE l a m) ∧
    ((∀ x ∈ l, a < x) → findCurrentWith l a r = none) := by
  cases r with
  | found i =>
    have hmem : a ∈ l := mem_of_get hr
    refine ⟨fun _ => ⟨a, rfl, hmem, Nat.le_refl _, fun x _ hx => hx⟩, fun h => ?_⟩
    exact absurd (h a hmem) (Nat.lt_irrefl _)
  | notFound i =>
    obtain ⟨hlen, hsplit⟩ := hr
    constructor
    · rintro ⟨x, hxl, hxa⟩
      obtain ⟨j, hj⟩ := get_of_mem hxl
      have hji : j < i := by
        rcases Nat.lt_or_ge j i with h | h
        · exact h
        · have := (hsplit j x hj).2 h; omega
      have hi1 : i - 1 < l.length := by omega
      refine ⟨l[i - 1], ?_, ?_, ?_, ?_⟩
      · simp only [findCurrentWith]
        rw [if_pos (by omega)]
        simp [hi1]
      · exact List.getElem_mem hi1
      · have := (hsplit (i - 1) l[i - 1] (by simp [hi1])).1 (by omega); omega
      · intro y hyl hya
        obtain ⟨k, hk⟩ := get_of_mem hyl
        have hki : k < i := by
          rcases Nat.lt_or_ge k i with h | h
          · exact h
          · have := (hsplit k y hk).2 h; omega
        exact sorted_get hs (by omega : k ≤ i - 1) hk (by simp [hi1])
    · intro hall
      simp only [findCurrentWith]
      split
      · next h1 =>
        have hi1 : i - 1 < l.length := by omega
        have h2 := (hsplit (i - 1) l[i - 1] (by simp [hi1])).1 (by omega)
        have h3 := hall l[i - 1] (List.getElem_mem hi1)
        omega
      · rfl

/-- the answer `Ok(i)` names the LAST position holding `a` (always so when addresses are distinct) -/
def LastOcc (l : List Nat) (a : Nat) : BsResult → Prop
  | .found i => ∀ j, i < j → l[j]? ≠ some a
  | .notFound _ => True

/-- what `find_next` returns when no recorded address is greater: `1 + last` after `Ok`, an
index-out-of-range panic after `Err` -/
def nextPastEnd (a : Nat) : BsResult → Option Nat
  | .found _ => some (1 + a)
  | .notFound _ => none

/-- **finder_next**: for any admissible answer that names the last position of `a` (or `Err`),
`find_next a` is the least recorded address `> a`; if there is none it is `1 + a` (when `a` is
the last recorded address) or a panic (when `a` lies beyond every recorded address). -/
theorem finder_next {l : List Nat} (hs : l.Pairwise (· ≤ ·)) {a : Nat} {r : BsResult}
    (hr : Admissible l a r) (hlast : LastOcc l a r) :
    ((∃ x ∈ l, a < x) → ∃ m, findNextWith l a r = some m ∧ IsLeastGT l a m) ∧
    ((∀ x ∈ l, x ≤ a) → findNextWith l a r = nextPastEnd a r) := by
  cases r with
  | found i =>
    have hi : i < l.length := (List.getElem?_eq_some_iff.1 hr).1
    constructor
    · rintro ⟨x, hxl, hax⟩
      obtain ⟨j, hj⟩ := get_of_mem hxl
      have hij : i < j := by
        rcases Nat.lt_or_ge i j with h | h
        · exact h
        · have := sorted_get hs h hj hr; omega
      have hj' : j < l.length := (List.getElem?_eq_some_iff.1 hj).1
      have hi1 : i + 1 < l.length := by omega
      have hget : l[i + 1]? = some l[i + 1] := by simp [hi1]
      refine ⟨l[i + 1], ?_, List.getElem_mem hi1, ?_, ?_⟩
      · simp only [findNextWith]
        rw [if_neg (by omega)]
        exact hget
      · have h1 := sorted_get hs (by omega : i ≤ i + 1) hr hget
        have h2 := hlast (i + 1) (by omega)
        rcases Nat.lt_or_eq_of_le h1 with h | h
        · exact h
        · exact absurd (by rw [hget, ← h]) h2
      · intro y hyl hay
        obtain ⟨k, hk⟩ := get_of_mem hyl
        have hik : i < k := by
          rcases Nat.lt_or_ge i k with h | h
          · exact h
          · have := sorted_get hs h hk hr; omega
        exact sorted_get hs (by omega : i + 1 ≤ k) hget hk
    · intro hall
      simp only [findNextWith, nextPastEnd]
      split
      · have : l[i]? = some a := hr
        simp [this]
      · next hne =>
        have hi1 : i + 1 < l.length := by omega
        have hget : l[i + 1]? = some l[i + 1] := by simp [hi1]
        have h1 := sorted_get hs (by omega : i ≤ i + 1) hr hget
        have h2 := hall _ (List.getElem_mem hi1)
        have h3 := hlast (i + 1) (by omega)
        have : l[i + 1] = a := by omega
        exact absurd (by rw [hget, this]) h3
  | notFound i =>
    obtain ⟨hlen, hsplit⟩ := hr
    constructor
    · rintro ⟨x, hxl, hax⟩
      obtain ⟨j, hj⟩ := get_of_mem hxl
      have hj' : j < l.length := (List.getElem?_eq_some_iff.1 hj).1
      have hij : i ≤ j := by
        rcases Nat.lt_or_ge j i with h | h
        · have := (hsplit j x hj).1 h; omega
        · exact h
      have hi : i < l.length := by omega
      have hget : l[i]? = some l[i] := by simp [hi]
      refine ⟨l[i], hget, List.getElem_mem hi, (hsplit i _ hget).2 (Nat.le_refl _), ?_⟩
      intro y hyl hay
      obtain ⟨k, hk⟩ := get_of_mem hyl
      have hik : i ≤ k := by
        rcases Nat.lt_or_ge k i with h | h
        · have := (hsplit k y hk).1 h; omega
        · exact h
      exact sorted_get hs hik hget hk
    · intro hall
      simp only [findNextWith, nextPastEnd]
      rcases Nat.lt_or_ge i l.length with h | h
      · have hget : l[i]? = some l[i] := by simp [h]
        have h1 := (hsplit i _ hget).2 (Nat.le_refl _)
        have h2 := hall _ (List.getElem_mem h)
        omega
      · simp [h]

/-- with pairwise distinct (strictly ascending) addresses every admissible answer names the last
position, so `finder_next` holds for any admissible answer -/
theorem lastOcc_of_strict {l : List Nat} (hs : l.Pairwise (· < ·)) {a : Nat} {r : BsResult}
    (hr : Admissible l a r) : LastOcc l a r := by
  cases r with
  | notFound i => trivial
  | found i =>
    intro j hij hj
    obtain ⟨hi, hia⟩ := List.getElem?_eq_some_iff.1 hr
    obtain ⟨hj', hja⟩ := List.getElem?_eq_some_iff.1 hj
    have := (List.pairwise_iff_getElem.1 hs) i j hi hj' hij
    omega

/-- the claim of `finder_next` for EVERY admissible answer, duplicates allowed -/
def FinderNextForAnyAnswer : Prop :=
  ∀ (l : List Nat) (a : Nat) (r : BsResult), l.Pairwise (· ≤ ·) → Admissible l a r →
    (∃ x ∈ l, a < x) → ∃ m, findNextWith l a r = some m ∧ IsLeastGT l a m

/-- what the code returns when the answer is not the last position of `a`: `a` itself -/
theorem finder_next_duplicate {l : List Nat} {a i : Nat} (h : l[i + 1]? = some a) :
    findNextWith l a (.found i) = some a := by
  have hi : i + 1 < l.length := (List.getElem?_eq_some_iff.1 h).1
  simp only [findNextWith]
  rw [if_neg (by omega)]
  exact h

/-- **witness**: addresses `[0, 1, 1, 2]` (a `CONST` at 1 records the address of the statement that
follows it a second time), error address 1, answer `Ok(1)` (admissible): `find_next` returns 1, the
failing statement itself, not 2. -/
theorem finder_next_for_any_answer_false : ¬ FinderNextForAnyAnswer := by
  intro h
  have := h [0, 1, 1, 2] 1 (.found 1) (by decide) (by simp [Admissible]) ⟨2, by decide, by decide⟩
  obtain ⟨m, hm, _, hlt, _⟩ := this
  simp [findNextWith] at hm
  omega

/-- `admissibleB` decides the contract on sorted lists (the driver uses it to check the answers
of the real `binary_search`) -/
theorem admissibleB_sound {l : List Nat} {a : Nat} {r : BsResult} (h : admissibleB l a r = true) :
    Admissible l a r := by
  cases r with
  | found i => simpa [admissibleB, Admissible] using h
  | notFound i =>
    simp only [admissibleB, Bool.and_eq_true, decide_eq_true_eq, List.all_eq_true] at h
    obtain ⟨⟨hlen, htake⟩, hdrop⟩ := h
    refine ⟨hlen, fun j x hj => ⟨fun hji => ?_, fun hij => ?_⟩⟩
    · have : x ∈ l.take i := by
        apply List.mem_of_getElem? (i := j)
        rw [List.getElem?_take]; simp [hji, hj]
      simpa using htake x this
    · have : x ∈ l.drop i := by
        apply List.mem_of_getElem? (i := j - i)
        rw [List.getElem?_drop]
        rw [show i + (j - i) = j by omega]; exact hj
      simpa using hdrop x this

example : Admissible [0, 3, 3, 7] 3 (.found 2) ∧ LastOcc [0, 3, 3, 7] 3 (.found 2) ∧
    findNextWith [0, 3, 3, 7] 3 (.found 2) = some 7 ∧ findCurrentWith [0, 3, 3, 7] 5 (.notFound 3) = some 3 := by
  refine ⟨by simp [Admissible], ?_, by decide, by decide⟩
  intro j hj h
  have : j = 3 ∨ 4 ≤ j := by omega
  rcases this with rfl | h4
  · simp at h
  · have := (List.getElem?_eq_some_iff.1 h).1; simp at this; omega

/-! ### GOTO, GOSUB, RETURN -/

/-- GOTO continues at its label -/
theorem goto_target (f : Finder) (a : Nat) (ev : Ev) (s : St) :
    stepInstr f (.jump (.addr a)) ev s = .cont { s with pc := a } := rfl

/-- GOSUB continues at its label and remembers where it came from -/
theorem gosub_target (f : Finder) (a : Nat) (ev : Ev) (s : St) :
    stepInstr f (.goSub (.addr a)) ev s = .cont { s with gosub := s.pc :: s.gosub, pc := a } := rfl

/-- RETURN with a pending GOSUB at `a` that was issued by the procedure that is running (the stack is
higher than it was at the innermost call in progress) continues right after it (or at its label) -/
theorem return_target (f : Finder) (ev : Ev) (s : St) {a : Nat} {rest : List Nat} (h : s.gosub = a :: rest)
    (hm : s.marks.head?.getD 0 < s.gosub.length) :
    stepInstr f (.ret none) ev s = .cont { s with gosub := rest, pc := a + 1 } ∧
    ∀ l, stepInstr f (.ret (some (.addr l))) ev s = .cont { s with gosub := rest, pc := l } := by
  have hn : ¬ s.gosub.length ≤ s.marks.head?.getD 0 := by omega
  simp only [stepInstr, if_neg hn]
  simp [h, tgt]

/-- RETURN with no GOSUB of the running procedure pending — nothing pending at all, or only GOSUBs
issued by the callers (the defect repaired by the RETURN fix of round 3: such a RETURN used to answer
the caller's GOSUB and continued in the caller's code inside the callee's context) — raises error 3 at
the RETURN; unhandled, the run ends with it there -/
theorem return_without_gosub (f : Finder) (ot : Option Target) (ev : Ev) (s : St)
    (h : s.gosub.length ≤ s.marks.head?.getD 0) :
    stepInstr f (.ret ot) ev s = raise f s 3 ∧
    (s.handler = .none → stepInstr f (.ret ot) ev s = .failed 3 { s with errCode := some 3 }) := by
  constructor
  · simp [stepInstr, h]
  · intro hh; simp [stepInstr, h, raise, hh]

/-- the special case the property's text names: nothing pending at all -/
theorem return_with_empty_stack (f : Finder) (ot : Option Target) (ev : Ev) (s : St) (h : s.gosub = []) :
    stepInstr f (.ret ot) ev s = raise f s 3 :=
  (return_without_gosub f ot ev s (by simp [h])).1

/-- a GOSUB pending in the caller is out of the callee's reach: main issues a GOSUB (address 7), the
routine calls a procedure (mark 1), the procedure executes RETURN -/
example (f : Finder) (ev : Ev) :
    let s : St := { (default : St) with gosub := [7], marks := [1], pc := 40 }
    stepInstr f (.ret none) ev s = raise f s 3 := by
  intro s; exact (return_without_gosub f none ev s (by decide)).1

/-- a history of GOSUBs (with the address of the GOSUB instruction), RETURNs, and the cuts made when a
procedure returns or RESUME label leaves the procedures in progress (`return_marks`) -/
inductive Op where
  | gosub (addr : Nat)
  | ret
  /-- keep the `n` oldest pending GOSUBs -/
  | cut (n : Nat)
  deriving Repr, DecidableEq

/-- the GOSUBs not yet returned from after a history, most recent first (a RETURN with nothing
pending fails and changes nothing) -/
def pendingFrom : List Nat → List Op → List Nat
  | st, [] => st
  | st, .gosub a :: h => pendingFrom (a :: st) h
  | st, .ret :: h => pendingFrom st.tail h
  | st, .cut n :: h => pendingFrom (cut st n) h

theorem pendingFrom_append (st : List Nat) (u v : List Op) :
    pendingFrom st (u ++ v) = pendingFrom (pendingFrom st u) v := by
  induction u generalizing st with
  | nil => rfl
  | cons o u ih => cases o <;> simp [pendingFrom, ih]

/-- histories, started with `n` GOSUBs pending, in which every RETURN answers a GOSUB of the same
history and vice versa; a procedure call inside may do anything that leaves the caller's pending
GOSUBs alone: its return cuts the stack back to the height at the call -/
inductive Balanced : Nat → List Op → Prop
  | nil (n : Nat) : Balanced n []
  | wrap (n a : Nat) {w : List Op} : Balanced (n + 1) w → Balanced n (.gosub a :: w ++ [.ret])
  | app {n : Nat} {u v : List Op} : Balanced n u → Balanced n v → Balanced n (u ++ v)
  | call {n : Nat} {w : List Op} :
      (∀ st : List Nat, st.length = n → ∃ pre, pendingFrom st w = pre ++ st) → Balanced n (w ++ [.cut n])

theorem pendingFrom_balanced {n : Nat} {w : List Op} (hw : Balanced n w) :
    ∀ st : List Nat, st.length = n → pendingFrom st w = st := by
  induction hw with
  | nil n => intro st _; rfl
  | wrap n a _ ih =>
    intro st hst
    show pendingFrom st (.gosub a :: (_ ++ [.ret])) = st
    simp only [pendingFrom, pendingFrom_append]
    rw [ih (a :: st) (by simp [hst])]
    rfl
  | app _ _ ihu ihv => intro st hst; rw [pendingFrom_append, ihu st hst, ihv st hst]
  | call hpre =>
    intro st hst
    obtain ⟨pre, hp⟩ := hpre st hst
    rw [pendingFrom_append, hp]
    simp only [pendingFrom, cut, List.length_append, hst]
    rw [show pre.length + _ - _ = pre.length by omega]
    exact List.drop_left

/-- the history entry an instruction contributes -/
def opOf (i : Instr) (s : St) : Option Op :=
  match i with
  | .goSub _ => some (.gosub s.pc)
  | .ret _ => if s.gosub.length ≤ s.marks.head?.getD 0 then none else some .ret
  | .popRet => (match s.marks with
    | m :: _ => some (.cut m)
    | [] => none)
  | .resumeLabel _ => if s.errAddr.isSome then s.marks.getLast?.map .cut else none
  | _ => none

/-- the history entry a machine step contributes -/
def opAt (code : Code) (s : St) : Option Op :=
  match code[s.pc]? with
  | some ip => opOf ip.instr s
  | none => none

def opsOf (code : Code) (tr : List St) : List Op := tr.filterMap (opAt code)

theorem raise_gosub {f : Finder} {s s' : St} {c : Int} (h : raise f s c = .cont s') : s'.gosub = s.gosub := by
  unfold raise at h
  cases hh : s.handler with
  | none => simp [hh] at h
  | address a => simp [hh] at h; subst h; rfl
  | next =>
    simp only [hh] at h
    cases hn : f.next s.pc with
    | none => simp [hn] at h
    | some n => simp [hn] at h; subst h; rfl

theorem resumeWith_gosub {f : Finder} {s s' : St} {t : Nat → Option Nat} (h : resumeWith f s t false = .cont s') :
    s'.gosub = s.gosub := by
  unfold resumeWith takeErr at h
  cases he : s.errAddr with
  | none =>
    simp only [he] at h
    have := raise_gosub h
    exact this
  | some a =>
    simp only [he] at h
    cases ht : t a with
    | none => simp [ht] at h
    | some n => simp [ht] at h; subst h; rfl

theorem stepInstr_gosub_stack {f : Finder} {i : Instr} {ev : Ev} {s s' : St}
    (h : stepInstr f i ev s = .cont s') : s'.gosub = pendingFrom s.gosub (opOf i s).toList := by
  cases i
  case goSub t =>
    cases t <;> simp [stepInstr, tgt] at h
    subst h; rfl
  case ret ot =>
    simp only [stepInstr] at h
    by_cases hle : s.gosub.length ≤ s.marks.head?.getD 0
    · rw [if_pos hle] at h
      have := raise_gosub h
      simp [opOf, hle, pendingFrom, this]
    · rw [if_neg hle] at h
      cases hg : s.gosub with
      | nil => simp [hg] at hle
      | cons a rest =>
        rw [hg] at h
        have hle' : ¬ rest.length + 1 ≤ s.marks.head?.getD 0 := by simpa [hg] using hle
        cases ot with
        | none => simp at h; subst h; simp [opOf, hle', pendingFrom, hg]
        | some t => cases t <;> simp [tgt] at h; subst h; simp [opOf, hle', pendingFrom, hg]
  case resume => exact resumeWith_gosub h
  case resumeNext => exact resumeWith_gosub h
  case resumeLabel t =>
    simp only [stepInstr, resumeWith, takeErr] at h
    cases he : s.errAddr with
    | none =>
      simp only [he] at h
      have := raise_gosub h
      simp [opOf, he, pendingFrom]
      exact this
    | some a =>
      simp only [he] at h
      cases ht : tgt t with
      | none => simp [ht] at h
      | some n =>
        simp [ht] at h
        subst h
        cases hm : s.marks.getLast? <;> simp [opOf, he, hm, pendingFrom, leaveProcs]
  case jump t => cases t <;> simp [stepInstr, tgt, goto] at h; subst h; rfl
  case jumpIfFalse t =>
    cases ev with
    | ok => simp [stepInstr] at h
    | error c => exact raise_gosub h
    | cond b =>
      cases b
      · cases t <;> simp [stepInstr, tgt, goto] at h; subst h; rfl
      · simp [stepInstr, goto] at h; subst h; rfl
  case onErrorGoTo t => cases t <;> simp [stepInstr, tgt] at h; subst h; rfl
  case halt => simp [stepInstr] at h
  case popRet =>
    simp only [stepInstr] at h
    cases hr : s.ret with
    | nil => simp [hr] at h
    | cons a rest =>
      simp [hr] at h; subst h
      cases hm : s.marks <;> simp [opOf, hm, pendingFrom]
  all_goals
    first
    | (simp only [stepInstr] at h; injection h with h; subst h; rfl)
    | (cases ev <;> simp only [stepInstr, goto] at h <;>
        first
        | (injection h with h; subst h; rfl)
        | exact raise_gosub h)

/-- every step changes the GOSUB stack exactly as its history entry says -/
theorem step_gosub_stack {code : Code} {f : Finder} {ev : Ev} {s s' : St} (h : step code f ev s = .cont s') :
    s'.gosub = pendingFrom s.gosub (opAt code s).toList := by
  unfold step at h
  unfold opAt
  cases hc : code[s.pc]? with
  | none => rw [hc] at h; cases h
  | some ip =>
    rw [hc] at h
    exact stepInstr_gosub_stack h

theorem run_head {code : Code} {f : Finder} (evs : List Ev) (s : St) :
    ∃ tl, (run code f evs s).1 = s :: tl := by
  cases evs with
  | nil => exact ⟨[], rfl⟩
  | cons ev evs =>
    simp only [run]
    split <;> simp

/-- consecutive states of a run are related by a step -/
theorem run_consecutive {code : Code} {f : Finder} : ∀ (evs : List Ev) (s : St) (pre post : List St) (a b : St),
    (run code f evs s).1 = pre ++ a :: b :: post → ∃ ev, step code f ev a = .cont b := by
  intro evs
  induction evs with
  | nil =>
    intro s pre post a b h
    simp only [run] at h
    cases pre with
    | nil => simp at h
    | cons x pre => simp at h
  | cons ev evs ih =>
    intro s pre post a b h
    simp only [run] at h
    cases hst : step code f ev s with
    | cont s' =>
      rw [hst] at h
      simp only at h
      cases pre with
      | nil =>
        simp only [List.nil_append, List.cons.injEq] at h
        obtain ⟨rfl, h2⟩ := h
        obtain ⟨tl, htl⟩ := run_head (code := code) (f := f) evs s'
        rw [htl] at h2
        injection h2 with h2 _
        subst h2
        exact ⟨ev, hst⟩
      | cons x pre =>
        simp only [List.cons_append, List.cons.injEq] at h
        exact ih s' pre post a b h.2
    | halted s' => rw [hst] at h; cases pre <;> simp at h
    | failed c s' => rw [hst] at h; cases pre <;> simp at h
    | stuck => rw [hst] at h; cases pre <;> simp at h

/-- along every run the GOSUB stack is the list of pending GOSUBs of the history so far -/
theorem run_gosub_stack {code : Code} {f : Finder} : ∀ (evs : List Ev) (s : St) (pre post : List St) (st : St),
    (run code f evs s).1 = pre ++ st :: post → st.gosub = pendingFrom s.gosub (opsOf code pre) := by
  intro evs
  induction evs with
  | nil =>
    intro s pre post st h
    simp only [run] at h
    cases pre with
    | nil => simp at h; rw [← h.1]; rfl
    | cons x pre => simp at h
  | cons ev evs ih =>
    intro s pre post st h
    simp only [run] at h
    cases hst : step code f ev s with
    | cont s' =>
      rw [hst] at h
      simp only at h
      cases pre with
      | nil => simp at h; rw [← h.1]; rfl
      | cons x pre =>
        simp only [List.cons_append, List.cons.injEq] at h
        obtain ⟨rfl, h2⟩ := h
        have := ih s' pre post st h2
        rw [this, step_gosub_stack hst]
        simp only [opsOf, List.filterMap_cons]
        cases hop : opAt code s with
        | none => simp [pendingFrom]
        | some o => cases o <;> simp [pendingFrom]
    | halted s' => rw [hst] at h; cases pre <;> simp at h; rw [← h.1]; rfl
    | failed c s' => rw [hst] at h; cases pre <;> simp at h; rw [← h.1]; rfl
    | stuck => rw [hst] at h; cases pre <;> simp at h; rw [← h.1]; rfl

/-- **gosub_return_lifo**: in every run, for every history: if `g` executes a GOSUB, the GOSUBs and
RETURNs executed between `g` and `r` pair off among themselves (any nesting, any number of them, any
other instructions, handled errors and handlers in between), and `r` executes a plain RETURN in the
activation that issued the GOSUB (`hact`: no call in progress at `r` was made above `g`'s stack — a
RETURN executed by a procedure called from the routine cannot answer the routine's GOSUB, see
`return_without_gosub`), then the next state continues right after `g`'s GOSUB instruction with the
GOSUB stack `g` started from. -/
theorem gosub_return_lifo {code : Code} {f : Finder} (evs : List Ev) (s0 : St)
    (pre mid post : List St) (g r nxt : St)
    (htr : (run code f evs s0).1 = pre ++ g :: (mid ++ r :: nxt :: post))
    (hg : opAt code g = some (.gosub g.pc))
    (hmid : Balanced (g.gosub.length + 1) (opsOf code mid))
    (hr : ∃ ip, code[r.pc]? = some ip ∧ ip.instr = .ret none)
    (hact : r.marks.head?.getD 0 ≤ g.gosub.length) :
    nxt.pc = g.pc + 1 ∧ nxt.gosub = g.gosub := by
  have hgs : g.gosub = pendingFrom s0.gosub (opsOf code pre) := run_gosub_stack evs s0 pre _ g htr
  have hrs : r.gosub = pendingFrom s0.gosub (opsOf code (pre ++ g :: mid)) := by
    apply run_gosub_stack evs s0 (pre ++ g :: mid) (nxt :: post) r
    rw [htr]; simp
  have hrs' : r.gosub = g.pc :: g.gosub := by
    rw [hrs, hgs]
    simp only [opsOf, List.filterMap_append, List.filterMap_cons, hg, pendingFrom_append, pendingFrom]
    exact pendingFrom_balanced hmid _ (by rw [hgs]; rfl)
  obtain ⟨ev, hstep⟩ := run_consecutive evs s0 (pre ++ g :: mid) post r nxt (by rw [htr]; simp)
  obtain ⟨ip, hip, hinstr⟩ := hr
  unfold step at hstep
  rw [hip] at hstep
  simp only [hinstr] at hstep
  rw [(return_target f ev r hrs' (by rw [hrs']; simp; omega)).1] at hstep
  injection hstep with hstep
  subst hstep
  exact ⟨rfl, rfl⟩

example : Balanced 0 [.gosub 3, .gosub 9, .ret, .gosub 12, .ret, .ret] :=
  Balanced.wrap 0 3 (Balanced.app (Balanced.wrap 1 9 (Balanced.nil 2)) (Balanced.wrap 1 12 (Balanced.nil 2)))

/-- a procedure called between a GOSUB and its RETURN may leave its own GOSUBs pending (here 20 and 30,
the second one answered): its return forgets them -/
example : Balanced 0 [.gosub 3, .gosub 20, .gosub 30, .ret, .cut 1, .ret] :=
  Balanced.wrap 0 3 (Balanced.call (w := [.gosub 20, .gosub 30, .ret]) (fun st _ => ⟨[20], rfl⟩))


/-! ### ON ERROR, the error registers, RESUME -/

/-- a failing instruction (any instruction whose failure is an input) goes through the error dispatch -/
theorem step_error (f : Finder) {i : Instr} (hi : needsEvent i = true) (c : Int) (s : St) :
    stepInstr f i (.error c) s = raise f s c := by
  cases i <;> first | rfl | (simp [needsEvent] at hi)

/-- the ON ERROR statements set the handler and fall through -/
theorem on_error_sets_handler (f : Finder) (ev : Ev) (s : St) :
    (∀ a, stepInstr f (.onErrorGoTo (.addr a)) ev s = .cont { s with handler := .address a, pc := s.pc + 1 }) ∧
    stepInstr f .onErrorResumeNext ev s = .cont { s with handler := .next, pc := s.pc + 1 } ∧
    stepInstr f .onErrorGoToZero ev s = .cont { s with handler := .none, pc := s.pc + 1 } :=
  ⟨fun _ => rfl, rfl, rfl⟩

/-- **handler_sees_err**: while `ON ERROR GOTO h` is active a failing instruction transfers control to
`h`; there `ERR` is the error's code and the error address is the failing instruction; the GOSUB and
return stacks and the handler are untouched, one handler context is pushed. -/
theorem handler_sees_err (f : Finder) {i : Instr} (hi : needsEvent i = true) (c : Int) (s : St) {h : Nat}
    (hh : s.handler = .address h) :
    ∃ s', stepInstr f i (.error c) s = .cont s' ∧ s'.pc = h ∧ errValue s' = c ∧ s'.errAddr = some s.pc ∧
      s'.gosub = s.gosub ∧ s'.ret = s.ret ∧ s'.handler = s.handler ∧ s'.hctx = s.hctx + 1 := by
  rw [step_error f hi]
  simp [raise, hh, errValue]

/-- RETURN without GOSUB and RESUME without error are handled the same way -/
theorem handler_sees_internal_errors (f : Finder) (ev : Ev) (s : St) {h : Nat} (hh : s.handler = .address h) :
    (s.gosub = [] → ∀ ot, ∃ s', stepInstr f (.ret ot) ev s = .cont s' ∧ s'.pc = h ∧ errValue s' = 3 ∧
      s'.errAddr = some s.pc) ∧
    (s.errAddr = none → ∃ s', stepInstr f .resume ev s = .cont s' ∧ s'.pc = h ∧ errValue s' = 20 ∧
      s'.errAddr = some s.pc) := by
  constructor
  · intro hg ot
    simp [stepInstr, hg, raise, hh, errValue]
  · intro he
    simp [stepInstr, resumeWith, takeErr, he, raise, hh, errValue]

/-- **unhandled_error_reported** (one step): with no handler — initially, or after `ON ERROR GOTO 0`
(`on_error_sets_handler`) — a failing instruction ends the run with that error, at that instruction. -/
theorem unhandled_error_reported (f : Finder) {i : Instr} (hi : needsEvent i = true) (c : Int) (s : St)
    (hh : s.handler = .none) :
    stepInstr f i (.error c) s = .failed c { s with errCode := some c } := by
  rw [step_error f hi]
  simp [raise, hh]

/-- … and the run is over, whatever events would follow; the states visited end with the failing one -/
theorem unhandled_error_ends_run (code : Code) (f : Finder) (s : St) (ip : InstrPos) (c : Int) (evs : List Ev)
    (hip : code[s.pc]? = some ip) (hi : needsEvent ip.instr = true) (hh : s.handler = .none) :
    run code f (.error c :: evs) s = ([s], some (.failed c { s with errCode := some c })) := by
  simp [run, step, hip, unhandled_error_reported f hi c s hh]

/-- no handler is active at the start of a run -/
theorem initially_no_handler : St.init.handler = .none := rfl

/-- under `ON ERROR RESUME NEXT` a failing instruction continues at the least recorded statement
address greater than its own (`ERR` keeps the code) -/
theorem on_error_resume_next_skips (f : Finder) (hs : f.addrs.Pairwise (· ≤ ·)) (hok : f.Ok)
    {i : Instr} (hi : needsEvent i = true) (c : Int) (s : St) (hh : s.handler = .next)
    (hlast : LastOcc f.addrs s.pc (f.bs s.pc)) (hex : ∃ x ∈ f.addrs, s.pc < x) :
    ∃ n, IsLeastGT f.addrs s.pc n ∧ stepInstr f i (.error c) s = .cont { s with errCode := some c, pc := n } := by
  obtain ⟨n, hn, hleast⟩ := (finder_next hs (hok s.pc) hlast).1 hex
  refine ⟨n, hleast, ?_⟩
  rw [step_error f hi]
  have : f.next s.pc = some n := hn
  simp [raise, hh, this]

/-- the state a RESUME-family instruction leaves when it continues at `n` -/
def resumed (s : St) (n : Nat) : St := { s with errCode := none, errAddr := none, pc := n, hctx := s.hctx - 1 }

/-- **resume_targets**: with the error address `e` recorded,
* `RESUME` continues at the greatest recorded statement address `≤ e` (the first instruction of the
  statement `e` belongs to),
* `RESUME NEXT` at the least recorded statement address `> e` (the first instruction of the statement
  that follows), provided the binary search names the last position of `e` (see `finder_next`),
* `RESUME label` at the label, leaving the procedures in progress (`leaveProcs`: the return stack is
  emptied, the GOSUBs pending inside them are forgotten);
each clears the error address and code, pops one handler context and touches nothing else. -/
theorem resume_targets (f : Finder) (hs : f.addrs.Pairwise (· ≤ ·)) (hok : f.Ok) (ev : Ev) (s : St) {e : Nat}
    (he : s.errAddr = some e) :
    ((∃ x ∈ f.addrs, x ≤ e) → ∃ n, IsGreatestLE f.addrs e n ∧ stepInstr f .resume ev s = .cont (resumed s n)) ∧
    (LastOcc f.addrs e (f.bs e) → (∃ x ∈ f.addrs, e < x) →
      ∃ n, IsLeastGT f.addrs e n ∧ stepInstr f .resumeNext ev s = .cont (resumed s n)) ∧
    (∀ l, stepInstr f (.resumeLabel (.addr l)) ev s = .cont (leaveProcs (resumed s l))) := by
  refine ⟨fun hex => ?_, fun hlast hex => ?_, fun l => ?_⟩
  · obtain ⟨n, hn, hg⟩ := (finder_current hs (hok e)).1 hex
    have : f.current e = some n := hn
    exact ⟨n, hg, by simp [stepInstr, resumeWith, takeErr, he, this, resumed]⟩
  · obtain ⟨n, hn, hl⟩ := (finder_next hs (hok e) hlast).1 hex
    have : f.next e = some n := hn
    exact ⟨n, hl, by simp [stepInstr, resumeWith, takeErr, he, this, resumed]⟩
  · simp [stepInstr, resumeWith, takeErr, he, tgt, resumed]

/-- what RESUME NEXT does when the binary search names an earlier position of a duplicated error
address: it continues AT the error address (the failing statement is executed again) -/
theorem resume_next_duplicate (f : Finder) (ev : Ev) (s : St) {e i : Nat} (he : s.errAddr = some e)
    (hbs : f.bs e = .found i) (hdup : f.addrs[i + 1]? = some e) :
    stepInstr f .resumeNext ev s = .cont (resumed s e) := by
  have : f.next e = some e := by
    unfold Finder.next; rw [hbs]; exact finder_next_duplicate hdup
  simp [stepInstr, resumeWith, takeErr, he, this, resumed]

/-- after any of the three, `ERR` is 0 -/
theorem resume_clears_err (s : St) (n : Nat) :
    errValue (resumed s n) = 0 ∧ (resumed s n).errAddr = none ∧ (resumed s n).errCode = none ∧
    (resumed s n).gosub = s.gosub ∧ (resumed s n).ret = s.ret ∧ (resumed s n).handler = s.handler :=
  ⟨rfl, rfl, rfl, rfl, rfl, rfl⟩

/-- RESUME with no error recorded raises error 20 (with `ERR` cleared first) -/
theorem resume_without_error (f : Finder) (ev : Ev) (s : St) (he : s.errAddr = none) :
    stepInstr f .resume ev s = raise f { s with errCode := none } 20 ∧
    stepInstr f .resumeNext ev s = raise f { s with errCode := none } 20 ∧
    ∀ t, stepInstr f (.resumeLabel t) ev s = raise f { s with errCode := none } 20 := by
  have : ({ s with errCode := none, errAddr := none } : St) = { s with errCode := none } := by
    cases s; simp_all
  simp [stepInstr, resumeWith, takeErr, he, this]

/-- **error_handler_cleared_state**: the round trip.  From a state with no error recorded, a failure
under `ON ERROR GOTO h` followed (after any handler code that leaves the error registers and the
stacks alone) by a RESUME-family instruction that continues at `n` gives back the state the failing
instruction started from — GOSUB stack, return stack, handler, handler-context count — with the pc
at `n` and `ERR` cleared. -/
theorem error_handler_cleared_state (f : Finder) {i : Instr} (hi : needsEvent i = true) (c : Int) (s : St)
    {h : Nat} (hh : s.handler = .address h) (he : s.errAddr = none) :
    ∃ s1, stepInstr f i (.error c) s = .cont s1 ∧
      ∀ (hpc n : Nat), resumed { s1 with pc := hpc } n = { s with pc := n, errCode := none } := by
  rw [step_error f hi]
  refine ⟨_, by simp [raise, hh]; rfl, ?_⟩
  intro hpc n
  cases s
  simp_all [resumed]

/-- invariant of every run: an error address is recorded only together with an error code and an
open handler context (so `ERR` is never 0 inside a handler that has not resumed) -/
def ErrInv (s : St) : Prop := s.errAddr.isSome → s.errCode.isSome ∧ 0 < s.hctx

theorem raise_inv {f : Finder} {s s' : St} {c : Int} (hinv : ErrInv s) (h : raise f s c = .cont s') : ErrInv s' := by
  unfold raise at h
  cases hh : s.handler with
  | none => simp [hh] at h
  | address a => simp [hh] at h; subst h; intro _; simp
  | next =>
    simp only [hh] at h
    cases hn : f.next s.pc with
    | none => simp [hn] at h
    | some n =>
      simp [hn] at h; subst h
      intro h1
      exact ⟨rfl, (hinv h1).2⟩

theorem resumeWith_inv {f : Finder} {s s' : St} {t : Nat → Option Nat} {lv : Bool} (h : resumeWith f s t lv = .cont s') :
    ErrInv s' := by
  unfold resumeWith takeErr at h
  cases he : s.errAddr with
  | none =>
    simp only [he] at h
    exact raise_inv (by intro h1; simp at h1) h
  | some a =>
    simp only [he] at h
    cases ht : t a with
    | none => simp [ht] at h
    | some n =>
      cases lv <;> simp [ht] at h <;> subst h <;> intro h1 <;> simp [leaveProcs] at h1

theorem stepInstr_inv {f : Finder} {i : Instr} {ev : Ev} {s s' : St} (hinv : ErrInv s)
    (h : stepInstr f i ev s = .cont s') : ErrInv s' := by
  cases i
  case goSub t => cases t <;> simp [stepInstr, tgt] at h; subst h; exact hinv
  case ret ot =>
    simp only [stepInstr] at h
    by_cases hle : s.gosub.length ≤ s.marks.head?.getD 0
    · rw [if_pos hle] at h; exact raise_inv hinv h
    · rw [if_neg hle] at h
      cases hg : s.gosub with
      | nil => rw [hg] at h; exact raise_inv hinv h
      | cons a rest =>
        rw [hg] at h
        cases ot with
        | none => simp at h; subst h; exact hinv
        | some t => cases t <;> simp [tgt] at h; subst h; exact hinv
  case resume => exact resumeWith_inv h
  case resumeNext => exact resumeWith_inv h
  case resumeLabel t => exact resumeWith_inv h
  case jump t => cases t <;> simp [stepInstr, tgt, goto] at h; subst h; exact hinv
  case jumpIfFalse t =>
    cases ev with
    | ok => simp [stepInstr] at h
    | error c => exact raise_inv hinv h
    | cond b =>
      cases b
      · cases t <;> simp [stepInstr, tgt, goto] at h; subst h; exact hinv
      · simp [stepInstr, goto] at h; subst h; exact hinv
  case onErrorGoTo t => cases t <;> simp [stepInstr, tgt] at h; subst h; exact hinv
  case halt => simp [stepInstr] at h
  case popRet =>
    simp only [stepInstr] at h
    cases hr : s.ret with
    | nil => simp [hr] at h
    | cons a rest => simp [hr] at h; subst h; exact hinv
  all_goals
    first
    | (simp only [stepInstr] at h; injection h with h; subst h; exact hinv)
    | (cases ev <;> simp only [stepInstr, goto] at h <;>
        first
        | (injection h with h; subst h; exact hinv)
        | exact raise_inv hinv h)

/-- the invariant holds in every state of every run that starts in a state satisfying it
(in particular from `St.init`) -/
theorem run_invariant {code : Code} {f : Finder} : ∀ (evs : List Ev) (s : St), ErrInv s →
    ∀ st ∈ (run code f evs s).1, ErrInv st := by
  intro evs
  induction evs with
  | nil => intro s hs st hst; simp [run] at hst; subst hst; exact hs
  | cons ev evs ih =>
    intro s hs st hst
    simp only [run] at hst
    cases hstep : step code f ev s with
    | cont s' =>
      rw [hstep] at hst
      simp only [List.mem_cons] at hst
      rcases hst with rfl | hmem
      · exact hs
      · refine ih s' ?_ st hmem
        unfold step at hstep
        cases hc : code[s.pc]? with
        | none => rw [hc] at hstep; cases hstep
        | some ip => rw [hc] at hstep; exact stepInstr_inv hs hstep
    | halted s' => rw [hstep] at hst; simp at hst; subst hst; exact hs
    | failed c s' => rw [hstep] at hst; simp at hst; subst hst; exact hs
    | stuck => rw [hstep] at hst; simp at hst; subst hst; exact hs

theorem init_inv : ErrInv St.init := by intro h; simp [St.init] at h

/-- the hypotheses of `resume_targets` / `handler_sees_err` are satisfiable: a division by zero (code 11)
at pc 7 under `ON ERROR GOTO 20`, addresses `[0, 5, 9, 20, 22]`; RESUME goes to 5, RESUME NEXT to 9. -/
example :
    let f : Finder := ⟨[0, 5, 9, 20, 22], bsFirst [0, 5, 9, 20, 22]⟩
    let s : St := { St.init with pc := 7, handler := .address 20 }
    ∃ s1, stepInstr f .divide (.error 11) s = .cont s1 ∧ s1.pc = 20 ∧ errValue s1 = 11 ∧
      stepInstr f .resume .ok { s1 with pc := 21 } = .cont { s with pc := 5 } ∧
      stepInstr f .resumeNext .ok { s1 with pc := 21 } = .cont { s with pc := 9 } := by
  refine ⟨_, rfl, rfl, rfl, by decide, by decide⟩


end RbThm.C05
