import RbModel.Num
import Gen.NumTables
import Thm.C19
/-!
C06 — a numeric variable only ever holds a value of its own type and range.

Stated over the shared numeric model `RbModel.Num` (hand-written port of `variant.rs`, `fit.rs`,
`qb_casting.rs`) and the extracted typing table `Gen.NumTables.binType` (= `cast_binary_op`).
`Val.InRange v` is "v is a value its own type can hold"; for SINGLE / DOUBLE that is membership in the
exact domain of the float model (all such values are finite).
-/
namespace RbThm.C06
open RbModel RbModel.Num Gen.NumTables

/-! ### Rounding: nearest whole number, ties away from zero -/

theorem roundHA_bounds (q : Rat) : (roundHA q : Rat) - 1/2 ≤ q ∧ q ≤ (roundHA q : Rat) + 1/2 := by
  unfold roundHA
  split
  · have h1 := Rat.floor_le (q + 1/2)
    have h2 := Rat.lt_floor_add_one (q + 1/2)
    rw [Rat.intCast_add] at h2
    constructor <;> grind
  · have h1 := Rat.floor_le (-q + 1/2)
    have h2 := Rat.lt_floor_add_one (-q + 1/2)
    rw [Rat.intCast_add] at h2
    rw [Rat.intCast_neg]
    constructor <;> grind

/-- `roundHA q` is a nearest whole number: the distance is at most one half. -/
theorem roundHA_nearest (q : Rat) : absQ ((roundHA q : Rat) - q) ≤ 1/2 := by
  have h := roundHA_bounds q
  unfold absQ
  split <;> grind

/-- On a tie (distance exactly one half) the result is the one farther from zero. -/
theorem roundHA_tie_away (q : Rat) (h : absQ ((roundHA q : Rat) - q) = 1/2) :
    absQ q < absQ (roundHA q : Rat) := by
  unfold roundHA at *
  split at h
  · next hq =>
    simp only [hq, if_true]
    have h1 := Rat.floor_le (q + 1/2)
    have h2 := Rat.lt_floor_add_one (q + 1/2)
    rw [Rat.intCast_add] at h2
    unfold absQ at *
    split at h <;> split <;> split <;> grind
  · next hq =>
    simp only [hq, if_false]
    have h1 := Rat.floor_le (-q + 1/2)
    have h2 := Rat.lt_floor_add_one (-q + 1/2)
    rw [Rat.intCast_add] at h2
    rw [Rat.intCast_neg] at *
    unfold absQ at *
    split at h <;> split <;> split <;> grind

/-- Whole numbers round to themselves. -/
theorem roundHA_intCast (i : Int) : roundHA (i : Rat) = i := by
  have h := roundHA_bounds (i : Rat)
  have h1 : ((roundHA (i : Rat) : Int) : Rat) < ((i + 1 : Int) : Rat) := by
    rw [Rat.intCast_add]; grind
  have h2 : ((i - 1 : Int) : Rat) < ((roundHA (i : Rat) : Int) : Rat) := by
    rw [Rat.intCast_sub]; grind
  have h1' := Rat.intCast_lt_intCast.mp h1
  have h2' := Rat.intCast_lt_intCast.mp h2
  omega


/-! ### Conversions (`CastVariant::cast`) -/

theorem mkSgl_ok {q : Rat} {w : Val} (h : mkSgl q = .ok w) : w = .sgl q ∧ inS q = true := by
  unfold mkSgl at h; split at h <;> simp_all

theorem mkDbl_ok {q : Rat} {w : Val} (h : mkDbl q = .ok w) : w = .dbl q ∧ inD q = true := by
  unfold mkDbl at h; split at h <;> simp_all

theorem castRound_ok {lo hi : Int} {q : Rat} {r : Int} (h : castRound lo hi q = .ok r) :
    r = roundHA q ∧ lo ≤ r ∧ r ≤ hi := by
  unfold castRound at h; simp only at h; split at h <;> simp_all

theorem inIntRange_iff (n : Int) : inIntRange n = true ↔ -32768 ≤ n ∧ n ≤ 32767 := by
  simp [inIntRange]

theorem inLongRange_iff (n : Int) : inLongRange n = true ↔ -2147483648 ≤ n ∧ n ≤ 2147483647 := by
  simp [inLongRange]

/-- The bounds of a whole-number type. -/
def tyBounds : Ty → Option (Int × Int)
  | .int => some (minInt, maxInt)
  | .long => some (minLong, maxLong)
  | _ => none

theorem round_case {lo hi : Int} {q : Rat} {w : Val} {c : Bool} {mk : Int → Val}
    (h : (if c = true then (castRound lo hi q).bind (fun r => .ok (mk r)) else .inexact) = .ok w) :
    c = true ∧ w = mk (roundHA q) ∧ lo ≤ roundHA q ∧ roundHA q ≤ hi := by
  split at h
  · next hc =>
    cases hr : castRound lo hi q with
    | ok r =>
      rw [hr] at h; simp only [Res.bind] at h; cases h
      obtain ⟨rfl, h3, h4⟩ := castRound_ok hr
      exact ⟨hc, rfl, h3, h4⟩
    | err e => rw [hr] at h; simp [Res.bind] at h
    | inexact => rw [hr] at h; simp [Res.bind] at h
  · cases h

/-- **cast_sound.** Whatever `Cast T` lets through has tag `T` and is a value `T` can hold. -/
theorem cast_sound (v : Val) (T : Ty) (w : Val) (hv : v.InRange) (h : Num.cast v T = .ok w) :
    w.tag = T ∧ w.InRange := by
  cases T with
  | int =>
    cases v with
    | int i => simp only [Num.cast] at h; cases h; exact ⟨rfl, hv⟩
    | long i =>
      simp only [Num.cast] at h
      split at h
      · cases h; exact ⟨rfl, by assumption⟩
      · cases h
    | sgl q =>
      obtain ⟨_, rfl, h1, h2⟩ := round_case h
      exact ⟨rfl, by simp only [Val.InRange, inIntRange_iff, minInt, maxInt] at *; omega⟩
    | dbl q =>
      obtain ⟨_, rfl, h1, h2⟩ := round_case h
      exact ⟨rfl, by simp only [Val.InRange, inIntRange_iff, minInt, maxInt] at *; omega⟩
    | str s => simp [Num.cast] at h
  | long =>
    cases v with
    | int i =>
      simp only [Num.cast] at h; cases h
      refine ⟨rfl, ?_⟩
      simp only [Val.InRange, inIntRange_iff, inLongRange_iff] at *; omega
    | long i => simp only [Num.cast] at h; cases h; exact ⟨rfl, hv⟩
    | sgl q =>
      obtain ⟨_, rfl, h1, h2⟩ := round_case h
      exact ⟨rfl, by simp only [Val.InRange, inLongRange_iff, minLong, maxLong] at *; omega⟩
    | dbl q =>
      obtain ⟨_, rfl, h1, h2⟩ := round_case h
      exact ⟨rfl, by simp only [Val.InRange, inLongRange_iff, minLong, maxLong] at *; omega⟩
    | str s => simp [Num.cast] at h
  | sgl =>
    cases v with
    | int i => obtain ⟨rfl, h2⟩ := mkSgl_ok h; exact ⟨rfl, h2⟩
    | long i => obtain ⟨rfl, h2⟩ := mkSgl_ok h; exact ⟨rfl, h2⟩
    | sgl q => simp only [Num.cast] at h; cases h; exact ⟨rfl, hv⟩
    | dbl q =>
      simp only [Num.cast] at h
      split at h
      · obtain ⟨rfl, h2⟩ := mkSgl_ok h; exact ⟨rfl, h2⟩
      · cases h
    | str s => simp [Num.cast] at h
  | dbl =>
    cases v with
    | int i => obtain ⟨rfl, h2⟩ := mkDbl_ok h; exact ⟨rfl, h2⟩
    | long i => obtain ⟨rfl, h2⟩ := mkDbl_ok h; exact ⟨rfl, h2⟩
    | dbl q => simp only [Num.cast] at h; cases h; exact ⟨rfl, hv⟩
    | sgl q =>
      simp only [Num.cast] at h
      split at h
      · obtain ⟨rfl, h2⟩ := mkDbl_ok h; exact ⟨rfl, h2⟩
      · cases h
    | str s => simp [Num.cast] at h
  | str =>
    cases v with
    | str s => simp only [Num.cast] at h; cases h; exact ⟨rfl, trivial⟩
    | int i => simp [Num.cast] at h
    | long i => simp [Num.cast] at h
    | sgl q => simp [Num.cast] at h
    | dbl q => simp [Num.cast] at h


theorem round_case_iff {lo hi : Int} {q : Rat} {mk : Int → Val} :
    (castRound lo hi q).bind (fun r => .ok (mk r)) = .err .overflow ↔ ¬ (lo ≤ roundHA q ∧ roundHA q ≤ hi) := by
  unfold castRound
  simp only
  split <;> simp_all [Res.bind]

theorem round_case_ok {lo hi : Int} {q : Rat} {mk : Int → Val} {w : Val}
    (h : (castRound lo hi q).bind (fun r => .ok (mk r)) = .ok w) :
    w = mk (roundHA q) ∧ lo ≤ roundHA q ∧ roundHA q ≤ hi := by
  have := @round_case lo hi q w true mk (by simpa using h)
  exact this.2

/-- **cast_sound, rounding clause.** For a whole-number target the stored payload is the source value
rounded to the nearest whole number, ties away from zero (`roundHA_nearest`, `roundHA_tie_away`),
and it lies within the target's bounds. -/
theorem cast_rounds (v : Val) (T : Ty) (w : Val) (q : Rat) (lo hi : Int)
    (hT : tyBounds T = some (lo, hi)) (hq : v.toRat? = some q) (hv : v.InRange)
    (h : Num.cast v T = .ok w) :
    w.toRat? = some ((roundHA q : Int) : Rat) ∧ lo ≤ roundHA q ∧ roundHA q ≤ hi := by
  cases T <;> simp only [tyBounds, Option.some.injEq, Prod.mk.injEq, reduceCtorEq] at hT
  all_goals obtain ⟨rfl, rfl⟩ := hT
  all_goals cases v <;> simp only [Val.toRat?, Option.some.injEq, reduceCtorEq] at hq
  all_goals subst hq
  all_goals try simp only [roundHA_intCast]
  all_goals simp only [Val.InRange, inIntRange_iff, inLongRange_iff] at hv
  · -- INTEGER → INTEGER
    simp only [Num.cast] at h; cases h
    exact ⟨rfl, by simp only [minInt, maxInt]; omega⟩
  · -- LONG → INTEGER
    simp only [Num.cast] at h
    split at h
    · next hr =>
      cases h
      rw [inIntRange_iff] at hr
      exact ⟨rfl, by simp only [minInt, maxInt]; omega⟩
    · cases h
  · obtain ⟨_, rfl, h1, h2⟩ := round_case h; exact ⟨rfl, h1, h2⟩
  · obtain ⟨_, rfl, h1, h2⟩ := round_case h; exact ⟨rfl, h1, h2⟩
  · -- INTEGER → LONG
    simp only [Num.cast] at h; cases h
    exact ⟨rfl, by simp only [minLong, maxLong]; omega⟩
  · simp only [Num.cast] at h; cases h
    exact ⟨rfl, by simp only [minLong, maxLong]; omega⟩
  · obtain ⟨_, rfl, h1, h2⟩ := round_case h; exact ⟨rfl, h1, h2⟩
  · obtain ⟨_, rfl, h1, h2⟩ := round_case h; exact ⟨rfl, h1, h2⟩

/-- **cast_overflow_iff.** Converting a numeric value to a whole-number type raises Overflow exactly
when the rounded value lies outside the target's range. -/
theorem cast_overflow_iff (v : Val) (T : Ty) (q : Rat) (lo hi : Int)
    (hT : tyBounds T = some (lo, hi)) (hq : v.toRat? = some q) (hv : v.InRange) :
    Num.cast v T = .err .overflow ↔ ¬ (lo ≤ roundHA q ∧ roundHA q ≤ hi) := by
  cases T <;> simp only [tyBounds, Option.some.injEq, Prod.mk.injEq, reduceCtorEq] at hT
  all_goals obtain ⟨rfl, rfl⟩ := hT
  all_goals cases v <;> simp only [Val.toRat?, Option.some.injEq, reduceCtorEq] at hq
  all_goals subst hq
  all_goals simp only [Num.cast, roundHA_intCast]
  all_goals simp only [Val.InRange, inIntRange_iff, inLongRange_iff] at hv
  all_goals first
    | (simp only [hv, if_true]; exact round_case_iff)
    | (simp only [minInt, maxInt, minLong, maxLong, inIntRange_iff, reduceCtorEq, false_iff, Classical.not_not]; omega)
    | (simp only [minInt, maxInt]; split <;> simp_all [inIntRange_iff])

/-- Overflow is raised only by conversions to INTEGER or LONG. -/
theorem cast_overflow_only_whole (v : Val) (T : Ty) (h : Num.cast v T = .err .overflow) :
    T = .int ∨ T = .long := by
  cases T <;> cases v <;> simp only [Num.cast, mkSgl, mkDbl] at h <;>
    first
    | (left; rfl) | (right; rfl)
    | (exfalso; revert h; repeat' split) <;> simp


/-! ### Arithmetic: the dynamic result has the static type and is in range -/

theorem intResult_ok {n : Int} {w : Val} (h : intResult n = .ok w) : w = .int n ∧ inIntRange n = true := by
  unfold intResult at h; split at h <;> simp_all

theorem longResult_ok {n : Int} {w : Val} (h : longResult n = .ok w) : w = .long n ∧ inLongRange n = true := by
  unfold longResult at h; split at h <;> simp_all

theorem sglOp_ok {op : Arith} {a b : Rat} {w : Val} (h : sglOp op a b = .ok w) :
    w = .sgl (op.onRat a b) ∧ inS (op.onRat a b) = true := by
  unfold sglOp at h; split at h
  · exact mkSgl_ok h
  · cases h

theorem dblOp_ok {op : Arith} {a b : Rat} {w : Val} (h : dblOp op a b = .ok w) :
    w = .dbl (op.onRat a b) ∧ inD (op.onRat a b) = true := by
  unfold dblOp at h; split at h
  · exact mkDbl_ok h
  · cases h

/-- `+ - *`: whatever comes out has the statically resolved type and is in range
(out-of-range whole-number results are `Overflow`, out-of-domain float results are `inexact`). -/
theorem arith_typed (op : Arith) (a b w : Val) (h : arith op a b = .ok w) :
    binType op.toOp a.tag b.tag = some w.tag ∧ w.InRange := by
  cases a <;> cases b <;> simp only [arith] at h <;>
    first
    | (obtain ⟨rfl, h2⟩ := intResult_ok h; exact ⟨by cases op <;> rfl, h2⟩)
    | (obtain ⟨rfl, h2⟩ := longResult_ok h; exact ⟨by cases op <;> rfl, h2⟩)
    | (obtain ⟨rfl, h2⟩ := sglOp_ok h; exact ⟨by cases op <;> rfl, h2⟩)
    | (obtain ⟨rfl, h2⟩ := dblOp_ok h; exact ⟨by cases op <;> rfl, h2⟩)
    | (cases h)
    | (split at h
       · next hop => cases h; subst hop; exact ⟨rfl, trivial⟩
       · cases h)


theorem inDom_neg (p k : Nat) (q : Rat) : inDom p k (-q) = inDom p k q := by
  simp [inDom, Rat.neg_num, Rat.neg_den, Int.natAbs_neg]

/-- Unary minus keeps the operand's type (the static type of a unary expression is its operand's)
and stays in range; −32768 and −2147483648 raise Overflow. -/
theorem negate_typed (a w : Val) (ha : a.InRange) (h : negate a = .ok w) :
    w.tag = a.tag ∧ w.InRange := by
  cases a <;> simp only [negate] at h
  · split at h
    · cases h
    · cases h; refine ⟨rfl, ?_⟩
      simp only [Val.InRange, inIntRange_iff, minInt] at *; omega
  · split at h
    · cases h
    · cases h; refine ⟨rfl, ?_⟩
      simp only [Val.InRange, inLongRange_iff, minLong] at *; omega
  · cases h; exact ⟨rfl, by simpa only [Val.InRange, inS, inDom_neg] using ha⟩
  · cases h; exact ⟨rfl, by simpa only [Val.InRange, inD, inDom_neg] using ha⟩
  · cases h

/-- NOT keeps the operand's type and stays in range. -/
theorem unaryNot_typed (a w : Val) (ha : a.InRange) (h : unaryNot a = .ok w) :
    w.tag = a.tag ∧ w.InRange := by
  cases a <;> simp only [unaryNot] at h
  · cases h; refine ⟨rfl, ?_⟩
    simp only [Val.InRange, inIntRange_iff] at *; omega
  · cases h; refine ⟨rfl, ?_⟩
    simp only [Val.InRange, inLongRange_iff] at *; omega
  · split at h
    · obtain ⟨rfl, h2⟩ := mkSgl_ok h; exact ⟨rfl, h2⟩
    · cases h
  · split at h
    · obtain ⟨rfl, h2⟩ := mkDbl_ok h; exact ⟨rfl, h2⟩
    · cases h
  · cases h

/-! ### Division, MOD -/

theorem fitInt_inRange {n : Int} {w : Val} (h : fitInt n = .ok w) : w.InRange := by
  unfold fitInt at h
  split at h
  · cases h; assumption
  · split at h
    · cases h; assumption
    · obtain ⟨rfl, h2⟩ := mkDbl_ok h; exact h2

/-- `fit_to_type` on a whole number beyond the LONG range: both arms of the code (`(round as i64).fit_to_type()`
below 9.0e18, `VDouble(round)` from there on) are the DOUBLE holding that number. -/
theorem fitInt_beyond_long (n : Int) (h : inLongRange n = false) : fitInt n = mkDbl (n : Rat) := by
  have h1 : inIntRange n = false := by
    cases hi : inIntRange n with
    | false => rfl
    | true =>
      rw [inIntRange_iff] at hi
      have : inLongRange n = true := by rw [inLongRange_iff]; omega
      rw [h] at this; cases this
  simp [fitInt, h, h1]

theorem fitS_inRange {q : Rat} {w : Val} (h : fitS q = .ok w) : w.InRange := by
  unfold fitS at h
  split at h
  · split at h
    · cases h; assumption
    · exact fitInt_inRange h
  · cases h

theorem fitD_inRange {q : Rat} {w : Val} (h : fitD q = .ok w) : w.InRange := by
  unfold fitD at h
  split at h
  · split at h
    · cases h; assumption
    · exact fitInt_inRange h
  · cases h

/-- `Variant::divide` only returns values that are in range for the tag `fit_to_type` chose. -/
theorem divide_inRange (a b w : Val) (h : divide a b = .ok w) : w.InRange := by
  unfold divide at h
  split at h
  · split at h
    · cases h
    · split at h
      · split at h
        · exact fitD_inRange h
        · cases h
      · split at h
        · exact fitS_inRange h
        · cases h
  · cases h

theorem divide_numeric (a b w : Val) (h : divide a b = .ok w) : a.tag ≠ .str ∧ b.tag ≠ .str := by
  cases a <;> cases b <;> simp [divide, Val.toRat?, isApproxZero, Val.tag] at h ⊢

theorem roundV_ok {a w : Val} (ha : a.InRange) (h : roundV a = .ok w) :
    w.InRange ∧ a.tag ≠ .str := by
  cases a <;> simp only [roundV] at h
  · cases h; exact ⟨ha, by simp [Val.tag]⟩
  · cases h; exact ⟨ha, by simp [Val.tag]⟩
  · split at h
    · exact ⟨fitInt_inRange h, by simp [Val.tag]⟩
    · cases h
  · split at h
    · exact ⟨fitInt_inRange h, by simp [Val.tag]⟩
    · cases h
  · cases h

theorem tmod_inRange (x y : Int) (hx : inIntRange x = true) : inIntRange (x.tmod y) = true := by
  rw [inIntRange_iff] at *
  have h1 : (x.tmod y).natAbs ≤ x.natAbs := by
    rw [Int.natAbs_tmod]; exact Nat.mod_le _ _
  by_cases hx0 : 0 ≤ x
  · have := Int.tmod_nonneg y hx0
    omega
  · have h2 : 0 ≤ (-x).tmod y := Int.tmod_nonneg y (by omega)
    rw [Int.neg_tmod] at h2
    omega

/-- MOD: the result is an INTEGER in range (or an error). -/
theorem modulo_typed (a b w : Val) (ha : a.InRange) (hb : b.InRange) (h : modulo a b = .ok w) :
    binType .modulo a.tag b.tag = some w.tag ∧ w.InRange := by
  unfold modulo at h
  cases hra : roundV a with
  | err e => rw [hra] at h; cases h
  | inexact => rw [hra] at h; cases h
  | ok ra =>
    cases hrb : roundV b with
    | err e => rw [hra, hrb] at h; cases h
    | inexact => rw [hra, hrb] at h; cases h
    | ok rb =>
      rw [hra, hrb] at h
      simp only [Res.bind] at h
      obtain ⟨hra1, hra2⟩ := roundV_ok ha hra
      obtain ⟨_, hrb2⟩ := roundV_ok hb hrb
      split at h
      · cases h
      · cases h
      · split at h
        · cases h
          refine ⟨?_, tmod_inRange _ _ hra1⟩
          cases a <;> cases b <;> first | rfl | (exact absurd rfl hra2) | (exact absurd rfl hrb2)
        all_goals cases h


/-! ### Relational and logical operators -/

theorem ofBool_inRange (b : Bool) : (ofBool b).tag = .int ∧ (ofBool b).InRange := by
  cases b <;> exact ⟨rfl, by decide⟩

/-- Where `try_cmp` answers, the linter typed the comparison INTEGER. -/
theorem tryCmp_table (a b : Val) (o : Ordering) (h : tryCmp a b = .ok o) :
    binType .less a.tag b.tag = some .int ∧ binType .lessOrEqual a.tag b.tag = some .int ∧
    binType .equal a.tag b.tag = some .int ∧ binType .greaterOrEqual a.tag b.tag = some .int ∧
    binType .greater a.tag b.tag = some .int ∧ binType .notEqual a.tag b.tag = some .int := by
  cases a <;> cases b <;> first | (exact ⟨rfl, rfl, rfl, rfl, rfl, rfl⟩) | (cases h)

theorem cast_int_ok {a x : Val} (ha : a.InRange) (h : Num.cast a .int = .ok x) :
    ∃ n, x = .int n ∧ inIntRange n = true ∧ a.tag ≠ .str := by
  obtain ⟨h1, h2⟩ := cast_sound a .int x ha h
  have h3 : a.tag ≠ .str := by
    cases a <;> simp [Val.tag, Num.cast] at h ⊢
  cases x <;> simp [Val.tag] at h1
  exact ⟨_, rfl, h2, h3⟩

theorem qbAnd_inRange (n m : Int) (hn : inIntRange n = true) (hm : inIntRange m = true) :
    inIntRange (RbModel.Bits.qbAnd n m) = true := by
  rw [inIntRange_iff] at *
  have h := RbThm.C19.qbAnd_is_bitwise n m hn hm
  have hlt : RbModel.Bits.word n &&& RbModel.Bits.word m < 65536 :=
    Nat.and_lt_two_pow (n := 16) _ (RbThm.C19.word_lt m)
  rw [h]; exact RbThm.C19.signed_inRange _ hlt

theorem qbOr_inRange (n m : Int) (hn : inIntRange n = true) (hm : inIntRange m = true) :
    inIntRange (RbModel.Bits.qbOr n m) = true := by
  rw [inIntRange_iff] at *
  have h := RbThm.C19.qbOr_is_bitwise n m hn hm
  have hlt : RbModel.Bits.word n ||| RbModel.Bits.word m < 65536 :=
    Nat.or_lt_two_pow (n := 16) (RbThm.C19.word_lt n) (RbThm.C19.word_lt m)
  rw [h]; exact RbThm.C19.signed_inRange _ hlt

theorem numeric_table_and_or (a b : Val) (ha : a.tag ≠ .str) (hb : b.tag ≠ .str) :
    binType .and a.tag b.tag = some .int ∧ binType .or a.tag b.tag = some .int := by
  cases a <;> cases b <;> first | (exact ⟨rfl, rfl⟩) | (exact absurd rfl ha) | (exact absurd rfl hb)

theorem logical_typed (f : Val → Val → Res Val) (g : Int → Int → Int)
    (hf : ∀ x y, f x y = match x, y with | .int n, .int m => .ok (.int (g n m)) | _, _ => .err .typeMismatch)
    (hg : ∀ n m, inIntRange n = true → inIntRange m = true → inIntRange (g n m) = true)
    (a b w : Val) (ha : a.InRange) (hb : b.InRange)
    (h : ((Num.cast a .int).bind fun x => (Num.cast b .int).bind fun y => f x y) = .ok w) :
    w.tag = .int ∧ w.InRange ∧ a.tag ≠ .str ∧ b.tag ≠ .str := by
  cases hx : Num.cast a .int with
  | err e => rw [hx] at h; cases h
  | inexact => rw [hx] at h; cases h
  | ok x =>
    cases hy : Num.cast b .int with
    | err e => rw [hx, hy] at h; cases h
    | inexact => rw [hx, hy] at h; cases h
    | ok y =>
      rw [hx, hy] at h
      simp only [Res.bind] at h
      obtain ⟨n, rfl, hn, hna⟩ := cast_int_ok ha hx
      obtain ⟨m, rfl, hm, hmb⟩ := cast_int_ok hb hy
      rw [hf] at h
      cases h
      exact ⟨rfl, hg n m hn hm, hna, hmb⟩

theorem rel_typed (a b w : Val) (p : Ordering → Bool) {t : Option Ty}
    (h : ((tryCmp a b).bind fun o => .ok (ofBool (p o))) = .ok w)
    (ht : ∀ o, tryCmp a b = .ok o → t = some .int) :
    t = some w.tag ∧ w.InRange := by
  cases ho : tryCmp a b with
  | err e => rw [ho] at h; cases h
  | inexact => rw [ho] at h; cases h
  | ok o =>
    rw [ho] at h; simp only [Res.bind] at h; cases h
    rw [(ofBool_inRange _).1]
    exact ⟨ht o ho, (ofBool_inRange _).2⟩

/-! ### The main theorem -/

/-- **op_result_typed.** For every binary operator and all in-range operands, whatever value the VM's
instruction sequence for `a op b` produces has the static type the linter resolved for the operand
types (`binType` = extracted `cast_binary_op`) and is in range for it; every other outcome is a BASIC
error (`Res.err`: Overflow, Division by zero, Type mismatch) or an execution outside the exact float
domain (`Res.inexact`, no claim). -/
theorem op_result_typed (op : Op) (a b w : Val) (ha : a.InRange) (hb : b.InRange)
    (h : vmBin binType op a b = .ok w) :
    binType op a.tag b.tag = some w.tag ∧ w.InRange := by
  cases op <;> simp only [vmBin] at h
  case plus => exact arith_typed .add a b w h
  case minus => exact arith_typed .sub a b w h
  case multiply => exact arith_typed .mul a b w h
  case modulo => exact modulo_typed a b w ha hb h
  case divide =>
    split at h
    · next t ht =>
      cases hq : divide a b with
      | err e => rw [hq] at h; cases h
      | inexact => rw [hq] at h; cases h
      | ok q =>
        rw [hq] at h; simp only [Res.bind] at h
        obtain ⟨h1, h2⟩ := cast_sound q t w (divide_inRange a b q hq) h
        exact ⟨by rw [ht, h1], h2⟩
    · cases h
  case and =>
    obtain ⟨h1, h2, h3, h4⟩ := logical_typed Num.and RbModel.Bits.qbAnd
      (by intro x y; cases x <;> cases y <;> rfl) qbAnd_inRange a b w ha hb h
    rw [h1]; exact ⟨(numeric_table_and_or a b h3 h4).1, h2⟩
  case or =>
    obtain ⟨h1, h2, h3, h4⟩ := logical_typed Num.or RbModel.Bits.qbOr
      (by intro x y; cases x <;> cases y <;> rfl) qbOr_inRange a b w ha hb h
    rw [h1]; exact ⟨(numeric_table_and_or a b h3 h4).2, h2⟩
  case less => exact rel_typed a b w _ h fun o ho => (tryCmp_table a b o ho).1
  case lessOrEqual => exact rel_typed a b w _ h fun o ho => (tryCmp_table a b o ho).2.1
  case equal => exact rel_typed a b w _ h fun o ho => (tryCmp_table a b o ho).2.2.1
  case greaterOrEqual => exact rel_typed a b w _ h fun o ho => (tryCmp_table a b o ho).2.2.2.1
  case greater => exact rel_typed a b w _ h fun o ho => (tryCmp_table a b o ho).2.2.2.2.1
  case notEqual => exact rel_typed a b w _ h fun o ho => (tryCmp_table a b o ho).2.2.2.2.2


/-! ### The store invariant -/

theorem bind_ok {α β : Type} {r : Res α} {f : α → Res β} {b : β} (h : r.bind f = .ok b) :
    ∃ a, r = .ok a ∧ f a = .ok b := by
  cases r with
  | ok a => exact ⟨a, rfl, h⟩
  | err e => cases h
  | inexact => cases h

/-- Evaluating a linted expression in a well-typed environment yields a value of the expression's
static type, in range (or a BASIC error). -/
theorem eval_typed (decl : Nat → Ty) (env : Nat → Val) (hwt : WellTyped decl env) (e : Expr)
    (hl : e.LitsInRange) (v : Val) (h : e.eval binType env = .ok v) :
    e.ty binType decl = some v.tag ∧ v.InRange := by
  induction e generalizing v with
  | lit w => simp only [Expr.eval] at h; cases h; exact ⟨rfl, hl⟩
  | var x => simp only [Expr.eval] at h; cases h; exact ⟨by simp [Expr.ty, (hwt x).1], (hwt x).2⟩
  | un op e ih =>
    cases op with
    | neg =>
      simp only [Expr.eval] at h
      obtain ⟨a, ha, hn⟩ := bind_ok h
      obtain ⟨h1, h2⟩ := ih hl a ha
      obtain ⟨h3, h4⟩ := negate_typed a v h2 hn
      exact ⟨by simp only [Expr.ty]; rw [h1, h3], h4⟩
    | not =>
      simp only [Expr.eval] at h
      obtain ⟨a, ha, hn⟩ := bind_ok h
      obtain ⟨h1, h2⟩ := ih hl a ha
      obtain ⟨h3, h4⟩ := unaryNot_typed a v h2 hn
      exact ⟨by simp only [Expr.ty]; rw [h1, h3], h4⟩
  | bin op l r ihl ihr =>
    simp only [Expr.eval] at h
    obtain ⟨a, ha, h'⟩ := bind_ok h
    obtain ⟨b, hb, hv⟩ := bind_ok h'
    obtain ⟨la, lr⟩ := ihl hl.1 a ha
    obtain ⟨ra, rr⟩ := ihr hl.2 b hb
    obtain ⟨h1, h2⟩ := op_result_typed op a b v lr rr hv
    exact ⟨by simp only [Expr.ty, la, ra]; exact h1, h2⟩

/-- **store step.** What `Cast`-if-needed lets through for a location of type `T` has tag `T` and is in
`T`'s range, given a value of the static type. -/
theorem storeCast_typed (s T : Ty) (v w : Val) (hs : v.tag = s) (hv : v.InRange)
    (h : storeCast s T v = .ok w) : w.tag = T ∧ w.InRange := by
  unfold storeCast at h
  split at h
  · next hst => cases h; exact ⟨by rw [hs, hst], hv⟩
  · exact cast_sound v T w hv h

/-- **C06_store_invariant** (expression/store level). Assignments, by-value parameter bindings, FOR
initialisations and function results — every store the generator emits through
`generate_expression_instructions_casting` — preserve "every variable holds a value of its declared
type, in range": the store either happens with a converted in-range value or the statement ends in a
BASIC error (Overflow, Division by zero, Type mismatch) and nothing is stored. -/
theorem C06_store_invariant (decl : Nat → Ty) (env env' : Nat → Val) (x : Nat) (e : Expr)
    (hwt : WellTyped decl env) (hl : e.LitsInRange)
    (h : store binType decl env x e = .ok env') : WellTyped decl env' := by
  unfold store at h
  split at h
  · cases h
  · next s hs =>
    obtain ⟨v, hv, h'⟩ := bind_ok h
    obtain ⟨w, hw, h''⟩ := bind_ok h'
    cases h''
    obtain ⟨h1, h2⟩ := eval_typed decl env hwt e hl v hv
    have hsv : v.tag = s := by rw [hs] at h1; exact (Option.some.inj h1).symm
    obtain ⟨h3, h4⟩ := storeCast_typed s (decl x) v w hsv h2 hw
    intro y
    by_cases hy : y = x
    · subst hy; simp only [if_true]; exact ⟨h3, h4⟩
    · simp only [hy, if_false]; exact hwt y

/-! ### The hypotheses are satisfiable; concrete boundary behaviour (kernel-evaluated) -/

/-- 32767 + 1 on INTEGERs and 2147483647 + 1 on LONGs are Overflow (F8 repaired). -/
example : vmBin binType .plus (.int 32767) (.int 1) = .err .overflow ∧
    vmBin binType .plus (.long 2147483647) (.int 1) = .err .overflow ∧
    vmBin binType .minus (.long (-2147483648)) (.int 0) = .ok (.long (-2147483648)) ∧
    vmBin binType .multiply (.int 256) (.int 128) = .err .overflow := by decide +kernel

/-- 1 / 4 is the SINGLE 0.25, 6 / 3 the SINGLE 2 (F9 repaired); stored into an INTEGER they are rounded. -/
example : vmBin binType .divide (.int 1) (.int 4) = .ok (.sgl (1 / 4)) ∧
    vmBin binType .divide (.int 6) (.int 3) = .ok (.sgl 2) ∧
    storeCast .sgl .int (.sgl (1 / 4)) = .ok (.int 0) ∧
    storeCast .sgl .int (.sgl (5 / 2)) = .ok (.int 3) ∧
    storeCast .sgl .int (.sgl (-5 / 2)) = .ok (.int (-3)) ∧
    storeCast .sgl .int (.sgl (65535 / 2)) = .err .overflow ∧
    storeCast .sgl .long (.sgl 2147483648) = .err .overflow := by decide +kernel

/-- whole quotients beyond the 64-bit integers keep their value as DOUBLEs (the `as i64` saturation of
`fit_to_type`, repaired in 53dda8d, would have answered 9223372036854775807): 2^70 / 1, 2^99 / 2, and from a
SINGLE operand -/
example : divide (.dbl (2 ^ 70)) (.int 1) = .ok (.dbl (2 ^ 70)) ∧
    divide (.dbl (2 ^ 99)) (.int 2) = .ok (.dbl (2 ^ 98)) ∧
    divide (.sgl (2 ^ 64)) (.sgl 1) = .ok (.dbl (2 ^ 64)) ∧
    vmBin binType .divide (.sgl (2 ^ 64)) (.sgl 1) = .ok (.sgl (2 ^ 64)) ∧
    divide (.dbl 9000000000000000000) (.int 1) = .ok (.dbl 9000000000000000000) ∧
    (Val.dbl (2 ^ 100)).InRange ∧ ¬ (Val.dbl (2 ^ 101)).InRange := by decide +kernel

/-- `op_result_typed`'s hypotheses hold for a non-trivial instance and its conclusion is not vacuous. -/
example : (Val.sgl (65535 / 2)).InRange ∧ (Val.long 2147483647).InRange ∧
    vmBin binType .plus (.sgl (65535 / 2)) (.int 1) = .ok (.sgl (65537 / 2)) ∧
    binType .plus .sgl .int = some .sgl := by decide +kernel

def exDecl : Nat → Ty := fun x => if x = 0 then .int else if x = 1 then .long else .sgl
def exEnv : Nat → Val := fun x => if x = 0 then .int 32767 else if x = 1 then .long 70000 else .sgl (1 / 2)
/-- the value of variable `x` after the store, or the error -/
def readAfter (r : Res (Nat → Val)) (x : Nat) : Res Val := r.bind fun env => .ok (env x)

/-- A well-typed environment (x0 : INTEGER = 32767, x1 : LONG = 70000, x2.. : SINGLE = 0.5):
`x0 = x0 + 1` is Overflow and stores nothing, `x0 = x1 / 4` stores the INTEGER 17500,
`x0 = x2 * 5` stores 3 (2.5 rounded away from zero), `x1 = x0 * 2` is Overflow (INTEGER * INTEGER). -/
example : (∀ x, x < 3 → (exEnv x).tag = exDecl x ∧ (exEnv x).InRange) ∧
    readAfter (store binType exDecl exEnv 0 (.bin .plus (.var 0) (.lit (.int 1)))) 0 = .err .overflow ∧
    readAfter (store binType exDecl exEnv 0 (.bin .divide (.var 1) (.lit (.int 4)))) 0 = .ok (.int 17500) ∧
    readAfter (store binType exDecl exEnv 0 (.bin .multiply (.var 2) (.lit (.int 5)))) 0 = .ok (.int 3) ∧
    readAfter (store binType exDecl exEnv 1 (.bin .multiply (.var 0) (.lit (.int 2)))) 1 = .err .overflow := by
  decide +kernel

end RbThm.C06
