import Thm.C20Trace
/-!
C20, fifth part — fuel exactness lifted to whole expressions (context-free model `RbModel.Pc`).

The two unbounded `loop`s of the library (`many`, `delimited_by`) are modelled with fuel `len + 3`; `C20Trace` proves,
per loop, that more fuel never changes the answer.  Here the statement is made for whole expressions:

* `runF F` is `run` with every loop given fuel `F` (`runF_len`: `run = runF (len + 3)`);
* `runF_le` / `run_fuel_mono`: if `runF F` does not answer `hang`, every larger fuel gives the same answer
  (results ordered by "`hang` below everything", every combinator monotone);
* `hang_iff_stalls`: `run` answers `hang` exactly when the evaluation path reaches a loop that does not progress —
  `Stalls`: the trace (`Consults`) reaches a `many` / `many_ctx` / `delimited` node from whose start a chain of
  successful rounds leads to a round that succeeds without consuming input;
* `run_fuel_exact`: both clauses, and `runF F = run` for every `F ≥ len + 3`; `hang_at_every_fuel_iff_stalls`:
  `hang` at every fuel iff the path stalls.
-/
namespace RbThm.C20
open RbModel.Pc

/-! ## 1. The interpreter with an explicit loop fuel -/

/-- `many.rs ManyParser::parse` with loop fuel `F` -/
def manyPF (F : Nat) (allowNone : Bool) (p : P) : P := fun pos =>
  match p pos with
  | .ok v q => manyLoop p F q [v]
  | .soft e q => if allowNone then .ok .nil q else .soft e q
  | .fatal e q => .fatal e q
  | .hang => .hang

/-- `delimited.rs DelimitedParser::parse` with loop fuel `F` -/
def delimitedPF (F : Nat) (allowMissing : Bool) (te : Nat) (p d : P) : P := fun pos =>
  delimLoop allowMissing te p d F pos [] .nothing

theorem manyP_eq (len : Nat) (an : Bool) (p : P) : manyP len an p = manyPF (len + 3) an p := rfl
theorem delimitedP_eq (len : Nat) (am : Bool) (te : Nat) (p d : P) :
    delimitedP len am te p d = delimitedPF (len + 3) am te p d := rfl

/-- `RbModel.Pc.run` with every loop given fuel `F` -/
def runF (F : Nat) : PExpr → List Nat → P
  | .any, inp => anyP inp
  | .peekAny, inp => peekAnyP inp
  | .one k, inp => oneP inp k
  | .oneOf ks, inp => oneOfP inp ks
  | .failSoft c, _ => failSoftP c
  | .failFatal c, _ => failFatalP c
  | .eatSoft, inp => eatSoftP inp
  | .pure, _ => pureP
  | .manyStr k, inp => manyPF F false (oneP inp k)
  | .and c l r, inp => andP c (runF F l inp) (runF F r inp)
  | .or2 a b, inp => orBoxP (runF F a inp) [runF F b inp]
  | .or3 a b c, inp => orBoxP (runF F a inp) [runF F b inp, runF F c inp]
  | .orNoBox l r, inp => orNoBoxP (runF F l inp) (runF F r inp)
  | .many an e, inp => manyPF F an (runF F e inp)
  | .manyC mc an e, inp => finP mc (manyPF F an (runF F e inp))
  | .manyCtx an e, inp => manyPF F an (runF F e inp)
  | .filter pr e, inp => filterP pr (runF F e inp)
  | .filterMap f e, inp => filterMapP f (runF F e inp)
  | .peek e, inp => peekP (runF F e inp)
  | .toOption e, inp => toOptionP (runF F e inp)
  | .orDefault e, inp => orDefaultP (runF F e inp)
  | .surround md l m r, inp => surroundP md (runF F l inp) (runF F m inp) (runF F r inp)
  | .delimited am te e d, inp => delimitedPF F am te (runF F e inp) (runF F d inp)
  | .seq2 a b, inp => seqP (runF F a inp) [runF F b inp]
  | .seq3 a b c, inp => seqP (runF F a inp) [runF F b inp, runF F c inp]
  | .seq4 a b c d, inp => seqP (runF F a inp) [runF F b inp, runF F c inp, runF F d inp]
  | .seq5 a b c d e, inp => seqP (runF F a inp) [runF F b inp, runF F c inp, runF F d inp, runF F e inp]
  | .seq6 a b c d e f, inp =>
    seqP (runF F a inp) [runF F b inp, runF F c inp, runF F d inp, runF F e inp, runF F f inp]
  | .thenWith c l r, inp => thenWithP c (runF F l inp) (runF F r inp)
  | .andThen m e, inp => andThenP m (runF F e inp)
  | .andThenErr m e, inp => andThenErrP m (runF F e inp)
  | .map f e, inp => mapP f (runF F e inp)
  | .toFatal e, inp => toFatalP (runF F e inp)
  | .withSoftErr c ft e, inp => withSoftErrP c ft (runF F e inp)
  | .mapFatalErr c e, inp => mapFatalErrP c (runF F e inp)
  | .flatten p q, inp => flattenP (runF F p inp) (runF F q inp)
  | .lazy e, inp => runF F e inp
  | .iif b l r, inp => if b then runF F l inp else runF F r inp

/-- the model's `run` is `runF` at the model's fuel -/
theorem runF_len (inp : List Nat) : ∀ e : PExpr, runF (inp.length + 3) e inp = run e inp := by
  intro e
  induction e <;> simp only [runF, run, manyCP_eq_fin, manyP_eq, delimitedP_eq, *]

/-! ## 2. More fuel only turns `hang` into an answer -/

/-- `hang` is below every result; any other result only below itself -/
def RLe (r r' : Res) : Prop := r = .hang ∨ r = r'
def PLe (p p' : P) : Prop := ∀ pos, RLe (p pos) (p' pos)

theorem PLe.refl (p : P) : PLe p p := fun _ => .inr rfl

macro "ple" "[" ds:Lean.Parser.Tactic.simpLemma,* "]" : tactic =>
  `(tactic| (intro pos; simp only [RLe, PLe, $ds,*] at *; grind))

theorem andP_le {c l l' r r'} (hl : PLe l l') (hr : PLe r r') : PLe (andP c l r) (andP c l' r') := by ple [andP]
theorem orNoBoxP_le {l l' r r'} (hl : PLe l l') (hr : PLe r r') : PLe (orNoBoxP l r) (orNoBoxP l' r') := by
  ple [orNoBoxP]
theorem filterP_le {pr p p'} (hp : PLe p p') : PLe (filterP pr p) (filterP pr p') := by ple [filterP]
theorem filterMapP_le {f p p'} (hp : PLe p p') : PLe (filterMapP f p) (filterMapP f p') := by ple [filterMapP]
theorem peekP_le {p p'} (hp : PLe p p') : PLe (peekP p) (peekP p') := by ple [peekP]
theorem toOptionP_le {p p'} (hp : PLe p p') : PLe (toOptionP p) (toOptionP p') := by ple [toOptionP]
theorem orDefaultP_le {p p'} (hp : PLe p p') : PLe (orDefaultP p) (orDefaultP p') := by ple [orDefaultP]
theorem thenWithP_le {c l l' r r'} (hl : PLe l l') (hr : PLe r r') : PLe (thenWithP c l r) (thenWithP c l' r') := by
  ple [thenWithP]
theorem andThenP_le {m p p'} (hp : PLe p p') : PLe (andThenP m p) (andThenP m p') := by ple [andThenP]
theorem andThenErrP_le {m p p'} (hp : PLe p p') : PLe (andThenErrP m p) (andThenErrP m p') := by ple [andThenErrP]
theorem mapP_le {f p p'} (hp : PLe p p') : PLe (mapP f p) (mapP f p') := by ple [mapP]
theorem toFatalP_le {p p'} (hp : PLe p p') : PLe (toFatalP p) (toFatalP p') := by ple [toFatalP]
theorem withSoftErrP_le {c ft p p'} (hp : PLe p p') : PLe (withSoftErrP c ft p) (withSoftErrP c ft p') := by
  ple [withSoftErrP]
theorem mapFatalErrP_le {c p p'} (hp : PLe p p') : PLe (mapFatalErrP c p) (mapFatalErrP c p') := by ple [mapFatalErrP]
theorem finP_le {mc p p'} (hp : PLe p p') : PLe (finP mc p) (finP mc p') := by ple [finP]
theorem flattenP_le {l l' r r'} (hl : PLe l l') (hr : PLe r r') : PLe (flattenP l r) (flattenP l' r') := by
  ple [flattenP]

theorem surroundMain_le {md m m' r r'} (hm : PLe m m') (hr : PLe r r') (orig : Nat) :
    ∀ q, RLe (surroundMain md m r orig q) (surroundMain md m' r' orig q) := by ple [surroundMain]

theorem surroundP_le {md l l' m m' r r'} (hl : PLe l l') (hm : PLe m m') (hr : PLe r r') :
    PLe (surroundP md l m r) (surroundP md l' m' r') := by
  have hmain := surroundMain_le (md := md) hm hr
  intro pos; have := hmain pos; simp only [RLe, PLe, surroundP] at *; grind

/-- lists of parsers, element by element -/
def ListLe : List P → List P → Prop
  | [], [] => True
  | p :: ps, p' :: ps' => PLe p p' ∧ ListLe ps ps'
  | _, _ => False

theorem orBoxP_le : ∀ (rest rest' : List P) (p p' : P), PLe p p' → ListLe rest rest' →
    PLe (orBoxP p rest) (orBoxP p' rest')
  | [], [], p, p', hp, _ => by simpa [orBoxP] using hp
  | [], _ :: _, _, _, _, h => by simp [ListLe] at h
  | _ :: _, [], _, _, _, h => by simp [ListLe] at h
  | q :: rest, q' :: rest', p, p', hp, h => by
    have ih := orBoxP_le rest rest' q q' h.1 h.2
    intro pos
    have h1 := hp pos
    have h2 := ih pos
    simp only [RLe, orBoxP] at *
    grind

theorem seqRest_le : ∀ (ps ps' : List P), ListLe ps ps' → ∀ pos acc, RLe (seqRest ps pos acc) (seqRest ps' pos acc)
  | [], [], _, pos, acc => .inr rfl
  | [], _ :: _, h, _, _ => by simp [ListLe] at h
  | _ :: _, [], h, _, _ => by simp [ListLe] at h
  | p :: ps, p' :: ps', h, pos, acc => by
    have ih := seqRest_le ps ps' h.2
    have h1 := h.1 pos
    simp only [RLe, seqRest] at *
    grind

theorem seqP_le {f f' : P} {rest rest' : List P} (hf : PLe f f') (hr : ListLe rest rest') :
    PLe (seqP f rest) (seqP f' rest') := by
  have hl := seqRest_le rest rest' hr
  intro pos
  have h1 := hf pos
  simp only [RLe, seqP] at *
  grind

theorem manyLoop_le {p p' : P} (hp : PLe p p') : ∀ (F F' : Nat), F ≤ F' → ∀ pos acc,
    RLe (manyLoop p F pos acc) (manyLoop p' F' pos acc) := by
  intro F
  induction F with
  | zero => intros; exact .inl rfl
  | succ n ih =>
    intro F' hF pos acc
    obtain ⟨m, rfl⟩ : ∃ m, F' = m + 1 := ⟨F' - 1, by omega⟩
    have ih' := ih m (by omega)
    have h := hp pos
    simp only [RLe, manyLoop] at *
    grind

theorem manyPF_le {an : Bool} {p p' : P} (hp : PLe p p') {F F' : Nat} (hF : F ≤ F') :
    PLe (manyPF F an p) (manyPF F' an p') := by
  have hl := manyLoop_le hp F F' hF
  intro pos
  have h := hp pos
  simp only [RLe, manyPF] at *
  grind

theorem delimLoop_le {am : Bool} {te : Nat} {p p' d d' : P} (hp : PLe p p') (hd : PLe d d') :
    ∀ (F F' : Nat), F ≤ F' → ∀ pos acc last,
      RLe (delimLoop am te p d F pos acc last) (delimLoop am te p' d' F' pos acc last) := by
  intro F
  induction F with
  | zero => intros; exact .inl rfl
  | succ n ih =>
    intro F' hF pos acc last
    obtain ⟨m, rfl⟩ : ∃ m, F' = m + 1 := ⟨F' - 1, by omega⟩
    have ih' := ih m (by omega)
    have h := hp pos
    simp only [RLe, PLe, delimLoop] at *
    grind

theorem delimitedPF_le {am : Bool} {te : Nat} {p p' d d' : P} (hp : PLe p p') (hd : PLe d d') {F F' : Nat}
    (hF : F ≤ F') : PLe (delimitedPF F am te p d) (delimitedPF F' am te p' d') :=
  fun pos => delimLoop_le hp hd F F' hF pos [] .nothing

/-- **every expression is monotone in the fuel**: with more fuel a `hang` may become an answer, an answer stays -/
theorem runF_le (inp : List Nat) {F F' : Nat} (hF : F ≤ F') : ∀ e : PExpr, PLe (runF F e inp) (runF F' e inp) := by
  intro e
  induction e with
  | any | peekAny | one _ | oneOf _ | failSoft _ | failFatal _ | eatSoft | pure => exact PLe.refl _
  | manyStr k => exact manyPF_le (PLe.refl _) hF
  | and c l r ihl ihr => exact andP_le ihl ihr
  | or2 a b iha ihb => exact orBoxP_le _ _ _ _ iha ⟨ihb, trivial⟩
  | or3 a b c iha ihb ihc => exact orBoxP_le _ _ _ _ iha ⟨ihb, ihc, trivial⟩
  | orNoBox l r ihl ihr => exact orNoBoxP_le ihl ihr
  | many an e ih => exact manyPF_le ih hF
  | manyC mc an e ih => exact finP_le (manyPF_le ih hF)
  | manyCtx an e ih => exact manyPF_le ih hF
  | filter pr e ih => exact filterP_le ih
  | filterMap f e ih => exact filterMapP_le ih
  | peek e ih => exact peekP_le ih
  | toOption e ih => exact toOptionP_le ih
  | orDefault e ih => exact orDefaultP_le ih
  | surround md l m r ihl ihm ihr => exact surroundP_le ihl ihm ihr
  | delimited am te e d ihe ihd => exact delimitedPF_le ihe ihd hF
  | seq2 a b iha ihb => exact seqP_le iha ⟨ihb, trivial⟩
  | seq3 a b c iha ihb ihc => exact seqP_le iha ⟨ihb, ihc, trivial⟩
  | seq4 a b c d iha ihb ihc ihd => exact seqP_le iha ⟨ihb, ihc, ihd, trivial⟩
  | seq5 a b c d e iha ihb ihc ihd ihe => exact seqP_le iha ⟨ihb, ihc, ihd, ihe, trivial⟩
  | seq6 a b c d e f iha ihb ihc ihd ihe ihf => exact seqP_le iha ⟨ihb, ihc, ihd, ihe, ihf, trivial⟩
  | thenWith c l r ihl ihr => exact thenWithP_le ihl ihr
  | andThen m e ih => exact andThenP_le ih
  | andThenErr m e ih => exact andThenErrP_le ih
  | map f e ih => exact mapP_le ih
  | toFatal e ih => exact toFatalP_le ih
  | withSoftErr c ft e ih => exact withSoftErrP_le ih
  | mapFatalErr c e ih => exact mapFatalErrP_le ih
  | flatten p q ihp ihq => exact flattenP_le ihp ihq
  | lazy e ih => exact ih
  | iif b l r ihl ihr => cases b <;> simpa [runF] using (by assumption)

/-- **`run_fuel_mono`.** If the expression answers anything but `hang` with loop fuel `F`, it gives the same answer with
every larger fuel. -/
theorem run_fuel_mono (inp : List Nat) (e : PExpr) (pos : Nat) {F F' : Nat} (hF : F ≤ F')
    (h : runF F e inp pos ≠ .hang) : runF F' e inp pos = runF F e inp pos := by
  rcases runF_le inp hF e pos with h1 | h1
  · exact absurd h1 h
  · exact h1.symm

/-- where the model (`run`, fuel `len + 3`) answers, every fuel either hangs or answers the same -/
theorem runF_vs_run (inp : List Nat) (F : Nat) (e : PExpr) (pos : Nat) (h : run e inp pos ≠ .hang) :
    runF F e inp pos = .hang ∨ runF F e inp pos = run e inp pos := by
  by_cases hF : F ≤ inp.length + 3
  · have := runF_le inp hF e pos
    rw [runF_len] at this
    exact this
  · have := runF_le inp (F := inp.length + 3) (F' := F) (by omega) e pos
    rw [runF_len] at this
    rcases this with h1 | h1
    · exact absurd h1 h
    · exact .inr h1.symm

/-! ## 3. A loop that does not progress on the evaluation path -/

/-- the loop node `s`, started at `q`, reaches — after a chain of successful rounds — a round that succeeds without
consuming input (for a delimited list: element and delimiter together) -/
def LoopStuck (inp : List Nat) : PExpr → Nat → Prop
  | .many _ b, q => ∃ vs r v, Chain (run b inp) q vs r ∧ run b inp r = .ok v r
  | .manyC _ _ b, q => ∃ vs r v, Chain (run b inp) q vs r ∧ run b inp r = .ok v r
  | .manyCtx _ b, q => ∃ vs r v, Chain (run b inp) q vs r ∧ run b inp r = .ok v r
  | .delimited am _ b d, q => ∃ r, DReach am (run b inp) (run d inp) q r ∧ DRound am (run b inp) (run d inp) r r
  | _, _ => False

/-- **the evaluation of `e` from `pos` reaches a non-progressing loop** -/
def Stalls (inp : List Nat) (e : PExpr) (pos : Nat) : Prop :=
  ∃ s q, Consults inp e pos s q ∧ LoopStuck inp s q

/-- `p` is `p0` run with another fuel: wherever `p0` answers, `p` hangs or answers the same -/
def Ag (p0 p : P) : Prop := ∀ x, p0 x ≠ .hang → p x = .hang ∨ p x = p0 x

theorem ag_runF (inp : List Nat) (F : Nat) (e : PExpr) : Ag (run e inp) (runF F e inp) :=
  fun x h => runF_vs_run inp F e x h

theorem Ag.of_eq {p0 p : P} (ha : Ag p0 p) {x : Nat} {r : Res} (h : p0 x = r) (hr : r ≠ .hang) :
    p x = .hang ∨ p x = r := by
  have := ha x (by rw [h]; exact hr)
  rwa [h] at this

theorem manyLoop_hang_chain {p0 p : P} (ha : Ag p0 p) {pos : Nat} {vs : List Val} {q : Nat} (hc : Chain p0 pos vs q)
    (hq : ∀ G acc, manyLoop p G q acc = .hang) : ∀ G acc, manyLoop p G pos acc = .hang := by
  induction hc with
  | nil => exact hq
  | cons h1 _ ih =>
    intro G acc
    cases G with
    | zero => rfl
    | succ n =>
      simp only [manyLoop]
      rcases ha.of_eq h1 (by simp) with h | h
      · rw [h]
      · rw [h]; exact ih hq n _

theorem manyLoop_hang_at {p : P} {q : Nat} (hq : p q = .hang ∨ ∃ v, p q = .ok v q) :
    ∀ G acc, manyLoop p G q acc = .hang := by
  intro G acc
  rcases hq with h | ⟨v, h⟩
  · cases G with
    | zero => rfl
    | succ n => simp only [manyLoop, h]
  · exact manyLoop_nonprogress p q v h G acc

/-- a repetition whose body (at any fuel) hangs or does not progress after a chain of rounds of the model's body -/
theorem manyPF_hang {p0 p : P} (ha : Ag p0 p) {pos : Nat} {vs : List Val} {q : Nat} (hc : Chain p0 pos vs q)
    (hq : p q = .hang ∨ ∃ v, p q = .ok v q) (F : Nat) (an : Bool) : manyPF F an p pos = .hang := by
  cases hc with
  | nil =>
    simp only [manyPF]
    rcases hq with h | ⟨v, h⟩
    · rw [h]
    · rw [h]; exact manyLoop_nonprogress p pos v h F _
  | cons h1 hc' =>
    simp only [manyPF]
    rcases ha.of_eq h1 (by simp) with h | h
    · rw [h]
    · rw [h]; exact manyLoop_hang_chain ha hc' (manyLoop_hang_at hq) F _

theorem delimLoop_hang_reach {am : Bool} {te : Nat} {p0 p d0 d : P} (hp : Ag p0 p) (hd : Ag d0 d) {pos r : Nat}
    (hr : DReach am p0 d0 pos r) (hbase : ∀ G acc last, delimLoop am te p d G r acc last = .hang) :
    ∀ G acc last, delimLoop am te p d G pos acc last = .hang := by
  induction hr with
  | refl => exact hbase
  | step hround _ ih =>
    intro G acc last
    cases G with
    | zero => rfl
    | succ n =>
      simp only [delimLoop]
      rcases hround with ⟨v, q, w, h1, h2⟩ | ⟨ham, e, q, w, h1, h2⟩
      · rcases hp.of_eq h1 (by simp) with h | h
        · rw [h]
        · rw [h]; simp only
          rcases hd.of_eq h2 (by simp) with h' | h'
          · rw [h']
          · rw [h']; exact ih hbase n _ _
      · subst ham
        rcases hp.of_eq h1 (by simp) with h | h
        · rw [h]
        · rw [h]; simp only
          rcases hd.of_eq h2 (by simp) with h' | h'
          · rw [h']
          · rw [h']; simp only [if_true]; exact ih hbase n _ _

/-- what makes the delimited loop hang at `r` with every fuel -/
theorem delimLoop_hang_at {am : Bool} {te : Nat} {p0 p d0 d : P} (hp : Ag p0 p) (hd : Ag d0 d) {r : Nat}
    (h : p r = .hang ∨ (∃ q, ((∃ x, p0 r = .ok x q) ∨ (∃ x, p0 r = .soft x q)) ∧ d q = .hang) ∨ DRound am p0 d0 r r) :
    ∀ G acc last, delimLoop am te p d G r acc last = .hang := by
  intro G acc last
  cases G with
  | zero => rfl
  | succ n =>
    rcases h with h | ⟨q, hq, hdq⟩ | hround
    · simp only [delimLoop, h]
    · rcases hq with ⟨x, h1⟩ | ⟨x, h1⟩
      · rcases hp.of_eq h1 (by simp) with h | h <;> simp only [delimLoop, h, hdq]
      · rcases hp.of_eq h1 (by simp) with h | h <;> simp only [delimLoop, h, hdq]
    · rcases hround with ⟨v, q, w, h1, h2⟩ | ⟨ham, e, q, w, h1, h2⟩
      · rcases hp.of_eq h1 (by simp) with h | h
        · simp only [delimLoop, h]
        · rcases hd.of_eq h2 (by simp) with h' | h'
          · simp only [delimLoop, h, h']
          · exact delimLoop_nonprogress (Or.inl ⟨v, q, w, h, h'⟩) _ _ _
      · rcases hp.of_eq h1 (by simp) with h | h
        · simp only [delimLoop, h]
        · rcases hd.of_eq h2 (by simp) with h' | h'
          · simp only [delimLoop, h, h']
          · exact delimLoop_nonprogress (Or.inr ⟨ham, e, q, w, h, h'⟩) _ _ _

theorem seqRest_hang_at {inp : List Nat} {F : Nat} {xs : List PExpr} {pos : Nat} {s : PExpr} {q : Nat}
    (h : SeqAt inp xs pos s q) (hf : runF F s inp q = .hang) :
    ∀ acc, seqRest (xs.map (fun x => runF F x inp)) pos acc = .hang := by
  induction h with
  | head => intro acc; simp [seqRest, hf]
  | tail hx _ ih =>
    intro acc
    simp only [List.map_cons, seqRest]
    rcases (ag_runF inp F _).of_eq hx (by simp) with h | h
    · rw [h]
    · rw [h]; exact ih hf _

theorem seqP_hang_at {inp : List Nat} {F : Nat} {x : PExpr} {xs : List PExpr} {pos : Nat} {s : PExpr} {q : Nat}
    (h : SeqAt inp (x :: xs) pos s q) (hf : runF F s inp q = .hang) :
    seqP (runF F x inp) (xs.map (fun x => runF F x inp)) pos = .hang := by
  cases h with
  | head => simp [seqP, hf]
  | tail hx hs =>
    simp only [seqP]
    rcases (ag_runF inp F _).of_eq hx (by simp) with h | h
    · rw [h]
    · rw [h]; exact seqRest_hang_at hs hf _

/-- **One call, any fuel.** If evaluating `e` (in the model) calls `s` at `q`, and `s` hangs there with loop fuel `F`,
then `e` hangs with loop fuel `F`: a sub-parser that does not return is never worked around. -/
theorem Calls.hangF {inp : List Nat} {e : PExpr} {pos : Nat} {s : PExpr} {q : Nat} (F : Nat)
    (h : Calls inp e pos s q) (hf : runF F s inp q = .hang) : runF F e inp pos = .hang := by
  have ag := fun x => ag_runF inp F x
  cases h with
  | and_l => simp [runF, andP, hf]
  | and_r h1 => rcases (ag _).of_eq h1 (by simp) with h | h <;> simp [runF, andP, h, hf]
  | or2_a => simp [runF, orBoxP, hf]
  | or2_b h1 => rcases (ag _).of_eq h1 (by simp) with h | h <;> simp [runF, orBoxP, h, hf]
  | or3_a => simp [runF, orBoxP, hf]
  | or3_b h1 => rcases (ag _).of_eq h1 (by simp) with h | h <;> simp [runF, orBoxP, h, hf]
  | or3_c h1 h2 =>
    rcases (ag _).of_eq h1 (by simp) with h | h
    · simp [runF, orBoxP, h]
    · rcases (ag _).of_eq h2 (by simp) with h' | h' <;> simp [runF, orBoxP, h, h', hf]
  | orNoBox_l => simp [runF, orNoBoxP, hf]
  | orNoBox_r h1 => rcases (ag _).of_eq h1 (by simp) with h | h <;> simp [runF, orNoBoxP, h, hf]
  | many hc => simp only [runF]; exact manyPF_hang (ag _) hc (.inl hf) F _
  | manyC hc => simp only [runF, finP, manyPF_hang (ag _) hc (.inl hf) F _]
  | manyCtx hc => simp only [runF]; exact manyPF_hang (ag _) hc (.inl hf) F _
  | filter => simp [runF, filterP, hf]
  | filterMap => simp [runF, filterMapP, hf]
  | peek => simp [runF, peekP, hf]
  | toOption => simp [runF, toOptionP, hf]
  | orDefault => simp [runF, orDefaultP, hf]
  | surround_l => simp [runF, surroundP, hf]
  | surround_m hl =>
    rcases hl with ⟨a, h1⟩ | ⟨rfl, x, h1⟩ <;> rcases (ag _).of_eq h1 (by simp) with h | h <;>
      simp [runF, surroundP, surroundMain, h, hf]
  | surround_r hl hm =>
    rcases hl with ⟨a, h1⟩ | ⟨rfl, x, h1⟩ <;> rcases (ag _).of_eq h1 (by simp) with h | h <;>
      rcases (ag _).of_eq hm (by simp) with h' | h' <;> simp [runF, surroundP, surroundMain, h, h', hf]
  | delim_e hr =>
    simp only [runF, delimitedPF]
    exact delimLoop_hang_reach (ag _) (ag _) hr (delimLoop_hang_at (ag _) (ag _) (.inl hf)) _ _ _
  | delim_d hr he =>
    simp only [runF, delimitedPF]
    exact delimLoop_hang_reach (ag _) (ag _) hr (delimLoop_hang_at (ag _) (ag _) (.inr (.inl ⟨_, he, hf⟩))) _ _ _
  | seq hk hs =>
    cases e <;> simp [seqKids] at hk <;> subst hk <;> exact seqP_hang_at hs hf
  | thenWith_l => simp [runF, thenWithP, hf]
  | thenWith_r h1 => rcases (ag _).of_eq h1 (by simp) with h | h <;> simp [runF, thenWithP, h, hf]
  | andThen => simp [runF, andThenP, hf]
  | andThenErr => simp [runF, andThenErrP, hf]
  | map => simp [runF, mapP, hf]
  | toFatal => simp [runF, toFatalP, hf]
  | withSoftErr => simp [runF, withSoftErrP, hf]
  | mapFatalErr => simp [runF, mapFatalErrP, hf]
  | flatten_p => simp [runF, flattenP, hf]
  | flatten_q h1 => rcases (ag _).of_eq h1 (by simp) with h | h <;> simp [runF, flattenP, h, hf]
  | lazy => simp [runF, hf]
  | iif_l => simp [runF, hf]
  | iif_r => simp [runF, hf]

/-- a non-progressing loop hangs with every fuel -/
theorem LoopStuck.hangF {inp : List Nat} {s : PExpr} {q : Nat} (h : LoopStuck inp s q) (F : Nat) :
    runF F s inp q = .hang := by
  have ag := fun x => ag_runF inp F x
  cases s <;> simp only [LoopStuck] at h
  case many an b =>
    obtain ⟨vs, r, v, hc, hr⟩ := h
    simp only [runF]
    refine manyPF_hang (ag _) hc ?_ F _
    rcases (ag _).of_eq hr (by simp) with h | h
    · exact .inl h
    · exact .inr ⟨v, h⟩
  case manyCtx an b =>
    obtain ⟨vs, r, v, hc, hr⟩ := h
    simp only [runF]
    refine manyPF_hang (ag _) hc ?_ F _
    rcases (ag _).of_eq hr (by simp) with h | h
    · exact .inl h
    · exact .inr ⟨v, h⟩
  case manyC mc an b =>
    obtain ⟨vs, r, v, hc, hr⟩ := h
    have : manyPF F an (runF F b inp) q = .hang := by
      refine manyPF_hang (ag _) hc ?_ F _
      rcases (ag _).of_eq hr (by simp) with h | h
      · exact .inl h
      · exact .inr ⟨v, h⟩
    simp only [runF, finP, this]
  case delimited am te b d =>
    obtain ⟨r, hreach, hround⟩ := h
    simp only [runF, delimitedPF]
    exact delimLoop_hang_reach (ag _) (ag _) hreach (delimLoop_hang_at (ag _) (ag _) (.inr (.inr hround))) _ _ _

/-- **a stalled path hangs with every fuel** -/
theorem Stalls.hangF {inp : List Nat} {e : PExpr} {pos : Nat} (h : Stalls inp e pos) (F : Nat) :
    runF F e inp pos = .hang := by
  obtain ⟨s, q, hc, hl⟩ := h
  induction hc with
  | refl e pos => exact hl.hangF F
  | step hcall _ ih => exact hcall.hangF F (ih hl)

/-! ## 4. `hang` comes from nowhere else -/

/-- the repetition loop with enough fuel (more than the remaining input) answers `hang` only if, after a chain of
successful rounds, the body hangs or succeeds without consuming -/
theorem manyLoop_hang_cases {len : Nat} {p : P} (hm : Mono len p) : ∀ (F pos : Nat) (acc : List Val), pos ≤ len →
    len - pos < F → manyLoop p F pos acc = .hang →
    ∃ vs r, Chain p pos vs r ∧ (p r = .hang ∨ ∃ v, p r = .ok v r) := by
  intro F
  induction F with
  | zero => intro pos acc hpos hF; omega
  | succ n ih =>
    intro pos acc hpos hF h
    simp only [manyLoop] at h
    cases hp : p pos with
    | ok v q =>
      rw [hp] at h; simp only at h
      have hq := hm.ok _ _ _ hpos hp
      by_cases hqp : q = pos
      · subst hqp; exact ⟨[], q, Chain.nil _, .inr ⟨v, hp⟩⟩
      · obtain ⟨vs, r, hc, hr⟩ := ih q _ hq.2 (by omega) h
        exact ⟨v :: vs, r, Chain.cons hp hc, hr⟩
    | soft e q => rw [hp] at h; simp at h
    | fatal e q => rw [hp] at h; simp at h
    | hang => exact ⟨[], pos, Chain.nil _, .inl hp⟩

theorem delimFinish_ne_hang (te : Nat) (acc : List Val) (last : Last) (q : Nat) : delimFinish te acc last q ≠ .hang := by
  cases last <;> simp [delimFinish]

/-- the same for the delimited loop: a hanging element, a hanging delimiter after an element (or a missing one), or a
round of element and delimiter that does not consume -/
theorem delimLoop_hang_cases {len : Nat} {am : Bool} {te : Nat} {p d : P} (hp : Mono len p) (hd : Mono len d) :
    ∀ (F pos : Nat) (acc : List Val) (last : Last), pos ≤ len → len - pos < F →
    delimLoop am te p d F pos acc last = .hang →
    ∃ r, DReach am p d pos r ∧
      (p r = .hang ∨ (∃ q, ((∃ x, p r = .ok x q) ∨ (∃ x, p r = .soft x q)) ∧ d q = .hang) ∨ DRound am p d r r) := by
  intro F
  induction F with
  | zero => intro pos acc last hpos hF; omega
  | succ n ih =>
    intro pos acc last hpos hF h
    simp only [delimLoop] at h
    cases hpp : p pos with
    | ok v q =>
      rw [hpp] at h; simp only at h
      have h1 := hp.ok _ _ _ hpos hpp
      cases hdd : d q with
      | ok w q2 =>
        rw [hdd] at h; simp only at h
        have h2 := hd.ok _ _ _ h1.2 hdd
        have hround : DRound am p d pos q2 := Or.inl ⟨v, q, w, hpp, hdd⟩
        by_cases hqp : q2 = pos
        · subst hqp; exact ⟨q2, DReach.refl _, .inr (.inr hround)⟩
        · obtain ⟨r, hr, hc⟩ := ih q2 _ _ h2.2 (by omega) h
          exact ⟨r, DReach.step hround hr, hc⟩
      | soft e q2 => rw [hdd] at h; exact absurd h (delimFinish_ne_hang _ _ _ _)
      | fatal e q2 => rw [hdd] at h; simp at h
      | hang => exact ⟨pos, DReach.refl _, .inr (.inl ⟨q, .inl ⟨v, hpp⟩, hdd⟩)⟩
    | soft e q =>
      rw [hpp] at h; simp only at h
      have h1 := hp.soft _ _ _ hpos hpp
      cases hdd : d q with
      | ok w q2 =>
        rw [hdd] at h; simp only at h
        have h2 := hd.ok _ _ _ h1.2 hdd
        cases am with
        | false => simp at h
        | true =>
          simp only [if_true] at h
          have hround : DRound true p d pos q2 := Or.inr ⟨rfl, e, q, w, hpp, hdd⟩
          by_cases hqp : q2 = pos
          · subst hqp; exact ⟨q2, DReach.refl _, .inr (.inr hround)⟩
          · obtain ⟨r, hr, hc⟩ := ih q2 _ _ h2.2 (by omega) h
            exact ⟨r, DReach.step hround hr, hc⟩
      | soft e2 q2 => rw [hdd] at h; exact absurd h (delimFinish_ne_hang _ _ _ _)
      | fatal e2 q2 => rw [hdd] at h; simp at h
      | hang => exact ⟨pos, DReach.refl _, .inr (.inl ⟨q, .inr ⟨e, hpp⟩, hdd⟩)⟩
    | fatal e q => rw [hpp] at h; simp at h
    | hang => exact ⟨pos, DReach.refl _, .inl hpp⟩

theorem seqRest_hang_cases {inp : List Nat} : ∀ (xs : List PExpr) (pos : Nat) (acc : List Val),
    seqRest (xs.map (fun x => run x inp)) pos acc = .hang → ∃ s q, SeqAt inp xs pos s q ∧ run s inp q = .hang
  | [], pos, acc, h => by simp [seqRest] at h
  | x :: xs, pos, acc, h => by
    simp only [List.map_cons, seqRest] at h
    cases hx : run x inp pos with
    | ok v q =>
      rw [hx] at h; simp only at h
      obtain ⟨s, r, hs, hr⟩ := seqRest_hang_cases xs q _ h
      exact ⟨s, r, SeqAt.tail hx hs, hr⟩
    | soft e q => rw [hx] at h; simp at h
    | fatal e q => rw [hx] at h; simp at h
    | hang => exact ⟨x, pos, SeqAt.head, hx⟩

theorem seqP_hang_cases {inp : List Nat} (x : PExpr) (xs : List PExpr) (pos : Nat)
    (h : seqP (run x inp) (xs.map (fun x => run x inp)) pos = .hang) :
    ∃ s q, SeqAt inp (x :: xs) pos s q ∧ run s inp q = .hang := by
  simp only [seqP] at h
  cases hx : run x inp pos with
  | ok v q =>
    rw [hx] at h; simp only at h
    obtain ⟨s, r, hs, hr⟩ := seqRest_hang_cases xs q _ h
    exact ⟨s, r, SeqAt.tail hx hs, hr⟩
  | soft e q => rw [hx] at h; simp at h
  | fatal e q => rw [hx] at h; simp at h
  | hang => exact ⟨x, pos, SeqAt.head, hx⟩

theorem manyP_hang_cases {inp : List Nat} {an : Bool} (b : PExpr) {pos : Nat} (hpos : pos ≤ inp.length)
    (h : manyP inp.length an (run b inp) pos = .hang) :
    ∃ vs r, Chain (run b inp) pos vs r ∧ (run b inp r = .hang ∨ ∃ v, run b inp r = .ok v r) := by
  simp only [manyP] at h
  cases hp : run b inp pos with
  | ok v q =>
    rw [hp] at h; simp only at h
    have hq := (run_mono inp b).ok _ _ _ hpos hp
    obtain ⟨vs, r, hc, hr⟩ := manyLoop_hang_cases (run_mono inp b) _ q _ hq.2 (by omega) h
    exact ⟨v :: vs, r, Chain.cons hp hc, hr⟩
  | soft e q => rw [hp] at h; cases an <;> simp at h
  | fatal e q => rw [hp] at h; simp at h
  | hang => exact ⟨[], pos, Chain.nil _, .inl hp⟩

theorem filter_any_prog (inp : List Nat) (pr : Pred) : Prog (filterP pr (anyP inp)) := by
  intro pos v q h
  simp only [filterP, anyP] at h
  cases hi : inp[pos]? with
  | none => simp [hi] at h
  | some c =>
    simp only [hi] at h
    split at h <;> simp at h <;> omega

theorem filter_any_ne_hang (inp : List Nat) (pr : Pred) (x : Nat) : filterP pr (anyP inp) x ≠ .hang := by
  simp only [filterP, anyP]
  cases inp[x]? with
  | none => simp
  | some c => simp only; split <;> simp

theorem oneP_prog (inp : List Nat) (k : Nat) : Prog (oneP inp k) := filter_any_prog inp _

theorem oneP_ne_hang (inp : List Nat) (k x : Nat) : oneP inp k x ≠ .hang := filter_any_ne_hang inp _ x

/-- **where a `hang` comes from**: a called sub-parser that hangs, or this very loop not progressing -/
theorem hang_cases {inp : List Nat} : ∀ (e : PExpr) (pos : Nat), pos ≤ inp.length → run e inp pos = .hang →
    (∃ s q, Calls inp e pos s q ∧ run s inp q = .hang) ∨ LoopStuck inp e pos := by
  intro e pos hpos h
  cases e with
  | any => simp only [run, anyP] at h; split at h <;> simp at h
  | peekAny => simp only [run, peekAnyP] at h; split at h <;> simp at h
  | one k => exact absurd h (oneP_ne_hang inp k pos)
  | oneOf ks => exact absurd h (filter_any_ne_hang inp _ pos)
  | failSoft c => simp [run, failSoftP] at h
  | failFatal c => simp [run, failFatalP] at h
  | eatSoft => simp only [run, eatSoftP] at h; split at h <;> simp at h
  | pure => simp [run, pureP] at h
  | manyStr k =>
    exact absurd h (many_no_hang ((oneP_wb inp k).mono) (oneP_prog inp k) (oneP_ne_hang inp k) pos hpos)
  | and c l r =>
    simp only [run, andP] at h
    split at h
    · next a p1 h1 => split at h <;> simp at h; next h2 => exact .inl ⟨r, p1, .and_r h1, h2⟩
    · simp at h
    · simp at h
    · next h1 => exact .inl ⟨l, pos, .and_l, h1⟩
  | or2 a b =>
    simp only [run, orBoxP] at h
    split at h
    · next e q h1 => exact .inl ⟨b, pos, .or2_b h1, h⟩
    · simp at h
    · simp at h
    · next h1 => exact .inl ⟨a, pos, .or2_a, h1⟩
  | or3 a b c =>
    simp only [run, orBoxP] at h
    split at h
    · next e q h1 =>
      split at h
      · next e' q' h2 => exact .inl ⟨c, pos, .or3_c h1 h2, h⟩
      · simp at h
      · simp at h
      · next h2 => exact .inl ⟨b, pos, .or3_b h1, h2⟩
    · simp at h
    · simp at h
    · next h1 => exact .inl ⟨a, pos, .or3_a, h1⟩
  | orNoBox l r =>
    simp only [run, orNoBoxP] at h
    split at h
    · next e q h1 => exact .inl ⟨r, q, .orNoBox_r h1, h⟩
    · simp at h
    · simp at h
    · next h1 => exact .inl ⟨l, pos, .orNoBox_l, h1⟩
  | many an b =>
    simp only [run] at h
    obtain ⟨vs, r, hc, hr⟩ := manyP_hang_cases b hpos h
    rcases hr with hr | ⟨v, hr⟩
    · exact .inl ⟨b, r, .many hc, hr⟩
    · exact .inr ⟨vs, r, v, hc, hr⟩
  | manyCtx an b =>
    simp only [run] at h
    obtain ⟨vs, r, hc, hr⟩ := manyP_hang_cases b hpos h
    rcases hr with hr | ⟨v, hr⟩
    · exact .inl ⟨b, r, .manyCtx hc, hr⟩
    · exact .inr ⟨vs, r, v, hc, hr⟩
  | manyC mc an b =>
    have h' : manyP inp.length an (run b inp) pos = .hang := by
      simp only [run, manyCP_eq_fin, finP] at h
      split at h
      · simp at h
      · assumption
    obtain ⟨vs, r, hc, hr⟩ := manyP_hang_cases b hpos h'
    rcases hr with hr | ⟨v, hr⟩
    · exact .inl ⟨b, r, .manyC hc, hr⟩
    · exact .inr ⟨vs, r, v, hc, hr⟩
  | filter pr b =>
    simp only [run, filterP] at h
    split at h
    · split at h <;> simp at h
    · simp at h
    · simp at h
    · next h1 => exact .inl ⟨b, pos, .filter, h1⟩
  | filterMap f b =>
    simp only [run, filterMapP] at h
    split at h
    · split at h <;> simp at h
    · simp at h
    · simp at h
    · next h1 => exact .inl ⟨b, pos, .filterMap, h1⟩
  | peek b =>
    simp only [run, peekP] at h
    split at h <;> first | (simp at h; done) | (next h1 => exact .inl ⟨b, pos, .peek, h1⟩)
  | toOption b =>
    simp only [run, toOptionP] at h
    split at h <;> first | (simp at h; done) | (next h1 => exact .inl ⟨b, pos, .toOption, h1⟩)
  | orDefault b =>
    simp only [run, orDefaultP] at h
    split at h <;> first | (simp at h; done) | (next h1 => exact .inl ⟨b, pos, .orDefault, h1⟩)
  | surround md l m r =>
    simp only [run, surroundP] at h
    have main : ∀ q, ((∃ a, run l inp pos = .ok a q) ∨ (md = false ∧ ∃ e, run l inp pos = .soft e q)) →
        surroundMain md (run m inp) (run r inp) pos q = .hang →
        (∃ s q', Calls inp (.surround md l m r) pos s q' ∧ run s inp q' = .hang) := by
      intro q hl hmain
      simp only [surroundMain] at hmain
      split at hmain
      · next v q1 hm =>
        split at hmain
        · simp at hmain
        · split at hmain <;> simp at hmain
        · simp at hmain
        · next hr => exact ⟨r, q1, .surround_r hl hm, hr⟩
      · split at hmain <;> simp at hmain
      · simp at hmain
      · next hm => exact ⟨m, q, .surround_m hl, hm⟩
    split at h
    · next a q h1 => exact .inl (main q (.inl ⟨a, h1⟩) h)
    · next e q h1 =>
      cases md with
      | true => simp at h
      | false => exact .inl (main q (.inr ⟨rfl, e, h1⟩) (by simpa using h))
    · simp at h
    · next h1 => exact .inl ⟨l, pos, .surround_l, h1⟩
  | delimited am te b d =>
    simp only [run, delimitedP] at h
    obtain ⟨r, hr, hc⟩ := delimLoop_hang_cases (run_mono inp b) (run_mono inp d) _ pos _ _ hpos (by omega) h
    rcases hc with hc | ⟨q, hq, hdq⟩ | hround
    · exact .inl ⟨b, r, .delim_e hr, hc⟩
    · exact .inl ⟨d, q, .delim_d hr hq, hdq⟩
    · exact .inr ⟨r, hr, hround⟩
  | seq2 a b =>
    obtain ⟨s, q, hs, hq⟩ := seqP_hang_cases a [b] pos (by simpa [run] using h)
    exact .inl ⟨s, q, .seq rfl hs, hq⟩
  | seq3 a b c =>
    obtain ⟨s, q, hs, hq⟩ := seqP_hang_cases a [b, c] pos (by simpa [run] using h)
    exact .inl ⟨s, q, .seq rfl hs, hq⟩
  | seq4 a b c d =>
    obtain ⟨s, q, hs, hq⟩ := seqP_hang_cases a [b, c, d] pos (by simpa [run] using h)
    exact .inl ⟨s, q, .seq rfl hs, hq⟩
  | seq5 a b c d e =>
    obtain ⟨s, q, hs, hq⟩ := seqP_hang_cases a [b, c, d, e] pos (by simpa [run] using h)
    exact .inl ⟨s, q, .seq rfl hs, hq⟩
  | seq6 a b c d e f =>
    obtain ⟨s, q, hs, hq⟩ := seqP_hang_cases a [b, c, d, e, f] pos (by simpa [run] using h)
    exact .inl ⟨s, q, .seq rfl hs, hq⟩
  | thenWith c l r =>
    simp only [run, thenWithP] at h
    split at h
    · next a p1 h1 => split at h <;> simp at h; next h2 => exact .inl ⟨r, p1, .thenWith_r h1, h2⟩
    · simp at h
    · simp at h
    · next h1 => exact .inl ⟨l, pos, .thenWith_l, h1⟩
  | andThen m b =>
    simp only [run, andThenP] at h
    split at h
    · split at h
      · simp at h
      · split at h <;> simp at h
    · simp at h
    · simp at h
    · next h1 => exact .inl ⟨b, pos, .andThen, h1⟩
  | andThenErr m b =>
    simp only [run, andThenErrP] at h
    split at h
    · simp at h
    · split at h
      · simp at h
      · split at h <;> simp at h
      · split at h <;> simp at h
    · simp at h
    · next h1 => exact .inl ⟨b, pos, .andThenErr, h1⟩
  | map f b =>
    simp only [run, mapP] at h
    split at h <;> first | (simp at h; done) | (next h1 => exact .inl ⟨b, pos, .map, h1⟩)
  | toFatal b =>
    simp only [run, toFatalP] at h
    split at h <;> first | (simp at h; done) | (next h1 => exact .inl ⟨b, pos, .toFatal, h1⟩)
  | withSoftErr c ft b =>
    simp only [run, withSoftErrP] at h
    split at h
    · simp at h
    · split at h <;> simp at h
    · simp at h
    · next h1 => exact .inl ⟨b, pos, .withSoftErr, h1⟩
  | mapFatalErr c b =>
    simp only [run, mapFatalErrP] at h
    split at h <;> first | (simp at h; done) | (next h1 => exact .inl ⟨b, pos, .mapFatalErr, h1⟩)
  | flatten p q =>
    simp only [run, flattenP] at h
    split at h
    · next a p1 h1 => exact .inl ⟨q, p1, .flatten_q h1, h⟩
    · simp at h
    · simp at h
    · next h1 => exact .inl ⟨p, pos, .flatten_p, h1⟩
  | lazy b => exact .inl ⟨b, pos, .lazy, by simpa [run] using h⟩
  | iif b l r =>
    cases b
    · exact .inl ⟨r, pos, .iif_r, by simpa [run] using h⟩
    · exact .inl ⟨l, pos, .iif_l, by simpa [run] using h⟩

/-- a callee is a proper sub-expression of its caller -/
theorem Calls.size_lt {inp : List Nat} {e : PExpr} {pos : Nat} {s : PExpr} {q : Nat} (h : Calls inp e pos s q) :
    sizeOf s < sizeOf e := by
  cases h with
  | seq hk hs =>
    have hm := hs.mem
    cases e <;> simp [seqKids] at hk
    all_goals (subst hk; simp at hm; rcases hm with rfl | hm <;> (try rcases hm with rfl | hm) <;>
      (try rcases hm with rfl | hm) <;> (try rcases hm with rfl | hm) <;> (try rcases hm with rfl | hm) <;>
      (try rcases hm with rfl | hm) <;> (try subst hm) <;> simp <;> omega)
  | _ => simp <;> omega

/-- **`hang` only by stalling**: if the model answers `hang`, the evaluation path reaches a non-progressing loop -/
theorem stalls_of_hang {inp : List Nat} : ∀ (n : Nat) (e : PExpr), sizeOf e < n → ∀ pos, pos ≤ inp.length →
    run e inp pos = .hang → Stalls inp e pos := by
  intro n
  induction n with
  | zero => intro e h; omega
  | succ n ih =>
    intro e hn pos hpos h
    rcases hang_cases e pos hpos h with ⟨s, q, hcall, hs⟩ | hstuck
    · obtain ⟨s', q', hcons, hl⟩ := ih s (by have := hcall.size_lt; omega) q (hcall.pos_le hpos) hs
      exact ⟨s', q', Consults.step hcall hcons, hl⟩
    · exact ⟨e, pos, Consults.refl _ _, hstuck⟩

/-! ## 5. The statements -/

/-- **`hang_iff_stalls`.** From a start position inside the input, the model answers `hang` exactly when the evaluation
reaches (through the trace `Consults`) a repetition or delimited list that, after some successful rounds, makes a round
that succeeds without consuming input — the one way the real library fails to return. -/
theorem hang_iff_stalls (inp : List Nat) (e : PExpr) (pos : Nat) (hpos : pos ≤ inp.length) :
    run e inp pos = .hang ↔ Stalls inp e pos := by
  constructor
  · exact stalls_of_hang (sizeOf e + 1) e (by omega) pos hpos
  · intro h
    have := h.hangF (inp.length + 3)
    rwa [runF_len] at this

/-- the fuel of the model is exact for whole expressions: every loop fuel `F ≥ len + 3` gives the model's answer -/
theorem runF_exact (inp : List Nat) (e : PExpr) (pos : Nat) (hpos : pos ≤ inp.length) (F : Nat)
    (hF : inp.length + 3 ≤ F) : runF F e inp pos = run e inp pos := by
  by_cases h : run e inp pos = .hang
  · rw [h]; exact ((hang_iff_stalls inp e pos hpos).1 h).hangF F
  · have := runF_le inp hF e pos
    rw [runF_len] at this
    rcases this with h1 | h1
    · exact absurd h1 h
    · exact h1.symm

/-- **`hang` at every fuel iff the path stalls** -/
theorem hang_at_every_fuel_iff_stalls (inp : List Nat) (e : PExpr) (pos : Nat) (hpos : pos ≤ inp.length) :
    (∀ F, runF F e inp pos = .hang) ↔ Stalls inp e pos := by
  constructor
  · intro h
    have := h (inp.length + 3)
    rw [runF_len] at this
    exact (hang_iff_stalls inp e pos hpos).1 this
  · exact fun h F => h.hangF F

/-- **`run_fuel_exact`** (context-free model) — fuel exactness lifted to whole expressions, every expression, every
input, every start position inside the input:
1. if the expression answers anything but `hang` with loop fuel `F`, every larger fuel gives the same answer;
2. every fuel from `len + 3` on gives the answer of the model (`run`, fuel `len + 3`);
3. the answer is `hang` at every fuel iff the evaluation path reaches a non-progressing loop (`Stalls`) — and
   otherwise the model's answer is not `hang`. -/
theorem run_fuel_exact (inp : List Nat) (e : PExpr) (pos : Nat) (hpos : pos ≤ inp.length) :
    (∀ F F', F ≤ F' → runF F e inp pos ≠ .hang → runF F' e inp pos = runF F e inp pos) ∧
    (∀ F, inp.length + 3 ≤ F → runF F e inp pos = run e inp pos) ∧
    ((∀ F, runF F e inp pos = .hang) ↔ Stalls inp e pos) ∧
    (¬ Stalls inp e pos → run e inp pos ≠ .hang) :=
  ⟨fun F F' hF h => run_fuel_mono inp e pos hF h, fun F hF => runF_exact inp e pos hpos F hF,
    hang_at_every_fuel_iff_stalls inp e pos hpos, fun hns h => hns ((hang_iff_stalls inp e pos hpos).1 h)⟩

/-! ### the hypotheses are satisfiable -/

/-- `(a (peek b)*)` on `a b`: the outer sequence calls the inner repetition at 1, whose body succeeds without
consuming: the path stalls, the model says `hang`, and so does every fuel -/
example : Stalls [0, 1] (.and .tuple (.one 0) (.many true (.peek (.one 1)))) 0 :=
  ⟨.many true (.peek (.one 1)), 1,
    .step (.and_r (a := .sym 0) (p1 := 1) (by decide)) (.refl _ _), [], 1, .sym 1, Chain.nil _, by decide⟩

example : run (.and .tuple (.one 0) (.many true (.peek (.one 1)))) [0, 1] 0 = .hang := by decide

/-- with too little fuel a terminating repetition reads `hang`; from fuel 3 on (`len + 3 = 5`) the answer is stable -/
example : runF 1 (.many false .any) [0, 1] 0 = .hang ∧ runF 2 (.many false .any) [0, 1] 0 = .ok (Val.ofList [.sym 0, .sym 1]) 2 ∧
    runF 7 (.many false .any) [0, 1] 0 = run (.many false .any) [0, 1] 0 := by decide

example : ¬ Stalls [0, 1] (.many false .any) 0 := fun h => by
  have := (hang_iff_stalls [0, 1] (.many false .any) 0 (by decide)).2 h
  revert this; decide

end RbThm.C20
