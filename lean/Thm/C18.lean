import RbModel.Files
/-!
C18 — files read back what was written; handles follow the open/close protocol.
Theorems over `RbModel.Files` (see that file for what is ported and what is assumed).
-/
namespace RbThm.C18
open RbModel.Files

/-! ## Byte level: `writeAt`, records -/

theorem writeAt_length (data bs : List Nat) (off : Nat) (h : bs ≠ []) :
    (writeAt data off bs).length = max data.length (off + bs.length) := by
  unfold writeAt
  have : bs.isEmpty = false := by cases bs <;> simp_all
  simp [this]
  omega

/-- Pointwise description of a write: the written window holds the new bytes, everything else is as before
(bytes past the old end read as zero). -/
theorem writeAt_getD (data bs : List Nat) (off i : Nat) :
    (writeAt data off bs).getD i 0 =
      if off ≤ i ∧ i < off + bs.length then bs.getD (i - off) 0 else data.getD i 0 := by
  unfold writeAt
  cases hb : bs.isEmpty
  · simp only [Bool.false_eq_true, ↓reduceIte]
    simp only [List.getD_eq_getElem?_getD]
    by_cases h1 : i < off
    · have : ¬ (off ≤ i ∧ i < off + bs.length) := by omega
      simp only [this, ↓reduceIte]
      rw [List.append_assoc, List.getElem?_append_left (by simp; omega)]
      rw [List.getElem?_take_of_lt h1]
      by_cases h2 : i < data.length
      · rw [List.getElem?_append_left h2]
      · rw [List.getElem?_append_right (by omega)]
        simp only [List.getElem?_replicate]
        rw [List.getElem?_eq_none (by omega)]
        split <;> simp
    · by_cases h2 : i < off + bs.length
      · have : (off ≤ i ∧ i < off + bs.length) := by omega
        simp only [this, and_self, ↓reduceIte]
        rw [List.append_assoc, List.getElem?_append_right (by simp; omega)]
        have hl : (List.take off (data ++ List.replicate (off - data.length) 0)).length = off := by
          simp; omega
        rw [hl, List.getElem?_append_left (by omega)]
      · have : ¬ (off ≤ i ∧ i < off + bs.length) := by omega
        simp only [this, ↓reduceIte]
        have hl : (List.take off (data ++ List.replicate (off - data.length) 0) ++ bs).length = off + bs.length := by
          simp; omega
        rw [List.getElem?_append_right (by omega), hl, List.getElem?_drop]
        have : off + bs.length + (i - (off + bs.length)) = i := by omega
        rw [this]
        by_cases h3 : i < data.length
        · rw [List.getElem?_append_left h3]
        · rw [List.getElem?_append_right (by omega)]
          simp only [List.getElem?_replicate]
          rw [List.getElem?_eq_none (by omega)]
          split <;> simp
  · have : bs = [] := by cases bs <;> simp_all
    subst this
    simp
    omega

theorem getRecord_length (data : List Nat) (L n : Nat) : (getRecord data L n).length = L := by
  unfold getRecord
  simp
  omega

/-- Pointwise description of a record read: byte `j` of record `n` is byte `(n-1)*L + j` of the file, zero
past the end. -/
theorem getRecord_getD (data : List Nat) (L n j : Nat) :
    (getRecord data L n).getD j 0 = if j < L then data.getD ((n - 1) * L + j) 0 else 0 := by
  unfold getRecord
  simp only [List.getD_eq_getElem?_getD]
  by_cases h1 : j < ((data.drop ((n - 1) * L)).take L).length
  · rw [List.getElem?_append_left h1]
    have h2 : j < L := by simp at h1; omega
    simp only [h2, ↓reduceIte]
    rw [List.getElem?_take_of_lt h2, List.getElem?_drop]
  · rw [List.getElem?_append_right (by omega)]
    simp only [List.getElem?_replicate]
    by_cases h2 : j < L
    · simp only [h2, ↓reduceIte]
      have : data[(n - 1) * L + j]? = none := by
        apply List.getElem?_eq_none
        simp at h1
        omega
      rw [this]
      split <;> simp
    · simp only [h2, ↓reduceIte]
      split <;> simp

theorem ext_getD {a b : List Nat} (hl : a.length = b.length) (h : ∀ i, a.getD i 0 = b.getD i 0) : a = b := by
  apply List.ext_getElem hl
  intro i h1 h2
  have := h i
  simp only [List.getD_eq_getElem?_getD, List.getElem?_eq_getElem h1, List.getElem?_eq_getElem h2,
    Option.getD_some] at this
  exact this

/-- **put_get_same_record**, byte level: what PUT wrote to record `n` is what GET of record `n` starts with
(all of it when the record is full length). -/
theorem get_put_same (data bytes : List Nat) (L n j : Nat) (hb : bytes.length ≤ L) (hj : j < bytes.length) :
    (getRecord (putRecord data L n bytes) L n).getD j 0 = bytes.getD j 0 := by
  rw [getRecord_getD]
  unfold putRecord
  rw [writeAt_getD]
  have h1 : j < L := by omega
  have h2 : (n - 1) * L ≤ (n - 1) * L + j ∧ (n - 1) * L + j < (n - 1) * L + bytes.length := by omega
  simp only [h1, ↓reduceIte, h2, and_self]
  congr 1
  omega

theorem get_put_same_take (data bytes : List Nat) (L n : Nat) (hb : bytes.length ≤ L) :
    (getRecord (putRecord data L n bytes) L n).take bytes.length = bytes := by
  apply ext_getD
  · simp [getRecord_length]; omega
  · intro i
    by_cases hi : i < bytes.length
    · rw [← get_put_same data bytes L n i hb hi]
      simp only [List.getD_eq_getElem?_getD]
      rw [List.getElem?_take_of_lt hi]
    · simp only [List.getD_eq_getElem?_getD]
      rw [List.getElem?_eq_none (by simp; omega), List.getElem?_eq_none (by omega)]

/-- Frame lemma on the byte offsets `(n-1)*L`: a PUT to another record number leaves record `n` alone. -/
theorem get_put_other (data bytes : List Nat) (L m n : Nat) (hm : 1 ≤ m) (hn : 1 ≤ n) (hne : m ≠ n)
    (hb : bytes.length ≤ L) :
    getRecord (putRecord data L m bytes) L n = getRecord data L n := by
  apply ext_getD
  · simp [getRecord_length]
  · intro j
    rw [getRecord_getD, getRecord_getD]
    by_cases hj : j < L
    · simp only [hj, ↓reduceIte]
      unfold putRecord
      rw [writeAt_getD]
      have hout : ¬ ((m - 1) * L ≤ (n - 1) * L + j ∧ (n - 1) * L + j < (m - 1) * L + bytes.length) := by
        rcases Nat.lt_or_gt_of_ne hne with hlt | hgt
        · have h1 : (m - 1 + 1) * L ≤ (n - 1) * L := Nat.mul_le_mul_right L (by omega)
          rw [Nat.succ_mul] at h1
          omega
        · have h1 : (n - 1 + 1) * L ≤ (m - 1) * L := Nat.mul_le_mul_right L (by omega)
          rw [Nat.succ_mul] at h1
          omega
      simp only [hout, ↓reduceIte]
    · simp only [hj, ↓reduceIte]

/-- A sequence of PUTs `(record number, bytes)`. -/
def putMany (data : List Nat) (L : Nat) : List (Nat × List Nat) → List Nat
  | [] => data
  | (m, b) :: rest => putMany (putRecord data L m b) L rest

/-- **put_get_same_record** for any interleaving of PUTs to other record numbers. -/
theorem get_putMany_other (L n : Nat) (hn : 1 ≤ n) (ws : List (Nat × List Nat))
    (hws : ∀ w ∈ ws, 1 ≤ w.1 ∧ w.1 ≠ n ∧ w.2.length ≤ L) (data : List Nat) :
    getRecord (putMany data L ws) L n = getRecord data L n := by
  induction ws generalizing data with
  | nil => rfl
  | cons w rest ih =>
    obtain ⟨m, b⟩ := w
    have hw := hws (m, b) (by simp)
    simp only [putMany]
    rw [ih (fun w hw' => hws w (by simp [hw'])), get_put_other data b L m n hw.1 hn hw.2.1 hw.2.2]

theorem put_get_same_record_bytes (L n : Nat) (hn : 1 ≤ n) (bytes : List Nat) (hb : bytes.length ≤ L)
    (ws : List (Nat × List Nat)) (hws : ∀ w ∈ ws, 1 ≤ w.1 ∧ w.1 ≠ n ∧ w.2.length ≤ L) (data : List Nat) :
    (getRecord (putMany (putRecord data L n bytes) L ws) L n).take bytes.length = bytes := by
  rw [get_putMany_other L n hn ws hws, get_put_same_take data bytes L n hb]

example : (getRecord (putMany (putRecord [1, 2, 3] 4 2 [7, 8, 9]) 4 [(1, [5, 5, 5, 5]), (3, [6])]) 4 2) = [7, 8, 9, 0] := by
  decide

/-! ## `ReadInputSource`: splitting -/

def NoCrLf (l : List Nat) : Prop := ∀ c ∈ l, isCrLf c = false
def NoFieldEnd (l : List Nat) : Prop := ∀ c ∈ l, isFieldEnd c = false

/-- Text as PRINT # writes it: every line followed by CR LF. -/
def encodeLines (lines : List (List Nat)) : List Nat := (lines.map (· ++ [13, 10])).flatten

theorem readUntil_crlf (l rest : List Nat) (h : NoCrLf l) :
    readUntil isCrLf (l ++ 13 :: 10 :: rest) = (l, rest, l.length + 2) := by
  induction l with
  | nil => simp [readUntil, isCrLf]
  | cons c cs ih =>
    have hc : isCrLf c = false := h c (by simp)
    have := ih (fun d hd => h d (by simp [hd]))
    simp [readUntil, hc, this]

/-- LINE INPUT returns the first line and leaves exactly what follows its CR LF. -/
theorem scanLine_crlf (l rest : List Nat) (h : NoCrLf l) :
    scanLine (l ++ 13 :: 10 :: rest) = { val := .ok l, rest := rest, looked := l.length + 2 } := by
  unfold scanLine
  have : (l ++ 13 :: 10 :: rest).isEmpty = false := by cases l <;> simp
  simp [this, readUntil_crlf l rest h]

theorem scanLine_encode (l : List Nat) (ls : List (List Nat)) (h : NoCrLf l) :
    scanLine (encodeLines (l :: ls)) = { val := .ok l, rest := encodeLines ls, looked := l.length + 2 } := by
  have : encodeLines (l :: ls) = l ++ 13 :: 10 :: encodeLines ls := by simp [encodeLines]
  rw [this, scanLine_crlf l _ h]

theorem readUntil_field_comma (f rest : List Nat) (h : NoFieldEnd f) :
    readUntil isFieldEnd (f ++ 44 :: rest) = (f, rest, f.length + 1) := by
  induction f with
  | nil => simp [readUntil, isFieldEnd]
  | cons c cs ih =>
    have hc : isFieldEnd c = false := h c (by simp)
    have := ih (fun d hd => h d (by simp [hd]))
    simp [readUntil, hc, this]

theorem readUntil_field_crlf (f rest : List Nat) (h : NoFieldEnd f) :
    readUntil isFieldEnd (f ++ 13 :: 10 :: rest) = (f, rest, f.length + 2) := by
  induction f with
  | nil => simp [readUntil, isFieldEnd]
  | cons c cs ih =>
    have hc : isFieldEnd c = false := h c (by simp)
    have := ih (fun d hd => h d (by simp [hd]))
    simp [readUntil, hc, this]

theorem length_dropWhile_le (p : Nat → Bool) (l : List Nat) : (l.dropWhile p).length ≤ l.length := by
  induction l with
  | nil => simp
  | cons c cs ih =>
    simp only [List.dropWhile]
    split
    · simp; omega
    · simp

/-- A blank-trimmed field does not start with white space. -/
theorem trim_head (c : Nat) (cs : List Nat) (h : trim (c :: cs) = c :: cs) : isWs c = false := by
  cases hw : isWs c
  · rfl
  · exfalso
    have h1 : (trim (c :: cs)).length ≤ cs.length := by
      unfold trim
      simp only [List.length_reverse]
      calc ((List.dropWhile isWs (c :: cs)).reverse.dropWhile isWs).length
          ≤ (List.dropWhile isWs (c :: cs)).reverse.length := length_dropWhile_le _ _
        _ = (List.dropWhile isWs cs).length := by simp [List.dropWhile, hw]
        _ ≤ cs.length := length_dropWhile_le _ _
    rw [h] at h1
    simp at h1
    omega

theorem skipWhile_nonblank (s : List Nat) (h : s.head? ≠ some 32) : skipWhile (· == 32) s = (s, 1) := by
  cases s with
  | nil => rfl
  | cons c cs =>
    have : c ≠ 32 := by simpa using h
    simp [skipWhile, this]

theorem isWs_32 : isWs 32 = true := by decide

/-- INPUT returns a comma-free, blank-trimmed field that is followed by a comma, and leaves what follows. -/
theorem scanField_comma (f rest : List Nat) (h : NoFieldEnd f) (ht : trim f = f) :
    scanField (f ++ 44 :: rest) = { val := .ok f, rest := rest, looked := f.length + 1 } := by
  unfold scanField
  have h0 : (f ++ 44 :: rest).isEmpty = false := by cases f <;> simp
  have h1 : (f ++ 44 :: rest).head? ≠ some 32 := by
    cases f with
    | nil => simp
    | cons c cs =>
      have := trim_head c cs ht
      intro hc
      simp at hc
      rw [hc, isWs_32] at this
      contradiction
  simp [h0, skipWhile_nonblank _ h1, readUntil_field_comma f rest h, ht]

/-- ... or by CR LF. -/
theorem scanField_crlf (f rest : List Nat) (h : NoFieldEnd f) (ht : trim f = f) :
    scanField (f ++ 13 :: 10 :: rest) = { val := .ok f, rest := rest, looked := f.length + 2 } := by
  unfold scanField
  have h0 : (f ++ 13 :: 10 :: rest).isEmpty = false := by cases f <;> simp
  have h1 : (f ++ 13 :: 10 :: rest).head? ≠ some 32 := by
    cases f with
    | nil => simp
    | cons c cs =>
      have := trim_head c cs ht
      intro hc
      simp at hc
      rw [hc, isWs_32] at this
      contradiction
  simp [h0, skipWhile_nonblank _ h1, readUntil_field_crlf f rest h, ht]

theorem scanField_encode (f : List Nat) (ls : List (List Nat)) (h : NoFieldEnd f) (ht : trim f = f) :
    scanField (encodeLines (f :: ls)) = { val := .ok f, rest := encodeLines ls, looked := f.length + 2 } := by
  have : encodeLines (f :: ls) = f ++ 13 :: 10 :: encodeLines ls := by simp [encodeLines]
  rw [this, scanField_crlf f _ h ht]

/-- **eof_exact**, stream level: EOF is true exactly when nothing is left, and only then do INPUT and
LINE INPUT fail, with "Input past end of file". -/
theorem scanEof_exact (s : List Nat) : (scanEof s).val = .ok (if s = [] then [1] else []) ∧ (scanEof s).rest = s := by
  cases s <;> simp [scanEof]

theorem scanLine_past_end_iff (s : List Nat) : (scanLine s).val = .error .unexpectedEof ↔ s = [] := by
  cases s <;> simp [scanLine]

theorem scanField_past_end_iff (s : List Nat) : (scanField s).val = .error .unexpectedEof ↔ s = [] := by
  cases s <;> simp [scanField]

example : (scanField ([97, 32, 98] ++ 44 :: [32, 99, 13, 10])).val = .ok [97, 32, 98] ∧
    (scanField ([97, 32, 98] ++ 44 :: [32, 99, 13, 10])).rest = [32, 99, 13, 10] :=
  (fun h => ⟨congrArg Scan.val h, congrArg Scan.rest h⟩)
    (scanField_comma [97, 32, 98] [32, 99, 13, 10] (by unfold NoFieldEnd; decide) (by decide))

/-! ## Finite maps -/

theorem alGet_alSet_same {β : Type} (l : List (Nat × β)) (k : Nat) (v : β) : alGet (alSet l k v) k = some v := by
  induction l with
  | nil => simp [alSet, alGet]
  | cons p rest ih =>
    obtain ⟨k', w⟩ := p
    simp only [alSet]
    split
    · simp [alGet]
    · simp [alGet, *]

theorem alGet_alSet_ne {β : Type} (l : List (Nat × β)) (k k' : Nat) (v : β) (h : k' ≠ k) :
    alGet (alSet l k v) k' = alGet l k' := by
  induction l with
  | nil => simp [alSet, alGet]; omega
  | cons p rest ih =>
    obtain ⟨k'', w⟩ := p
    simp only [alSet]
    split
    · rename_i heq
      have h1 : ¬ (k = k') := fun h2 => h h2.symm
      have h3 : ¬ (k'' = k') := fun h2 => h (h2 ▸ heq)
      simp [alGet, h1, h3]
    · simp [alGet, ih]

theorem alGet_alDel_same {β : Type} (l : List (Nat × β)) (k : Nat) : alGet (alDel l k) k = none := by
  induction l with
  | nil => simp [alDel, alGet]
  | cons p rest ih =>
    obtain ⟨k', w⟩ := p
    simp only [alDel]
    split
    · exact ih
    · simp [alGet, *]

theorem alGet_alDel_ne {β : Type} (l : List (Nat × β)) (k k' : Nat) (h : k' ≠ k) :
    alGet (alDel l k) k' = alGet l k' := by
  induction l with
  | nil => simp [alDel, alGet]
  | cons p rest ih =>
    obtain ⟨k'', w⟩ := p
    simp only [alDel]
    split
    · rename_i heq
      rw [ih]
      have : ¬ (k'' = k') := by
        intro h2
        exact h (h2 ▸ heq)
      simp [alGet, this]
    · simp [alGet, ih]

theorem run_append (s : State) (a b : List Op) :
    run s (a ++ b) = ((run (run s a).1 b).1, (run s a).2 ++ (run (run s a).1 b).2) := by
  induction a generalizing s with
  | nil => simp [run]
  | cons op ops ih => simp [run, ih]

/-! ## Reading: a handle open FOR INPUT on a file nobody writes to behaves as the pure stream -/

/-- Handle `h` is open FOR INPUT on inode `i` and what it has left to deliver is `st`: either it has
buffered the file to its end, or it is freshly opened. -/
def ReaderAt (s : State) (h i : Nat) (st : List Nat) : Prop :=
  ∃ fi r, alGet s.handles h = some fi ∧ fi.kind = .input r ∧ r.src = some i ∧
    ((r.pos = (s.fs.data i).length ∧ r.buf = st) ∨ (r.pos = 0 ∧ r.buf = [] ∧ st = s.fs.data i))

theorem Reader.scan_at (sc : List Nat → Scan) (hsc : 1 ≤ (sc []).looked) (r : Reader) (file st : List Nat)
    (hcase : (r.pos = file.length ∧ r.buf = st) ∨ (r.pos = 0 ∧ r.buf = [] ∧ st = file)) :
    (r.scan sc file).1 = (sc st).val ∧
      (r.scan sc file).2 = { src := r.src, buf := (sc st).rest, pos := file.length } := by
  obtain ⟨src, pos, buf⟩ := r
  rcases hcase with ⟨h1, h2⟩ | ⟨h1, h2, h3⟩
  · simp only at h1 h2
    subst h1 h2
    unfold Reader.scan
    simp only
    split
    · simp
    · simp
  · simp only at h1 h2
    subst h1 h2 h3
    unfold Reader.scan
    simp only
    split
    · rename_i hle
      simp at hle
      omega
    · simp

theorem doScan_at (sc : List Nat → Scan) (hsc : 1 ≤ (sc []).looked) (s : State) (h i : Nat) (st : List Nat)
    (hr : ReaderAt s h i st) :
    (doScan s h sc).2 = (match (sc st).val with
        | .ok v => .ok v
        | .error e => .error (Err.ofIo e)) ∧
      ReaderAt (doScan s h sc).1 h i (sc st).rest ∧ (doScan s h sc).1.fs = s.fs ∧
      (doScan s h sc).1.stdin = s.stdin := by
  obtain ⟨fi, r, hg, hk, hsrc, hcase⟩ := hr
  have hs := Reader.scan_at sc hsc r (s.fs.data i) st hcase
  unfold doScan getReader getInfo
  simp only [hg, hk, hsrc]
  refine ⟨by rw [hs.1]; cases (sc st).val <;> rfl, ?_, rfl, rfl⟩
  refine ⟨{ fi with kind := .input (r.scan sc (s.fs.data i)).2 }, (r.scan sc (s.fs.data i)).2, ?_, rfl, ?_, ?_⟩
  · simp [setInfo, alGet_alSet_same]
  · rw [hs.2]; exact hsrc
  · left
    rw [hs.2]
    simp [setInfo]

theorem ReaderAt_setVar (s : State) (h i v : Nat) (st b : List Nat) (hr : ReaderAt s h i st) :
    ReaderAt (s.setVar v b) h i st := hr

/-- What INPUT # / LINE INPUT # show for the scan result. -/
def readOut : Except IoErr (List Nat) → Out
  | .ok b => .val b
  | .error e => .err (Err.ofIo e)

theorem doRead_at (sc : List Nat → Scan) (hsc : 1 ≤ (sc []).looked) (s : State) (h i v : Nat) (st : List Nat)
    (hv : validHandle h = true) (hr : ReaderAt s h i st) :
    (doRead s h sc v).2 = readOut (sc st).val ∧
      ReaderAt (doRead s h sc v).1 h i (sc st).rest ∧ (doRead s h sc v).1.fs = s.fs ∧
      (doRead s h sc v).1.stdin = s.stdin := by
  have hd := doScan_at sc hsc s h i st hr
  unfold doRead
  simp only [hv, Bool.not_true, Bool.false_eq_true, ↓reduceIte]
  generalize hx : doScan s h sc = x at hd
  obtain ⟨s', res⟩ := x
  simp only at hd
  cases hval : (sc st).val with
  | ok b =>
    rw [hval] at hd
    simp only at hd
    obtain ⟨h1, h2, h3, h4⟩ := hd
    subst h1
    exact ⟨rfl, ReaderAt_setVar s' h i v _ b h2, h3, h4⟩
  | error e =>
    rw [hval] at hd
    simp only at hd
    obtain ⟨h1, h2, h3, h4⟩ := hd
    subst h1
    exact ⟨rfl, h2, h3, h4⟩

theorem doEof_at (s : State) (h i : Nat) (st : List Nat) (hv : validHandle h = true) (hr : ReaderAt s h i st) :
    (doEof s h).2 = .flag (st.isEmpty) ∧ ReaderAt (doEof s h).1 h i st ∧ (doEof s h).1.fs = s.fs ∧
      (doEof s h).1.stdin = s.stdin := by
  have hd := doScan_at scanEof (by simp [scanEof]) s h i st hr
  unfold doEof
  simp only [hv, Bool.not_true, Bool.false_eq_true, ↓reduceIte]
  generalize hx : doScan s h scanEof = x at hd
  obtain ⟨s', res⟩ := x
  simp only [scanEof] at hd
  obtain ⟨h1, h2, h3, h4⟩ := hd
  subst h1
  refine ⟨?_, h2, h3, h4⟩
  cases st <;> simp

theorem scanLine_looked : 1 ≤ (scanLine []).looked := by simp [scanLine]
theorem scanField_looked : 1 ≤ (scanField []).looked := by simp [scanField]

theorem open_input_at (s : State) (h k i l : Nat) (hv : validHandle h = true) (hc : alGet s.handles h = none)
    (hd : alGet s.fs.dir k = some (.file i)) :
    (step s (.open h (.plain k) .input l)).2 = .ok ∧
      ReaderAt (step s (.open h (.plain k) .input l)).1 h i (s.fs.data i) ∧
      (step s (.open h (.plain k) .input l)).1.fs = s.fs ∧
      (step s (.open h (.plain k) .input l)).1.stdin = s.stdin := by
  have e : step s (.open h (.plain k) .input l)
      = (setInfo s h (FileInfo.new (.input { src := some i, pos := 0, buf := [] })), .ok) := by
    simp [step, doOpen, hv, hc, Fs.openRead, Fs.resolve, hd]
  rw [e]
  refine ⟨rfl, ?_, rfl, rfl⟩
  exact ⟨FileInfo.new (.input { src := some i, pos := 0, buf := [] }), { src := some i, pos := 0, buf := [] },
    by simp [setInfo, alGet_alSet_same], rfl, rfl, Or.inr ⟨rfl, rfl, rfl⟩⟩

/-- Reading back a file that holds `ls` (each followed by CR LF) with a scanner that returns such an item
whole: EOF is false before every item, every read returns the next item, and the handle ends with nothing
left. -/
theorem run_reads (sc : List Nat → Scan) (hsc : 1 ≤ (sc []).looked) (h i v : Nat) (op : Op)
    (hop : ∀ s, step s op = doRead s h sc v) (good : List Nat → Prop)
    (hgood : ∀ l rest, good l → (sc (encodeLines (l :: rest))).val = .ok l ∧
      (sc (encodeLines (l :: rest))).rest = encodeLines rest)
    (hv : validHandle h = true) (ls : List (List Nat)) (hls : ∀ l ∈ ls, good l) (s : State)
    (hr : ReaderAt s h i (encodeLines ls)) :
    (run s (ls.flatMap fun _ => [.eof h, op])).2 = (ls.flatMap fun l => [.flag false, .val l]) ∧
      ReaderAt (run s (ls.flatMap fun _ => [.eof h, op])).1 h i [] := by
  induction ls generalizing s with
  | nil => exact ⟨rfl, hr⟩
  | cons l rest ih =>
    have he := doEof_at s h i _ hv hr
    have hne : (encodeLines (l :: rest)).isEmpty = false := by
      cases l <;> simp [encodeLines]
    have hd := doRead_at sc hsc (doEof s h).1 h i v _ hv he.2.1
    have hg := hgood l rest (hls l (by simp))
    rw [hg.1, hg.2] at hd
    have := ih (fun l' hl' => hls l' (by simp [hl'])) (doRead (doEof s h).1 h sc v).1 hd.2.1
    have e1 : ∀ s, step s (.eof h) = doEof s h := fun _ => rfl
    simp only [List.flatMap_cons, List.cons_append, List.nil_append, run, e1, hop]
    refine ⟨?_, this.2⟩
    rw [this.1, he.1, hd.1, hne]
    rfl

/-- **write_close_read_lines** (read half), **eof_exact**, and "reading past the end = 62": a closed file that
holds the lines `ls`, each followed by CR LF (what PRINT # writes), opened FOR INPUT on any free handle:
EOF(h) is false before each line, LINE INPUT # returns the lines one by one, then EOF(h) is true and one
more LINE INPUT # raises Input past end of file, after which EOF(h) is still true. -/
theorem read_back_lines (s : State) (h k i v : Nat) (ls : List (List Nat))
    (hv : validHandle h = true) (hc : alGet s.handles h = none)
    (hd : alGet s.fs.dir k = some (.file i)) (hdata : s.fs.data i = encodeLines ls)
    (hls : ∀ l ∈ ls, NoCrLf l) :
    (run s ([.open h (.plain k) .input 0] ++ (ls.flatMap fun _ => [.eof h, .lineInput h v])
        ++ [.eof h, .lineInput h v, .eof h])).2
      = [.ok] ++ (ls.flatMap fun l => [.flag false, .val l]) ++ [.flag true, .err .inputPastEnd, .flag true] := by
  have ho := open_input_at s h k i 0 hv hc hd
  rw [hdata] at ho
  have hr := run_reads scanLine scanLine_looked h i v (.lineInput h v) (fun _ => rfl) NoCrLf
    (fun l rest hl => by rw [scanLine_encode l rest hl]; exact ⟨rfl, rfl⟩) hv ls hls _ ho.2.1
  rw [run_append, run_append]
  simp only [run, List.append_assoc]
  generalize (run (step s (.open h (.plain k) .input 0)).1 (ls.flatMap fun _ => [Op.eof h, Op.lineInput h v])) = q at hr
  obtain ⟨s2, outs⟩ := q
  simp only at hr
  have he := doEof_at s2 h i [] hv hr.2
  have hd2 := doRead_at scanLine scanLine_looked (doEof s2 h).1 h i v [] hv he.2.1
  have he2 := doEof_at (doRead (doEof s2 h).1 h scanLine v).1 h i [] hv hd2.2.1
  have ho1 : (doOpen s h (.plain k) .input 0).2 = .ok := ho.1
  simp only [step, hr.1, he.1, hd2.1, he2.1, ho1]
  simp [readOut, scanLine, Err.ofIo]

/-- The same for INPUT # and comma-free, blank-trimmed fields written one per PRINT #. -/
theorem read_back_fields (s : State) (h k i v : Nat) (fs : List (List Nat))
    (hv : validHandle h = true) (hc : alGet s.handles h = none)
    (hd : alGet s.fs.dir k = some (.file i)) (hdata : s.fs.data i = encodeLines fs)
    (hfs : ∀ f ∈ fs, NoFieldEnd f ∧ trim f = f) :
    (run s ([.open h (.plain k) .input 0] ++ (fs.flatMap fun _ => [.eof h, .input h v])
        ++ [.eof h, .input h v, .eof h])).2
      = [.ok] ++ (fs.flatMap fun f => [.flag false, .val f]) ++ [.flag true, .err .inputPastEnd, .flag true] := by
  have ho := open_input_at s h k i 0 hv hc hd
  rw [hdata] at ho
  have hr := run_reads scanField scanField_looked h i v (.input h v) (fun _ => rfl)
    (fun f => NoFieldEnd f ∧ trim f = f)
    (fun f rest hf => by rw [scanField_encode f rest hf.1 hf.2]; exact ⟨rfl, rfl⟩) hv fs hfs _ ho.2.1
  rw [run_append, run_append]
  simp only [run, List.append_assoc]
  generalize (run (step s (.open h (.plain k) .input 0)).1 (fs.flatMap fun _ => [Op.eof h, Op.input h v])) = q at hr
  obtain ⟨s2, outs⟩ := q
  simp only at hr
  have he := doEof_at s2 h i [] hv hr.2
  have hd2 := doRead_at scanField scanField_looked (doEof s2 h).1 h i v [] hv he.2.1
  have he2 := doEof_at (doRead (doEof s2 h).1 h scanField v).1 h i [] hv hd2.2.1
  have ho1 : (doOpen s h (.plain k) .input 0).2 = .ok := ho.1
  simp only [step, hr.1, he.1, hd2.1, he2.1, ho1]
  simp [readOut, scanField, Err.ofIo]

theorem doConRead_out (sc : List Nat → Scan) (con : State) (v : Nat) :
    (doConRead con sc v).2 = readOut (sc con.stdin).val ∧ (doConRead con sc v).1.stdin = (sc con.stdin).rest := by
  unfold doConRead
  generalize sc con.stdin = x
  obtain ⟨val, rest, looked⟩ := x
  cases val <;> exact ⟨rfl, rfl⟩

/-- **console_same_splitting**: console INPUT / LINE INPUT on the bytes `con.stdin` and INPUT # / LINE INPUT #
on a handle that has the same bytes left (e.g. freshly opened on a file with those bytes) show the same
values and errors, for every sequence of reads (`true` = LINE INPUT). -/
theorem console_same_splitting (h i v : Nat) (hv : validHandle h = true) (reads : List Bool) (s con : State)
    (hr : ReaderAt s h i con.stdin) :
    (run s (reads.map fun b => if b then Op.lineInput h v else Op.input h v)).2
      = (run con (reads.map fun b => if b then Op.conLineInput v else Op.conInput v)).2 := by
  induction reads generalizing s con with
  | nil => rfl
  | cons b rest ih =>
    cases b with
    | true =>
      have hd := doRead_at scanLine scanLine_looked s h i v _ hv hr
      simp only [List.map_cons, ↓reduceIte, run, step]
      have hc := doConRead_out scanLine con v
      rw [hd.1, hc.1, ih _ _ (hc.2 ▸ hd.2.1)]
    | false =>
      have hd := doRead_at scanField scanField_looked s h i v _ hv hr
      simp only [List.map_cons, Bool.false_eq_true, ↓reduceIte, run, step]
      have hc := doConRead_out scanField con v
      rw [hd.1, hc.1, ih _ _ (hc.2 ▸ hd.2.1)]

/-! ## protocol_errors: misuse is reported with a mapped code, the state is untouched -/

/-- OPEN on a handle in use = File already open (55), whatever the name and mode. -/
theorem open_on_open_handle (s : State) (h l : Nat) (n : Name) (m : Mode) (fi : FileInfo)
    (hv : validHandle h = true) (ho : alGet s.handles h = some fi) :
    step s (.open h n m l) = (s, .err .fileAlreadyOpen) ∧ Err.fileAlreadyOpen.code = 55 := by
  simp [step, doOpen, hv, ho, Err.code]

/-- OPEN FOR INPUT of a name that does not exist (or below a directory that does not exist) = File not
found (53). -/
theorem open_missing_input (s : State) (h l : Nat) (n : Name) (hv : validHandle h = true)
    (hc : alGet s.handles h = none)
    (hn : match n with
      | .plain k => alGet s.fs.dir k = none
      | .orphan _ => True) :
    step s (.open h n .input l) = (s, .err .fileNotFound) ∧ Err.fileNotFound.code = 53 := by
  cases n with
  | plain k => simp only at hn; simp [step, doOpen, hv, hc, Fs.openRead, Fs.resolve, hn, Err.ofIo, Err.code]
  | orphan k => simp [step, doOpen, hv, hc, Fs.openRead, Fs.resolve, Err.ofIo, Err.code]

/-- Every operation on a handle that is not open = File not found (53) — the code the real code maps its
`FileNotFound` to — and nothing changes. -/
theorem closed_handle_errors (s : State) (h : Nat) (hv : validHandle h = true) (hc : alGet s.handles h = none) :
    (∀ items nl, step s (.print h items nl) = (s, .err .fileNotFound)) ∧
    (∀ v, step s (.input h v) = (s, .err .fileNotFound)) ∧
    (∀ v, step s (.lineInput h v) = (s, .err .fileNotFound)) ∧
    step s (.eof h) = (s, .err .fileNotFound) ∧
    (∀ n, 1 ≤ n → step s (.put h n) = (s, .err .fileNotFound)) ∧
    (∀ n, 1 ≤ n → step s (.get h n) = (s, .err .fileNotFound)) ∧
    (∀ fields, fields.any (·.1 == 0) = false → step s (.field h fields) = (s, .err .fileNotFound)) := by
  refine ⟨?_, ?_, ?_, ?_, ?_, ?_, ?_⟩
  · intro items nl; simp [step, doPrint, getWriter, getInfo, hv, hc]
  · intro v; simp [step, doRead, doScan, getReader, getInfo, hv, hc]
  · intro v; simp [step, doRead, doScan, getReader, getInfo, hv, hc]
  · simp [step, doEof, doScan, getReader, getInfo, hv, hc]
  · intro n hn
    have : ¬ n = 0 := by omega
    simp [step, doPut, getInfo, hv, hc, this]
  · intro n hn
    have : ¬ n = 0 := by omega
    simp [step, doGet, getInfo, hv, hc, this]
  · intro fields hf
    have hf' : ∀ x ∈ fields, ¬ x.1 = 0 := by simpa using hf
    simp [step, doField, getInfo, hv, hc]
    intro a b
    exact absurd rfl (hf' (0, a) b)

/-- A handle open in the wrong mode = Bad file mode (54): PRINT # on a handle not open for writing, INPUT # /
LINE INPUT # / EOF on a handle not open FOR INPUT, PUT / GET on a handle not open FOR RANDOM. -/
theorem wrong_mode_errors (s : State) (h : Nat) (fi : FileInfo) (hv : validHandle h = true)
    (ho : alGet s.handles h = some fi) :
    ((∀ w, fi.kind ≠ .output w) → ∀ items nl, step s (.print h items nl) = (s, .err .badFileMode)) ∧
    ((∀ r, fi.kind ≠ .input r) →
      (∀ v, step s (.input h v) = (s, .err .badFileMode)) ∧
      (∀ v, step s (.lineInput h v) = (s, .err .badFileMode)) ∧
      step s (.eof h) = (s, .err .badFileMode)) ∧
    ((∀ i l, fi.kind ≠ .random i l) → ∀ n, 1 ≤ n →
      step s (.put h n) = (s, .err .badFileMode) ∧ step s (.get h n) = (s, .err .badFileMode)) ∧
    Err.badFileMode.code = 54 := by
  refine ⟨?_, ?_, ?_, rfl⟩
  · intro hk items nl
    cases hkind : fi.kind with
    | output w => exact absurd hkind (hk w)
    | input r => simp [step, doPrint, getWriter, getInfo, hv, ho, hkind]
    | random i l => simp [step, doPrint, getWriter, getInfo, hv, ho, hkind]
  · intro hk
    cases hkind : fi.kind with
    | input r => exact absurd hkind (hk r)
    | output w => simp [step, doRead, doEof, doScan, getReader, getInfo, hv, ho, hkind]
    | random i l => simp [step, doRead, doEof, doScan, getReader, getInfo, hv, ho, hkind]
  · intro hk n hn
    have hn0 : ¬ n = 0 := by omega
    cases hkind : fi.kind with
    | random i l => exact absurd hkind (hk i l)
    | input r =>
      refine ⟨?_, by simp [step, doGet, getInfo, ensureRandom, hv, ho, hkind, hn0]⟩
      simp only [step, doPut, getInfo, hv, ho, hn0, Bool.not_true, Bool.false_eq_true, ↓reduceIte]
      split
      · rfl
      · simp [ensureRandom, hkind]
    | output w =>
      refine ⟨?_, by simp [step, doGet, getInfo, ensureRandom, hv, ho, hkind, hn0]⟩
      simp only [step, doPut, getInfo, hv, ho, hn0, Bool.not_true, Bool.false_eq_true, ↓reduceIte]
      split
      · rfl
      · simp [ensureRandom, hkind]

/-- The codes of the protocol errors are the QBasic ones (`RuntimeError::get_code` is total). -/
theorem protocol_codes :
    Err.fileAlreadyOpen.code = 55 ∧ Err.fileNotFound.code = 53 ∧ Err.inputPastEnd.code = 62 ∧
    Err.badFileMode.code = 54 ∧ (Err.ofIo .notFound).code = 53 ∧ (Err.ofIo .unexpectedEof).code = 62 ∧
    (Err.ofIo .other).code = 57 := by decide

/-! ## close_makes_reusable -/

theorem close_one_closes (s : State) (h : Nat) (hv : validHandle h = true) :
    (step s (.close [h])).2 = .ok ∧ alGet (step s (.close [h])).1.handles h = none ∧
      (step s (.close [h])).1.fs = s.fs ∧
      ∀ h', h' ≠ h → alGet (step s (.close [h])).1.handles h' = alGet s.handles h' := by
  simp [step, doClose, hv, closeAll, alGet_alDel_same]
  intro h' hne
  exact alGet_alDel_ne _ _ _ hne

theorem close_all_closes (s : State) :
    (step s (.close [])).2 = .ok ∧ (step s (.close [])).1.handles = [] ∧ (step s (.close [])).1.fs = s.fs := by
  simp [step, doClose]

/-- OPEN on a handle that is not open never fails with File already open. -/
theorem open_free_handle (s : State) (h l : Nat) (n : Name) (m : Mode) (hc : alGet s.handles h = none) :
    (step s (.open h n m l)).2 ≠ .err .fileAlreadyOpen := by
  simp only [step, doOpen, hc, Option.isSome_none, Bool.false_eq_true, ↓reduceIte]
  split
  · simp
  · cases m <;> simp only <;> split <;> (try simp) <;> rename_i e _ <;> cases e <;> simp [Err.ofIo]

/-- **close_makes_reusable**: after CLOSE #h, or CLOSE of all, OPEN on the handle no longer reports File
already open (it succeeds exactly when the store lets the file be opened). -/
theorem close_makes_reusable (s : State) (h l : Nat) (n : Name) (m : Mode) (hv : validHandle h = true) :
    (step (step s (.close [h])).1 (.open h n m l)).2 ≠ .err .fileAlreadyOpen ∧
    (step (step s (.close [])).1 (.open h n m l)).2 ≠ .err .fileAlreadyOpen := by
  refine ⟨open_free_handle _ h l n m (close_one_closes s h hv).2.1, open_free_handle _ h l n m ?_⟩
  rw [(close_all_closes s).2.1]
  rfl

/-! ## Writing: PRINT # appends to what the handle has written -/

/-- Handle `h` is open for writing on inode `i`, in append mode or positioned at the end of the file. -/
def WriterAt (s : State) (h i : Nat) : Prop :=
  i < s.fs.inodes.length ∧ ∃ fi w, alGet s.handles h = some fi ∧ fi.kind = .output w ∧ w.ino = i ∧
    (w.append = true ∨ (w.append = false ∧ w.pos = (s.fs.data i).length))

theorem writeAt_end (data bs : List Nat) : writeAt data data.length bs = data ++ bs := by
  unfold writeAt
  cases hb : bs.isEmpty
  · simp
  · have : bs = [] := by cases bs <;> simp_all
    simp [this]

theorem data_setData (fs : Fs) (i : Nat) (b : List Nat) (hi : i < fs.inodes.length) :
    (fs.setData i b).data i = b := by
  simp [Fs.data, Fs.setData, List.getD_eq_getElem?_getD, hi]

/-- One PRINT # through such a handle appends its bytes to the file and changes nothing else of the store. -/
theorem print_at (s : State) (h i : Nat) (items : List (List Nat)) (nl : Bool) (hv : validHandle h = true)
    (hw : WriterAt s h i) :
    (step s (.print h items nl)).2 = .ok ∧ WriterAt (step s (.print h items nl)).1 h i ∧
      (step s (.print h items nl)).1.fs.data i = s.fs.data i ++ printBytes items nl ∧
      (step s (.print h items nl)).1.fs.dir = s.fs.dir := by
  obtain ⟨hi, fi, w, hg, hk, hino, hpos⟩ := hw
  obtain ⟨ino, pos, app⟩ := w
  simp only at hino hpos
  subst hino
  have e : step s (.print h items nl) =
      (setInfo { s with fs := (s.fs.setData ino
          (Writer.write ⟨ino, pos, app⟩ (s.fs.data ino) (printBytes items nl)).1) } h
        { fi with kind := (Kind.output (Writer.write ⟨ino, pos, app⟩ (s.fs.data ino) (printBytes items nl)).2) },
        Out.ok) := by
    simp [step, hv, doPrint, getWriter, getInfo, hg, hk]
  rcases hpos with happ | ⟨happ, hp⟩
  · subst happ
    rw [e]
    simp only [Writer.write, ↓reduceIte]
    refine ⟨trivial, ⟨by simp [setInfo, Fs.setData]; exact hi,
      { fi with kind := .output ⟨ino, pos, true⟩ }, ⟨ino, pos, true⟩,
      by simp [setInfo, alGet_alSet_same], rfl, rfl, Or.inl rfl⟩, ?_, rfl⟩
    simp [setInfo, data_setData _ _ _ hi]
  · subst happ hp
    rw [e]
    simp only [Writer.write, Bool.false_eq_true, ↓reduceIte, writeAt_end]
    refine ⟨trivial, ⟨by simp [setInfo, Fs.setData]; exact hi,
      { fi with kind := .output ⟨ino, (s.fs.data ino).length + (printBytes items nl).length, false⟩ },
      ⟨ino, (s.fs.data ino).length + (printBytes items nl).length, false⟩,
      by simp [setInfo, alGet_alSet_same], rfl, rfl, Or.inr ⟨rfl, ?_⟩⟩, ?_, rfl⟩
    · simp [setInfo, data_setData _ _ _ hi]
    · simp [setInfo, data_setData _ _ _ hi]

/-- A sequence of PRINT # statements (items, newline flag) appends the concatenation of their bytes. -/
theorem prints_at (h i : Nat) (hv : validHandle h = true) (prints : List (List (List Nat) × Bool)) (s : State)
    (hw : WriterAt s h i) :
    (run s (prints.map fun p => Op.print h p.1 p.2)).2 = prints.map (fun _ => Out.ok) ∧
      WriterAt (run s (prints.map fun p => Op.print h p.1 p.2)).1 h i ∧
      (run s (prints.map fun p => Op.print h p.1 p.2)).1.fs.data i
        = s.fs.data i ++ (prints.map fun p => printBytes p.1 p.2).flatten ∧
      (run s (prints.map fun p => Op.print h p.1 p.2)).1.fs.dir = s.fs.dir := by
  induction prints generalizing s with
  | nil => exact ⟨rfl, hw, by simp [run], rfl⟩
  | cons p rest ih =>
    have h1 := print_at s h i p.1 p.2 hv hw
    have h2 := ih _ h1.2.1
    simp only [List.map_cons, run]
    refine ⟨by rw [h1.1, h2.1], h2.2.1, ?_, by rw [h2.2.2.2, h1.2.2.2]⟩
    rw [h2.2.2.1, h1.2.2.1]
    simp

/-- What the file `k` holds (nothing if there is no such file). -/
def oldContent (s : State) (k : Nat) : List Nat :=
  match alGet s.fs.dir k with
  | some (.file i) => s.fs.data i
  | _ => []

/-- OPEN FOR OUTPUT starts from an empty file, OPEN FOR APPEND from the old contents. -/
theorem open_write_at (s : State) (h k : Nat) (app : Bool) (hv : validHandle h = true)
    (hc : alGet s.handles h = none) (hnd : alGet s.fs.dir k ≠ some .dir)
    (hwf : ∀ j, alGet s.fs.dir k = some (.file j) → j < s.fs.inodes.length) :
    ∃ i, (step s (.open h (.plain k) (if app then .append else .output) 0)).2 = .ok ∧
      WriterAt (step s (.open h (.plain k) (if app then .append else .output) 0)).1 h i ∧
      alGet (step s (.open h (.plain k) (if app then .append else .output) 0)).1.fs.dir k = some (.file i) ∧
      (step s (.open h (.plain k) (if app then .append else .output) 0)).1.fs.data i
        = (if app then oldContent s k else []) := by
  cases hdir : alGet s.fs.dir k with
  | none =>
    refine ⟨s.fs.inodes.length, ?_⟩
    cases app <;>
      simp [step, doOpen, hv, hc, Fs.openCreate, Fs.resolve, hdir, WriterAt, setInfo, alGet_alSet_same,
        FileInfo.new, Fs.data, oldContent]
  | some node =>
    cases node with
    | dir => exact absurd hdir hnd
    | file j =>
      have hj := hwf j hdir
      refine ⟨j, ?_⟩
      cases app <;>
        simp [step, doOpen, hv, hc, Fs.openCreate, Fs.resolve, hdir, WriterAt, setInfo, alGet_alSet_same,
          FileInfo.new, oldContent, hj, Fs.setData, Fs.data, List.getD_eq_getElem?_getD]

/-- OPEN (OUTPUT or APPEND), any PRINT # statements, CLOSE. -/
def writeOps (h k : Nat) (app : Bool) (prints : List (List (List Nat) × Bool)) : List Op :=
  [Op.open h (.plain k) (if app then .append else .output) 0] ++ (prints.map fun p => Op.print h p.1 p.2)
    ++ [Op.close [h]]

/-- **append_keeps_prefix** (and the write half of write_close_read_lines): after OPEN FOR OUTPUT resp. APPEND
on a free handle, PRINT # statements and CLOSE, every operation succeeded, the handle is free again and the
file holds nothing resp. its earlier contents, followed by exactly the bytes of the PRINT # statements. -/
theorem write_phase (s : State) (h k : Nat) (app : Bool) (hv : validHandle h = true)
    (hc : alGet s.handles h = none) (hnd : alGet s.fs.dir k ≠ some .dir)
    (hwf : ∀ j, alGet s.fs.dir k = some (.file j) → j < s.fs.inodes.length)
    (prints : List (List (List Nat) × Bool)) :
    (run s (writeOps h k app prints)).2 = [.ok] ++ prints.map (fun _ => Out.ok) ++ [.ok] ∧
      alGet (run s (writeOps h k app prints)).1.handles h = none ∧
      ∃ i, alGet (run s (writeOps h k app prints)).1.fs.dir k = some (.file i) ∧
        (run s (writeOps h k app prints)).1.fs.data i
          = (if app then oldContent s k else []) ++ (prints.map fun p => printBytes p.1 p.2).flatten := by
  obtain ⟨i, ho1, ho2, ho3, ho4⟩ := open_write_at s h k app hv hc hnd hwf
  have hp := prints_at h i hv prints _ ho2
  have hcl := close_one_closes
    (run (step s (.open h (.plain k) (if app then .append else .output) 0)).1
      (prints.map fun p => Op.print h p.1 p.2)).1 h hv
  unfold writeOps
  rw [run_append, run_append]
  simp only [run]
  refine ⟨by rw [ho1, hp.1, hcl.1], hcl.2.1, i, ?_, ?_⟩
  · rw [hcl.2.2.1, hp.2.2.2, ho3]
  · rw [hcl.2.2.1, hp.2.2.1, ho4]

theorem append_keeps_prefix (s : State) (h k : Nat) (hv : validHandle h = true)
    (hc : alGet s.handles h = none) (hnd : alGet s.fs.dir k ≠ some .dir)
    (hwf : ∀ j, alGet s.fs.dir k = some (.file j) → j < s.fs.inodes.length)
    (prints : List (List (List Nat) × Bool)) :
    oldContent s k <+: oldContent (run s (writeOps h k true prints)).1 k := by
  obtain ⟨_, _, i, h3, h4⟩ := write_phase s h k true hv hc hnd hwf prints
  unfold oldContent at *
  rw [h3]
  simp only at h4 ⊢
  rw [h4]
  simp

theorem expandCrLf_id (l : List Nat) (h : NoCrLf l) : expandCrLf l = l := by
  induction l with
  | nil => rfl
  | cons c cs ih =>
    have hc : isCrLf c = false := h c (by simp)
    have := ih (fun d hd => h d (by simp [hd]))
    simp only [expandCrLf, List.flatMap_cons, hc] at this ⊢
    simp [this]

theorem printBytes_line (l : List Nat) (h : NoCrLf l) : printBytes [l] true = l ++ [13, 10] := by
  simp [printBytes, expandCrLf_id l h]

theorem printBytes_lines (lines : List (List Nat)) (h : ∀ l ∈ lines, NoCrLf l) :
    ((lines.map fun l => ([l], true)).map fun p => printBytes p.1 p.2).flatten = encodeLines lines := by
  rw [List.map_map]
  unfold encodeLines
  congr 1
  apply List.map_congr_left
  intro l hl
  simp [printBytes_line l (h l hl)]

/-- **write_close_read_lines**: lines without CR/LF written with PRINT #h to a file opened FOR OUTPUT, then
CLOSE, then the file opened FOR INPUT (on the same handle: it is reusable) and read with LINE INPUT #:
every operation succeeds, EOF(h) is false before each line and true after the last, the lines come back
one by one unchanged, and one more LINE INPUT # raises Input past end of file. -/
theorem write_close_read_lines (s : State) (h k v : Nat) (lines : List (List Nat)) (hv : validHandle h = true)
    (hc : alGet s.handles h = none) (hnd : alGet s.fs.dir k ≠ some .dir)
    (hwf : ∀ j, alGet s.fs.dir k = some (.file j) → j < s.fs.inodes.length)
    (hl : ∀ l ∈ lines, NoCrLf l) :
    (run s (writeOps h k false (lines.map fun l => ([l], true))
        ++ ([.open h (.plain k) .input 0] ++ (lines.flatMap fun _ => [.eof h, .lineInput h v])
        ++ [.eof h, .lineInput h v, .eof h]))).2
      = ([.ok] ++ lines.map (fun _ => Out.ok) ++ [.ok])
        ++ ([.ok] ++ (lines.flatMap fun l => [.flag false, .val l])
        ++ [.flag true, .err .inputPastEnd, .flag true]) := by
  obtain ⟨h1, h2, i, h3, h4⟩ := write_phase s h k false hv hc hnd hwf (lines.map fun l => ([l], true))
  rw [printBytes_lines lines hl] at h4
  simp only [Bool.false_eq_true, ↓reduceIte, List.nil_append] at h4
  rw [run_append]
  simp only
  rw [read_back_lines _ h k i v lines hv h2 h3 h4 hl, h1]
  simp

/-! ## The hypotheses are satisfiable -/

def emptyState : State := { fs := { inodes := [], dir := [] }, handles := [], vars := [], stdin := [] }

example :
    (run emptyState (writeOps 1 0 false ([[104, 105], [], [32, 44]].map fun l => ([l], true))
        ++ ([.open 1 (.plain 0) .input 0] ++ ([[104, 105], [], [32, 44]].flatMap fun _ => [.eof 1, .lineInput 1 7])
        ++ [.eof 1, .lineInput 1 7, .eof 1]))).2
      = ([.ok] ++ [[104, 105], [], [32, 44]].map (fun _ => Out.ok) ++ [.ok])
        ++ ([.ok] ++ ([[104, 105], [], [32, 44]].flatMap fun l => [.flag false, .val l])
        ++ [.flag true, .err .inputPastEnd, .flag true]) :=
  write_close_read_lines emptyState 1 0 7 [[104, 105], [], [32, 44]] (by decide) rfl (by simp [emptyState, alGet])
    (by simp [emptyState, alGet]) (by unfold NoCrLf; decide)

example : ReaderAt (step { emptyState with fs := { inodes := [[97, 44, 98]], dir := [(0, .file 0)] } }
    (.open 2 (.plain 0) .input 0)).1 2 0 [97, 44, 98] :=
  (open_input_at _ 2 0 0 0 (by decide) rfl rfl).2.1

end RbThm.C18
