import Thm.C18Multi
/-!
C18, part 8 — SEVERAL HANDLES OPEN FOR APPEND ON THE SAME FILE at the same time (harness family
`roundtrip-two-writers`, after the wave-12 seed "PRINT #n through a buffered writer whose line terminator
stayed in the handle's buffer").  Everything is stated on the concrete `Files` model (inodes, directory,
handle table), not on the abstract machine of `C18Multi`.

What the model does: a handle open FOR APPEND is a `Writer` with `append = true`; `Writer.write` then puts
the bytes at the end of the file AS IT IS AT THE TIME OF THE WRITE (`O_APPEND`); the `pos` field of such a
writer is never read and never changed (it stays 0), so an APPEND handle carries no state at all: PRINT #
through it leaves the whole handle table as it was (`append_print_bytes`, the `handles` conjunct).  Nothing
is buffered in the handle: the bytes of a PRINT # are in the file when the statement ends, which is why the
read-back below does not need the writers to be closed (the theorems allow any CLOSE statements).

* `append_print_bytes` / `append_print_extends`   one PRINT # through an APPEND handle: the file becomes
                                  `old ++ bytes`, every other inode, the directory, every handle unchanged —
                                  whatever else is open on the file
* `append_print_extends_names`    the same by file NAME (`fileBytes`), under the store invariant `StoreWf`
* `interleaved_appends`           any interleaving of whole-line PRINT # statements through handles that are all
                                  open FOR APPEND on the same file: `old ++` the lines in statement order
* `closes_run`                    any CLOSE statements (of some handles, of all): ok, store unchanged
* `two_writers_roundtrip`         … then CLOSE statements, OPEN FOR INPUT, EOF / LINE INPUT #: the old lines
                                  followed by the printed lines in statement order, EOF false before each and
                                  true after the last, then Input past end of file
* `two_writers_roundtrip_close_all`, `two_writers_roundtrip_close_each`   the two closings of the harness family
* `open_appends` / `two_writers_program`   the whole program from OPEN … FOR APPEND AS #h for each handle
-/
namespace RbThm.C18TwoWriters
open RbModel.Files RbThm.C18 RbThm.C18Multi

/-! ## A handle open FOR APPEND on a named file -/

/-- Handle `h` is open FOR APPEND on the file that the name `k` denotes, which is inode `i`. -/
def AppendOn (s : State) (h k i : Nat) : Prop :=
  alGet s.fs.dir k = some (.file i) ∧ i < s.fs.inodes.length ∧
    ∃ fi w, alGet s.handles h = some fi ∧ fi.kind = .output w ∧ w.ino = i ∧ w.append = true

theorem AppendOn.writerAt {s : State} {h k i : Nat} (ha : AppendOn s h k i) : WriterAt s h i := by
  obtain ⟨_, hi, fi, w, h1, h2, h3, h4⟩ := ha
  exact ⟨hi, fi, w, h1, h2, h3, Or.inl h4⟩

theorem AppendOn.fileBytes {s : State} {h k i : Nat} (ha : AppendOn s h k i) :
    fileBytes s k = some (s.fs.data i) := by
  simp [C18Multi.fileBytes, ha.1, nodeData]

/-- `AppendOn` depends on the directory, the number of inodes and the handle's entry only. -/
theorem AppendOn.transfer {s s' : State} {h k i : Nat} (ha : AppendOn s h k i) (hd : s'.fs.dir = s.fs.dir)
    (hn : s'.fs.inodes.length = s.fs.inodes.length) (hh : alGet s'.handles h = alGet s.handles h) :
    AppendOn s' h k i := by
  obtain ⟨h0, hi, fi, w, h1, h2, h3, h4⟩ := ha
  exact ⟨by rw [hd]; exact h0, by rw [hn]; exact hi, fi, w, by rw [hh]; exact h1, h2, h3, h4⟩

/-! ## One PRINT # through an APPEND handle -/

/-- **One PRINT # through a handle open FOR APPEND**, in ANY state (other handles may be open on the same file
in any mode): the statement succeeds, the file becomes what it holds NOW followed by the bytes of the
statement, every other inode and the directory are unchanged, and so is the whole handle table (the APPEND
writer keeps no offset), the variables and the console input. -/
theorem append_print_bytes (s : State) (h k i : Nat) (items : List (List Nat)) (nl : Bool)
    (hv : validHandle h = true) (ha : AppendOn s h k i) :
    (step s (.print h items nl)).2 = .ok ∧
      (step s (.print h items nl)).1.fs.data i = s.fs.data i ++ printBytes items nl ∧
      (step s (.print h items nl)).1.fs.dir = s.fs.dir ∧
      (step s (.print h items nl)).1.fs.inodes.length = s.fs.inodes.length ∧
      (∀ j, j ≠ i → (step s (.print h items nl)).1.fs.data j = s.fs.data j) ∧
      (∀ h', alGet (step s (.print h items nl)).1.handles h' = alGet s.handles h') ∧
      (step s (.print h items nl)).1.vars = s.vars ∧ (step s (.print h items nl)).1.stdin = s.stdin := by
  obtain ⟨_, hi, fi, w, hg, hk, hino, happ⟩ := ha
  obtain ⟨kind, fl, cur⟩ := fi
  obtain ⟨ino, pos, app⟩ := w
  simp only at hk hino happ
  subst hk hino happ
  have e : step s (.print h items nl) =
      (setInfo { s with fs := s.fs.setData ino (s.fs.data ino ++ printBytes items nl) } h
        ⟨.output ⟨ino, pos, true⟩, fl, cur⟩, Out.ok) := by
    simp [step, hv, doPrint, getWriter, getInfo, hg, Writer.write]
  rw [e]
  refine ⟨rfl, ?_, rfl, ?_, ?_, ?_, rfl, rfl⟩
  · simp [setInfo, data_setData _ _ _ hi]
  · simp [setInfo, Fs.setData]
  · intro j hj
    simp [setInfo, data_setData_ne _ _ _ _ hj]
  · intro h'
    by_cases hh : h' = h
    · subst hh
      simp [setInfo, alGet_alSet_same, hg]
    · simp [setInfo, alGet_alSet_ne _ _ _ _ hh]

/-- **append_print_extends**: `PRINT #h, line` (a whole line: no CR / LF in the text, newline at the end)
through a handle open FOR APPEND on file `k`, in any state: the bytes of the file become
`old ++ line ++ [13, 10]` where `old` is what the file holds at that time, whatever other handles are open
on it; every other inode, the directory and the handle table (so: every handle's mode, file and offset) are
unchanged, and `h` is still open FOR APPEND on `k`. -/
theorem append_print_extends (s : State) (h k i : Nat) (line : List Nat)
    (hv : validHandle h = true) (hl : NoCrLf line) (ha : AppendOn s h k i) :
    (step s (.print h [line] true)).2 = .ok ∧
      (step s (.print h [line] true)).1.fs.data i = s.fs.data i ++ line ++ [13, 10] ∧
      (step s (.print h [line] true)).1.fs.dir = s.fs.dir ∧
      (step s (.print h [line] true)).1.fs.inodes.length = s.fs.inodes.length ∧
      (∀ j, j ≠ i → (step s (.print h [line] true)).1.fs.data j = s.fs.data j) ∧
      (∀ h', alGet (step s (.print h [line] true)).1.handles h' = alGet s.handles h') ∧
      (∀ h', AppendOn s h' k i → AppendOn (step s (.print h [line] true)).1 h' k i) := by
  have hp := append_print_bytes s h k i [line] true hv ha
  rw [printBytes_line line hl, ← List.append_assoc] at hp
  exact ⟨hp.1, hp.2.1, hp.2.2.1, hp.2.2.2.1, hp.2.2.2.2.1, hp.2.2.2.2.2.1,
    fun h' ha' => ha'.transfer hp.2.2.1 hp.2.2.2.1 (hp.2.2.2.2.2.1 h')⟩

/-- The same by file name, under the store invariant (names point to existing, pairwise different inodes):
the file `k` holds `old ++ line ++ [13, 10]`, every other name holds what it held. -/
theorem append_print_extends_names (s : State) (h k i : Nat) (line : List Nat)
    (hv : validHandle h = true) (hl : NoCrLf line) (ha : AppendOn s h k i) (hW : StoreWf s.fs) :
    fileBytes (step s (.print h [line] true)).1 k = some (s.fs.data i ++ line ++ [13, 10]) ∧
      ∀ k', k' ≠ k → fileBytes (step s (.print h [line] true)).1 k' = fileBytes s k' := by
  have hp := append_print_extends s h k i line hv hl ha
  refine ⟨?_, ?_⟩
  · rw [(hp.2.2.2.2.2.2 h ha).fileBytes, hp.2.1]
  · intro k' hk'
    unfold C18Multi.fileBytes
    rw [hp.2.2.1]
    cases hd : alGet s.fs.dir k' with
    | none => rfl
    | some node =>
      cases node with
      | dir => rfl
      | file j =>
        have hj : j ≠ i := by
          intro hji
          subst hji
          exact hk' (hW.2 k' k j hd ha.1)
        simp [nodeData, hp.2.2.2.2.1 j hj]

/-! ## Any interleaving of whole-line PRINT # statements -/

/-- `PRINT #h, line` for each pair, in list order. -/
def printOps (ws : List (Nat × List Nat)) : List Op := ws.map fun p => Op.print p.1 [p.2] true

/-- **interleaved_appends**: `hs` are handles all open FOR APPEND on the same file `k`; the PRINT # statements
`ws` go through them in any interleaving, one whole line each.  Every statement succeeds and the file ends up
holding what it held followed by the lines IN STATEMENT ORDER, each with CR LF; every other inode, the
directory and the handle table are unchanged, so all handles of `hs` are still open FOR APPEND on `k`. -/
theorem interleaved_appends (k i : Nat) (hs : List Nat) (ws : List (Nat × List Nat)) (s : State)
    (hhs : ∀ h ∈ hs, validHandle h = true ∧ AppendOn s h k i)
    (hws : ∀ p ∈ ws, p.1 ∈ hs ∧ NoCrLf p.2) :
    (run s (printOps ws)).2 = ws.map (fun _ => Out.ok) ∧
      (run s (printOps ws)).1.fs.data i = s.fs.data i ++ encodeLines (ws.map (·.2)) ∧
      (run s (printOps ws)).1.fs.dir = s.fs.dir ∧
      (run s (printOps ws)).1.fs.inodes.length = s.fs.inodes.length ∧
      (∀ j, j ≠ i → (run s (printOps ws)).1.fs.data j = s.fs.data j) ∧
      (∀ h', alGet (run s (printOps ws)).1.handles h' = alGet s.handles h') ∧
      (∀ h ∈ hs, AppendOn (run s (printOps ws)).1 h k i) := by
  induction ws generalizing s with
  | nil =>
    exact ⟨rfl, by simp [printOps, run, encodeLines], rfl, rfl, fun _ _ => rfl, fun _ => rfl,
      fun h hh => (hhs h hh).2⟩
  | cons p rest ih =>
    obtain ⟨hp1, hp2⟩ := hws p (by simp)
    obtain ⟨hv, ha⟩ := hhs p.1 hp1
    have h1 := append_print_extends s p.1 k i p.2 hv hp2 ha
    have h2 := ih (step s (.print p.1 [p.2] true)).1
      (fun h hh => ⟨(hhs h hh).1, h1.2.2.2.2.2.2 h (hhs h hh).2⟩)
      (fun q hq => hws q (by simp [hq]))
    simp only [printOps, List.map_cons, run] at h2 ⊢
    refine ⟨by rw [h1.1, h2.1], ?_, by rw [h2.2.2.1, h1.2.2.1], by rw [h2.2.2.2.1, h1.2.2.2.1], ?_, ?_,
      h2.2.2.2.2.2.2⟩
    · rw [h2.2.1, h1.2.1]
      simp [encodeLines]
    · intro j hj
      rw [h2.2.2.2.2.1 j hj, h1.2.2.2.2.1 j hj]
    · intro h'
      rw [h2.2.2.2.2.2.1 h', h1.2.2.2.2.2.1 h']

/-! ## CLOSE statements -/

theorem close_step (s : State) (c : List Nat) (hc : c.all validHandle = true) :
    (step s (.close c)).2 = .ok ∧ (step s (.close c)).1.fs = s.fs ∧
      ∀ r, (alGet s.handles r = none ∨ c = [] ∨ r ∈ c) → alGet (step s (.close c)).1.handles r = none := by
  cases c with
  | nil => simp [step, doClose, alGet]
  | cons x xs =>
    have e : step s (.close (x :: xs)) = (closeAll s (x :: xs), .ok) := by
      simp only [step, doClose, hc]
      simp
    rw [e]
    refine ⟨rfl, rfl, ?_⟩
    intro r hr
    simp only [closeAll]
    rw [alGet_foldl_alDel]
    rcases hr with hr | hr | hr
    · simp [hr]
    · simp at hr
    · simp [hr]

/-- Any CLOSE statements (each of some handles, or of all: the empty list): all succeed, the store is
unchanged, a handle that was free or is closed by one of them is free afterwards. -/
theorem closes_run (cls : List (List Nat)) (hcl : ∀ c ∈ cls, c.all validHandle = true) (s : State) :
    (run s (cls.map Op.close)).2 = cls.map (fun _ => Out.ok) ∧ (run s (cls.map Op.close)).1.fs = s.fs ∧
      ∀ r, (alGet s.handles r = none ∨ ∃ c ∈ cls, c = [] ∨ r ∈ c) →
        alGet (run s (cls.map Op.close)).1.handles r = none := by
  induction cls generalizing s with
  | nil =>
    refine ⟨rfl, rfl, ?_⟩
    intro r hr
    rcases hr with hr | ⟨c, hc, _⟩
    · exact hr
    · simp at hc
  | cons c rest ih =>
    have h1 := close_step s c (hcl c (by simp))
    have h2 := ih (fun c' hc' => hcl c' (by simp [hc'])) (step s (.close c)).1
    simp only [List.map_cons, run]
    refine ⟨by rw [h1.1, h2.1], by rw [h2.2.1, h1.2.1], ?_⟩
    intro r hr
    apply h2.2.2
    rcases hr with hr | ⟨c', hc', hr⟩
    · exact Or.inl (h1.2.2 r (Or.inl hr))
    · rcases List.mem_cons.mp hc' with heq | hmem
      · subst heq
        exact Or.inl (h1.2.2 r (Or.inr hr))
      · exact Or.inr ⟨c', hmem, hr⟩

/-! ## Round trip -/

theorem encodeLines_append (a b : List (List Nat)) : encodeLines (a ++ b) = encodeLines a ++ encodeLines b := by
  simp [encodeLines]

/-- OPEN FOR INPUT on `r`, then EOF / LINE INPUT # once per expected line, then EOF, LINE INPUT #, EOF. -/
def readOps (r k v : Nat) (ls : List (List Nat)) : List Op :=
  [Op.open r (.plain k) .input 0] ++ (ls.flatMap fun _ => [Op.eof r, Op.lineInput r v])
    ++ [Op.eof r, Op.lineInput r v, Op.eof r]

/-- What `readOps` shows when the file holds exactly the lines `ls`: ok, then `false` / the line for each
line, then `true`, Input past end of file, `true`. -/
def readOuts (ls : List (List Nat)) : List Out :=
  [Out.ok] ++ (ls.flatMap fun l => [Out.flag false, Out.val l]) ++ [.flag true, .err .inputPastEnd, .flag true]

/-- The state after the PRINT # statements and the CLOSE statements: the file holds the old lines followed
by the printed lines in statement order, nothing else of the store changed, and every handle that was free
or is named by a CLOSE (or covered by a CLOSE of all) is free. -/
theorem writers_then_close (k i : Nat) (hs : List Nat) (ws : List (Nat × List Nat)) (cls : List (List Nat))
    (s : State)
    (hhs : ∀ h ∈ hs, validHandle h = true ∧ AppendOn s h k i)
    (hws : ∀ p ∈ ws, p.1 ∈ hs ∧ NoCrLf p.2)
    (hcl : ∀ c ∈ cls, c.all validHandle = true) :
    (run s (printOps ws ++ cls.map Op.close)).2 = ws.map (fun _ => Out.ok) ++ cls.map (fun _ => Out.ok) ∧
      (run s (printOps ws ++ cls.map Op.close)).1.fs.data i = s.fs.data i ++ encodeLines (ws.map (·.2)) ∧
      (run s (printOps ws ++ cls.map Op.close)).1.fs.dir = s.fs.dir ∧
      (∀ j, j ≠ i → (run s (printOps ws ++ cls.map Op.close)).1.fs.data j = s.fs.data j) ∧
      ∀ r, (alGet s.handles r = none ∨ ∃ c ∈ cls, c = [] ∨ r ∈ c) →
        alGet (run s (printOps ws ++ cls.map Op.close)).1.handles r = none := by
  have h1 := interleaved_appends k i hs ws s hhs hws
  have h2 := closes_run cls hcl (run s (printOps ws)).1
  rw [run_append]
  simp only
  refine ⟨by rw [h1.1, h2.1], by rw [h2.2.1, h1.2.1], by rw [h2.2.1, h1.2.2.1], ?_, ?_⟩
  · intro j hj
    rw [h2.2.1, h1.2.2.2.2.1 j hj]
  · intro r hr
    apply h2.2.2
    rcases hr with hr | hr
    · exact Or.inl (by rw [h1.2.2.2.2.2.1 r]; exact hr)
    · exact Or.inr hr

/-- **two_writers_roundtrip**: the file `k` holds the lines `olds` (each followed by CR LF); the handles `hs`
(at least one) are all open FOR APPEND on it; the PRINT # statements `ws` print one whole line each through
them in any interleaving; then come any CLOSE statements `cls` and `OPEN k FOR INPUT AS #r` on a handle that
is free by then (it was free, or one of the CLOSE statements names it or closes all).  Every statement
succeeds, EOF(r) is false before each line, LINE INPUT #r returns the old lines followed by the printed
lines IN STATEMENT ORDER, then EOF(r) is true and one more LINE INPUT # raises Input past end of file.
(The model needs no writer to be closed for this: PRINT # leaves nothing in the handle.) -/
theorem two_writers_roundtrip (k i r v : Nat) (hs : List Nat) (ws : List (Nat × List Nat))
    (cls : List (List Nat)) (olds : List (List Nat)) (s : State)
    (hne : hs ≠ [])
    (hhs : ∀ h ∈ hs, validHandle h = true ∧ AppendOn s h k i)
    (hws : ∀ p ∈ ws, p.1 ∈ hs ∧ NoCrLf p.2)
    (hold : s.fs.data i = encodeLines olds) (holds : ∀ l ∈ olds, NoCrLf l)
    (hcl : ∀ c ∈ cls, c.all validHandle = true) (hr : validHandle r = true)
    (hfree : alGet s.handles r = none ∨ ∃ c ∈ cls, c = [] ∨ r ∈ c) :
    (run s (printOps ws ++ cls.map Op.close ++ readOps r k v (olds ++ ws.map (·.2)))).2
      = ws.map (fun _ => Out.ok) ++ cls.map (fun _ => Out.ok) ++ readOuts (olds ++ ws.map (·.2)) := by
  obtain ⟨h0, hh0⟩ := List.exists_mem_of_ne_nil hs hne
  have hdir := (hhs h0 hh0).2.1
  have h1 := writers_then_close k i hs ws cls s hhs hws hcl
  rw [run_append]
  simp only
  have hrb := read_back_lines (run s (printOps ws ++ cls.map Op.close)).1 r k i v (olds ++ ws.map (·.2)) hr
    (h1.2.2.2.2 r hfree) (by rw [h1.2.2.1]; exact hdir)
    (by rw [h1.2.1, hold, encodeLines_append])
    (by
      intro l hl
      rcases List.mem_append.mp hl with hl | hl
      · exact holds l hl
      · obtain ⟨p, hp, rfl⟩ := List.mem_map.mp hl
        exact (hws p hp).2)
  unfold readOps readOuts
  rw [hrb, h1.1]

/-- CLOSE of all (`CLOSE` without handles), then read back on any valid handle. -/
theorem two_writers_roundtrip_close_all (k i r v : Nat) (hs : List Nat) (ws : List (Nat × List Nat))
    (olds : List (List Nat)) (s : State)
    (hne : hs ≠ [])
    (hhs : ∀ h ∈ hs, validHandle h = true ∧ AppendOn s h k i)
    (hws : ∀ p ∈ ws, p.1 ∈ hs ∧ NoCrLf p.2)
    (hold : s.fs.data i = encodeLines olds) (holds : ∀ l ∈ olds, NoCrLf l) (hr : validHandle r = true) :
    (run s (printOps ws ++ [Op.close []] ++ readOps r k v (olds ++ ws.map (·.2)))).2
      = ws.map (fun _ => Out.ok) ++ [Out.ok] ++ readOuts (olds ++ ws.map (·.2)) :=
  two_writers_roundtrip k i r v hs ws [[]] olds s hne hhs hws hold holds (by simp) hr
    (Or.inr ⟨[], by simp, Or.inl rfl⟩)

/-- `CLOSE #h` for each writer, then read back on one of the writers' handles or on a handle that was free. -/
theorem two_writers_roundtrip_close_each (k i r v : Nat) (hs : List Nat) (ws : List (Nat × List Nat))
    (olds : List (List Nat)) (s : State)
    (hne : hs ≠ [])
    (hhs : ∀ h ∈ hs, validHandle h = true ∧ AppendOn s h k i)
    (hws : ∀ p ∈ ws, p.1 ∈ hs ∧ NoCrLf p.2)
    (hold : s.fs.data i = encodeLines olds) (holds : ∀ l ∈ olds, NoCrLf l) (hr : validHandle r = true)
    (hfree : alGet s.handles r = none ∨ r ∈ hs) :
    (run s (printOps ws ++ (hs.map fun h => Op.close [h]) ++ readOps r k v (olds ++ ws.map (·.2)))).2
      = ws.map (fun _ => Out.ok) ++ hs.map (fun _ => Out.ok) ++ readOuts (olds ++ ws.map (·.2)) := by
  have := two_writers_roundtrip k i r v hs ws (hs.map fun h => [h]) olds s hne hhs hws hold holds
    (by
      intro c hc
      obtain ⟨h, hh, rfl⟩ := List.mem_map.mp hc
      simp [(hhs h hh).1])
    hr
    (by
      rcases hfree with hf | hf
      · exact Or.inl hf
      · exact Or.inr ⟨[r], List.mem_map.mpr ⟨r, hf, rfl⟩, Or.inr (by simp)⟩)
  simpa [List.map_map, Function.comp_def] using this

/-! ## The whole program, from OPEN … FOR APPEND AS #h for each writer -/

/-- `OPEN k FOR APPEND AS #h` for each handle of the list. -/
def openOps (hs : List Nat) (k : Nat) : List Op := hs.map fun h => Op.open h (.plain k) .append 0

theorem open_append_existing (s : State) (h k i : Nat) (hv : validHandle h = true)
    (hc : alGet s.handles h = none) (hd : alGet s.fs.dir k = some (.file i)) :
    step s (.open h (.plain k) .append 0)
      = (setInfo s h (FileInfo.new (.output { ino := i, pos := 0, append := true })), .ok) := by
  simp [step, doOpen, hv, hc, Fs.openCreate, Fs.resolve, hd]

theorem open_append_missing (s : State) (h k : Nat) (hv : validHandle h = true)
    (hc : alGet s.handles h = none) (hd : alGet s.fs.dir k = none) :
    step s (.open h (.plain k) .append 0)
      = (setInfo { s with fs := { inodes := s.fs.inodes ++ [[]],
                                  dir := alSet s.fs.dir k (.file s.fs.inodes.length) } } h
          (FileInfo.new (.output { ino := s.fs.inodes.length, pos := 0, append := true })), .ok) := by
  simp [step, doOpen, hv, hc, Fs.openCreate, Fs.resolve, hd]

/-- OPEN FOR APPEND of an EXISTING file on several free handles: all succeed, the store is unchanged, all
the handles are open FOR APPEND on it at the same time (the interpreter does not refuse a second OPEN of a
file that is already open), the other handles are as they were. -/
theorem open_appends_existing (k i : Nat) (hs : List Nat) (s : State) (hnd : hs.Nodup)
    (hhs : ∀ h ∈ hs, validHandle h = true ∧ alGet s.handles h = none)
    (hd : alGet s.fs.dir k = some (.file i)) (hi : i < s.fs.inodes.length) :
    (run s (openOps hs k)).2 = hs.map (fun _ => Out.ok) ∧ (run s (openOps hs k)).1.fs = s.fs ∧
      (∀ h ∈ hs, AppendOn (run s (openOps hs k)).1 h k i) ∧
      (∀ h', h' ∉ hs → alGet (run s (openOps hs k)).1.handles h' = alGet s.handles h') := by
  induction hs generalizing s with
  | nil => exact ⟨rfl, rfl, fun _ hh => by simp at hh, fun _ _ => rfl⟩
  | cons h rest ih =>
    obtain ⟨hv, hc⟩ := hhs h (by simp)
    have e := open_append_existing s h k i hv hc hd
    have hnd' := List.nodup_cons.mp hnd
    have hlook : ∀ h', h' ≠ h → alGet (step s (.open h (.plain k) .append 0)).1.handles h' = alGet s.handles h' := by
      intro h' hne
      rw [e]
      simp [setInfo, alGet_alSet_ne _ _ _ _ hne]
    have hfs : (step s (.open h (.plain k) .append 0)).1.fs = s.fs := by rw [e]; rfl
    have hout : (step s (.open h (.plain k) .append 0)).2 = .ok := by rw [e]
    have hon : AppendOn (step s (.open h (.plain k) .append 0)).1 h k i := by
      rw [e]
      exact ⟨hd, hi, FileInfo.new (.output { ino := i, pos := 0, append := true }),
        { ino := i, pos := 0, append := true }, by simp [setInfo, alGet_alSet_same], rfl, rfl, rfl⟩
    have h2 := ih (step s (.open h (.plain k) .append 0)).1 hnd'.2
      (fun h' hh' => ⟨(hhs h' (by simp [hh'])).1, by
        rw [hlook h' (fun heq => hnd'.1 (heq ▸ hh'))]
        exact (hhs h' (by simp [hh'])).2⟩)
      (by rw [hfs]; exact hd) (by rw [hfs]; exact hi)
    simp only [openOps, List.map_cons, run] at h2 ⊢
    refine ⟨by rw [h2.1, hout], by rw [h2.2.1, hfs], ?_, ?_⟩
    · intro h' hh'
      rcases List.mem_cons.mp hh' with heq | hmem
      · subst heq
        exact hon.transfer (by rw [h2.2.1]) (by rw [h2.2.1]) (h2.2.2.2 h' hnd'.1)
      · exact h2.2.2.1 h' hmem
    · intro h' hh'
      have hne : h' ≠ h := fun heq => hh' (by simp [heq])
      have hnr : h' ∉ rest := fun hm => hh' (by simp [hm])
      rw [h2.2.2.2 h' hnr, hlook h' hne]

/-- **open_appends**: `OPEN k FOR APPEND AS #h` for each of the different free handles `h0 :: rest`, the name
`k` being a file or missing (the first OPEN creates it): all succeed, all the handles are open FOR APPEND on
the same inode, which holds what the name held before (nothing for a missing file). -/
theorem open_appends (k h0 : Nat) (rest : List Nat) (s : State) (hnd : (h0 :: rest).Nodup)
    (hhs : ∀ h ∈ h0 :: rest, validHandle h = true ∧ alGet s.handles h = none)
    (hndir : alGet s.fs.dir k ≠ some .dir)
    (hwf : ∀ j, alGet s.fs.dir k = some (.file j) → j < s.fs.inodes.length) :
    ∃ i, (run s (openOps (h0 :: rest) k)).2 = (h0 :: rest).map (fun _ => Out.ok) ∧
      (∀ h ∈ h0 :: rest, AppendOn (run s (openOps (h0 :: rest) k)).1 h k i) ∧
      (run s (openOps (h0 :: rest) k)).1.fs.data i = oldContent s k ∧
      (∀ h', h' ∉ h0 :: rest → alGet (run s (openOps (h0 :: rest) k)).1.handles h' = alGet s.handles h') := by
  cases hdir : alGet s.fs.dir k with
  | some node =>
    cases node with
    | dir => exact absurd hdir hndir
    | file j =>
      have h1 := open_appends_existing k j (h0 :: rest) s hnd hhs hdir (hwf j hdir)
      refine ⟨j, h1.1, h1.2.2.1, ?_, h1.2.2.2⟩
      rw [h1.2.1]
      simp [oldContent, hdir]
  | none =>
    obtain ⟨hv, hc⟩ := hhs h0 (by simp)
    have e := open_append_missing s h0 k hv hc hdir
    have hnd' := List.nodup_cons.mp hnd
    have hlook : ∀ h', h' ≠ h0 →
        alGet (step s (.open h0 (.plain k) .append 0)).1.handles h' = alGet s.handles h' := by
      intro h' hne
      rw [e]
      simp [setInfo, alGet_alSet_ne _ _ _ _ hne]
    have hd1 : alGet (step s (.open h0 (.plain k) .append 0)).1.fs.dir k = some (.file s.fs.inodes.length) := by
      rw [e]
      simp [setInfo, alGet_alSet_same]
    have hi1 : s.fs.inodes.length < (step s (.open h0 (.plain k) .append 0)).1.fs.inodes.length := by
      rw [e]
      simp [setInfo]
    have hout : (step s (.open h0 (.plain k) .append 0)).2 = .ok := by rw [e]
    have hdata : (step s (.open h0 (.plain k) .append 0)).1.fs.data s.fs.inodes.length = [] := by
      rw [e]
      simp [setInfo, Fs.data]
    have hon : AppendOn (step s (.open h0 (.plain k) .append 0)).1 h0 k s.fs.inodes.length := by
      refine ⟨hd1, hi1, ?_⟩
      rw [e]
      exact ⟨FileInfo.new (.output { ino := s.fs.inodes.length, pos := 0, append := true }),
        { ino := s.fs.inodes.length, pos := 0, append := true }, by simp [setInfo, alGet_alSet_same], rfl, rfl, rfl⟩
    have h2 := open_appends_existing k s.fs.inodes.length rest (step s (.open h0 (.plain k) .append 0)).1 hnd'.2
      (fun h' hh' => ⟨(hhs h' (by simp [hh'])).1, by
        rw [hlook h' (fun heq => hnd'.1 (heq ▸ hh'))]
        exact (hhs h' (by simp [hh'])).2⟩)
      hd1 hi1
    refine ⟨s.fs.inodes.length, ?_⟩
    simp only [openOps, List.map_cons, run] at h2 ⊢
    refine ⟨by rw [h2.1, hout], ?_, ?_, ?_⟩
    · intro h' hh'
      rcases List.mem_cons.mp hh' with heq | hmem
      · subst heq
        exact hon.transfer (by rw [h2.2.1]) (by rw [h2.2.1]) (h2.2.2.2 h' hnd'.1)
      · exact h2.2.2.1 h' hmem
    · rw [h2.2.1, hdata]
      simp [oldContent, hdir]
    · intro h' hh'
      have hne : h' ≠ h0 := fun heq => hh' (by simp [heq])
      have hnr : h' ∉ rest := fun hm => hh' (by simp [hm])
      rw [h2.2.2.2 h' hnr, hlook h' hne]

/-- **two_writers_program**: the whole program of the harness family `roundtrip-two-writers`, from any state
in which the handles `h0 :: rest` are free and the name `k` is a file holding the lines `olds` (or is missing,
`olds = []`):
`OPEN k FOR APPEND AS #h` for each handle; `PRINT #h, line` in any interleaving; any CLOSE statements;
`OPEN k FOR INPUT AS #r` on a handle that is free by then; EOF / LINE INPUT #.  Every statement succeeds and
the lines read are the old lines followed by the printed lines in statement order, EOF(r) false before each
and true after the last. -/
theorem two_writers_program (k r v h0 : Nat) (rest : List Nat) (ws : List (Nat × List Nat))
    (cls : List (List Nat)) (olds : List (List Nat)) (s : State) (hnd : (h0 :: rest).Nodup)
    (hhs : ∀ h ∈ h0 :: rest, validHandle h = true ∧ alGet s.handles h = none)
    (hndir : alGet s.fs.dir k ≠ some .dir)
    (hwf : ∀ j, alGet s.fs.dir k = some (.file j) → j < s.fs.inodes.length)
    (hws : ∀ p ∈ ws, p.1 ∈ h0 :: rest ∧ NoCrLf p.2)
    (hold : oldContent s k = encodeLines olds) (holds : ∀ l ∈ olds, NoCrLf l)
    (hcl : ∀ c ∈ cls, c.all validHandle = true) (hr : validHandle r = true)
    (hfree : (alGet s.handles r = none ∧ r ∉ h0 :: rest) ∨ ∃ c ∈ cls, c = [] ∨ r ∈ c) :
    (run s (openOps (h0 :: rest) k
        ++ (printOps ws ++ cls.map Op.close ++ readOps r k v (olds ++ ws.map (·.2))))).2
      = (h0 :: rest).map (fun _ => Out.ok)
        ++ (ws.map (fun _ => Out.ok) ++ cls.map (fun _ => Out.ok) ++ readOuts (olds ++ ws.map (·.2))) := by
  obtain ⟨i, h1, h2, h3, h4⟩ := open_appends k h0 rest s hnd hhs hndir hwf
  rw [run_append]
  simp only
  rw [h1, two_writers_roundtrip k i r v (h0 :: rest) ws cls olds _ (by simp)
    (fun h hh => ⟨(hhs h hh).1, h2 h hh⟩) hws (by rw [h3, hold]) holds hcl hr
    (by
      rcases hfree with ⟨hf, hn⟩ | hf
      · exact Or.inl (by rw [h4 r hn]; exact hf)
      · exact Or.inr hf)]

/-! ## The hypotheses are satisfiable: two handles, three lines alternating -/

/-- `OPEN "f" FOR APPEND AS #1 : OPEN "f" FOR APPEND AS #2 : PRINT #1, "a" : PRINT #2, "bc" : PRINT #1, "" :
CLOSE : OPEN "f" FOR INPUT AS #1 : (EOF(1), LINE INPUT #1, v$) x 4 : EOF(1)` on a file that holds `"o"`. -/
def demoState : State :=
  { fs := { inodes := [[111, 13, 10]], dir := [(0, .file 0)] }, handles := [], vars := [], stdin := [] }

def demoOps : List Op :=
  openOps [1, 2] 0 ++ (printOps [(1, [97]), (2, [98, 99]), (1, [])] ++ [[]].map Op.close
    ++ readOps 1 0 7 ([[111]] ++ [(1, [97]), (2, [98, 99]), (1, ([] : List Nat))].map (·.2)))

/-- The final bytes: the old line, then the three lines in statement order. -/
example : (run demoState demoOps).1.fs.data 0 = [111, 13, 10, 97, 13, 10, 98, 99, 13, 10, 13, 10] := by
  decide +kernel

/-- Evaluated: everything ok, EOF false before each of the four lines, the three LINE INPUT results
`"a"`, `"bc"`, `""` after the old `"o"`, EOF true after the last. -/
example : (run demoState demoOps).2
    = [.ok, .ok, .ok, .ok, .ok, .ok, .ok,
       .flag false, .val [111], .flag false, .val [97], .flag false, .val [98, 99], .flag false, .val [],
       .flag true, .err .inputPastEnd, .flag true] := by
  decide +kernel

/-- The same from the theorem: its hypotheses hold of this program. -/
example : (run demoState demoOps).2
    = [1, 2].map (fun _ => Out.ok)
      ++ ([(1, [97]), (2, [98, 99]), (1, ([] : List Nat))].map (fun _ => Out.ok) ++ ([[]] : List (List Nat)).map (fun _ => Out.ok)
        ++ readOuts ([[111]] ++ [(1, [97]), (2, [98, 99]), (1, ([] : List Nat))].map (·.2))) :=
  two_writers_program 0 1 7 1 [2] [(1, [97]), (2, [98, 99]), (1, [])] [[]] [[111]] demoState (by decide)
    (by decide) (by decide) (by intro j hj; simp [demoState, alGet] at hj; subst hj; decide)
    (by unfold NoCrLf; decide) (by decide) (by unfold NoCrLf; decide)
    (by decide) (by decide) (Or.inr ⟨[], by simp, Or.inl rfl⟩)

/-- After the two OPENs both handles are open FOR APPEND on the file (hypothesis of `append_print_extends`,
`interleaved_appends`, `two_writers_roundtrip`), and one PRINT # through the second one extends the file. -/
example : AppendOn (run demoState (openOps [1, 2] 0)).1 1 0 0 ∧ AppendOn (run demoState (openOps [1, 2] 0)).1 2 0 0 :=
  ⟨⟨rfl, by decide, _, _, rfl, rfl, rfl, rfl⟩, ⟨rfl, by decide, _, _, rfl, rfl, rfl, rfl⟩⟩

example : (step (run demoState (openOps [1, 2] 0)).1 (.print 2 [[98, 99]] true)).1.fs.data 0
    = [111, 13, 10] ++ [98, 99] ++ [13, 10] :=
  (append_print_extends _ 2 0 0 [98, 99] (by decide) (by unfold NoCrLf; decide)
    ⟨rfl, by decide, _, _, rfl, rfl, rfl, rfl⟩).2.1

end RbThm.C18TwoWriters
