import Thm.C08Layers
/-!
# C11 (run-time half) for the three other simulation layers — the reported position is the prescribed one

`Thm/C11Gen.lean` proves for the core language that the position reported with a run-time error is the position of an
emitted instruction, which is a position carried by a node of the program (`runtime_error_pos_is_instr_pos`,
`runtime_error_pos_within_program`).  For the procedures, arrays and records layers the same property is obtained here
from the layers' simulation theorems and an induction over the layers' reference semantics:

* `runtime_error_pos_is_ref_pos` — for a program the layer's premise checker `progWfB` accepts on which the layer's
  reference run finishes, whatever error the VM model stops with, at any step budget, is the reference's: same code,
  same position (corollary of `compile_correct_checked`; `step` is a function).
* `ref_error_pos_within_program` — the position the reference semantics prescribes for an error is a position carried
  by a node of the source tree (`SStmt`, what the serialiser of the real linted tree delivers): by induction on fuel
  over `Ref.exec` and its companions (`errPos_all`), then through `desugar` (`desugar_posns`: desugaring adds no
  positions).  No premise: this holds of every tree.
* `runtime_error_pos_within_program` — both together.
* procedures layer: `error_in_procedure_at_body_pos` — an error raised while the body of a procedure runs is reported
  at the failing position inside that body (or inside a procedure it calls), never at the call site; and
  `InProgram` = main module or some procedure body.

Whether a node's position lies inside the node's *text* is the parser fact `PosNested` (checked by the fault-injection
run, not proved), as for the core language.
-/

namespace RbThm.C11Layers.Procs
set_option linter.unusedVariables false
open RbModel RbModel.Num RbModel.Proc RbModel.Proc.Compile RbModel.Proc.Vm RbModel.Proc.Ref
open RbModel.Ast (Pos)

/-! ### positions that occur in a piece of syntax -/

mutual
def exprPosns : Proc.Expr → List Pos
  | .lit _ p => [p]
  | .var _ _ p => [p]
  | .un _ e p => p :: exprPosns e
  | .bin _ l r _ p => p :: (exprPosns l ++ exprPosns r)
  | .paren e p => p :: exprPosns e
  | .callFn _ args _ p => p :: argsPosns args
def argsPosns : Args → List Pos
  | .nil => []
  | .cons e _ _ rest => exprPosns e ++ argsPosns rest
end

def itemPosns : PrintItem → List Pos
  | .expr e => exprPosns e
  | _ => []

def caseExprPosns : CaseExpr → List Pos
  | .simple e => exprPosns e
  | .is _ e => exprPosns e
  | .range lo hi => exprPosns lo ++ exprPosns hi

def optExprPosns : Option Proc.Expr → List Pos
  | none => []
  | some e => exprPosns e

mutual
/-- every position that occurs in a statement of the reference syntax -/
def stmtPosns : Stmt → List Pos
  | .skip => []
  | .seq a b => stmtPosns a ++ stmtPosns b
  | .assign _ _ e p => p :: exprPosns e
  | .print items p => p :: items.flatMap itemPosns
  | .read _ _ p => [p]
  | .ifs c thn els p => p :: (exprPosns c ++ stmtPosns thn ++ stmtPosns els)
  | .select e cs p => p :: (exprPosns e ++ casesPosns cs)
  | .forLoop _ _ lo hi step body p => p :: (exprPosns lo ++ exprPosns hi ++ optExprPosns step ++ stmtPosns body)
  | .while c body p => p :: (exprPosns c ++ stmtPosns body)
  | .doLoop c _ _ body p => p :: (exprPosns c ++ stmtPosns body)
  | .end_ p => [p]
  | .callSub _ args p => p :: argsPosns args
  | .exitProc p => [p]
def casesPosns : Cases → List Pos
  | .nil => []
  | .else_ body => stmtPosns body
  | .case conds body rest => conds.flatMap caseExprPosns ++ stmtPosns body ++ casesPosns rest
end

theorem pos_mem_exprPosns (e : Proc.Expr) : e.pos ∈ exprPosns e := by
  cases e <;> simp [Expr.pos, exprPosns]

/-! ### the leaves -/

theorem liftR_err {s s' : St} {q : Pos} {r : Res Val} {c : Nat} {p : Pos}
    (h : liftR s q r = (s', .error (.error c p))) : p = q := by
  cases r <;> simp [liftR] at h
  exact h.2.2.symm

theorem relTest_err {q : Pos} {op : Op} {a b : Val} {c : Nat} {p : Pos}
    (h : relTest q op a b = .error (.error c p)) : p = q := by
  unfold relTest at h
  split at h
  · cases h
  · simp only [Except.error.injEq, Outcome.error.injEq] at h; exact h.2.symm
  · cases h

theorem stepSign_err {q : Pos} {v : Val} {c : Nat} {p : Pos} (h : stepSign q v = .error (.error c p)) : p = q := by
  unfold stepSign at h
  split at h
  · rename_i o ho; cases h; exact relTest_err ho
  · cases h
  · split at h
    · rename_i o ho; cases h; exact relTest_err ho
    · cases h
    · cases h

/-! ### the eleven mutually recursive functions -/

/-- the claim at a given amount of fuel.  `Q` is any property of positions that holds of every position occurring in
the body of every procedure of the program (`hG` below); then an error raised while a piece of syntax runs — inside it
or inside a procedure it calls, to any depth — is reported at a position with property `Q`, provided every position
occurring in that piece of syntax has it. -/
structure ErrPos (P : Program) (Q : Pos → Prop) (fuel : Nat) : Prop where
  eval : ∀ e s s' c p, eval P fuel e s = (s', .error (.error c p)) → (∀ q ∈ exprPosns e, Q q) → Q p
  evalTo : ∀ e t s s' c p, evalTo P fuel e t s = (s', .error (.error c p)) → (∀ q ∈ exprPosns e, Q q) → Q p
  evalArgs : ∀ args s s' c p, evalArgs P fuel args s = (s', .error (.error c p)) → (∀ q ∈ argsPosns args, Q q) → Q p
  call : ∀ f args s s' c p, call P fuel f args s = (s', .error (.error c p)) → (∀ q ∈ argsPosns args, Q q) → Q p
  printItems : ∀ items s s' c p, printItems P fuel items s = (s', .error c p) →
    (∀ q ∈ items.flatMap itemPosns, Q q) → Q p
  evalCond : ∀ e s s' c p, evalCond P fuel e s = (s', .error (.error c p)) → (∀ q ∈ exprPosns e, Q q) → Q p
  caseMatches : ∀ q0 subj ce s s' c p, caseMatches P fuel q0 subj ce s = (s', .error (.error c p)) →
    Q q0 → (∀ q ∈ caseExprPosns ce, Q q) → Q p
  anyMatches : ∀ q0 subj conds s s' c p, anyMatches P fuel q0 subj conds s = (s', .error (.error c p)) →
    Q q0 → (∀ q ∈ conds.flatMap caseExprPosns, Q q) → Q p
  exec : ∀ st s s' c p, exec P fuel st s = (s', .error c p) → (∀ q ∈ stmtPosns st, Q q) → Q p
  execCases : ∀ q0 subj cs s s' c p, execCases P fuel q0 subj cs s = (s', .error c p) →
    Q q0 → (∀ q ∈ casesPosns cs, Q q) → Q p
  forIter : ∀ x t hv sv up body q0 s s' c p, forIter P fuel x t hv sv up body q0 s = (s', .error c p) →
    Q q0 → (∀ q ∈ stmtPosns body, Q q) → Q p

theorem errPos_zero (P : Program) (Q : Pos → Prop) : ErrPos P Q 0 := by
  refine ⟨?_, ?_, ?_, ?_, ?_, ?_, ?_, ?_, ?_, ?_, ?_⟩
  · intro e s s' c p h; simp [Proc.Ref.eval] at h
  · intro e t s s' c p h; simp [Proc.Ref.evalTo] at h
  · intro args s s' c p h; simp [Proc.Ref.evalArgs] at h
  · intro f args s s' c p h; simp [Proc.Ref.call] at h
  · intro items s s' c p h; simp [Proc.Ref.printItems] at h
  · intro e s s' c p h; simp [Proc.Ref.evalCond] at h
  · intro q0 subj ce s s' c p h; simp [Proc.Ref.caseMatches] at h
  · intro q0 subj conds s s' c p h; simp [Proc.Ref.anyMatches] at h
  · intro st s s' c p h; simp [Proc.Ref.exec] at h
  · intro q0 subj cs s s' c p h; simp [Proc.Ref.execCases] at h
  · intro x t hv sv up body q0 s s' c p h; simp [Proc.Ref.forIter] at h

section succ
variable {P : Program} {Q : Pos → Prop} (hG : ∀ d, d ∈ P.procs → ∀ q ∈ stmtPosns d.body, Q q)
variable {n : Nat} (ih : ErrPos P Q n)
include ih

theorem succ_eval : ∀ e s s' c p, Proc.Ref.eval P (n + 1) e s = (s', .error (.error c p)) →
    (∀ q ∈ exprPosns e, Q q) → Q p := by
  intro e s s' c p h hQ
  cases e with
  | lit v q => simp [Proc.Ref.eval] at h
  | var x t q => simp [Proc.Ref.eval] at h
  | un op e q =>
    simp only [Proc.Ref.eval] at h
    split at h
    · rw [liftR_err h]; exact hQ _ (by simp [exprPosns])
    · exact ih.eval e _ _ c p h (fun x hx => hQ x (by simp [exprPosns, hx]))
  | bin op l r t q =>
    simp only [Proc.Ref.eval] at h
    split at h
    · split at h
      · rw [liftR_err h]; exact hQ _ (by simp [exprPosns])
      · exact ih.eval r _ _ c p h (fun x hx => hQ x (by simp [exprPosns, hx]))
    · exact ih.eval l _ _ c p h (fun x hx => hQ x (by simp [exprPosns, hx]))
  | paren e q =>
    simp only [Proc.Ref.eval] at h
    exact ih.eval e _ _ c p h (fun x hx => hQ x (by simp [exprPosns, hx]))
  | callFn f args t q =>
    simp only [Proc.Ref.eval] at h
    exact ih.call f args _ _ c p h (fun x hx => hQ x (by simp [exprPosns, hx]))

theorem succ_evalTo : ∀ e t s s' c p, Proc.Ref.evalTo P (n + 1) e t s = (s', .error (.error c p)) →
    (∀ q ∈ exprPosns e, Q q) → Q p := by
  intro e t s s' c p h hQ
  simp only [Proc.Ref.evalTo] at h
  split at h
  · rw [liftR_err h]; exact hQ _ (pos_mem_exprPosns e)
  · exact ih.eval e _ _ c p h hQ

theorem succ_evalArgs : ∀ args s s' c p, Proc.Ref.evalArgs P (n + 1) args s = (s', .error (.error c p)) →
    (∀ q ∈ argsPosns args, Q q) → Q p := by
  intro args s s' c p h hQ
  cases args with
  | nil => simp [Proc.Ref.evalArgs] at h
  | cons e pn pt rest =>
    simp only [Proc.Ref.evalArgs] at h
    split at h
    · rename_i o ho
      simp only [Prod.mk.injEq, Except.error.injEq] at h
      obtain ⟨rfl, rfl⟩ := h
      exact ih.evalTo e pt _ _ c p ho (fun x hx => hQ x (by simp [argsPosns, hx]))
    · split at h
      · rename_i o ho
        simp only [Prod.mk.injEq, Except.error.injEq] at h
        obtain ⟨rfl, rfl⟩ := h
        exact ih.evalArgs rest _ _ c p ho (fun x hx => hQ x (by simp [argsPosns, hx]))
      · simp at h

include hG in
theorem succ_call : ∀ f args s s' c p, Proc.Ref.call P (n + 1) f args s = (s', .error (.error c p)) →
    (∀ q ∈ argsPosns args, Q q) → Q p := by
  intro f args s s' c p h hQ
  simp only [Proc.Ref.call] at h
  split at h
  · simp at h
  · rename_i d hd
    split at h
    · rename_i o ho
      simp only [Prod.mk.injEq, Except.error.injEq] at h
      obtain ⟨rfl, rfl⟩ := h
      exact ih.evalArgs args _ _ c p ho hQ
    · split at h
      · simp at h
      · simp only [Prod.mk.injEq, Except.error.injEq] at h
        exact ih.exec d.body _ _ c p (Prod.ext rfl h.2) (hG d (List.mem_of_getElem? hd))

theorem succ_printItems : ∀ items s s' c p, Proc.Ref.printItems P (n + 1) items s = (s', .error c p) →
    (∀ q ∈ items.flatMap itemPosns, Q q) → Q p := by
  intro items s s' c p h hQ
  cases items with
  | nil => simp [Proc.Ref.printItems] at h
  | cons it rest =>
    cases it with
    | comma =>
      simp only [Proc.Ref.printItems] at h
      exact ih.printItems rest _ _ c p h (fun x hx => hQ x (by simp [itemPosns, hx]))
    | semicolon =>
      simp only [Proc.Ref.printItems] at h
      exact ih.printItems rest _ _ c p h (fun x hx => hQ x (by simp [itemPosns, hx]))
    | expr e =>
      simp only [Proc.Ref.printItems] at h
      split at h
      · rename_i o ho
        simp only [Prod.mk.injEq] at h
        obtain ⟨rfl, rfl⟩ := h
        exact ih.eval e _ _ c p ho (fun x hx => hQ x (by simp [itemPosns, hx]))
      · split at h
        · simp at h
        · exact ih.printItems rest _ _ c p h (fun x hx => hQ x (by simp [itemPosns, hx]))

theorem succ_evalCond : ∀ e s s' c p, Proc.Ref.evalCond P (n + 1) e s = (s', .error (.error c p)) →
    (∀ q ∈ exprPosns e, Q q) → Q p := by
  intro e s s' c p h hQ
  simp only [Proc.Ref.evalCond] at h
  split at h
  · rename_i o ho
    simp only [Prod.mk.injEq, Except.error.injEq] at h
    obtain ⟨rfl, rfl⟩ := h
    exact ih.eval e _ _ c p ho hQ
  · split at h
    · simp at h
    · simp only [Prod.mk.injEq, Except.error.injEq, Outcome.error.injEq] at h
      rw [← h.2.2]; exact hQ _ (pos_mem_exprPosns e)

theorem succ_caseMatches : ∀ q0 subj ce s s' c p,
    Proc.Ref.caseMatches P (n + 1) q0 subj ce s = (s', .error (.error c p)) →
    Q q0 → (∀ q ∈ caseExprPosns ce, Q q) → Q p := by
  intro q0 subj ce s s' c p h h0 hQ
  cases ce with
  | simple e =>
    simp only [Proc.Ref.caseMatches] at h
    split at h
    · rename_i o ho
      simp only [Prod.mk.injEq, Except.error.injEq] at h
      obtain ⟨rfl, rfl⟩ := h
      exact ih.eval e _ _ c p ho (fun x hx => hQ x (by simpa [caseExprPosns] using hx))
    · simp only [Prod.mk.injEq] at h
      rw [relTest_err h.2]; exact h0
  | is op e =>
    simp only [Proc.Ref.caseMatches] at h
    split at h
    · rename_i o ho
      simp only [Prod.mk.injEq, Except.error.injEq] at h
      obtain ⟨rfl, rfl⟩ := h
      exact ih.eval e _ _ c p ho (fun x hx => hQ x (by simpa [caseExprPosns] using hx))
    · simp only [Prod.mk.injEq] at h
      rw [relTest_err h.2]; exact h0
  | range lo hi =>
    simp only [Proc.Ref.caseMatches] at h
    split at h
    · rename_i o ho
      simp only [Prod.mk.injEq, Except.error.injEq] at h
      obtain ⟨rfl, rfl⟩ := h
      exact ih.eval lo _ _ c p ho (fun x hx => hQ x (by simp [caseExprPosns, hx]))
    · split at h
      · rename_i o ho
        simp only [Prod.mk.injEq, Except.error.injEq] at h
        obtain ⟨_, rfl⟩ := h
        rw [relTest_err ho]; exact h0
      · simp at h
      · split at h
        · rename_i o ho
          simp only [Prod.mk.injEq, Except.error.injEq] at h
          obtain ⟨rfl, rfl⟩ := h
          exact ih.eval hi _ _ c p ho (fun x hx => hQ x (by simp [caseExprPosns, hx]))
        · simp only [Prod.mk.injEq] at h
          rw [relTest_err h.2]; exact h0

theorem succ_anyMatches : ∀ q0 subj conds s s' c p,
    Proc.Ref.anyMatches P (n + 1) q0 subj conds s = (s', .error (.error c p)) →
    Q q0 → (∀ q ∈ conds.flatMap caseExprPosns, Q q) → Q p := by
  intro q0 subj conds s s' c p h h0 hQ
  cases conds with
  | nil => simp [Proc.Ref.anyMatches] at h
  | cons ce rest =>
    simp only [Proc.Ref.anyMatches] at h
    split at h
    · rename_i o ho
      simp only [Prod.mk.injEq, Except.error.injEq] at h
      obtain ⟨rfl, rfl⟩ := h
      exact ih.caseMatches q0 subj ce _ _ c p ho h0 (fun x hx => hQ x (by simp [hx]))
    · simp at h
    · exact ih.anyMatches q0 subj rest _ _ c p h h0 (fun x hx => hQ x (by simp [hx]))

theorem succ_exec : ∀ st s s' c p, Proc.Ref.exec P (n + 1) st s = (s', .error c p) →
    (∀ q ∈ stmtPosns st, Q q) → Q p := by
  intro st s s' c p h hQ
  cases st with
  | skip => simp [Proc.Ref.exec] at h
  | end_ q => simp [Proc.Ref.exec] at h
  | exitProc q => simp [Proc.Ref.exec] at h
  | seq a b =>
    simp only [Proc.Ref.exec] at h
    split at h
    · exact ih.exec b _ _ c p h (fun x hx => hQ x (by simp [stmtPosns, hx]))
    · exact ih.exec a _ _ c p h (fun x hx => hQ x (by simp [stmtPosns, hx]))
  | assign x t e q =>
    simp only [Proc.Ref.exec] at h
    split at h
    · simp at h
    · rename_i o ho
      simp only [Prod.mk.injEq] at h
      obtain ⟨rfl, rfl⟩ := h
      exact ih.evalTo e t _ _ c p ho (fun x hx => hQ x (by simp [stmtPosns, hx]))
  | print items q =>
    simp only [Proc.Ref.exec] at h
    split at h
    · split at h <;> simp at h
    · exact ih.printItems items _ _ c p h (fun x hx => hQ x (by simp [stmtPosns, hx]))
  | read x t q =>
    simp only [Proc.Ref.exec] at h
    split at h
    · simp only [Prod.mk.injEq, Outcome.error.injEq] at h
      rw [← h.2.2]; exact hQ _ (by simp [stmtPosns])
    · split at h
      · simp at h
      · simp only [Prod.mk.injEq, Outcome.error.injEq] at h
        rw [← h.2.2]; exact hQ _ (by simp [stmtPosns])
      · simp at h
  | ifs cnd thn els q =>
    simp only [Proc.Ref.exec] at h
    split at h
    · rename_i o ho
      simp only [Prod.mk.injEq] at h
      obtain ⟨rfl, rfl⟩ := h
      exact ih.evalCond cnd _ _ c p ho (fun x hx => hQ x (by simp [stmtPosns, hx]))
    · exact ih.exec thn _ _ c p h (fun x hx => hQ x (by simp [stmtPosns, hx]))
    · exact ih.exec els _ _ c p h (fun x hx => hQ x (by simp [stmtPosns, hx]))
  | select e cs q =>
    simp only [Proc.Ref.exec] at h
    split at h
    · rename_i o ho
      simp only [Prod.mk.injEq] at h
      obtain ⟨rfl, rfl⟩ := h
      exact ih.eval e _ _ c p ho (fun x hx => hQ x (by simp [stmtPosns, hx]))
    · exact ih.execCases q _ cs _ _ c p h (hQ _ (by simp [stmtPosns])) (fun x hx => hQ x (by simp [stmtPosns, hx]))
  | forLoop x t lo hi step body q =>
    have hq : Q q := hQ _ (by simp [stmtPosns])
    have hb : ∀ y ∈ stmtPosns body, Q y := fun y hy => hQ y (by simp [stmtPosns, hy])
    simp only [Proc.Ref.exec] at h
    split at h
    · rename_i o ho
      simp only [Prod.mk.injEq] at h
      obtain ⟨rfl, rfl⟩ := h
      exact ih.evalTo lo t _ _ c p ho (fun y hy => hQ y (by simp [stmtPosns, hy]))
    · split at h
      · rename_i o ho
        simp only [Prod.mk.injEq] at h
        obtain ⟨rfl, rfl⟩ := h
        exact ih.evalTo hi t _ _ c p ho (fun y hy => hQ y (by simp [stmtPosns, hy]))
      · split at h
        · exact ih.forIter _ _ _ _ _ body q _ _ c p h hq hb
        · rename_i se
          split at h
          · rename_i o ho
            simp only [Prod.mk.injEq] at h
            obtain ⟨rfl, rfl⟩ := h
            exact ih.eval se _ _ c p ho (fun y hy => hQ y (by simp [stmtPosns, optExprPosns, hy]))
          · split at h
            · rename_i o ho
              simp only [Prod.mk.injEq] at h
              obtain ⟨_, rfl⟩ := h
              rw [stepSign_err ho]; exact hq
            · exact ih.forIter _ _ _ _ _ body q _ _ c p h hq hb
            · exact ih.forIter _ _ _ _ _ body q _ _ c p h hq hb
            · simp only [Prod.mk.injEq, Outcome.error.injEq] at h
              rw [← h.2.2]; exact hQ _ (by simp [stmtPosns, optExprPosns, pos_mem_exprPosns])
  | «while» cnd body q =>
    simp only [Proc.Ref.exec] at h
    split at h
    · rename_i o ho
      simp only [Prod.mk.injEq] at h
      obtain ⟨rfl, rfl⟩ := h
      exact ih.evalCond cnd _ _ c p ho (fun x hx => hQ x (by simp [stmtPosns, hx]))
    · simp at h
    · split at h
      · exact ih.exec _ _ _ c p h hQ
      · exact ih.exec body _ _ c p h (fun x hx => hQ x (by simp [stmtPosns, hx]))
  | doLoop cnd top u body q =>
    simp only [Proc.Ref.exec] at h
    split at h
    · split at h
      · rename_i o ho
        simp only [Prod.mk.injEq] at h
        obtain ⟨rfl, rfl⟩ := h
        exact ih.evalCond cnd _ _ c p ho (fun x hx => hQ x (by simp [stmtPosns, hx]))
      · split at h
        · split at h
          · exact ih.exec _ _ _ c p h hQ
          · exact ih.exec body _ _ c p h (fun x hx => hQ x (by simp [stmtPosns, hx]))
        · simp at h
    · split at h
      · split at h
        · rename_i o ho
          simp only [Prod.mk.injEq] at h
          obtain ⟨rfl, rfl⟩ := h
          exact ih.evalCond cnd _ _ c p ho (fun x hx => hQ x (by simp [stmtPosns, hx]))
        · split at h
          · exact ih.exec _ _ _ c p h hQ
          · simp at h
      · exact ih.exec body _ _ c p h (fun x hx => hQ x (by simp [stmtPosns, hx]))
  | callSub f args q =>
    simp only [Proc.Ref.exec] at h
    split at h
    · simp at h
    · rename_i o ho
      simp only [Prod.mk.injEq] at h
      obtain ⟨rfl, rfl⟩ := h
      exact ih.call f args _ _ c p ho (fun x hx => hQ x (by simp [stmtPosns, hx]))

theorem succ_execCases : ∀ q0 subj cs s s' c p, Proc.Ref.execCases P (n + 1) q0 subj cs s = (s', .error c p) →
    Q q0 → (∀ q ∈ casesPosns cs, Q q) → Q p := by
  intro q0 subj cs s s' c p h h0 hQ
  cases cs with
  | nil => simp [Proc.Ref.execCases] at h
  | else_ body =>
    simp only [Proc.Ref.execCases] at h
    exact ih.exec body _ _ c p h (fun x hx => hQ x (by simpa [casesPosns] using hx))
  | case conds body rest =>
    simp only [Proc.Ref.execCases] at h
    split at h
    · rename_i o ho
      simp only [Prod.mk.injEq] at h
      obtain ⟨rfl, rfl⟩ := h
      exact ih.anyMatches q0 subj conds _ _ c p ho h0 (fun x hx => hQ x (by
        simp only [casesPosns, List.mem_append]; exact .inl (.inl hx)))
    · exact ih.exec body _ _ c p h (fun x hx => hQ x (by simp [casesPosns, hx]))
    · exact ih.execCases q0 subj rest _ _ c p h h0 (fun x hx => hQ x (by simp [casesPosns, hx]))

theorem succ_forIter : ∀ x t hv sv up body q0 s s' c p,
    Proc.Ref.forIter P (n + 1) x t hv sv up body q0 s = (s', .error c p) →
    Q q0 → (∀ q ∈ stmtPosns body, Q q) → Q p := by
  intro x t hv sv up body q0 s s' c p h h0 hQ
  simp only [Proc.Ref.forIter] at h
  split at h
  · rename_i o ho
    simp only [Prod.mk.injEq] at h
    obtain ⟨_, rfl⟩ := h
    rw [relTest_err ho]; exact h0
  · simp at h
  · split at h
    · split at h
      · exact ih.forIter _ _ _ _ _ body q0 _ _ c p h h0 hQ
      · simp only [Prod.mk.injEq, Outcome.error.injEq] at h
        rw [← h.2.2]; exact h0
      · simp at h
    · exact ih.exec body _ _ c p h hQ

end succ

theorem errPos_all {P : Program} {Q : Pos → Prop} (hG : ∀ d, d ∈ P.procs → ∀ q ∈ stmtPosns d.body, Q q) :
    ∀ n, ErrPos P Q n
  | 0 => errPos_zero P Q
  | n + 1 =>
    have ih := errPos_all hG n
    ⟨succ_eval ih, succ_evalTo ih, succ_evalArgs ih, succ_call hG ih, succ_printItems ih, succ_evalCond ih,
      succ_caseMatches ih, succ_anyMatches ih, succ_exec ih, succ_execCases ih, succ_forIter ih⟩

/-! ### the source tree (`SStmt`, what the front end delivers) and its desugaring -/

mutual
/-- every position that occurs in a statement of the source syntax -/
def sstmtPosns : SStmt → List Pos
  | .skip => []
  | .seq a b => sstmtPosns a ++ sstmtPosns b
  | .comment => []
  | .dim _ _ p => [p]
  | .sdim _ _ p => [p]
  | .assign _ _ e p => p :: exprPosns e
  | .print items p => p :: items.flatMap itemPosns
  | .data items p => p :: items.map (·.2)
  | .read vars p => p :: vars.map (·.2.2)
  | .ifBlock c thn elifs _ els p => p :: (exprPosns c ++ sstmtPosns thn ++ elifsPosns elifs ++ sstmtPosns els)
  | .select e cases _ els p => p :: (exprPosns e ++ scasesPosns cases ++ sstmtPosns els)
  | .forLoop _ _ lo hi step body p => p :: (exprPosns lo ++ exprPosns hi ++ optExprPosns step ++ sstmtPosns body)
  | .while c body p => p :: (exprPosns c ++ sstmtPosns body)
  | .doLoop c _ _ body p => p :: (exprPosns c ++ sstmtPosns body)
  | .end_ p => [p]
  | .callSub _ args p => p :: argsPosns args
  | .exitProc p => [p]
def elifsPosns : ElseIfs → List Pos
  | .nil => []
  | .cons c body rest => exprPosns c ++ sstmtPosns body ++ elifsPosns rest
def scasesPosns : SCases → List Pos
  | .nil => []
  | .cons conds body rest => conds.flatMap caseExprPosns ++ sstmtPosns body ++ scasesPosns rest
end

theorem readSeq_posns (p q : Pos) : ∀ vars : List (Var × Ty × Pos), q ∈ stmtPosns (readSeq p vars) → q = p
  | [], h => by simp [readSeq, stmtPosns] at h
  | (x, t, r) :: rest, h => by
    simp only [readSeq, stmtPosns, List.mem_append, List.mem_cons, List.not_mem_nil, or_false] at h
    rcases h with h | h
    · exact h
    · exact readSeq_posns p q rest h

mutual
/-- desugaring adds no positions -/
theorem desugar_posns (q : Pos) : ∀ s : SStmt, q ∈ stmtPosns (desugar s) → q ∈ sstmtPosns s
  | .skip, h => by simp [desugar, stmtPosns] at h
  | .comment, h => by simp [desugar, stmtPosns] at h
  | .data _ _, h => by simp [desugar, stmtPosns] at h
  | .sdim _ _ _, h => by simp [desugar, stmtPosns] at h
  | .seq a b, h => by
    simp only [desugar, stmtPosns, List.mem_append] at h
    rcases h with h | h
    · simp [sstmtPosns, desugar_posns q a h]
    · simp [sstmtPosns, desugar_posns q b h]
  | .dim x t p, h => by simpa [desugar, stmtPosns, exprPosns, sstmtPosns] using h
  | .assign x t e p, h => by simpa [desugar, stmtPosns, sstmtPosns] using h
  | .print items p, h => by simpa [desugar, stmtPosns, sstmtPosns] using h
  | .read vars p, h => by
    simp only [desugar] at h
    simp [sstmtPosns, readSeq_posns p q vars h]
  | .ifBlock c thn elifs he els p, h => by
    simp only [desugar, stmtPosns, List.mem_append, List.mem_cons] at h
    rcases h with h | (h | h) | h
    · simp [sstmtPosns, h]
    · simp [sstmtPosns, h]
    · simp [sstmtPosns, desugar_posns q thn h]
    · rcases desugarElifs_posns q elifs (desugar els) p h with h1 | h1 | h1
      · simp [sstmtPosns, h1]
      · simp [sstmtPosns, h1]
      · simp [sstmtPosns, desugar_posns q els h1]
  | .select e cases he els p, h => by
    simp only [desugar, stmtPosns, List.mem_append, List.mem_cons] at h
    rcases h with h | h | h
    · simp [sstmtPosns, h]
    · simp [sstmtPosns, h]
    · rcases desugarCases_posns q cases _ h with h1 | h1
      · simp [sstmtPosns, h1]
      · cases he with
        | true =>
          simp only [if_true, casesPosns] at h1
          simp [sstmtPosns, desugar_posns q els h1]
        | false => simp [casesPosns] at h1
  | .forLoop x t lo hi step body p, h => by
    simp only [desugar, stmtPosns, List.mem_append, List.mem_cons] at h
    rcases h with h | ((h | h) | h) | h
    · simp [sstmtPosns, h]
    · simp [sstmtPosns, h]
    · simp [sstmtPosns, h]
    · simp [sstmtPosns, h]
    · simp [sstmtPosns, desugar_posns q body h]
  | .while c body p, h => by
    simp only [desugar, stmtPosns, List.mem_append, List.mem_cons] at h
    rcases h with h | h | h
    · simp [sstmtPosns, h]
    · simp [sstmtPosns, h]
    · simp [sstmtPosns, desugar_posns q body h]
  | .doLoop c top u body p, h => by
    simp only [desugar, stmtPosns, List.mem_append, List.mem_cons] at h
    rcases h with h | h | h
    · simp [sstmtPosns, h]
    · simp [sstmtPosns, h]
    · simp [sstmtPosns, desugar_posns q body h]
  | .end_ p, h => by simpa [desugar, stmtPosns, sstmtPosns] using h
  | .callSub f args p, h => by simpa [desugar, stmtPosns, sstmtPosns] using h
  | .exitProc p, h => by simpa [desugar, stmtPosns, sstmtPosns] using h
theorem desugarElifs_posns (q : Pos) : ∀ (e : ElseIfs) (els : Stmt) (p : Pos),
    q ∈ stmtPosns (desugarElifs e els p) → q = p ∨ q ∈ elifsPosns e ∨ q ∈ stmtPosns els
  | .nil, els, p, h => by simp only [desugarElifs] at h; exact .inr (.inr h)
  | .cons c body rest, els, p, h => by
    simp only [desugarElifs, stmtPosns, List.mem_append, List.mem_cons] at h
    rcases h with h | (h | h) | h
    · exact .inl h
    · exact .inr (.inl (by simp [elifsPosns, h]))
    · exact .inr (.inl (by simp [elifsPosns, desugar_posns q body h]))
    · rcases desugarElifs_posns q rest els p h with h1 | h1 | h1
      · exact .inl h1
      · exact .inr (.inl (by simp [elifsPosns, h1]))
      · exact .inr (.inr h1)
theorem desugarCases_posns (q : Pos) : ∀ (cs : SCases) (tail : Cases),
    q ∈ casesPosns (desugarCases cs tail) → q ∈ scasesPosns cs ∨ q ∈ casesPosns tail
  | .nil, tail, h => by simp only [desugarCases] at h; exact .inr h
  | .cons conds body rest, tail, h => by
    simp only [desugarCases, casesPosns, List.mem_append] at h
    rcases h with (h | h) | h
    · exact .inl (by simp [scasesPosns, h])
    · exact .inl (by simp [scasesPosns, desugar_posns q body h])
    · rcases desugarCases_posns q rest tail h with h1 | h1
      · exact .inl (by simp [scasesPosns, h1])
      · exact .inr h1
end

/-- the positions of a program: those of the main module and of every procedure body -/
def InProgram (prog : SProgram) (p : Pos) : Prop :=
  p ∈ sstmtPosns prog.body ∨ ∃ d, d ∈ prog.procs ∧ p ∈ sstmtPosns d.body

/-! ### the property theorems -/

open RbThm.C08Layers.Procs (Finished finished run_of_steps_halt run_of_steps_err)

/-- **`ref_error_pos_within_program`** (procedures layer) — the position the reference semantics prescribes for a
run-time error is a position carried by a node of the program: of the main module, or of the body of one of its
procedures (an error raised inside a procedure is *not* moved to the call site). -/
theorem ref_error_pos_within_program (prog : SProgram) (fuel c : Nat) (p : Pos)
    (h : (Proc.Ref.run fuel prog.toAst).2 = .error c p) : InProgram prog p := by
  unfold Proc.Ref.run at h
  generalize hr : Proc.Ref.exec prog.toAst fuel prog.toAst.body (St.init prog.toAst) = r at h
  obtain ⟨s', o⟩ := r
  simp only at h
  subst h
  have hG : ∀ d, d ∈ prog.toAst.procs → ∀ q ∈ stmtPosns d.body, InProgram prog q := by
    intro d hd q hq
    simp only [SProgram.toAst, List.mem_map] at hd
    obtain ⟨d0, hd0, rfl⟩ := hd
    exact .inr ⟨d0, hd0, desugar_posns q d0.body hq⟩
  exact (errPos_all hG fuel).exec _ _ _ c p hr (fun q hq => .inl (desugar_posns q prog.body hq))

/-- **an error inside a procedure is reported at the failing statement inside the procedure.**  If the arguments of a
call of procedure `f` evaluate and the body of `f` then fails with error `c` at `p`, the call fails with exactly
`(c, p)` — not at the call site — and `p` is a position occurring in the body of `f`, or in the body of a procedure
called (to any depth) while that body ran. -/
theorem error_in_procedure_at_body_pos (P : Program) (fuel f : Nat) (args : Args) (s s1 s2 : St) (d : ProcDecl Stmt)
    (vals : List Val) (c : Nat) (p : Pos)
    (hd : P.procs[f]? = some d) (ha : Proc.Ref.evalArgs P fuel args s = (s1, .ok vals))
    (hb : Proc.Ref.exec P fuel d.body (enter d f vals s1) = (s2, .error c p)) :
    Proc.Ref.call P (fuel + 1) f args s = (s2, .error (.error c p)) ∧
      (p ∈ stmtPosns d.body ∨ ∃ d', d' ∈ P.procs ∧ p ∈ stmtPosns d'.body) := by
  refine ⟨by simp [Proc.Ref.call, hd, ha, hb, returns], ?_⟩
  exact (errPos_all (P := P) (Q := fun p => p ∈ stmtPosns d.body ∨ ∃ d', d' ∈ P.procs ∧ p ∈ stmtPosns d'.body)
    (fun d' hd' q hq => .inr ⟨d', hd', hq⟩) fuel).exec _ _ _ c p hb (fun q hq => .inl hq)

/-- **`runtime_error_pos_is_ref_pos`** (procedures layer) — for a program the premise checker accepts on which the
reference run finishes, whatever error the VM model stops with — at any step budget — is the reference's: same code,
same position. -/
theorem runtime_error_pos_is_ref_pos (prog : SProgram) (fuel : Nat) (hw : progWfB prog = true)
    (hfin : Finished (Proc.Ref.run fuel prog.toAst).2) :
    ∀ (m c : Nat) (p : Pos) (ω : Vm), Vm.run (compile prog) m Vm.init = .error c p ω →
      (Proc.Ref.run fuel prog.toAst).2 = .error c p := by
  intro m c p ω hrun
  have h := RbThm.ProcSim.compile_correct_checked prog fuel hw
  rcases hr : Proc.Ref.run fuel prog.toAst with ⟨s', o⟩
  rw [hr] at h hfin
  cases o with
  | normal =>
    obtain ⟨τ, υ, hs, hh, _⟩ := h
    rcases run_of_steps_halt _ hs hh m with h1 | h1 <;> rw [h1] at hrun <;> cases hrun
  | halted =>
    obtain ⟨τ, υ, hs, hh, _⟩ := h
    rcases run_of_steps_halt _ hs hh m with h1 | h1 <;> rw [h1] at hrun <;> cases hrun
  | error c' p' =>
    obtain ⟨τ, υ, hs, hh, _⟩ := h
    rcases run_of_steps_err _ hs hh m with h1 | h1 <;> rw [h1] at hrun <;> cases hrun
    rfl
  | inexact => simp [Finished, finished] at hfin
  | outOfFuel => simp [Finished, finished] at hfin
  | exited => simp [Finished, finished] at hfin
  | illFormed => simp [Finished, finished] at hfin

/-- **`runtime_error_pos_within_program`** (procedures layer) — hence the position reported with a run-time error of
the VM run is a position carried by a node of the main module or of a procedure body. -/
theorem runtime_error_pos_within_program (prog : SProgram) (fuel : Nat) (hw : progWfB prog = true)
    (hfin : Finished (Proc.Ref.run fuel prog.toAst).2) :
    ∀ (m c : Nat) (p : Pos) (ω : Vm), Vm.run (compile prog) m Vm.init = .error c p ω → InProgram prog p :=
  fun m c p ω hrun =>
    ref_error_pos_within_program prog fuel c p (runtime_error_pos_is_ref_pos prog fuel hw hfin m c p ω hrun)

/-! non-vacuity: `RbThm.C08Layers.Procs.demo 32767` (`X% = 1 : Inc X% : …` with `SUB Inc (N%) : N% = N% + 32767`) is
accepted, its reference run ends with Overflow (6) at row 5 col 11 — the `+` inside the SUB, not the call at row 2 —
and that is a position of the SUB's body -/
example : progWfB (RbThm.C08Layers.Procs.demo 32767) = true ∧
    Finished (Proc.Ref.run 100 (RbThm.C08Layers.Procs.demo 32767).toAst).2 ∧
    (match (Proc.Ref.run 100 (RbThm.C08Layers.Procs.demo 32767).toAst).2 with
     | .error 6 ⟨5, 11⟩ => true | _ => false) = true := by decide +kernel

example : InProgram (RbThm.C08Layers.Procs.demo 32767) ⟨5, 11⟩ :=
  .inr ⟨_, List.mem_cons_of_mem _ (List.mem_cons_self ..), by decide +kernel⟩

end RbThm.C11Layers.Procs

namespace RbThm.C11Layers.Arrays
set_option linter.unusedVariables false
open RbModel RbModel.Num RbModel.ArrL RbModel.ArrL.Compile RbModel.ArrL.Vm RbModel.ArrL.Ref
open RbModel.Ast (Pos)

/-! ### positions that occur in a piece of syntax -/

mutual
def exprPosns : ArrL.Expr → List Pos
  | .lit _ p => [p]
  | .var _ _ p => [p]
  | .un _ e p => p :: exprPosns e
  | .bin _ l r _ p => p :: (exprPosns l ++ exprPosns r)
  | .paren e p => p :: exprPosns e
  | .elem _ idx _ p => p :: exprsPosns idx
  | .bound _ _ _ ap p => [p, ap]
  | .boundD _ _ _ ap d p => p :: ap :: exprPosns d
def exprsPosns : Exprs → List Pos
  | .nil => []
  | .cons e rest => exprPosns e ++ exprsPosns rest
end

def itemPosns : PrintItem → List Pos
  | .expr e => exprPosns e
  | _ => []

def caseExprPosns : CaseExpr → List Pos
  | .simple e => exprPosns e
  | .is _ e => exprPosns e
  | .range lo hi => exprPosns lo ++ exprPosns hi

def optExprPosns : Option ArrL.Expr → List Pos
  | none => []
  | some e => exprPosns e

def dimsPosns : Dims → List Pos
  | .nil => []
  | .cons lo hi rest => optExprPosns lo ++ exprPosns hi ++ dimsPosns rest

def targetPosns : ReadTarget → List Pos
  | .var _ _ p => [p]
  | .elem _ _ idx p => p :: exprsPosns idx

mutual
/-- every position that occurs in a statement of the reference syntax -/
def stmtPosns : Stmt → List Pos
  | .skip => []
  | .seq a b => stmtPosns a ++ stmtPosns b
  | .assign _ _ e p => p :: exprPosns e
  | .dimArr _ _ dims p => p :: dimsPosns dims
  | .assignElem _ _ idx e p => p :: (exprsPosns idx ++ exprPosns e)
  | .print items p => p :: items.flatMap itemPosns
  | .read tg p => p :: targetPosns tg
  | .ifs c thn els p => p :: (exprPosns c ++ stmtPosns thn ++ stmtPosns els)
  | .select e cs p => p :: (exprPosns e ++ casesPosns cs)
  | .forLoop _ _ lo hi step body p => p :: (exprPosns lo ++ exprPosns hi ++ optExprPosns step ++ stmtPosns body)
  | .while c body p => p :: (exprPosns c ++ stmtPosns body)
  | .doLoop c _ _ body p => p :: (exprPosns c ++ stmtPosns body)
  | .end_ p => [p]
def casesPosns : Cases → List Pos
  | .nil => []
  | .else_ body => stmtPosns body
  | .case conds body rest => conds.flatMap caseExprPosns ++ stmtPosns body ++ casesPosns rest
end

theorem pos_mem_exprPosns (e : ArrL.Expr) : e.pos ∈ exprPosns e := by
  cases e <;> simp [Expr.pos, exprPosns]

/-! ### expressions -/

theorem bind_err {α β : Type} {r : ERes α} {f : α → ERes β} {c : Nat} {p : Pos} (h : r.bind f = .err c p) :
    r = .err c p ∨ ∃ v, r = .ok v ∧ f v = .err c p := by
  cases r with
  | ok v => exact .inr ⟨v, rfl, h⟩
  | err c' p' => exact .inl (by simpa [ERes.bind] using h)
  | inexact => cases h
  | illFormed => cases h

theorem lift_err {q : Pos} {r : Res Val} {c : Nat} {p : Pos} (h : lift q r = .err c p) : p = q := by
  cases r <;> simp [lift] at h; exact h.2.symm

theorem toIndex_err {q : Pos} {r : Res Val} {c : Nat} {p : Pos} (h : toIndex q r = .err c p) : p = q := by
  unfold toIndex at h
  split at h
  · cases h
  · cases h
  · simp only [ERes.err.injEq] at h; exact h.2.symm
  · cases h

theorem getArr_err {arrs : List (Option RArr)} {a : Nat} {c : Nat} {p : Pos} : getArr arrs a ≠ .err c p := by
  unfold getArr; split <;> simp

theorem boundOf_err {upper : Bool} {A : RArr} {d : Int} {q : Pos} {c : Nat} {p : Pos}
    (h : boundOf upper A d q = .err c p) : p = q := by
  unfold boundOf at h
  split at h
  · simp at h; exact h.2.symm
  · split at h
    · cases h
    · simp at h; exact h.2.symm

mutual
theorem eval_err (env : List Val) (arrs : List (Option RArr)) (c : Nat) (p : Pos) :
    ∀ e, eval env arrs e = .err c p → p ∈ exprPosns e
  | .lit _ _, h => by simp [eval] at h
  | .var _ _ _, h => by simp [eval] at h
  | .un .neg e q, h => by
    simp only [eval] at h
    rcases bind_err h with h | ⟨v, _, h⟩
    · simp [exprPosns, eval_err env arrs c p e h]
    · simp [exprPosns, lift_err h]
  | .un .not e q, h => by
    simp only [eval] at h
    rcases bind_err h with h | ⟨v, _, h⟩
    · simp [exprPosns, eval_err env arrs c p e h]
    · simp [exprPosns, lift_err h]
  | .bin op l r t q, h => by
    simp only [eval] at h
    rcases bind_err h with h | ⟨a, _, h⟩
    · simp [exprPosns, eval_err env arrs c p l h]
    · rcases bind_err h with h | ⟨b, _, h⟩
      · simp [exprPosns, eval_err env arrs c p r h]
      · simp [exprPosns, lift_err h]
  | .paren e q, h => by
    simp only [eval] at h
    simp [exprPosns, eval_err env arrs c p e h]
  | .elem a idx t q, h => by
    simp only [eval] at h
    rcases bind_err h with h | ⟨is, _, h⟩
    · simp [exprPosns, evalIdx_err env arrs c p idx h]
    · rcases bind_err h with h | ⟨A, _, h⟩
      · exact absurd h getArr_err
      · split at h
        · cases h
        · simp at h; simp [exprPosns, h.2.symm]
  | .bound upper a t ap q, h => by
    simp only [eval] at h
    rcases bind_err h with h | ⟨A, _, h⟩
    · exact absurd h getArr_err
    · simp [exprPosns, boundOf_err h]
  | .boundD upper a t ap d q, h => by
    simp only [eval] at h
    rcases bind_err h with h | ⟨A, _, h⟩
    · exact absurd h getArr_err
    · rcases bind_err h with h | ⟨dv, _, h⟩
      · simp [exprPosns, eval_err env arrs c p d h]
      · rcases bind_err h with h | ⟨k, _, h⟩
        · simp [exprPosns, toIndex_err h]
        · simp [exprPosns, boundOf_err h]
theorem evalIdx_err (env : List Val) (arrs : List (Option RArr)) (c : Nat) (p : Pos) :
    ∀ idx, evalIdx env arrs idx = .err c p → p ∈ exprsPosns idx
  | .nil, h => by simp [evalIdx] at h
  | .cons e rest, h => by
    simp only [evalIdx] at h
    rcases bind_err h with h | ⟨v, _, h⟩
    · simp [exprsPosns, eval_err env arrs c p e h]
    · rcases bind_err h with h | ⟨i, _, h⟩
      · simp [exprsPosns, toIndex_err h, pos_mem_exprPosns]
      · rcases bind_err h with h | ⟨is, _, h⟩
        · simp [exprsPosns, evalIdx_err env arrs c p rest h]
        · cases h
end

/-! ### the pieces of a statement -/

theorem outcomeOf_err {α : Type} {r : ERes α} {c : Nat} {p : Pos} (h : outcomeOf r = .error c p) : r = .err c p := by
  cases r <;> simp [outcomeOf] at h; obtain ⟨rfl, rfl⟩ := h; rfl

theorem evalTo_err {env : List Val} {arrs : List (Option RArr)} {e : ArrL.Expr} {t : Ty} {c : Nat} {p : Pos}
    (h : evalTo env arrs e t = .err c p) : p ∈ exprPosns e := by
  unfold evalTo at h
  rcases bind_err h with h | ⟨v, _, h⟩
  · exact eval_err env arrs c p e h
  · rw [lift_err h]; exact pos_mem_exprPosns e

theorem evalCond_err {s : St} {e : ArrL.Expr} {c : Nat} {p : Pos} (h : evalCond s e = .error (.error c p)) :
    p ∈ exprPosns e := by
  unfold evalCond at h
  split at h
  · split at h
    · cases h
    · simp only [Except.error.injEq, Outcome.error.injEq] at h; rw [← h.2]; exact pos_mem_exprPosns e
  · simp only [Except.error.injEq] at h
    exact eval_err _ _ c p e (outcomeOf_err h)

theorem evalE_err {s : St} {e : ArrL.Expr} {c : Nat} {p : Pos} (h : evalE s e = .error (.error c p)) :
    p ∈ exprPosns e := by
  unfold evalE at h
  split at h
  · cases h
  · simp only [Except.error.injEq] at h
    exact eval_err _ _ c p e (outcomeOf_err h)

theorem relTest_err {q : Pos} {op : Op} {a b : Val} {c : Nat} {p : Pos}
    (h : relTest q op a b = .error (.error c p)) : p = q := by
  unfold relTest at h
  split at h
  · cases h
  · simp only [Except.error.injEq, Outcome.error.injEq] at h; exact h.2.symm
  · cases h

theorem stepSign_err {q : Pos} {v : Val} {c : Nat} {p : Pos} (h : stepSign q v = .error (.error c p)) : p = q := by
  unfold stepSign at h
  split at h
  · rename_i o ho; cases h; exact relTest_err ho
  · cases h
  · split at h
    · rename_i o ho; cases h; exact relTest_err ho
    · cases h
    · cases h

theorem caseMatches_err {s : St} {q : Pos} {subj : Val} {ce : CaseExpr} {c : Nat} {p : Pos}
    (h : caseMatches s q subj ce = .error (.error c p)) : p = q ∨ p ∈ caseExprPosns ce := by
  cases ce with
  | simple e =>
    simp only [caseMatches] at h
    split at h
    · rename_i o ho; cases h; exact .inr (by simpa [caseExprPosns] using evalE_err ho)
    · exact .inl (relTest_err h)
  | is op e =>
    simp only [caseMatches] at h
    split at h
    · rename_i o ho; cases h; exact .inr (by simpa [caseExprPosns] using evalE_err ho)
    · exact .inl (relTest_err h)
  | range lo hi =>
    simp only [caseMatches] at h
    split at h
    · rename_i o ho; cases h; exact .inr (by simp [caseExprPosns, evalE_err ho])
    · split at h
      · rename_i o ho; cases h; exact .inl (relTest_err ho)
      · cases h
      · split at h
        · rename_i o ho; cases h; exact .inr (by simp [caseExprPosns, evalE_err ho])
        · exact .inl (relTest_err h)

theorem anyMatches_err {s : St} {q : Pos} {subj : Val} {c : Nat} {p : Pos} :
    ∀ conds : List CaseExpr, anyMatches s q subj conds = .error (.error c p) →
      p = q ∨ p ∈ conds.flatMap caseExprPosns
  | [], h => by simp [anyMatches] at h
  | ce :: rest, h => by
    simp only [anyMatches] at h
    split at h
    · rename_i o ho; cases h
      rcases caseMatches_err ho with h1 | h1
      · exact .inl h1
      · exact .inr (by simp [h1])
    · cases h
    · rcases anyMatches_err rest h with h1 | h1
      · exact .inl h1
      · exact .inr (by simp [h1])

theorem printItems_err {c : Nat} {p : Pos} : ∀ (items : List PrintItem) (s s' : St),
    printItems s items = (s', .error c p) → p ∈ items.flatMap itemPosns
  | [], s, s', h => by simp [printItems] at h
  | .comma :: rest, s, s', h => by
    simp only [printItems] at h
    simpa [itemPosns] using printItems_err rest _ _ h
  | .semicolon :: rest, s, s', h => by
    simp only [printItems] at h
    simpa [itemPosns] using printItems_err rest _ _ h
  | .expr e :: rest, s, s', h => by
    simp only [printItems] at h
    split at h
    · split at h
      · cases h
      · have := printItems_err rest _ _ h
        simp [itemPosns, this]
    · simp only [Prod.mk.injEq] at h
      simp [itemPosns, eval_err _ _ c p e (outcomeOf_err h.2)]

theorem evalDims_err {env : List Val} {arrs : List (Option RArr)} {c : Nat} {p : Pos} :
    ∀ dims, evalDims env arrs dims = .err c p → p ∈ dimsPosns dims
  | .nil, h => by simp [evalDims] at h
  | .cons lo hi rest, h => by
    simp only [evalDims] at h
    rcases bind_err h with h | ⟨l, _, h⟩
    · cases lo with
      | none => cases h
      | some e => simp [dimsPosns, optExprPosns, eval_err env arrs c p e h]
    · rcases bind_err h with h | ⟨hv, _, h⟩
      · simp [dimsPosns, eval_err env arrs c p hi h]
      · rcases bind_err h with h | ⟨ds, _, h⟩
        · simp [dimsPosns, evalDims_err rest h]
        · cases h

theorem convDims_err {q : Pos} {c : Nat} {p : Pos} : ∀ vs, convDims q vs = .err c p → p = q
  | [], h => by simp [convDims] at h
  | (l, hv) :: rest, h => by
    simp only [convDims] at h
    rcases bind_err h with h | ⟨lo, _, h⟩
    · exact toIndex_err h
    · rcases bind_err h with h | ⟨hi, _, h⟩
      · exact toIndex_err h
      · rcases bind_err h with h | ⟨ds, _, h⟩
        · exact convDims_err rest h
        · cases h

theorem dimArray_err {s : St} {t : Ty} {dims : Dims} {q : Pos} {c : Nat} {p : Pos}
    (h : dimArray s t dims q = .error (.error c p)) : p = q ∨ p ∈ dimsPosns dims := by
  unfold dimArray at h
  split at h
  · split at h
    · simp only [Except.error.injEq, Outcome.error.injEq] at h; exact .inl h.2.symm
    · split at h <;> cases h
  · simp only [Except.error.injEq] at h
    rcases bind_err (outcomeOf_err h) with h | ⟨vs, _, h⟩
    · exact .inr (evalDims_err dims h)
    · exact .inl (convDims_err vs h)

theorem readItem_err {s : St} {t : Ty} {q : Pos} {c : Nat} {p : Pos}
    (h : readItem s t q = .error (.error c p)) : p = q := by
  unfold readItem at h
  split at h
  · simp only [Except.error.injEq, Outcome.error.injEq] at h; exact h.2.symm
  · split at h
    · cases h
    · simp only [Except.error.injEq, Outcome.error.injEq] at h; exact h.2.symm
    · cases h

theorem idxArr_err {env : List Val} {arrs : List (Option RArr)} {idx : Exprs} {a : Nat} {c : Nat} {p : Pos}
    (h : ((evalIdx env arrs idx).bind fun is => (getArr arrs a).bind fun A => ERes.ok (is, A)) = .err c p) :
    p ∈ exprsPosns idx := by
  rcases bind_err h with h | ⟨is, _, h⟩
  · exact evalIdx_err env arrs c p idx h
  · rcases bind_err h with h | ⟨A, _, h⟩
    · exact absurd h getArr_err
    · cases h

/-! ### statements: the position of an error is a position of the statement -/

/-- the claim at a given amount of fuel, for the three mutually recursive functions -/
def ErrPos (fuel : Nat) : Prop :=
  (∀ st s s' c p, exec fuel st s = (s', .error c p) → p ∈ stmtPosns st) ∧
  (∀ q subj cs s s' c p, execCases fuel q subj cs s = (s', .error c p) → p = q ∨ p ∈ casesPosns cs) ∧
  (∀ x t hv sv up body q s s' c p, forIter fuel x t hv sv up body q s = (s', .error c p) →
      p = q ∨ p ∈ stmtPosns body)

theorem errPos_zero : ErrPos 0 := by
  refine ⟨?_, ?_, ?_⟩
  · intro st s s' c p h; simp [exec] at h
  · intro q subj cs s s' c p h; simp [execCases] at h
  · intro x t hv sv up body q s s' c p h; simp [forIter] at h

theorem errPos_succ (n : Nat) (ih : ErrPos n) : ErrPos (n + 1) := by
  obtain ⟨ihE, ihC, ihF⟩ := ih
  refine ⟨?_, ?_, ?_⟩
  · intro st s s' c p h
    cases st with
    | skip => simp [exec] at h
    | end_ q => simp [exec] at h
    | seq a b =>
      simp only [exec] at h
      split at h
      · simp [stmtPosns, ihE b _ _ c p h]
      · simp [stmtPosns, ihE a _ _ c p h]
    | assign x t e q =>
      simp only [exec] at h
      split at h
      · cases h
      · simp only [Prod.mk.injEq] at h
        simp [stmtPosns, evalTo_err (outcomeOf_err h.2)]
    | dimArr a t dims q =>
      simp only [exec] at h
      split at h
      · cases h
      · rename_i o ho
        simp only [Prod.mk.injEq] at h
        obtain ⟨_, rfl⟩ := h
        rcases dimArray_err ho with h1 | h1 <;> simp [stmtPosns, h1]
    | assignElem a t idx e q =>
      simp only [exec] at h
      split at h
      · split at h
        · split at h
          · cases h
          · simp only [Prod.mk.injEq, Outcome.error.injEq] at h
            simp [stmtPosns, h.2.2.symm]
        · simp only [Prod.mk.injEq] at h
          simp [stmtPosns, idxArr_err (outcomeOf_err h.2)]
      · simp only [Prod.mk.injEq] at h
        simp [stmtPosns, evalTo_err (outcomeOf_err h.2)]
    | print items q =>
      simp only [exec] at h
      split at h
      · split at h <;> cases h
      · simp [stmtPosns, printItems_err items _ _ h]
    | read tg q =>
      cases tg with
      | var x t r =>
        simp only [exec] at h
        split at h
        · cases h
        · rename_i o ho
          simp only [Prod.mk.injEq] at h
          obtain ⟨_, rfl⟩ := h
          simp [stmtPosns, readItem_err ho]
      | elem a t idx r =>
        simp only [exec] at h
        split at h
        · split at h
          · split at h
            · cases h
            · rename_i o ho
              simp only [Prod.mk.injEq] at h
              obtain ⟨_, rfl⟩ := h
              simp [stmtPosns, readItem_err ho]
          · simp only [Prod.mk.injEq, Outcome.error.injEq] at h
            simp [stmtPosns, targetPosns, h.2.2.symm]
        · simp only [Prod.mk.injEq] at h
          simp [stmtPosns, targetPosns, idxArr_err (outcomeOf_err h.2)]
    | ifs cnd thn els q =>
      simp only [exec] at h
      split at h
      · rename_i o ho
        simp only [Prod.mk.injEq] at h
        obtain ⟨_, rfl⟩ := h
        simp [stmtPosns, evalCond_err ho]
      · simp [stmtPosns, ihE thn _ _ c p h]
      · simp [stmtPosns, ihE els _ _ c p h]
    | select e cs q =>
      simp only [exec] at h
      split at h
      · rename_i o ho
        simp only [Prod.mk.injEq] at h
        obtain ⟨_, rfl⟩ := h
        simp [stmtPosns, evalE_err ho]
      · rcases ihC q _ cs _ _ c p h with h1 | h1 <;> simp [stmtPosns, h1]
    | forLoop x t lo hi step body q =>
      simp only [exec] at h
      split at h
      · split at h
        · split at h
          · rcases ihF _ _ _ _ _ _ _ _ _ c p h with h1 | h1 <;> simp [stmtPosns, h1]
          · rename_i se
            split at h
            · rename_i o ho
              simp only [Prod.mk.injEq] at h
              obtain ⟨_, rfl⟩ := h
              simp [stmtPosns, optExprPosns, evalE_err ho]
            · split at h
              · rename_i o ho
                simp only [Prod.mk.injEq] at h
                obtain ⟨_, rfl⟩ := h
                simp [stmtPosns, stepSign_err ho]
              · rcases ihF _ _ _ _ _ _ _ _ _ c p h with h1 | h1 <;> simp [stmtPosns, h1]
              · rcases ihF _ _ _ _ _ _ _ _ _ c p h with h1 | h1 <;> simp [stmtPosns, h1]
              · simp only [Prod.mk.injEq, Outcome.error.injEq] at h
                simp [stmtPosns, optExprPosns, ← h.2.2, pos_mem_exprPosns]
        · simp only [Prod.mk.injEq] at h
          simp [stmtPosns, evalTo_err (outcomeOf_err h.2)]
      · simp only [Prod.mk.injEq] at h
        simp [stmtPosns, evalTo_err (outcomeOf_err h.2)]
    | «while» cnd body q =>
      simp only [exec] at h
      split at h
      · rename_i o ho
        simp only [Prod.mk.injEq] at h
        obtain ⟨_, rfl⟩ := h
        simp [stmtPosns, evalCond_err ho]
      · cases h
      · split at h
        · exact ihE _ _ _ c p h
        · simp [stmtPosns, ihE body _ _ c p h]
    | doLoop cnd top u body q =>
      simp only [exec] at h
      split at h
      · split at h
        · rename_i o ho
          simp only [Prod.mk.injEq] at h
          obtain ⟨_, rfl⟩ := h
          simp [stmtPosns, evalCond_err ho]
        · split at h
          · split at h
            · exact ihE _ _ _ c p h
            · simp [stmtPosns, ihE body _ _ c p h]
          · cases h
      · split at h
        · split at h
          · rename_i o ho
            simp only [Prod.mk.injEq] at h
            obtain ⟨_, rfl⟩ := h
            simp [stmtPosns, evalCond_err ho]
          · split at h
            · exact ihE _ _ _ c p h
            · cases h
        · simp [stmtPosns, ihE body _ _ c p h]
  · intro q subj cs s s' c p h
    cases cs with
    | nil => simp [execCases] at h
    | else_ body =>
      simp only [execCases] at h
      exact .inr (by simp [casesPosns, ihE body _ _ c p h])
    | case conds body rest =>
      simp only [execCases] at h
      split at h
      · rename_i o ho
        simp only [Prod.mk.injEq] at h
        obtain ⟨_, rfl⟩ := h
        rcases anyMatches_err conds ho with h1 | h1
        · exact .inl h1
        · exact .inr (by simp [casesPosns, h1])
      · exact .inr (by simp [casesPosns, ihE body _ _ c p h])
      · rcases ihC q _ rest _ _ c p h with h1 | h1
        · exact .inl h1
        · exact .inr (by simp [casesPosns, h1])
  · intro x t hv sv up body q s s' c p h
    simp only [forIter] at h
    split at h
    · rename_i o ho
      simp only [Prod.mk.injEq] at h
      obtain ⟨_, rfl⟩ := h
      exact .inl (relTest_err ho)
    · cases h
    · split at h
      · split at h
        · exact ihF _ _ _ _ _ _ _ _ _ c p h
        · simp only [Prod.mk.injEq, Outcome.error.injEq] at h
          exact .inl h.2.2.symm
        · cases h
      · exact .inr (ihE body _ _ c p h)

theorem errPos_all : ∀ n, ErrPos n
  | 0 => errPos_zero
  | n + 1 => errPos_succ n (errPos_all n)

/-! ### the source tree (`SStmt`, what the front end delivers) and its desugaring -/

mutual
/-- every position that occurs in a statement of the source syntax -/
def sstmtPosns : SStmt → List Pos
  | .skip => []
  | .seq a b => sstmtPosns a ++ sstmtPosns b
  | .comment => []
  | .dim _ _ p => [p]
  | .dimArr _ _ dims p => p :: dimsPosns dims
  | .assign _ _ e p => p :: exprPosns e
  | .assignElem _ _ idx e p => p :: (exprsPosns idx ++ exprPosns e)
  | .print items p => p :: items.flatMap itemPosns
  | .data items p => p :: items.map (·.2)
  | .read tgs p => p :: tgs.flatMap targetPosns
  | .ifBlock c thn elifs _ els p => p :: (exprPosns c ++ sstmtPosns thn ++ elifsPosns elifs ++ sstmtPosns els)
  | .select e cases _ els p => p :: (exprPosns e ++ scasesPosns cases ++ sstmtPosns els)
  | .forLoop _ _ lo hi step body p => p :: (exprPosns lo ++ exprPosns hi ++ optExprPosns step ++ sstmtPosns body)
  | .while c body p => p :: (exprPosns c ++ sstmtPosns body)
  | .doLoop c _ _ body p => p :: (exprPosns c ++ sstmtPosns body)
  | .end_ p => [p]
def elifsPosns : ElseIfs → List Pos
  | .nil => []
  | .cons c body rest => exprPosns c ++ sstmtPosns body ++ elifsPosns rest
def scasesPosns : SCases → List Pos
  | .nil => []
  | .cons conds body rest => conds.flatMap caseExprPosns ++ sstmtPosns body ++ scasesPosns rest
end

theorem readSeq_posns (p q : Pos) : ∀ tgs : List ReadTarget, q ∈ stmtPosns (readSeq p tgs) →
    q = p ∨ q ∈ tgs.flatMap targetPosns
  | [], h => by simp [readSeq, stmtPosns] at h
  | tg :: rest, h => by
    simp only [readSeq, stmtPosns, List.mem_append, List.mem_cons] at h
    rcases h with (h | h) | h
    · exact .inl h
    · exact .inr (by simp [h])
    · rcases readSeq_posns p q rest h with h1 | h1
      · exact .inl h1
      · exact .inr (by simp [h1])

mutual
/-- desugaring adds no positions -/
theorem desugar_posns (q : Pos) : ∀ s : SStmt, q ∈ stmtPosns (desugar s) → q ∈ sstmtPosns s
  | .skip, h => by simp [desugar, stmtPosns] at h
  | .comment, h => by simp [desugar, stmtPosns] at h
  | .data _ _, h => by simp [desugar, stmtPosns] at h
  | .seq a b, h => by
    simp only [desugar, stmtPosns, List.mem_append] at h
    rcases h with h | h
    · simp [sstmtPosns, desugar_posns q a h]
    · simp [sstmtPosns, desugar_posns q b h]
  | .dim x t p, h => by simpa [desugar, stmtPosns, exprPosns, sstmtPosns] using h
  | .dimArr a t dims p, h => by simpa [desugar, stmtPosns, sstmtPosns] using h
  | .assign x t e p, h => by simpa [desugar, stmtPosns, sstmtPosns] using h
  | .assignElem a t idx e p, h => by simpa [desugar, stmtPosns, sstmtPosns] using h
  | .print items p, h => by simpa [desugar, stmtPosns, sstmtPosns] using h
  | .read tgs p, h => by
    simp only [desugar] at h
    rcases readSeq_posns p q tgs h with h1 | h1 <;> simp [sstmtPosns, h1]
  | .ifBlock c thn elifs he els p, h => by
    simp only [desugar, stmtPosns, List.mem_append, List.mem_cons] at h
    rcases h with h | (h | h) | h
    · simp [sstmtPosns, h]
    · simp [sstmtPosns, h]
    · simp [sstmtPosns, desugar_posns q thn h]
    · rcases desugarElifs_posns q elifs (desugar els) p h with h1 | h1 | h1
      · simp [sstmtPosns, h1]
      · simp [sstmtPosns, h1]
      · simp [sstmtPosns, desugar_posns q els h1]
  | .select e cases he els p, h => by
    simp only [desugar, stmtPosns, List.mem_append, List.mem_cons] at h
    rcases h with h | h | h
    · simp [sstmtPosns, h]
    · simp [sstmtPosns, h]
    · rcases desugarCases_posns q cases _ h with h1 | h1
      · simp [sstmtPosns, h1]
      · cases he with
        | true =>
          simp only [if_true, casesPosns] at h1
          simp [sstmtPosns, desugar_posns q els h1]
        | false => simp [casesPosns] at h1
  | .forLoop x t lo hi step body p, h => by
    simp only [desugar, stmtPosns, List.mem_append, List.mem_cons] at h
    rcases h with h | ((h | h) | h) | h
    · simp [sstmtPosns, h]
    · simp [sstmtPosns, h]
    · simp [sstmtPosns, h]
    · simp [sstmtPosns, h]
    · simp [sstmtPosns, desugar_posns q body h]
  | .while c body p, h => by
    simp only [desugar, stmtPosns, List.mem_append, List.mem_cons] at h
    rcases h with h | h | h
    · simp [sstmtPosns, h]
    · simp [sstmtPosns, h]
    · simp [sstmtPosns, desugar_posns q body h]
  | .doLoop c top u body p, h => by
    simp only [desugar, stmtPosns, List.mem_append, List.mem_cons] at h
    rcases h with h | h | h
    · simp [sstmtPosns, h]
    · simp [sstmtPosns, h]
    · simp [sstmtPosns, desugar_posns q body h]
  | .end_ p, h => by simpa [desugar, stmtPosns, sstmtPosns] using h
theorem desugarElifs_posns (q : Pos) : ∀ (e : ElseIfs) (els : Stmt) (p : Pos),
    q ∈ stmtPosns (desugarElifs e els p) → q = p ∨ q ∈ elifsPosns e ∨ q ∈ stmtPosns els
  | .nil, els, p, h => by simp only [desugarElifs] at h; exact .inr (.inr h)
  | .cons c body rest, els, p, h => by
    simp only [desugarElifs, stmtPosns, List.mem_append, List.mem_cons] at h
    rcases h with h | (h | h) | h
    · exact .inl h
    · exact .inr (.inl (by simp [elifsPosns, h]))
    · exact .inr (.inl (by simp [elifsPosns, desugar_posns q body h]))
    · rcases desugarElifs_posns q rest els p h with h1 | h1 | h1
      · exact .inl h1
      · exact .inr (.inl (by simp [elifsPosns, h1]))
      · exact .inr (.inr h1)
theorem desugarCases_posns (q : Pos) : ∀ (cs : SCases) (tail : Cases),
    q ∈ casesPosns (desugarCases cs tail) → q ∈ scasesPosns cs ∨ q ∈ casesPosns tail
  | .nil, tail, h => by simp only [desugarCases] at h; exact .inr h
  | .cons conds body rest, tail, h => by
    simp only [desugarCases, casesPosns, List.mem_append] at h
    rcases h with (h | h) | h
    · exact .inl (by simp [scasesPosns, h])
    · exact .inl (by simp [scasesPosns, desugar_posns q body h])
    · rcases desugarCases_posns q rest tail h with h1 | h1
      · exact .inl (by simp [scasesPosns, h1])
      · exact .inr h1
end

/-! ### the property theorems -/

open RbThm.C08Layers.Arrays (Finished finished run_of_steps_halt run_of_steps_err)

/-- **`ref_error_pos_within_program`** (arrays layer) — the position the reference semantics prescribes for a run-time
error is a position carried by a node of the program's tree: the statement's own position, or that of one of its
sub-expressions (operator nodes, element expressions, LBOUND / UBOUND calls, subscripts, DIM bounds, READ targets). -/
theorem ref_error_pos_within_program (prog : SProgram) (fuel c : Nat) (p : Pos)
    (h : (ArrL.Ref.run fuel prog.toAst).2 = .error c p) : p ∈ sstmtPosns prog.body := by
  unfold ArrL.Ref.run at h
  generalize hr : exec fuel prog.toAst.body (St.init prog.toAst) = r at h
  obtain ⟨s', o⟩ := r
  simp only at h
  subst h
  exact desugar_posns p prog.body ((errPos_all fuel).1 _ _ _ c p hr)

/-- **`runtime_error_pos_is_ref_pos`** (arrays layer) — for a program the premise checker accepts on which the
reference run finishes, whatever error the VM model stops with — at any step budget — is the reference's: same code,
same position. -/
theorem runtime_error_pos_is_ref_pos (prog : SProgram) (fuel : Nat) (hw : progWfB prog = true)
    (hfin : Finished (ArrL.Ref.run fuel prog.toAst).2) :
    ∀ (m c : Nat) (p : Pos) (ω : Vm), Vm.run (compile prog) m (Vm.init prog.slots prog.arrs) = .error c p ω →
      (ArrL.Ref.run fuel prog.toAst).2 = .error c p := by
  intro m c p ω hrun
  have h := RbThm.ArrLSim.compile_correct_checked prog fuel hw
  rcases hr : ArrL.Ref.run fuel prog.toAst with ⟨s', o⟩
  rw [hr] at h hfin
  cases o with
  | normal =>
    obtain ⟨τ, υ, hs, hh, _⟩ := h
    rcases run_of_steps_halt _ hs hh m with h1 | h1 <;> rw [h1] at hrun <;> cases hrun
  | halted =>
    obtain ⟨τ, υ, hs, hh, _⟩ := h
    rcases run_of_steps_halt _ hs hh m with h1 | h1 <;> rw [h1] at hrun <;> cases hrun
  | error c' p' =>
    obtain ⟨τ, υ, hs, hh, _⟩ := h
    rcases run_of_steps_err _ hs hh m with h1 | h1 <;> rw [h1] at hrun <;> cases hrun
    rfl
  | inexact => simp [Finished, finished] at hfin
  | outOfFuel => simp [Finished, finished] at hfin
  | illFormed => simp [Finished, finished] at hfin
  | tooBig => simp [Finished, finished] at hfin

/-- **`runtime_error_pos_within_program`** (arrays layer) — hence the position reported with a run-time error of the
VM run is a position carried by a node of the program's tree. -/
theorem runtime_error_pos_within_program (prog : SProgram) (fuel : Nat) (hw : progWfB prog = true)
    (hfin : Finished (ArrL.Ref.run fuel prog.toAst).2) :
    ∀ (m c : Nat) (p : Pos) (ω : Vm), Vm.run (compile prog) m (Vm.init prog.slots prog.arrs) = .error c p ω →
      p ∈ sstmtPosns prog.body :=
  fun m c p ω hrun =>
    ref_error_pos_within_program prog fuel c p (runtime_error_pos_is_ref_pos prog fuel hw hfin m c p ω hrun)

/-! non-vacuity: `RbThm.C08Layers.Arrays.demo 4` (`DIM A%(1 TO 3) : FOR I% = 1 TO 4 : A%(I%) = I% * 2 : NEXT …`) is
accepted, its reference run ends with Subscript out of range (9) at the element assignment (row 3 col 3) -/
example : progWfB (RbThm.C08Layers.Arrays.demo 4) = true ∧
    Finished (ArrL.Ref.run 100 (RbThm.C08Layers.Arrays.demo 4).toAst).2 ∧
    (match (ArrL.Ref.run 100 (RbThm.C08Layers.Arrays.demo 4).toAst).2 with
     | .error 9 ⟨3, 3⟩ => true | _ => false) = true ∧
    (⟨3, 3⟩ : Pos) ∈ sstmtPosns (RbThm.C08Layers.Arrays.demo 4).body := by decide +kernel

end RbThm.C11Layers.Arrays

namespace RbThm.C11Layers.Records
set_option linter.unusedVariables false
open RbModel RbModel.Num RbModel.RecL RbModel.RecL.Compile RbModel.RecL.Vm RbModel.RecL.Ref
open RbModel.Ast (Pos)

/-! ### positions that occur in a piece of syntax -/

def exprPosns : RecL.Expr → List Pos
  | .lit _ p => [p]
  | .var _ _ _ p => [p]
  | .un _ e p => p :: exprPosns e
  | .bin _ l r _ p => p :: (exprPosns l ++ exprPosns r)
  | .paren e p => p :: exprPosns e

def itemPosns : PrintItem → List Pos
  | .expr e => exprPosns e
  | _ => []

def caseExprPosns : CaseExpr → List Pos
  | .simple e => exprPosns e
  | .is _ e => exprPosns e
  | .range lo hi => exprPosns lo ++ exprPosns hi

def optExprPosns : Option RecL.Expr → List Pos
  | none => []
  | some e => exprPosns e

mutual
/-- every position that occurs in a statement of the reference syntax -/
def stmtPosns : Stmt → List Pos
  | .skip => []
  | .seq a b => stmtPosns a ++ stmtPosns b
  | .dim _ _ p => [p]
  | .assign _ _ _ e p => p :: exprPosns e
  | .print items p => p :: items.flatMap itemPosns
  | .read tg p => [p, tg.pos]
  | .ifs c thn els p => p :: (exprPosns c ++ stmtPosns thn ++ stmtPosns els)
  | .select e cs p => p :: (exprPosns e ++ casesPosns cs)
  | .forLoop _ _ lo hi step body p => p :: (exprPosns lo ++ exprPosns hi ++ optExprPosns step ++ stmtPosns body)
  | .while c body p => p :: (exprPosns c ++ stmtPosns body)
  | .doLoop c _ _ body p => p :: (exprPosns c ++ stmtPosns body)
  | .end_ p => [p]
def casesPosns : Cases → List Pos
  | .nil => []
  | .else_ body => stmtPosns body
  | .case conds body rest => conds.flatMap caseExprPosns ++ stmtPosns body ++ casesPosns rest
end

theorem pos_mem_exprPosns (e : RecL.Expr) : e.pos ∈ exprPosns e := by
  cases e <;> simp [Expr.pos, exprPosns]

/-! ### expressions -/

theorem bind_err {α β : Type} {r : ERes α} {f : α → ERes β} {c : Nat} {p : Pos} (h : r.bind f = .err c p) :
    r = .err c p ∨ ∃ v, r = .ok v ∧ f v = .err c p := by
  cases r with
  | ok v => exact .inr ⟨v, rfl, h⟩
  | err c' p' => exact .inl (by simpa [ERes.bind] using h)
  | inexact => cases h
  | illFormed => cases h

theorem lift_err {q : Pos} {r : Res Val} {c : Nat} {p : Pos} (h : lift q r = .err c p) : p = q := by
  cases r <;> simp [lift] at h; exact h.2.symm

theorem asScalar_err {v : Ref.RV} {c : Nat} {p : Pos} : asScalar v ≠ .err c p := by
  cases v <;> simp [asScalar]

theorem eval_err (env : Env) (c : Nat) (p : Pos) : ∀ e, eval env e = .err c p → p ∈ exprPosns e
  | .lit _ _, h => by simp [eval] at h
  | .var x path t q, h => by
    simp only [eval] at h
    split at h
    · split at h <;> cases h
    · cases h
  | .un .neg e q, h => by
    simp only [eval] at h
    rcases bind_err h with h | ⟨v, _, h⟩
    · simp [exprPosns, eval_err env c p e h]
    · rcases bind_err h with h | ⟨a, _, h⟩
      · exact absurd h asScalar_err
      · rcases bind_err h with h | ⟨r, _, h⟩
        · simp [exprPosns, lift_err h]
        · cases h
  | .un .not e q, h => by
    simp only [eval] at h
    rcases bind_err h with h | ⟨v, _, h⟩
    · simp [exprPosns, eval_err env c p e h]
    · rcases bind_err h with h | ⟨a, _, h⟩
      · exact absurd h asScalar_err
      · rcases bind_err h with h | ⟨r, _, h⟩
        · simp [exprPosns, lift_err h]
        · cases h
  | .bin op l r t q, h => by
    simp only [eval] at h
    rcases bind_err h with h | ⟨a, _, h⟩
    · simp [exprPosns, eval_err env c p l h]
    · rcases bind_err h with h | ⟨a', _, h⟩
      · exact absurd h asScalar_err
      · rcases bind_err h with h | ⟨b, _, h⟩
        · simp [exprPosns, eval_err env c p r h]
        · rcases bind_err h with h | ⟨b', _, h⟩
          · exact absurd h asScalar_err
          · rcases bind_err h with h | ⟨x, _, h⟩
            · simp [exprPosns, lift_err h]
            · cases h
  | .paren e q, h => by
    simp only [eval] at h
    simp [exprPosns, eval_err env c p e h]

theorem evalS_err {env : Env} {e : RecL.Expr} {c : Nat} {p : Pos} (h : evalS env e = .err c p) : p ∈ exprPosns e := by
  unfold evalS at h
  rcases bind_err h with h | ⟨v, _, h⟩
  · exact eval_err env c p e h
  · exact absurd h asScalar_err

theorem conv_err {q : Pos} {st tt : ETy} {v : Ref.RV} {c : Nat} {p : Pos} (h : conv q st tt v = .err c p) : p = q := by
  unfold conv at h
  split at h
  · cases h
  · split at h
    · rcases bind_err h with h | ⟨r, _, h⟩
      · exact lift_err h
      · cases h
    · cases h
    · simp only [ERes.err.injEq] at h; exact h.2.symm
    · cases h

/-! ### the pieces of a statement -/

theorem outcomeOf_err {α : Type} {r : ERes α} {c : Nat} {p : Pos} (h : outcomeOf r = .error c p) : r = .err c p := by
  cases r <;> simp [outcomeOf] at h; obtain ⟨rfl, rfl⟩ := h; rfl

theorem evalTo_err {env : Env} {e : RecL.Expr} {t : ETy} {c : Nat} {p : Pos}
    (h : evalTo env e t = .err c p) : p ∈ exprPosns e := by
  unfold evalTo at h
  rcases bind_err h with h | ⟨v, _, h⟩
  · exact eval_err env c p e h
  · rw [conv_err h]; exact pos_mem_exprPosns e

theorem evalToS_err {env : Env} {e : RecL.Expr} {t : Ty} {c : Nat} {p : Pos}
    (h : evalToS env e t = .err c p) : p ∈ exprPosns e := by
  unfold evalToS at h
  rcases bind_err h with h | ⟨v, _, h⟩
  · exact evalTo_err h
  · exact absurd h asScalar_err

theorem evalCond_err {s : St} {e : RecL.Expr} {c : Nat} {p : Pos} (h : evalCond s e = .error (.error c p)) :
    p ∈ exprPosns e := by
  unfold evalCond at h
  split at h
  · split at h
    · cases h
    · simp only [Except.error.injEq, Outcome.error.injEq] at h; rw [← h.2]; exact pos_mem_exprPosns e
  · simp only [Except.error.injEq] at h
    exact evalS_err (outcomeOf_err h)

theorem evalE_err {s : St} {e : RecL.Expr} {c : Nat} {p : Pos} (h : evalE s e = .error (.error c p)) :
    p ∈ exprPosns e := by
  unfold evalE at h
  split at h
  · cases h
  · simp only [Except.error.injEq] at h
    exact evalS_err (outcomeOf_err h)

theorem relTest_err {q : Pos} {op : Op} {a b : Val} {c : Nat} {p : Pos}
    (h : relTest q op a b = .error (.error c p)) : p = q := by
  unfold relTest at h
  split at h
  · cases h
  · simp only [Except.error.injEq, Outcome.error.injEq] at h; exact h.2.symm
  · cases h

theorem stepSign_err {q : Pos} {v : Val} {c : Nat} {p : Pos} (h : stepSign q v = .error (.error c p)) : p = q := by
  unfold stepSign at h
  split at h
  · rename_i o ho; cases h; exact relTest_err ho
  · cases h
  · split at h
    · rename_i o ho; cases h; exact relTest_err ho
    · cases h
    · cases h

theorem caseMatches_err {s : St} {q : Pos} {subj : Val} {ce : CaseExpr} {c : Nat} {p : Pos}
    (h : caseMatches s q subj ce = .error (.error c p)) : p = q ∨ p ∈ caseExprPosns ce := by
  cases ce with
  | simple e =>
    simp only [caseMatches] at h
    split at h
    · rename_i o ho; cases h; exact .inr (by simpa [caseExprPosns] using evalE_err ho)
    · exact .inl (relTest_err h)
  | is op e =>
    simp only [caseMatches] at h
    split at h
    · rename_i o ho; cases h; exact .inr (by simpa [caseExprPosns] using evalE_err ho)
    · exact .inl (relTest_err h)
  | range lo hi =>
    simp only [caseMatches] at h
    split at h
    · rename_i o ho; cases h; exact .inr (by simp [caseExprPosns, evalE_err ho])
    · split at h
      · rename_i o ho; cases h; exact .inl (relTest_err ho)
      · cases h
      · split at h
        · rename_i o ho; cases h; exact .inr (by simp [caseExprPosns, evalE_err ho])
        · exact .inl (relTest_err h)

theorem anyMatches_err {s : St} {q : Pos} {subj : Val} {c : Nat} {p : Pos} :
    ∀ conds : List CaseExpr, anyMatches s q subj conds = .error (.error c p) →
      p = q ∨ p ∈ conds.flatMap caseExprPosns
  | [], h => by simp [anyMatches] at h
  | ce :: rest, h => by
    simp only [anyMatches] at h
    split at h
    · rename_i o ho; cases h
      rcases caseMatches_err ho with h1 | h1
      · exact .inl h1
      · exact .inr (by simp [h1])
    · cases h
    · rcases anyMatches_err rest h with h1 | h1
      · exact .inl h1
      · exact .inr (by simp [h1])

theorem printItems_err {c : Nat} {p : Pos} : ∀ (items : List PrintItem) (s s' : St),
    printItems s items = (s', .error c p) → p ∈ items.flatMap itemPosns
  | [], s, s', h => by simp [printItems] at h
  | .comma :: rest, s, s', h => by
    simp only [printItems] at h
    simpa [itemPosns] using printItems_err rest _ _ h
  | .semicolon :: rest, s, s', h => by
    simp only [printItems] at h
    simpa [itemPosns] using printItems_err rest _ _ h
  | .expr e :: rest, s, s', h => by
    simp only [printItems] at h
    split at h
    · split at h
      · cases h
      · have := printItems_err rest _ _ h
        simp [itemPosns, this]
    · simp only [Prod.mk.injEq] at h
      simp [itemPosns, evalS_err (outcomeOf_err h.2)]

theorem readItem_err {s : St} {t : Ty} {q : Pos} {c : Nat} {p : Pos}
    (h : readItem s t q = .error (.error c p)) : p = q := by
  unfold readItem at h
  split at h
  · simp only [Except.error.injEq, Outcome.error.injEq] at h; exact h.2.symm
  · split at h
    · cases h
    · simp only [Except.error.injEq, Outcome.error.injEq] at h; exact h.2.symm
    · cases h

/-! ### statements: the position of an error is a position of the statement -/

/-- the claim at a given amount of fuel, for the three mutually recursive functions -/
def ErrPos (fuel : Nat) : Prop :=
  (∀ st s s' c p, exec fuel st s = (s', .error c p) → p ∈ stmtPosns st) ∧
  (∀ q subj cs s s' c p, execCases fuel q subj cs s = (s', .error c p) → p = q ∨ p ∈ casesPosns cs) ∧
  (∀ x t hv sv up body q s s' c p, forIter fuel x t hv sv up body q s = (s', .error c p) →
      p = q ∨ p ∈ stmtPosns body)

theorem errPos_zero : ErrPos 0 := by
  refine ⟨?_, ?_, ?_⟩
  · intro st s s' c p h; simp [exec] at h
  · intro q subj cs s s' c p h; simp [execCases] at h
  · intro x t hv sv up body q s s' c p h; simp [forIter] at h

theorem errPos_succ (n : Nat) (ih : ErrPos n) : ErrPos (n + 1) := by
  obtain ⟨ihE, ihC, ihF⟩ := ih
  refine ⟨?_, ?_, ?_⟩
  · intro st s s' c p h
    cases st with
    | skip => simp [exec] at h
    | end_ q => simp [exec] at h
    | seq a b =>
      simp only [exec] at h
      split at h
      · simp [stmtPosns, ihE b _ _ c p h]
      · simp [stmtPosns, ihE a _ _ c p h]
    | dim x t q =>
      simp only [exec] at h
      split at h <;> cases h
    | assign x path t e q =>
      simp only [exec] at h
      split at h
      · split at h
        · cases h
        · split at h <;> cases h
        · cases h
      · simp only [Prod.mk.injEq] at h
        simp [stmtPosns, evalTo_err (outcomeOf_err h.2)]
    | print items q =>
      simp only [exec] at h
      split at h
      · split at h <;> cases h
      · simp [stmtPosns, printItems_err items _ _ h]
    | read tg q =>
      simp only [exec] at h
      split at h
      · cases h
      · rename_i o ho
        simp only [Prod.mk.injEq] at h
        obtain ⟨_, rfl⟩ := h
        simp [stmtPosns, readItem_err ho]
    | ifs cnd thn els q =>
      simp only [exec] at h
      split at h
      · rename_i o ho
        simp only [Prod.mk.injEq] at h
        obtain ⟨_, rfl⟩ := h
        simp [stmtPosns, evalCond_err ho]
      · simp [stmtPosns, ihE thn _ _ c p h]
      · simp [stmtPosns, ihE els _ _ c p h]
    | select e cs q =>
      simp only [exec] at h
      split at h
      · rename_i o ho
        simp only [Prod.mk.injEq] at h
        obtain ⟨_, rfl⟩ := h
        simp [stmtPosns, evalE_err ho]
      · rcases ihC q _ cs _ _ c p h with h1 | h1 <;> simp [stmtPosns, h1]
    | forLoop x t lo hi step body q =>
      simp only [exec] at h
      split at h
      · split at h
        · split at h
          · rcases ihF _ _ _ _ _ _ _ _ _ c p h with h1 | h1 <;> simp [stmtPosns, h1]
          · rename_i se
            split at h
            · rename_i o ho
              simp only [Prod.mk.injEq] at h
              obtain ⟨_, rfl⟩ := h
              simp [stmtPosns, optExprPosns, evalE_err ho]
            · split at h
              · rename_i o ho
                simp only [Prod.mk.injEq] at h
                obtain ⟨_, rfl⟩ := h
                simp [stmtPosns, stepSign_err ho]
              · rcases ihF _ _ _ _ _ _ _ _ _ c p h with h1 | h1 <;> simp [stmtPosns, h1]
              · rcases ihF _ _ _ _ _ _ _ _ _ c p h with h1 | h1 <;> simp [stmtPosns, h1]
              · simp only [Prod.mk.injEq, Outcome.error.injEq] at h
                simp [stmtPosns, optExprPosns, ← h.2.2, pos_mem_exprPosns]
        · simp only [Prod.mk.injEq] at h
          simp [stmtPosns, evalToS_err (outcomeOf_err h.2)]
      · simp only [Prod.mk.injEq] at h
        simp [stmtPosns, evalToS_err (outcomeOf_err h.2)]
    | «while» cnd body q =>
      simp only [exec] at h
      split at h
      · rename_i o ho
        simp only [Prod.mk.injEq] at h
        obtain ⟨_, rfl⟩ := h
        simp [stmtPosns, evalCond_err ho]
      · cases h
      · split at h
        · exact ihE _ _ _ c p h
        · simp [stmtPosns, ihE body _ _ c p h]
    | doLoop cnd top u body q =>
      simp only [exec] at h
      split at h
      · split at h
        · rename_i o ho
          simp only [Prod.mk.injEq] at h
          obtain ⟨_, rfl⟩ := h
          simp [stmtPosns, evalCond_err ho]
        · split at h
          · split at h
            · exact ihE _ _ _ c p h
            · simp [stmtPosns, ihE body _ _ c p h]
          · cases h
      · split at h
        · split at h
          · rename_i o ho
            simp only [Prod.mk.injEq] at h
            obtain ⟨_, rfl⟩ := h
            simp [stmtPosns, evalCond_err ho]
          · split at h
            · exact ihE _ _ _ c p h
            · cases h
        · simp [stmtPosns, ihE body _ _ c p h]
  · intro q subj cs s s' c p h
    cases cs with
    | nil => simp [execCases] at h
    | else_ body =>
      simp only [execCases] at h
      exact .inr (by simp [casesPosns, ihE body _ _ c p h])
    | case conds body rest =>
      simp only [execCases] at h
      split at h
      · rename_i o ho
        simp only [Prod.mk.injEq] at h
        obtain ⟨_, rfl⟩ := h
        rcases anyMatches_err conds ho with h1 | h1
        · exact .inl h1
        · exact .inr (by simp [casesPosns, h1])
      · exact .inr (by simp [casesPosns, ihE body _ _ c p h])
      · rcases ihC q _ rest _ _ c p h with h1 | h1
        · exact .inl h1
        · exact .inr (by simp [casesPosns, h1])
  · intro x t hv sv up body q s s' c p h
    simp only [forIter] at h
    split at h
    · rename_i o ho
      simp only [Prod.mk.injEq] at h
      obtain ⟨_, rfl⟩ := h
      exact .inl (relTest_err ho)
    · cases h
    · split at h
      · split at h
        · exact ihF _ _ _ _ _ _ _ _ _ c p h
        · simp only [Prod.mk.injEq, Outcome.error.injEq] at h
          exact .inl h.2.2.symm
        · cases h
      · exact .inr (ihE body _ _ c p h)

theorem errPos_all : ∀ n, ErrPos n
  | 0 => errPos_zero
  | n + 1 => errPos_succ n (errPos_all n)

/-! ### the source tree (`SStmt`, what the front end delivers) and its desugaring -/

mutual
/-- every position that occurs in a statement of the source syntax -/
def sstmtPosns : SStmt → List Pos
  | .skip => []
  | .seq a b => sstmtPosns a ++ sstmtPosns b
  | .comment => []
  | .dim _ _ p => [p]
  | .assign _ _ _ e p => p :: exprPosns e
  | .print items p => p :: items.flatMap itemPosns
  | .data items p => p :: items.map (·.2)
  | .read tgs p => p :: tgs.map (·.pos)
  | .ifBlock c thn elifs _ els p => p :: (exprPosns c ++ sstmtPosns thn ++ elifsPosns elifs ++ sstmtPosns els)
  | .select e cases _ els p => p :: (exprPosns e ++ scasesPosns cases ++ sstmtPosns els)
  | .forLoop _ _ lo hi step body p => p :: (exprPosns lo ++ exprPosns hi ++ optExprPosns step ++ sstmtPosns body)
  | .while c body p => p :: (exprPosns c ++ sstmtPosns body)
  | .doLoop c _ _ body p => p :: (exprPosns c ++ sstmtPosns body)
  | .end_ p => [p]
def elifsPosns : ElseIfs → List Pos
  | .nil => []
  | .cons c body rest => exprPosns c ++ sstmtPosns body ++ elifsPosns rest
def scasesPosns : SCases → List Pos
  | .nil => []
  | .cons conds body rest => conds.flatMap caseExprPosns ++ sstmtPosns body ++ scasesPosns rest
end

theorem readSeq_posns (p q : Pos) : ∀ tgs : List ReadTarget, q ∈ stmtPosns (readSeq p tgs) →
    q = p ∨ q ∈ tgs.map (·.pos)
  | [], h => by simp [readSeq, stmtPosns] at h
  | tg :: rest, h => by
    simp only [readSeq, stmtPosns, List.mem_append, List.mem_cons] at h
    simp only [List.not_mem_nil, or_false] at h
    rcases h with (h | h) | h
    · exact .inl h
    · exact .inr (by simp [h])
    · rcases readSeq_posns p q rest h with h1 | h1
      · exact .inl h1
      · exact .inr (by simp [h1])

mutual
/-- desugaring adds no positions -/
theorem desugar_posns (q : Pos) : ∀ s : SStmt, q ∈ stmtPosns (desugar s) → q ∈ sstmtPosns s
  | .skip, h => by simp [desugar, stmtPosns] at h
  | .comment, h => by simp [desugar, stmtPosns] at h
  | .data _ _, h => by simp [desugar, stmtPosns] at h
  | .seq a b, h => by
    simp only [desugar, stmtPosns, List.mem_append] at h
    rcases h with h | h
    · simp [sstmtPosns, desugar_posns q a h]
    · simp [sstmtPosns, desugar_posns q b h]
  | .dim x t p, h => by simpa [desugar, stmtPosns, sstmtPosns] using h
  | .assign x path t e p, h => by simpa [desugar, stmtPosns, sstmtPosns] using h
  | .print items p, h => by simpa [desugar, stmtPosns, sstmtPosns] using h
  | .read tgs p, h => by
    simp only [desugar] at h
    rcases readSeq_posns p q tgs h with h1 | h1 <;> simp [sstmtPosns, h1]
  | .ifBlock c thn elifs he els p, h => by
    simp only [desugar, stmtPosns, List.mem_append, List.mem_cons] at h
    rcases h with h | (h | h) | h
    · simp [sstmtPosns, h]
    · simp [sstmtPosns, h]
    · simp [sstmtPosns, desugar_posns q thn h]
    · rcases desugarElifs_posns q elifs (desugar els) p h with h1 | h1 | h1
      · simp [sstmtPosns, h1]
      · simp [sstmtPosns, h1]
      · simp [sstmtPosns, desugar_posns q els h1]
  | .select e cases he els p, h => by
    simp only [desugar, stmtPosns, List.mem_append, List.mem_cons] at h
    rcases h with h | h | h
    · simp [sstmtPosns, h]
    · simp [sstmtPosns, h]
    · rcases desugarCases_posns q cases _ h with h1 | h1
      · simp [sstmtPosns, h1]
      · cases he with
        | true =>
          simp only [if_true, casesPosns] at h1
          simp [sstmtPosns, desugar_posns q els h1]
        | false => simp [casesPosns] at h1
  | .forLoop x t lo hi step body p, h => by
    simp only [desugar, stmtPosns, List.mem_append, List.mem_cons] at h
    rcases h with h | ((h | h) | h) | h
    · simp [sstmtPosns, h]
    · simp [sstmtPosns, h]
    · simp [sstmtPosns, h]
    · simp [sstmtPosns, h]
    · simp [sstmtPosns, desugar_posns q body h]
  | .while c body p, h => by
    simp only [desugar, stmtPosns, List.mem_append, List.mem_cons] at h
    rcases h with h | h | h
    · simp [sstmtPosns, h]
    · simp [sstmtPosns, h]
    · simp [sstmtPosns, desugar_posns q body h]
  | .doLoop c top u body p, h => by
    simp only [desugar, stmtPosns, List.mem_append, List.mem_cons] at h
    rcases h with h | h | h
    · simp [sstmtPosns, h]
    · simp [sstmtPosns, h]
    · simp [sstmtPosns, desugar_posns q body h]
  | .end_ p, h => by simpa [desugar, stmtPosns, sstmtPosns] using h
theorem desugarElifs_posns (q : Pos) : ∀ (e : ElseIfs) (els : Stmt) (p : Pos),
    q ∈ stmtPosns (desugarElifs e els p) → q = p ∨ q ∈ elifsPosns e ∨ q ∈ stmtPosns els
  | .nil, els, p, h => by simp only [desugarElifs] at h; exact .inr (.inr h)
  | .cons c body rest, els, p, h => by
    simp only [desugarElifs, stmtPosns, List.mem_append, List.mem_cons] at h
    rcases h with h | (h | h) | h
    · exact .inl h
    · exact .inr (.inl (by simp [elifsPosns, h]))
    · exact .inr (.inl (by simp [elifsPosns, desugar_posns q body h]))
    · rcases desugarElifs_posns q rest els p h with h1 | h1 | h1
      · exact .inl h1
      · exact .inr (.inl (by simp [elifsPosns, h1]))
      · exact .inr (.inr h1)
theorem desugarCases_posns (q : Pos) : ∀ (cs : SCases) (tail : Cases),
    q ∈ casesPosns (desugarCases cs tail) → q ∈ scasesPosns cs ∨ q ∈ casesPosns tail
  | .nil, tail, h => by simp only [desugarCases] at h; exact .inr h
  | .cons conds body rest, tail, h => by
    simp only [desugarCases, casesPosns, List.mem_append] at h
    rcases h with (h | h) | h
    · exact .inl (by simp [scasesPosns, h])
    · exact .inl (by simp [scasesPosns, desugar_posns q body h])
    · rcases desugarCases_posns q rest tail h with h1 | h1
      · exact .inl (by simp [scasesPosns, h1])
      · exact .inr h1
end

/-! ### the property theorems -/

open RbThm.C08Layers.Records (Finished finished run_of_steps_halt run_of_steps_err)

/-- **`ref_error_pos_within_program`** (records layer) — the position the reference semantics prescribes for a run-time
error is a position carried by a node of the program's tree: the statement's own position, or that of one of its
sub-expressions (operator nodes, field references) or READ targets. -/
theorem ref_error_pos_within_program (prog : SProgram) (fuel c : Nat) (p : Pos)
    (h : (RecL.Ref.run fuel prog.toAst).2 = .error c p) : p ∈ sstmtPosns prog.body := by
  unfold RecL.Ref.run at h
  generalize hr : exec fuel prog.toAst.body (St.init prog.toAst) = r at h
  obtain ⟨s', o⟩ := r
  simp only at h
  subst h
  exact desugar_posns p prog.body ((errPos_all fuel).1 _ _ _ c p hr)

/-- **`runtime_error_pos_is_ref_pos`** (records layer) — for a program the premise checker accepts on which the
reference run finishes, whatever error the VM model stops with — at any step budget — is the reference's: same code,
same position. -/
theorem runtime_error_pos_is_ref_pos (prog : SProgram) (fuel : Nat) (hw : progWfB prog = true)
    (hfin : Finished (RecL.Ref.run fuel prog.toAst).2) :
    ∀ (m c : Nat) (p : Pos) (ω : Vm), Vm.run (compile prog) m (Vm.init prog.types prog.slots) = .error c p ω →
      (RecL.Ref.run fuel prog.toAst).2 = .error c p := by
  intro m c p ω hrun
  have h := RbThm.RecLSim.compile_correct_checked prog fuel hw
  rcases hr : RecL.Ref.run fuel prog.toAst with ⟨s', o⟩
  rw [hr] at h hfin
  cases o with
  | normal =>
    obtain ⟨τ, υ, hs, hh, _⟩ := h
    rcases run_of_steps_halt _ hs hh m with h1 | h1 <;> rw [h1] at hrun <;> cases hrun
  | halted =>
    obtain ⟨τ, υ, hs, hh, _⟩ := h
    rcases run_of_steps_halt _ hs hh m with h1 | h1 <;> rw [h1] at hrun <;> cases hrun
  | error c' p' =>
    obtain ⟨τ, υ, hs, hh, _⟩ := h
    rcases run_of_steps_err _ hs hh m with h1 | h1 <;> rw [h1] at hrun <;> cases hrun
    rfl
  | inexact => simp [Finished, finished] at hfin
  | outOfFuel => simp [Finished, finished] at hfin
  | illFormed => simp [Finished, finished] at hfin

/-- **`runtime_error_pos_within_program`** (records layer) — hence the position reported with a run-time error of the
VM run is a position carried by a node of the program's tree. -/
theorem runtime_error_pos_within_program (prog : SProgram) (fuel : Nat) (hw : progWfB prog = true)
    (hfin : Finished (RecL.Ref.run fuel prog.toAst).2) :
    ∀ (m c : Nat) (p : Pos) (ω : Vm), Vm.run (compile prog) m (Vm.init prog.types prog.slots) = .error c p ω →
      p ∈ sstmtPosns prog.body :=
  fun m c p ω hrun =>
    ref_error_pos_within_program prog fuel c p (runtime_error_pos_is_ref_pos prog fuel hw hfin m c p ω hrun)

/-! non-vacuity: `RbThm.C08Layers.Records.demo 32767` (`R.N = 32767 : … : R.N = R.N + 1`) is accepted, its reference
run ends with Overflow (6) at the `+` (row 8 col 11) -/
example : progWfB (RbThm.C08Layers.Records.demo 32767) = true ∧
    Finished (RecL.Ref.run 100 (RbThm.C08Layers.Records.demo 32767).toAst).2 ∧
    (match (RecL.Ref.run 100 (RbThm.C08Layers.Records.demo 32767).toAst).2 with
     | .error 6 ⟨8, 11⟩ => true | _ => false) = true ∧
    (⟨8, 11⟩ : Pos) ∈ sstmtPosns (RbThm.C08Layers.Records.demo 32767).body := by decide +kernel

example : (match Vm.run (compile (RbThm.C08Layers.Records.demo 32767)) 1000
      (Vm.init (RbThm.C08Layers.Records.demo 32767).types (RbThm.C08Layers.Records.demo 32767).slots) with
    | .error 6 ⟨8, 11⟩ _ => true | _ => false) = true := by decide +kernel

end RbThm.C11Layers.Records
