import Thm.C18Hist
/-!
C18, part 4 — PUT / GET with ANY number of FIELD lists on the handle.

`built_ins/get.rs` hands the bytes of the record to the variables of ALL field lists of the handle, list
after list in FIELD order, field after field; `built_ins/put.rs` writes the variables of the CURRENT list
only (the list of the latest FIELD statement, or the first list that holds the variable of the latest
LSET).  So after `GET #h, n` a variable holds the slice of record `n` at the offset and width of its LAST
occurrence in the lists (`lastSlice`); a variable that occurs once holds the slice of that occurrence,
a variable that is in no list is left alone.

Main theorems
* `get_every_variable`      what `GET` does to every variable, for any field lists
* `lastSlice_last`          "the last occurrence wins": the characterisation of `lastSlice`
* `put_get_all_lists`       `PUT n`, then LSETs / PUTs of other records / GETs / further FIELD statements,
                            then `GET n`: every variable of every list holds its slice of the record
                            stored by the PUT (`storedRecord`)
* `put_get_every_field`     the same, per field of per list (its last occurrence)
* `put_get_current_values`  for the fields of the list that was current at the PUT: the value the variable
                            had at the PUT, padded or cut to the width (generalises `put_get_same_record`)
-/
namespace RbThm.C18
open RbModel.Files

/-! ## Which slice of the record a variable gets -/

/-- The variables of a field list. -/
def varsOf (fl : List (Nat × Nat)) : List Nat := fl.map (·.2)

/-- Scans one field list that starts at byte `start`: the `(offset, width)` of the last field whose
variable is `v`, or `acc` if there is none. -/
def lastIn : List (Nat × Nat) → Nat → Nat → Option (Nat × Nat) → Option (Nat × Nat)
  | [], _, _, acc => acc
  | (w, u) :: fs, start, v, acc => lastIn fs (start + w) v (if u = v then some (start, w) else acc)

/-- `(offset, width)` of the last occurrence of `v` in the field lists (lists in FIELD order, every list
starts at byte 0 of the record); `none` = `v` is in no list. -/
def lastSlice (lists : List (List (Nat × Nat))) (v : Nat) : Option (Nat × Nat) :=
  lists.foldl (fun acc fl => lastIn fl 0 v acc) none

/-- The value a variable has after a GET that read `bytes`, given where its slice is. -/
def sliceVal (bytes : List Nat) (vars0 : List (Nat × List Nat)) (v : Nat) : Option (Nat × Nat) → Option (List Nat)
  | some (off, w) => some ((bytes.drop off).take w)
  | none => alGet vars0 v

theorem assignFields_lastIn (bytes : List Nat) (vars0 : List (Nat × List Nat)) (v : Nat)
    (fl : List (Nat × Nat)) (start : Nat) (vars : List (Nat × List Nat)) (acc : Option (Nat × Nat))
    (h : alGet vars v = sliceVal bytes vars0 v acc) :
    alGet (assignFields bytes fl start vars) v = sliceVal bytes vars0 v (lastIn fl start v acc) := by
  induction fl generalizing start vars acc with
  | nil => exact h
  | cons f fs ih =>
    obtain ⟨w, u⟩ := f
    simp only [assignFields, lastIn]
    apply ih
    by_cases huv : u = v
    · subst huv
      simp [alGet_alSet_same, sliceVal]
    · rw [alGet_alSet_ne _ _ _ _ (Ne.symm huv)]
      simp [huv, h]

theorem foldl_assign_lastIn (bytes : List Nat) (vars0 : List (Nat × List Nat)) (v : Nat)
    (lists : List (List (Nat × Nat))) (vars : List (Nat × List Nat)) (acc : Option (Nat × Nat))
    (h : alGet vars v = sliceVal bytes vars0 v acc) :
    alGet (lists.foldl (fun vars fl => assignFields bytes fl 0 vars) vars) v
      = sliceVal bytes vars0 v (lists.foldl (fun acc fl => lastIn fl 0 v acc) acc) := by
  induction lists generalizing vars acc with
  | nil => exact h
  | cons fl rest ih =>
    simp only [List.foldl_cons]
    exact ih _ _ (assignFields_lastIn bytes vars0 v fl 0 vars acc h)

/-- GET's assignment loop over all field lists, per variable. -/
theorem assignAll_var (bytes : List Nat) (vars : List (Nat × List Nat)) (lists : List (List (Nat × Nat)))
    (v : Nat) :
    alGet (lists.foldl (fun vars fl => assignFields bytes fl 0 vars) vars) v
      = sliceVal bytes vars v (lastSlice lists v) :=
  foldl_assign_lastIn bytes vars v lists vars none rfl

/-! ### `lastSlice` is the last occurrence -/

theorem sumWidths_cons (f : Nat × Nat) (fs : List (Nat × Nat)) : sumWidths (f :: fs) = f.1 + sumWidths fs := by
  simp [sumWidths]

theorem sumWidths_append (a b : List (Nat × Nat)) : sumWidths (a ++ b) = sumWidths a + sumWidths b := by
  simp [sumWidths]

theorem lastIn_not_mem (fl : List (Nat × Nat)) (start v : Nat) (acc : Option (Nat × Nat)) (h : v ∉ varsOf fl) :
    lastIn fl start v acc = acc := by
  induction fl generalizing start acc with
  | nil => rfl
  | cons f fs ih =>
    obtain ⟨w, u⟩ := f
    simp only [varsOf, List.map_cons, List.mem_cons, not_or] at h
    simp only [lastIn]
    rw [ih _ _ (by simpa [varsOf] using h.2)]
    simp [Ne.symm h.1]

theorem lastIn_append (a b : List (Nat × Nat)) (start v : Nat) (acc : Option (Nat × Nat)) :
    lastIn (a ++ b) start v acc = lastIn b (start + sumWidths a) v (lastIn a start v acc) := by
  induction a generalizing start acc with
  | nil => simp [lastIn, sumWidths]
  | cons f fs ih =>
    obtain ⟨w, u⟩ := f
    simp only [List.cons_append, lastIn, ih, sumWidths_cons]
    rw [Nat.add_assoc]

/-- In one list: the last field of `v` is the one after which `v` does not occur again. -/
theorem lastIn_last (a b : List (Nat × Nat)) (w v start : Nat) (acc : Option (Nat × Nat)) (hb : v ∉ varsOf b) :
    lastIn (a ++ (w, v) :: b) start v acc = some (start + sumWidths a, w) := by
  rw [lastIn_append]
  simp only [lastIn, ↓reduceIte]
  exact lastIn_not_mem b _ v _ hb

theorem foldl_lastIn_not_mem (lists : List (List (Nat × Nat))) (v : Nat) (acc : Option (Nat × Nat))
    (h : ∀ fl ∈ lists, v ∉ varsOf fl) : lists.foldl (fun acc fl => lastIn fl 0 v acc) acc = acc := by
  induction lists generalizing acc with
  | nil => rfl
  | cons fl rest ih =>
    simp only [List.foldl_cons]
    rw [lastIn_not_mem fl 0 v acc (h fl (by simp))]
    exact ih acc (fun fl' hfl' => h fl' (by simp [hfl']))

/-- **The last occurrence wins.**  If the field lists are `pre ++ [a ++ (w, v) :: b] ++ post` and `v`
occurs neither in `b` nor in a list of `post`, then `v`'s slice is the one of that field — whatever
`pre` and `a` say about `v`. -/
theorem lastSlice_last (pre post : List (List (Nat × Nat))) (a b : List (Nat × Nat)) (w v : Nat)
    (hb : v ∉ varsOf b) (hpost : ∀ fl ∈ post, v ∉ varsOf fl) :
    lastSlice (pre ++ (a ++ (w, v) :: b) :: post) v = some (sumWidths a, w) := by
  unfold lastSlice
  rw [List.foldl_append, List.foldl_cons, lastIn_last a b w v 0 _ hb, foldl_lastIn_not_mem post v _ hpost]
  simp

/-- A variable that is in no field list has no slice. -/
theorem lastSlice_none (lists : List (List (Nat × Nat))) (v : Nat) (h : ∀ fl ∈ lists, v ∉ varsOf fl) :
    lastSlice lists v = none :=
  foldl_lastIn_not_mem lists v none h

theorem lastIn_isSome (fl : List (Nat × Nat)) (start v : Nat) (acc : Option (Nat × Nat))
    (h : acc.isSome = true ∨ v ∈ varsOf fl) : (lastIn fl start v acc).isSome = true := by
  induction fl generalizing start acc with
  | nil => simpa [lastIn, varsOf] using h
  | cons f fs ih =>
    obtain ⟨w, u⟩ := f
    simp only [lastIn]
    apply ih
    by_cases huv : u = v
    · simp [huv]
    · simp only [huv, ↓reduceIte]
      rcases h with h | h
      · exact Or.inl h
      · simp only [varsOf, List.map_cons, List.mem_cons] at h
        rcases h with h | h
        · exact absurd h.symm huv
        · exact Or.inr h

/-- ... and only such a variable: a variable of some list has a slice. -/
theorem lastSlice_isSome (lists : List (List (Nat × Nat))) (v : Nat) (fl : List (Nat × Nat)) (hfl : fl ∈ lists)
    (hv : v ∈ varsOf fl) : (lastSlice lists v).isSome = true := by
  unfold lastSlice
  suffices H : ∀ acc : Option (Nat × Nat), (acc.isSome = true ∨ ∃ fl ∈ lists, v ∈ varsOf fl) →
      (lists.foldl (fun acc fl => lastIn fl 0 v acc) acc).isSome = true from H none (Or.inr ⟨fl, hfl, hv⟩)
  clear hfl hv fl
  induction lists with
  | nil => intro acc h; simpa using h
  | cons l rest ih =>
    intro acc h
    simp only [List.foldl_cons]
    by_cases hl : v ∈ varsOf l
    · exact ih _ (Or.inl (lastIn_isSome l 0 v acc (Or.inr hl)))
    · rcases h with h | ⟨fl, hfl, hv⟩
      · exact ih _ (Or.inl (lastIn_isSome l 0 v acc (Or.inl h)))
      · simp only [List.mem_cons] at hfl
        rcases hfl with hfl | hfl
        · subst hfl; exact absurd hv hl
        · exact ih _ (Or.inr ⟨fl, hfl, hv⟩)

example : lastSlice [[(12, 0)], [(4, 1), (8, 2)], [(2, 1), (3, 3)]] 1 = some (0, 2) := by decide
example : lastSlice [[(12, 0)], [(4, 1), (8, 2)], [(2, 1), (3, 3)]] 2 = some (4, 8) := by decide
example : lastSlice [[(12, 0)], [(4, 1), (8, 2)], [(2, 1), (3, 3)]] 7 = none := by decide

/-! ## GET on `State`, any field lists -/

/-- Handle `h` is open FOR RANDOM on inode `i` with record length `L`; its FIELD lists are `lists`, each
fits a record, and list number `cur` is the current one. -/
def RandomLists (s : State) (h i L : Nat) (lists : List (List (Nat × Nat))) (cur : Nat) : Prop :=
  i < s.fs.inodes.length ∧ 0 < L ∧ (∀ fl ∈ lists, sumWidths fl ≤ L) ∧ cur < lists.length ∧
    ∃ fi, alGet s.handles h = some fi ∧ fi.kind = .random i L ∧ fi.fieldLists = lists ∧ fi.current = some cur

theorem put_lists_at (s : State) (h i L n cur : Nat) (lists : List (List (Nat × Nat)))
    (hv : validHandle h = true) (hn : 1 ≤ n) (hr : RandomLists s h i L lists cur) :
    step s (.put h n)
      = ({ s with fs := s.fs.setData i (putRecord (s.fs.data i) L n (recordOf s (lists.getD cur []))) }, .ok) := by
  obtain ⟨_, hL, _, hlt, fi, hg, hk, hfl, hcur⟩ := hr
  have hn0 : ¬ n = 0 := by omega
  simp [step, doPut, hv, hn0, getInfo, hg, hcur, hfl, ensureRandom, hk, hL, List.getElem?_eq_getElem hlt]

theorem get_lists_at (s : State) (h i L n cur : Nat) (lists : List (List (Nat × Nat)))
    (hv : validHandle h = true) (hn : 1 ≤ n) (hr : RandomLists s h i L lists cur) :
    step s (.get h n)
      = ({ s with vars := lists.foldl (fun vars fl => assignFields (getRecord (s.fs.data i) L n) fl 0 vars) s.vars },
          .ok) := by
  obtain ⟨_, hL, _, _, fi, hg, hk, hfl, hcur⟩ := hr
  have hn0 : ¬ n = 0 := by omega
  simp [step, doGet, hv, hn0, getInfo, hg, hfl, ensureRandom, hk, hL]

/-- **GET, every variable.**  `GET #h, n` on a RANDOM handle with any FIELD lists succeeds and leaves every
variable `v` with the slice of record `n` at the offset and width of `v`'s last occurrence in the lists;
a variable that is in no list keeps its value. -/
theorem get_every_variable (s : State) (h i L n cur : Nat) (lists : List (List (Nat × Nat)))
    (hv : validHandle h = true) (hn : 1 ≤ n) (hr : RandomLists s h i L lists cur) (v : Nat) :
    (step s (.get h n)).2 = .ok ∧
      (step s (.get h n)).1.var v =
        match lastSlice lists v with
        | some (off, w) => ((getRecord (s.fs.data i) L n).drop off).take w
        | none => s.var v := by
  rw [get_lists_at s h i L n cur lists hv hn hr]
  refine ⟨rfl, ?_⟩
  simp only [State.var]
  rw [assignAll_var]
  cases lastSlice lists v with
  | none => rfl
  | some p => obtain ⟨off, w⟩ := p; rfl

/-- **A variable in two (or more) FIELD lists: the last list wins.**  If the lists of the handle are
`pre ++ [a ++ (w, v) :: b] ++ post` and `v` occurs neither in `b` nor in `post`, then after `GET #h, n`
the variable `v` holds the `w` bytes at offset `sumWidths a` of record `n` — however often, at whatever
offsets and widths, `v` occurs in the earlier lists `pre` and earlier in the same list (`a`). -/
theorem get_last_list_wins (s : State) (h i L n cur : Nat) (pre post : List (List (Nat × Nat)))
    (a b : List (Nat × Nat)) (w v : Nat) (hv : validHandle h = true) (hn : 1 ≤ n)
    (hr : RandomLists s h i L (pre ++ (a ++ (w, v) :: b) :: post) cur)
    (hb : v ∉ varsOf b) (hpost : ∀ fl ∈ post, v ∉ varsOf fl) :
    (step s (.get h n)).1.var v = ((getRecord (s.fs.data i) L n).drop (sumWidths a)).take w := by
  rw [(get_every_variable s h i L n cur _ hv hn hr v).2, lastSlice_last pre post a b w v hb hpost]

/-- A variable that is in no FIELD list of the handle is not touched by GET. -/
theorem get_other_variable (s : State) (h i L n cur : Nat) (lists : List (List (Nat × Nat))) (v : Nat)
    (hv : validHandle h = true) (hn : 1 ≤ n) (hr : RandomLists s h i L lists cur)
    (hno : ∀ fl ∈ lists, v ∉ varsOf fl) : (step s (.get h n)).1.var v = s.var v := by
  rw [(get_every_variable s h i L n cur _ hv hn hr v).2, lastSlice_none lists v hno]

/-- `V1$` is fielded as bytes 0..3 by the second FIELD and as bytes 2..3 by the third: GET gives it bytes 2..3. -/
example :
    let s := (run emptyState [.open 1 (.plain 0) .random 4, .field 1 [(4, 0)], .field 1 [(4, 1)],
      .field 1 [(2, 2), (2, 1)], .lset 0 [65, 66, 67, 68], .put 1 1, .get 1 1]).1
    s.var 0 = [65, 66, 67, 68] ∧ s.var 1 = [67, 68] ∧ s.var 2 = [65, 66] := by
  decide

/-! ## PUT n ... GET n with any field lists -/

/-- Byte level, all of the record: what PUT wrote, followed by what the record held beyond it. -/
theorem get_put_same_full (data bytes : List Nat) (L n : Nat) (hb : bytes.length ≤ L) :
    getRecord (putRecord data L n bytes) L n = bytes ++ (getRecord data L n).drop bytes.length := by
  apply ext_getD
  · simp [getRecord_length]; omega
  · intro j
    by_cases hj : j < bytes.length
    · rw [get_put_same data bytes L n j hb hj]
      simp only [List.getD_eq_getElem?_getD]
      rw [List.getElem?_append_left hj]
    · have e : (bytes ++ (getRecord data L n).drop bytes.length).getD j 0 = (getRecord data L n).getD j 0 := by
        simp only [List.getD_eq_getElem?_getD]
        rw [List.getElem?_append_right (by omega), List.getElem?_drop]
        congr 2
        omega
      rw [e, getRecord_getD, getRecord_getD]
      by_cases hjL : j < L
      · simp only [hjL, ↓reduceIte]
        unfold putRecord
        rw [writeAt_getD]
        have hout : ¬ ((n - 1) * L ≤ (n - 1) * L + j ∧ (n - 1) * L + j < (n - 1) * L + bytes.length) := by omega
        simp only [hout, ↓reduceIte]
      · simp only [hjL, ↓reduceIte]

/-- The record `n` of inode `i` after `PUT #h, n` in state `s` with current field list `fl`: the variables of
`fl`, padded or cut to their widths, then the bytes the record held before beyond the widths of `fl`. -/
def storedRecord (s : State) (i L n : Nat) (fl : List (Nat × Nat)) : List Nat :=
  recordOf s fl ++ (getRecord (s.fs.data i) L n).drop (sumWidths fl)

/-- What may happen between the PUT and the GET of record `n`: any LSET, PUTs of other record numbers, GETs
of any record number, further FIELD statements on the handle, prints of variables. -/
def QuietOp (h n : Nat) (op : Op) : Prop :=
  (∃ v val, op = .lset v val) ∨ (∃ m, op = .put h m ∧ m ≠ n) ∨ (∃ m, op = .get h m) ∨
    (∃ fl, op = .field h fl) ∨ (∃ v, op = .show v)

theorem findList_bound (v : Nat) (ls : List (List (Nat × Nat))) (k idx : Nat) (h : findList v ls k = some idx) :
    k ≤ idx ∧ idx < k + ls.length := by
  induction ls generalizing k with
  | nil => simp [findList] at h
  | cons l rest ih =>
    simp only [findList] at h
    split at h
    · simp only [Option.some.injEq] at h
      subst h
      simp
    · have := ih _ h
      simp only [List.length_cons]
      omega

theorem RandomLists.same_fs (s s' : State) (h i L cur : Nat) (lists : List (List (Nat × Nat)))
    (hr : RandomLists s h i L lists cur) (hl : s'.fs.inodes.length = s.fs.inodes.length)
    (hh : s'.handles = s.handles) : RandomLists s' h i L lists cur := by
  obtain ⟨h1, h2, h3, h4, fi, hg, hk, hfl, hcur⟩ := hr
  exact ⟨by omega, h2, h3, h4, fi, by rw [hh]; exact hg, hk, hfl, hcur⟩

/-- One quiet step keeps the handle RANDOM on the same inode, keeps the field lists as a prefix of the new
ones (all fitting the record), and leaves the bytes of record `n` alone. -/
theorem quiet_step (h i L n : Nat) (hv : validHandle h = true) (hn : 1 ≤ n) (lists : List (List (Nat × Nat)))
    (cur : Nat) (s : State) (hr : RandomLists s h i L lists cur) (op : Op) (hq : QuietOp h n op) :
    (∃ more cur', RandomLists (step s op).1 h i L (lists ++ more) cur') ∧
      getRecord ((step s op).1.fs.data i) L n = getRecord (s.fs.data i) L n := by
  have keep : ∀ s' : State, s'.fs = s.fs → s'.handles = s.handles →
      (∃ more cur', RandomLists s' h i L (lists ++ more) cur') ∧
        getRecord (s'.fs.data i) L n = getRecord (s.fs.data i) L n := by
    intro s' hfs hh
    refine ⟨⟨[], cur, ?_⟩, by rw [hfs]⟩
    rw [List.append_nil]
    exact RandomLists.same_fs s s' h i L cur lists hr (by rw [hfs]) hh
  rcases hq with ⟨v, val, hop⟩ | ⟨m, hop, hmn⟩ | ⟨m, hop⟩ | ⟨fl, hop⟩ | ⟨v, hop⟩
  · -- LSET
    subst hop
    simp only [step, doLset]
    split
    · exact keep s rfl rfl
    · rename_i hs' hm
      refine ⟨?_, rfl⟩
      obtain ⟨h1, h2, h3, h4, fi, hg, hk, hfl, hcur⟩ := hr
      obtain ⟨c, hg', hc⟩ := markCurrent_get v s.handles hs' hm h fi hg
      rcases hc with hc | ⟨idx, hidx, hc⟩
      · refine ⟨[], cur, ?_⟩
        rw [List.append_nil]
        exact ⟨h1, h2, h3, h4, { fi with current := c }, hg', hk, hfl, by rw [hc]; exact hcur⟩
      · have hb := findList_bound v _ 0 idx hidx
        rw [hfl] at hb
        refine ⟨[], idx, ?_⟩
        rw [List.append_nil]
        exact ⟨h1, h2, h3, by omega, { fi with current := c }, hg', hk, hfl, hc⟩
  · -- PUT of another record
    subst hop
    by_cases hm0 : m = 0
    · subst hm0
      have : step s (.put h 0) = (s, .err .badRecordNumber) := by simp [step, doPut, hv]
      rw [this]
      exact keep s rfl rfl
    · have hm1 : 1 ≤ m := by omega
      rw [put_lists_at s h i L m cur lists hv hm1 hr]
      have hi := hr.1
      refine ⟨⟨[], cur, ?_⟩, ?_⟩
      · rw [List.append_nil]
        exact RandomLists.same_fs s _ h i L cur lists hr (by simp [Fs.setData]) rfl
      · simp only [data_setData _ _ _ hi]
        refine get_put_other _ _ L m n hm1 hn hmn ?_
        rw [recordOf_length]
        obtain ⟨_, _, h3, h4, _⟩ := hr
        rw [List.getD_eq_getElem?_getD, List.getElem?_eq_getElem h4]
        exact h3 _ (List.getElem_mem h4)
  · -- GET of any record
    subst hop
    by_cases hm0 : m = 0
    · subst hm0
      have : step s (.get h 0) = (s, .err .badRecordNumber) := by simp [step, doGet, hv]
      rw [this]
      exact keep s rfl rfl
    · rw [get_lists_at s h i L m cur lists hv (by omega) hr]
      exact keep _ rfl rfl
  · -- FIELD on the handle
    subst hop
    obtain ⟨h1, h2, h3, h4, fi, hg, hk, hfl, hcur⟩ := hr
    have hrl : fi.recLen = L := by simp [FileInfo.recLen, hk]
    simp only [step, doField, hv, Bool.not_true, Bool.false_eq_true, ↓reduceIte, getInfo, hg, hrl]
    split
    · exact keep s rfl rfl
    · split
      · exact keep s rfl rfl
      · rename_i hnz hfit
        refine ⟨⟨[fl], lists.length, ?_⟩, rfl⟩
        refine ⟨h1, h2, ?_, by simp, _, alGet_alSet_same _ _ _, hk, by rw [hfl], by rw [hfl]⟩
        intro l hl
        simp only [List.mem_append, List.mem_singleton] at hl
        rcases hl with hl | hl
        · exact h3 l hl
        · subst hl
          simp only [Bool.and_eq_true, decide_eq_true_eq, not_and] at hfit
          have := hfit h2
          omega
  · -- print of a variable
    subst hop
    exact keep s rfl rfl

theorem run_quiet (h i L n : Nat) (hv : validHandle h = true) (hn : 1 ≤ n) (ops : List Op)
    (hops : ∀ op ∈ ops, QuietOp h n op) (lists : List (List (Nat × Nat))) (cur : Nat) (s : State)
    (hr : RandomLists s h i L lists cur) :
    (∃ more cur', RandomLists (run s ops).1 h i L (lists ++ more) cur') ∧
      getRecord ((run s ops).1.fs.data i) L n = getRecord (s.fs.data i) L n := by
  induction ops generalizing s lists cur with
  | nil => exact ⟨⟨[], cur, by rw [List.append_nil]; exact hr⟩, rfl⟩
  | cons op rest ih =>
    simp only [run]
    obtain ⟨⟨more, cur', hr'⟩, hrec⟩ := quiet_step h i L n hv hn lists cur s hr op (hops op (by simp))
    obtain ⟨⟨more2, cur2, hr2⟩, hrec2⟩ := ih (fun o ho => hops o (by simp [ho])) _ _ _ hr'
    refine ⟨⟨more ++ more2, cur2, ?_⟩, by rw [hrec2, hrec]⟩
    rw [← List.append_assoc]
    exact hr2

/-- **put_get_same_record for any number of FIELD lists.**  On a handle open FOR RANDOM whose FIELD lists
`lists` each fit the record, list `cur` being current: `PUT #h, n`, then any sequence of LSETs, PUTs of
other record numbers, GETs, further FIELD statements on `h` and prints, then `GET #h, n`.  PUT and GET
succeed; the handle then has the lists `lists ++ more` (`more` = the FIELD statements in between that
succeeded); and EVERY variable `v` holds the slice, at the offset and width of its last occurrence in
`lists ++ more`, of the record the PUT stored: the variables of the current list as they were at the PUT,
padded / cut to their widths, followed by what record `n` held before beyond that list's total width.
A variable that is in no list is not touched by the GET. -/
theorem put_get_all_lists (s : State) (h i L n cur : Nat) (lists : List (List (Nat × Nat))) (others : List Op)
    (hv : validHandle h = true) (hn : 1 ≤ n) (hr : RandomLists s h i L lists cur)
    (hops : ∀ op ∈ others, QuietOp h n op) :
    (step s (.put h n)).2 = .ok ∧
      (step (run (step s (.put h n)).1 others).1 (.get h n)).2 = .ok ∧
      ∃ more cur', RandomLists (run (step s (.put h n)).1 others).1 h i L (lists ++ more) cur' ∧
        ∀ v, (run s ([.put h n] ++ others ++ [.get h n])).1.var v =
          match lastSlice (lists ++ more) v with
          | some (off, w) => ((storedRecord s i L n (lists.getD cur [])).drop off).take w
          | none => (run (step s (.put h n)).1 others).1.var v := by
  have hp := put_lists_at s h i L n cur lists hv hn hr
  have hi := hr.1
  have hfit : (recordOf s (lists.getD cur [])).length ≤ L := by
    rw [recordOf_length]
    obtain ⟨_, _, h3, h4, _⟩ := hr
    rw [List.getD_eq_getElem?_getD, List.getElem?_eq_getElem h4]
    exact h3 _ (List.getElem_mem h4)
  have hr1 : RandomLists (step s (.put h n)).1 h i L lists cur := by
    rw [hp]
    exact RandomLists.same_fs s _ h i L cur lists hr (by simp [Fs.setData]) rfl
  obtain ⟨⟨more, cur', hr2⟩, hrec⟩ := run_quiet h i L n hv hn others hops lists cur _ hr1
  refine ⟨by rw [hp], ?_, more, cur', hr2, ?_⟩
  · exact (get_every_variable _ h i L n cur' _ hv hn hr2 0).1
  · intro v
    rw [run_append, run_append]
    simp only [run]
    rw [(get_every_variable _ h i L n cur' _ hv hn hr2 v).2, hrec, hp]
    simp only [data_setData _ _ _ hi]
    rw [get_put_same_full _ _ L n hfit, recordOf_length]
    rfl

/-! ## The abstract record array -/

/-- The abstract view of a RANDOM file with record length `L`: record number → the `L` bytes of that record
(zero beyond the end of the file). -/
def recordArray (data : List Nat) (L : Nat) : Nat → List Nat := fun n => getRecord data L n

/-- `put_record` refines the update of one cell of the record array: record `n` becomes the bytes written
followed by what it held beyond them, every other record is unchanged. -/
theorem recordArray_put (data bytes : List Nat) (L n m : Nat) (hn : 1 ≤ n) (hm : 1 ≤ m) (hb : bytes.length ≤ L) :
    recordArray (putRecord data L n bytes) L m
      = if m = n then bytes ++ (recordArray data L n).drop bytes.length else recordArray data L m := by
  unfold recordArray
  split
  · rename_i hmn
    subst hmn
    exact get_put_same_full data bytes L m hb
  · rename_i hmn
    exact get_put_other data bytes L n m hn hm (fun h => hmn h.symm) hb

/-- On `State`: PUT through a handle with any field lists is that update of the record array of its file, with
the record built from the current list (`storedRecord`). -/
theorem put_updates_recordArray (s : State) (h i L n m cur : Nat) (lists : List (List (Nat × Nat)))
    (hv : validHandle h = true) (hn : 1 ≤ n) (hm : 1 ≤ m) (hr : RandomLists s h i L lists cur) :
    recordArray ((step s (.put h n)).1.fs.data i) L m
      = if m = n then storedRecord s i L n (lists.getD cur []) else recordArray (s.fs.data i) L m := by
  rw [put_lists_at s h i L n cur lists hv hn hr]
  simp only [data_setData _ _ _ hr.1]
  have hfit : (recordOf s (lists.getD cur [])).length ≤ L := by
    rw [recordOf_length]
    obtain ⟨_, _, h3, h4, _⟩ := hr
    rw [List.getD_eq_getElem?_getD, List.getElem?_eq_getElem h4]
    exact h3 _ (List.getElem_mem h4)
  rw [recordArray_put _ _ L n m hn hm hfit, recordOf_length]
  rfl

/-! ## Per field: every field of every list, and the fields of the list that was PUT -/

theorem recordOf_slice (s : State) (a b : List (Nat × Nat)) (w v : Nat) (rest : List Nat) :
    ((recordOf s (a ++ (w, v) :: b) ++ rest).drop (sumWidths a)).take w = fixLength (s.var v) w := by
  have e : recordOf s (a ++ (w, v) :: b) ++ rest
      = recordOf s a ++ (fixLength (s.var v) w ++ (recordOf s b ++ rest)) := by
    simp [recordOf]
  rw [e, List.drop_left' (recordOf_length s a), List.take_left' (fixLength_length _ _)]

/-- All variables of all field lists are pairwise distinct. -/
def DistinctVars (lists : List (List (Nat × Nat))) : Prop := ((lists.map varsOf).flatten).Nodup

/-- With pairwise distinct variables every field is the last occurrence of its variable. -/
theorem DistinctVars.last (pre post : List (List (Nat × Nat))) (a b : List (Nat × Nat)) (w v : Nat)
    (hd : DistinctVars (pre ++ (a ++ (w, v) :: b) :: post)) :
    v ∉ varsOf b ∧ ∀ fl ∈ post, v ∉ varsOf fl := by
  unfold DistinctVars at hd
  simp only [List.map_append, List.map_cons, List.flatten_append, List.flatten_cons, varsOf] at hd
  have h1 := (List.nodup_append.mp hd).2.1
  have h2 := List.nodup_append.mp h1
  have h3 := List.nodup_append.mp h2.1
  have h4 := List.nodup_cons.mp h3.2.1
  refine ⟨by simpa [varsOf] using h4.1, ?_⟩
  intro fl hfl hv
  refine h2.2.2 v ?_ v ?_ rfl
  · simp
  · simp only [List.mem_flatten, List.mem_map]
    exact ⟨varsOf fl, ⟨fl, hfl, rfl⟩, hv⟩

/-- **Every field of every list.**  Same history as `put_get_all_lists`.  Whenever the final field lists are
`pre ++ [a ++ (w, v) :: b] ++ post` and `v` does not occur again in `b` or `post`, the variable `v` holds
the `w` bytes at offset `sumWidths a` of the stored record.  (A variable that does occur again takes the
slice of its later occurrence: this very statement for that occurrence.) -/
theorem put_get_every_field (s : State) (h i L n cur : Nat) (lists : List (List (Nat × Nat))) (others : List Op)
    (hv : validHandle h = true) (hn : 1 ≤ n) (hr : RandomLists s h i L lists cur)
    (hops : ∀ op ∈ others, QuietOp h n op) :
    ∃ more cur', RandomLists (run (step s (.put h n)).1 others).1 h i L (lists ++ more) cur' ∧
      ∀ pre post a b w v, lists ++ more = pre ++ (a ++ (w, v) :: b) :: post → v ∉ varsOf b →
        (∀ fl ∈ post, v ∉ varsOf fl) →
        (run s ([.put h n] ++ others ++ [.get h n])).1.var v
          = ((storedRecord s i L n (lists.getD cur [])).drop (sumWidths a)).take w := by
  obtain ⟨_, _, more, cur', hr2, hall⟩ := put_get_all_lists s h i L n cur lists others hv hn hr hops
  refine ⟨more, cur', hr2, ?_⟩
  intro pre post a b w v hdec hb hpost
  rw [hall v, hdec, lastSlice_last pre post a b w v hb hpost]

/-- With pairwise distinct variables: EVERY field `(w, v)` of EVERY list holds its slice. -/
theorem put_get_every_field_distinct (s : State) (h i L n cur : Nat) (lists : List (List (Nat × Nat)))
    (others : List Op) (hv : validHandle h = true) (hn : 1 ≤ n) (hr : RandomLists s h i L lists cur)
    (hops : ∀ op ∈ others, QuietOp h n op) :
    ∃ more cur', RandomLists (run (step s (.put h n)).1 others).1 h i L (lists ++ more) cur' ∧
      (DistinctVars (lists ++ more) →
        ∀ pre post a b w v, lists ++ more = pre ++ (a ++ (w, v) :: b) :: post →
          (run s ([.put h n] ++ others ++ [.get h n])).1.var v
            = ((storedRecord s i L n (lists.getD cur [])).drop (sumWidths a)).take w) := by
  obtain ⟨more, cur', hr2, hall⟩ := put_get_every_field s h i L n cur lists others hv hn hr hops
  refine ⟨more, cur', hr2, ?_⟩
  intro hd pre post a b w v hdec
  rw [hdec] at hd
  have := DistinctVars.last pre post a b w v hd
  exact hall pre post a b w v hdec this.1 this.2

/-- **The values of the PUT come back** (generalises `put_get_same_record` to any number of lists).  For a
field `(w, v)` of the list that was current at the PUT, if `v` does not occur again later in that list nor
in a list after it (the lists FIELDed before the PUT or in between), then after the GET `v` holds the value
it had at the PUT, padded with zero bytes or cut to `w`. -/
theorem put_get_current_values (s : State) (h i L n cur : Nat) (lists : List (List (Nat × Nat))) (others : List Op)
    (hv : validHandle h = true) (hn : 1 ≤ n) (hr : RandomLists s h i L lists cur)
    (hops : ∀ op ∈ others, QuietOp h n op) :
    ∃ more cur', RandomLists (run (step s (.put h n)).1 others).1 h i L (lists ++ more) cur' ∧
      ∀ a b w v, lists.getD cur [] = a ++ (w, v) :: b → v ∉ varsOf b →
        (∀ fl ∈ (lists ++ more).drop (cur + 1), v ∉ varsOf fl) →
        (run s ([.put h n] ++ others ++ [.get h n])).1.var v = fixLength (s.var v) w := by
  obtain ⟨more, cur', hr2, hall⟩ := put_get_every_field s h i L n cur lists others hv hn hr hops
  refine ⟨more, cur', hr2, ?_⟩
  intro a b w v hcur hb hpost
  have hlt : cur < lists.length := hr.2.2.2.1
  have hlt2 : cur < (lists ++ more).length := by simp; omega
  have hget : (lists ++ more)[cur] = a ++ (w, v) :: b := by
    rw [List.getElem_append_left hlt, ← hcur, List.getD_eq_getElem?_getD, List.getElem?_eq_getElem hlt]
    rfl
  have hdec : lists ++ more = (lists ++ more).take cur ++ (a ++ (w, v) :: b) :: (lists ++ more).drop (cur + 1) := by
    rw [← hget, List.getElem_cons_drop, List.take_append_drop]
  rw [hall _ _ a b w v hdec hb hpost, hcur]
  exact recordOf_slice s a b w v _

/-! ## Non-vacuity: two overlapping views of a 12-byte record, a third FIELD in between -/

/-- `OPEN "A" FOR RANDOM AS #1 LEN = 12 : FIELD #1, 12 AS V0$ : FIELD #1, 4 AS V1$, 8 AS V2$ :
LSET V1$ = "CODE" : LSET V2$ = "LABEL"`. -/
def demoState : State :=
  (run emptyState [.open 1 (.plain 0) .random 12, .field 1 [(12, 0)], .field 1 [(4, 1), (8, 2)],
    .lset 1 [67, 79, 68, 69], .lset 2 [76, 65, 66, 69, 76]]).1

/-- `LSET V0$ = "zzzzzzzzzzzz" : PUT #1, 1 : GET #1, 1 : FIELD #1, 2 AS V1$, 3 AS V3$ : PRINT V1$`. -/
def demoOthers : List Op :=
  [.lset 0 (List.replicate 12 122), .put 1 1, .get 1 1, .field 1 [(2, 1), (3, 3)], .show 1]

theorem demo_lists : RandomLists demoState 1 0 12 [[(12, 0)], [(4, 1), (8, 2)]] 1 :=
  ⟨by decide, by decide, by decide, by decide, _, rfl, rfl, rfl, rfl⟩

theorem demo_quiet : ∀ op ∈ demoOthers, QuietOp 1 2 op := by
  intro op hop
  simp only [demoOthers, List.mem_cons, List.mem_nil_iff, or_false] at hop
  rcases hop with h | h | h | h | h <;> subst h
  · exact Or.inl ⟨_, _, rfl⟩
  · exact Or.inr (Or.inl ⟨1, rfl, by decide⟩)
  · exact Or.inr (Or.inr (Or.inl ⟨1, rfl⟩))
  · exact Or.inr (Or.inr (Or.inr (Or.inl ⟨_, rfl⟩)))
  · exact Or.inr (Or.inr (Or.inr (Or.inr ⟨_, rfl⟩)))

/-- The hypotheses of `put_get_all_lists` hold for the demo history (record 2 is PUT through the 4 + 8 view). -/
example := put_get_all_lists demoState 1 0 12 2 1 _ demoOthers (by decide) (by decide) demo_lists demo_quiet

/-- What the theorem says here, computed: after `GET #1, 2` the whole-record variable of the FIRST list
holds all 12 bytes, `V2$` of the second list its 8 bytes, `V1$` — which is in the second and in the third
list — the 2 bytes of its LAST occurrence, and `V3$` of the third list the bytes 2..4. -/
example :
    let s := (run demoState ([.put 1 2] ++ demoOthers ++ [.get 1 2])).1
    s.var 0 = [67, 79, 68, 69, 76, 65, 66, 69, 76, 0, 0, 0] ∧ s.var 2 = [76, 65, 66, 69, 76, 0, 0, 0] ∧
      s.var 1 = [67, 79] ∧ s.var 3 = [68, 69, 76] := by
  decide

end RbThm.C18
