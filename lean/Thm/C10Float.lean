import RbModel.FloatLit
/-!
C10, literals with a fraction: typing rule, correctly rounded value, sign symmetry.
-/
namespace RbThm.C10Float
open RbModel.Expr RbModel.FloatLit

/-! ### Powers of two over `Rat` -/

theorem two_ne : (2 : Rat) ≠ 0 := by decide +kernel

theorem zpow_pos (e : Int) : 0 < (2 : Rat) ^ e := Rat.zpow_pos (by decide +kernel)

theorem zpow_ne (e : Int) : (2 : Rat) ^ e ≠ 0 := Rat.ne_of_gt (zpow_pos e)

theorem zpow_succ (e : Int) : (2 : Rat) ^ (e + 1) = (2 : Rat) ^ e * 2 := by
  rw [Rat.zpow_add two_ne, Rat.zpow_one]

theorem one_le_pow (n : Nat) : (1 : Rat) ≤ (2 : Rat) ^ n := by
  induction n with
  | zero => rw [Rat.pow_zero]; exact Rat.le_refl
  | succ k ih => rw [Rat.pow_succ]; grind

theorem zpow_le {x y : Int} (h : x ≤ y) : (2 : Rat) ^ x ≤ (2 : Rat) ^ y := by
  obtain ⟨n, rfl⟩ : ∃ n : Nat, y = x + n := ⟨(y - x).toNat, by omega⟩
  rw [Rat.zpow_add two_ne, Rat.zpow_natCast]
  have h1 := one_le_pow n
  have h2 := zpow_pos x
  have := Rat.mul_le_mul_of_nonneg_left h1 (Rat.le_of_lt h2)
  rw [Rat.mul_one] at this
  exact this

theorem zpow_lt {x y : Int} (h : x < y) : (2 : Rat) ^ x < (2 : Rat) ^ y := by
  have h1 : (2 : Rat) ^ (x + 1) ≤ (2 : Rat) ^ y := zpow_le (by omega)
  have h2 := zpow_pos x
  rw [zpow_succ] at h1
  grind

theorem lt_of_zpow_lt {x y : Int} (h : (2 : Rat) ^ x < (2 : Rat) ^ y) : x < y := by
  apply Decidable.byContradiction
  intro hn
  have := zpow_le (x := y) (y := x) (by omega)
  grind

theorem le_of_zpow_le {x y : Int} (h : (2 : Rat) ^ x ≤ (2 : Rat) ^ y) : x ≤ y := by
  apply Decidable.byContradiction
  intro hn
  have := zpow_lt (x := y) (y := x) (by omega)
  grind

/-! ### Round-half-even to an integer -/

theorem rne_cases (s : Rat) :
    (rne s = s.floor ∧ s - (s.floor : Rat) ≤ 1 / 2 ∧ (s - (s.floor : Rat) = 1 / 2 → s.floor % 2 = 0)) ∨
    (rne s = s.floor + 1 ∧ 1 / 2 ≤ s - (s.floor : Rat) ∧ (s - (s.floor : Rat) = 1 / 2 → (s.floor + 1) % 2 = 0)) := by
  unfold rne
  by_cases h1 : s - (s.floor : Rat) < 1 / 2
  · left; rw [if_pos h1]; exact ⟨rfl, Rat.le_of_lt h1, fun h => absurd h (Rat.ne_of_lt h1)⟩
  · rw [if_neg h1]
    by_cases h2 : 1 / 2 < s - (s.floor : Rat)
    · right; rw [if_pos h2]; exact ⟨rfl, Rat.le_of_lt h2, fun h => absurd h.symm (Rat.ne_of_lt h2)⟩
    · rw [if_neg h2]
      by_cases h3 : s.floor % 2 = 0
      · left; rw [if_pos h3]; exact ⟨rfl, Rat.not_lt.mp h2, fun _ => h3⟩
      · right; rw [if_neg h3]; exact ⟨rfl, Rat.not_lt.mp h1, fun _ => by omega⟩

/-- `rne s` is within one half of `s`, and when it is exactly one half away it is even. -/
theorem rne_spec (s : Rat) :
    s - 1 / 2 ≤ (rne s : Rat) ∧ (rne s : Rat) ≤ s + 1 / 2 ∧
    (((rne s : Rat) - s = 1 / 2 ∨ s - (rne s : Rat) = 1 / 2) → rne s % 2 = 0) := by
  have hf := Rat.floor_le s
  have hc := Rat.lt_floor_add_one s
  rw [Rat.intCast_add] at hc
  rcases rne_cases s with ⟨h, h1, h2⟩ | ⟨h, h1, h2⟩
  · rw [h]; refine ⟨by grind, by grind, ?_⟩
    intro h3; apply h2; grind
  · rw [h, Rat.intCast_add]; refine ⟨by grind, by grind, ?_⟩
    intro h3; apply h2; grind

theorem rne_int (k : Int) : rne (k : Rat) = k := by
  unfold rne
  rw [Rat.floor_intCast]
  have : (k : Rat) - (k : Rat) < 1 / 2 := by rw [Rat.sub_self]; decide +kernel
  rw [if_pos this]

theorem rne_nonneg {s : Rat} (h : 0 ≤ s) : 0 ≤ rne s := by
  have := (rne_spec s).1
  have h2 : ((-1 : Int) : Rat) < (rne s : Rat) := by
    have : ((-1 : Int) : Rat) = -1 := by decide +kernel
    grind
  have := Rat.intCast_lt_intCast.mp h2
  omega

theorem rne_le_int {s : Rat} {k : Int} (h : s ≤ (k : Rat)) : rne s ≤ k := by
  have := (rne_spec s).2.1
  have h2 : (rne s : Rat) < ((k + 1 : Int) : Rat) := by
    rw [Rat.intCast_add]; grind
  have := Rat.intCast_lt_intCast.mp h2
  omega

/-! ### `ilog2` is the floor of the binary logarithm -/

theorem natCast_pow_two (n : Nat) : ((2 ^ n : Nat) : Rat) = (2 : Rat) ^ (n : Int) := by
  rw [Rat.natCast_pow, Rat.zpow_natCast]; rfl

theorem log2_lower {n : Nat} (h : n ≠ 0) : (2 : Rat) ^ (n.log2 : Int) ≤ (n : Rat) := by
  rw [← natCast_pow_two]; exact Rat.natCast_le_natCast.mpr (Nat.log2_self_le h)

theorem log2_upper (n : Nat) : (n : Rat) < (2 : Rat) ^ ((n.log2 : Int) + 1) := by
  have : ((n.log2 : Int) + 1) = ((n.log2 + 1 : Nat) : Int) := by omega
  rw [this, ← natCast_pow_two]; exact Rat.natCast_lt_natCast.mpr Nat.lt_log2_self

/-- A positive rational as the quotient of its (natural) numerator and denominator. -/
theorem pos_eq_div {a : Rat} (h : 0 < a) :
    a = (a.num.natAbs : Rat) / (a.den : Rat) ∧ a.num.natAbs ≠ 0 := by
  have hn : 0 < a.num := by
    have := Rat.num_nonneg (q := a)
    have h0 : a.num ≠ 0 := by
      intro h0; have := (Rat.num_eq_zero (q := a)).mp h0; grind
    have := (Rat.num_nonneg (q := a)).mpr (Rat.le_of_lt h)
    omega
  refine ⟨?_, by omega⟩
  have h1 := Rat.num_divInt_den a
  rw [Rat.divInt_eq_div] at h1
  have h2 : ((a.num.natAbs : Nat) : Int) = a.num := by omega
  have h3 : ((a.num.natAbs : Nat) : Rat) = ((a.num : Int) : Rat) := by
    rw [← Rat.intCast_natCast, h2]
  rw [h3, ← Rat.intCast_natCast a.den]
  exact h1.symm

theorem ilog2_bracket {a : Rat} (h : 0 < a) :
    (2 : Rat) ^ ilog2 a ≤ a ∧ a < (2 : Rat) ^ (ilog2 a + 1) := by
  obtain ⟨ha, hn0⟩ := pos_eq_div h
  have hd0 : a.den ≠ 0 := a.den_nz
  have hdpos : (0 : Rat) < (a.den : Rat) := Rat.natCast_pos.mpr (by omega)
  have hnl := log2_lower hn0
  have hnu := log2_upper a.num.natAbs
  have hdl := log2_lower hd0
  have hdu := log2_upper a.den
  generalize hN : (a.num.natAbs : Rat) = N at *
  generalize hD : (a.den : Rat) = D at *
  generalize hln : (a.num.natAbs.log2 : Int) = ln at *
  generalize hld : (a.den.log2 : Int) = ld at *
  unfold ilog2
  simp only [hln, hld]
  by_cases ht : (2 : Rat) ^ (ln - ld) ≤ a
  · rw [if_pos ht]
    refine ⟨ht, ?_⟩
    rw [ha, Rat.div_lt_iff hdpos]
    -- N < 2^(ln+1) = 2^(ln-ld+1) * 2^ld ≤ 2^(ln-ld+1) * D
    have e : (2 : Rat) ^ (ln + 1) = (2 : Rat) ^ (ln - ld + 1) * (2 : Rat) ^ ld := by
      rw [← Rat.zpow_add two_ne]; congr 1; omega
    have := Rat.mul_le_mul_of_nonneg_left hdl (Rat.le_of_lt (zpow_pos (ln - ld + 1)))
    grind
  · rw [if_neg ht]
    have ht' : a < (2 : Rat) ^ (ln - ld) := Rat.not_le.mp ht
    refine ⟨?_, by rw [show ln - ld - 1 + 1 = ln - ld by omega]; exact ht'⟩
    -- 2^(ln-ld-1) * D < 2^(ln-ld-1) * 2^(ld+1) = 2^ln ≤ N
    have e : (2 : Rat) ^ ln = (2 : Rat) ^ (ln - ld - 1) * (2 : Rat) ^ (ld + 1) := by
      rw [← Rat.zpow_add two_ne]; congr 1; omega
    have := Rat.mul_lt_mul_of_pos_left hdu (zpow_pos (ln - ld - 1))
    have h4 : (2 : Rat) ^ (ln - ld - 1) * D < N := by grind
    have h5 : (2 : Rat) ^ (ln - ld - 1) < N / D := (Rat.lt_div_iff hdpos).mpr h4
    rw [ha]; exact Rat.le_of_lt h5


/-! ### The rounded magnitude -/

theorem ulp_pos (f : Fmt) (a : Rat) : 0 < ulp f a := zpow_pos _

theorem intCast_two_pow (n : Nat) : (((2 : Int) ^ n : Int) : Rat) = (2 : Rat) ^ (n : Int) := by
  rw [Rat.intCast_pow, Rat.zpow_natCast]; rfl

/-- `a` lies below `2^prec` units in the last place. -/
theorem div_ulp_lt (f : Fmt) {a : Rat} (h : 0 < a) : a / ulp f a < (2 : Rat) ^ (f.prec : Int) := by
  rw [Rat.div_lt_iff (ulp_pos f a)]
  unfold ulp qexp
  rw [← Rat.zpow_add two_ne]
  have h1 := (ilog2_bracket h).2
  have h2 : (2 : Rat) ^ (ilog2 a + 1) ≤ (2 : Rat) ^ ((f.prec : Int) + (max (ilog2 a) f.emin - ((f.prec : Int) - 1))) :=
    zpow_le (by omega)
  grind

/-- The specification of the rounded magnitude, for every non-negative rational: it is an integer
number `m` of units in the last place with `0 ≤ m ≤ 2^prec`, at most half a unit away from `a`, and
exactly half a unit away only if `m` is even. -/
theorem roundMag_spec (f : Fmt) {a : Rat} (h : 0 ≤ a) :
    roundMag f a = (sigOf f a : Rat) * ulp f a ∧
    0 ≤ sigOf f a ∧ sigOf f a ≤ (2 : Int) ^ f.prec ∧
    a - ulp f a / 2 ≤ roundMag f a ∧ roundMag f a ≤ a + ulp f a / 2 ∧
    ((roundMag f a - a = ulp f a / 2 ∨ a - roundMag f a = ulp f a / 2) → sigOf f a % 2 = 0) := by
  have hu := ulp_pos f a
  have hu0 : ulp f a ≠ 0 := Rat.ne_of_gt hu
  have hs := rne_spec (a / ulp f a)
  have hau : a / ulp f a * ulp f a = a := Rat.div_mul_cancel hu0
  have hsnn : 0 ≤ a / ulp f a := by
    rw [Rat.div_def]; exact Rat.mul_nonneg h (Rat.le_of_lt (Rat.inv_pos.mpr hu))
  refine ⟨rfl, rne_nonneg hsnn, ?_, ?_, ?_, ?_⟩
  · apply rne_le_int
    rw [intCast_two_pow]
    by_cases h0 : a = 0
    · rw [h0, Rat.div_def, Rat.zero_mul]; exact Rat.le_of_lt (zpow_pos _)
    · exact Rat.le_of_lt (div_ulp_lt f (by grind))
  · have := Rat.mul_le_mul_of_nonneg_right hs.1 (Rat.le_of_lt hu)
    rw [Rat.sub_eq_add_neg, Rat.add_mul, hau] at this
    unfold roundMag sigOf; grind
  · have := Rat.mul_le_mul_of_nonneg_right hs.2.1 (Rat.le_of_lt hu)
    rw [Rat.add_mul, hau] at this
    unfold roundMag sigOf; grind
  · intro ht
    apply hs.2.2
    unfold roundMag sigOf at ht
    generalize (rne (a / ulp f a) : Rat) = M at *
    generalize a / ulp f a = S at *
    generalize ulp f a = U at *
    subst hau
    rcases ht with ht | ht
    · left
      have : (M - S - 1/2) * U = 0 := by grind
      rcases Rat.mul_eq_zero.mp this with h | h
      · grind
      · exact absurd h hu0
    · right
      have : (S - M - 1/2) * U = 0 := by grind
      rcases Rat.mul_eq_zero.mp this with h | h
      · grind
      · exact absurd h hu0


/-! ### Representable values -/

/-- `x` is a finite number of the format (no upper bound on the exponent: overflow is `value`'s business):
an integer significand of fewer than `prec` + 1 bits times a power of two not below the subnormal quantum. -/
def Representable (f : Fmt) (x : Rat) : Prop :=
  ∃ (m e : Int), x = (m : Rat) * (2 : Rat) ^ e ∧ m.natAbs < 2 ^ f.prec ∧ f.emin - ((f.prec : Int) - 1) ≤ e

theorem natCast_two_pow_int (n : Nat) : ((2 ^ n : Nat) : Int) = (2 : Int) ^ n := by
  rw [Int.natCast_pow]; rfl

theorem qexp_ge (f : Fmt) (a : Rat) : f.emin - ((f.prec : Int) - 1) ≤ qexp f a := by
  unfold qexp; omega

theorem roundMag_representable (f : Fmt) (hp : 1 ≤ f.prec) {a : Rat} (h : 0 ≤ a) :
    Representable f (roundMag f a) := by
  obtain ⟨he, h0, hle, -⟩ := roundMag_spec f h
  by_cases hlt : sigOf f a < (2 : Int) ^ f.prec
  · refine ⟨sigOf f a, qexp f a, he, ?_, qexp_ge f a⟩
    have := natCast_two_pow_int f.prec
    omega
  · have heq : sigOf f a = (2 : Int) ^ f.prec := by omega
    refine ⟨(2 : Int) ^ (f.prec - 1), qexp f a + 1, ?_, ?_, by have := qexp_ge f a; omega⟩
    · rw [he, heq, intCast_two_pow, intCast_two_pow]
      unfold ulp
      rw [← Rat.zpow_add two_ne, ← Rat.zpow_add two_ne]
      congr 1; omega
    · have h1 : ((2 : Int) ^ (f.prec - 1)).natAbs = 2 ^ (f.prec - 1) := by
        rw [← natCast_two_pow_int]; rfl
      rw [h1]
      exact Nat.pow_lt_pow_right (by omega) (by omega)

theorem roundMag_zero (f : Fmt) : roundMag f 0 = 0 := by
  unfold roundMag sigOf
  rw [Rat.div_def, Rat.zero_mul]
  have := rne_int 0
  rw [show ((0 : Int) : Rat) = 0 from rfl] at this
  rw [this]; exact Rat.zero_mul _

/-- Exactness: a representable magnitude is its own rounding. -/
theorem roundMag_exact (f : Fmt) {x : Rat} (h : 0 ≤ x) (hr : Representable f x) : roundMag f x = x := by
  by_cases hx0 : x = 0
  · rw [hx0]; exact roundMag_zero f
  have hx : 0 < x := by grind
  obtain ⟨m, e, hxe, hm, hemin⟩ := hr
  have hmpos : 0 < m := by
    have h1 : 0 < (m : Rat) * (2 : Rat) ^ e := hxe ▸ hx
    have h2 : (0 : Rat) < (m : Rat) := (Rat.mul_pos_iff_of_pos_right (zpow_pos e)).mp h1
    exact Rat.intCast_pos.mp h2
  -- the exponent of `x` is below `prec + e`
  have hlog : ilog2 x < (f.prec : Int) + e := by
    apply lt_of_zpow_lt
    have h1 := (ilog2_bracket hx).1
    have h2 : (m : Rat) < (2 : Rat) ^ (f.prec : Int) := by
      rw [← intCast_two_pow]
      apply Rat.intCast_lt_intCast.mpr
      have := natCast_two_pow_int f.prec
      omega
    have h3 := Rat.mul_lt_mul_of_pos_right h2 (zpow_pos e)
    rw [← Rat.zpow_add two_ne] at h3
    grind
  have hq : qexp f x ≤ e := by unfold qexp; omega
  obtain ⟨n, hn⟩ : ∃ n : Nat, e = qexp f x + n := ⟨(e - qexp f x).toNat, by omega⟩
  have hdiv : x / ulp f x = ((m * (2 : Int) ^ n : Int) : Rat) := by
    have hu : ulp f x = (2 : Rat) ^ qexp f x := rfl
    rw [hu, Rat.intCast_mul, intCast_two_pow]
    generalize qexp f x = Q at *
    have hx' : x = (m : Rat) * ((2 : Rat) ^ (n : Int) * (2 : Rat) ^ Q) := by
      rw [hxe, hn, Rat.zpow_add two_ne, Rat.mul_comm ((2 : Rat) ^ Q)]
    rw [hx', Rat.div_def, Rat.mul_assoc, Rat.mul_assoc, Rat.mul_inv_cancel _ (zpow_ne _), Rat.mul_one]
  unfold roundMag sigOf
  rw [hdiv, rne_int, ← hdiv]
  exact Rat.div_mul_cancel (Rat.ne_of_gt (ulp_pos f x))

theorem representable_neg {f : Fmt} {x : Rat} (h : Representable f x) : Representable f (-x) := by
  obtain ⟨m, e, hx, hm, he⟩ := h
  refine ⟨-m, e, ?_, by omega, he⟩
  rw [hx, Rat.intCast_neg, Rat.neg_mul]

/-! ### `roundNearestEven`: the value theorems -/

/-- (c) Sign symmetry of round-to-nearest-even. -/
theorem round_neg (q : Rat) (f : Fmt) : roundNearestEven (-q) f = -(roundNearestEven q f) := by
  unfold roundNearestEven
  by_cases h1 : q < 0
  · have h2 : ¬ (-q < 0) := by grind
    rw [if_pos h1, if_neg h2, Rat.neg_neg]
  · by_cases h0 : q = 0
    · subst h0
      have : ¬ ((-0 : Rat) < 0) := by decide +kernel
      rw [if_neg this, if_neg h1, Rat.neg_zero, roundMag_zero]; rfl
    · have h2 : -q < 0 := by grind
      rw [if_pos h2, if_neg h1, Rat.neg_neg]

/-- (b) The rounded value is at most half a unit in the last place (of the magnitude of `q`) away from `q`. -/
theorem round_half_ulp (q : Rat) (f : Fmt) :
    q - ulp f q.abs / 2 ≤ roundNearestEven q f ∧ roundNearestEven q f ≤ q + ulp f q.abs / 2 := by
  unfold roundNearestEven
  by_cases h1 : q < 0
  · have hn : 0 ≤ -q := by grind
    have ha : q.abs = -q := by rw [Rat.abs_of_nonpos (Rat.le_of_lt h1)]
    obtain ⟨-, -, -, hl, hu, -⟩ := roundMag_spec f hn
    rw [if_pos h1, ha]; grind
  · have hn : 0 ≤ q := Rat.not_lt.mp h1
    obtain ⟨-, -, -, hl, hu, -⟩ := roundMag_spec f hn
    rw [if_neg h1, Rat.abs_of_nonneg hn]; exact ⟨hl, hu⟩

/-- (b) The rounded value is a number of the format. -/
theorem round_representable (q : Rat) (f : Fmt) (hp : 1 ≤ f.prec) : Representable f (roundNearestEven q f) := by
  unfold roundNearestEven
  by_cases h1 : q < 0
  · rw [if_pos h1]; exact representable_neg (roundMag_representable f hp (by grind))
  · rw [if_neg h1]; exact roundMag_representable f hp (Rat.not_lt.mp h1)

/-- (b) Exactness: a number of the format (a dyadic rational that fits) is not changed. -/
theorem round_exact (q : Rat) (f : Fmt) (h : Representable f q) : roundNearestEven q f = q := by
  unfold roundNearestEven
  by_cases h1 : q < 0
  · rw [if_pos h1, roundMag_exact f (by grind) (representable_neg h), Rat.neg_neg]
  · rw [if_neg h1]; exact roundMag_exact f (Rat.not_lt.mp h1) h

/-- Rounding is idempotent. -/
theorem round_idem (q : Rat) (f : Fmt) (hp : 1 ≤ f.prec) :
    roundNearestEven (roundNearestEven q f) f = roundNearestEven q f :=
  round_exact _ f (round_representable q f hp)


/-! ### `ulp` is the spacing of the format at the magnitude of `a` -/

/-- Normal range: `a` lies in the binade whose numbers are `2^(prec-1) .. 2^prec - 1` units. -/
theorem ulp_normal (f : Fmt) {a : Rat} (h : 0 < a) (hn : f.emin ≤ ilog2 a) :
    (2 : Rat) ^ ((f.prec : Int) - 1) * ulp f a ≤ a ∧ a < (2 : Rat) ^ (f.prec : Int) * ulp f a := by
  have hb := ilog2_bracket h
  unfold ulp qexp
  rw [← Rat.zpow_add two_ne, ← Rat.zpow_add two_ne]
  rw [show (f.prec : Int) - 1 + (max (ilog2 a) f.emin - ((f.prec : Int) - 1)) = ilog2 a by omega,
    show (f.prec : Int) + (max (ilog2 a) f.emin - ((f.prec : Int) - 1)) = ilog2 a + 1 by omega]
  exact hb

/-- Subnormal range: below `2^emin` the spacing is the fixed quantum `2^(emin - prec + 1)`. -/
theorem ulp_subnormal (f : Fmt) {a : Rat} (h : 0 < a) (hn : ilog2 a < f.emin) :
    ulp f a = (2 : Rat) ^ (f.emin - ((f.prec : Int) - 1)) ∧ a < (2 : Rat) ^ f.emin := by
  refine ⟨?_, ?_⟩
  · unfold ulp qexp; congr 1; omega
  · have hb := (ilog2_bracket h).2
    have := zpow_le (x := ilog2 a + 1) (y := f.emin) (by omega)
    grind

/-- Ties go to the even significand: when the result is exactly half a unit away from `q`, it is an even
number of units. -/
theorem round_tie_even (q : Rat) (f : Fmt)
    (ht : roundNearestEven q f - q = ulp f q.abs / 2 ∨ q - roundNearestEven q f = ulp f q.abs / 2) :
    ∃ m : Int, roundNearestEven q f = (m : Rat) * ulp f q.abs ∧ m % 2 = 0 := by
  unfold roundNearestEven at ht ⊢
  by_cases h1 : q < 0
  · have hn : 0 ≤ -q := by grind
    have ha : q.abs = -q := by rw [Rat.abs_of_nonpos (Rat.le_of_lt h1)]
    obtain ⟨he, -, -, -, -, hev⟩ := roundMag_spec f hn
    rw [if_pos h1, ha] at ht
    rw [if_pos h1, ha]
    refine ⟨-(sigOf f (-q)), ?_, ?_⟩
    · rw [he, Rat.intCast_neg, Rat.neg_mul]
    · have := hev (by grind); omega
  · have hn : 0 ≤ q := Rat.not_lt.mp h1
    obtain ⟨he, -, -, -, -, hev⟩ := roundMag_spec f hn
    rw [if_neg h1, Rat.abs_of_nonneg hn] at ht
    rw [if_neg h1, Rat.abs_of_nonneg hn]
    exact ⟨sigOf f q, he, hev ht⟩

/-! ### The overflow edge -/

theorem ilog2_eq {a : Rat} {e : Int} (h1 : (2 : Rat) ^ e ≤ a) (h2 : a < (2 : Rat) ^ (e + 1)) : ilog2 a = e := by
  have hpos : 0 < a := by have := zpow_pos e; grind
  obtain ⟨hl, hu⟩ := ilog2_bracket hpos
  have := lt_of_zpow_lt (x := ilog2 a) (y := e + 1) (by grind)
  have := lt_of_zpow_lt (x := e) (y := ilog2 a + 1) (by grind)
  omega

theorem sub_mul (x y z : Rat) : (x - y) * z = x * z - y * z := by
  rw [Rat.sub_eq_add_neg, Rat.add_mul, Rat.neg_mul, ← Rat.sub_eq_add_neg]

theorem int_le_of_mul_le {m k : Int} {U : Rat} (hU : 0 < U) (h : (k : Rat) * U ≤ (m : Rat) * U) : k ≤ m := by
  apply Decidable.byContradiction
  intro hn
  have h1 : m + 1 ≤ k := by omega
  have h2 : ((m + 1 : Int) : Rat) ≤ (k : Rat) := Rat.intCast_le_intCast.mpr h1
  rw [Rat.intCast_add] at h2
  have h3 := Rat.mul_le_mul_of_nonneg_right h2 (Rat.le_of_lt hU)
  rw [Rat.add_mul] at h3
  have h4 : ((1 : Int) : Rat) = 1 := rfl
  rw [h4, Rat.one_mul] at h3
  grind

/-- The unit in the last place in the binade `[2^e, 2^(e+1))` of the normal range. -/
theorem ulp_of_binade (f : Fmt) {a : Rat} {e : Int} (he : f.emin ≤ e) (h1 : (2 : Rat) ^ e ≤ a)
    (h2 : a < (2 : Rat) ^ (e + 1)) : ulp f a = (2 : Rat) ^ (e - ((f.prec : Int) - 1)) := by
  unfold ulp qexp
  rw [ilog2_eq h1 h2]
  congr 1; omega

/-- **The overflow edge.** The rounded magnitude reaches `2^(emax+1)` exactly from the midpoint between the
largest number of the format and `2^(emax+1)` on: `2^(emax+1) - 2^(emax-prec)`, half a unit of the top binade
below the power of two (the tie itself goes up: the largest significand `2^prec - 1` is odd). -/
theorem roundMag_overflow_iff (f : Fmt) (hp : 1 ≤ f.prec) (he : f.emin < f.emax) {a : Rat} (ha : 0 ≤ a) :
    (2 : Rat) ^ (f.emax + 1) ≤ roundMag f a ↔
      (2 : Rat) ^ (f.emax + 1) - (2 : Rat) ^ (f.emax - (f.prec : Int)) ≤ a := by
  obtain ⟨hm, hs0, hsle, hlo, hhi, hev⟩ := roundMag_spec f ha
  have hUpos := ulp_pos f a
  -- H = half a unit of the top binade, 2H = that unit, Top = 2^prec units
  have hH : (2 : Rat) ^ (f.emax - ((f.prec : Int) - 1)) = (2 : Rat) ^ (f.emax - (f.prec : Int)) * 2 := by
    rw [← zpow_succ]; congr 1; omega
  have hHpos := zpow_pos (f.emax - (f.prec : Int))
  have hTop : (2 : Rat) ^ (f.emax + 1) = (2 : Rat) ^ (f.prec : Int) * (2 : Rat) ^ (f.emax - ((f.prec : Int) - 1)) := by
    rw [← Rat.zpow_add two_ne]; congr 1; omega
  have hTopE : (2 : Rat) ^ (f.emax + 1) = (2 : Rat) ^ f.emax * 2 := zpow_succ _
  have hEH : (2 : Rat) ^ (f.emax - (f.prec : Int)) ≤ (2 : Rat) ^ f.emax := zpow_le (by omega)
  constructor
  · -- not below the edge: contrapositive, `a` below the edge rounds below the power of two
    intro hov
    apply Decidable.byContradiction
    intro hn
    have hlt : a < (2 : Rat) ^ (f.emax + 1) - (2 : Rat) ^ (f.emax - (f.prec : Int)) := Rat.not_le.mp hn
    by_cases hb : (2 : Rat) ^ f.emax ≤ a
    · have hu := ulp_of_binade f (Int.le_of_lt he) hb (by grind)
      rw [hu, hH] at hhi
      grind
    · have hb' : a < (2 : Rat) ^ f.emax := Rat.not_le.mp hb
      by_cases h0 : a = 0
      · rw [h0, roundMag_zero] at hov
        have := zpow_pos (f.emax + 1)
        grind
      · have hpos : 0 < a := by grind
        have hil : ilog2 a < f.emax := by
          have := (ilog2_bracket hpos).1
          exact lt_of_zpow_lt (by grind)
        have hUle : ulp f a ≤ (2 : Rat) ^ (f.emax - (f.prec : Int)) := by
          unfold ulp qexp; exact zpow_le (by omega)
        have h1 : (sigOf f a : Rat) ≤ (2 : Rat) ^ (f.prec : Int) := by
          rw [← intCast_two_pow]; exact Rat.intCast_le_intCast.mpr hsle
        have h2 := Rat.mul_le_mul_of_nonneg_right h1 (Rat.le_of_lt hUpos)
        have h3 := Rat.mul_le_mul_of_nonneg_left hUle (Rat.le_of_lt (zpow_pos (f.prec : Int)))
        have h4 : (2 : Rat) ^ (f.prec : Int) * (2 : Rat) ^ (f.emax - (f.prec : Int)) = (2 : Rat) ^ f.emax := by
          rw [← Rat.zpow_add two_ne]; congr 1; omega
        rw [hm] at hov
        grind
  · intro hge
    by_cases hb : a < (2 : Rat) ^ (f.emax + 1)
    · -- in the top binade, at or above the midpoint
      have hbl : (2 : Rat) ^ f.emax ≤ a := by grind
      have hu := ulp_of_binade f (Int.le_of_lt he) hbl hb
      -- the significand is at least 2^prec - 1 ...
      have hk : ((2 : Int) ^ f.prec - 1 : Int) ≤ sigOf f a := by
        apply int_le_of_mul_le hUpos
        rw [Rat.intCast_sub, intCast_two_pow, sub_mul, ← hm, hu]
        have h1 : ((1 : Int) : Rat) = 1 := rfl
        rw [h1, Rat.one_mul, ← hTop]
        rw [hu, hH] at hlo
        grind
      by_cases hk2 : (2 : Int) ^ f.prec ≤ sigOf f a
      · have h1 : (2 : Rat) ^ (f.prec : Int) ≤ (sigOf f a : Rat) := by
          rw [← intCast_two_pow]; exact Rat.intCast_le_intCast.mpr hk2
        have h2 := Rat.mul_le_mul_of_nonneg_right h1 (Rat.le_of_lt hUpos)
        rw [hm, hTop, ← hu]; exact h2
      · -- ... and 2^prec - 1 is odd, so the tie cannot have gone down
        have heq : sigOf f a = (2 : Int) ^ f.prec - 1 := by omega
        have hodd : sigOf f a % 2 = 1 := by
          rw [heq]
          obtain ⟨n, hn⟩ : ∃ n, f.prec = n + 1 := ⟨f.prec - 1, by omega⟩
          rw [hn, Int.pow_succ]; omega
        have hval : roundMag f a = (2 : Rat) ^ (f.emax + 1) - (2 : Rat) ^ (f.emax - ((f.prec : Int) - 1)) := by
          rw [hm, heq, Rat.intCast_sub, intCast_two_pow, sub_mul, hu, ← hTop]
          have h1 : ((1 : Int) : Rat) = 1 := rfl
          rw [h1, Rat.one_mul]
        have htie : a - roundMag f a = ulp f a / 2 := by
          rw [hu, hH] at hlo ⊢
          rw [hval, hH]
          rw [hval, hH] at hlo
          grind
        have := hev (Or.inr htie)
        omega
    · -- beyond the top binade: the result is at least the power of two below `a`
      have hb' : (2 : Rat) ^ (f.emax + 1) ≤ a := Rat.not_lt.mp hb
      have hpos : 0 < a := by have := zpow_pos (f.emax + 1); grind
      have hil : f.emax + 1 ≤ ilog2 a := by
        have := (ilog2_bracket hpos).2
        have := lt_of_zpow_lt (x := f.emax + 1) (y := ilog2 a + 1) (by grind)
        omega
      obtain ⟨hn1, -⟩ := ulp_normal f hpos (by omega)
      have hk : ((2 : Int) ^ (f.prec - 1) : Int) ≤ sigOf f a := by
        apply Decidable.byContradiction
        intro hc
        have h1 : sigOf f a + 1 ≤ (2 : Int) ^ (f.prec - 1) := by omega
        have h2 : ((sigOf f a + 1 : Int) : Rat) ≤ (((2 : Int) ^ (f.prec - 1) : Int) : Rat) := Rat.intCast_le_intCast.mpr h1
        rw [Rat.intCast_add, intCast_two_pow] at h2
        have h3 := Rat.mul_le_mul_of_nonneg_right h2 (Rat.le_of_lt hUpos)
        rw [Rat.add_mul, ← hm] at h3
        have h4 : ((1 : Int) : Rat) = 1 := rfl
        rw [h4, Rat.one_mul] at h3
        have h5 : (((f.prec - 1 : Nat) : Int)) = (f.prec : Int) - 1 := by omega
        rw [h5] at h3
        grind
      have h1 : (2 : Rat) ^ ((f.prec : Int) - 1) ≤ (sigOf f a : Rat) := by
        have h5 : (((f.prec - 1 : Nat) : Int)) = (f.prec : Int) - 1 := by omega
        rw [← h5, ← intCast_two_pow]; exact Rat.intCast_le_intCast.mpr hk
      have h2 := Rat.mul_le_mul_of_nonneg_right h1 (Rat.le_of_lt hUpos)
      rw [← hm] at h2
      have h3 : (2 : Rat) ^ ((f.prec : Int) - 1) * ulp f a = (2 : Rat) ^ ilog2 a := by
        unfold ulp qexp
        rw [← Rat.zpow_add two_ne]; congr 1; omega
      have h4 := zpow_le (x := f.emax + 1) (y := ilog2 a) hil
      grind

/-! ### The literal -/

/-- The literal of the suffix's type with the value `v`. -/
def mkLit (t : FracTok) (v : FVal) : FLit := if t.pound then .double v else .single v

theorem mkLit_isDouble (t : FracTok) (v : FVal) : (mkLit t v).isDouble = t.pound := by
  unfold mkLit; cases t.pound <;> rfl

theorem mkLit_fmt (t : FracTok) (v : FVal) : (mkLit t v).fmt = fmtOf t := by
  unfold mkLit fmtOf; cases t.pound <;> rfl

theorem mkLit_val (t : FracTok) (v : FVal) : (mkLit t v).val = v := by
  unfold mkLit; cases t.pound <;> rfl

/-- The parser in one line: the parsed float of the suffix's format, kept if finite, `Overflow` otherwise. -/
theorem fracLit_eq (t : FracTok) :
    fracLit t = if (value (fmtOf t) (exact t)).isFinite then .ok (mkLit t (value (fmtOf t) (exact t)))
      else .overflow := by
  unfold fracLit fmtOf mkLit; cases t.pound <;> rfl

theorem negFracLit_eq (t : FracTok) :
    negFracLit t = if (value (fmtOf t) (exact t)).isFinite then .ok (mkLit t (value (fmtOf t) (exact t)).neg)
      else .overflow := by
  unfold negFracLit
  rw [fracLit_eq]
  by_cases hf : (value (fmtOf t) (exact t)).isFinite = true
  · rw [if_pos hf, if_pos hf]; unfold mkLit; cases t.pound <;> rfl
  · rw [if_neg hf, if_neg hf]

theorem fracLit_ok {t : FracTok} {l : FLit} (h : fracLit t = .ok l) :
    (value (fmtOf t) (exact t)).isFinite = true ∧ l = mkLit t (value (fmtOf t) (exact t)) := by
  rw [fracLit_eq] at h
  split at h
  · exact ⟨‹_›, (FRes.ok.inj h).symm⟩
  · cases h

theorem negFracLit_ok {t : FracTok} {l : FLit} (h : negFracLit t = .ok l) :
    (value (fmtOf t) (exact t)).isFinite = true ∧ l = mkLit t (value (fmtOf t) (exact t)).neg := by
  rw [negFracLit_eq] at h
  split at h
  · exact ⟨‹_›, (FRes.ok.inj h).symm⟩
  · cases h

/-- (a) Typing rule, total over all digit strings: an accepted literal is a DOUBLE exactly when `#` follows. -/
theorem fracLit_type (t : FracTok) (l : FLit) (h : fracLit t = .ok l) : l.isDouble = t.pound := by
  rw [(fracLit_ok h).2, mkLit_isDouble]

/-- (a) The digits play no part in the type: neither their number nor their value (a literal with a
fraction is never INTEGER or LONG, `2.0` included, and `0.1234567890123456789` is a SINGLE). -/
theorem fracLit_type_digits_irrelevant (t t' : FracTok) (l l' : FLit) (hp : t.pound = t'.pound)
    (h : fracLit t = .ok l) (h' : fracLit t' = .ok l') : l.isDouble = l'.isDouble := by
  rw [fracLit_type t l h, fracLit_type t' l' h', hp]

theorem fracLit_fmt (t : FracTok) (l : FLit) (h : fracLit t = .ok l) : l.fmt = fmtOf t := by
  rw [(fracLit_ok h).2, mkLit_fmt]

/-- (a) A minus sign in front keeps the type. -/
theorem negFracLit_type (t : FracTok) (l : FLit) (h : negFracLit t = .ok l) : l.isDouble = t.pound := by
  rw [(negFracLit_ok h).2, mkLit_isDouble]

theorem negFracLit_fmt (t : FracTok) (l : FLit) (h : negFracLit t = .ok l) : l.fmt = fmtOf t := by
  rw [(negFracLit_ok h).2, mkLit_fmt]

theorem fmtOf_prec (t : FracTok) : 1 ≤ (fmtOf t).prec := by
  unfold fmtOf; cases t.pound <;> decide

theorem exact_nonneg (t : FracTok) : 0 ≤ exact t := by
  unfold exact
  rw [Rat.div_def]
  apply Rat.mul_nonneg (Rat.natCast_nonneg)
  apply Rat.le_of_lt
  apply Rat.inv_pos.mpr
  exact Rat.natCast_pos.mpr (Nat.pow_pos (by omega))

theorem fracLit_val (t : FracTok) (l : FLit) (h : fracLit t = .ok l) : l.val = value (fmtOf t) (exact t) := by
  rw [(fracLit_ok h).2, mkLit_val]

/-- (c) The sign and the error commute: the negated literal is accepted exactly when the literal is, and then
it is the literal of the same type with the float negated. -/
theorem negFracLit_val (t : FracTok) :
    (∀ l, fracLit t = .ok l → ∃ l', negFracLit t = .ok l' ∧ l'.val = l.val.neg ∧ l'.fmt = l.fmt) ∧
    (negFracLit t = .overflow ↔ fracLit t = .overflow) := by
  rw [fracLit_eq, negFracLit_eq]
  split
  · refine ⟨fun l h => ⟨_, rfl, ?_, ?_⟩, ?_⟩
    · rw [← FRes.ok.inj h, mkLit_val, mkLit_val]
    · rw [← FRes.ok.inj h, mkLit_fmt, mkLit_fmt]
    · constructor <;> (intro h; cases h)
  · exact ⟨fun l h => (by cases h), Iff.rfl⟩

theorem roundNE_of_nonneg {q : Rat} (f : Fmt) (h : 0 ≤ q) : roundNearestEven q f = roundMag f q := by
  unfold roundNearestEven; rw [if_neg (Rat.not_lt.mpr h)]

theorem roundMag_nonneg (f : Fmt) {a : Rat} (h : 0 ≤ a) : 0 ≤ roundMag f a := by
  obtain ⟨he, h0, -⟩ := roundMag_spec f h
  rw [he]
  exact Rat.mul_nonneg (Rat.intCast_nonneg.mpr h0) (Rat.le_of_lt (ulp_pos f a))

/-- What `parse` answers is finite exactly below `2^(emax+1)`. -/
theorem value_isFinite (f : Fmt) (a : Rat) :
    (value f a).isFinite = true ↔ roundMag f a < (2 : Rat) ^ (f.emax + 1) := by
  unfold value
  by_cases h : (2 : Rat) ^ (f.emax + 1) ≤ roundMag f a
  · rw [if_pos h]
    exact ⟨fun h' => absurd h' (by decide), fun h' => absurd h (Rat.not_le.mpr h')⟩
  · rw [if_neg h]; exact ⟨fun _ => Rat.not_le.mp h, fun _ => rfl⟩

theorem value_of_lt (f : Fmt) (a : Rat) (h : roundMag f a < (2 : Rat) ^ (f.emax + 1)) :
    value f a = .fin false (roundMag f a) := by
  unfold value; rw [if_neg (Rat.not_le.mpr h)]

/-- (b) **Rejection rule.** The literal is rejected with `Overflow` exactly when the exact decimal, rounded to
nearest-even in the format of its type, reaches `2^(emax+1)` (`2^128` for a SINGLE, `2^1024` for a DOUBLE). -/
theorem fracLit_overflow_iff (t : FracTok) :
    fracLit t = .overflow ↔ (2 : Rat) ^ ((fmtOf t).emax + 1) ≤ roundNearestEven (exact t) (fmtOf t) := by
  rw [fracLit_eq, roundNE_of_nonneg _ (exact_nonneg t)]
  by_cases hf : (value (fmtOf t) (exact t)).isFinite = true
  · rw [if_pos hf]
    have := (value_isFinite _ _).mp hf
    constructor
    · intro h; cases h
    · intro h; exact absurd this (Rat.not_lt.mpr h)
  · rw [if_neg hf]
    have : ¬ roundMag (fmtOf t) (exact t) < (2 : Rat) ^ ((fmtOf t).emax + 1) := fun h => hf ((value_isFinite _ _).mpr h)
    exact ⟨fun _ => Rat.not_lt.mp this, fun _ => rfl⟩

theorem fmtOf_emin_lt_emax (t : FracTok) : (fmtOf t).emin < (fmtOf t).emax := by
  unfold fmtOf; cases t.pound <;> decide

/-- (b) **Rejection rule, on the written decimal itself.** The literal is rejected exactly when the exact decimal
is at least `2^(emax+1) - 2^(emax-prec)`: `2^128 - 2^103 = 340282356779733661637539395458142568448` for a SINGLE,
`2^1024 - 2^970` for a DOUBLE (the midpoint between the largest number of the type and the next power of two). -/
theorem fracLit_overflow_edge (t : FracTok) :
    fracLit t = .overflow ↔
      (2 : Rat) ^ ((fmtOf t).emax + 1) - (2 : Rat) ^ ((fmtOf t).emax - ((fmtOf t).prec : Int)) ≤ exact t := by
  rw [fracLit_overflow_iff, roundNE_of_nonneg _ (exact_nonneg t)]
  exact roundMag_overflow_iff _ (fmtOf_prec t) (fmtOf_emin_lt_emax t) (exact_nonneg t)

/-- The constant of `RbModel.Expr.processDec` is that edge for DOUBLE: `parse::<f64>` of a whole number `n` is an
infinity (and the digit run is rejected with Overflow) exactly from `dblOverflow = 2^1024 - 2^970` on. -/
theorem dblOverflow_is_rounding_edge (n : Nat) :
    (value double (n : Rat)).isFinite = false ↔ dblOverflow ≤ n := by
  have hedge : (2 : Rat) ^ (double.emax + 1) - (2 : Rat) ^ (double.emax - (double.prec : Int)) = (dblOverflow : Rat) := by
    decide +kernel
  have h := roundMag_overflow_iff double (by decide) (by decide) (a := (n : Rat)) Rat.natCast_nonneg
  rw [hedge, Rat.natCast_le_natCast] at h
  rw [← h]
  have hv := value_isFinite double (n : Rat)
  constructor
  · intro hf
    apply Decidable.byContradiction
    intro hn
    have := hv.mpr (Rat.not_le.mp hn)
    rw [hf] at this; cases this
  · intro hle
    cases hfin : (value double (n : Rat)).isFinite
    · rfl
    · exact absurd (hv.mp hfin) (Rat.not_lt.mpr hle)

/-- (b) Value theorem.  Either the literal is accepted and then its value is the exact decimal
`digits / 10^k` rounded to nearest-even in the format of its type: a number of the format, below
`2^(emax+1)`, at most half a unit in the last place away from the decimal; or it is rejected with `Overflow`,
exactly when the rounded decimal reaches `2^(emax+1)`. -/
theorem fracLit_value (t : FracTok) :
    let f := fmtOf t
    let r := roundNearestEven (exact t) f
    (r < (2 : Rat) ^ (f.emax + 1) ∧ (∃ l, fracLit t = .ok l ∧ l.fmt = f ∧ l.val = .fin false r) ∧
      Representable f r ∧ exact t - ulp f (exact t) / 2 ≤ r ∧ r ≤ exact t + ulp f (exact t) / 2) ∨
    ((2 : Rat) ^ (f.emax + 1) ≤ r ∧ fracLit t = .overflow) := by
  intro f r
  have hp : 1 ≤ f.prec := fmtOf_prec t
  have hn := exact_nonneg t
  have hr : r = roundMag f (exact t) := roundNE_of_nonneg f hn
  by_cases hov : (2 : Rat) ^ (f.emax + 1) ≤ r
  · right
    exact ⟨hov, (fracLit_overflow_iff t).mpr hov⟩
  · left
    have hlt : roundMag f (exact t) < (2 : Rat) ^ (f.emax + 1) := hr ▸ Rat.not_le.mp hov
    have hh := round_half_ulp (exact t) f
    rw [Rat.abs_of_nonneg hn] at hh
    refine ⟨Rat.not_le.mp hov, ⟨mkLit t (value f (exact t)), ?_, mkLit_fmt _ _, ?_⟩,
      round_representable _ f hp, hh.1, hh.2⟩
    · rw [fracLit_eq, if_pos ((value_isFinite _ _).mpr hlt)]
    · rw [mkLit_val, value_of_lt f _ hlt, hr]

/-- (b) **An accepted literal is finite and representable**: its value is a non-negative number of the format
of its type below `2^(emax+1)` — never an infinity — namely the exact decimal rounded to nearest-even. -/
theorem fracLit_accepted_finite (t : FracTok) (l : FLit) (h : fracLit t = .ok l) :
    ∃ r : Rat, l.val = .fin false r ∧ r = roundNearestEven (exact t) l.fmt ∧ Representable l.fmt r ∧
      0 ≤ r ∧ r < (2 : Rat) ^ (l.fmt.emax + 1) := by
  obtain ⟨hf, hl⟩ := fracLit_ok h
  have hlt := (value_isFinite _ _).mp hf
  have hn := exact_nonneg t
  have hfm : l.fmt = fmtOf t := fracLit_fmt t l h
  refine ⟨roundMag (fmtOf t) (exact t), ?_, ?_, ?_, roundMag_nonneg _ hn, ?_⟩
  · rw [hl, mkLit_val, value_of_lt _ _ hlt]
  · rw [hfm, roundNE_of_nonneg _ hn]
  · rw [hfm]; exact roundMag_representable _ (fmtOf_prec t) hn
  · rw [hfm]; exact hlt

/-- (b, c) The same directly after a minus sign: the sign bit set, the same finite magnitude. -/
theorem negFracLit_accepted_finite (t : FracTok) (l : FLit) (h : negFracLit t = .ok l) :
    ∃ r : Rat, l.val = .fin true r ∧ r = roundNearestEven (exact t) l.fmt ∧ Representable l.fmt r ∧
      0 ≤ r ∧ r < (2 : Rat) ^ (l.fmt.emax + 1) := by
  obtain ⟨hf, hl⟩ := negFracLit_ok h
  have hlt := (value_isFinite _ _).mp hf
  have hn := exact_nonneg t
  have hfm : l.fmt = fmtOf t := negFracLit_fmt t l h
  refine ⟨roundMag (fmtOf t) (exact t), ?_, ?_, ?_, roundMag_nonneg _ hn, ?_⟩
  · rw [hl, mkLit_val, value_of_lt _ _ hlt]; rfl
  · rw [hfm, roundNE_of_nonneg _ hn]
  · rw [hfm]; exact roundMag_representable _ (fmtOf_prec t) hn
  · rw [hfm]; exact hlt

/-- No literal with a fraction, with or without a minus sign in front, is an infinity. -/
theorem literal_never_infinite (t : FracTok) (l : FLit) (h : fracLit t = .ok l ∨ negFracLit t = .ok l) :
    l.val.isFinite = true := by
  rcases h with h | h
  · obtain ⟨r, hv, -⟩ := fracLit_accepted_finite t l h; rw [hv]; rfl
  · obtain ⟨r, hv, -⟩ := negFracLit_accepted_finite t l h; rw [hv]; rfl

/-- (b) Exactness: a decimal that is a number of the format (a dyadic rational that fits) is kept exactly. -/
theorem fracLit_exact (t : FracTok) (h : Representable (fmtOf t) (exact t))
    (hmax : exact t < (2 : Rat) ^ ((fmtOf t).emax + 1)) :
    ∃ l, fracLit t = .ok l ∧ l.fmt = fmtOf t ∧ l.val = .fin false (exact t) := by
  have hn := exact_nonneg t
  have h1 : roundMag (fmtOf t) (exact t) = exact t := roundMag_exact _ hn h
  have hlt : roundMag (fmtOf t) (exact t) < (2 : Rat) ^ ((fmtOf t).emax + 1) := by rw [h1]; exact hmax
  refine ⟨mkLit t (value (fmtOf t) (exact t)), ?_, mkLit_fmt _ _, ?_⟩
  · rw [fracLit_eq, if_pos ((value_isFinite _ _).mpr hlt)]
  · rw [mkLit_val, value_of_lt _ _ hlt, h1]

/-- (c) Folding `-literal`: the literal directly after a minus sign denotes the negation of what the
literal denotes, and that is the negative decimal rounded to nearest-even (sign symmetry). -/
theorem negFracLit_value (t : FracTok) (l : FLit) (h : fracLit t = .ok l) :
    ∃ l' v, negFracLit t = .ok l' ∧ l'.fmt = l.fmt ∧ l.val.toRat? = some v ∧ l'.val.toRat? = some (-v) ∧
      -v = roundNearestEven (-(exact t)) l'.fmt := by
  obtain ⟨r, hv, hr, -⟩ := fracLit_accepted_finite t l h
  obtain ⟨l', hl', hval, hfmt⟩ := (negFracLit_val t).1 l h
  refine ⟨l', r, hl', hfmt, ?_, ?_, ?_⟩
  · rw [hv]; rfl
  · rw [hval, hv]; rfl
  · rw [hfmt, round_neg, ← hr]

/-- (c) A rejected literal stays rejected under the sign. -/
theorem negFracLit_overflow (t : FracTok) : negFracLit t = .overflow ↔ fracLit t = .overflow :=
  (negFracLit_val t).2


/-! ### Nearest: no number of the format is closer -/

theorem abs_le_iff {x y : Rat} : x.abs ≤ y ↔ x ≤ y ∧ -x ≤ y := by
  unfold Rat.abs; split <;> constructor <;> intro h <;> grind

theorem le_abs_self (x : Rat) : x ≤ x.abs := by unfold Rat.abs; split <;> grind
theorem neg_le_abs (x : Rat) : -x ≤ x.abs := by unfold Rat.abs; split <;> grind

theorem abs_mul_pos (x : Rat) {u : Rat} (hu : 0 < u) : (x * u).abs = x.abs * u := by
  by_cases hx : 0 ≤ x
  · rw [Rat.abs_of_nonneg hx, Rat.abs_of_nonneg (Rat.mul_nonneg hx (Rat.le_of_lt hu))]
  · have hx' : x ≤ 0 := by grind
    have h1 : x * u ≤ 0 := by
      have := Rat.mul_le_mul_of_nonneg_right hx' (Rat.le_of_lt hu)
      rw [Rat.zero_mul] at this; exact this
    rw [Rat.abs_of_nonpos hx', Rat.abs_of_nonpos h1, Rat.neg_mul]

/-- `rne s` is a nearest integer. -/
theorem rne_nearest (s : Rat) (k : Int) : ((rne s : Rat) - s).abs ≤ ((k : Rat) - s).abs := by
  have hf := Rat.floor_le s
  have hc := Rat.lt_floor_add_one s
  rw [Rat.intCast_add] at hc
  have h1 : ((1 : Int) : Rat) = 1 := rfl
  rw [h1] at hc
  have hk : (k : Rat) ≤ (s.floor : Rat) ∨ ((s.floor : Rat) + 1 ≤ (k : Rat)) := by
    by_cases h : k ≤ s.floor
    · left; exact Rat.intCast_le_intCast.mpr h
    · right
      have : s.floor + 1 ≤ k := by omega
      have := Rat.intCast_le_intCast.mpr this
      rw [Rat.intCast_add, h1] at this; exact this
  have ha := le_abs_self ((k : Rat) - s)
  have hb := neg_le_abs ((k : Rat) - s)
  apply abs_le_iff.mpr
  rcases rne_cases s with ⟨h, h2, -⟩ | ⟨h, h2, -⟩
  · rw [h]; rcases hk with hk | hk <;> constructor <;> grind
  · rw [h, Rat.intCast_add, h1]; rcases hk with hk | hk <;> constructor <;> grind

/-- The rounded magnitude is a nearest integer multiple of the unit in the last place. -/
theorem roundMag_nearest_multiple (f : Fmt) (a : Rat) (k : Int) :
    (roundMag f a - a).abs ≤ ((k : Rat) * ulp f a - a).abs := by
  have hu := ulp_pos f a
  have hau : a / ulp f a * ulp f a = a := Rat.div_mul_cancel (Rat.ne_of_gt hu)
  have h := rne_nearest (a / ulp f a) k
  have e1 : roundMag f a - a = ((rne (a / ulp f a) : Rat) - a / ulp f a) * ulp f a := by
    unfold roundMag sigOf
    rw [Rat.sub_eq_add_neg, Rat.sub_eq_add_neg, Rat.add_mul, Rat.neg_mul, hau]
  have e2 : (k : Rat) * ulp f a - a = ((k : Rat) - a / ulp f a) * ulp f a := by
    rw [Rat.sub_eq_add_neg, Rat.sub_eq_add_neg, Rat.add_mul, Rat.neg_mul, hau]
  rw [e1, e2, abs_mul_pos _ hu, abs_mul_pos _ hu]
  exact Rat.mul_le_mul_of_nonneg_right h (Rat.le_of_lt hu)

theorem roundMag_nearest (f : Fmt) (hp : 1 ≤ f.prec) {a : Rat} (ha : 0 ≤ a) {y : Rat} (hy : Representable f y) :
    (roundMag f a - a).abs ≤ (y - a).abs := by
  by_cases ha0 : a = 0
  · rw [ha0, roundMag_zero, Rat.sub_self]
    exact Rat.abs_nonneg
  have hapos : 0 < a := by grind
  obtain ⟨m, e, hye, hm, he⟩ := hy
  by_cases hq : qexp f a ≤ e
  · -- `y` is an integer multiple of the unit
    obtain ⟨n, hn⟩ : ∃ n : Nat, e = qexp f a + n := ⟨(e - qexp f a).toNat, by omega⟩
    have : y = ((m * (2 : Int) ^ n : Int) : Rat) * ulp f a := by
      rw [Rat.intCast_mul, intCast_two_pow, hye, hn, Rat.zpow_add two_ne]
      unfold ulp
      rw [Rat.mul_comm ((2 : Rat) ^ qexp f a), Rat.mul_assoc]
    rw [this]
    exact roundMag_nearest_multiple f a _
  · -- `y` lies below the binade of `a`, whose lower end is a multiple of the unit between `y` and `a`
    have hE : max (ilog2 a) f.emin = ilog2 a := by unfold qexp at hq; omega
    have hlow := (ilog2_bracket hapos).1
    have hk := roundMag_nearest_multiple f a ((2 : Int) ^ (f.prec - 1))
    have hpow : (((2 : Int) ^ (f.prec - 1) : Int) : Rat) * ulp f a = (2 : Rat) ^ ilog2 a := by
      rw [intCast_two_pow]; unfold ulp qexp
      rw [← Rat.zpow_add two_ne, hE]; congr 1; omega
    rw [hpow] at hk
    -- y < 2^(ilog2 a)
    have hm' : (m : Rat) < (2 : Rat) ^ (f.prec : Int) := by
      rw [← intCast_two_pow]
      apply Rat.intCast_lt_intCast.mpr
      have := natCast_two_pow_int f.prec
      omega
    have hy1 : y < (2 : Rat) ^ ((f.prec : Int) + e) := by
      have := Rat.mul_lt_mul_of_pos_right hm' (zpow_pos e)
      rw [← Rat.zpow_add two_ne] at this
      rw [hye]; exact this
    have hy2 : (2 : Rat) ^ ((f.prec : Int) + e) ≤ (2 : Rat) ^ ilog2 a := zpow_le (by unfold qexp at hq; omega)
    have h3 : ((2 : Rat) ^ ilog2 a - a).abs ≤ (y - a).abs := by
      apply abs_le_iff.mpr
      have := neg_le_abs (y - a)
      constructor <;> grind
    exact Rat.le_trans hk h3

theorem abs_neg_sub (x y : Rat) : (-x - -y).abs = (x - y).abs := by
  have : -x - -y = -(x - y) := by grind
  rw [this, Rat.abs_neg]

/-- (b) The value theorem in its strongest form: no number of the format is closer to `q` than
`roundNearestEven q f` (with `round_tie_even`: and of two equally close ones the even one is taken). -/
theorem round_nearest (q : Rat) (f : Fmt) (hp : 1 ≤ f.prec) {y : Rat} (hy : Representable f y) :
    (roundNearestEven q f - q).abs ≤ (y - q).abs := by
  unfold roundNearestEven
  by_cases h1 : q < 0
  · rw [if_pos h1]
    have := roundMag_nearest f hp (a := -q) (by grind) (representable_neg hy)
    rw [abs_neg_sub] at this
    have e : -roundMag f (-q) - q = -(roundMag f (-q) - -q) := by grind
    rw [e, Rat.abs_neg]; exact this
  · rw [if_neg h1]; exact roundMag_nearest f hp (Rat.not_lt.mp h1) hy


/-! ### Non-vacuity -/

/-- `0.1` is a SINGLE: `13421773 / 2^27` (bits `0x3DCCCCCD`); with `#` a DOUBLE: `3602879701896397 / 2^55`. -/
example : fracLit ⟨[0], [1], false⟩ = .ok (.single (.fin false ((13421773 : Rat) / 134217728))) := by decide +kernel
example : fracLit ⟨[0], [1], true⟩ = .ok (.double (.fin false ((3602879701896397 : Rat) / 36028797018963968))) := by
  decide +kernel
/-- `.25` (no integer digits) is exact; the hypothesis of `fracLit_exact` is satisfiable. -/
example : fracLit ⟨[], [2, 5], false⟩ = .ok (.single (.fin false ((1 : Rat) / 4))) := by decide +kernel
example : Representable (fmtOf ⟨[], [2, 5], false⟩) (exact ⟨[], [2, 5], false⟩) :=
  ⟨1, -2, by decide +kernel, by decide +kernel, by decide +kernel⟩
/-- Ties to even, both ways: `16777217.0` (between 16777216 and 16777218) goes down, `16777219.0` goes up;
`0.5000000298023223876953125` (= 1/2 + 2^-25) goes down to `0.5`. -/
example : fracLit ⟨[1, 6, 7, 7, 7, 2, 1, 7], [0], false⟩ = .ok (.single (.fin false 16777216)) := by decide +kernel
example : fracLit ⟨[1, 6, 7, 7, 7, 2, 1, 9], [0], false⟩ = .ok (.single (.fin false 16777220)) := by decide +kernel
example : fracLit ⟨[0], [5, 0, 0, 0, 0, 0, 0, 2, 9, 8, 0, 2, 3, 2, 2, 3, 8, 7, 6, 9, 5, 3, 1, 2, 5], false⟩
    = .ok (.single (.fin false ((1 : Rat) / 2))) := by decide +kernel
/-- one digit more decides the tie -/
example : fracLit ⟨[0], [5, 0, 0, 0, 0, 0, 0, 2, 9, 8, 0, 2, 3, 2, 2, 3, 8, 7, 6, 9, 5, 3, 1, 2, 5, 1], false⟩
    = .ok (.single (.fin false ((8388609 : Rat) / 16777216))) := by decide +kernel
/-- The digit count does not make a DOUBLE: 17 digits without `#` are a SINGLE (QBasic would type this
literal DOUBLE). -/
example : fracLit ⟨[2, 4, 0, 6, 1, 1, 1, 9, 3], [8, 7, 5], false⟩ = .ok (.single (.fin false 240611200)) := by
  decide +kernel
/-- After a minus sign: the same magnitude, the sign flipped, the type kept; `-.0` is the negative zero. -/
example : negFracLit ⟨[1], [5], false⟩ = .ok (.single (.fin true ((3 : Rat) / 2))) := by decide +kernel
example : negFracLit ⟨[], [0], false⟩ = .ok (.single (.fin true 0)) := by decide +kernel
example : fracLit ⟨[1], [5], true⟩ = .ok (.double (.fin false ((3 : Rat) / 2))) := by decide +kernel
/-- The overflow arm of `fracLit_value` is inhabited: `2^128` written out with `.0` is rejected as a SINGLE
(`PRINT 340282366920938463463374607431768211456.0` is the parse error Overflow) and accepted with `#`. -/
example : fracLit ⟨[3,4,0,2,8,2,3,6,6,9,2,0,9,3,8,4,6,3,4,6,3,3,7,4,6,0,7,4,3,1,7,6,8,2,1,1,4,5,6], [0], false⟩
    = .overflow := by decide +kernel
example : fracLit ⟨[3,4,0,2,8,2,3,6,6,9,2,0,9,3,8,4,6,3,4,6,3,3,7,4,6,0,7,4,3,1,7,6,8,2,1,1,4,5,6], [0], true⟩
    = .ok (.double (.fin false 340282366920938463463374607431768211456)) := by decide +kernel
/-- The edge of SINGLE, both sides and both signs: `340282356779733661637539395458142568447.9` (just below
`2^128 - 2^103`) is the largest SINGLE `2^128 - 2^104`, `340282356779733661637539395458142568448.0` (the
midpoint itself: the tie goes to the even significand, up) is the first rejected literal. -/
example : fracLit ⟨[3,4,0,2,8,2,3,5,6,7,7,9,7,3,3,6,6,1,6,3,7,5,3,9,3,9,5,4,5,8,1,4,2,5,6,8,4,4,7], [9], false⟩
    = .ok (.single (.fin false 340282346638528859811704183484516925440)) := by decide +kernel
example : negFracLit ⟨[3,4,0,2,8,2,3,5,6,7,7,9,7,3,3,6,6,1,6,3,7,5,3,9,3,9,5,4,5,8,1,4,2,5,6,8,4,4,7], [9], false⟩
    = .ok (.single (.fin true 340282346638528859811704183484516925440)) := by decide +kernel
example : fracLit ⟨[3,4,0,2,8,2,3,5,6,7,7,9,7,3,3,6,6,1,6,3,7,5,3,9,3,9,5,4,5,8,1,4,2,5,6,8,4,4,8], [0], false⟩ = .overflow := by decide +kernel
example : negFracLit ⟨[3,4,0,2,8,2,3,5,6,7,7,9,7,3,3,6,6,1,6,3,7,5,3,9,3,9,5,4,5,8,1,4,2,5,6,8,4,4,8], [0], false⟩ = .overflow := by decide +kernel
/-- The edge of DOUBLE (`2^1024 - 2^970`, 309 digits): one tenth below it the largest DOUBLE `2^1024 - 2^971`,
at it the first rejected literal. -/
def dblEdgeDigits : List Nat := [1,7,9,7,6,9,3,1,3,4,8,6,2,3,1,5,8,0,7,9,3,7,2,8,9,7,1,4,0,5,3,0,3,4,1,5,0,7,9,9,3,4,1,3,2,7,1,0,0,3,7,8,2,6,9,3,6,1,7,3,7,7,8,9,8,0,4,4,4,9,6,8,2,9,2,7,6,4,7,5,0,9,4,6,6,4,9,0,1,7,9,7,7,5,8,7,2,0,7,0,9,6,3,3,0,2,8,6,4,1,6,6,9,2,8,8,7,9,1,0,9,4,6,5,5,5,5,4,7,8,5,1,9,4,0,4,0,2,6,3,0,6,5,7,4,8,8,6,7,1,5,0,5,8,2,0,6,8,1,9,0,8,9,0,2,0,0,0,7,0,8,3,8,3,6,7,6,2,7,3,8,5,4,8,4,5,8,1,7,7,1,1,5,3,1,7,6,4,4,7,5,7,3,0,2,7,0,0,6,9,8,5,5,5,7,1,3,6,6,9,5,9,6,2,2,8,4,2,9,1,4,8,1,9,8,6,0,8,3,4,9,3,6,4,7,5,2,9,2,7,1,9,0,7,4,1,6,8,4,4,4,3,6,5,5,1,0,7,0,4,3,4,2,7,1,1,5,5,9,6,9,9,5,0,8,0,9,3,0,4,2,8,8,0,1,7,7,9,0,4,1,7,4,4,9,7,7,9,2]
def dblBelowEdgeDigits : List Nat := [1,7,9,7,6,9,3,1,3,4,8,6,2,3,1,5,8,0,7,9,3,7,2,8,9,7,1,4,0,5,3,0,3,4,1,5,0,7,9,9,3,4,1,3,2,7,1,0,0,3,7,8,2,6,9,3,6,1,7,3,7,7,8,9,8,0,4,4,4,9,6,8,2,9,2,7,6,4,7,5,0,9,4,6,6,4,9,0,1,7,9,7,7,5,8,7,2,0,7,0,9,6,3,3,0,2,8,6,4,1,6,6,9,2,8,8,7,9,1,0,9,4,6,5,5,5,5,4,7,8,5,1,9,4,0,4,0,2,6,3,0,6,5,7,4,8,8,6,7,1,5,0,5,8,2,0,6,8,1,9,0,8,9,0,2,0,0,0,7,0,8,3,8,3,6,7,6,2,7,3,8,5,4,8,4,5,8,1,7,7,1,1,5,3,1,7,6,4,4,7,5,7,3,0,2,7,0,0,6,9,8,5,5,5,7,1,3,6,6,9,5,9,6,2,2,8,4,2,9,1,4,8,1,9,8,6,0,8,3,4,9,3,6,4,7,5,2,9,2,7,1,9,0,7,4,1,6,8,4,4,4,3,6,5,5,1,0,7,0,4,3,4,2,7,1,1,5,5,9,6,9,9,5,0,8,0,9,3,0,4,2,8,8,0,1,7,7,9,0,4,1,7,4,4,9,7,7,9,1]
example : fracLit ⟨dblBelowEdgeDigits, [9], true⟩ = .ok (.double (.fin false ((2 : Rat) ^ 1024 - (2 : Rat) ^ 971))) := by
  decide +kernel
example : negFracLit ⟨dblBelowEdgeDigits, [9], true⟩ = .ok (.double (.fin true ((2 : Rat) ^ 1024 - (2 : Rat) ^ 971))) := by
  decide +kernel
example : fracLit ⟨dblEdgeDigits, [0], true⟩ = .overflow := by decide +kernel
example : negFracLit ⟨dblEdgeDigits, [0], true⟩ = .overflow := by decide +kernel
example : digitsVal 10 dblEdgeDigits = dblOverflow := by decide +kernel
/-- Subnormal range: `1e-45` is the smallest positive SINGLE `2^-149`. -/
example : roundNearestEven ((1 : Rat) / 10 ^ 45) single = (2 : Rat) ^ (-149 : Int) := by decide +kernel


/-- `round_nearest` / `round_exact` have satisfiable hypotheses: `3/2` and `16777218` are SINGLEs, `16777217` is not
the value of any SINGLE literal (it rounds away), and the competitor `16777218` is exactly as close as the chosen
`16777216` (a genuine tie, resolved to the even significand). -/
example : Representable single ((3 : Rat) / 2) := ⟨3, -1, by decide +kernel, by decide +kernel, by decide +kernel⟩
example : Representable single 16777218 := ⟨8388609, 1, by decide +kernel, by decide +kernel, by decide +kernel⟩
example : (roundNearestEven 16777217 single - 16777217).abs = ((16777218 : Rat) - 16777217).abs := by decide +kernel
example : roundNearestEven 16777217 single = (8388608 : Rat) * ulp single 16777217 := by decide +kernel

end RbThm.C10Float
