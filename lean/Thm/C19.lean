import RbModel.Bits
/-!
C19 — bit-level primitives agree with two's complement (integer part) and MKD$/CVD are the
little-endian byte split of the 64-bit pattern of a double and its exact inverse (double part).

Spec side: `word a = a mod 2^16` as a natural, `signed u` its signed reading,
`&&&` / `|||` on `Nat` the bitwise operations on words, `natBits n x` the `n` low bits of `x`
(most significant first).
-/
namespace RbThm.C19
open RbModel.Bits

/-- `n` low bits of `x`, most significant first (the reference bit vector of a word). -/
def natBits : Nat → Nat → List Bool
  | 0, _ => []
  | n + 1, x => natBits n (x / 2) ++ [x % 2 == 1]

/-- value of a msb-first bit list -/
def natVal (bs : List Bool) : Nat := bs.foldl (fun acc b => 2 * acc + (if b then 1 else 0)) 0

theorem natBits_length (n x : Nat) : (natBits n x).length = n := by
  induction n generalizing x with
  | zero => rfl
  | succ n ih => simp [natBits, ih]

theorem natBits_zero (n : Nat) : natBits n 0 = List.replicate n false := by
  induction n with
  | zero => rfl
  | succ n ih => simp [natBits, ih, List.replicate_succ']

theorem fillLoop_false (n x : Nat) : fillLoop false n x = natBits n x := by
  induction n generalizing x with
  | zero => rfl
  | succ n ih =>
    unfold fillLoop
    split
    · next h => subst h; exact (natBits_zero (n + 1)).symm
    · simp [natBits, ih]

theorem fillLoop_true (n x : Nat) : fillLoop true n x = (natBits n x).map (!·) := by
  induction n generalizing x with
  | zero => rfl
  | succ n ih =>
    unfold fillLoop
    split
    · next h => subst h; simp [natBits_zero]
    · simp [natBits, ih]

/-- complementing every bit of an `n`-bit word is `2^n - 1 - x` -/
theorem natBits_compl (n x : Nat) (h : x < 2 ^ n) :
    natBits n (2 ^ n - 1 - x) = (natBits n x).map (!·) := by
  induction n generalizing x with
  | zero => rfl
  | succ n ih =>
    have hp : 2 ^ (n + 1) = 2 * 2 ^ n := by rw [Nat.pow_succ]; omega
    have h1 : (2 ^ (n + 1) - 1 - x) / 2 = 2 ^ n - 1 - x / 2 := by omega
    have h2 : x / 2 < 2 ^ n := by omega
    have h3 : (2 ^ (n + 1) - 1 - x) % 2 = 1 - x % 2 := by omega
    simp only [natBits, List.map_append, List.map_cons, List.map_nil]
    rw [h1, ih _ h2, h3]
    congr 2
    rcases Nat.mod_two_eq_zero_or_one x with h | h <;> simp [h]

theorem natBits_mod (n x : Nat) : natBits n (x % 2 ^ n) = natBits n x := by
  induction n generalizing x with
  | zero => rfl
  | succ n ih =>
    have hp : 2 ^ (n + 1) = 2 * 2 ^ n := by rw [Nat.pow_succ]; omega
    simp only [natBits]
    have h1 : x % 2 ^ (n + 1) / 2 = (x / 2) % 2 ^ n := by
      rw [hp, Nat.mod_mul]; omega
    have h2 : x % 2 ^ (n + 1) % 2 = x % 2 := by
      rw [hp, Nat.mod_mul]; omega
    rw [h1, h2, ih]

/-- head/tail decomposition: the most significant of `n+1` bits is bit `n`. -/
theorem natBits_cons (n x : Nat) :
    natBits (n + 1) x = (x / 2 ^ n % 2 == 1) :: natBits n x := by
  induction n generalizing x with
  | zero => simp [natBits]
  | succ n ih =>
    rw [natBits, ih (x / 2), natBits]
    have : x / 2 / 2 ^ n = x / 2 ^ (n + 1) := by
      rw [Nat.div_div_eq_div_mul, Nat.pow_succ, Nat.mul_comm]
    simp [this]

theorem natVal_append (l : List Bool) (b : Bool) :
    natVal (l ++ [b]) = 2 * natVal l + (if b then 1 else 0) := by
  simp [natVal, List.foldl_append]

theorem natVal_natBits (n x : Nat) : natVal (natBits n x) = x % 2 ^ n := by
  induction n generalizing x with
  | zero => simp [natBits, natVal]; omega
  | succ n ih =>
    have hp : 2 ^ (n + 1) = 2 * 2 ^ n := by rw [Nat.pow_succ]; omega
    rw [natBits, natVal_append, ih, hp, Nat.mod_mul]
    rcases Nat.mod_two_eq_zero_or_one x with h | h <;> simp [h] <;> omega

theorem accLoop_eq (sign : Bool) (bs : List Bool) (x : Nat) :
    accLoop sign bs (x : Int) =
      ((bs.map (· != sign)).foldl (fun acc b => 2 * acc + (if b then 1 else 0)) x : Nat) := by
  induction bs generalizing x with
  | nil => simp [accLoop]
  | cons b bs ih =>
    simp only [accLoop, List.map_cons, List.foldl_cons]
    have : (2 * (x : Int) + if (b != sign) = true then 1 else 0)
        = ((2 * x + (if (b != sign) = true then 1 else 0) : Nat) : Int) := by
      split <;> simp
    rw [this, ih]

theorem accLoop_false (bs : List Bool) : accLoop false bs 0 = (natVal bs : Int) := by
  have := accLoop_eq false bs 0
  simpa [natVal] using this

theorem accLoop_true (bs : List Bool) : accLoop true bs 0 = (natVal (bs.map (!·)) : Int) := by
  have := accLoop_eq true bs 0
  simp only [Int.natCast_zero] at this
  rw [this, natVal]
  congr 2
  apply List.map_congr_left
  intro b _; cases b <;> rfl

/-- reading an `n+1`-bit reference vector as a signed number -/
theorem toInt_natBits16 (u : Nat) (h : u < 65536) : toInt (natBits 16 u) = signed u := by
  rw [natBits_cons 15 u]
  simp only [toInt]
  by_cases hs : u < 32768
  · have h0 : (u / 2 ^ 15 % 2 == 1) = false := by
      have : u / 2 ^ 15 = 0 := by omega
      simp [this]
    simp only [h0, Bool.false_eq_true, if_false, accLoop_false, natVal_natBits, signed, hs, if_true]
    have : u % 2 ^ 15 = u := by omega
    rw [this]
  · have h1 : (u / 2 ^ 15 % 2 == 1) = true := by
      have : u / 2 ^ 15 = 1 := by omega
      simp [this]
    have hlt : u % 2 ^ 15 < 2 ^ 15 := Nat.mod_lt _ (by decide)
    simp only [h1, if_true, accLoop_true, signed, hs, if_false]
    rw [← natBits_mod 15 u, ← natBits_compl 15 _ hlt, natVal_natBits]
    have e : (2 ^ 15 - 1 - u % 2 ^ 15) % 2 ^ 15 = 32767 - u % 32768 := by omega
    rw [e]
    omega

theorem word_lt (a : Int) : word a < 65536 := by unfold word; omega

/-- `From<i32> for BitVec` produces the 16-bit two's-complement word of `a`. -/
theorem ofInt_is_twos_complement (a : Int) (h : InRange a) : ofInt a = natBits 16 (word a) := by
  obtain ⟨h1, h2⟩ := h
  unfold ofInt word
  split
  · rw [fillLoop_false]; congr 1; omega
  · split
    · rw [fillLoop_true, ← natBits_compl 16 _ (by omega)]; congr 1; omega
    · have : a = 0 := by omega
      subst this; exact (natBits_zero 16).symm

theorem ofInt_length (a : Int) (h : InRange a) : (ofInt a).length = 16 := by
  rw [ofInt_is_twos_complement a h, natBits_length]

theorem signed_word (a : Int) (h : InRange a) : signed (word a) = a := by
  obtain ⟨h1, h2⟩ := h
  unfold signed word; split <;> omega

/-- converting an INTEGER to bits and back is the identity -/
theorem toInt_ofInt (a : Int) (h : InRange a) : toInt (ofInt a) = a := by
  rw [ofInt_is_twos_complement a h, toInt_natBits16 _ (word_lt a), signed_word a h]

theorem zipWith_append_single {α β γ} (f : α → β → γ) (l₁ : List α) (l₂ : List β) (a : α) (b : β)
    (h : l₁.length = l₂.length) :
    List.zipWith f (l₁ ++ [a]) (l₂ ++ [b]) = List.zipWith f l₁ l₂ ++ [f a b] := by
  rw [List.zipWith_append h]; rfl

theorem band_natBits (n x y : Nat) : band (natBits n x) (natBits n y) = natBits n (x &&& y) := by
  induction n generalizing x y with
  | zero => rfl
  | succ n ih =>
    simp only [natBits, band] at *
    rw [zipWith_append_single _ _ _ _ _ (by simp [natBits_length]), ih, Nat.and_div_two]
    congr 2
    have := @Nat.and_mod_two_eq_one x y
    rcases Nat.mod_two_eq_zero_or_one x with hx | hx <;>
      rcases Nat.mod_two_eq_zero_or_one y with hy | hy <;>
      rcases Nat.mod_two_eq_zero_or_one (x &&& y) with hz | hz <;> simp_all

theorem bor_natBits (n x y : Nat) : bor (natBits n x) (natBits n y) = natBits n (x ||| y) := by
  induction n generalizing x y with
  | zero => rfl
  | succ n ih =>
    simp only [natBits, bor] at *
    rw [zipWith_append_single _ _ _ _ _ (by simp [natBits_length]), ih, Nat.or_div_two]
    congr 2
    have := @Nat.or_mod_two_eq_one x y
    rcases Nat.mod_two_eq_zero_or_one x with hx | hx <;>
      rcases Nat.mod_two_eq_zero_or_one y with hy | hy <;>
      rcases Nat.mod_two_eq_zero_or_one (x ||| y) with hz | hz <;> simp_all

/-- AND on INTEGER values is the bitwise AND of the 16-bit two's-complement words. -/
theorem qbAnd_is_bitwise (a b : Int) (ha : InRange a) (hb : InRange b) :
    qbAnd a b = signed (word a &&& word b) := by
  unfold qbAnd
  have hlt : word a &&& word b < 65536 :=
    Nat.and_lt_two_pow (n := 16) _ (word_lt b)
  rw [ofInt_is_twos_complement a ha, ofInt_is_twos_complement b hb, band_natBits,
    toInt_natBits16 _ hlt]

/-- OR on INTEGER values is the bitwise OR of the 16-bit two's-complement words. -/
theorem qbOr_is_bitwise (a b : Int) (ha : InRange a) (hb : InRange b) :
    qbOr a b = signed (word a ||| word b) := by
  unfold qbOr
  have hlt : word a ||| word b < 65536 :=
    Nat.or_lt_two_pow (n := 16) (word_lt a) (word_lt b)
  rw [ofInt_is_twos_complement a ha, ofInt_is_twos_complement b hb, bor_natBits,
    toInt_natBits16 _ hlt]

/-- the results stay INTEGER values -/
theorem signed_inRange (u : Nat) (h : u < 65536) : InRange (signed u) := by
  unfold InRange signed; split <;> omega

/-- NOT on an INTEGER is the complement of its 16-bit word. -/
theorem not_is_complement (a : Int) (h : InRange a) :
    unaryNot a = signed (65535 - word a) ∧ InRange (unaryNot a) := by
  obtain ⟨h1, h2⟩ := h
  unfold unaryNot signed word InRange
  refine ⟨?_, by omega, by omega⟩
  split <;> omega

/-! ### bytes -/

theorem natBits_split (n m x : Nat) :
    natBits (n + m) x = natBits n (x / 2 ^ m) ++ natBits m x := by
  induction m generalizing x with
  | zero => simp [natBits]
  | succ m ih =>
    have : n + (m + 1) = (n + m) + 1 := by omega
    rw [this, natBits, ih (x / 2), natBits, List.append_assoc]
    have : x / 2 / 2 ^ m = x / 2 ^ (m + 1) := by
      rw [Nat.div_div_eq_div_mul, Nat.pow_succ, Nat.mul_comm]
    rw [this]

theorem byteLoop_natBits (n x acc : Nat) :
    byteLoop (natBits n x) (2 ^ n / 2) acc = acc + x % 2 ^ n := by
  induction n generalizing acc with
  | zero => simp [natBits, byteLoop]; omega
  | succ n ih =>
    rw [natBits_cons]
    have hm : 2 ^ (n + 1) / 2 = 2 ^ n := by rw [Nat.pow_succ]; omega
    simp only [byteLoop, hm]
    rw [ih, Nat.pow_succ, Nat.mod_mul]
    have hb := Nat.mod_two_eq_zero_or_one (x / 2 ^ n)
    rcases hb with hb | hb <;> simp [hb] <;> omega

theorem msbBitsToByte_natBits8 (x : Nat) : msbBitsToByte (natBits 8 x) = x % 256 := by
  have := byteLoop_natBits 8 x 0
  simpa [msbBitsToByte] using this

theorem byteBits_eq (b : Nat) : byteBits b = natBits 8 b := by
  simp [byteBits, natBits, Nat.div_div_eq_div_mul]

/-- The two bytes of an INTEGER are its 16-bit two's-complement word, low byte first. -/
theorem bytes_low_first (a : Int) (h : InRange a) :
    i32ToBytes a = [word a % 256, word a / 256] := by
  have hw := word_lt a
  unfold i32ToBytes
  rw [ofInt_is_twos_complement a h]
  have hs := natBits_split 8 8 (word a)
  simp only [show (8 : Nat) + 8 = 16 from rfl] at hs
  have hl : (natBits 8 (word a / 2 ^ 8)).length = 8 := natBits_length _ _
  simp only [hs]
  rw [List.take_left' hl, List.drop_left' hl, List.take_of_length_le (by simp [natBits_length]),
    msbBitsToByte_natBits8, msbBitsToByte_natBits8]
  have : word a / 2 ^ 8 % 256 = word a / 256 := by omega
  rw [this]

/-- bytes (low first) read back as the signed 16-bit word they encode -/
theorem bytesToI32_spec (lo hi : Nat) (hlo : lo < 256) (hhi : hi < 256) :
    bytesToI32 [lo, hi] = signed (lo + 256 * hi) := by
  unfold bytesToI32 lsbBytesToMsbBits
  simp only [List.reverse_cons, List.reverse_nil, List.nil_append, List.cons_append, List.map_cons,
    List.map_nil, List.flatten_cons, List.flatten_nil, List.append_nil, byteBits_eq]
  have hs := natBits_split 8 8 (lo + 256 * hi)
  have e1 : (lo + 256 * hi) / 2 ^ 8 = hi := by omega
  have e2 : natBits 8 (lo + 256 * hi) = natBits 8 lo := by
    rw [← natBits_mod 8 (lo + 256 * hi)]; congr 1; omega
  rw [e1, e2] at hs
  rw [← hs]
  exact toInt_natBits16 _ (by omega)

/-- Converting any INTEGER to bytes and back is the identity. -/
theorem bytes_roundtrip (a : Int) (h : InRange a) : bytesToI32 (i32ToBytes a) = a := by
  have hw := word_lt a
  rw [bytes_low_first a h, bytesToI32_spec _ _ (by omega) (by omega)]
  have : word a % 256 + 256 * (word a / 256) = word a := by omega
  rw [this, signed_word a h]

/-- PEEK reads the word's bytes, low byte first. -/
theorem peek_word (a : Int) (h : InRange a) :
    peekByte a 0 = some (word a % 256) ∧ peekByte a 1 = some (word a / 256) := by
  simp [peekByte, bytes_low_first a h]

/-- POKE-ing the two bytes of `b` into a variable holding `a` leaves it holding `b`,
whatever order the bytes are written in. -/
theorem poke_word (a b : Int) (ha : InRange a) (hb : InRange b) :
    pokeByte (pokeByte a 0 (word b % 256)) 1 (word b / 256) = b ∧
    pokeByte (pokeByte a 1 (word b / 256)) 0 (word b % 256) = b := by
  have hwa := word_lt a
  have hwb := word_lt b
  have key : signed (word b % 256 + 256 * (word b / 256)) = b := by
    have : word b % 256 + 256 * (word b / 256) = word b := by omega
    rw [this, signed_word b hb]
  constructor
  · have h1 : pokeByte a 0 (word b % 256) = signed (word b % 256 + 256 * (word a / 256)) := by
      simp only [pokeByte, bytes_low_first a ha, List.set_cons_zero]
      exact bytesToI32_spec _ _ (by omega) (by omega)
    have hr : InRange (signed (word b % 256 + 256 * (word a / 256))) :=
      signed_inRange _ (by omega)
    have hw : word (signed (word b % 256 + 256 * (word a / 256))) = word b % 256 + 256 * (word a / 256) := by
      unfold word signed; split <;> omega
    rw [h1]
    simp only [pokeByte, bytes_low_first _ hr, hw, List.set_cons_succ, List.set_cons_zero]
    rw [bytesToI32_spec _ _ (by omega) (by omega)]
    have : (word b % 256 + 256 * (word a / 256)) % 256 = word b % 256 := by omega
    rw [this, key]
  · have h1 : pokeByte a 1 (word b / 256) = signed (word a % 256 + 256 * (word b / 256)) := by
      simp only [pokeByte, bytes_low_first a ha, List.set_cons_succ, List.set_cons_zero]
      exact bytesToI32_spec _ _ (by omega) (by omega)
    have hr : InRange (signed (word a % 256 + 256 * (word b / 256))) :=
      signed_inRange _ (by omega)
    have hw : word (signed (word a % 256 + 256 * (word b / 256))) = word a % 256 + 256 * (word b / 256) := by
      unfold word signed; split <;> omega
    rw [h1]
    simp only [pokeByte, bytes_low_first _ hr, hw, List.set_cons_zero]
    rw [bytesToI32_spec _ _ (by omega) (by omega)]
    have : (word a % 256 + 256 * (word b / 256)) / 256 = word b / 256 := by omega
    rw [this, key]

/-! ### doubles: MKD$ / CVD on 64-bit patterns

`w` is the IEEE-754 binary64 bit pattern of the double (`f64::to_bits`, trusted); `f64ToBytes` is what
`f64_to_bytes` (MKD$) does to it and `bytesToF64` what `bytes_to_f64` (CVD) does. -/

theorem splitLE_length (n w : Nat) : (splitLE n w).length = n := by
  induction n generalizing w with
  | zero => rfl
  | succ n ih => simp [splitLE, ih]

theorem splitLE_lt (n w : Nat) : ∀ b ∈ splitLE n w, b < 256 := by
  induction n generalizing w with
  | zero => simp [splitLE]
  | succ n ih =>
    intro b hb
    simp only [splitLE, List.mem_cons] at hb
    rcases hb with hb | hb
    · subst hb; exact Nat.mod_lt _ (by decide)
    · exact ih _ b hb

/-- byte `i` of the split is bits `8i .. 8i+7` of `w`: least significant byte first -/
theorem splitLE_get (n w i : Nat) (h : i < n) : (splitLE n w)[i]? = some (w / 256 ^ i % 256) := by
  induction n generalizing w i with
  | zero => omega
  | succ n ih =>
    cases i with
    | zero => simp [splitLE]
    | succ i =>
      simp only [splitLE, List.getElem?_cons_succ]
      rw [ih (w / 256) i (by omega), Nat.div_div_eq_div_mul, Nat.pow_succ, Nat.mul_comm]

theorem joinLE_splitLE (n w : Nat) : joinLE (splitLE n w) = w % 256 ^ n := by
  induction n generalizing w with
  | zero => simp [splitLE, joinLE, Nat.mod_one]
  | succ n ih =>
    simp only [splitLE, joinLE, ih]
    rw [Nat.pow_succ, Nat.mul_comm (256 ^ n) 256, Nat.mod_mul]

theorem splitLE_joinLE (bs : List Nat) (hb : ∀ b ∈ bs, b < 256) :
    splitLE bs.length (joinLE bs) = bs := by
  induction bs with
  | nil => rfl
  | cons b bs ih =>
    have hb0 : b < 256 := hb b (List.mem_cons_self ..)
    have ih' := ih (fun x hx => hb x (List.mem_cons_of_mem _ hx))
    simp only [List.length_cons, splitLE, joinLE]
    have h1 : (b + 256 * joinLE bs) % 256 = b := by omega
    have h2 : (b + 256 * joinLE bs) / 256 = joinLE bs := by omega
    rw [h1, h2, ih']

theorem joinLE_lt (bs : List Nat) (hb : ∀ b ∈ bs, b < 256) : joinLE bs < 256 ^ bs.length := by
  induction bs with
  | nil => simp [joinLE]
  | cons b bs ih =>
    have hb0 : b < 256 := hb b (List.mem_cons_self ..)
    have ih' := ih (fun x hx => hb x (List.mem_cons_of_mem _ hx))
    simp only [List.length_cons, joinLE, Nat.pow_succ]
    omega

/-- MKD$ yields eight bytes. -/
theorem bytes_length (w : Nat) : (f64ToBytes w).length = 8 ∧ ∀ b ∈ f64ToBytes w, b < 256 :=
  ⟨splitLE_length 8 w, splitLE_lt 8 w⟩

/-- MKD$ yields the bytes of the 64-bit pattern, least significant first:
byte `i` is `(w / 256^i) mod 256`. -/
theorem byte_i_is_bits (w i : Nat) (h : i < 8) : (f64ToBytes w)[i]? = some (w / 256 ^ i % 256) :=
  splitLE_get 8 w i h

/-- the same, written out -/
theorem bytes_explicit (w : Nat) :
    f64ToBytes w = [w % 256, w / 256 % 256, w / 256 ^ 2 % 256, w / 256 ^ 3 % 256, w / 256 ^ 4 % 256,
      w / 256 ^ 5 % 256, w / 256 ^ 6 % 256, w / 256 ^ 7 % 256] := by
  simp [f64ToBytes, splitLE, Nat.div_div_eq_div_mul]

/-- CVD is the exact inverse of MKD$: `CVD(MKD$(x)) = x` for every double, at the level of bit
patterns (every `w < 2^64`: normal, subnormal, ±0, ±infinity and every NaN pattern alike). -/
theorem join_split (w : Nat) (h : w < 2 ^ 64) : bytesToF64 (f64ToBytes w) = w := by
  unfold bytesToF64 f64ToBytes
  rw [joinLE_splitLE]
  exact Nat.mod_eq_of_lt (by omega)

/-- The inverse direction: `MKD$(CVD(s)) = s` for every string of 8 bytes, and the decoded pattern
is a 64-bit pattern. -/
theorem split_join (bs : List Nat) (hlen : bs.length = 8) (hb : ∀ b ∈ bs, b < 256) :
    f64ToBytes (bytesToF64 bs) = bs ∧ bytesToF64 bs < 2 ^ 64 := by
  unfold bytesToF64 f64ToBytes
  constructor
  · have := splitLE_joinLE bs hb
    rwa [hlen] at this
  · have := joinLE_lt bs hb
    rw [hlen] at this
    omega

/-- MKD$ is injective on 64-bit patterns: different doubles have different strings. -/
theorem f64ToBytes_injective (v w : Nat) (hv : v < 2 ^ 64) (hw : w < 2 ^ 64)
    (h : f64ToBytes v = f64ToBytes w) : v = w := by
  rw [← join_split v hv, ← join_split w hw, h]

/-- The IEEE-754 fields of a pattern determine it ... -/
theorem pack_fields (w : Nat) (h : w < 2 ^ 64) :
    f64Pack (f64Sign w) (f64Exponent w) (f64Fraction w) = w := by
  unfold f64Pack f64Sign f64Exponent f64Fraction
  omega

/-- ... and are recovered from it: sign 1 bit, exponent 11 bits, fraction 52 bits, msb first. -/
theorem fields_pack (s e f : Nat) (hs : s < 2) (he : e < 2048) (hf : f < 2 ^ 52) :
    f64Pack s e f < 2 ^ 64 ∧ f64Sign (f64Pack s e f) = s ∧ f64Exponent (f64Pack s e f) = e ∧
      f64Fraction (f64Pack s e f) = f := by
  unfold f64Pack f64Sign f64Exponent f64Fraction
  refine ⟨by omega, by omega, by omega, by omega⟩

/-! ### `CVD` hands over finite numbers only (since 181b08f) -/

/-- **CVD succeeds iff the 8 bytes encode a finite number** (exponent field not all ones), and then it
answers the pattern the bytes spell. -/
theorem cvd_some_iff (bs : List Nat) (w : Nat) :
    cvd bs = some w ↔ f64Exponent (bytesToF64 bs) ≠ 2047 ∧ w = bytesToF64 bs := by
  unfold cvd f64IsFinite
  by_cases h : f64Exponent (bytesToF64 bs) = 2047
  · rw [h]
    constructor
    · intro h'; cases h'
    · intro h'; exact absurd rfl h'.1
  · have hb : (f64Exponent (bytesToF64 bs) != 2047) = true := by
      rw [bne_iff_ne]; exact h
    rw [if_pos hb]
    constructor
    · intro h'; cases h'; exact ⟨h, rfl⟩
    · intro h'; rw [h'.2]

/-- **Overflow otherwise**: `CVD` raises Overflow exactly on the infinities and the NaNs. -/
theorem cvd_overflow_iff (bs : List Nat) : cvd bs = none ↔ f64Exponent (bytesToF64 bs) = 2047 := by
  unfold cvd f64IsFinite
  by_cases h : f64Exponent (bytesToF64 bs) = 2047
  · rw [h]; exact ⟨fun _ => rfl, fun _ => rfl⟩
  · have hb : (f64Exponent (bytesToF64 bs) != 2047) = true := by
      rw [bne_iff_ne]; exact h
    rw [if_pos hb]
    exact ⟨fun h' => (by cases h'), fun h' => absurd h' h⟩

/-- The exponent field all ones is: an infinity (fraction 0) or a NaN (any other fraction) — the
patterns `s * 2^63 + 2047 * 2^52 + f`. -/
theorem nonfinite_patterns (w : Nat) (h : w < 2 ^ 64) :
    f64Exponent w = 2047 ↔ ∃ s f, s < 2 ∧ f < 2 ^ 52 ∧ w = f64Pack s 2047 f := by
  constructor
  · intro he
    refine ⟨f64Sign w, f64Fraction w, ?_, ?_, ?_⟩
    · unfold f64Sign; omega
    · unfold f64Fraction; omega
    · have := pack_fields w h; rw [he] at this; exact this.symm
  · rintro ⟨s, f, hs, hf, rfl⟩
    exact (fields_pack s 2047 f hs (by omega) hf).2.2.1

/-- **`MKD$(CVD(s)) = s`** for every string of 8 bytes that encodes a finite number (when `CVD`
answers at all, re-encoding gives the string back). -/
theorem mkd_cvd (bs : List Nat) (hlen : bs.length = 8) (hb : ∀ b ∈ bs, b < 256) (w : Nat)
    (h : cvd bs = some w) : f64ToBytes w = bs ∧ w < 2 ^ 64 ∧ f64Exponent w ≠ 2047 := by
  obtain ⟨hfin, rfl⟩ := (cvd_some_iff bs w).1 h
  exact ⟨(split_join bs hlen hb).1, (split_join bs hlen hb).2, hfin⟩

/-- **`CVD(MKD$(x)) = x` for every finite double** (every pattern whose exponent field is not all
ones: normal, subnormal, ±0) … -/
theorem cvd_mkd (w : Nat) (h : w < 2 ^ 64) (hfin : f64Exponent w ≠ 2047) : cvd (f64ToBytes w) = some w := by
  rw [cvd_some_iff, join_split w h]; exact ⟨hfin, rfl⟩

/-- … and Overflow for the 8 bytes `MKD$` makes of an infinity or a NaN. -/
theorem cvd_mkd_nonfinite (w : Nat) (h : w < 2 ^ 64) (hinf : f64Exponent w = 2047) :
    cvd (f64ToBytes w) = none := by
  rw [cvd_overflow_iff, join_split w h]; exact hinf

/-- Whether `CVD` answers is decided by the last two bytes of the string (the exponent field sits in
the low 7 bits of byte 7 and the high 4 bits of byte 6). -/
theorem cvd_decided_by_last_bytes (w : Nat) (h : w < 2 ^ 64) :
    cvd (f64ToBytes w) = none ↔ (w / 256 ^ 7 % 256) % 128 = 127 ∧ (w / 256 ^ 6 % 256) / 16 = 15 := by
  rw [cvd_overflow_iff, join_split w h]
  unfold f64Exponent
  omega

/-- 2.0 and the largest finite double are answered; +infinity, −infinity and two NaNs are Overflow. -/
example : cvd [0, 0, 0, 0, 0, 0, 0, 64] = some 0x4000000000000000 ∧
    cvd [255, 255, 255, 255, 255, 255, 239, 127] = some 0x7FEFFFFFFFFFFFFF ∧
    cvd [0, 0, 0, 0, 0, 0, 240, 127] = none ∧ cvd [0, 0, 0, 0, 0, 0, 240, 255] = none ∧
    cvd [255, 255, 255, 255, 255, 255, 255, 255] = none ∧ cvd [1, 0, 0, 0, 0, 0, 240, 127] = none := by
  decide

/-- where the fields sit in the string: the sign is the top bit of the last byte, the exponent its
other seven bits and the top four bits of the byte before, the fraction everything below. -/
theorem fields_in_bytes (w : Nat) (h : w < 2 ^ 64) :
    ∃ b0 b1 b2 b3 b4 b5 b6 b7, f64ToBytes w = [b0, b1, b2, b3, b4, b5, b6, b7] ∧
      f64Sign w = b7 / 128 ∧ f64Exponent w = b7 % 128 * 16 + b6 / 16 ∧
      f64Fraction w = joinLE [b0, b1, b2, b3, b4, b5, b6 % 16] := by
  refine ⟨_, _, _, _, _, _, _, _, bytes_explicit w, ?_, ?_, ?_⟩
  · unfold f64Sign; omega
  · unfold f64Exponent; omega
  · unfold f64Fraction; simp only [joinLE]; omega

/-! ### non-vacuity: concrete values meet the hypotheses and exercise both signs -/
example : InRange (-32768) ∧ InRange 32767 ∧ qbAnd 5 (-2) = 4 ∧ qbOr (-32768) 1 = -32767 ∧
    i32ToBytes (-2) = [254, 255] ∧ bytesToI32 [0, 128] = -32768 := by decide

/-- 1.0, -2.0 (the repository's own test vectors), the smallest subnormal, 2^63, -0.0, +infinity and a
signalling NaN with payload 1 -/
example : f64ToBytes 0x3FF0000000000000 = [0, 0, 0, 0, 0, 0, 0xF0, 0x3F] ∧
    f64ToBytes 0xC000000000000000 = [0, 0, 0, 0, 0, 0, 0, 0xC0] ∧
    f64ToBytes 1 = [1, 0, 0, 0, 0, 0, 0, 0] ∧ bytesToF64 [1, 0, 0, 0, 0, 0, 0, 0] = 1 ∧
    f64ToBytes (f64Pack 0 (1023 + 63) 0) = [0, 0, 0, 0, 0, 0, 0xE0, 0x43] ∧
    f64ToBytes (f64Pack 1 0 0) = [0, 0, 0, 0, 0, 0, 0, 0x80] ∧
    bytesToF64 [0, 0, 0, 0, 0, 0, 0xF0, 0x7F] = f64Pack 0 2047 0 ∧
    bytesToF64 [1, 0, 0, 0, 0, 0, 0xF0, 0xFF] = f64Pack 1 2047 1 ∧
    (0x3FF0000000000000 : Nat) < 2 ^ 64 := by decide

end RbThm.C19
