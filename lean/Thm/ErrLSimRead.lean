import Thm.ErrLSimBase
/-!
Error layer, simulation part: `READ`.  NOT a port of the jump layer's case: a multi-variable `READ` is ONE statement of the
reference syntax and ONE resume unit (`RESUME` runs the whole READ again, `RESUME NEXT` continues after it), although the
generator emits one call of the built-in per variable (all under one statement mark).  The step of `BuiltInRead` is this
layer's own (`ErrL.Vm.step`): `ErrL.Vm.readArgs` advances the DATA cursor *before* the conversion, so the item that cannot be
converted is consumed — as `ErrL.Ref.readVars` prescribes.

* `rd_pre_steps` / `rd_post_steps`: the five instructions in front of / behind the built-in, over the jump layer's VM
  (lifted with `lift_steps`);
* `rd_step_mid`: the step of `BuiltInRead` with one by-reference argument;
* `rd_blocks`: the blocks of the variables against `Ref.readVars` (`RdSpec`): all converted → the run reaches the end with
  the variables assigned; a failure → the run reaches the failing `BuiltInRead`, whose step is the dispatch of the error from
  the state with the item consumed;
* `case_read`: success path directly, the failure through `simple_unit`.
-/
namespace RbThm.ErrLSim
set_option linter.unusedVariables false
set_option linter.unusedSimpArgs false
open RbModel RbModel.Num RbModel.ErrL RbModel.ErrL.Compile RbModel.ErrL.Vm
open RbModel.JmpL.Compile (CInstr Code labelName compileExpr compileExprTo storeVar loadVar compileItems compileConds
  sizeCaseExpr sizeItems sizeConds Dp lookupNat lookupDepth stepSuffix maxPos)
open RbModel.JmpL.Vm (Vm truncTop)
open RbModel.Ast (Pos PrintItem CaseExpr)
open RbModel.Ref (St)
open RbModel.ErrL.Ref
open RbThm.ErrLLen
open RbThm.C01Sim (Typed SlotsBelow ExprWt NumericAt NumericCond ItemsSlots CaseSlots CondsSlots)
open RbModel.JmpL.Vm (advance setA)

/-! ### the code of a READ -/

/-- the five instructions in front of the built-in: the variable is passed by reference -/
def rdPre (p : Pos) (v : Nat × Ty × Pos) : Code :=
  [(CInstr.beginArgs, p), (CInstr.varPath v.1, v.2.2), (CInstr.copyVarPathToA, v.2.2), (CInstr.pushByRef, v.2.2),
   (CInstr.pushStack, p)]

/-- the five instructions behind the built-in: the converted value travels through the return queue into the variable -/
def rdPost (p : Pos) (v : Nat × Ty × Pos) : Code :=
  [(CInstr.enqueue 0, v.2.2), (CInstr.popStack, p), (CInstr.dequeue, v.2.2), (CInstr.varPath v.1, v.2.2),
   (CInstr.copyAToVarPath, v.2.2)]

/-- the code of one single-variable READ -/
def rdBlock (p : Pos) (v : Nat × Ty × Pos) : Code := rdPre p v ++ (CInstr.builtInRead, p) :: rdPost p v

theorem rd_compile (env : LEnv) (sfx : String) (d e off : Nat) (vars : List (Nat × Ty × Pos)) (p : Pos) :
    compileStmt env sfx d e off (.read vars p) =
      lift (if vars.isEmpty then
          [(CInstr.beginArgs, p), (CInstr.pushStack, p), (CInstr.builtInRead, p), (CInstr.popStack, p)]
        else vars.flatMap (rdBlock p)) := by
  simp only [compileStmt]
  rfl

theorem rd_lift_append (a b : Code) : lift (a ++ b) = lift a ++ lift b := by simp [lift]

theorem rd_split {code : ECode} {off : Nat} {p : Pos} {v : Nat × Ty × Pos} (h : CodeAt code off (lift (rdBlock p v))) :
    CodeAt code off (lift (rdPre p v)) ∧ code[off + 5]? = some (.base .builtInRead, p) ∧
      CodeAt code (off + 6) (lift (rdPost p v)) := by
  have h' : CodeAt code off (lift (rdPre p v) ++ (EInstr.base CInstr.builtInRead, p) :: lift (rdPost p v)) := h
  have h2 : CodeAt code (off + 5) ((EInstr.base CInstr.builtInRead, p) :: lift (rdPost p v)) := h'.append_right
  exact ⟨h'.append_left, h2.head, h2.tail⟩

theorem rd_pre_nr (p : Pos) (v : Nat × Ty × Pos) : ∀ ip ∈ rdPre p v, ip.1 ≠ CInstr.builtInRead := by
  intro ip h
  simp only [rdPre, List.mem_cons, List.not_mem_nil, or_false] at h
  rcases h with rfl | rfl | rfl | rfl | rfl <;> simp

theorem rd_post_nr (p : Pos) (v : Nat × Ty × Pos) : ∀ ip ∈ rdPost p v, ip.1 ≠ CInstr.builtInRead := by
  intro ip h
  simp only [rdPost, List.mem_cons, List.not_mem_nil, or_false] at h
  rcases h with rfl | rfl | rfl | rfl | rfl <;> simp

/-! ### the instructions around the built-in, on the jump layer's VM -/

/-- the state in front of `BuiltInRead`: the variable's value `v0` (whose type the item is converted to) is the one argument -/
def rdMid (σ : Vm) (v0 : Val) (x : Nat) (p : Pos) : Vm :=
  { σ with pc := σ.pc + 5, regs := { σ.regs with a := v0 }, args := [(v0, some x)], callPos := p }

theorem rd_pre_steps {code : Code} {off : Nat} {p : Pos} {v : Nat × Ty × Pos} {σ : Vm} {v0 : Val}
    (hc : JmpLSim.CodeAt code off (rdPre p v)) (hpc : σ.pc = off) (hs : σ.env[v.1]? = some v0) :
    JmpLSim.Steps code σ (rdMid σ v0 v.1 p) := by
  subst hpc
  simp only [rdPre] at hc
  have h0 : code[σ.pc]? = some (CInstr.beginArgs, p) := hc.head
  have h1 : code[σ.pc + 1]? = some (CInstr.varPath v.1, v.2.2) := hc.tail.head
  have h2 : code[σ.pc + 1 + 1]? = some (CInstr.copyVarPathToA, v.2.2) := hc.tail.tail.head
  have h3 : code[σ.pc + 1 + 1 + 1]? = some (CInstr.pushByRef, v.2.2) := hc.tail.tail.tail.head
  have h4 : code[σ.pc + 1 + 1 + 1 + 1]? = some (CInstr.pushStack, p) := hc.tail.tail.tail.tail.head
  let σ1 : Vm := advance { σ with args := [] }
  let σ2 : Vm := advance { σ1 with paths := v.1 :: σ1.paths }
  let σ3 : Vm := advance (setA σ2 v0)
  let σ4 : Vm := advance { σ3 with args := [(v0, some v.1)], paths := σ.paths }
  let σ5 : Vm := advance { σ4 with callPos := p }
  have s1 : JmpL.Vm.step code σ = .next σ1 := by simp only [JmpL.Vm.step, h0]; rfl
  have s2 : JmpL.Vm.step code σ1 = .next σ2 := by simp only [JmpL.Vm.step, σ1, advance, h1]; rfl
  have s3 : JmpL.Vm.step code σ2 = .next σ3 := by simp only [JmpL.Vm.step, σ2, σ1, advance, h2, hs]; rfl
  have s4 : JmpL.Vm.step code σ3 = .next σ4 := by simp only [JmpL.Vm.step, σ3, σ2, σ1, advance, setA, h3]; rfl
  have s5 : JmpL.Vm.step code σ4 = .next σ5 := by simp only [JmpL.Vm.step, σ4, σ3, σ2, σ1, advance, setA, h4]; rfl
  exact JmpLSim.Steps.cons s1 (.cons s2 (.cons s3 (.cons s4 (.one s5))))

/-- the state behind a single-variable READ that started (behind the built-in) at `σ` -/
def rdDone (σ : Vm) (w : Val) (x : Nat) : Vm :=
  { σ with pc := σ.pc + 5, regs := { σ.regs with a := w }, args := [], queue := [], env := σ.env.set x w }

theorem rd_post_steps {code : Code} {off : Nat} {p : Pos} {v : Nat × Ty × Pos} {σ : Vm} {w : Val}
    (hc : JmpLSim.CodeAt code off (rdPost p v)) (hpc : σ.pc = off) (ha : σ.args = [(w, some v.1)]) (hq : σ.queue = []) :
    JmpLSim.Steps code σ (rdDone σ w v.1) := by
  subst hpc
  simp only [rdPost] at hc
  have h6 : code[σ.pc]? = some (CInstr.enqueue 0, v.2.2) := hc.head
  have h7 : code[σ.pc + 1]? = some (CInstr.popStack, p) := hc.tail.head
  have h8 : code[σ.pc + 1 + 1]? = some (CInstr.dequeue, v.2.2) := hc.tail.tail.head
  have h9 : code[σ.pc + 1 + 1 + 1]? = some (CInstr.varPath v.1, v.2.2) := hc.tail.tail.tail.head
  have h10 : code[σ.pc + 1 + 1 + 1 + 1]? = some (CInstr.copyAToVarPath, v.2.2) := hc.tail.tail.tail.tail.head
  let σ7 : Vm := advance { σ with queue := [w] }
  let σ8 : Vm := advance { σ7 with args := [] }
  let σ9 : Vm := advance { setA σ8 w with queue := [] }
  let σ10 : Vm := advance { σ9 with paths := v.1 :: σ9.paths }
  let σ11 : Vm := advance { σ10 with env := σ10.env.set v.1 σ10.regs.a, paths := σ.paths }
  have s7 : JmpL.Vm.step code σ = .next σ7 := by
    have ha' : σ.args[0]? = some (w, some v.1) := by rw [ha]; rfl
    simp only [JmpL.Vm.step, h6, ha', hq]; rfl
  have s8 : JmpL.Vm.step code σ7 = .next σ8 := by
    have h7' : code[σ7.pc]? = some (CInstr.popStack, p) := h7
    simp only [JmpL.Vm.step, h7']; rfl
  have s9 : JmpL.Vm.step code σ8 = .next σ9 := by
    have h8' : code[σ8.pc]? = some (CInstr.dequeue, v.2.2) := h8
    have hq8 : σ8.queue = [w] := rfl
    simp only [JmpL.Vm.step, h8', hq8]; rfl
  have s10 : JmpL.Vm.step code σ9 = .next σ10 := by
    have h9' : code[σ9.pc]? = some (CInstr.varPath v.1, v.2.2) := h9
    simp only [JmpL.Vm.step, h9']; rfl
  have s11 : JmpL.Vm.step code σ10 = .next σ11 := by
    have h10' : code[σ10.pc]? = some (CInstr.copyAToVarPath, v.2.2) := h10
    have hp10 : σ10.paths = v.1 :: σ.paths := rfl
    simp only [JmpL.Vm.step, h10', hp10]; rfl
  exact JmpLSim.Steps.cons s7 (.cons s8 (.cons s9 (.cons s10 (.one s11))))

/-! ### the built-in -/

/-- the state behind a `BuiltInRead` that converted the item to `w` -/
def rdRead (σ : Vm) (v0 w : Val) (x : Nat) (p : Pos) : Vm :=
  { rdMid σ v0 x p with pc := σ.pc + 5 + 1, args := [(w, some x)], dataIdx := σ.dataIdx + 1 }

/-- **the step of `BuiltInRead`** with one by-reference argument: no item left → error 4 with the cursor where it was; an item
that cannot be converted → the error, with the item consumed; else the converted value replaces the argument -/
theorem rd_step_mid {P : Prog} {x : EVm} {v0 : Val} {xv : Nat} {p : Pos}
    (h : P.code[x.b.pc + 5]? = some (.base .builtInRead, p)) :
    step P { x with b := rdMid x.b v0 xv p } =
      match x.b.data[x.b.dataIdx]? with
      | none => Vm.raise P { x with b := rdMid x.b v0 xv p } RbModel.Ref.codeOutOfData p
      | some v =>
        match cast v v0.tag with
        | .ok w => .next { x with b := rdRead x.b v0 w xv p }
        | .err e => Vm.raise P { x with b := { rdMid x.b v0 xv p with dataIdx := x.b.dataIdx + 1 } } (RbModel.Ref.codeOf e) p
        | .inexact =>
          Vm.raise P { x with b := { rdMid x.b v0 xv p with dataIdx := x.b.dataIdx + 1 } }
            (RbModel.Ref.codeOf .typeMismatch) p := by
  have h' : P.code[({ x with b := rdMid x.b v0 xv p } : EVm).b.pc]? = some (.base .builtInRead, p) := h
  simp only [step, h']
  simp only [rdMid, Vm.readArgs]
  cases x.b.data[x.b.dataIdx]? with
  | none => rfl
  | some v =>
    simp only
    cases cast v v0.tag with
    | ok w => rfl
    | err e => rfl
    | inexact => rfl

/-! ### the blocks of the variables against `readVars` -/

/-- what the code of the remaining variables (`n` instructions at `off`) does from `x`, given what `Ref.readVars` answers -/
def RdSpec (C : Ctx) (off n : Nat) (x : EVm) : St × Option Fail → Prop
  | (st', none) => ∃ b', Steps C.prog x { x with b := b' } ∧ b'.pc = off + n ∧ Rel C.sl st' b' ∧
      JmpLSim.SameStacks x.b b'
  | (_, some .inexact) => True
  | (st', some (.err c q)) => ∃ b1 b2, Steps C.prog x { x with b := b1 } ∧
      step C.prog { x with b := b1 } = Vm.raise C.prog { x with b := b2 } c q ∧ off ≤ b2.pc ∧ b2.pc < off + n ∧
      Rel C.sl st' b2 ∧ JmpLSim.SameStacks x.b b1 ∧ JmpLSim.SameStacks x.b b2

theorem RdSpec.after {C : Ctx} {off k n : Nat} {x : EVm} {b : Vm} {r : St × Option Fail}
    (st : Steps C.prog x { x with b := b }) (hs : JmpLSim.SameStacks x.b b)
    (h : RdSpec C (off + k) n { x with b := b } r) : RdSpec C off (k + n) x r := by
  obtain ⟨st', o⟩ := r
  cases o with
  | none =>
    obtain ⟨b', st2, hp, hr, hs2⟩ := h
    exact ⟨b', st.trans st2, by rw [hp]; omega, hr, hs.trans hs2⟩
  | some f =>
    cases f with
    | inexact => trivial
    | err c q =>
      obtain ⟨b1, b2, st2, hstep, hlo, hhi, hr, hs1, hs2⟩ := h
      exact ⟨b1, b2, st.trans st2, hstep, by omega, by omega, hr, hs.trans hs1, hs.trans hs2⟩

/-- **the variables of a READ, one call of the built-in each**, against `Ref.readVars` -/
theorem rd_blocks (C : Ctx) (hC : C.Ok) (p : Pos) :
    ∀ (vars : List (Nat × Ty × Pos)) (off : Nat) (x : EVm) (st : St),
      CodeAt C.prog.code off (lift (vars.flatMap (rdBlock p))) → x.b.pc = off → Rel C.sl st x.b →
      (∀ v ∈ vars, C.sl[v.1]? = some v.2.1) →
      RdSpec C off (11 * vars.length) x (readVars p st (vars.map fun v => (v.1, v.2.1)))
  | [], off, x, st, _, hpc, hr, _ => by
    simp only [List.map_nil, readVars, RdSpec]
    exact ⟨x.b, Steps.refl x, by simp [hpc], hr, JmpLSim.SameStacks.refl _⟩
  | (xv, t, q) :: rest, off, x, st, hc, hpc, hr, hw => by
    have hx : C.sl[xv]? = some t := hw (xv, t, q) (List.mem_cons_self ..)
    obtain ⟨v0, hv0, htag⟩ := hr.typed.2 xv t hx
    simp only [List.flatMap_cons, rd_lift_append] at hc
    obtain ⟨hc1, hc2, hc3⟩ := rd_split hc.append_left
    have hcr : CodeAt C.prog.code (off + 11) (lift (rest.flatMap (rdBlock p))) := hc.append_right
    have hs : x.b.env[xv]? = some v0 := by rw [hr.env]; exact hv0
    have pre : Steps C.prog x { x with b := rdMid x.b v0 xv p } :=
      lift_steps hC.pok hc1 (rd_pre_nr p (xv, t, q)) (rd_pre_steps (v := (xv, t, q)) (codeAt_pad off _) hpc hs) x rfl
    have hstep := rd_step_mid (P := C.prog) (x := x) (v0 := v0) (xv := xv) (p := p) (by rw [hpc]; exact hc2)
    have hd' : x.b.data[x.b.dataIdx]? = st.data[st.dataIdx]? := by rw [hr.data, hr.dataIdx]
    have hlen : 11 * ((xv, t, q) :: rest).length = 11 + 11 * rest.length := by simp only [List.length_cons]; omega
    have hmid : (rdMid x.b v0 xv p).pc = off + 5 := by show x.b.pc + 5 = off + 5; rw [hpc]
    rw [hd', htag] at hstep
    simp only [List.map_cons, readVars]
    cases hd : st.data[st.dataIdx]? with
    | none =>
      simp only [hd] at hstep
      simp only [RdSpec]
      exact ⟨_, _, pre, hstep, by rw [hmid]; omega, by rw [hmid, hlen]; omega, hr.same rfl rfl rfl rfl rfl,
        ⟨rfl, rfl, rfl, rfl⟩, ⟨rfl, rfl, rfl, rfl⟩⟩
    | some v =>
      simp only [hd] at hstep
      simp only
      cases hcst : cast v t with
      | inexact => simp only [RdSpec]
      | err er =>
        simp only [hcst] at hstep
        simp only [RdSpec]
        refine ⟨_, _, pre, hstep, by show x.b.pc + 5 ≥ off; omega, by show x.b.pc + 5 < _; rw [hlen]; omega, ?_,
          ⟨rfl, rfl, rfl, rfl⟩, ⟨rfl, rfl, rfl, rfl⟩⟩
        exact ⟨hr.env, hr.typed, hr.out, hr.data, by show x.b.dataIdx + 1 = st.dataIdx + 1; rw [hr.dataIdx],
          hr.queue⟩
      | ok w =>
        simp only [hcst] at hstep
        simp only
        have hwt : w.tag = t := RbThm.C01Sim.SimRead.cast_tag v t w hcst
        -- behind the built-in
        have post : Steps C.prog { x with b := rdRead x.b v0 w xv p } { x with b := rdDone (rdRead x.b v0 w xv p) w xv } :=
          lift_steps hC.pok hc3 (rd_post_nr p (xv, t, q))
            (rd_post_steps (v := (xv, t, q)) (codeAt_pad (off + 6) _) (by show x.b.pc + 5 + 1 = off + 6; omega) rfl
              (by show x.b.queue = []; exact hr.queue))
            { x with b := rdRead x.b v0 w xv p } rfl
        have hrel : Rel C.sl { st.set xv w with dataIdx := st.dataIdx + 1 } (rdDone (rdRead x.b v0 w xv p) w xv) := by
          refine ⟨?_, RbThm.C01Sim.SimRead.typed_set hr.typed hx hwt, hr.out, hr.data, ?_, rfl⟩
          · show x.b.env.set xv w = st.env.set xv w
            rw [hr.env]
          · show x.b.dataIdx + 1 = st.dataIdx + 1
            rw [hr.dataIdx]
        have hrec := rd_blocks C hC p rest (off + 11) { x with b := rdDone (rdRead x.b v0 w xv p) w xv }
          { st.set xv w with dataIdx := st.dataIdx + 1 } hcr (by show x.b.pc + 5 + 1 + 5 = off + 11; omega) hrel
          (fun v hv => hw v (List.mem_cons_of_mem _ hv))
        rw [hlen]
        exact RdSpec.after (pre.trans ((Steps.one hstep).trans post)) ⟨rfl, rfl, rfl, rfl⟩ hrec

/-! ### the statement -/

/-- **READ**: one call of the built-in per variable under one statement mark; the whole statement is one resume unit -/
theorem case_read (C : Ctx) (hC : C.Ok) (fuel : Nat) (ih : StmtIHle C fuel) (vars : List (Nat × Ty × Pos)) (p : Pos)
    (sfx : String) (d e off nx vb gd : Nat) (m : Mode) (σ : EVm) (s : ESt)
    (hc : CodeAt C.prog.code off (compileStmt C.env sfx d e off (.read vars p)))
    (hl : LabAt C.env d e off (.read vars p)) (hw : Wf C.sl C.env.dp C.rl d e (.read vars p))
    (hm : MarksAt C.prog.marks (marksStmt C.env.dp d e off (.read vars p)) nx)
    (hnx : off + sizeStmt C.env.dp d e (.read vars p) ≤ nx)
    (hen : Entry C.env off (.read vars p) m σ) (hr : ERel C.sl C.env s σ) (hi : Inv C d e vb gd σ) :
    StmtSpec C d e vb (off + sizeStmt C.env.dp d e (.read vars p)) nx σ
      (exec (fuel + 1) C.P gd (desugar (.read vars p)) m s) := by
  obtain ⟨rfl, hpc⟩ := hen.of_nolabels rfl
  have hms : marksStmt C.env.dp d e off (.read vars p) = [off] := by simp only [marksStmt]
  have hds : desugar (.read vars p) = .read (vars.map fun v => (v.1, v.2.1)) p := by simp only [desugar]
  have hc0 := hc
  rw [rd_compile] at hc0
  have hw0 := hw
  simp only [Wf] at hw0
  rw [hds]
  simp only [exec]
  cases vars with
  | nil =>
    simp only [List.isEmpty_nil, if_true] at hc0
    have h0 : C.prog.code[σ.b.pc]? = some (.base .beginArgs, p) := by rw [hpc]; exact hc0.head
    have h1 : C.prog.code[σ.b.pc + 1]? = some (.base .pushStack, p) := by rw [hpc]; exact hc0.tail.head
    have h2 : C.prog.code[σ.b.pc + 1 + 1]? = some (.base .builtInRead, p) := by rw [hpc]; exact hc0.tail.tail.head
    have h3 : C.prog.code[σ.b.pc + 1 + 1 + 1]? = some (.base .popStack, p) := by rw [hpc]; exact hc0.tail.tail.tail.head
    let σ1 : EVm := { σ with b := advance { σ.b with args := [] } }
    let σ2 : EVm := { σ with b := advance { σ1.b with callPos := p } }
    let σ3 : EVm := { σ with b := advance { σ2.b with args := [] } }
    let σ4 : EVm := { σ with b := advance { σ3.b with args := [] } }
    have s1 : step C.prog σ = .next σ1 := by
      rw [step_base hC.pok h0 (by simp)]
      simp only [JmpL.Vm.step, base_get hC.pok h0]; rfl
    have s2 : step C.prog σ1 = .next σ2 := by
      have h1' : C.prog.code[σ1.b.pc]? = some (.base .pushStack, p) := h1
      rw [step_base hC.pok h1' (by simp)]
      simp only [JmpL.Vm.step, base_get hC.pok h1']; rfl
    have s3 : step C.prog σ2 = .next σ3 := by
      have h2' : C.prog.code[σ2.b.pc]? = some (.base .builtInRead, p) := h2
      have ha : σ2.b.args = [] := rfl
      simp only [step, h2', ha, Vm.readArgs]; rfl
    have s4 : step C.prog σ3 = .next σ4 := by
      have h3' : C.prog.code[σ3.b.pc]? = some (.base .popStack, p) := h3
      rw [step_base hC.pok h3' (by simp)]
      simp only [JmpL.Vm.step, base_get hC.pok h3']; rfl
    simp only [List.map_nil, readVars, StmtSpec]
    refine ⟨σ4, Steps.cons s1 (Steps.cons s2 (Steps.cons s3 (Steps.one s4))), .inl ?_, ?_, rfl, ⟨hi.he, fun _ => rfl⟩, rfl, rfl,
      rfl⟩
    · show σ.b.pc + 1 + 1 + 1 + 1 = off + sizeStmt C.env.dp d e (.read [] p)
      simp only [sizeStmt, List.isEmpty_nil, if_true]; omega
    · exact { base := hr.base.same rfl rfl rfl rfl rfl, handler := hr.handler, hfd := hr.hfd, inH := hr.inH, err := hr.err }
  | cons v rest =>
    simp only [List.isEmpty_cons, Bool.false_eq_true, if_false] at hc0
    have hsz : sizeStmt C.env.dp d e (.read (v :: rest) p) = 11 * (v :: rest).length := by
      simp only [sizeStmt, List.isEmpty_cons, Bool.false_eq_true, if_false]
    have h := rd_blocks C hC p (v :: rest) off σ s.st hc0 hpc hr.base hw0
    generalize hrv : readVars p s.st ((v :: rest).map fun v => (v.1, v.2.1)) = r at h ⊢
    obtain ⟨st', o⟩ := r
    cases o with
    | none =>
      obtain ⟨b', st, hp, hrel, hs1, hs2, hs3, hs4⟩ := h
      simp only [StmtSpec]
      refine ⟨{ σ with b := b' }, st, .inl (by rw [hsz]; exact hp), ?_, hs1, ⟨by show vb + e ≤ b'.vals.length; rw [hs2]; exact hi.he,
        fun _ => by show b'.vals = σ.b.vals.drop 0; rw [hs2]; rfl⟩, hs3, hs4, rfl⟩
      exact { base := hrel, handler := hr.handler, hfd := hr.hfd, inH := hr.inH, err := hr.err }
    | some f =>
      cases f with
      | inexact => simp only [StmtSpec]
      | err c q =>
        obtain ⟨b1, b2, st, hstep, hlo, hhi, hrel, ⟨a1, a2, a3, a4⟩, ⟨c1, c2, c3, c4⟩⟩ := h
        have hrel' : ERel C.sl C.env { s with st := st' } { σ with b := b2 } :=
          { base := hrel, handler := hr.handler, hfd := hr.hfd, inH := hr.inH, err := hr.err }
        have := simple_unit hC ih (sfx := sfx) (x := { σ with b := b1 }) (y := { σ with b := b2 }) hc hl hw hm hms hnx st hlo
          (by rw [hsz]; exact hhi) hstep
          ⟨by show b2.regStack = b1.regStack; rw [c1, a1], by show b2.vals = b1.vals; rw [c2, a2],
            by show b2.paths = b1.paths; rw [c3, a3], by show b2.gosubs = b1.gosubs; rw [c4, a4], rfl⟩
          c1 (by show vb + e ≤ b2.vals.length; rw [c2]; exact hi.he) c3 c4 rfl hrel' hi
        rw [hds] at this
        exact this

end RbThm.ErrLSim
