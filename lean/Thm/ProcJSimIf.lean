import Thm.ProcJSimBase
import Thm.ProcJShape
import Thm.ProcJDepths
/-!
Layer "procedures ∪ jumps", simulation part: `IF … [ELSEIF …]* [ELSE …] END IF` (port of `Thm/JmpLSimIf.lean` with the state
threading of `Thm/ProcSimIf.lean`: a condition may call functions, so the state *after* the condition is handed to the block /
to the rest of the chain).

The ELSEIF chain is desugared into nested `ifs` nodes, and *every* node applies the jump-handling rule: a jump out of one of its
two parts to a label inside the node re-enters the node in seek mode.  So the proof has a lemma for one node (`SimIf.node`:
entered from its condition, or in seek mode at a label in its block or further down the chain; what the rest of the chain does
and what a re-entry of the node itself does — at one unit of fuel less — are hypotheses), a lemma for the chain by induction on
the fuel (`SimIf.chain_correct`), and the statement itself, whose first node is re-entered through the statement hypothesis.
All specifications are stated at the end address `fin` of the whole IF (behind the `end-if` label).

IF keeps nothing on the stacks: every intermediate state has the stacks of the entry state (`SameStacks`), so the activation's
invariant is carried along by `ActInv.of_same` and the outcome `exited` is passed on by `StmtPost.of_steps`.  A caught jump
needs no fact of the reference semantics: its label lies inside the node, hence is at least as deep as the node
(`LabAt.depth_ge`), hence nothing was popped on the way to it.
-/
namespace RbThm.ProcJSim
set_option linter.unusedVariables false
set_option linter.unusedSimpArgs false
open RbModel RbModel.ProcJ RbModel.ProcJ.Compile RbModel.ProcJ.Vm
open RbModel.Num hiding Expr
open RbModel.Ast (Pos)
open RbModel.Proc (Var SlotTabs Expr Args PrintItem CaseExpr ProcDecl zeroOf Sigs sigsOf)
open RbModel.Proc.Compile (Layout Layout.addr sizeExpr sizePush refCount sizeExprTo sizeSubCall sizeItems sizeCaseExpr sizeConds
  sizeExit labelName stepSuffix maxPos)
open RbModel.Proc.Vm (Regs Regs.new Frame CtxState getVar setVar curVars modCur curStatic applyArgs readVars binInstr)
open RbModel.ProcJ.Ref (Outcome Mode Act)
open RbThm.ProcJLen
open RbThm.ProcSim (Scope EWf)

namespace SimIf

/-- how a node of the lean syntax is entered: at address `a`, or in seek mode at a label inside it -/
def EntryS (env : LEnv) (a : Nat) (N : Stmt) : Mode → Vm → Prop
  | .run, σ => σ.pc = a
  | .seek L, σ => N.hasLabel L = true ∧ σ.pc = env.addr L

theorem hasLabel_ifs (c : Expr) (a b : Stmt) (p : Pos) (L : Nat) :
    (Stmt.ifs c a b p).hasLabel L = (a.hasLabel L || b.hasLabel L) := by
  simp [Stmt.hasLabel, Stmt.labels]

/-- a normal end at `bodyFin`, where `Jump endOff` sits, and `endOff` holds the `end-if` label: the run goes on to `fin` -/
theorem body_to_fin {W : World} {sc : Scope} {below : List CtxState} {fd sd bodyFin endOff fin : Nat} {σ : Vm} {p : Pos}
    {name : String} {r : St × Outcome}
    (h : StmtPost W sc below fd sd bodyFin σ r) (hj : W.code[bodyFin]? = some (CInstr.jump endOff, p))
    (hl : W.code[endOff]? = some (CInstr.label name, p)) (hfin : fin = endOff + 1) :
    StmtPost W sc below fd sd fin σ r := by
  obtain ⟨s', o⟩ := r
  cases o with
  | normal =>
    obtain ⟨τ, st, hp, hrel, hss⟩ := h
    have hj' : W.code[τ.pc]? = some (CInstr.jump endOff, p) := by rw [hp]; exact hj
    let τ1 : Vm := { τ with pc := endOff }
    have s1 : Vm.step W.code τ = .next τ1 := by simp only [Vm.step, hj']; rfl
    have hl' : W.code[τ1.pc]? = some (CInstr.label name, p) := hl
    have s2 : Vm.step W.code τ1 = .next (Vm.advance τ1) := by simp only [Vm.step, hl']
    exact ⟨Vm.advance τ1, st.trans (Steps.cons s1 (Steps.one s2)), by rw [hfin]; rfl, (hrel.setPc _).advance,
      hss.trans ⟨rfl, rfl, rfl, rfl, rfl, rfl, rfl, id⟩⟩
  | exited => exact h
  | halted => exact h
  | jump L => exact h
  | ret q => exact h
  | error c q => exact h
  | inexact => trivial
  | outOfFuel => trivial
  | illFormed => trivial
  | notHere => trivial

/-- a normal end at `endOff`, which holds the `end-if` label -/
theorem then_label {W : World} {sc : Scope} {below : List CtxState} {fd sd endOff fin : Nat} {σ : Vm} {p : Pos}
    {name : String} {r : St × Outcome}
    (h : StmtPost W sc below fd sd endOff σ r) (hl : W.code[endOff]? = some (CInstr.label name, p))
    (hfin : fin = endOff + 1) : StmtPost W sc below fd sd fin σ r := by
  obtain ⟨s', o⟩ := r
  cases o with
  | normal =>
    obtain ⟨τ, st, hp, hrel, hss⟩ := h
    have hl' : W.code[τ.pc]? = some (CInstr.label name, p) := by rw [hp]; exact hl
    have s2 : Vm.step W.code τ = .next (Vm.advance τ) := by simp only [Vm.step, hl']
    exact ⟨Vm.advance τ, st.trans (Steps.one s2), by rw [hfin]; show τ.pc + 1 = _; rw [hp], hrel.advance,
      hss.trans ⟨rfl, rfl, rfl, rfl, rfl, rfl, rfl, id⟩⟩
  | exited => exact h
  | halted => exact h
  | jump L => exact h
  | ret q => exact h
  | error c q => exact h
  | inexact => trivial
  | outOfFuel => trivial
  | illFormed => trivial
  | notHere => trivial

/-- the labels of an ELSEIF chain with its ELSE part -/
theorem chain_hasLabel {sg : Sigs} {sc : Scope} {dp : Dp} {labs : List Nat} {d e : Nat} {el : ElseIfs} {els : SStmt}
    (hwe : WfElifs sg sc dp labs d e el) (hwels : Wf sg sc dp labs d e els) (p : Pos) (L : Nat) :
    (desugarElifs el (desugar els) p).hasLabel L = true ↔ L ∈ el.labels ∨ L ∈ els.labels := by
  simp only [Stmt.hasLabel, labels_desugarElifs sg sc dp labs el d e hwe, labels_desugar sg sc dp labs els d e hwels,
    List.contains_eq_mem, List.mem_append, decide_eq_true_eq]

/-- a jump that came out of a part of a node (specification at the node's depths) to a label that is at least as deep as the
node arrives at the label with the stacks of the entry state -/
theorem caught {W : World} {sc : Scope} {below : List CtxState} {fd sd fin : Nat} {σ : Vm} {s' : St} {L : Nat}
    (h : StmtPost W sc below fd sd fin σ (s', .jump L)) (h2 : fd ≤ W.env.dp.fd L) (h4 : sd ≤ W.env.dp.sd L) :
    ∃ τ, Steps W.code σ τ ∧ τ.pc = W.env.addr L ∧ Rel W sc [] below s' τ ∧ SameStacks σ τ := by
  obtain ⟨τ, st, hp, hr, e1, e2, e3, e4, e5, e6, e7, e8⟩ := h
  have hd : fd - W.env.dp.fd L = 0 := by omega
  have he : sd - W.env.dp.sd L = 0 := by omega
  rw [hd] at e1; rw [he] at e2
  exact ⟨τ, st, hp, hr, ⟨by simpa using e2, e3, by simpa using e1, e5, e6, e4, e7, e8⟩⟩

/-- the jump-handling rule of a node of the lean syntax, given what a re-entry of the node does -/
theorem catch_with {W : World} {sc : Scope} {below : List CtxState} {fd sd fin : Nat} {σ : Vm} (A : Act) (N : Stmt) (f : Nat)
    (r1 : St × Outcome) (h1 : StmtPost W sc below fd sd fin σ r1)
    (hge : ∀ L, N.hasLabel L = true → fd ≤ W.env.dp.fd L ∧ sd ≤ W.env.dp.sd L)
    (hself : ∀ (L : Nat) (τ : Vm) (s0 : St), N.hasLabel L = true → τ.pc = W.env.addr L →
      Rel W sc [] below s0 τ → SameStacks σ τ → StmtPost W sc below fd sd fin τ (ProcJ.Ref.exec W.P f A N (.seek L) s0)) :
    StmtPost W sc below fd sd fin σ
      (match (generalizing := false) r1 with
       | (s', .jump L) => if N.hasLabel L = true then ProcJ.Ref.exec W.P f A N (.seek L) s' else (s', .jump L)
       | r => r) := by
  obtain ⟨s1, o1⟩ := r1
  cases o1 with
  | jump L =>
    simp only
    by_cases hL : N.hasLabel L = true
    · simp only [hL, if_true]
      obtain ⟨g1, g2⟩ := hge L hL
      obtain ⟨τ, st, hp, hrτ, hss⟩ := caught h1 g1 g2
      exact StmtPost.of_steps st hss (hself L τ s1 hL hp hrτ hss)
    · simp only [hL]
      exact h1
  | normal => exact h1
  | exited => exact h1
  | halted => exact h1
  | ret q => exact h1
  | error cd q => exact h1
  | inexact => trivial
  | outOfFuel => trivial
  | illFormed => trivial
  | notHere => trivial

/-! ### one node -/

theorem node (W : World) (B : BodyCtx) (hB : B.Ok W) (fuel f : Nat) (ih : IHle W fuel) (hf : f ≤ fuel)
    (c : Expr) (body : SStmt) (E : Stmt) (sfx : String) (p : Pos) (fd sd a next endOff fin : Nat) (name : String)
    (below : List CtxState)
    (hc : CodeAt W.code a (compileExpr W.lay a c ++ [(CInstr.jumpIfFalse next, p)] ++
      compileStmt W.lay W.env sfx fd sd (a + sizeExpr c + 1) body ++ [(CInstr.jump endOff, p)]))
    (hendl : W.code[endOff]? = some (CInstr.label name, p)) (hfin : fin = endOff + 1)
    (hlb : LabAt W.env fd sd (a + sizeExpr c + 1) body) (hwb : Wf W.sg B.sc W.env.dp B.body.labels fd sd body)
    (hwc : EWf W.sg B.sc.slots c) (hnc : c.ty ≠ .str)
    (m : Mode) (σ : Vm) (s : St)
    (hen : EntryS W.env a (Stmt.ifs c (desugar body) E p) m σ)
    (hr : Rel W B.sc [] below s σ) (hinv : ActInv B.sc fd sd σ)
    (hge : ∀ L, (Stmt.ifs c (desugar body) E p).hasLabel L = true → fd ≤ W.env.dp.fd L ∧ sd ≤ W.env.dp.sd L)
    (hrest : ∀ (m' : Mode) (τ : Vm) (s0 : St), EntryS W.env next E m' τ → Rel W B.sc [] below s0 τ → SameStacks σ τ →
      StmtPost W B.sc below fd sd fin τ (ProcJ.Ref.exec W.P f B.act E m' s0))
    (hself : ∀ (L : Nat) (τ : Vm) (s0 : St), (Stmt.ifs c (desugar body) E p).hasLabel L = true → τ.pc = W.env.addr L →
      Rel W B.sc [] below s0 τ → SameStacks σ τ →
      StmtPost W B.sc below fd sd fin τ (ProcJ.Ref.exec W.P f B.act (Stmt.ifs c (desugar body) E p) (.seek L) s0)) :
    StmtPost W B.sc below fd sd fin σ (ProcJ.Ref.exec W.P (f + 1) B.act (Stmt.ifs c (desugar body) E p) m s) := by
  have hcb : CodeAt W.code (a + sizeExpr c + 1) (compileStmt W.lay W.env sfx fd sd (a + sizeExpr c + 1) body) := by
    have := hc.append_left.append_right
    simp only [List.length_append, List.length_singleton, len_expr] at this
    exact this.at (by omega)
  have hj : W.code[a + sizeExpr c + 1 + sizeStmt W.env.dp fd sd body]? = some (CInstr.jump endOff, p) := by
    have := hc.append_right.head
    simp only [List.length_append, List.length_singleton, len_stmt, len_expr] at this
    rw [← this]; congr 1; omega
  -- the block, entered either way from a state with the stacks of `σ`
  have hblock : ∀ (mb : Mode) (τ : Vm) (s0 : St), Entry W.env (a + sizeExpr c + 1) body mb τ → Rel W B.sc [] below s0 τ →
      SameStacks σ τ → StmtPost W B.sc below fd sd fin τ (ProcJ.Ref.exec W.P f B.act (desugar body) mb s0) := by
    intro mb τ s0 hen' hr' hss
    have := (ih f hf).stmt B body sfx fd sd _ mb below s0 τ hB hcb hlb hwb hen' hr' (hinv.of_same hss)
    exact body_to_fin this hj hendl hfin
  have hent : m.enters (Stmt.ifs c (desugar body) E p) = true := by
    cases m with
    | run => rfl
    | seek L => exact hen.1
  simp only [ProcJ.Ref.exec, hent, if_true]
  refine catch_with B.act _ f _ ?_ hge hself
  cases m with
  | seek L =>
    simp only
    by_cases hLb : (desugar body).hasLabel L = true
    · simp only [hLb, if_true]
      exact hblock (.seek L) σ s ⟨(hasLabel_iff hwb L).mp hLb, hen.2⟩ hr (SameStacks.refl σ)
    · simp only [hLb]
      have hLE : E.hasLabel L = true := by
        have := hen.1
        rw [hasLabel_ifs] at this
        simp only [Bool.or_eq_true] at this
        exact this.resolve_left hLb
      exact hrest (.seek L) σ s ⟨hLE, hen.2⟩ hr (SameStacks.refl σ)
  | run =>
    have hpc : σ.pc = a := hen
    have hcond := cond_correct' W f (ih.mono hf) B.sc c next p a [] below s σ hc.append_left.append_left hpc hr hwc hnc
    simp only
    generalize ProcJ.Ref.evalCond W.P f c s = rc at hcond ⊢
    obtain ⟨s1, rb⟩ := rc
    cases rb with
    | error o => exact StmtPost.of_err hcond
    | ok b =>
      cases b with
      | true =>
        obtain ⟨τ, st, hp, hrel, hss⟩ := hcond
        exact StmtPost.of_steps st hss (hblock .run τ s1 hp hrel hss)
      | false =>
        obtain ⟨τ, st, hp, hrel, hss⟩ := hcond
        exact StmtPost.of_steps st hss (hrest .run τ s1 hp hrel hss)

/-! ### the ELSEIF chain with the ELSE part -/

theorem chain_correct (W : World) (B : BodyCtx) (hB : B.Ok W) (fuel : Nat) (ih : IHle W fuel) (sfx : String) (p : Pos)
    (fd sd endOff elseOff fin : Nat) (name : String) (hasElse : Bool) (els : SStmt) (below : List CtxState)
    (hendl : W.code[endOff]? = some (CInstr.label name, p)) (hfin : fin = endOff + 1)
    (hwels : Wf W.sg B.sc W.env.dp B.body.labels fd sd els) (hnoelse : hasElse = false → els = .skip ∧ elseOff = endOff)
    (hcelse : hasElse = true →
      W.code[elseOff]? = some (CInstr.label (labelName "else" p sfx), p) ∧
      CodeAt W.code (elseOff + 1) (compileStmt W.lay W.env sfx fd sd (elseOff + 1) els) ∧
      elseOff + 1 + sizeStmt W.env.dp fd sd els = endOff ∧ LabAt W.env fd sd (elseOff + 1) els)
    (σ0 : Vm) (hinv0 : ActInv B.sc fd sd σ0) :
    ∀ (n f : Nat), f ≤ n → f ≤ fuel → ∀ (elifs : ElseIfs) (off i : Nat) (m : Mode) (σ : Vm) (s : St),
      CodeAt W.code off (compileElifs W.lay W.env sfx fd sd p endOff off i elifs) →
      off + sizeElifs W.env.dp fd sd elifs = elseOff → LabAtElifs W.env fd sd off elifs →
      WfElifs W.sg B.sc W.env.dp B.body.labels fd sd elifs →
      EntryS W.env off (desugarElifs elifs (desugar els) p) m σ → Rel W B.sc [] below s σ → SameStacks σ0 σ →
      StmtPost W B.sc below fd sd fin σ (ProcJ.Ref.exec W.P f B.act (desugarElifs elifs (desugar els) p) m s) := by
  intro n
  induction n with
  | zero =>
    intro f hfn _ elifs off i m σ s _ _ _ _ _ _ _
    have : f = 0 := by omega
    subst this
    simp only [ProcJ.Ref.exec, StmtPost]
  | succ n ihn =>
    intro f hfn hff elifs off i m σ s hc hsz hl hw hen hr hss
    by_cases hle : f ≤ n
    · exact ihn f hle hff elifs off i m σ s hc hsz hl hw hen hr hss
    have hfe : f = n + 1 := by omega
    subst hfe
    have hinvσ : ActInv B.sc fd sd σ := hinv0.of_same hss
    cases elifs with
    | nil =>
      simp only [desugarElifs] at hen ⊢
      simp only [sizeElifs] at hsz
      cases hasElse with
      | false =>
        obtain ⟨hskip, heq⟩ := hnoelse rfl
        subst hskip
        cases m with
        | seek L => simp only [desugar, ProcJ.Ref.exec, StmtPost]
        | run =>
          have hpc : σ.pc = endOff := by rw [← heq, ← hsz]; exact hen
          simp only [desugar, ProcJ.Ref.exec]
          exact then_label ⟨σ, Steps.refl σ, hpc, hr, SameStacks.refl σ⟩ hendl hfin
      | true =>
        obtain ⟨hlab, hce, hsz2, hlels⟩ := hcelse rfl
        cases m with
        | seek L =>
          have hL : L ∈ els.labels := (hasLabel_iff hwels L).mp hen.1
          have := (ih (n + 1) hff).stmt B els sfx fd sd _ (.seek L) below s σ hB hce hlels hwels ⟨hL, hen.2⟩ hr hinvσ
          rw [hsz2] at this
          exact then_label this hendl hfin
        | run =>
          have hpc : σ.pc = elseOff := by rw [← hsz]; exact hen
          have hlab' : W.code[σ.pc]? = some (CInstr.label (labelName "else" p sfx), p) := by rw [hpc]; exact hlab
          have s1 : Vm.step W.code σ = .next (Vm.advance σ) := by simp only [Vm.step, hlab']
          have hss1 : SameStacks σ (Vm.advance σ) := ⟨rfl, rfl, rfl, rfl, rfl, rfl, rfl, id⟩
          have := (ih (n + 1) hff).stmt B els sfx fd sd _ .run below s (Vm.advance σ) hB hce hlels hwels
            (by show σ.pc + 1 = elseOff + 1; rw [hpc]) hr.advance (hinvσ.of_same hss1)
          rw [hsz2] at this
          exact StmtPost.of_steps (Steps.one s1) hss1 (then_label this hendl hfin)
    | cons c body rest =>
      have hc0 := hc
      have hl0 := hl
      have hw0 := hw
      simp only [desugarElifs] at hen ⊢
      simp only [compileElifs] at hc
      obtain ⟨hwc, hnc, hwb, hwr⟩ := hw
      obtain ⟨hlb, hlr⟩ := hl.cons
      simp only [sizeElifs] at hsz
      have hlabel : W.code[off]? = some (CInstr.label (labelName ("else-if-" ++ toString i) p sfx), p) :=
        hc.append_left.append_left.append_left.append_left.append_left.head
      have harm : CodeAt W.code (off + 1) (compileExpr W.lay (off + 1) c ++
          [(CInstr.jumpIfFalse (off + 1 + sizeExpr c + 1 + sizeStmt W.env.dp fd sd body + 1), p)] ++
          compileStmt W.lay W.env sfx fd sd (off + 1 + sizeExpr c + 1) body ++ [(CInstr.jump endOff, p)]) := by
        have h := hc.append_left
        have h' : CodeAt W.code off ([(CInstr.label (labelName ("else-if-" ++ toString i) p sfx), p)] ++
            (compileExpr W.lay (off + 1) c ++
              [(CInstr.jumpIfFalse (off + 1 + sizeExpr c + 1 + sizeStmt W.env.dp fd sd body + 1), p)] ++
              compileStmt W.lay W.env sfx fd sd (off + 1 + sizeExpr c + 1) body ++ [(CInstr.jump endOff, p)])) := by
          simpa only [List.append_assoc] using h
        have := h'.append_right
        simpa only [List.length_singleton] using this
      have hcr : CodeAt W.code (off + 1 + sizeExpr c + 1 + sizeStmt W.env.dp fd sd body + 1)
          (compileElifs W.lay W.env sfx fd sd p endOff
            (off + 1 + sizeExpr c + 1 + sizeStmt W.env.dp fd sd body + 1) (i + 1) rest) := by
        have := hc.append_right
        simp only [List.length_append, List.length_singleton, len_stmt, len_expr] at this
        exact this.at (by omega)
      have hgeN : ∀ L, (Stmt.ifs c (desugar body) (desugarElifs rest (desugar els) p) p).hasLabel L = true →
          fd ≤ W.env.dp.fd L ∧ sd ≤ W.env.dp.sd L := by
        intro L hL
        rw [hasLabel_ifs] at hL
        simp only [Bool.or_eq_true] at hL
        rcases hL with hL | hL
        · exact hlb.depth_ge ((hasLabel_iff hwb L).mp hL)
        · rcases (chain_hasLabel hwr hwels p L).mp hL with hL | hL
          · exact hlr.depth_ge hL
          · cases hasElse with
            | false => rw [(hnoelse rfl).1] at hL; simp [SStmt.labels] at hL
            | true => exact (hcelse rfl).2.2.2.depth_ge hL
      -- apply the node lemma from a state `σ'` with the stacks of `σ`
      have hnode : ∀ (σ' : Vm), SameStacks σ σ' → Rel W B.sc [] below s σ' →
          EntryS W.env (off + 1) (Stmt.ifs c (desugar body) (desugarElifs rest (desugar els) p) p) m σ' →
          StmtPost W B.sc below fd sd fin σ'
            (ProcJ.Ref.exec W.P (n + 1) B.act (Stmt.ifs c (desugar body) (desugarElifs rest (desugar els) p) p) m s) := by
        intro σ' hss' hr' hen'
        have hss0 : SameStacks σ0 σ' := hss.trans hss'
        refine node W B hB fuel n ih (by omega) c body _ sfx p fd sd (off + 1) _ endOff fin name below harm hendl hfin hlb hwb
          hwc hnc m σ' s hen' hr' (hinv0.of_same hss0) hgeN ?_ ?_
        · intro m' τ s0 henτ hrτ hssτ
          exact ihn n (Nat.le_refl _) (by omega) rest _ (i + 1) m' τ s0 hcr (by omega) hlr hwr henτ hrτ (hss0.trans hssτ)
        · intro L τ s0 hL hpτ hrτ hssτ
          have := ihn n (Nat.le_refl _) (by omega) (.cons c body rest) off i (.seek L) τ s0 hc0 (by simp only [sizeElifs]; omega)
            hl0 hw0 ⟨by simpa only [desugarElifs] using hL, hpτ⟩ hrτ (hss0.trans hssτ)
          simpa only [desugarElifs] using this
      cases m with
      | seek L => exact hnode σ (SameStacks.refl σ) hr hen
      | run =>
        have hpc : σ.pc = off := hen
        have hlabel' : W.code[σ.pc]? = some (CInstr.label (labelName ("else-if-" ++ toString i) p sfx), p) := by
          rw [hpc]; exact hlabel
        have s1 : Vm.step W.code σ = .next (Vm.advance σ) := by simp only [Vm.step, hlabel']
        have hss1 : SameStacks σ (Vm.advance σ) := ⟨rfl, rfl, rfl, rfl, rfl, rfl, rfl, id⟩
        exact StmtPost.of_steps (Steps.one s1) hss1
          (hnode (Vm.advance σ) hss1 hr.advance (by show σ.pc + 1 = off + 1; rw [hpc]))

end SimIf

/-! ### the statement -/

open SimIf in
theorem case_if (W : World) (procs : List (ProcDecl SStmt)) (hP : ProcsOk W procs) (B : BodyCtx) (hB : B.Ok W)
    (fuel : Nat) (ih : IHle W fuel) (c : Expr) (thn : SStmt) (elifs : ElseIfs) (hasElse : Bool) (els : SStmt) (p : Pos)
    (sfx : String) (fd sd off : Nat) (m : Mode) (below : List CtxState) (s : St) (σ : Vm)
    (hc : CodeAt W.code off (compileStmt W.lay W.env sfx fd sd off (.ifBlock c thn elifs hasElse els p)))
    (hl : LabAt W.env fd sd off (.ifBlock c thn elifs hasElse els p))
    (hw : Wf W.sg B.sc W.env.dp B.body.labels fd sd (.ifBlock c thn elifs hasElse els p))
    (hen : Entry W.env off (.ifBlock c thn elifs hasElse els p) m σ) (hr : Rel W B.sc [] below s σ)
    (hinv : ActInv B.sc fd sd σ) :
    StmtPost W B.sc below fd sd (off + sizeStmt W.env.dp fd sd (.ifBlock c thn elifs hasElse els p)) σ
      (ProcJ.Ref.exec W.P (fuel + 1) B.act (desugar (.ifBlock c thn elifs hasElse els p)) m s) := by
  have hc0 := hc
  have hw0 := hw
  obtain ⟨hwc, hnc, hwt, hwe, hwels, hnoelse⟩ := hw
  obtain ⟨hlt, hle, hlels⟩ := hl.ifBlock
  -- addresses
  let afterThn := off + sizeExpr c + 1 + sizeStmt W.env.dp fd sd thn + 1
  let elseOff := afterThn + sizeElifs W.env.dp fd sd elifs
  let endOff := elseOff + (if hasElse then 1 + sizeStmt W.env.dp fd sd els else 0)
  have hfin : off + sizeStmt W.env.dp fd sd (.ifBlock c thn elifs hasElse els p) = endOff + 1 := by
    simp only [sizeStmt, endOff, elseOff, afterThn]; omega
  simp only [compileStmt] at hc
  have harm : CodeAt W.code off (compileExpr W.lay off c ++ [(CInstr.jumpIfFalse afterThn, p)] ++
      compileStmt W.lay W.env sfx fd sd (off + sizeExpr c + 1) thn ++ [(CInstr.jump endOff, p)]) :=
    hc.append_left.append_left.append_left
  have hce : CodeAt W.code afterThn (compileElifs W.lay W.env sfx fd sd p endOff afterThn 0 elifs) := by
    have := hc.append_left.append_left.append_right
    simp only [List.length_append, List.length_singleton, len_stmt, len_expr] at this
    exact this.at (by simp only [afterThn]; omega)
  have hendl : W.code[endOff]? = some (CInstr.label (labelName "end-if" p sfx), p) := by
    have := hc.append_right.head
    simp only [List.length_append, List.length_singleton, len_stmt, len_elifs, len_expr] at this
    rw [← this]; congr 1
    simp only [endOff, elseOff, afterThn]
    cases hasElse <;> simp [len_stmt] <;> omega
  have hnoelse' : hasElse = false → els = .skip ∧ elseOff = endOff := by
    intro h; subst h
    exact ⟨hnoelse rfl, by simp [endOff]⟩
  have hcelse : hasElse = true →
      W.code[elseOff]? = some (CInstr.label (labelName "else" p sfx), p) ∧
      CodeAt W.code (elseOff + 1) (compileStmt W.lay W.env sfx fd sd (elseOff + 1) els) ∧
      elseOff + 1 + sizeStmt W.env.dp fd sd els = endOff ∧ LabAt W.env fd sd (elseOff + 1) els := by
    intro h; subst h
    simp only [if_true] at hc
    refine ⟨?_, ?_, by simp only [endOff, if_true]; omega, hlels rfl⟩
    · have := hc.append_left.append_right.append_left.head
      simp only [List.length_append, List.length_singleton, len_stmt, len_elifs, len_expr] at this
      rw [← this]; congr 1
      simp only [elseOff, afterThn]; omega
    · have := hc.append_left.append_right.append_right
      simp only [List.length_append, List.length_singleton, len_stmt, len_elifs, len_expr] at this
      exact this.at (by simp only [elseOff, afterThn]; omega)
  rw [hfin]
  simp only [desugar]
  have henS : EntryS W.env off (Stmt.ifs c (desugar thn) (desugarElifs elifs (desugar els) p) p) m σ := by
    cases m with
    | run => exact hen
    | seek L => exact ⟨by have := (hasLabel_iff hw0 L).mpr hen.1; simpa only [desugar] using this, hen.2⟩
  refine node W B hB fuel fuel ih (Nat.le_refl _) c thn _ sfx p fd sd off afterThn endOff (endOff + 1) _ below harm hendl rfl
    hlt hwt hwc hnc m σ s henS hr hinv ?_ ?_ ?_
  · intro L hL
    have : (desugar (.ifBlock c thn elifs hasElse els p)).hasLabel L = true := by simpa only [desugar] using hL
    exact hl.depth_ge ((hasLabel_iff hw0 L).mp this)
  · intro m' τ s0 henτ hrτ hssτ
    exact chain_correct W B hB fuel ih sfx p fd sd endOff elseOff (endOff + 1) _ hasElse els below hendl rfl hwels hnoelse'
      hcelse σ hinv fuel fuel (Nat.le_refl _) (Nat.le_refl _) elifs afterThn 0 m' τ s0 hce rfl hle hwe henτ hrτ hssτ
  · intro L τ s0 hL hpτ hrτ hssτ
    have hL' : L ∈ (SStmt.ifBlock c thn elifs hasElse els p).labels := by
      have : (desugar (.ifBlock c thn elifs hasElse els p)).hasLabel L = true := by simpa only [desugar] using hL
      exact (hasLabel_iff hw0 L).mp this
    have := ih.self.stmt B (.ifBlock c thn elifs hasElse els p) sfx fd sd off (.seek L) below s0 τ hB hc0 hl hw0 ⟨hL', hpτ⟩ hrτ
      (hinv.of_same hssτ)
    rw [hfin] at this
    simpa only [desugar] using this

end RbThm.ProcJSim
