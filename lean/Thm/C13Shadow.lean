import Thm.C13Rules
/-!
C13, sixth part: a SHARED global is never shadowed by a declaration inside a subprogram.

"Inside a SUB or FUNCTION a name refers to a local unless it is a parameter, a CONST, or was declared DIM SHARED":
a *reference* to a `DIM SHARED` name inside a procedure denotes the global (`shared_compact_visible_in_sub`,
`shared_extended_visible_in_sub`); and a local `DIM` (or a parameter) that would give that very reference a second,
local meaning is `DuplicateDefinition` — at the level of the guard (`requireCompact` / `requireExtended`), of the DIM
rule (`convDim`), of the parameter rule (`convParam` / `convParams`), of statement lists, and of whole scripts
(`lint_rejects_shadowing`: exact error under "everything before the DIM is accepted"; `lint_never_accepts_shadowing`:
purely syntactic, the script is never accepted).
-/
namespace RbThm.C13Shadow
open RbModel.Names RbThm.C13 RbThm.C13Reach RbThm.C13Total RbThm.C13Rules

/-! ## what "SHARED and in sight under qualifier q" means -/

/-- the global table `g` holds a SHARED variable that the spelling `k<q>` would denote inside a subprogram: the SHARED
compact `(k, q)`, or a SHARED `k AS T` (which owns the bare name, whatever the qualifier) -/
def SharedName (g : Table) (k : Key) (q : Q) : Prop :=
  g.getCompact k q = some true ∨ ∃ T, g.getExtended k = some (T, true)

theorem sharedName_iff_vin (g : Table) (k : Key) (q : Q) : SharedName g k q ↔ ∃ x, vin g k q = some (x, true) := by
  unfold SharedName
  constructor
  · rintro (h | ⟨T, h⟩)
    · exact ⟨q, by simp [vin, varInfoByName, h]⟩
    · rcases ext_compact_excl g k q with h' | h'
      · rw [h] at h'; cases h'
      · exact ⟨T, by simp [vin, varInfoByName, h', h]⟩
  · rintro ⟨x, h⟩
    simp only [vin, varInfoByName] at h
    split at h
    · next s hs => injection h with h; injection h with _ h; subst h; exact Or.inl hs
    · exact Or.inr ⟨x, h⟩

/-- the declaration `d` of the name `k` (DEFtype table `t`) would shadow a SHARED global of table `g` -/
def Clash (g : Table) (t : DefTable) (k : Key) : Decl → Prop
  | .bare => SharedName g k (defaultQ t k)
  | .compact q => SharedName g k q
  | .extended _ => ∃ q, SharedName g k q

/-! ## 1. the guards and the DIM rule -/

theorem requireCompact_false_of_shared (c : Ctx) (k : Key) (q : Q) (hin : c.inSub = true)
    (hg : SharedName c.globals k q) : requireCompact c k q = false := by
  cases h : requireCompact c k q with
  | false => rfl
  | true =>
    obtain ⟨h1, h2⟩ := requireCompact_shared c k q h hin
    rcases hg with hg | ⟨T, hg⟩
    · exact absurd hg h2
    · exact absurd hg (h1 T)

theorem requireExtended_false_of_shared (c : Ctx) (k : Key) (q : Q) (hin : c.inSub = true)
    (hg : SharedName c.globals k q) : requireExtended c k = false := by
  cases h : requireExtended c k with
  | false => rfl
  | true =>
    obtain ⟨h1, h2⟩ := requireExtended_shared c k h hin
    rcases hg with hg | ⟨T, hg⟩
    · exact absurd hg (h2 q)
    · exact absurd hg (h1 T)

/-- `on_dim_type` / `on_param_type`: a clashing declaration inside a subprogram is `DuplicateDefinition` -/
theorem declare_clash_rejected (c : Ctx) (k : Key) (d : Decl) (sh : Bool) (hin : c.inSub = true)
    (hc : Clash c.globals c.deft k d) : declare c k d sh = .error .duplicateDefinition := by
  cases d with
  | bare => simp [declare, requireCompact_false_of_shared c k _ hin hc]
  | compact q => simp [declare, requireCompact_false_of_shared c k q hin hc]
  | extended T =>
    obtain ⟨q, hq⟩ := hc
    simp [declare, requireExtended_false_of_shared c k q hin hq]

/-- the DIM rule: a local `DIM` that clashes with a SHARED global is `DuplicateDefinition` -/
theorem convDim_clash_rejected (c : Ctx) (k : Key) (d : Decl) (hin : c.inSub = true)
    (hc : Clash c.globals c.deft k d) : convDim c false k d = .error .duplicateDefinition := by
  unfold convDim
  split; · rfl
  split; · rfl
  split; · rfl
  simp [declare_clash_rejected c k d false hin hc]

/-- with the SHARED keyword the DIM is refused as well (`IllegalInSubFunction` unless an earlier guard fires) -/
theorem convDim_clash_never_ok (c : Ctx) (k : Key) (d : Decl) (sh : Bool) (hin : c.inSub = true)
    (hc : Clash c.globals c.deft k d) :
    convDim c sh k d = .error .duplicateDefinition ∨ convDim c sh k d = .error .illegalInSubFunction := by
  cases sh with
  | false => exact Or.inl (convDim_clash_rejected c k d hin hc)
  | true =>
    unfold convDim
    split; · exact Or.inl rfl
    split; · exact Or.inl rfl
    split; · exact Or.inl rfl
    simp [hin]

/-- **local_dim_of_shared_compact_rejected.**  Inside a subprogram, with the SHARED compact `(k, q)` in the global
table: `DIM k<q>`, `DIM k` when the DEFtype default of `k` is `q`, and `DIM k AS T` for every `T` are all
`DuplicateDefinition`. -/
theorem local_dim_of_shared_compact_rejected (c : Ctx) (k : Key) (q : Q) (hin : c.inSub = true)
    (hg : c.globals.getCompact k q = some true) :
    convDim c false k (.compact q) = .error .duplicateDefinition ∧
    (defaultQ c.deft k = q → convDim c false k .bare = .error .duplicateDefinition) ∧
    ∀ T, convDim c false k (.extended T) = .error .duplicateDefinition :=
  ⟨convDim_clash_rejected c k _ hin (Or.inl hg),
   fun hq => convDim_clash_rejected c k _ hin (by show SharedName _ _ _; rw [hq]; exact Or.inl hg),
   fun T => convDim_clash_rejected c k (.extended T) hin ⟨q, Or.inl hg⟩⟩

/-- **local_dim_of_shared_extended_rejected.**  Inside a subprogram, with a SHARED `k AS T` in the global table,
every local DIM of the bare name `k` — `DIM k`, `DIM k<q>` for each of the five qualifiers, `DIM k AS T'` — is
`DuplicateDefinition`. -/
theorem local_dim_of_shared_extended_rejected (c : Ctx) (k : Key) (T : Q) (hin : c.inSub = true)
    (hg : c.globals.getExtended k = some (T, true)) (d : Decl) :
    convDim c false k d = .error .duplicateDefinition := by
  apply convDim_clash_rejected c k d hin
  cases d with
  | bare => exact Or.inr ⟨T, hg⟩
  | compact q => exact Or.inr ⟨T, hg⟩
  | extended T' => exact ⟨T, Or.inr ⟨T, hg⟩⟩

/-- the statement form: `DIM n…` as a statement of a procedure body -/
theorem convStmt_dim_clash_rejected (c : Ctx) (n : Ident) (d : Decl) (hin : c.inSub = true)
    (hc : Clash c.globals c.deft (fold n) d) : convStmt c (.dim false n d) = .error .duplicateDefinition := by
  simp [convStmt, convDim_clash_rejected c (fold n) d hin hc, Except.map]

/-! ## 2. parameters: the model routes them through the same `declare` -/

/-- the parameter rule: every guard of `convParam` answers `DuplicateDefinition`, and so does `declare` on a clash -/
theorem convParam_clash_rejected (c : Ctx) (k : Key) (d : Decl) (hin : c.inSub = true)
    (hc : Clash c.globals c.deft k d) : convParam c k d = .error .duplicateDefinition := by
  unfold convParam
  split; · rfl
  split; · rfl
  split; · rfl
  exact declare_clash_rejected c k d false hin hc

/-- **param_of_shared_compact_rejected.**  `DIM SHARED A<q>` + `SUB Sb (A<q>)` (or bare `A` under default `q`, or
`A AS T`): `DuplicateDefinition`. -/
theorem param_of_shared_compact_rejected (c : Ctx) (k : Key) (q : Q) (hin : c.inSub = true)
    (hg : c.globals.getCompact k q = some true) :
    convParam c k (.compact q) = .error .duplicateDefinition ∧
    (defaultQ c.deft k = q → convParam c k .bare = .error .duplicateDefinition) ∧
    ∀ T, convParam c k (.extended T) = .error .duplicateDefinition :=
  ⟨convParam_clash_rejected c k _ hin (Or.inl hg),
   fun hq => convParam_clash_rejected c k _ hin (by show SharedName _ _ _; rw [hq]; exact Or.inl hg),
   fun T => convParam_clash_rejected c k (.extended T) hin ⟨q, Or.inl hg⟩⟩

theorem param_of_shared_extended_rejected (c : Ctx) (k : Key) (T : Q) (hin : c.inSub = true)
    (hg : c.globals.getExtended k = some (T, true)) (d : Decl) :
    convParam c k d = .error .duplicateDefinition := by
  apply convParam_clash_rejected c k d hin
  cases d with
  | bare => exact Or.inr ⟨T, hg⟩
  | compact q => exact Or.inr ⟨T, hg⟩
  | extended T' => exact ⟨T, Or.inr ⟨T, hg⟩⟩

/-- the only error the parameter rule knows is `DuplicateDefinition` -/
theorem convParam_error (c : Ctx) (k : Key) (d : Decl) (e : LintErr) (h : convParam c k d = .error e) :
    e = .duplicateDefinition := by
  unfold convParam at h
  split at h; · cases h; rfl
  split at h; · cases h; rfl
  split at h; · cases h; rfl
  unfold declare at h
  cases d <;> simp only [] at h <;> split at h <;> cases h <;> rfl

theorem convParams_error (c : Ctx) (ps : List Param) (e : LintErr) (h : convParams c ps = .error e) :
    e = .duplicateDefinition := by
  induction ps generalizing c with
  | nil => simp [convParams] at h
  | cons p rest ih =>
    simp only [convParams] at h
    split at h
    · next e1 h1 => cases h; exact convParam_error c _ _ _ h1
    · next c1 h1 =>
      split at h
      · next e2 h2 => cases h; exact ih c1 h2
      · cases h

theorem convParam_deft (c c' : Ctx) (k : Key) (d : Decl) (h : convParam c k d = .ok c') : c'.deft = c.deft := by
  unfold convParam at h
  split at h; · cases h
  split at h; · cases h
  split at h; · cases h
  unfold declare at h
  cases d <;> simp only [] at h <;> split at h <;> cases h <;> simp

/-- a parameter list one of whose parameters clashes with a SHARED global is `DuplicateDefinition`, wherever the
parameter stands in the list -/
theorem convParams_clash_rejected (c : Ctx) (ps : List Param) (p : Param) (hin : c.inSub = true) (hp : p ∈ ps)
    (hc : Clash c.globals c.deft (fold p.name) p.d) : convParams c ps = .error .duplicateDefinition := by
  induction ps generalizing c with
  | nil => cases hp
  | cons p0 rest ih =>
    cases hps : convParams c (p0 :: rest) with
    | error e => rw [convParams_error c _ e hps]
    | ok r =>
      exfalso
      simp only [convParams] at hps
      split at hps; · cases hps
      next c1 h1 =>
      split at hps
      · cases hps
      next c2 ps2 h2 =>
      rcases List.mem_cons.1 hp with hp | hp
      · subst hp
        rw [convParam_clash_rejected c _ _ hin hc] at h1; cases h1
      · have m : Mono c c1 := by
          have := mono_convParams c c1 [p0] [(fold p0.name, paramQ c.deft p0)]
            (by simp only [convParams, h1]; cases p0 with | mk n d => cases d <;> rfl)
          exact this
        have hin1 : c1.inSub = true := by rw [m.inSub]; exact hin
        have := ih c1 hin1 hp (by rw [m.same hin, convParam_deft c c1 _ _ h1]; exact hc)
        rw [this] at h2; cases h2

/-! ## 3. statement lists, subprograms, scripts -/

theorem convStmts_append (c : Ctx) (l1 l2 : List Stmt) :
    convStmts c (l1 ++ l2) =
      match convStmts c l1 with
      | .error e => .error e
      | .ok (c1, r1) =>
        match convStmts c1 l2 with
        | .error e => .error e
        | .ok (c2, r2) => .ok (c2, r1 ++ r2) := by
  induction l1 generalizing c with
  | nil => simp only [List.nil_append, convStmts]; cases convStmts c l2 with
    | error e => rfl
    | ok p => rfl
  | cons s rest ih =>
    simp only [List.cons_append, convStmts]
    cases convStmt c s with
    | error e => rfl
    | ok p =>
      obtain ⟨c1, r1⟩ := p
      simp only [ih c1]
      cases convStmts c1 rest with
      | error e => rfl
      | ok p2 =>
        obtain ⟨c2, r2⟩ := p2
        simp only []
        cases convStmts c2 l2 with
        | error e => rfl
        | ok p3 => rfl

theorem convItems_append (c : Ctx) (l1 l2 : List Item) :
    convItems c (l1 ++ l2) =
      match convItems c l1 with
      | .error e => .error e
      | .ok (c1, r1) =>
        match convItems c1 l2 with
        | .error e => .error e
        | .ok (c2, r2) => .ok (c2, r1 ++ r2) := by
  induction l1 generalizing c with
  | nil => simp only [List.nil_append, convItems]; cases convItems c l2 with
    | error e => rfl
    | ok p => simp
  | cons s rest ih =>
    simp only [List.cons_append, convItems]
    cases convItem c s with
    | error e => rfl
    | ok p =>
      obtain ⟨c1, r1⟩ := p
      simp only [ih c1]
      cases convItems c1 rest with
      | error e => rfl
      | ok p2 =>
        obtain ⟨c2, r2⟩ := p2
        simp only []
        cases convItems c2 l2 with
        | error e => rfl
        | ok p3 => simp

/-- a body `b1 ; DIM n… ; b2` whose DIM clashes: if `b1` is accepted the body is `DuplicateDefinition` -/
theorem convStmts_clash_rejected (c c1 : Ctx) (b1 b2 : List Stmt) (rs : List RStmt) (n : Ident) (d : Decl)
    (hin : c.inSub = true) (hb : convStmts c b1 = .ok (c1, rs))
    (hc : Clash c.globals c1.deft (fold n) d) :
    convStmts c (b1 ++ .dim false n d :: b2) = .error .duplicateDefinition := by
  obtain ⟨m, _⟩ := convStmts_ok c c1 b1 rs hb
  have hin1 : c1.inSub = true := by rw [m.inSub]; exact hin
  rw [convStmts_append, hb]
  simp only [convStmts, convStmt_dim_clash_rejected c1 n d hin1 (by rw [m.same hin]; exact hc)]

/-- … and whatever `b1` does, the body is never accepted, when the clash does not depend on the DEFtype table (a
suffixed or `AS type` local DIM; any local DIM when the SHARED global is `AS type`) -/
theorem convStmts_clash_never_ok (c : Ctx) (b1 b2 : List Stmt) (n : Ident) (d : Decl) (hin : c.inSub = true)
    (hc : ∀ t, Clash c.globals t (fold n) d) (r : Ctx × List RStmt) :
    convStmts c (b1 ++ .dim false n d :: b2) ≠ .ok r := by
  cases hb : convStmts c b1 with
  | error e => rw [convStmts_append, hb]; intro h; cases h
  | ok p =>
    obtain ⟨c1, rs⟩ := p
    rw [convStmts_clash_rejected c c1 b1 b2 rs n d hin hb (hc _)]; intro h; cases h

/-- the scope, parameters and body of a procedure item, as `convItem` enters it in context `c` -/
def procParts (c : Ctx) : Item → Option (Scope × List Param × List Stmt)
  | .sub name ps body => some (.sub (fold name), ps, body)
  | .func n ps body => some (.func (fold n.name) (n.sfx.getD (defaultQ c.deft (fold n.name))), ps, body)
  | _ => none

theorem procParts_scope (c : Ctx) (it : Item) (sc : Scope) (ps : List Param) (body : List Stmt)
    (h : procParts c it = some (sc, ps, body)) : sc ≠ Scope.global := by
  cases it <;> simp [procParts] at h <;> (rw [← h.1]; simp)

theorem convItem_proc (c : Ctx) (it : Item) (sc : Scope) (ps : List Param) (body : List Stmt)
    (h : procParts c it = some (sc, ps, body)) :
    (∀ e, convSubprogram c sc ps body = .error e → convItem c it = .error e) ∧
    (∀ r, convItem c it = .ok r → ∃ r', convSubprogram c sc ps body = .ok r') := by
  cases it with
  | defType q rs => simp [procParts] at h
  | stmt s => simp [procParts] at h
  | sub name ps0 body0 =>
    simp only [procParts, Option.some.injEq, Prod.mk.injEq] at h
    obtain ⟨h1, h2, h3⟩ := h; subst h1; subst h2; subst h3
    constructor
    · intro e he; simp only [convItem, he]
    · intro r hr; simp only [convItem] at hr
      split at hr
      · cases hr
      · next heq => exact ⟨_, heq⟩
  | func n ps0 body0 =>
    simp only [procParts, Option.some.injEq, Prod.mk.injEq] at h
    obtain ⟨h1, h2, h3⟩ := h; subst h1; subst h2; subst h3
    constructor
    · intro e he; simp only [convItem, he]
    · intro r hr; simp only [convItem] at hr
      split at hr
      · cases hr
      · next heq => exact ⟨_, heq⟩

theorem lint_of_conv_error (s : Script) (p : Pre) (e : LintErr) (hpre : preItems pre0 s = .ok p)
    (hc : convItems (initCtx p) s = .error e) : lint s = .error e := by
  unfold pre0 at hpre
  unfold initCtx at hc
  unfold lint
  rw [hpre]
  simp only [hc]

theorem lint_ok_conv (s : Script) (r : List RItem × Table) (h : lint s = .ok r) :
    ∃ p cEnd items, preItems pre0 s = .ok p ∧ convItems (initCtx p) s = .ok (cEnd, items) := by
  unfold lint at h
  split at h; · cases h
  next p hp =>
  simp only [] at h
  split at h; · cases h
  next cEnd items hc =>
  exact ⟨p, cEnd, items, hp, hc⟩

/-- **lint_rejects_shadowing.**  A script `pre ++ proc :: post` where
* the pre-linter accepts the script and the converter accepts the global items `pre`, leaving the context `c1`;
* the global table of `c1` holds a SHARED variable in sight under `k<q>` (`SharedName`: the SHARED compact `(k, q)`
  or a SHARED `k AS T`), `k = fold n`;
* `proc` is a SUB or FUNCTION whose parameters are accepted and whose body is `b1 ; DIM n… ; b2` with `b1` accepted;
* the DIM declares `n<q>`, or bare `n` with DEFtype default `q`, or `n AS T'`
is rejected with `DuplicateDefinition`. -/
theorem lint_rejects_shadowing (pre post : List Item) (proc : Item) (p : Pre) (c1 c2 c3 : Ctx) (r1 : List RItem)
    (sc : Scope) (ps : List Param) (pq : List (Key × Q)) (b1 b2 : List Stmt) (rs : List RStmt)
    (n : Ident) (d : Decl)
    (hpre : preItems pre0 (pre ++ proc :: post) = .ok p)
    (hconv : convItems (initCtx p) pre = .ok (c1, r1))
    (hproc : procParts c1 proc = some (sc, ps, b1 ++ .dim false n d :: b2))
    (hparams : convParams (enter c1 sc) ps = .ok (c2, pq))
    (hbody : convStmts c2 b1 = .ok (c3, rs))
    (hclash : Clash c1.globals c3.deft (fold n) d) :
    lint (pre ++ proc :: post) = .error .duplicateDefinition := by
  apply lint_of_conv_error _ p _ hpre
  rw [convItems_append, hconv]
  simp only [convItems]
  have hsc := procParts_scope c1 proc sc ps _ hproc
  have hin1 : (enter c1 sc).inSub = true := enter_inSub c1 sc hsc
  have mp := mono_convParams _ c2 ps pq hparams
  have hin2 : c2.inSub = true := by rw [mp.inSub]; exact hin1
  have hg2 : c2.globals = c1.globals := mp.same hin1
  have hsub : convSubprogram c1 sc ps (b1 ++ .dim false n d :: b2) = .error .duplicateDefinition := by
    have hp' : convParams { c1 with scope := sc, locals := [] } ps = .ok (c2, pq) := hparams
    simp only [convSubprogram, hp',
      convStmts_clash_rejected c2 c3 b1 b2 rs n d hin2 hbody (by rw [hg2]; exact hclash)]
  rw [(convItem_proc c1 proc sc ps _ hproc).1 _ hsub]

theorem convItems_append_ok (c c' : Ctx) (l1 l2 : List Item) (r : List RItem)
    (h : convItems c (l1 ++ l2) = .ok (c', r)) :
    ∃ c1 r1 r2, convItems c l1 = .ok (c1, r1) ∧ convItems c1 l2 = .ok (c', r2) := by
  rw [convItems_append] at h
  cases h1 : convItems c l1 with
  | error e => rw [h1] at h; cases h
  | ok p1 =>
    obtain ⟨c1, r1⟩ := p1
    rw [h1] at h; simp only [] at h
    cases h2 : convItems c1 l2 with
    | error e => rw [h2] at h; cases h
    | ok p2 =>
      obtain ⟨c2, r2⟩ := p2
      rw [h2] at h; simp only [] at h
      injection h with h; injection h with h _; subst h
      exact ⟨c1, r1, r2, rfl, h2⟩

theorem convItems_cons_ok (c c' : Ctx) (it : Item) (l : List Item) (r : List RItem)
    (h : convItems c (it :: l) = .ok (c', r)) :
    ∃ c1 r1 r2, convItem c it = .ok (c1, r1) ∧ convItems c1 l = .ok (c', r2) := by
  simp only [convItems] at h
  cases h1 : convItem c it with
  | error e => rw [h1] at h; cases h
  | ok p1 =>
    obtain ⟨c1, r1⟩ := p1
    rw [h1] at h; simp only [] at h
    cases h2 : convItems c1 l with
    | error e => rw [h2] at h; cases h
    | ok p2 =>
      obtain ⟨c2, r2⟩ := p2
      rw [h2] at h; simp only [] at h
      injection h with h; injection h with h _; subst h
      exact ⟨c1, r1, r2, rfl, h2⟩

/-- an accepted `DIM SHARED n<q>` / `DIM SHARED n AS T` in the main module leaves the name SHARED in the global table -/
theorem dimShared_ok (ca cb : Ctx) (n : Ident) (dg : Decl) (rb : List RItem) (hsa : ca.scope = Scope.global)
    (hb : convItem ca (.stmt (.dim true n dg)) = .ok (cb, rb)) :
    (∀ q, dg = .compact q → SharedName cb.globals (fold n) q) ∧
    (∀ T, dg = .extended T → ∀ q, SharedName cb.globals (fold n) q) := by
  have hina : ca.inSub = false := by simp [Ctx.inSub, hsa]
  simp only [convItem, convStmt] at hb
  cases hd : convDim ca true (fold n) dg with
  | error e => rw [hd] at hb; simp [Except.map] at hb
  | ok cb' =>
    rw [hd] at hb; simp only [Except.map] at hb
    injection hb with hb; injection hb with hb _; subst hb
    unfold convDim at hd
    split at hd; · cases hd
    split at hd; · cases hd
    split at hd; · cases hd
    split at hd; · cases hd
    constructor
    · intro q hq; subst hq
      simp only [declare] at hd
      split at hd
      · injection hd with hd
        have : cb'.globals = ca.cur.insertCompact (fold n) q true := by
          rw [← hd]; unfold Ctx.setCur; simp [hina]
        have hv := vin_insertCompact_self ca.cur (fold n) q true
        rw [← this] at hv
        exact (sharedName_iff_vin _ _ _).2 ⟨q, hv⟩
      · cases hd
    · intro T hT q; subst hT
      simp only [declare] at hd
      split at hd
      · injection hd with hd
        have : cb'.globals = ca.cur.insertExtended (fold n) T true := by
          rw [← hd]; unfold Ctx.setCur; simp [hina]
        exact Or.inr ⟨T, by rw [this]; simp [Table.insertExtended, Table.getExtended]⟩
      · cases hd

/-- the SHARED declaration `dg` and the local declaration `dl` of one name clash whatever the DEFtype table says:
`n<q>` vs `n<q>`, `n<q>` vs `n AS T'`, `n AS T` vs anything.  (Bare `DIM SHARED n` / bare local `DIM n` against a
suffixed partner clash iff the DEFtype default at that point is the partner's qualifier: context-level theorems.) -/
def synClash : Decl → Decl → Bool
  | .compact q, .compact q' => decide (q' = q)
  | .compact _, .extended _ => true
  | .extended _, _ => true
  | _, _ => false

/-- an accepted script with `DIM SHARED n…` in the main module before the item `proc`: the converter reaches `proc`
in a main-module context whose global table still holds the SHARED name -/
theorem shared_at_proc (g1 g2 post : List Item) (proc : Item) (n : Ident) (dg : Decl) (r : List RItem × Table)
    (h : lint (g1 ++ (.stmt (.dim true n dg) :: (g2 ++ (proc :: post)))) = .ok r) :
    ∃ cc r', cc.scope = Scope.global ∧ convItem cc proc = .ok r' ∧
      (∀ q, dg = .compact q → SharedName cc.globals (fold n) q) ∧
      (∀ T, dg = .extended T → ∀ q, SharedName cc.globals (fold n) q) := by
  obtain ⟨p, cEnd, items, _, hc⟩ := lint_ok_conv _ r h
  obtain ⟨ca, ra, r2, ha, hc⟩ := convItems_append_ok _ _ _ _ _ hc
  obtain ⟨hsa, _, _⟩ := convItems_ok (initCtx p) ca g1 ra rfl ha
  obtain ⟨cb, rb, r3, hb, hc⟩ := convItems_cons_ok _ _ _ _ _ hc
  obtain ⟨hsb, _, _⟩ := convItem_ok ca cb _ rb hsa hb
  obtain ⟨hsh1, hsh2⟩ := dimShared_ok ca cb n dg rb hsa hb
  obtain ⟨cc, rc, r4, hcc, hc⟩ := convItems_append_ok _ _ _ _ _ hc
  obtain ⟨hsc', hmono, _⟩ := convItems_ok cb cc g2 rc hsb hcc
  obtain ⟨cd, rd, r5, hproc, _⟩ := convItems_cons_ok _ _ _ _ _ hc
  have hmv : ∀ q, SharedName cb.globals (fold n) q → SharedName cc.globals (fold n) q := fun q hq => by
    obtain ⟨x, hx⟩ := (sharedName_iff_vin _ _ _).1 hq
    exact (sharedName_iff_vin _ _ _).2 ⟨x, hmono _ _ _ hx⟩
  exact ⟨cc, _, hsc', hproc, fun q hq => hmv q (hsh1 q hq), fun T hT q => hmv q (hsh2 T hT q)⟩

theorem clash_of_synClash (g : Table) (k : Key) (dg dl : Decl) (hs : synClash dg dl = true)
    (h1 : ∀ q, dg = .compact q → SharedName g k q) (h2 : ∀ T, dg = .extended T → ∀ q, SharedName g k q)
    (t : DefTable) : Clash g t k dl := by
  cases dg with
  | bare => cases dl <;> simp [synClash] at hs
  | compact q =>
    cases dl with
    | bare => simp [synClash] at hs
    | compact q' => simp [synClash] at hs; subst hs; exact h1 _ rfl
    | extended T' => exact ⟨q, h1 q rfl⟩
  | extended T =>
    cases dl with
    | bare => exact h2 T rfl _
    | compact q' => exact h2 T rfl q'
    | extended T' => exact ⟨T, h2 T rfl T⟩

/-- **lint_never_accepts_shadowing** (no acceptance hypotheses).  Whatever else the script contains: a main module
with `DIM SHARED n<q>` (or `DIM SHARED n AS T`) somewhere before a SUB / FUNCTION one of whose body statements is a
local `DIM n'…` that clashes with it (`synClash`: the same suffix, or one of the two is `AS type`), `n'` a
re-spelling of `n`, is never accepted. -/
theorem lint_never_accepts_shadowing (g1 g2 post : List Item) (proc : Item) (n n' : Ident) (dg dl : Decl)
    (hn : fold n' = fold n)
    (hshape : ∀ c, ∃ sc ps b1 b2, procParts c proc = some (sc, ps, b1 ++ .dim false n' dl :: b2))
    (hd : synClash dg dl = true) (r : List RItem × Table) :
    lint (g1 ++ (.stmt (.dim true n dg) :: (g2 ++ (proc :: post)))) ≠ .ok r := by
  intro h
  obtain ⟨cc, r', _, hproc, hsh1, hsh2⟩ := shared_at_proc g1 g2 post proc n dg r h
  have hcl : ∀ t, Clash cc.globals t (fold n') dl := by
    rw [hn]; exact clash_of_synClash cc.globals (fold n) dg dl hd hsh1 hsh2
  obtain ⟨sc, ps, b1, b2, hparts⟩ := hshape cc
  obtain ⟨r'', hsub⟩ := (convItem_proc cc proc sc ps _ hparts).2 _ hproc
  have hscg := procParts_scope cc proc sc ps _ hparts
  unfold convSubprogram at hsub
  simp only [] at hsub
  cases hps : convParams { cc with scope := sc, locals := [] } ps with
  | error e => rw [hps] at hsub; cases hsub
  | ok pp =>
    obtain ⟨c2, pq⟩ := pp
    rw [hps] at hsub; simp only [] at hsub
    have hin1 : (enter cc sc).inSub = true := enter_inSub cc sc hscg
    have mp := mono_convParams (enter cc sc) c2 ps pq hps
    have hin2 : c2.inSub = true := by rw [mp.inSub]; exact hin1
    have hg2 : c2.globals = cc.globals := mp.same hin1
    cases hbody : convStmts c2 (b1 ++ .dim false n' dl :: b2) with
    | error e => rw [hbody] at hsub; cases hsub
    | ok pb =>
      exact convStmts_clash_never_ok c2 b1 b2 n' dl hin2 (by rw [hg2]; exact hcl) _ hbody

/-- **lint_never_accepts_shadowing_param.**  The same for a parameter: `DIM SHARED n…` before a SUB / FUNCTION with a
clashing parameter `n'…` anywhere in its parameter list is never accepted (the error is `DuplicateDefinition` as soon
as the converter reaches the procedure: `convParams_clash_rejected`). -/
theorem lint_never_accepts_shadowing_param (g1 g2 post : List Item) (proc : Item) (n n' : Ident) (dg dl : Decl)
    (hn : fold n' = fold n)
    (hshape : ∀ c, ∃ sc ps body, procParts c proc = some (sc, ps, body) ∧ (⟨n', dl⟩ : Param) ∈ ps)
    (hd : synClash dg dl = true) (r : List RItem × Table) :
    lint (g1 ++ (.stmt (.dim true n dg) :: (g2 ++ (proc :: post)))) ≠ .ok r := by
  intro h
  obtain ⟨cc, r', _, hproc, hsh1, hsh2⟩ := shared_at_proc g1 g2 post proc n dg r h
  have hcl : ∀ t, Clash cc.globals t (fold n') dl := by
    rw [hn]; exact clash_of_synClash cc.globals (fold n) dg dl hd hsh1 hsh2
  obtain ⟨sc, ps, body, hparts, hmem⟩ := hshape cc
  obtain ⟨r'', hsub⟩ := (convItem_proc cc proc sc ps _ hparts).2 _ hproc
  have hscg := procParts_scope cc proc sc ps _ hparts
  have hin1 : (enter cc sc).inSub = true := enter_inSub cc sc hscg
  have hrej := convParams_clash_rejected (enter cc sc) ps ⟨n', dl⟩ hin1 hmem (hcl _)
  unfold convSubprogram at hsub
  simp only [] at hsub
  have hrej' : convParams { cc with scope := sc, locals := [] } ps = .error .duplicateDefinition := hrej
  rw [hrej'] at hsub
  cases hsub

/-! ## 4. the positive side: the reference denotes the SHARED global -/

/-- **shared_compact_visible_in_sub.**  In a context inside a subprogram that satisfies the table invariant (every
reachable context does: `tinv_of_reachable`), with the SHARED compact `(k, q)` in the global table and `k` not a SUB
name: the reference `k<q>` — and bare `k` when the DEFtype default of `k` is `q` — resolves to the variable `(k, q)`
of the *global* frame, in both expression and assignment position, and defines nothing. -/
theorem shared_compact_visible_in_sub (c : Ctx) (ht : TInv c) (k : Key) (q : Q) (m : Mode) (hin : c.inSub = true)
    (hsub : c.hasSub k = false) (hg : c.globals.getCompact k q = some true) :
    resolveVar c k (some q) m = .ok (c, .var k q Scope.global) ∧
    (defaultQ c.deft k = q → resolveVar c k none m = .ok (c, .var k q Scope.global)) := by
  obtain ⟨hlc, hle⟩ := ht.sharedCompact hin k q hg
  have hcur : c.cur = c.locals := cur_of_sub c hin
  have hge : c.globals.getExtended k = none := by
    rcases ext_compact_excl c.globals k q with h | h
    · exact h
    · rw [hg] at h; cases h
  have hext : c.getExtendedRec k = none := by simp [Ctx.getExtendedRec, hcur, hle, hge, hin]
  have hcomp : c.getCompactRec k q = some Scope.global := by simp [Ctx.getCompactRec, hcur, hlc, hg, hin]
  constructor
  · simp [resolveVar, hsub, hext, hcomp]
  · intro hq; simp [resolveVar, hsub, hext, hq, hcomp]

/-- the same at any point a script reaches -/
theorem shared_compact_visible_reachable (s : Script) (c : Ctx) (hr : Reachable s c) (k : Key) (q : Q) (m : Mode)
    (hin : c.inSub = true) (hsub : c.hasSub k = false) (hg : c.globals.getCompact k q = some true) :
    resolveVar c k (some q) m = .ok (c, .var k q Scope.global) :=
  (shared_compact_visible_in_sub c (tinv_of_reachable s c hr) k q m hin hsub hg).1

/-- a SHARED `k AS T`: bare `k` and `k<T>` denote the global -/
theorem shared_extended_visible_in_sub (c : Ctx) (ht : TInv c) (k : Key) (T : Q) (m : Mode) (hin : c.inSub = true)
    (hsub : c.hasSub k = false) (hg : c.globals.getExtended k = some (T, true)) :
    resolveVar c k none m = .ok (c, .var k T Scope.global) ∧
    resolveVar c k (some T) m = .ok (c, .var k T Scope.global) := by
  have hl := ht.sharedExt hin k T hg
  have hcur : c.cur = c.locals := cur_of_sub c hin
  have hle : c.locals.getExtended k = none := by simp [Table.getExtended, hl]
  have hext : c.getExtendedRec k = some (T, Scope.global) := by
    simp [Ctx.getExtendedRec, hcur, hle, hg, hin]
  constructor <;> simp [resolveVar, hsub, hext, sfxOk]

/-- corollary of `local_unless_param_const_shared` in the terms used here: whenever a reference inside a subprogram
resolves to a variable of the global frame, that variable is a SHARED one in sight under the resolved qualifier -/
theorem global_home_is_shared (c c' : Ctx) (k k' : Key) (sfx : Option Q) (m : Mode) (q : Q)
    (hin : c.inSub = true) (h : resolveVar c k sfx m = .ok (c', .var k' q Scope.global)) :
    k' = k ∧ SharedName c.globals k q := by
  obtain ⟨hk, hh⟩ := local_unless_param_const_shared c c' k k' sfx m q Scope.global h
  refine ⟨hk, ?_⟩
  rcases hh with hh | ⟨_, hh | hh⟩
  · have : c.inSub = false := by simp [Ctx.inSub, ← hh]
    rw [this] at hin; cases hin
  · exact Or.inr ⟨q, hh⟩
  · exact Or.inl hh

/-! ## non-vacuity and the family the harness runs -/

/-- `DIM SHARED Abc<q> : Abc<q> = 1 : <call> : PRINT Abc<q> : SUB|FUNCTION … DIM Abc<q> : Abc<q> = 2 : END` -/
def abc : Ident := [65, 98, 99]
def famScript (q : Q) (fn : Bool) : Script :=
  [.stmt (.dim true abc (.compact q)),
   .stmt (.assign ⟨abc, some q⟩ (q == Q.str) 1),
   (if fn then .stmt (.printCall ⟨[70], some .int⟩ [false]) else .stmt (.callSub [83] [])),
   .stmt (.print ⟨abc, some q⟩),
   (if fn then .func ⟨[70], some .int⟩ [⟨[88], .compact .int⟩]
      [.dim false abc (.compact q), .assign ⟨abc, some q⟩ (q == Q.str) 2]
    else .sub [83] [] [.dim false abc (.compact q), .assign ⟨abc, some q⟩ (q == Q.str) 2])]

theorem lint_of_runScript_rejected (s : Script) (e : LintErr) (h : runScript s = .rejected e) : lint s = .error e := by
  unfold runScript at h
  split at h
  · injection h with h; subst h; assumption
  · cases h

/-- the finite table: the ten scripts of the family are rejected with `DuplicateDefinition` (evaluation of the
model on ten closed terms, not an instance of the general theorem) -/
theorem lint_rejects_shadowing_family :
    ∀ q ∈ [Q.int, Q.lng, Q.sng, Q.dbl, Q.str], ∀ fn ∈ [false, true],
      runScript (famScript q fn) = .rejected .duplicateDefinition := by decide +kernel

theorem lint_rejects_shadowing_family' (q : Q) (fn : Bool) : lint (famScript q fn) = .error .duplicateDefinition := by
  apply lint_of_runScript_rejected
  exact lint_rejects_shadowing_family q (by cases q <;> simp) fn (by cases fn <;> simp)

/-- … and without the local DIM the same scripts are accepted and the procedure's assignment goes to the global -/
def famScriptNoDim (q : Q) : Script :=
  [.stmt (.dim true abc (.compact q)), .stmt (.callSub [83] []), .stmt (.print ⟨abc, some q⟩),
   .sub [83] [] [.assign ⟨abc, some q⟩ (q == Q.str) 2]]

theorem noDim_family_writes_global :
    ∀ q ∈ [Q.int, Q.lng, Q.sng, Q.dbl, Q.str],
      runScript (famScriptNoDim q) =
        .accepted [.var (fold abc) q .global, .var (fold abc) q .global] (some [⟨.tag 2, q⟩]) true := by
  decide +kernel

/-- the context in front of the local `DIM Abc%` of `famScript .int false` -/
def cFam : Ctx :=
  { deft := DefTable.init, funcs := [], subs := [([83], [])],
    globals := [(fold abc, .compacts [(.int, true)])], locals := [], scope := .sub [83] }

/-- non-vacuity of 1, 2 and 4: `cFam` is inside a subprogram, holds the SHARED compact, and is reachable -/
example : cFam.inSub = true ∧ cFam.globals.getCompact (fold abc) .int = some true ∧
    convDim cFam false (fold abc) (.compact .int) = .error .duplicateDefinition ∧
    convParam cFam (fold abc) (.compact .int) = .error .duplicateDefinition ∧
    resolveVar cFam (fold abc) (some .int) .assignment = .ok (cFam, .var (fold abc) .int .global) := by decide

/-- non-vacuity of 3: `famScript .int false` is an instance of `lint_rejects_shadowing` (the general theorem, not the
table, gives the verdict) -/
example : lint (famScript .int false) = .error .duplicateDefinition :=
  lint_rejects_shadowing
    [.stmt (.dim true abc (.compact .int)), .stmt (.assign ⟨abc, some .int⟩ false 1), .stmt (.callSub [83] []),
     .stmt (.print ⟨abc, some .int⟩)] [] _ _ _ _ _ _ (.sub [83]) [] [] [] _ _ abc (.compact .int)
    rfl rfl rfl rfl rfl (Or.inl rfl)

/-- … and of `lint_never_accepts_shadowing` (with a re-spelled name, `abc` vs `ABC`) -/
example : ∀ r, lint ([] ++ (.stmt (.dim true abc (.compact .int)) :: ([.stmt (.callSub [83] [])] ++
    (Item.sub [83] [] [.dim false [65, 66, 67] (.compact .int)] :: [])))) ≠ .ok r :=
  fun r => lint_never_accepts_shadowing [] _ [] _ abc [65, 66, 67] _ _ (by decide)
    (fun _ => ⟨_, _, [], [], rfl⟩) rfl r

/-- … and of `lint_never_accepts_shadowing_param`: `DIM SHARED A AS INTEGER : SUB S (X%, A$) : END SUB` -/
example : ∀ r, lint ([] ++ (.stmt (.dim true [65] (.extended .int)) :: ([] ++
    (Item.sub [83] [⟨[88], .compact .int⟩, ⟨[65], .compact .str⟩] [] :: [])))) ≠ .ok r :=
  fun r => lint_never_accepts_shadowing_param [] _ [] _ [65] [65] _ (.compact .str) rfl
    (fun _ => ⟨_, _, _, rfl, by simp⟩) rfl r

end RbThm.C13Shadow
