import Thm.C15
/-!
C15, interprocedural part — composition of the intra-activation theorem over call depth.

`Thm/C15.lean` proves the certificate checker sound for ONE activation: `Reach code r h0 pc h` steps
*over* procedure calls (`PushRet(pc+1); Jump entry`) and over `GoSub`, assuming the callee hands the
five stacks back as it found them.  This file discharges that assumption: it defines a global machine
with an explicit stack of suspended frames, and proves by induction on global runs that every state is
an intra-activation state of its current activation, that every suspended frame is an
intra-activation state of its activation at the call site, and that a callee is entered with exactly
the caller's depths.  Hence a return finds the five stacks as the caller left them.

## The global machine (`GState`, `GStep`)

A state has the pc, the absolute depths `h : H` of the five VM stacks (value, register,
context-state, var-path, by-ref; the return-address stacks are *not* among them) and a list of
suspended frames, innermost first.  The real VM (`Interpreter::interpret_one`,
`rusty_basic/src/interpreter/main.rs`) has two separate address stacks:

* `return_address_stack`: `PushRet(a)` pushes `a`; `PopRet` pops the top and jumps there;
  `Jump` only sets the pc (a call is the *pair* `PushRet(p+2)` at `p`, `Jump entry` at `p+1`);
* `go_sub_address_stack`: `GoSub(t)` at `i` pushes `i` and jumps to `t`; `Return(None)` pops `i` and
  continues at `i+1`; `Return(Some(l))` pops `i` and jumps to `l`; an empty stack is the runtime
  error `ReturnWithoutGoSub`.

The model keeps ONE list of frames tagged `call` / `gosub` (the two real stacks are its two
projections, `retStack` / `gosubStack`; the list also remembers their relative order, which the VM
does not store).  Each frame holds the address the VM stores (`a` resp. `i`; `Frame.retPc` is where
it resumes, `a` resp. `i+1`) and ghost fields used only to state the invariant: the root and entry depths of the suspended activation and
its depths at the call site.  The current activation's root / entry depths and a flag `pending`
("a `PushRet` has been executed, its `Jump` not yet") are ghost fields of the state.

Steps, one VM instruction each:

* `plain`   — any instruction that is not `PushRet`/`PopRet`/`GoSub`/`Return`/call-`Jump`: applies `eff`,
              moves to a static successor (`succs`), frames untouched;
* `pushRet` — `PushRet(a)` at `p`: pushes a `call` frame with return pc `a`, goes to `p+1`.  Only for a
              well-formed call pair (`a = p+2` and a `Jump (addr _)` at `p+1`);
* `call`    — `Jump (addr t)` at a pc with `isCall`: continues at `t`, which starts a new activation whose
              entry depths are the current depths;
* `popRet`  — pops the innermost frame, which must be a `call` frame, continues at its return pc;
* `goSub`   — `GoSub (addr t)` at `i`: pushes a `gosub` frame with return pc `i+1`, new activation at `t`;
* `retNone` — `Return(None)`: pops the innermost frame, which must be a `gosub` frame, continues at `i+1`;
* `retLabel`— `Return(Some(addr a))`: pops the innermost frame (a `gosub` frame) and continues at `a` in a
              NEW activation with root `a` (a root of the checker) whose entry depths are the current
              depths.  Only when the GOSUB was issued at the entry depths of its own activation
              (`f.hcall = f.h0`, i.e. certificate zero at the GOSUB): then the new activation has the
              same entry depths as the one it replaces and the frames below stay consistent.

## Where the modelled run ENDS (no `GStep`; the theorems say nothing beyond that point)

Every theorem below is about states reachable by `GStep` from `GState.init`, i.e. about the prefix of a
VM run up to the first of these events.  `progress_or_blocked` proves the list complete as far as the
model can see: a reachable state either has a `GStep` or is `Blocked` by `Halt`/`Throw`/`Resume*` or by
2, 3 or 4 (a run-time failure of an otherwise plain instruction depends on values, which the model does
not have: there the model has a step that the real run does not take).

1. `Halt` (end of the run), `Throw`, and any instruction that fails at run time.  Error edges are not
   modelled: the transfer to an `ON ERROR GOTO` handler (`interpret`: `abandon_failed_call`,
   `push_error_handler_context`, `i = handler_address`) changes the context-state stack and keeps both
   address stacks, so a handler does not start a fresh activation at the current depths.
   `OnErrorGoTo`/`OnErrorResumeNext`/`OnErrorGoToZero` themselves are plain instructions (they only
   set the handler).  `Resume`, `ResumeNext`, `ResumeLabel` occur only inside handlers, which are never
   entered in the model: they end the run (they have no static successor).
2. Mismatched exits.  `PopRet` while the innermost pending frame is a `gosub` frame (`EXIT SUB` or the
   end of a procedure reached inside a GOSUB subroutine of that procedure), and `Return` while the
   innermost pending frame is a `call` frame or there is none.  The real VM does continue in the
   first case, and in the second one whenever some caller has a GOSUB pending, because its two address
   stacks are independent: it pops the procedure's return address and leaves the GOSUB address behind
   (resp. pops a GOSUB address of a caller; with no GOSUB pending at all it raises
   `ReturnWithoutGoSub`).  Balance does NOT
   follow from the checker there: the GOSUB subroutine is certified relative to its own root, so
   `PopRet` inside it is "balanced" relative to the depths at the `GOSUB`, not relative to the
   procedure entry.  (E.g. `SUB S: FOR I = 1 TO 2: GOSUB x: NEXT: EXIT SUB: x: EXIT SUB: END SUB` is
   accepted by the checker and leaves a register frame: on the real interpreter a caller's
   `FOR J = 1 TO 3: S: NEXT` then stops after two passes.)
3. `Return(Some(label))` when the GOSUB was not issued at its activation's entry depths: the VM jumps
   to the label with whatever the caller had pushed still on the stacks (a non-local jump out of e.g.
   a FOR body); the checker certifies the label as a root at relative depth zero, so nothing relates the
   depths there to the enclosing frames.
4. A `PushRet` that is not the first half of a call pair (the checker does not look for those; the
   generator emits `PushRet` only in `calls.rs`, always followed by `Jump`).

What is proved about the call protocol rather than assumed: a call `Jump` is only ever executed
directly after its own `PushRet` (`call_return_address_on_top`, from `targetsResolved`: every branch
target is a `Label`, every return pc follows a `Jump`/`GoSub`), so the address on top of
`return_address_stack` at the `Jump` is the one that `PushRet` pushed.  `step_stacks` shows that every
model step changes `retStack` / `gosubStack` exactly as the VM instruction changes its two stacks.

Hypotheses of the theorems: `checkCert code cert`, `branchesLocal code` (the `Jump` of a call goes to a
procedure entry, which is a root) and `targetsResolved code` — three of the conjuncts of `wfCheck`.
Unchanged from `Thm/C15.lean`: the effect table `eff` is trusted (compared with the real VM
dynamically), built-ins are assumed to leave the five stacks alone.
-/
namespace RbThm.C15
open RbModel RbModel.Wf

/-! ### arithmetic on depth vectors -/

/-- `n * b`, componentwise -/
def H.scale (n : Nat) (b : H) : H := ⟨n * b.value, n * b.reg, n * b.ctx, n * b.path, n * b.byref⟩

theorem H.scale_succ (n : Nat) (b : H) : H.scale (n + 1) b = H.add (H.scale n b) b := by
  simp [H.scale, H.add, Nat.add_mul]

theorem H.le_add_add {a x r b : H} (h1 : H.le a x = true) (h2 : H.le r b = true) :
    H.le (H.add a r) (H.add x b) = true := by
  rw [H.le_iff] at *
  simp only [H.add]
  omega

theorem H.le_scale_succ {a b : H} {n : Nat} (h : H.le a (H.scale n b) = true) :
    H.le a (H.scale (n + 1) b) = true := by
  rw [H.scale_succ]
  rw [H.le_iff] at *
  simp only [H.add]
  omega

theorem H.le_zero_scale (b : H) : H.le H.zero (H.scale 0 b) = true := by
  simp [H.le, H.zero, H.scale]

theorem apply_zero (h : H) : apply h (H.zero, H.zero) = some h := by
  cases h
  simp [apply, H.le, H.add, H.sub, H.zero]

/-! ### the global machine -/

inductive Kind where
  | call | gosub
  deriving DecidableEq, Repr

/-- a suspended activation.  `addr` is what the VM stores (`PushRet`'s operand on
`return_address_stack`, resp. the `GoSub`'s own address on `go_sub_address_stack`); the other fields
are ghost. -/
structure Frame where
  kind : Kind
  addr : Nat
  /-- root of the suspended activation (ghost) -/
  root : Nat
  /-- entry depths of the suspended activation (ghost) -/
  h0 : H
  /-- depths of the suspended activation at the call site (ghost) -/
  hcall : H

/-- where the suspended activation continues: `PopRet` jumps to the stored address, `Return` to the
stored address + 1 -/
def Frame.retPc (f : Frame) : Nat :=
  match f.kind with
  | .call => f.addr
  | .gosub => f.addr + 1

structure GState where
  pc : Nat
  /-- absolute depths of the five stacks -/
  h : H
  /-- suspended frames, innermost first -/
  frames : List Frame
  /-- root of the current activation (ghost) -/
  root : Nat
  /-- entry depths of the current activation (ghost) -/
  h0 : H
  /-- a `PushRet` has been executed and its `Jump` has not (ghost) -/
  pending : Bool

def GState.init : GState := ⟨0, H.zero, [], 0, H.zero, false⟩

/-- the VM's `return_address_stack` (top first) -/
def retStack (fs : List Frame) : List Nat := (fs.filter (·.kind == .call)).map (·.addr)

/-- the VM's `go_sub_address_stack` (top first): the VM stores the address of the `GoSub` itself -/
def gosubStack (fs : List Frame) : List Nat := (fs.filter (·.kind == .gosub)).map (·.addr)

/-- instructions that touch the frame stack -/
def isFrameOp (code : Code) (pc : Nat) : Instr → Bool
  | .pushRet _ => true
  | .popRet => true
  | .goSub _ => true
  | .ret _ => true
  | .jump _ => isCall code pc
  | _ => false

inductive GStep (code : Code) : GState → GState → Prop
  | plain {s : GState} {i : Instr} {pc' : Nat} {h' : H} :
      instrAt code s.pc = some i → isFrameOp code s.pc i = false →
      apply s.h (eff i) = some h' → pc' ∈ succs code s.pc i →
      GStep code s ⟨pc', h', s.frames, s.root, s.h0, s.pending⟩
  | pushRet {s : GState} {a t : Nat} :
      instrAt code s.pc = some (.pushRet a) → instrAt code (s.pc + 1) = some (.jump (.addr t)) →
      a = s.pc + 2 →
      GStep code s ⟨s.pc + 1, s.h, ⟨.call, a, s.root, s.h0, s.h⟩ :: s.frames, s.root, s.h0, true⟩
  | call {s : GState} {t : Nat} :
      instrAt code s.pc = some (.jump (.addr t)) → isCall code s.pc = true →
      GStep code s ⟨t, s.h, s.frames, t, s.h, false⟩
  | popRet {s : GState} {f : Frame} {fs : List Frame} :
      instrAt code s.pc = some .popRet → s.frames = f :: fs → f.kind = .call →
      GStep code s ⟨f.retPc, s.h, fs, f.root, f.h0, false⟩
  | goSub {s : GState} {t : Nat} :
      instrAt code s.pc = some (.goSub (.addr t)) →
      GStep code s ⟨t, s.h, ⟨.gosub, s.pc, s.root, s.h0, s.h⟩ :: s.frames, t, s.h, false⟩
  | retNone {s : GState} {f : Frame} {fs : List Frame} :
      instrAt code s.pc = some (.ret none) → s.frames = f :: fs → f.kind = .gosub →
      GStep code s ⟨f.retPc, s.h, fs, f.root, f.h0, false⟩
  | retLabel {s : GState} {f : Frame} {fs : List Frame} {a : Nat} :
      instrAt code s.pc = some (.ret (some (.addr a))) → s.frames = f :: fs → f.kind = .gosub →
      f.hcall = f.h0 →
      GStep code s ⟨a, s.h, fs, a, s.h, false⟩

/-- states reachable by global runs from the initial state (pc 0, all depths zero, no frames) -/
inductive GReach (code : Code) : GState → Prop
  | init : GReach code GState.init
  | step {s s' : GState} : GReach code s → GStep code s s' → GReach code s'

/-! ### each model step acts on the two address stacks as the VM instruction does -/

theorem step_stacks {code : Code} {s s' : GState} (hs : GStep code s s') :
    -- `PushRet(a)`: push `a` on the return-address stack
    (∀ a, instrAt code s.pc = some (.pushRet a) →
      retStack s'.frames = a :: retStack s.frames ∧ gosubStack s'.frames = gosubStack s.frames ∧ s'.pc = s.pc + 1) ∧
    -- `PopRet`: pop the return-address stack, continue there
    (instrAt code s.pc = some .popRet →
      retStack s.frames = s'.pc :: retStack s'.frames ∧ gosubStack s'.frames = gosubStack s.frames) ∧
    -- `GoSub(t)` at `i`: push `i` on the GOSUB stack, continue at `t`
    (∀ t, instrAt code s.pc = some (.goSub (.addr t)) →
      gosubStack s'.frames = s.pc :: gosubStack s.frames ∧ retStack s'.frames = retStack s.frames ∧ s'.pc = t) ∧
    -- `Return(None)`: pop `i` from the GOSUB stack, continue at `i + 1`
    (instrAt code s.pc = some (.ret none) →
      ∃ i, gosubStack s.frames = i :: gosubStack s'.frames ∧ s'.pc = i + 1 ∧ retStack s'.frames = retStack s.frames) ∧
    -- `Return(Some(a))`: pop the GOSUB stack, continue at `a`
    (∀ a, instrAt code s.pc = some (.ret (some (.addr a))) →
      ∃ i, gosubStack s.frames = i :: gosubStack s'.frames ∧ s'.pc = a ∧ retStack s'.frames = retStack s.frames) ∧
    -- everything else (including the `Jump` of a call): both address stacks untouched
    (∀ i, instrAt code s.pc = some i → (∀ a, i ≠ .pushRet a) → i ≠ .popRet → (∀ t, i ≠ .goSub t) →
      (∀ t, i ≠ .ret t) → s'.frames = s.frames) := by
  cases hs with
  | plain hi hnf happ hsucc =>
    refine ⟨?_, ?_, ?_, ?_, ?_, ?_⟩
    · intro a ha; rw [hi] at ha; injection ha with ha; subst ha; simp [isFrameOp] at hnf
    · intro ha; rw [hi] at ha; injection ha with ha; subst ha; simp [isFrameOp] at hnf
    · intro t ha; rw [hi] at ha; injection ha with ha; subst ha; simp [isFrameOp] at hnf
    · intro ha; rw [hi] at ha; injection ha with ha; subst ha; simp [isFrameOp] at hnf
    · intro a ha; rw [hi] at ha; injection ha with ha; subst ha; simp [isFrameOp] at hnf
    · intros; rfl
  | pushRet hi hj ha =>
    refine ⟨?_, ?_, ?_, ?_, ?_, ?_⟩
    · intro a' ha'; rw [hi] at ha'; injection ha' with ha'; injection ha' with ha'; subst ha'
      simp [retStack, gosubStack]
    · intro h; rw [hi] at h; injection h with h; cases h
    · intro t h; rw [hi] at h; injection h with h; cases h
    · intro h; rw [hi] at h; injection h with h; cases h
    · intro a h; rw [hi] at h; injection h with h; cases h
    · intro i h hn; rw [hi] at h; injection h with h; exact absurd h.symm (hn _)
  | call hi hc =>
    refine ⟨?_, ?_, ?_, ?_, ?_, ?_⟩
    · intro a h; rw [hi] at h; injection h with h; cases h
    · intro h; rw [hi] at h; injection h with h; cases h
    · intro t h; rw [hi] at h; injection h with h; cases h
    · intro h; rw [hi] at h; injection h with h; cases h
    · intro a h; rw [hi] at h; injection h with h; cases h
    · intros; rfl
  | popRet hi hf hk =>
    refine ⟨?_, ?_, ?_, ?_, ?_, ?_⟩
    · intro a h; rw [hi] at h; injection h with h; cases h
    · intro _; simp [retStack, gosubStack, hf, hk, Frame.retPc]
    · intro t h; rw [hi] at h; injection h with h; cases h
    · intro h; rw [hi] at h; injection h with h; cases h
    · intro a h; rw [hi] at h; injection h with h; cases h
    · intro i h _ hn; rw [hi] at h; injection h with h; exact absurd h.symm hn
  | goSub hi =>
    refine ⟨?_, ?_, ?_, ?_, ?_, ?_⟩
    · intro a h; rw [hi] at h; injection h with h; cases h
    · intro h; rw [hi] at h; injection h with h; cases h
    · intro t h; rw [hi] at h; injection h with h; injection h with h; injection h with h; subst h
      simp [retStack, gosubStack]
    · intro h; rw [hi] at h; injection h with h; cases h
    · intro a h; rw [hi] at h; injection h with h; cases h
    · intro i h _ _ hn; rw [hi] at h; injection h with h; exact absurd h.symm (hn _)
  | @retNone f fs hi hf hk =>
    refine ⟨?_, ?_, ?_, ?_, ?_, ?_⟩
    · intro a h; rw [hi] at h; injection h with h; cases h
    · intro h; rw [hi] at h; injection h with h; cases h
    · intro t h; rw [hi] at h; injection h with h; cases h
    · intro _; exact ⟨f.addr, by simp [gosubStack, hf, hk], by simp [Frame.retPc, hk], by simp [retStack, hf, hk]⟩
    · intro a h; rw [hi] at h; injection h with h; cases h
    · intro i h _ _ _ hn; rw [hi] at h; injection h with h; exact absurd h.symm (hn _)
  | @retLabel f fs a hi hf hk he =>
    refine ⟨?_, ?_, ?_, ?_, ?_, ?_⟩
    · intro a h; rw [hi] at h; injection h with h; cases h
    · intro h; rw [hi] at h; injection h with h; cases h
    · intro t h; rw [hi] at h; injection h with h; cases h
    · intro h; rw [hi] at h; injection h with h; cases h
    · intro a' h; rw [hi] at h; injection h with h; injection h with h; injection h with h; injection h with h
      subst h
      exact ⟨f.addr, by simp [gosubStack, hf, hk], rfl, by simp [retStack, hf, hk]⟩
    · intro i h _ _ _ hn; rw [hi] at h; injection h with h; exact absurd h.symm (hn _)

/-! ### lemmas about roots, call sites and branch targets -/

theorem mem_roots_of_instr {code : Code} {pc a : Nat} {i : Instr} (hi : instrAt code pc = some i)
    (hl : ∀ l, i ≠ .label l) (ha : a ∈ rootsOfInstr i) : a ∈ roots code := by
  unfold roots
  refine List.mem_cons_of_mem _ (List.mem_flatMap.2 ⟨pc, List.mem_range.2 (instrAt_lt hi), ?_⟩)
  rw [hi]
  cases i <;> first | exact ha | exact absurd rfl (hl _)

theorem mem_roots_of_procEntry {code : Code} {a : Nat} (ha : a ∈ procEntries code) : a ∈ roots code := by
  unfold procEntries at ha
  obtain ⟨hr, hp⟩ := List.mem_filter.1 ha
  unfold roots
  refine List.mem_cons_of_mem _ (List.mem_flatMap.2 ⟨a, hr, ?_⟩)
  cases hi : instrAt code a with
  | none => simp [hi] at hp
  | some i =>
    rw [hi] at hp
    cases i <;> first | (simp at hp; done) | skip
    simp only at hp
    simp [hp]

/-- a call `Jump` cannot be executed at this pc (not a `Jump`, or not preceded by its `PushRet`) -/
def NotCallJump (code : Code) (pc : Nat) : Prop :=
  ∀ t, instrAt code pc = some (.jump (.addr t)) → isCall code pc = false

theorem notCallJump_zero (code : Code) : NotCallJump code 0 := fun _ _ => rfl

theorem notCallJump_succ {code : Code} {p : Nat} {i : Instr} (hi : instrAt code p = some i)
    (hn : ∀ a, i ≠ .pushRet a) : NotCallJump code (p + 1) := by
  intro t _
  unfold isCall
  simp only [hi]
  cases i <;> first | rfl | exact absurd rfl (hn _)

theorem notCallJump_of_label {code : Code} {a : Nat} (h : isLabelAt code a = true) : NotCallJump code a := by
  intro t ht
  unfold isLabelAt at h
  rw [ht] at h
  cases h

theorem label_of_target {code : Code} (htr : targetsResolved code = true) {pc a : Nat} {i : Instr}
    (hi : instrAt code pc = some i) (ha : Target.addr a ∈ targetsOf i) : isLabelAt code a = true := by
  obtain ⟨a', h1, _, h3⟩ := (targets_resolved htr hi).1 _ ha
  injection h1 with h1
  subst h1
  exact h3

theorem succs_cases {code : Code} {pc pc' : Nat} {i : Instr} (hs : pc' ∈ succs code pc i)
    (hnf : isFrameOp code pc i = false) : pc' = pc + 1 ∨ Target.addr pc' ∈ targetsOf i := by
  cases i with
  | jump t =>
    cases t with
    | addr a =>
      simp only [isFrameOp] at hnf
      simp only [succs, hnf, Bool.false_eq_true, if_false, List.mem_singleton] at hs
      subst hs
      exact Or.inr (by simp [targetsOf])
    | unresolved l => simp [succs] at hs
  | jumpIfFalse t =>
    cases t with
    | addr a =>
      simp only [succs, List.mem_cons, List.mem_nil_iff, or_false] at hs
      rcases hs with hs | hs
      · exact Or.inl hs
      · subst hs; exact Or.inr (by simp [targetsOf])
    | unresolved l => simp [succs] at hs
  | ret _ | popRet | halt | throw _ | resume | resumeNext | resumeLabel _ => simp [succs] at hs
  | _ => exact Or.inl (by simpa [succs] using hs)

theorem notCallJump_of_succ {code : Code} (htr : targetsResolved code = true) {pc pc' : Nat} {i : Instr}
    (hi : instrAt code pc = some i) (hs : pc' ∈ succs code pc i) (hnf : isFrameOp code pc i = false) :
    NotCallJump code pc' := by
  rcases succs_cases hs hnf with h | h
  · subst h
    refine notCallJump_succ hi ?_
    intro a ha
    subst ha
    simp [isFrameOp] at hnf
  · exact notCallJump_of_label (label_of_target htr hi h)

/-! ### the global invariant -/

/-- a suspended frame is an intra-activation state of its own activation, stopped at a call `Jump`
(`call` frames) or a `GoSub` (`gosub` frames), and resumes right after it -/
def FrameOk (code : Code) (f : Frame) : Prop :=
  f.root ∈ roots code ∧
  ∃ callPc i, Reach code f.root f.h0 callPc f.hcall ∧ instrAt code callPc = some i ∧ f.retPc = callPc + 1 ∧
    ((f.kind = .call ∧ ∃ t, i = .jump (.addr t) ∧ isCall code callPc = true) ∨
     (f.kind = .gosub ∧ ∃ t, i = .goSub (.addr t)))

/-- `Chain h0 fs`: an activation entered with depths `h0` sits on top of the frames `fs`: its entry
depths are the depths of the innermost suspended activation at its call site, and so on downwards -/
def Chain (code : Code) : H → List Frame → Prop
  | _, [] => True
  | h0, f :: fs => h0 = f.hcall ∧ FrameOk code f ∧ Chain code f.h0 fs

structure Inv (code : Code) (s : GState) : Prop where
  root_mem : s.root ∈ roots code
  /-- the current state is an intra-activation state of the current activation -/
  reach : Reach code s.root s.h0 s.pc s.h
  /-- outside a call pair: the frames form a chain under the current activation, and the current
  instruction is not a call `Jump` -/
  normal : s.pending = false → Chain code s.h0 s.frames ∧ NotCallJump code s.pc
  /-- between `PushRet` and its `Jump`: the innermost frame is the current activation itself, stopped at
  the current pc (a call `Jump`) with the current depths -/
  pend : s.pending = true → ∃ f fs t, s.frames = f :: fs ∧ f.kind = .call ∧ f.root = s.root ∧ f.h0 = s.h0 ∧
    f.hcall = s.h ∧ f.addr = s.pc + 1 ∧ instrAt code s.pc = some (.jump (.addr t)) ∧ isCall code s.pc = true ∧
    Chain code f.h0 fs

theorem inv_init (code : Code) : Inv code GState.init :=
  ⟨List.mem_cons_self, Reach.start, fun _ => ⟨trivial, notCallJump_zero code⟩, (fun h => nomatch h)⟩

/-- a frame that satisfies the frame invariant resumes in an intra-activation state: the state the
intra-activation machine reaches by stepping *over* the call -/
theorem frame_return {code : Code} {f : Frame} (hf : FrameOk code f) :
    (∃ callPc, Reach code f.root f.h0 callPc f.hcall ∧ StepTo code callPc f.hcall f.retPc f.hcall) ∧
    NotCallJump code f.retPc := by
  obtain ⟨_, callPc, i, hr, hi, hret, hk⟩ := hf
  rcases hk with ⟨_, t, rfl, hc⟩ | ⟨_, t, rfl⟩
  · refine ⟨⟨callPc, hr, _, hi, apply_zero _, ?_⟩, ?_⟩
    · simp [succs, hc, hret]
    · rw [hret]; exact notCallJump_succ hi (fun a h => by cases h)
  · refine ⟨⟨callPc, hr, _, hi, apply_zero _, ?_⟩, ?_⟩
    · simp [succs, hret]
    · rw [hret]; exact notCallJump_succ hi (fun a h => by cases h)

theorem not_pending_of_instr {code : Code} {s : GState} (hinv : Inv code s) {i : Instr}
    (hi : instrAt code s.pc = some i) (hn : ∀ t, i = .jump (.addr t) → isCall code s.pc = false) :
    s.pending = false := by
  cases hp : s.pending with
  | false => rfl
  | true =>
    obtain ⟨f, fs, t, _, _, _, _, _, _, hj, hc, _⟩ := hinv.pend hp
    rw [hi] at hj
    injection hj with hj
    rw [hn t hj] at hc
    cases hc

/-- **The invariant is preserved by every global step.** -/
theorem inv_step {code : Code} {cert : Cert} (hc : checkCert code cert = true)
    (hbl : branchesLocal code = true) (htr : targetsResolved code = true)
    {s s' : GState} (hinv : Inv code s) (hs : GStep code s s') : Inv code s' := by
  cases hs with
  | @plain i pc' h' hi hnf happ hsucc =>
    have hp : s.pending = false := not_pending_of_instr hinv hi (by
      intro t ht; subst ht; simpa [isFrameOp] using hnf)
    refine ⟨hinv.root_mem, Reach.step hinv.reach ⟨i, hi, happ, hsucc⟩, ?_, ?_⟩
    · intro _
      exact ⟨(hinv.normal hp).1, notCallJump_of_succ htr hi hsucc hnf⟩
    · intro h; rw [hp] at h; cases h
  | @pushRet a t hi hj ha =>
    have hp : s.pending = false := not_pending_of_instr hinv hi (by intro t ht; cases ht)
    have hreach : Reach code s.root s.h0 (s.pc + 1) s.h :=
      Reach.step hinv.reach ⟨_, hi, apply_zero _, by simp [succs]⟩
    refine ⟨hinv.root_mem, hreach, (fun h => nomatch h), ?_⟩
    intro _
    refine ⟨_, _, t, rfl, rfl, rfl, rfl, rfl, ha, hj, ?_, (hinv.normal hp).1⟩
    simp [isCall, hi, ha]
  | @call t hi hcall =>
    have hp : s.pending = true := by
      cases hp : s.pending with
      | true => rfl
      | false => rw [(hinv.normal hp).2 t hi] at hcall; cases hcall
    obtain ⟨f, fs, t', hfr, hk, hr, hh0, hhc, hret, hj, _, hch⟩ := hinv.pend hp
    have hroot : t ∈ roots code := by
      have := (branches_local hbl hi).1 t rfl
      rw [if_pos hcall] at this
      exact mem_roots_of_procEntry this
    have hfok : FrameOk code f := by
      refine ⟨hr ▸ hinv.root_mem, s.pc, _, ?_, hi, ?_, Or.inl ⟨hk, t, rfl, hcall⟩⟩
      · rw [hr, hh0, hhc]; exact hinv.reach
      · simp [Frame.retPc, hk, hret]
    refine ⟨hroot, Reach.start, ?_, (fun h => nomatch h)⟩
    intro _
    refine ⟨?_, notCallJump_of_label (label_of_target htr hi (by simp [targetsOf]))⟩
    show Chain code s.h s.frames
    rw [hfr]
    exact ⟨hhc.symm, hfok, hch⟩
  | @popRet f fs hi hfr hk =>
    have hp : s.pending = false := not_pending_of_instr hinv hi (by intro t ht; cases ht)
    have hch : Chain code s.h0 (f :: fs) := hfr ▸ (hinv.normal hp).1
    obtain ⟨hlink, hfok, hrest⟩ := hch
    have hbal : s.h = s.h0 := balanced_exit hc hinv.root_mem s.h0 hinv.reach hi rfl
    obtain ⟨⟨callPc, hr, hst⟩, hncj⟩ := frame_return hfok
    refine ⟨hfok.1, ?_, fun _ => ⟨hrest, hncj⟩, (fun h => nomatch h)⟩
    show Reach code f.root f.h0 f.retPc s.h
    rw [hbal, hlink]
    exact Reach.step hr hst
  | @goSub t hi =>
    have hp : s.pending = false := not_pending_of_instr hinv hi (by intro t ht; cases ht)
    have hroot : t ∈ roots code := mem_roots_of_instr hi (fun l h => by cases h) (by simp [rootsOfInstr])
    refine ⟨hroot, Reach.start, ?_, (fun h => nomatch h)⟩
    intro _
    refine ⟨⟨rfl, ?_, (hinv.normal hp).1⟩, notCallJump_of_label (label_of_target htr hi (by simp [targetsOf]))⟩
    exact ⟨hinv.root_mem, s.pc, _, hinv.reach, hi, rfl, Or.inr ⟨rfl, t, rfl⟩⟩
  | @retNone f fs hi hfr hk =>
    have hp : s.pending = false := not_pending_of_instr hinv hi (by intro t ht; cases ht)
    have hch : Chain code s.h0 (f :: fs) := hfr ▸ (hinv.normal hp).1
    obtain ⟨hlink, hfok, hrest⟩ := hch
    have hbal : s.h = s.h0 := balanced_exit hc hinv.root_mem s.h0 hinv.reach hi rfl
    obtain ⟨⟨callPc, hr, hst⟩, hncj⟩ := frame_return hfok
    refine ⟨hfok.1, ?_, fun _ => ⟨hrest, hncj⟩, (fun h => nomatch h)⟩
    show Reach code f.root f.h0 f.retPc s.h
    rw [hbal, hlink]
    exact Reach.step hr hst
  | @retLabel f fs a hi hfr hk he =>
    have hp : s.pending = false := not_pending_of_instr hinv hi (by intro t ht; cases ht)
    have hch : Chain code s.h0 (f :: fs) := hfr ▸ (hinv.normal hp).1
    obtain ⟨hlink, hfok, hrest⟩ := hch
    have hbal : s.h = s.h0 := balanced_exit hc hinv.root_mem s.h0 hinv.reach hi rfl
    have hroot : a ∈ roots code := mem_roots_of_instr hi (fun l h => by cases h) (by simp [rootsOfInstr])
    refine ⟨hroot, Reach.start, ?_, (fun h => nomatch h)⟩
    intro _
    refine ⟨?_, notCallJump_of_label (label_of_target htr hi (by simp [targetsOf]))⟩
    show Chain code s.h fs
    rw [hbal, hlink, he]
    exact hrest

/-- **Global invariant**: every globally reachable state satisfies `Inv`. -/
theorem inv_of_reach {code : Code} {cert : Cert} (hc : checkCert code cert = true)
    (hbl : branchesLocal code = true) (htr : targetsResolved code = true)
    {s : GState} (hr : GReach code s) : Inv code s := by
  induction hr with
  | init => exact inv_init code
  | step _ hs ih => exact inv_step hc hbl htr ih hs

/-! ### consequences -/

/-- **No underflow, globally**: at every globally reachable state the pops of the instruction about to
be executed are available on the five stacks. -/
theorem global_no_underflow {code : Code} {cert : Cert} (hc : checkCert code cert = true)
    (hbl : branchesLocal code = true) (htr : targetsResolved code = true)
    {s : GState} (hr : GReach code s) {i : Instr} (hi : instrAt code s.pc = some i) :
    ∃ h', apply s.h (eff i) = some h' :=
  have hinv := inv_of_reach hc hbl htr hr
  no_underflow hc hinv.root_mem s.h0 hinv.reach hi

/-- **Absolute depths = entry depths of the current activation + the certificate at the pc.** -/
theorem global_depth_is_cert {code : Code} {cert : Cert} (hc : checkCert code cert = true)
    (hbl : branchesLocal code = true) (htr : targetsResolved code = true)
    {s : GState} (hr : GReach code s) :
    ∃ rel, cert[s.pc]? = some (some rel) ∧ s.h = H.add s.h0 rel :=
  have hinv := inv_of_reach hc hbl htr hr
  cert_sound hc hinv.root_mem s.h0 hinv.reach

/-- the pc of a globally reachable state is inside the instruction list -/
theorem global_pc_in_range {code : Code} {cert : Cert} (hc : checkCert code cert = true)
    (hbl : branchesLocal code = true) (htr : targetsResolved code = true)
    {s : GState} (hr : GReach code s) : ∃ i, instrAt code s.pc = some i := by
  obtain ⟨rel, hrel, _⟩ := global_depth_is_cert hc hbl htr hr
  have hlt : s.pc < cert.size := (Array.getElem?_eq_some_iff.1 hrel).1
  have hsz : cert.size = code.size := by
    simp only [checkCert, Bool.and_eq_true, beq_iff_eq] at hc
    exact hc.1.1
  rw [hsz] at hlt
  exact ⟨code[s.pc].instr, by simp [instrAt, hlt]⟩

/-- **The call protocol, proved rather than assumed**: a call `Jump` is only ever executed directly
after its own `PushRet`, so the top of the VM's `return_address_stack` at that moment is the address
after the `Jump`, and the frame on top describes the activation that is executing the `Jump`. -/
theorem call_return_address_on_top {code : Code} {cert : Cert} (hc : checkCert code cert = true)
    (hbl : branchesLocal code = true) (htr : targetsResolved code = true)
    {s : GState} (hr : GReach code s) {t : Nat} (hi : instrAt code s.pc = some (.jump (.addr t)))
    (hcall : isCall code s.pc = true) :
    ∃ f fs, s.frames = f :: fs ∧ retStack s.frames = (s.pc + 1) :: retStack fs ∧
      f.root = s.root ∧ f.h0 = s.h0 ∧ f.hcall = s.h := by
  have hinv := inv_of_reach hc hbl htr hr
  have hp : s.pending = true := by
    cases hp : s.pending with
    | true => rfl
    | false => rw [(hinv.normal hp).2 t hi] at hcall; cases hcall
  obtain ⟨f, fs, _, hfr, hk, hroot, hh0, hhc, haddr, _⟩ := hinv.pend hp
  exact ⟨f, fs, hfr, by simp [retStack, hfr, hk, haddr], hroot, hh0, hhc⟩

/-- what a push records: the frame holds the pushing activation's root, entry depths and its depths at
the call site (frames are never modified afterwards: every step leaves the list alone, conses one frame
or removes the head) -/
theorem push_records_caller {code : Code} {s s' : GState} (hs : GStep code s s') {f : Frame}
    (hpush : s'.frames = f :: s.frames) : f.hcall = s.h ∧ f.h0 = s.h0 ∧ f.root = s.root := by
  cases hs with
  | plain => exact absurd (congrArg List.length hpush) (by simp <;> omega)
  | call => exact absurd (congrArg List.length hpush) (by simp <;> omega)
  | pushRet => injection hpush with h1 _; subst h1; exact ⟨rfl, rfl, rfl⟩
  | goSub => injection hpush with h1 _; subst h1; exact ⟨rfl, rfl, rfl⟩
  | popRet _ hfr => simp only at hpush; rw [hfr] at hpush; exact absurd (congrArg List.length hpush) (by simp <;> omega)
  | retNone _ hfr => simp only at hpush; rw [hfr] at hpush; exact absurd (congrArg List.length hpush) (by simp <;> omega)
  | retLabel _ hfr => simp only at hpush; rw [hfr] at hpush; exact absurd (congrArg List.length hpush) (by simp <;> omega)

/-- **A return finds the five stacks exactly as the caller left them.**  Whenever a step pops a frame
`f` (`PopRet`, `RETURN`, `RETURN label`), the depths — which the popping instruction does not change —
are `f.hcall`, the depths the suspended activation had at its call site (`push_records_caller`).  This
is the assumption the intra-activation `succs` makes when it steps over a call. -/
theorem return_restores_caller {code : Code} {cert : Cert} (hc : checkCert code cert = true)
    (hbl : branchesLocal code = true) (htr : targetsResolved code = true)
    {s s' : GState} (hr : GReach code s) (hs : GStep code s s') {f : Frame}
    (hpop : s.frames = f :: s'.frames) : s'.h = f.hcall ∧ s'.h = s.h := by
  have hinv := inv_of_reach hc hbl htr hr
  have key : ∀ {i : Instr} {f' : Frame} {fs : List Frame}, instrAt code s.pc = some i →
      isBalancedExit i = true → (∀ t, i ≠ .jump t) → s.frames = f' :: fs → s.h = f'.hcall := by
    intro i f' fs hi hex hnj hfr
    have hp : s.pending = false := not_pending_of_instr hinv hi (fun t ht => absurd ht (hnj _))
    have hch : Chain code s.h0 (f' :: fs) := hfr ▸ (hinv.normal hp).1
    rw [balanced_exit hc hinv.root_mem s.h0 hinv.reach hi hex]
    exact hch.1
  cases hs with
  | plain => exact absurd (congrArg List.length hpop) (by simp <;> omega)
  | call => exact absurd (congrArg List.length hpop) (by simp <;> omega)
  | pushRet => exact absurd (congrArg List.length hpop) (by simp <;> omega)
  | goSub => exact absurd (congrArg List.length hpop) (by simp <;> omega)
  | popRet hi hfr =>
    simp only at hpop
    have h := key hi rfl (fun t h => by cases h) hfr
    rw [hfr] at hpop; injection hpop with h1 _; subst h1
    exact ⟨h, rfl⟩
  | retNone hi hfr =>
    simp only at hpop
    have h := key hi rfl (fun t h => by cases h) hfr
    rw [hfr] at hpop; injection hpop with h1 _; subst h1
    exact ⟨h, rfl⟩
  | retLabel hi hfr =>
    simp only at hpop
    have h := key hi rfl (fun t h => by cases h) hfr
    rw [hfr] at hpop; injection hpop with h1 _; subst h1
    exact ⟨h, rfl⟩

/-- **The caller continues as if the call had been a no-op on the five stacks**: after `PopRet` /
`RETURN` the global state is the suspended activation's state `(f.retPc, f.hcall)`, and that is exactly
the state the intra-activation machine reaches from the call site by stepping over the call. -/
theorem return_is_stepover {code : Code} {cert : Cert} (hc : checkCert code cert = true)
    (hbl : branchesLocal code = true) (htr : targetsResolved code = true)
    {s s' : GState} (hr : GReach code s) (hs : GStep code s s')
    (hi : instrAt code s.pc = some .popRet ∨ instrAt code s.pc = some (.ret none)) :
    ∃ f, s.frames = f :: s'.frames ∧ s'.pc = f.retPc ∧ s'.h = f.hcall ∧ s'.root = f.root ∧ s'.h0 = f.h0 ∧
      ∃ callPc, Reach code f.root f.h0 callPc f.hcall ∧ StepTo code callPc f.hcall f.retPc f.hcall := by
  have hinv := inv_of_reach hc hbl htr hr
  have key : ∀ {f : Frame} {fs : List Frame}, s.frames = f :: fs →
      ∃ callPc, Reach code f.root f.h0 callPc f.hcall ∧ StepTo code callPc f.hcall f.retPc f.hcall := by
    intro f fs hfr
    have hp : s.pending = false := by
      rcases hi with hi | hi <;> exact not_pending_of_instr hinv hi (fun t h => by cases h)
    have hch : Chain code s.h0 (f :: fs) := hfr ▸ (hinv.normal hp).1
    exact (frame_return hch.2.1).1
  cases hs with
  | plain hi' hnf =>
    rcases hi with hi | hi <;> (rw [hi] at hi'; injection hi' with hi'; subst hi'; simp [isFrameOp] at hnf)
  | call hi' => rcases hi with hi | hi <;> (rw [hi] at hi'; injection hi' with hi'; cases hi')
  | pushRet hi' => rcases hi with hi | hi <;> (rw [hi] at hi'; injection hi' with hi'; cases hi')
  | goSub hi' => rcases hi with hi | hi <;> (rw [hi] at hi'; injection hi' with hi'; cases hi')
  | retLabel hi' => rcases hi with hi | hi <;> (rw [hi] at hi'; injection hi' with hi'; cases hi')
  | @popRet f fs _ hfr =>
    exact ⟨f, hfr, rfl, (return_restores_caller hc hbl htr hr (GStep.popRet ‹_› hfr ‹_›) hfr).1, rfl, rfl, key hfr⟩
  | @retNone f fs _ hfr =>
    exact ⟨f, hfr, rfl, (return_restores_caller hc hbl htr hr (GStep.retNone ‹_› hfr ‹_›) hfr).1, rfl, rfl, key hfr⟩

/-! ### depth grows only with call depth -/

/-- every certified relative depth is at most `B`, componentwise -/
def CertLe (cert : Cert) (B : H) : Prop := ∀ (pc : Nat) (rel : H), cert[pc]? = some (some rel) → H.le rel B = true

/-- executable form of `CertLe` -/
def certLeB (cert : Cert) (B : H) : Bool :=
  cert.toList.all fun o => match o with
    | some r => H.le r B
    | none => true

theorem certLeB_sound {cert : Cert} {B : H} (h : certLeB cert B = true) : CertLe cert B := by
  intro pc rel hrel
  simp only [certLeB, List.all_eq_true] at h
  exact h (some rel) (Array.mem_toList_iff.2 (Array.mem_of_getElem? hrel))

/-- the entry depths of the `k`-th frame from the bottom are at most `k * B` -/
def FramesLe (B : H) : List Frame → Prop
  | [] => True
  | f :: fs => H.le f.h0 (H.scale fs.length B) = true ∧ FramesLe B fs

structure BInv (B : H) (s : GState) : Prop where
  frames : FramesLe B s.frames
  cur : s.pending = false → H.le s.h0 (H.scale s.frames.length B) = true

theorem binv_init (B : H) : BInv B GState.init := ⟨trivial, fun _ => H.le_zero_scale B⟩

theorem binv_step {code : Code} {cert : Cert} (hc : checkCert code cert = true) {B : H} (hB : CertLe cert B)
    {s s' : GState} (hinv : Inv code s) (hb : BInv B s) (hs : GStep code s s') : BInv B s' := by
  obtain ⟨rel, hrel, hh⟩ := cert_sound hc hinv.root_mem s.h0 hinv.reach
  have hrelB := hB _ _ hrel
  cases hs with
  | plain => exact ⟨hb.frames, hb.cur⟩
  | pushRet hi =>
    have hp : s.pending = false := not_pending_of_instr hinv hi (by intro t ht; cases ht)
    exact ⟨⟨hb.cur hp, hb.frames⟩, (fun h => nomatch h)⟩
  | call hi hcall =>
    have hp : s.pending = true := by
      cases hp : s.pending with
      | true => rfl
      | false => rw [(hinv.normal hp).2 _ hi] at hcall; cases hcall
    obtain ⟨f, fs, t', hfr, _, _, hh0, _, _, _, _, _⟩ := hinv.pend hp
    refine ⟨hb.frames, fun _ => ?_⟩
    show H.le s.h (H.scale s.frames.length B) = true
    have hfl := hb.frames
    rw [hfr] at hfl
    rw [hfr, hh, List.length_cons, H.scale_succ, ← hh0]
    exact H.le_add_add hfl.1 hrelB
  | popRet _ hfr =>
    have hfl := hb.frames
    rw [hfr] at hfl
    exact ⟨hfl.2, fun _ => hfl.1⟩
  | goSub hi =>
    have hp : s.pending = false := not_pending_of_instr hinv hi (by intro t ht; cases ht)
    refine ⟨⟨hb.cur hp, hb.frames⟩, fun _ => ?_⟩
    show H.le s.h (H.scale (s.frames.length + 1) B) = true
    rw [hh, H.scale_succ]
    exact H.le_add_add (hb.cur hp) hrelB
  | retNone _ hfr =>
    have hfl := hb.frames
    rw [hfr] at hfl
    exact ⟨hfl.2, fun _ => hfl.1⟩
  | @retLabel f fs a hi hfr hk he =>
    have hp : s.pending = false := not_pending_of_instr hinv hi (by intro t ht; cases ht)
    have hch : Chain code s.h0 (f :: fs) := hfr ▸ (hinv.normal hp).1
    have hbal : s.h = s.h0 := balanced_exit hc hinv.root_mem s.h0 hinv.reach hi rfl
    have hfl := hb.frames
    rw [hfr] at hfl
    refine ⟨hfl.2, fun _ => ?_⟩
    show H.le s.h (H.scale fs.length B) = true
    rw [hbal, hch.1, he]
    exact hfl.1

/-- **Depth grows only with call depth, never with the iteration count**: if every certified relative
depth is at most `B` (componentwise) then at every globally reachable state each of the five stacks is
at most `(number of suspended frames + 1) * B` deep. -/
theorem global_depth_bound {code : Code} {cert : Cert} (hc : checkCert code cert = true)
    (hbl : branchesLocal code = true) (htr : targetsResolved code = true) {B : H} (hB : CertLe cert B)
    {s : GState} (hr : GReach code s) : H.le s.h (H.scale (s.frames.length + 1) B) = true := by
  have hb : BInv B s := by
    induction hr with
    | init => exact binv_init B
    | step hr' hs ih => exact binv_step hc hB (inv_of_reach hc hbl htr hr') ih hs
  have hinv := inv_of_reach hc hbl htr hr
  obtain ⟨rel, hrel, hh⟩ := cert_sound hc hinv.root_mem s.h0 hinv.reach
  have h0le : H.le s.h0 (H.scale s.frames.length B) = true := by
    cases hp : s.pending with
    | false => exact hb.cur hp
    | true =>
      obtain ⟨f, fs, _, hfr, _, _, hh0, _⟩ := hinv.pend hp
      have hfl := hb.frames
      rw [hfr] at hfl
      rw [hfr, List.length_cons, ← hh0]
      exact H.le_scale_succ hfl.1
  rw [hh, H.scale_succ]
  exact H.le_add_add h0le (hB _ _ hrel)

/-! ### where the modelled run ends -/

/-- the reasons for which a state has no `GStep` (see the file header) -/
inductive Blocked (code : Code) (s : GState) : Prop
  /-- `Halt`, `Throw`, `Resume`, `ResumeNext`, `ResumeLabel` (`noSucc_instr`) -/
  | noSucc {i : Instr} : instrAt code s.pc = some i → isFrameOp code s.pc i = false →
      succs code s.pc i = [] → Blocked code s
  /-- a `PushRet` that is not the first half of a call pair -/
  | strayPushRet {a : Nat} : instrAt code s.pc = some (.pushRet a) →
      ¬ (a = s.pc + 2 ∧ ∃ t, instrAt code (s.pc + 1) = some (.jump (.addr t))) → Blocked code s
  /-- `PopRet` while the innermost frame is not a call frame -/
  | popRetMismatch : instrAt code s.pc = some .popRet →
      (∀ f fs, s.frames = f :: fs → f.kind ≠ .call) → Blocked code s
  /-- `Return` while the innermost frame is not a GOSUB frame -/
  | retMismatch {t : Option Target} : instrAt code s.pc = some (.ret t) →
      (∀ f fs, s.frames = f :: fs → f.kind ≠ .gosub) → Blocked code s
  /-- `Return label` from a GOSUB that was not issued at the entry depths of its activation -/
  | retLabelInexact {a : Nat} {f : Frame} {fs : List Frame} : instrAt code s.pc = some (.ret (some (.addr a))) →
      s.frames = f :: fs → f.kind = .gosub → f.hcall ≠ f.h0 → Blocked code s

/-- the instructions without a static successor -/
theorem noSucc_instr {code : Code} {pc : Nat} {i : Instr} (hnf : isFrameOp code pc i = false)
    (hs : succs code pc i = []) :
    i = .halt ∨ (∃ e, i = .throw e) ∨ i = .resume ∨ i = .resumeNext ∨ (∃ t, i = .resumeLabel t) ∨
    (∃ l, i = .jump (.unresolved l)) ∨ (∃ l, i = .jumpIfFalse (.unresolved l)) := by
  cases i with
  | halt => exact Or.inl rfl
  | throw e => exact Or.inr (Or.inl ⟨e, rfl⟩)
  | resume => exact Or.inr (Or.inr (Or.inl rfl))
  | resumeNext => exact Or.inr (Or.inr (Or.inr (Or.inl rfl)))
  | resumeLabel t => exact Or.inr (Or.inr (Or.inr (Or.inr (Or.inl ⟨t, rfl⟩))))
  | jump t =>
    cases t with
    | addr a => simp only [isFrameOp] at hnf; simp [succs, hnf] at hs
    | unresolved l => exact Or.inr (Or.inr (Or.inr (Or.inr (Or.inr (Or.inl ⟨l, rfl⟩)))))
  | jumpIfFalse t =>
    cases t with
    | addr a => simp [succs] at hs
    | unresolved l => exact Or.inr (Or.inr (Or.inr (Or.inr (Or.inr (Or.inr ⟨l, rfl⟩)))))
  | ret _ | popRet | pushRet _ | goSub _ => simp [isFrameOp] at hnf
  | _ => simp [succs] at hs

/-- **The list of run-ending events is complete**: a globally reachable state either has a successor in
the model or is `Blocked` for one of the listed reasons. -/
theorem progress_or_blocked {code : Code} {cert : Cert} (hc : checkCert code cert = true)
    (hbl : branchesLocal code = true) (htr : targetsResolved code = true)
    {s : GState} (hr : GReach code s) : (∃ s', GStep code s s') ∨ Blocked code s := by
  obtain ⟨i, hi⟩ := global_pc_in_range hc hbl htr hr
  obtain ⟨h', happ⟩ := global_no_underflow hc hbl htr hr hi
  have haddr : ∀ t, t ∈ targetsOf i → ∃ a, t = Target.addr a := by
    intro t ht
    obtain ⟨a, h1, _⟩ := (targets_resolved htr hi).1 t ht
    exact ⟨a, h1⟩
  cases hf : isFrameOp code s.pc i with
  | false =>
    cases hsu : succs code s.pc i with
    | nil => exact Or.inr (Blocked.noSucc hi hf hsu)
    | cons pc' rest => exact Or.inl ⟨_, GStep.plain hi hf happ (by rw [hsu]; exact List.mem_cons_self)⟩
  | true =>
    cases i with
    | pushRet a =>
      by_cases h : a = s.pc + 2 ∧ ∃ t, instrAt code (s.pc + 1) = some (.jump (.addr t))
      · obtain ⟨ha, t, ht⟩ := h
        exact Or.inl ⟨_, GStep.pushRet hi ht ha⟩
      · exact Or.inr (Blocked.strayPushRet hi h)
    | popRet =>
      cases hfr : s.frames with
      | nil => exact Or.inr (Blocked.popRetMismatch hi (fun f fs h => by rw [hfr] at h; cases h))
      | cons f fs =>
        cases hk : f.kind with
        | call => exact Or.inl ⟨_, GStep.popRet hi hfr hk⟩
        | gosub =>
          refine Or.inr (Blocked.popRetMismatch hi (fun f' fs' h => ?_))
          rw [hfr] at h; injection h with h1 _; subst h1; rw [hk]; exact fun h => by cases h
    | goSub t =>
      obtain ⟨a, rfl⟩ := haddr t (by simp [targetsOf])
      exact Or.inl ⟨_, GStep.goSub hi⟩
    | jump t =>
      obtain ⟨a, rfl⟩ := haddr t (by simp [targetsOf])
      exact Or.inl ⟨_, GStep.call hi (by simpa [isFrameOp] using hf)⟩
    | ret t =>
      cases hfr : s.frames with
      | nil => exact Or.inr (Blocked.retMismatch hi (fun f fs h => by rw [hfr] at h; cases h))
      | cons f fs =>
        cases hk : f.kind with
        | call =>
          refine Or.inr (Blocked.retMismatch hi (fun f' fs' h => ?_))
          rw [hfr] at h; injection h with h1 _; subst h1; rw [hk]; exact fun h => by cases h
        | gosub =>
          cases t with
          | none => exact Or.inl ⟨_, GStep.retNone hi hfr hk⟩
          | some t =>
            obtain ⟨a, rfl⟩ := haddr t (by simp [targetsOf])
            by_cases he : f.hcall = f.h0
            · exact Or.inl ⟨_, GStep.retLabel hi hfr hk he⟩
            · exact Or.inr (Blocked.retLabelInexact hi hfr hk he)
    | _ => simp [isFrameOp] at hf

/-! ### non-vacuity: a main program calling a SUB inside a FOR-like register bracket -/

/-- `FOR ..: S: NEXT` (one pass of the body; register frame pushed around the call), `SUB S` using the
value stack -/
def demo2 : Code := #[
  ⟨.pushRegisters, 1, 1⟩,            --  0  FOR: register frame
  ⟨.beginCollectArguments, 2, 3⟩,    --  1  call protocol of `S`
  ⟨.pushStack, 2, 3⟩,                --  2
  ⟨.pushRet 5, 2, 3⟩,                --  3
  ⟨.jump (.addr 8), 2, 3⟩,           --  4
  ⟨.popStack, 2, 3⟩,                 --  5
  ⟨.popRegisters, 3, 1⟩,             --  6  NEXT
  ⟨.halt, 4, 1⟩,                     --  7
  ⟨.label ":S", 5, 1⟩,               --  8  SUB S
  ⟨.pushAToValueStack, 6, 3⟩,        --  9
  ⟨.popValueStackIntoA, 6, 3⟩,       -- 10
  ⟨.popRet, 7, 1⟩]                   -- 11  END SUB

def demo2Cert : Cert := #[
  some H.zero, some ⟨0, 1, 0, 0, 0⟩, some ⟨0, 1, 1, 0, 0⟩, some ⟨0, 1, 1, 0, 0⟩, some ⟨0, 1, 1, 0, 0⟩,
  some ⟨0, 1, 1, 0, 0⟩, some ⟨0, 1, 0, 0, 0⟩, some H.zero,
  some H.zero, some H.zero, some ⟨1, 0, 0, 0, 0⟩, some H.zero]

theorem demo2_wf : wfCheck demo2 [0, 1, 6, 7, 9, 11] demo2Cert = true := by decide +kernel

theorem demo2_cert : checkCert demo2 demo2Cert = true := by decide +kernel
theorem demo2_local : branchesLocal demo2 = true := by decide +kernel
theorem demo2_targets : targetsResolved demo2 = true := by decide +kernel
theorem demo2_le : CertLe demo2Cert ⟨1, 1, 1, 0, 0⟩ := certLeB_sound (by decide +kernel)

/-- the frame pushed by the call: return address 5, caller = main (root 0, entered at depth zero),
suspended with one register frame and one context state -/
def demo2Frame : Frame := ⟨.call, 5, 0, H.zero, ⟨0, 1, 1, 0, 0⟩⟩

/-- a global run that performs the call: inside `S` (pc 10) the value stack holds one entry on top of
the caller's register frame and context state, with one suspended frame -/
theorem demo2_in_callee :
    GReach demo2 ⟨10, ⟨1, 1, 1, 0, 0⟩, [demo2Frame], 8, ⟨0, 1, 1, 0, 0⟩, false⟩ := by
  have s0 : GReach demo2 ⟨0, H.zero, [], 0, H.zero, false⟩ := GReach.init
  have s1 : GReach demo2 ⟨1, ⟨0, 1, 0, 0, 0⟩, [], 0, H.zero, false⟩ :=
    s0.step (GStep.plain (i := .pushRegisters) rfl rfl rfl (by decide))
  have s2 : GReach demo2 ⟨2, ⟨0, 1, 1, 0, 0⟩, [], 0, H.zero, false⟩ :=
    s1.step (GStep.plain (i := .beginCollectArguments) rfl rfl rfl (by decide))
  have s3 : GReach demo2 ⟨3, ⟨0, 1, 1, 0, 0⟩, [], 0, H.zero, false⟩ :=
    s2.step (GStep.plain (i := .pushStack) rfl rfl rfl (by decide))
  have s4 : GReach demo2 ⟨4, ⟨0, 1, 1, 0, 0⟩, [demo2Frame], 0, H.zero, true⟩ :=
    s3.step (GStep.pushRet (a := 5) (t := 8) rfl rfl rfl)
  have s5 : GReach demo2 ⟨8, ⟨0, 1, 1, 0, 0⟩, [demo2Frame], 8, ⟨0, 1, 1, 0, 0⟩, false⟩ :=
    s4.step (GStep.call (t := 8) rfl rfl)
  have s6 : GReach demo2 ⟨9, ⟨0, 1, 1, 0, 0⟩, [demo2Frame], 8, ⟨0, 1, 1, 0, 0⟩, false⟩ :=
    s5.step (GStep.plain (i := .label ":S") rfl rfl rfl (by decide))
  exact s6.step (GStep.plain (i := .pushAToValueStack) rfl rfl rfl (by decide))

/-- ... and the return: back in main at the return address with the frame popped and the five stacks as
they were at the call; then the bracket is closed and `Halt` is reached with every stack empty -/
theorem demo2_returned :
    GReach demo2 ⟨5, ⟨0, 1, 1, 0, 0⟩, [], 0, H.zero, false⟩ ∧
    GReach demo2 ⟨7, H.zero, [], 0, H.zero, false⟩ := by
  have s8 : GReach demo2 ⟨11, ⟨0, 1, 1, 0, 0⟩, [demo2Frame], 8, ⟨0, 1, 1, 0, 0⟩, false⟩ :=
    demo2_in_callee.step (GStep.plain (i := .popValueStackIntoA) rfl rfl rfl (by decide))
  have s9 : GReach demo2 ⟨5, ⟨0, 1, 1, 0, 0⟩, [], 0, H.zero, false⟩ :=
    s8.step (GStep.popRet (f := demo2Frame) (fs := []) rfl rfl rfl)
  have s10 : GReach demo2 ⟨6, ⟨0, 1, 0, 0, 0⟩, [], 0, H.zero, false⟩ :=
    s9.step (GStep.plain (i := .popStack) rfl rfl rfl (by decide))
  exact ⟨s9, s10.step (GStep.plain (i := .popRegisters) rfl rfl rfl (by decide))⟩

/-- the theorems apply to the demo: e.g. the bound, at the state inside the callee (1 frame,
`B = ⟨1,1,1,0,0⟩`: depths `⟨1,1,1,0,0⟩ ≤ 2 * B`), and the return restores the caller's depths -/
example : H.le (⟨1, 1, 1, 0, 0⟩ : H) (H.scale 2 ⟨1, 1, 1, 0, 0⟩) = true :=
  global_depth_bound demo2_cert demo2_local demo2_targets demo2_le demo2_in_callee

example : ∀ s, GReach demo2 s → ∀ i, instrAt demo2 s.pc = some i → ∃ h', apply s.h (eff i) = some h' :=
  fun _ hr _ hi => global_no_underflow demo2_cert demo2_local demo2_targets hr hi

/-- the state at `Halt` is blocked (end of the run), as the header says -/
example : Blocked demo2 ⟨7, H.zero, [], 0, H.zero, false⟩ := Blocked.noSucc (i := .halt) rfl rfl rfl

end RbThm.C15
