import Thm.ProcJSimBase
import Thm.ProcJShape
import Thm.ProcJDepths
/-!
Layer "procedures ∪ jumps", simulation part: `WHILE c … WEND` (port of `Thm/JmpLSimWhile.lean`; the condition may call
functions, so the state *after* the condition is handed to the body, as in the procedures layer).

The loop can be entered at a label inside its body (no test is made: the run simply is in the body), and a jump out of the body
to a label inside the body re-enters the loop in seek mode; any other jump leaves the loop (WHILE keeps nothing on the stacks:
nothing to pop).  Every intermediate state has the stacks of the entry state, so the activation's invariant is carried along by
`ActInv.of_same` and `exited` is passed on unchanged.  The re-entry needs no fact of the reference semantics: the label lies
inside the body, hence is at least as deep as the loop (`LabAt.depth_ge`), hence nothing was popped on the way to it.
-/
namespace RbThm.ProcJSim
set_option linter.unusedVariables false
set_option linter.unusedSimpArgs false
open RbModel RbModel.ProcJ RbModel.ProcJ.Compile RbModel.ProcJ.Vm
open RbModel.Num hiding Expr
open RbModel.Ast (Pos)
open RbModel.Proc (Var SlotTabs Expr Args PrintItem CaseExpr ProcDecl zeroOf Sigs sigsOf)
open RbModel.Proc.Compile (Layout Layout.addr sizeExpr sizePush refCount sizeExprTo sizeSubCall sizeItems sizeCaseExpr sizeConds
  sizeExit labelName stepSuffix maxPos)
open RbModel.Proc.Vm (Regs Regs.new Frame CtxState getVar setVar curVars modCur curStatic applyArgs readVars binInstr)
open RbModel.ProcJ.Ref (Outcome Mode Act)
open RbThm.ProcJLen
open RbThm.ProcSim (Scope EWf)

theorem case_while (W : World) (procs : List (ProcDecl SStmt)) (hP : ProcsOk W procs) (B : BodyCtx) (hB : B.Ok W)
    (fuel : Nat) (ih : IHle W fuel) (c : Expr) (body : SStmt) (p : Pos)
    (sfx : String) (fd sd off : Nat) (m : Mode) (below : List CtxState) (s : St) (σ : Vm)
    (hc : CodeAt W.code off (compileStmt W.lay W.env sfx fd sd off (.while c body p)))
    (hl : LabAt W.env fd sd off (.while c body p))
    (hw : Wf W.sg B.sc W.env.dp B.body.labels fd sd (.while c body p))
    (hen : Entry W.env off (.while c body p) m σ) (hr : Rel W B.sc [] below s σ) (hinv : ActInv B.sc fd sd σ) :
    StmtPost W B.sc below fd sd (off + sizeStmt W.env.dp fd sd (.while c body p)) σ
      (ProcJ.Ref.exec W.P (fuel + 1) B.act (desugar (.while c body p)) m s) := by
  have hcw := hc
  have hw0 := hw
  simp only [compileStmt] at hc
  obtain ⟨hwc, hnc, hwb⟩ := hw
  have hlb := hl.while
  have hcb : CodeAt W.code (off + 1 + sizeExpr c + 1) (compileStmt W.lay W.env sfx fd sd (off + 1 + sizeExpr c + 1) body) := by
    have := hc.append_left.append_right
    simp only [List.length_append, List.length_singleton, len_expr] at this
    exact this.at (by omega)
  have hjmp : W.code[off + 1 + sizeExpr c + 1 + sizeStmt W.env.dp fd sd body]? = some (CInstr.jump off, p) := by
    have := hc.append_right.head
    simp only [List.length_append, List.length_singleton, len_stmt, len_expr] at this
    rw [← this]; congr 1; omega
  have hwend : W.code[off + 1 + sizeExpr c + 1 + sizeStmt W.env.dp fd sd body + 1]? =
      some (CInstr.label (labelName "wend" p sfx), p) := by
    have := hc.append_right.tail.head
    simp only [List.length_append, List.length_singleton, len_stmt, len_expr] at this
    rw [← this]; congr 1; omega
  have hsize : sizeStmt W.env.dp fd sd (.while c body p) = 1 + sizeExpr c + 1 + sizeStmt W.env.dp fd sd body + 2 := by
    simp only [sizeStmt]
  have hent : m.enters (desugar (.while c body p)) = true := by
    cases m with
    | run => rfl
    | seek L => exact (hasLabel_iff hw0 L).mpr hen.1
  have ihs := ih.self.stmt
  -- the body phase: from a state in the body (at its start, or at a label inside it)
  have hbody : ∀ (τ0 : Vm) (s0 : St), Entry W.env (off + 1 + sizeExpr c + 1) body m τ0 → Rel W B.sc [] below s0 τ0 →
      SameStacks σ τ0 →
      StmtPost W B.sc below fd sd (off + sizeStmt W.env.dp fd sd (.while c body p)) τ0
        (match ProcJ.Ref.exec W.P fuel B.act (desugar body) m s0 with
         | (s', .normal) => ProcJ.Ref.exec W.P fuel B.act (Stmt.while c (desugar body) p) .run s'
         | (s', .jump L) =>
           if (desugar body).hasLabel L = true then ProcJ.Ref.exec W.P fuel B.act (Stmt.while c (desugar body) p) (.seek L) s'
           else (s', .jump L)
         | r => r) := by
    intro τ0 s0 hen0 hrel0 hss0
    have hinv0 : ActInv B.sc fd sd τ0 := hinv.of_same hss0
    have hb := ihs B body sfx fd sd _ m below s0 τ0 hB hcb hlb hwb hen0 hrel0 hinv0
    generalize hrb : ProcJ.Ref.exec W.P fuel B.act (desugar body) m s0 = rb at hb ⊢
    obtain ⟨s1', o1⟩ := rb
    cases o1 with
    | normal =>
      obtain ⟨υ, st2, hp2, hrel2, hss2⟩ := hb
      have hj : W.code[υ.pc]? = some (CInstr.jump off, p) := by rw [hp2]; exact hjmp
      let υ1 : Vm := { υ with pc := off }
      have s3 : Vm.step W.code υ = .next υ1 := by simp only [Vm.step, hj]; rfl
      have hss3 : SameStacks υ υ1 := ⟨rfl, rfl, rfl, rfl, rfl, rfl, rfl, id⟩
      have hloop := ihs B (.while c body p) sfx fd sd off .run below s1' υ1 hB hcw hl hw0 rfl (hrel2.setPc _)
        ((hinv0.of_same hss2).of_same hss3)
      simp only [desugar] at hloop
      simp only
      exact StmtPost.of_steps (st2.trans (Steps.one s3)) (hss2.trans hss3) hloop
    | jump L =>
      simp only
      by_cases hL : (desugar body).hasLabel L = true
      · -- a jump to a label inside the body: it is at least as deep as the loop, nothing was popped: re-enter in seek mode
        simp only [hL, if_true]
        have hLb : L ∈ body.labels := (hasLabel_iff hwb L).mp hL
        obtain ⟨g1, g2⟩ := hlb.depth_ge hLb
        obtain ⟨υ, st, hp, hrυ, e1, e2, e3, e4, e5, e6, e7, e8⟩ := hb
        have hd0 : fd - W.env.dp.fd L = 0 := by omega
        have he0 : sd - W.env.dp.sd L = 0 := by omega
        rw [hd0] at e1; rw [he0] at e2
        have hssυ : SameStacks τ0 υ := ⟨by simpa using e2, e3, by simpa using e1, e5, e6, e4, e7, e8⟩
        have hloop := ihs B (.while c body p) sfx fd sd off (.seek L) below s1' υ hB hcw hl hw0
          ⟨by simpa only [SStmt.labels] using hLb, hp⟩ hrυ (hinv0.of_same hssυ)
        simp only [desugar] at hloop
        exact StmtPost.of_steps st hssυ hloop
      · simp only [hL]
        exact hb
    | exited => exact hb
    | halted => exact hb
    | ret q => exact hb
    | error cd q => exact hb
    | inexact => trivial
    | outOfFuel => trivial
    | illFormed => trivial
    | notHere => trivial
  simp only [desugar] at hent ⊢
  simp only [ProcJ.Ref.exec, hent, if_true]
  cases m with
  | seek L =>
    -- entered at a label inside the body: no test
    have hLb : L ∈ body.labels := by simpa only [SStmt.labels] using hen.1
    simp only
    exact hbody σ s ⟨hLb, hen.2⟩ hr (SameStacks.refl σ)
  | run =>
    have hpc : σ.pc = off := hen
    subst hpc
    have hlab : W.code[σ.pc]? = some (CInstr.label (labelName "while" p sfx), p) :=
      hc.append_left.append_left.append_left.append_left.head
    let σ1 : Vm := Vm.advance σ
    have s1 : Vm.step W.code σ = .next σ1 := by simp only [Vm.step, hlab]; rfl
    have hss1 : SameStacks σ σ1 := ⟨rfl, rfl, rfl, rfl, rfl, rfl, rfl, id⟩
    have hcc : CodeAt W.code (σ.pc + 1)
        (compileExpr W.lay (σ.pc + 1) c ++
          [(CInstr.jumpIfFalse (σ.pc + 1 + sizeExpr c + 1 + sizeStmt W.env.dp fd sd body + 1), p)]) := by
      have h := hc.append_left.append_left
      have h' : CodeAt W.code σ.pc ([(CInstr.label (labelName "while" p sfx), p)] ++
          (compileExpr W.lay (σ.pc + 1) c ++
            [(CInstr.jumpIfFalse (σ.pc + 1 + sizeExpr c + 1 + sizeStmt W.env.dp fd sd body + 1), p)])) := by
        simpa only [List.append_assoc] using h
      have := h'.append_right
      simpa only [List.length_singleton] using this
    have hcond := cond_correct' W fuel ih B.sc c _ p (σ.pc + 1) [] below s σ1 hcc rfl hr.advance hwc hnc
    simp only
    generalize ProcJ.Ref.evalCond W.P fuel c s = rc at hcond ⊢
    obtain ⟨s1', rb⟩ := rc
    cases rb with
    | error o => exact StmtPost.of_steps (Steps.one s1) hss1 (StmtPost.of_err hcond)
    | ok bv =>
      cases bv with
      | false =>
        obtain ⟨τ, st, hp, hrel, hss⟩ := hcond
        have hwend' : W.code[τ.pc]? = some (CInstr.label (labelName "wend" p sfx), p) := by rw [hp]; exact hwend
        have s2 : Vm.step W.code τ = .next (Vm.advance τ) := by simp only [Vm.step, hwend']
        simp only [StmtPost]
        refine ⟨Vm.advance τ, (Steps.cons s1 st).trans (Steps.one s2), ?_, hrel.advance,
          (hss1.trans hss).trans ⟨rfl, rfl, rfl, rfl, rfl, rfl, rfl, id⟩⟩
        show τ.pc + 1 = _
        rw [hp, hsize]; omega
      | true =>
        obtain ⟨τ, st, hp, hrel, hss⟩ := hcond
        have := hbody τ s1' hp hrel (hss1.trans hss)
        exact StmtPost.of_steps (Steps.cons s1 st) (hss1.trans hss) this

end RbThm.ProcJSim
