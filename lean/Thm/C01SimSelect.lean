import Thm.C01SimIf
/-!
C01, simulation part: the SELECT CASE statement.

Generated shape: `<selector>; PushAToValueStack; Jump select-begin; Jump select-skip; select-begin:` (a resume point),
then per CASE block `caseN` label, the item tests
(`<item>; CopyAToB; PopValueStackIntoA; PushAToValueStack; <comparison>; JumpIfFalse next` — selector in A, item in B,
the selector stays on the value stack), an optional `case-statementsN` label, the body, `Jump end-select`; then the
optional `case-else` part, the `end-select` label, `PopValueStackIntoA` and the `select-skip` label.

`sel_cmp_tail` is one comparison against `relTest`, `caseExpr_correct` one item against `caseMatches`, `conds_correct`
the item list of a block against `anyMatches`, `cases_correct` walks the blocks by structural recursion (one unit of
fuel per block) against `execCases`, `case_select` puts the selector, the blocks, the optional CASE ELSE part and the
closing `end-select; PopValueStackIntoA` together.  Comparison errors: the instruction carries the SELECT's position,
which is the position `relTest` reports.

Uses from `Wf`: a CASE block has at least one item, and the operator of `CASE IS` is relational.
-/
namespace RbThm.C01Sim
set_option linter.unusedVariables false
set_option linter.unusedSimpArgs false
open RbModel RbModel.Num RbModel.Ast RbModel.Src RbModel.Core RbModel.CoreVm RbModel.Ref
open RbThm.C01Len

/-- the six relational operators (what the parser accepts after `CASE IS`) -/
def SelRelOp (op : Op) : Prop :=
  op = .less ∨ op = .lessOrEqual ∨ op = .equal ∨ op = .greaterOrEqual ∨ op = .greater ∨ op = .notEqual

/-- the comparison instructions turn `try_cmp` into −1 / 0 -/
theorem sel_binInstr_rel {op : Op} (h : SelRelOp op) (a b : Val) :
    binInstr op a b = (tryCmp a b).bind fun o => Res.ok (ofBool (relHolds op o)) := by
  rcases h with h | h | h | h | h | h <;> subst h <;> rfl

theorem sel_truthy_ofBool (b : Bool) : truthy (ofBool b) = some b := by
  cases b <;> rfl

/-- everything but the program counter, the registers (and the argument list / call position) is as it was -/
structure SelKeeps (τ τ' : Vm) : Prop where
  regStack : τ'.regStack = τ.regStack
  vals : τ'.vals = τ.vals
  paths : τ'.paths = τ.paths
  env : τ'.env = τ.env
  out : τ'.out = τ.out
  skip : τ'.skipNewline = τ.skipNewline
  data : τ'.data = τ.data
  dataIdx : τ'.dataIdx = τ.dataIdx
  queue : τ'.queue = τ.queue

theorem SelKeeps.refl (τ : Vm) : SelKeeps τ τ := ⟨rfl, rfl, rfl, rfl, rfl, rfl, rfl, rfl, rfl⟩

theorem SelKeeps.trans {a b c : Vm} (h₁ : SelKeeps a b) (h₂ : SelKeeps b c) : SelKeeps a c :=
  ⟨h₂.regStack.trans h₁.regStack, h₂.vals.trans h₁.vals, h₂.paths.trans h₁.paths, h₂.env.trans h₁.env,
    h₂.out.trans h₁.out, h₂.skip.trans h₁.skip, h₂.data.trans h₁.data, h₂.dataIdx.trans h₁.dataIdx,
    h₂.queue.trans h₁.queue⟩

theorem SelKeeps.afterExpr (τ : Vm) (pc : Nat) (v b : Val) : SelKeeps τ (afterExpr τ pc v b) :=
  ⟨rfl, rfl, rfl, rfl, rfl, rfl, rfl, rfl, rfl⟩

theorem SelKeeps.rel {s : St} {τ τ' : Vm} (h : SelKeeps τ τ') (hr : Rel s τ) : Rel s τ' :=
  ⟨h.env.trans hr.env, h.out.trans hr.out, h.skip.trans hr.skip, h.data.trans hr.data,
    h.dataIdx.trans hr.dataIdx, h.queue.trans hr.queue⟩

theorem SelKeeps.stacks {τ τ' : Vm} (h : SelKeeps τ τ') : SameStacks τ τ' := ⟨h.regStack, h.vals, h.paths⟩

/-- what the code of a test does: on `true` it arrives at `yes`, on `false` at `no`, in both cases with everything but
the program counter and the registers as it was -/
def SelTestSpec (code : Code) (τ : Vm) (yes no : Nat) : Except Outcome Bool → Prop
  | .ok true => ∃ τ', Steps code τ τ' ∧ τ'.pc = yes ∧ SelKeeps τ τ'
  | .ok false => ∃ τ', Steps code τ τ' ∧ τ'.pc = no ∧ SelKeeps τ τ'
  | .error (.error c r) => ErrsWith code τ c r τ.env τ.out
  | .error _ => True

theorem SelTestSpec.prefix {code : Code} {τ0 τ : Vm} {yes no : Nat} {r : Except Outcome Bool}
    (st : Steps code τ0 τ) (hk : SelKeeps τ0 τ) (h : SelTestSpec code τ yes no r) : SelTestSpec code τ0 yes no r := by
  cases r with
  | ok b =>
    cases b with
    | true =>
      simp only [SelTestSpec] at h ⊢
      obtain ⟨τ', st', hp, hk'⟩ := h
      exact ⟨τ', st.trans st', hp, hk.trans hk'⟩
    | false =>
      simp only [SelTestSpec] at h ⊢
      obtain ⟨τ', st', hp, hk'⟩ := h
      exact ⟨τ', st.trans st', hp, hk.trans hk'⟩
  | error o =>
    cases o with
    | error c r =>
      simp only [SelTestSpec] at h ⊢
      rw [← hk.env, ← hk.out]
      exact ErrsWith.of_steps st h
    | normal => simp [SelTestSpec]
    | halted => simp [SelTestSpec]
    | inexact => simp [SelTestSpec]
    | outOfFuel => simp [SelTestSpec]

/-- `CopyAToB; PopValueStackIntoA; PushAToValueStack; <comparison>; JumpIfFalse next`: the SELECT subject (top of the
value stack, kept there) is compared with the CASE item's value in A -/
theorem sel_cmp_tail (code : Code) (op : Op) (hop : SelRelOp op) (p : Pos) (next q : Nat) (τ : Vm) (subj v : Val)
    (vs : List Val)
    (hc : CodeAt code q [(CInstr.copyAToB, p), (CInstr.popA, p), (CInstr.pushA, p), (CInstr.bin op, p),
      (CInstr.jumpIfFalse next, p)])
    (hpc : τ.pc = q) (ha : τ.regs.a = v) (hv : τ.vals = subj :: vs) :
    SelTestSpec code τ (q + 5) next (relTest p op subj v) := by
  subst hpc
  have h0 : code[τ.pc]? = some (CInstr.copyAToB, p) := hc.head
  have h1 : code[τ.pc + 1]? = some (CInstr.popA, p) := hc.tail.head
  have h2 : code[τ.pc + 1 + 1]? = some (CInstr.pushA, p) := hc.tail.tail.head
  have h3 : code[τ.pc + 1 + 1 + 1]? = some (CInstr.bin op, p) := hc.tail.tail.tail.head
  have h4 : code[τ.pc + 1 + 1 + 1 + 1]? = some (CInstr.jumpIfFalse next, p) := hc.tail.tail.tail.tail.head
  let τ1 : Vm := advance { τ with regs := { τ.regs with b := τ.regs.a } }
  let τ2 : Vm := advance { setA τ1 subj with vals := vs }
  let τ3 : Vm := advance { τ2 with vals := subj :: vs }
  have s1 : CoreVm.step code τ = .next τ1 := by simp only [CoreVm.step, h0]; rfl
  have s2 : CoreVm.step code τ1 = .next τ2 := by simp only [CoreVm.step, τ1, advance, h1, hv]; rfl
  have s3 : CoreVm.step code τ2 = .next τ3 := by simp only [CoreVm.step, τ2, τ1, advance, setA, h2]; rfl
  have s4 : CoreVm.step code τ3 = resA τ3 p (binInstr op subj v) := by
    simp only [CoreVm.step, τ3, τ2, τ1, advance, setA, h3, ha]
  have st : Steps code τ τ3 := Steps.cons s1 (Steps.cons s2 (Steps.one s3))
  rw [sel_binInstr_rel hop] at s4
  simp only [relTest]
  cases ht : tryCmp subj v with
  | ok o =>
    let τ4 : Vm := advance (setA τ3 (ofBool (relHolds op o)))
    have s4' : CoreVm.step code τ3 = .next τ4 := by rw [s4, ht]; rfl
    have hj : code[τ4.pc]? = some (CInstr.jumpIfFalse next, p) := h4
    have ht4 : truthy τ4.regs.a = some (relHolds op o) := sel_truthy_ofBool _
    dsimp only
    cases hb : relHolds op o with
    | true =>
      rw [hb] at ht4
      simp only [SelTestSpec]
      refine ⟨advance τ4, st.trans (Steps.cons s4' (Steps.one ?_)), rfl, ?_⟩
      · simp only [CoreVm.step, hj, ht4]
      · exact ⟨rfl, hv.symm, rfl, rfl, rfl, rfl, rfl, rfl, rfl⟩
    | false =>
      rw [hb] at ht4
      simp only [SelTestSpec]
      refine ⟨{ τ4 with pc := next }, st.trans (Steps.cons s4' (Steps.one ?_)), rfl, ?_⟩
      · simp only [CoreVm.step, hj, ht4]
      · exact ⟨rfl, hv.symm, rfl, rfl, rfl, rfl, rfl, rfl, rfl⟩
  | err e =>
    simp only [SelTestSpec]
    refine ⟨τ3, τ3, st, ?_, rfl, rfl⟩
    rw [s4, ht]; rfl
  | inexact => simp [SelTestSpec]

/-- one comparison of the subject with the value of an expression -/
def selItemTest (env : List Val) (p : Pos) (op : Op) (subj : Val) (e : Ast.Expr) : Except Outcome Bool :=
  match evalE env e with
  | .error o => .error o
  | .ok v => relTest p op subj v

theorem caseMatches_simple (env : List Val) (p : Pos) (subj : Val) (e : Ast.Expr) :
    caseMatches env p subj (.simple e) = selItemTest env p .equal subj e := by
  simp only [caseMatches, selItemTest, bind, Except.bind]
  cases evalE env e <;> rfl

theorem caseMatches_is (env : List Val) (p : Pos) (subj : Val) (op : Op) (e : Ast.Expr) :
    caseMatches env p subj (.is op e) = selItemTest env p op subj e := by
  simp only [caseMatches, selItemTest, bind, Except.bind]
  cases evalE env e <;> rfl

theorem caseMatches_range (env : List Val) (p : Pos) (subj : Val) (lo hi : Ast.Expr) :
    caseMatches env p subj (.range lo hi) =
      match selItemTest env p .greaterOrEqual subj lo with
      | .error o => .error o
      | .ok true => selItemTest env p .lessOrEqual subj hi
      | .ok false => .ok false := by
  simp only [caseMatches, selItemTest, bind, Except.bind, pure, Except.pure]
  cases evalE env lo with
  | error o => rfl
  | ok l =>
    dsimp only
    cases relTest p .greaterOrEqual subj l with
    | error o => rfl
    | ok b =>
      cases b with
      | false => rfl
      | true =>
        dsimp only
        cases evalE env hi <;> rfl

theorem anyMatches_cons (env : List Val) (p : Pos) (subj : Val) (c : CaseExpr) (rest : List CaseExpr) :
    anyMatches env p subj (c :: rest) =
      match caseMatches env p subj c with
      | .error o => .error o
      | .ok true => .ok true
      | .ok false => anyMatches env p subj rest := by
  simp only [anyMatches, bind, Except.bind, pure, Except.pure]
  cases caseMatches env p subj c with
  | error o => rfl
  | ok b => cases b <;> rfl

/-! ### a test that fails fails with a BASIC error or leaves the exact domain -/

theorem selItemTest_error_kind {env : List Val} {p : Pos} {op : Op} {subj : Val} {e : Ast.Expr} {o : Outcome}
    (h : selItemTest env p op subj e = .error o) : (∃ cd q, o = .error cd q) ∨ o = .inexact := by
  simp only [selItemTest, evalE] at h
  cases he : eval env e with
  | err c q => simp [he] at h; exact .inl ⟨c, q, h.symm⟩
  | inexact => simp [he] at h; exact .inr h.symm
  | ok v =>
    simp only [he, relTest] at h
    cases ht : tryCmp subj v with
    | ok x => simp [ht] at h
    | err er => simp [ht] at h; exact .inl ⟨_, _, h.symm⟩
    | inexact => simp [ht] at h; exact .inr h.symm

theorem caseMatches_error_kind {env : List Val} {p : Pos} {subj : Val} {c : CaseExpr} {o : Outcome}
    (h : caseMatches env p subj c = .error o) : (∃ cd q, o = .error cd q) ∨ o = .inexact := by
  cases c with
  | simple e => rw [caseMatches_simple] at h; exact selItemTest_error_kind h
  | is op e => rw [caseMatches_is] at h; exact selItemTest_error_kind h
  | range lo hi =>
    rw [caseMatches_range] at h
    cases h1 : selItemTest env p .greaterOrEqual subj lo with
    | error o1 =>
      rw [h1] at h
      injection h with h
      subst h
      exact selItemTest_error_kind h1
    | ok b =>
      rw [h1] at h
      cases b with
      | true => exact selItemTest_error_kind h
      | false => cases h

theorem anyMatches_error_kind {env : List Val} {p : Pos} {subj : Val} {o : Outcome} :
    ∀ (conds : List CaseExpr), anyMatches env p subj conds = .error o → (∃ cd q, o = .error cd q) ∨ o = .inexact
  | [], h => by simp [anyMatches, pure, Except.pure] at h
  | c :: rest, h => by
    rw [anyMatches_cons] at h
    cases h1 : caseMatches env p subj c with
    | error o1 =>
      rw [h1] at h
      injection h with h
      subst h
      exact caseMatches_error_kind h1
    | ok b =>
      rw [h1] at h
      cases b with
      | true => cases h
      | false => exact anyMatches_error_kind rest h

/-- `<expr>; CopyAToB; PopValueStackIntoA; PushAToValueStack; <comparison>; JumpIfFalse next` -/
theorem sel_item_correct (code : Code) (op : Op) (hop : SelRelOp op) (p : Pos) (next off : Nat) (τ : Vm) (subj : Val)
    (vs : List Val) (e : Ast.Expr)
    (hc : CodeAt code off (compileExpr e ++ [(CInstr.copyAToB, p), (CInstr.popA, p), (CInstr.pushA, p),
      (CInstr.bin op, p), (CInstr.jumpIfFalse next, p)]))
    (hpc : τ.pc = off) (hv : τ.vals = subj :: vs) (hs : SlotsBelow τ.env.length e) :
    SelTestSpec code τ (off + (compileExpr e).length + 5) next (selItemTest τ.env p op subj e) := by
  have he := compileExpr_correct code e off τ hc.append_left hpc hs
  simp only [ExprSpec] at he
  simp only [selItemTest, evalE]
  cases hev : eval τ.env e with
  | err c q =>
    simp only [hev] at he
    simp only [SelTestSpec]
    exact he
  | inexact => simp [SelTestSpec]
  | ok v =>
    simp only [hev] at he
    obtain ⟨b, st⟩ := he
    have := sel_cmp_tail code op hop p next (off + (compileExpr e).length)
      (afterExpr τ (off + (compileExpr e).length) v b) subj v vs hc.append_right rfl rfl hv
    exact SelTestSpec.prefix st (SelKeeps.afterExpr _ _ _ _) this

/-- one CASE item: `generate_case_expression` -/
theorem caseExpr_correct (code : Code) (p : Pos) (next off : Nat) (τ : Vm) (subj : Val) (vs : List Val)
    (c : CaseExpr) (hc : CodeAt code off (compileCaseExpr p next c))
    (hpc : τ.pc = off) (hv : τ.vals = subj :: vs) (hs : CaseSlots τ.env.length c) :
    SelTestSpec code τ (off + sizeCaseExpr c) next (caseMatches τ.env p subj c) := by
  cases c with
  | simple e =>
    simp only [compileCaseExpr] at hc
    rw [caseMatches_simple]
    exact sel_item_correct code .equal (.inr (.inr (.inl rfl))) p next off τ subj vs e hc hpc hv hs
  | is op e =>
    simp only [compileCaseExpr] at hc
    rw [caseMatches_is]
    exact sel_item_correct code op hs.1 p next off τ subj vs e hc hpc hv hs.2
  | range lo hi =>
    simp only [compileCaseExpr] at hc
    rw [caseMatches_range]
    obtain ⟨hslo, hshi⟩ := hs
    have h1 := sel_item_correct code .greaterOrEqual (.inr (.inr (.inr (.inl rfl)))) p next off τ subj vs lo
      hc.append_left.append_left hpc hv hslo
    cases ht1 : selItemTest τ.env p .greaterOrEqual subj lo with
    | error o =>
      rw [ht1] at h1
      cases o <;> simp [SelTestSpec] at h1 ⊢ <;> exact h1
    | ok b =>
      rw [ht1] at h1
      cases b with
      | false => simpa [SelTestSpec] using h1
      | true =>
        simp only [SelTestSpec] at h1
        obtain ⟨τ', st, hp', hk⟩ := h1
        have hc2 : CodeAt code (off + (compileExpr lo).length + 5)
            (compileExpr hi ++ [(CInstr.copyAToB, p), (CInstr.popA, p), (CInstr.pushA, p),
              (CInstr.bin .lessOrEqual, p), (CInstr.jumpIfFalse next, p)]) := by
          have h' : CodeAt code off ((compileExpr lo ++ [(CInstr.copyAToB, p), (CInstr.popA, p), (CInstr.pushA, p),
              (CInstr.bin .greaterOrEqual, p), (CInstr.jumpIfFalse next, p)]) ++
              (compileExpr hi ++ [(CInstr.copyAToB, p), (CInstr.popA, p), (CInstr.pushA, p),
              (CInstr.bin .lessOrEqual, p), (CInstr.jumpIfFalse next, p)])) := by
            simpa only [List.append_assoc] using hc
          have := h'.append_right
          simp only [List.length_append, List.length_cons, List.length_nil] at this
          have e : off + ((compileExpr lo).length + (0 + 1 + 1 + 1 + 1 + 1)) = off + (compileExpr lo).length + 5 := by
            omega
          rw [e] at this
          exact this
        have h2 := sel_item_correct code .lessOrEqual (.inr (.inl rfl)) p next _ τ' subj vs hi hc2 hp'
          (by rw [hk.vals]; exact hv) (by rw [hk.env]; exact hshi)
        rw [hk.env] at h2
        have := SelTestSpec.prefix st hk h2
        simp only [sizeCaseExpr]
        have e : off + ((compileExpr lo).length + 5 + (compileExpr hi).length + 5) =
            off + (compileExpr lo).length + 5 + (compileExpr hi).length + 5 := by omega
        rw [e]
        exact this

/-- the item list of one CASE block (`generate_case_expressions`): on a match control arrives at `stmts` (the block's
statements, or the `case-statements` label in front of them), otherwise at `nextCase` -/
theorem conds_correct (code : Code) (p : Pos) (sfx : String) (bi nextCase stmts : Nat) (subj : Val) (vs : List Val) :
    ∀ (conds : List CaseExpr) (off ei : Nat) (τ : Vm), conds ≠ [] →
      CodeAt code off (compileConds p sfx bi nextCase stmts off ei conds) → stmts = off + sizeConds conds →
      τ.pc = off → τ.vals = subj :: vs → CondsSlots τ.env.length conds →
      SelTestSpec code τ stmts nextCase (anyMatches τ.env p subj conds)
  | [], _, _, _, hne, _, _, _, _, _ => absurd rfl hne
  | [c], off, ei, τ, _, hc, hst, hpc, hv, hs => by
    simp only [compileConds] at hc
    simp only [sizeConds] at hst
    have h := caseExpr_correct code p nextCase off τ subj vs c hc hpc hv hs.1
    rw [anyMatches_cons]
    subst hst
    cases hm : caseMatches τ.env p subj c with
    | error o => rw [hm] at h; exact h
    | ok b =>
      rw [hm] at h
      cases b with
      | true => exact h
      | false => exact h
  | c :: d :: rest, off, ei, τ, _, hc, hst, hpc, hv, hs => by
    simp only [compileConds] at hc
    simp only [sizeConds] at hst
    have h := caseExpr_correct code p (off + sizeCaseExpr c + 1) off τ subj vs c
      hc.append_left.append_left.append_left hpc hv hs.1
    have hjmp : code[off + sizeCaseExpr c]? = some (CInstr.jump stmts, p) := by
      have := hc.append_left.append_left.append_right.head
      simp only [len_caseExpr] at this
      exact this
    have hlab : code[off + sizeCaseExpr c + 1]? =
        some (CInstr.label (labelName ("case-multi-expr-" ++ toString bi ++ "-" ++ toString (ei + 1)) p sfx), p) := by
      have := hc.append_left.append_right.head
      simp only [List.length_append, List.length_singleton, len_caseExpr] at this
      exact this
    have hrest : CodeAt code (off + sizeCaseExpr c + 1 + 1)
        (compileConds p sfx bi nextCase stmts (off + sizeCaseExpr c + 1 + 1) (ei + 1) (d :: rest)) := by
      have := hc.append_right
      simp only [List.length_append, List.length_singleton, len_caseExpr] at this
      exact this
    rw [anyMatches_cons]
    cases hm : caseMatches τ.env p subj c with
    | error o => rw [hm] at h; cases o <;> simp [SelTestSpec] at h ⊢ <;> exact h
    | ok b =>
      rw [hm] at h
      cases b with
      | true =>
        simp only [SelTestSpec] at h ⊢
        obtain ⟨τ', st, hp', hk⟩ := h
        have hj' : code[τ'.pc]? = some (CInstr.jump stmts, p) := by rw [hp']; exact hjmp
        have s1 : CoreVm.step code τ' = .next { τ' with pc := stmts } := by simp only [CoreVm.step, hj']
        exact ⟨{ τ' with pc := stmts }, st.trans (Steps.one s1), rfl,
          hk.trans ⟨rfl, rfl, rfl, rfl, rfl, rfl, rfl, rfl, rfl⟩⟩
      | false =>
        simp only [SelTestSpec] at h
        obtain ⟨τ', st, hp', hk⟩ := h
        have hl' : code[τ'.pc]? = some (CInstr.label
            (labelName ("case-multi-expr-" ++ toString bi ++ "-" ++ toString (ei + 1)) p sfx), p) := by
          rw [hp']; exact hlab
        have s1 : CoreVm.step code τ' = .next (advance τ') := by simp only [CoreVm.step, hl']
        have hk1 : SelKeeps τ (advance τ') := hk.trans ⟨rfl, rfl, rfl, rfl, rfl, rfl, rfl, rfl, rfl⟩
        have ih := conds_correct code p sfx bi nextCase stmts subj vs (d :: rest) (off + sizeCaseExpr c + 1 + 1)
          (ei + 1) (advance τ') (by simp) hrest (by omega) (by simp only [advance, hp'])
          (by rw [hk1.vals]; exact hv) (by rw [hk1.env]; exact hs.2)
        rw [hk1.env] at ih
        exact SelTestSpec.prefix (st.trans (Steps.one s1)) hk1 ih

/-- the CASE blocks: running from the label of block `i` does what `execCases` prescribes and, on a normal end, arrives
at `endOff`; `htail` says what happens once all blocks have been tried and control is at `elseOff` -/
theorem cases_correct (code : Code) (fuel : Nat) (ih : StmtIHle code fuel) (sfx : String) (p : Pos)
    (endOff elseOff : Nat) (subj : Val) (vs : List Val) (tail : Cases) (sl : List Ty) (s : St) (hty : Typed sl s.env)
    (htail : ∀ f, f ≤ fuel → ∀ σ : Vm, σ.pc = elseOff → Rel s σ → σ.vals = subj :: vs →
      StmtSpec code 0 endOff σ s (execCases f p subj tail s)) :
    ∀ (cs : SCases) (f : Nat), f ≤ fuel → ∀ (off i : Nat) (σ : Vm),
      CodeAt code off (compileCases sfx p endOff elseOff off i cs) → off + sizeCases cs = elseOff →
      σ.pc = off → Rel s σ → σ.vals = subj :: vs → WfCases sl cs →
      StmtSpec code 0 endOff σ s (execCases f p subj (desugarCases cs tail) s)
  | .nil, f, hf, off, i, σ, hc, he, hpc, hr, hv, hw => by
    simp only [desugarCases]
    simp only [sizeCases] at he
    exact htail f hf σ (by omega) hr hv
  | .cons conds body rest, f, hf, off, i, σ, hc, he, hpc, hr, hv, hw => by
    cases f with
    | zero => simp [desugarCases, execCases, StmtSpec]
    | succ f' =>
      simp only [desugarCases, execCases]
      simp only [compileCases] at hc
      simp only [WfCases] at hw
      obtain ⟨hne, hcs, hwb, hwr⟩ := hw
      simp only [sizeCases] at he
      subst hpc
      simp only [decide_eq_true_eq] at hc
      obtain ⟨m, L, hm, hL, hLlen, hLstep⟩ : ∃ (m : Nat) (L : Code),
          (if conds.length > 1 then 1 else 0) = m ∧
          (if conds.length > 1 then [(CInstr.label (labelName ("case-statements" ++ toString i) p sfx), p)]
            else []) = L ∧
          L.length = m ∧
          (∀ q, CodeAt code q L → ∀ τ : Vm, τ.pc = q → ∃ τ', Steps code τ τ' ∧ τ'.pc = q + m ∧ SelKeeps τ τ') := by
        by_cases hmul : conds.length > 1
        · refine ⟨1, [(CInstr.label (labelName ("case-statements" ++ toString i) p sfx), p)], by simp [hmul],
            by simp [hmul], rfl, ?_⟩
          intro q hq τ hτ
          have h0 : code[τ.pc]? = some (CInstr.label (labelName ("case-statements" ++ toString i) p sfx), p) := by
            rw [hτ]; exact hq.head
          exact ⟨advance τ, Steps.one (by simp only [CoreVm.step, h0]), by simp [advance, hτ],
            ⟨rfl, rfl, rfl, rfl, rfl, rfl, rfl, rfl, rfl⟩⟩
        · refine ⟨0, [], by simp [hmul], by simp [hmul], rfl, ?_⟩
          intro q _ τ hτ
          exact ⟨τ, Steps.refl τ, by omega, SelKeeps.refl τ⟩
      simp only [hm] at he
      simp only [hm, hL] at hc
      clear hm hL
      have hlab : code[σ.pc]? = some (CInstr.label (labelName ("case" ++ toString i) p sfx), p) :=
        hc.append_left.append_left.append_left.append_left.append_left.head
      have hcc : CodeAt code (σ.pc + 1) (compileConds p sfx i (σ.pc + 1 + sizeConds conds + m + sizeStmt body + 1)
          (σ.pc + 1 + sizeConds conds) (σ.pc + 1) 0 conds) := by
        have := hc.append_left.append_left.append_left.append_left.append_right
        simpa only [List.length_singleton] using this
      have hcL : CodeAt code (σ.pc + 1 + sizeConds conds) L := by
        have := hc.append_left.append_left.append_left.append_right
        simp only [List.length_append, List.length_singleton, len_conds] at this
        have e : σ.pc + (1 + sizeConds conds) = σ.pc + 1 + sizeConds conds := by omega
        rw [e] at this
        exact this
      have hcb : CodeAt code (σ.pc + 1 + sizeConds conds + m)
          (compileStmt sfx (σ.pc + 1 + sizeConds conds + m) body) := by
        have := hc.append_left.append_left.append_right
        simp only [List.length_append, List.length_singleton, len_conds, hLlen] at this
        have e : σ.pc + (1 + sizeConds conds + m) = σ.pc + 1 + sizeConds conds + m := by omega
        rw [e] at this
        exact this
      have hj : code[σ.pc + 1 + sizeConds conds + m + sizeStmt body]? = some (CInstr.jump endOff, p) := by
        have := hc.append_left.append_right.head
        simp only [List.length_append, List.length_singleton, len_conds, len_stmt, hLlen] at this
        rw [← this]; congr 1; omega
      have hcr : CodeAt code (σ.pc + 1 + sizeConds conds + m + sizeStmt body + 1)
          (compileCases sfx p endOff elseOff (σ.pc + 1 + sizeConds conds + m + sizeStmt body + 1) (i + 1) rest) := by
        have := hc.append_right
        simp only [List.length_append, List.length_singleton, len_conds, len_stmt, hLlen] at this
        have e : σ.pc + (1 + sizeConds conds + m + sizeStmt body + 1) =
            σ.pc + 1 + sizeConds conds + m + sizeStmt body + 1 := by omega
        rw [e] at this
        exact this
      have s1 : CoreVm.step code σ = .next (advance σ) := by simp only [CoreVm.step, hlab]
      have henv1 : (advance σ).env = s.env := hr.env
      have hk0 : SelKeeps σ (advance σ) := ⟨rfl, rfl, rfl, rfl, rfl, rfl, rfl, rfl, rfl⟩
      have hconds := conds_correct code p sfx i (σ.pc + 1 + sizeConds conds + m + sizeStmt body + 1)
        (σ.pc + 1 + sizeConds conds) subj vs conds (σ.pc + 1) 0 (advance σ) hne hcc rfl rfl hv
        (by rw [henv1, hty.len]; exact hcs)
      rw [henv1] at hconds
      cases ham : anyMatches s.env p subj conds with
      | error o =>
        rw [ham] at hconds
        cases o with
        | error cd q =>
          simp only [SelTestSpec] at hconds
          simp only [StmtSpec]
          refine ⟨s.env, ?_⟩
          have := ErrsWith.of_steps (Steps.one s1) hconds
          rw [← hr.env, ← hr.out]
          exact this
        | normal => rcases anyMatches_error_kind _ ham with ⟨_, _, h⟩ | h <;> cases h
        | halted => rcases anyMatches_error_kind _ ham with ⟨_, _, h⟩ | h <;> cases h
        | inexact => simp [StmtSpec]
        | outOfFuel => rcases anyMatches_error_kind _ ham with ⟨_, _, h⟩ | h <;> cases h
      | ok b =>
        rw [ham] at hconds
        cases b with
        | true =>
          simp only [SelTestSpec] at hconds
          obtain ⟨τ', st, hp', hk⟩ := hconds
          obtain ⟨τ'', st2, hp'', hk2⟩ := hLstep _ hcL τ' hp'
          have hk3 : SelKeeps σ τ'' := (hk0.trans hk).trans hk2
          have hb := ih f' (by omega) body sfx _ τ'' s sl hcb hp'' (hk3.rel hr) hwb hty
          exact spec_prefix _ ((Steps.cons s1 st).trans st2) hk3.stacks (spec_then_jump _ hb hj)
        | false =>
          simp only [SelTestSpec] at hconds
          obtain ⟨τ', st, hp', hk⟩ := hconds
          have hk3 : SelKeeps σ τ' := hk0.trans hk
          have hrec := cases_correct code fuel ih sfx p endOff elseOff subj vs tail sl s hty htail rest f' (by omega)
            _ (i + 1) τ' hcr (by omega) hp' (hk3.rel hr) (by rw [hk3.vals]; exact hv) hwr
          exact spec_prefix _ (Steps.cons s1 st) hk3.stacks hrec

/-! ### the statement -/

theorem case_select (code : Code) (fuel : Nat) (ih : StmtIHle code fuel) (htp : ExecTyped) (e : Ast.Expr) (cases : SCases)
    (hasElse : Bool) (els : SStmt) (p : Pos) (sfx : String) (off : Nat) (σ : Vm) (s : St)
    (hc : CodeAt code off (compileStmt sfx off (.select e cases hasElse els p))) (hpc : σ.pc = off) (hr : Rel s σ)
    (sl : List Ty) (hw : Wf sl (.select e cases hasElse els p)) (hty : Typed sl s.env) :
    StmtSpec code (sizeStmt (.select e cases hasElse els p)) off σ s
      (exec (fuel + 1) (desugar (.select e cases hasElse els p)) s) := by
  simp only [compileStmt] at hc
  simp only [Wf] at hw
  obtain ⟨hse, hwc, hwe, _⟩ := hw
  have he := compileExpr_correct code e off σ hc.append_left.append_left.append_left.append_left.append_left hpc
    (by rw [hr.env, hty.len]; exact hse)
  simp only [ExprSpec] at he
  rw [hr.env] at he
  simp only [desugar, exec, sizeStmt, evalE]
  cases hev : eval s.env e with
  | err c q =>
    simp only [hev] at he
    simp only [StmtSpec]
    rw [← hr.out]
    exact ⟨_, he⟩
  | inexact => simp [StmtSpec]
  | ok subj =>
    simp only [hev] at he
    obtain ⟨b, st⟩ := he
    dsimp only
    -- the optional CASE ELSE part, abstractly
    obtain ⟨k, T, E, hk, hT, hE, hElen, htail⟩ : ∃ (k : Nat) (T : Cases) (E : Code),
        (if hasElse = true then 1 + sizeStmt els else 0) = k ∧
        (if hasElse = true then Cases.else_ (desugar els) else Cases.nil) = T ∧
        (if hasElse = true then [(CInstr.label (labelName "case-else" p sfx), p)] ++
          compileStmt sfx (off + (compileExpr e).length + 1 + 3 + sizeCases cases + 1) els else []) = E ∧
        E.length = k ∧
        (CodeAt code (off + (compileExpr e).length + 1 + 3 + sizeCases cases) E →
          ∀ f, f ≤ fuel → ∀ τ : Vm, τ.pc = off + (compileExpr e).length + 1 + 3 + sizeCases cases → Rel s τ →
            τ.vals = subj :: σ.vals →
            StmtSpec code 0 (off + (compileExpr e).length + 1 + 3 + sizeCases cases + k) τ s (execCases f p subj T s)) := by
      cases hasElse with
      | false =>
        refine ⟨0, Cases.nil, [], by simp, by simp, by simp, rfl, ?_⟩
        intro _ f hf τ hτ hrτ _
        cases f with
        | zero => simp [execCases, StmtSpec]
        | succ f' =>
          simp only [execCases, StmtSpec]
          exact ⟨τ, Steps.refl τ, by omega, hrτ, SameStacks.refl τ, trivial⟩
      | true =>
        refine ⟨1 + sizeStmt els, Cases.else_ (desugar els),
          [(CInstr.label (labelName "case-else" p sfx), p)] ++
            compileStmt sfx (off + (compileExpr e).length + 1 + 3 + sizeCases cases + 1) els, by simp, by simp, by simp,
          by simp [len_stmt]; omega, ?_⟩
        intro hcE f hf τ hτ hrτ _
        cases f with
        | zero => simp [execCases, StmtSpec]
        | succ f' =>
          simp only [execCases]
          have hl : code[τ.pc]? = some (CInstr.label (labelName "case-else" p sfx), p) := by
            rw [hτ]; exact hcE.append_left.head
          have s1 : CoreVm.step code τ = .next (advance τ) := by simp only [CoreVm.step, hl]
          have hcb : CodeAt code (off + (compileExpr e).length + 1 + 3 + sizeCases cases + 1)
              (compileStmt sfx (off + (compileExpr e).length + 1 + 3 + sizeCases cases + 1) els) := by
            have := hcE.append_right
            simpa only [List.length_singleton] using this
          have hb := ih f' (by omega) els sfx _ (advance τ) s sl hcb (by simp only [advance, hτ]) (rel_advance hrτ)
            hwe hty
          exact spec_prefix _ (Steps.one s1) ⟨rfl, rfl, rfl⟩ (spec_addr _ (by omega) hb)
    simp only [hk, hT, hE] at hc ⊢
    clear hk hT hE
    have hpush : code[off + (compileExpr e).length]? = some (CInstr.pushA, p) :=
      hc.append_left.append_left.append_left.append_left.append_right.head
    have hjb : code[off + (compileExpr e).length + 1]? =
        some (CInstr.jump (off + (compileExpr e).length + 1 + 3 - 1), p) := by
      have := hc.append_left.append_left.append_left.append_right.head
      simp only [List.length_append, List.length_singleton] at this
      rw [← this]; congr 1
    have hlb : code[off + (compileExpr e).length + 1 + 3 - 1]? =
        some (CInstr.label (labelName "select-begin" p sfx), p) := by
      have := hc.append_left.append_left.append_left.append_right.tail.tail.head
      simp only [List.length_append, List.length_singleton] at this
      rw [← this]; congr 1
    have hcc : CodeAt code (off + (compileExpr e).length + 1 + 3)
        (compileCases sfx p (off + (compileExpr e).length + 1 + 3 + sizeCases cases + k)
          (off + (compileExpr e).length + 1 + 3 + sizeCases cases) (off + (compileExpr e).length + 1 + 3) 0 cases) := by
      have := hc.append_left.append_left.append_right
      simp only [List.length_append, List.length_singleton, List.length_cons, List.length_nil] at this
      have e1 : off + ((compileExpr e).length + 1 + (0 + 1 + 1 + 1)) = off + (compileExpr e).length + 1 + 3 := by omega
      rw [e1] at this
      exact this
    have hcE : CodeAt code (off + (compileExpr e).length + 1 + 3 + sizeCases cases) E := by
      have := hc.append_left.append_right
      simp only [List.length_append, List.length_singleton, List.length_cons, List.length_nil, len_cases] at this
      have e1 : off + ((compileExpr e).length + 1 + (0 + 1 + 1 + 1) + sizeCases cases) =
          off + (compileExpr e).length + 1 + 3 + sizeCases cases := by omega
      rw [e1] at this
      exact this
    have hend : CodeAt code (off + (compileExpr e).length + 1 + 3 + sizeCases cases + k)
        [(CInstr.label (labelName "end-select" p sfx), p), (CInstr.popA, p),
          (CInstr.label (labelName "select-skip" p sfx), p)] := by
      have := hc.append_right
      simp only [List.length_append, List.length_singleton, List.length_cons, List.length_nil, len_cases, hElen]
        at this
      have e1 : off + ((compileExpr e).length + 1 + (0 + 1 + 1 + 1) + sizeCases cases + k) =
          off + (compileExpr e).length + 1 + 3 + sizeCases cases + k := by omega
      rw [e1] at this
      exact this
    have hlend : code[off + (compileExpr e).length + 1 + 3 + sizeCases cases + k + 0]? =
        some (CInstr.label (labelName "end-select" p sfx), p) := hend.head
    have hpop : code[off + (compileExpr e).length + 1 + 3 + sizeCases cases + k + 1]? = some (CInstr.popA, p) :=
      hend.tail.head
    have hskip : code[off + (compileExpr e).length + 1 + 3 + sizeCases cases + k + 1 + 1]? =
        some (CInstr.label (labelName "select-skip" p sfx), p) := hend.tail.tail.head
    -- push the subject, jump to the `select-begin` label, step over it
    let σ1 : Vm := afterExpr σ (off + (compileExpr e).length) subj b
    let σ2 : Vm := advance { σ1 with vals := subj :: σ.vals }
    let σ3 : Vm := { σ2 with pc := off + (compileExpr e).length + 1 + 3 - 1 }
    let σ4 : Vm := advance σ3
    have s2 : CoreVm.step code σ1 = .next σ2 := by simp only [CoreVm.step, σ1, afterExpr, hpush]; rfl
    have s3 : CoreVm.step code σ2 = .next σ3 := by
      have h : code[σ2.pc]? = some (CInstr.jump (off + (compileExpr e).length + 1 + 3 - 1), p) := hjb
      simp only [CoreVm.step, h] <;> rfl
    have s4 : CoreVm.step code σ3 = .next σ4 := by
      have h : code[σ3.pc]? = some (CInstr.label (labelName "select-begin" p sfx), p) := hlb
      simp only [CoreVm.step, h] <;> rfl
    have hr4 : Rel s σ4 := rel_of _ _ hr.env hr.out hr.skip hr.data hr.dataIdx hr.queue
    have pre : Steps code σ σ4 := st.trans (Steps.cons s2 (Steps.cons s3 (Steps.one s4)))
    have hcases := cases_correct code fuel ih sfx p (off + (compileExpr e).length + 1 + 3 + sizeCases cases + k)
      (off + (compileExpr e).length + 1 + 3 + sizeCases cases) subj σ.vals T sl s hty (htail hcE) cases fuel
      (Nat.le_refl _) (off + (compileExpr e).length + 1 + 3) 0 σ4 hcc rfl
      (by simp only [σ4, σ3, advance]; omega) hr4 rfl hwc
    have hcases' := spec_then_label _ hcases hlend
    generalize execCases fuel p subj (desugarCases cases T) s = r at hcases' ⊢
    obtain ⟨s', o⟩ := r
    cases o with
    | normal =>
      simp only [StmtSpec] at hcases' ⊢
      obtain ⟨τ, st3, hp3, hrel3, hss3, hlen3⟩ := hcases'
      have hpop' : code[τ.pc]? = some (CInstr.popA, p) := by rw [hp3]; exact hpop
      have hv3 : τ.vals = subj :: σ.vals := hss3.2.1
      let τ1 : Vm := advance { setA τ subj with vals := σ.vals }
      have s5 : CoreVm.step code τ = .next τ1 := by simp only [CoreVm.step, hpop', hv3]; rfl
      have hskip' : code[τ1.pc]? = some (CInstr.label (labelName "select-skip" p sfx), p) := by
        have : τ1.pc = off + (compileExpr e).length + 1 + 3 + sizeCases cases + k + 1 + 1 := by
          simp only [τ1, advance, setA, hp3]
        rw [this]; exact hskip
      have s6 : CoreVm.step code τ1 = .next (advance τ1) := by simp only [CoreVm.step, hskip']
      refine ⟨advance τ1, (pre.trans st3).trans (Steps.cons s5 (Steps.one s6)), ?_, ?_, ⟨hss3.1, rfl, hss3.2.2⟩, hlen3⟩
      · simp only [τ1, advance, setA, hp3]; omega
      · exact rel_of _ _ hrel3.env hrel3.out hrel3.skip hrel3.data hrel3.dataIdx hrel3.queue
    | halted =>
      simp only [StmtSpec] at hcases' ⊢
      obtain ⟨τ, υ, st3, hh, hrel3⟩ := hcases'
      exact ⟨τ, υ, pre.trans st3, hh, hrel3⟩
    | error cd q =>
      simp only [StmtSpec] at hcases' ⊢
      obtain ⟨ev, h3⟩ := hcases'
      exact ⟨ev, ErrsWith.of_steps pre h3⟩
    | inexact => simp [StmtSpec]
    | outOfFuel => simp [StmtSpec]

end RbThm.C01Sim
