import RbModel.ArrL.Spec
import Thm.C04
/-!
Arrays layer — the property-level statements of C04 over the reference semantics `ArrL.Ref` ALONE (no generator, no VM):
the three statements proposed in `RbModel/ArrL/Spec.lean`, proved.

* `store_changes_only_that_element`: `a(i…) = e` that ends normally leaves in `a(is)` the converted value, changes no other
  element of `a` (inside or outside the index box), no other array, no scalar, not the output, not the DATA cursor, and
  keeps the bounds and the element type of `a`;
* `subscript_error_iff_out_of_bounds`: given that the subscripts evaluate and convert to `is` and that the array has been
  dimensioned, the element read answers Subscript out of range (9) — at its own position — exactly when the number of
  subscripts differs from the number of dimensions or some subscript lies below its lower or above its upper declared
  bound, and answers a value exactly on the index box;
* `bounds_report_declared`: after `DIM a(dims)` ended normally, `LBOUND(a, k)` / `UBOUND(a, k)` evaluate to the `k`-th pair of
  the converted declared bounds.

Together with `RbThm.ArrLSim.compile_correct` (the VM model on the generator model's code does what `ArrL.Ref` prescribes)
these are statements about what compiled programs do.
-/
namespace RbThm.ArrLProps
set_option linter.unusedVariables false
set_option linter.unusedSimpArgs false
open RbModel RbModel.Num RbModel.ArrL
open RbModel.Ast (Pos)

abbrev RArr := RbModel.ArrL.Ref.RArr

theorem lookupCell_filter_ne (cells : List (List Int × Val)) (is js : List Int) (h : js ≠ is) :
    ArrL.Ref.lookupCell (cells.filter (fun c => !(c.1 == is))) js = ArrL.Ref.lookupCell cells js := by
  induction cells with
  | nil => rfl
  | cons c rest ih =>
    obtain ⟨k, v⟩ := c
    by_cases hk : k = is
    · subst hk
      have : ¬ (k = js) := fun e => h e.symm
      simp [List.filter, ArrL.Ref.lookupCell, this, ih]
    · have hb : (!(k == is)) = true := by simp [hk]
      simp only [List.filter, hb, ArrL.Ref.lookupCell, ih]

/-- reading back the element just stored yields the stored value -/
theorem get_set_same (A : RArr) (is : List Int) (v : Val) : (A.set is v).get is = v := by
  simp [ArrL.Ref.RArr.get, ArrL.Ref.RArr.set, ArrL.Ref.lookupCell]

/-- distinct index tuples denote distinct elements: a store leaves every other tuple alone -/
theorem get_set_other (A : RArr) (is js : List Int) (v : Val) (h : js ≠ is) : (A.set is v).get js = A.get js := by
  have : ¬ (is = js) := fun e => h e.symm
  simp only [ArrL.Ref.RArr.get, ArrL.Ref.RArr.set, ArrL.Ref.lookupCell, this, if_false]
  rw [lookupCell_filter_ne _ _ _ h]

theorem inBounds_set (A : RArr) (is js : List Int) (v : Val) : (A.set is v).inBounds js = A.inBounds js := rfl

/-- **a store changes that element only** -/
theorem store_changes_only_that_element : Spec.store_changes_only_that_element := by
  intro fuel a t idx e p s s' h
  cases fuel with
  | zero => simp [ArrL.Ref.exec] at h
  | succ f =>
    simp only [ArrL.Ref.exec] at h
    cases hv : ArrL.Ref.evalTo s.env s.arrs e t with
    | err c q => rw [hv] at h; simp [ArrL.Ref.outcomeOf] at h
    | inexact => rw [hv] at h; simp [ArrL.Ref.outcomeOf] at h
    | illFormed => rw [hv] at h; simp [ArrL.Ref.outcomeOf] at h
    | ok v =>
      rw [hv] at h
      simp only at h
      cases hi : ArrL.Ref.evalIdx s.env s.arrs idx with
      | err c q => rw [hi] at h; simp [ArrL.Ref.ERes.bind, ArrL.Ref.outcomeOf] at h
      | inexact => rw [hi] at h; simp [ArrL.Ref.ERes.bind, ArrL.Ref.outcomeOf] at h
      | illFormed => rw [hi] at h; simp [ArrL.Ref.ERes.bind, ArrL.Ref.outcomeOf] at h
      | ok is =>
        rw [hi] at h
        simp only [ArrL.Ref.ERes.bind, ArrL.Ref.getArr] at h
        cases hA : s.arrs[a]? with
        | none => rw [hA] at h; simp [ArrL.Ref.outcomeOf] at h
        | some oA =>
          cases oA with
          | none => rw [hA] at h; simp [ArrL.Ref.outcomeOf] at h
          | some A =>
            rw [hA] at h
            simp only at h
            by_cases hb : A.inBounds is = true
            · simp only [hb, if_true, Prod.mk.injEq, and_true] at h
              subst h
              have halt : a < s.arrs.length := (List.getElem?_eq_some_iff.mp hA).1
              have hnew : (s.setArr a (A.set is v)).arrs[a]? = some (some (A.set is v)) := by
                simp only [ArrL.Ref.St.setArr]; exact List.getElem?_set_self halt
              refine ⟨is, v, A, rfl, rfl, rfl, hb, ?_, ?_, ?_, rfl, rfl, rfl, rfl, ?_⟩
              · simp only [Spec.readElem, hnew, inBounds_set, hb, if_true, get_set_same]
              · intro js hjs
                simp only [Spec.readElem, hnew, hA, inBounds_set, get_set_other _ _ _ _ hjs]
              · intro b hba
                simp only [ArrL.Ref.St.setArr]
                exact List.getElem?_set_ne (fun e => hba e.symm)
              · intro A' hA'
                rw [hnew] at hA'
                injection hA' with hA'; injection hA' with hA'
                subst hA'
                exact ⟨rfl, rfl⟩
            · simp only [hb] at h
              simp at h

theorem specInBox_iff : ∀ (bs : List (Int × Int)) (is : List Int), Spec.InBox bs is ↔ RbThm.C04.InBox bs is
  | [], [] => Iff.rfl
  | [], _ :: _ => Iff.rfl
  | _ :: _, [] => Iff.rfl
  | (lo, hi) :: bs, i :: is => by
    simp only [Spec.InBox, RbThm.C04.InBox, specInBox_iff bs is]

theorem inBox_iff : ∀ (bs : List (Int × Int)) (is : List Int), ArrL.Ref.inBox bs is = true ↔ RbThm.C04.InBox bs is
  | [], [] => by simp [ArrL.Ref.inBox, RbThm.C04.InBox]
  | [], _ :: _ => by simp [ArrL.Ref.inBox, RbThm.C04.InBox]
  | _ :: _, [] => by simp [ArrL.Ref.inBox, RbThm.C04.InBox]
  | (lo, hi) :: bs, i :: is => by
    simp only [ArrL.Ref.inBox, RbThm.C04.InBox, Bool.and_eq_true, decide_eq_true_eq]
    rw [inBox_iff bs is]
    exact ⟨fun ⟨⟨a, b⟩, c⟩ => ⟨a, b, c⟩, fun ⟨a, b, c⟩ => ⟨⟨a, b⟩, c⟩⟩

/-- outside the box: a wrong number of subscripts, or some subscript outside its declared bounds -/
theorem not_inBox_iff (bs : List (Int × Int)) (is : List Int) :
    ¬ RbThm.C04.InBox bs is ↔
      (is.length ≠ bs.length ∨
        ∃ (k : Nat) (lo hi i : Int), bs[k]? = some (lo, hi) ∧ is[k]? = some i ∧ (i < lo ∨ hi < i)) := by
  rw [RbThm.C04.inBox_iff_forall]
  constructor
  · intro h
    by_cases hl : is.length = bs.length
    · right
      apply Classical.byContradiction
      intro hne
      apply h
      refine ⟨hl.symm, ?_⟩
      intro k h1 h2
      apply Classical.byContradiction
      intro hk
      apply hne
      refine ⟨k, bs[k].1, bs[k].2, is[k], ?_, ?_, ?_⟩
      · simp [List.getElem?_eq_getElem h1]
      · simp [List.getElem?_eq_getElem h2]
      · omega
    · exact Or.inl hl
  · rintro (hl | ⟨k, lo, hi, i, hb, hi', hout⟩) ⟨hlen, hall⟩
    · exact hl hlen.symm
    · obtain ⟨h1, e1⟩ := List.getElem?_eq_some_iff.mp hb
      obtain ⟨h2, e2⟩ := List.getElem?_eq_some_iff.mp hi'
      have := hall k h1 h2
      rw [e1, e2] at this
      simp only at this
      omega

/-- **Subscript out of range exactly when some index lies outside its declared bounds** (or the number of subscripts is
wrong), for an element read whose subscripts convert -/
theorem subscript_error_iff_out_of_bounds : Spec.subscript_error_iff_out_of_bounds := by
  intro env arrs a idx t p is A hidx hA
  have hev : ArrL.Ref.eval env arrs (.elem a idx t p) =
      if A.inBounds is then .ok (A.get is) else .err ArrL.Ref.codeSubscript p := by
    simp only [ArrL.Ref.eval, hidx, ArrL.Ref.ERes.bind, ArrL.Ref.getArr, hA]
  rw [hev]
  by_cases hb : A.inBounds is = true
  · have hbox : RbThm.C04.InBox A.bounds is := (inBox_iff _ _).mp hb
    rw [if_pos hb]
    refine ⟨⟨fun h => (by cases h), fun h => absurd hbox ((not_inBox_iff _ _).mpr h)⟩,
      ⟨fun _ => (specInBox_iff _ _).mpr hbox, fun _ => ⟨_, rfl⟩⟩⟩
  · have hbox : ¬ RbThm.C04.InBox A.bounds is := fun h => hb ((inBox_iff _ _).mpr h)
    rw [if_neg hb]
    refine ⟨⟨fun _ => (not_inBox_iff _ _).mp hbox, fun _ => rfl⟩,
      ⟨fun ⟨v, hv⟩ => (by cases hv), fun h => absurd ((specInBox_iff _ _).mp h) hbox⟩⟩

/-- **LBOUND / UBOUND report the declared bounds** -/
theorem bounds_report_declared : Spec.BoundsReportDeclared := by
  intro fuel a t dims p q ap s s' h halt
  cases fuel with
  | zero => simp [ArrL.Ref.exec] at h
  | succ f =>
    simp only [ArrL.Ref.exec, ArrL.Ref.dimArray] at h
    cases hb : (ArrL.Ref.evalDims s.env s.arrs dims).bind (ArrL.Ref.convDims p) with
    | err c r => rw [hb] at h; simp [ArrL.Ref.outcomeOf] at h
    | inexact => rw [hb] at h; simp [ArrL.Ref.outcomeOf] at h
    | illFormed => rw [hb] at h; simp [ArrL.Ref.outcomeOf] at h
    | ok bounds =>
      rw [hb] at h
      simp only at h
      refine ⟨bounds, rfl, ?_⟩
      by_cases hany : bounds.any (fun b => decide (b.2 < b.1)) = true
      · simp only [hany, if_true] at h; simp at h
      · simp only [hany] at h
        by_cases hbig : ArrL.Ref.boxSize bounds > ArrL.Ref.sizeLimit
        · simp only [hbig, if_true] at h; simp at h
        · simp only [hbig, if_false, Bool.false_eq_true, Prod.mk.injEq, and_true] at h
          subst h
          intro k lo hi hk
          have hnew : (s.setArr a ⟨t, bounds, []⟩).arrs[a]? = some (some ⟨t, bounds, []⟩) := by
            simp only [ArrL.Ref.St.setArr]; exact List.getElem?_set_self halt
          have hpos : ¬ ((k : Int) + 1 ≤ 0) := by omega
          have hidx : ((k : Int) + 1).toNat - 1 = k := by omega
          constructor
          · simp only [ArrL.Ref.eval, ArrL.Ref.getArr, hnew, ArrL.Ref.ERes.bind, Num.cast, ArrL.Ref.toIndex,
              ArrL.Ref.boundOf, hpos, if_false, hidx, hk]
            rfl
          · simp only [ArrL.Ref.eval, ArrL.Ref.getArr, hnew, ArrL.Ref.ERes.bind, Num.cast, ArrL.Ref.toIndex,
              ArrL.Ref.boundOf, hpos, if_false, hidx, hk]
            rfl

end RbThm.ArrLProps
