import Thm.C13Reach
/-!
C13, third part: `resolution_total_on_accepted`.

The instruction generator asks `Names::get_resolved_variable_info(scope, name)` for every variable of the linted
program and panics when the final name tables do not hold it (`resolvedInfo` = `none` in the model).  For every
script the model's checker accepts, every such look-up is defined: `allResolved items glob = true`.

Proof: (a) when a name is resolved to a variable, the variable is in the current table afterwards, or it is a
SHARED variable of the global table (`resolveVar_avail`); (b) every later step keeps what the current table holds,
keeps the global table's answers exactly while in the main module, and does not touch the global table inside a
subprogram (`Mono`); the guards of DIM / CONST / parameters are what makes (b) true.
-/
namespace RbThm.C13Total
open RbModel.Names RbThm.C13 RbThm.C13Reach

abbrev vin := varInfoByName

/-! ## helper lemmas: tables -/

theorem vin_cons_ne (t : Table) (k k' : Key) (v : NameInfo) (q : Q) (h : k' ≠ k) :
    vin ((k', v) :: t) k q = vin t k q := by
  simp [vin, varInfoByName, Table.getCompact, Table.getExtended, find_cons_ne _ _ _ _ h]

theorem vin_insertCompact_self (t : Table) (k : Key) (q : Q) (s : Bool) :
    vin (t.insertCompact k q s) k q = some (q, s) := by
  unfold Table.insertCompact
  split <;> simp [vin, varInfoByName, Table.getCompact, compactFind]

/-- inserting a compact keeps what the table already answers, as long as the name is not an `AS type` variable -/
theorem vin_insertCompact_isSome (t : Table) (k k' : Key) (q q' : Q) (s : Bool)
    (hext : t.getExtended k' = none) (h : (vin t k q).isSome = true) :
    (vin (t.insertCompact k' q' s) k q).isSome = true := by
  by_cases hk : k' = k
  · subst hk
    by_cases hq : q' = q
    · subst hq; rw [vin_insertCompact_self]; rfl
    · unfold Table.insertCompact
      cases hf : t.find k' with
      | none => simp [vin, varInfoByName, Table.getCompact, Table.getExtended, hf] at h
      | some ni =>
        cases ni with
        | const cq l => simp [vin, varInfoByName, Table.getCompact, Table.getExtended, hf] at h
        | extended eq es => simp [Table.getExtended, hf] at hext
        | compacts m =>
          simp [vin, varInfoByName, Table.getCompact, Table.getExtended, hf] at h ⊢
          simp [compactFind, hq]
          exact h
  · unfold Table.insertCompact
    split <;> (rw [vin_cons_ne _ _ _ _ _ hk]; exact h)

/-- … and keeps the answers exactly when the inserted qualified name is new -/
theorem vin_insertCompact_exact (t : Table) (k k' : Key) (q q' : Q) (s : Bool) (v : Q × Bool)
    (hext : t.getExtended k' = none) (hnew : t.getCompact k' q' = none) (h : vin t k q = some v) :
    vin (t.insertCompact k' q' s) k q = some v := by
  by_cases hk : k' = k
  · subst hk
    unfold Table.insertCompact
    cases hf : t.find k' with
    | none => simp [vin, varInfoByName, Table.getCompact, Table.getExtended, hf] at h
    | some ni =>
      cases ni with
      | const cq l => simp [vin, varInfoByName, Table.getCompact, Table.getExtended, hf] at h
      | extended eq es => simp [Table.getExtended, hf] at hext
      | compacts m =>
        have hne : q' ≠ q := by
          intro hq; subst hq
          simp [vin, varInfoByName, Table.getCompact, Table.getExtended, hf] at h hnew
          simp [hnew] at h
        simp [vin, varInfoByName, Table.getCompact, Table.getExtended, hf] at h ⊢
        simp [compactFind, hne]
        exact h
  · unfold Table.insertCompact
    split <;> (rw [vin_cons_ne _ _ _ _ _ hk]; exact h)

/-- a name the table does not answer for at all may be (re)declared as `AS type` variable or constant -/
theorem vin_cons_fresh (t : Table) (k k' : Key) (ni : NameInfo) (q : Q) (v : Q × Bool)
    (hfresh : ∀ q, vin t k' q = none) (h : vin t k q = some v) : vin ((k', ni) :: t) k q = some v := by
  by_cases hk : k' = k
  · subst hk; rw [hfresh q] at h; cases h
  · rw [vin_cons_ne _ _ _ _ _ hk]; exact h

theorem filter_true' {α : Type} (m : List α) : m.filter (fun _ => true) = m := by
  induction m with
  | nil => rfl
  | cons a rest ih => simp [List.filter, ih]

theorem compactFind_none_of_all (m : List (Q × Bool)) (q : Q)
    (h : (m.map (fun e => (false, e.1))).all (fun e => !e.1 && decide (e.2 ≠ q)) = true) : compactFind m q = none := by
  induction m with
  | nil => rfl
  | cons e rest ih =>
    obtain ⟨q', s⟩ := e
    simp only [List.map_cons, List.all_cons, Bool.and_eq_true] at h
    have hne : q' ≠ q := by simpa using h.1
    simp [compactFind, hne]
    exact ih h.2

/-- what `require_compact_can_be_defined` guarantees about the current table -/
theorem requireCompact_facts (c : Ctx) (k : Key) (q : Q) (h : requireCompact c k q = true) :
    c.cur.getExtended k = none ∧ c.cur.getCompact k q = none := by
  unfold requireCompact Ctx.findNameOrSharedInParent at h
  rw [List.all_append, Bool.and_eq_true] at h
  have h1 := h.1
  unfold Table.collect at h1
  unfold Table.getExtended Table.getCompact
  cases hf : c.cur.find k with
  | none => simp
  | some ni =>
    cases ni with
    | const cq l => simp
    | extended eq es => simp [hf] at h1
    | compacts m =>
      simp only [hf] at h1
      simp only [Bool.not_false, Bool.or_true, filter_true'] at h1
      exact ⟨rfl, compactFind_none_of_all m q h1⟩

/-- what `require_extended_can_be_defined` guarantees: the current table answers nothing for that name -/
theorem requireExtended_facts (c : Ctx) (k : Key) (h : requireExtended c k = true) : ∀ q, vin c.cur k q = none := by
  intro q
  unfold requireExtended Ctx.findNameOrSharedInParent at h
  rw [List.isEmpty_iff, List.append_eq_nil_iff] at h
  have h1 := h.1
  unfold Table.collect at h1
  unfold vin varInfoByName Table.getExtended Table.getCompact
  cases hf : c.cur.find k with
  | none => simp
  | some ni =>
    cases ni with
    | const cq l => simp
    | extended eq es => simp [hf] at h1
    | compacts m =>
      simp only [hf] at h1
      simp only [Bool.not_false, Bool.or_true, filter_true', List.map_eq_nil_iff] at h1
      subst h1; simp [compactFind]

theorem vin_none_of_find_none (t : Table) (k : Key) (h : (t.find k).isSome = false) : ∀ q, vin t k q = none := by
  intro q
  cases hf : t.find k with
  | none => simp [vin, varInfoByName, Table.getCompact, Table.getExtended, hf]
  | some ni => simp [hf] at h

/-! ## monotonicity of one conversion step -/

/-- what a conversion step from `c` to `c'` keeps -/
structure Mono (c c' : Ctx) : Prop where
  scope : c'.scope = c.scope
  loc : ∀ k q, (vin c.cur k q).isSome = true → (vin c'.cur k q).isSome = true
  glob : c.inSub = false → ∀ k q v, vin c.globals k q = some v → vin c'.globals k q = some v
  same : c.inSub = true → c'.globals = c.globals

theorem Mono.refl (c : Ctx) : Mono c c := ⟨rfl, fun _ _ h => h, fun _ _ _ _ h => h, fun _ => rfl⟩

theorem Mono.inSub {c c' : Ctx} (h : Mono c c') : c'.inSub = c.inSub := by simp [Ctx.inSub, h.scope]

theorem Mono.trans {a b c : Ctx} (h1 : Mono a b) (h2 : Mono b c) : Mono a c :=
  ⟨h2.scope.trans h1.scope, fun k q h => h2.loc k q (h1.loc k q h),
   fun hin k q v h => h2.glob (h1.inSub.trans hin) k q v (h1.glob hin k q v h),
   fun hin => (h2.same (h1.inSub.trans hin)).trans (h1.same hin)⟩

theorem cur_of_global (c : Ctx) (h : c.inSub = false) : c.cur = c.globals := by simp [Ctx.cur, h]

theorem mono_setCur (c : Ctx) (t : Table)
    (hl : ∀ k q, (vin c.cur k q).isSome = true → (vin t k q).isSome = true)
    (hg : c.inSub = false → ∀ k q v, vin c.cur k q = some v → vin t k q = some v) : Mono c (c.setCur t) := by
  refine ⟨setCur_scope c t, ?_, ?_, fun hin => setCur_globals_inSub c t hin⟩
  · intro k q h; rw [setCur_cur]; exact hl k q h
  · intro hin k q v h
    have : (c.setCur t).globals = t := by unfold Ctx.setCur; simp [hin]
    rw [this]; rw [← cur_of_global c hin] at h; exact hg hin k q v h

theorem getExtendedRec_none_cur (c : Ctx) (k : Key) (h : c.getExtendedRec k = none) : c.cur.getExtended k = none := by
  unfold Ctx.getExtendedRec at h
  cases hc : c.cur.getExtended k with
  | none => rfl
  | some p => obtain ⟨q, s⟩ := p; simp [hc] at h

theorem getCompactRec_none_cur (c : Ctx) (k : Key) (q : Q) (h : c.getCompactRec k q = none) :
    c.cur.getCompact k q = none := by
  unfold Ctx.getCompactRec at h
  cases hc : c.cur.getCompact k q with
  | none => rfl
  | some s => simp [hc] at h

theorem inFunction_inSub (c : Ctx) (k : Key) (h : c.inFunction k = true) : c.inSub = true := by
  unfold Ctx.inFunction at h
  unfold Ctx.inSub
  cases hs : c.scope <;> simp [hs] at h ⊢

/-- `resolveVar` changes the context at most by one compact variable of a name that is not an `AS type` variable;
in the main module that qualified name is new -/
theorem resolveVar_ctx' (c c' : Ctx) (k : Key) (sfx : Option Q) (m : Mode) (r : Res)
    (h : resolveVar c k sfx m = .ok (c', r)) :
    c' = c ∨ ∃ q, c' = c.setCur (c.cur.insertCompact k q false) ∧ c.cur.getExtended k = none ∧
      (c.inSub = false → c.cur.getCompact k q = none) ∧ (∀ k' q' home, r = .var k' q' home → k' = k ∧ q' = q) := by
  unfold resolveVar at h
  split at h; · cases h
  split at h
  · split at h
    · injection h with h; injection h with h _; exact Or.inl h.symm
    · cases h
  · next hext =>
    simp only [] at h
    split at h
    · injection h with h; injection h with h _; exact Or.inl h.symm
    · next hcomp =>
      split at h
      · unfold resolveConst at h
        split at h
        · simp [Except.map] at h; exact Or.inl h.1.symm
        · simp [Except.map] at h
      · unfold resolveTail at h
        split at h
        · split at h
          · split at h
            · next hinf =>
              split at h
              · injection h with h; injection h with h1 h2
                refine Or.inr ⟨_, h1.symm, getExtendedRec_none_cur c k hext, ?_, ?_⟩
                · intro hin; rw [inFunction_inSub c k hinf] at hin; cases hin
                · intro k' q' home hr; rw [← h2] at hr; injection hr with a b _; exact ⟨a.symm, b.symm⟩
              · cases h
            · cases h
          · split at h
            · injection h with h; injection h with h _; exact Or.inl h.symm
            · cases h
        · split at h
          · unfold resolveConst at h
            split at h
            · simp [Except.map] at h; exact Or.inl h.1.symm
            · simp [Except.map] at h
          · unfold addImplicit at h
            injection h with h; injection h with h1 h2
            refine Or.inr ⟨_, h1.symm, getExtendedRec_none_cur c k hext, ?_, ?_⟩
            · intro _; exact getCompactRec_none_cur c k _ hcomp
            · intro k' q' home hr; rw [← h2] at hr; injection hr with a b _; exact ⟨a.symm, b.symm⟩

theorem mono_insertCompact (c : Ctx) (k : Key) (q : Q) (s : Bool) (hext : c.cur.getExtended k = none)
    (hnew : c.inSub = false → c.cur.getCompact k q = none) : Mono c (c.setCur (c.cur.insertCompact k q s)) :=
  mono_setCur c _ (fun k' q' h => vin_insertCompact_isSome _ _ _ _ _ _ hext h)
    (fun hin k' q' v h => vin_insertCompact_exact _ _ _ _ _ _ _ hext (hnew hin) h)

theorem mono_resolveVar (c c' : Ctx) (k : Key) (sfx : Option Q) (m : Mode) (r : Res)
    (h : resolveVar c k sfx m = .ok (c', r)) : Mono c c' := by
  rcases resolveVar_ctx' c c' k sfx m r h with h | ⟨q, h, hext, hnew, _⟩
  · rw [h]; exact Mono.refl c
  · rw [h]; exact mono_insertCompact c k q false hext hnew

theorem mono_declare (c c' : Ctx) (k : Key) (d : Decl) (sh : Bool) (h : declare c k d sh = .ok c') : Mono c c' := by
  unfold declare at h
  cases d with
  | bare =>
    simp only [] at h
    split at h
    · next hr =>
      injection h with h; rw [← h]
      have := requireCompact_facts c k _ hr
      exact mono_insertCompact c k _ sh this.1 (fun _ => this.2)
    · cases h
  | compact q =>
    simp only [] at h
    split at h
    · next hr =>
      injection h with h; rw [← h]
      have := requireCompact_facts c k _ hr
      exact mono_insertCompact c k _ sh this.1 (fun _ => this.2)
    · cases h
  | extended q =>
    simp only [] at h
    split at h
    · next hr =>
      injection h with h; rw [← h]
      have hfresh := requireExtended_facts c k hr
      refine mono_setCur c _ ?_ ?_
      · intro k' q' hs
        cases hv : vin c.cur k' q' with
        | none => simp [hv] at hs
        | some v => unfold Table.insertExtended; rw [vin_cons_fresh _ _ _ _ _ _ hfresh hv]; rfl
      · intro _ k' q' v hv; exact vin_cons_fresh _ _ _ _ _ _ hfresh hv
    · cases h

theorem mono_convStmt (c c' : Ctx) (s : Stmt) (r : RStmt) (h : convStmt c s = .ok (c', r)) : Mono c c' := by
  cases s with
  | dim sh n d =>
    simp only [convStmt] at h
    cases hd : convDim c sh (fold n) d with
    | error e => simp [hd, Except.map] at h
    | ok c1 =>
      simp [hd, Except.map] at h
      rw [← h.1]
      unfold convDim at hd
      split at hd; · cases hd
      split at hd; · cases hd
      split at hd; · cases hd
      split at hd; · cases hd
      exact mono_declare c c1 _ d sh hd
  | const n l =>
    simp only [convStmt] at h
    cases hd : convConst c (fold n.name) n.sfx l with
    | error e => simp [hd, Except.map] at h
    | ok c1 =>
      simp [hd, Except.map] at h
      rw [← h.1]
      unfold convConst at hd
      split at hd; · cases hd
      next hg =>
      split at hd
      · injection hd with hd; rw [← hd]
        have hfind : (c.cur.find (fold n.name)).isSome = false := by
          cases hf : (c.cur.find (fold n.name)).isSome
          · rfl
          · simp [hf] at hg
        have hfresh := vin_none_of_find_none c.cur _ hfind
        refine mono_setCur c _ ?_ ?_
        · intro k' q' hs
          cases hv : vin c.cur k' q' with
          | none => simp [hv] at hs
          | some v => unfold Table.insertConst; rw [vin_cons_fresh _ _ _ _ _ _ hfresh hv]; rfl
        · intro _ k' q' v hv; exact vin_cons_fresh _ _ _ _ _ _ hfresh hv
      · cases hd
  | assign n b t =>
    simp only [convStmt] at h
    split at h; · cases h
    split at h
    · cases h
    · next c1 k1 q1 home1 hr =>
      split at h
      · cases h
      · injection h with h; injection h with h _; rw [← h]
        exact mono_resolveVar c c1 _ _ _ _ hr
    · cases h
  | print n =>
    simp only [convStmt] at h
    split at h
    · cases h
    · next c1 r1 hr =>
      injection h with h; injection h with h _; rw [← h]
      exact mono_resolveVar c c1 _ _ _ _ hr
  | callSub n a =>
    simp only [convStmt] at h
    injection h with h; injection h with h _; rw [← h]; exact Mono.refl c
  | printCall n a =>
    simp only [convStmt] at h
    split at h
    · cases h
    · injection h with h; injection h with h _; rw [← h]; exact Mono.refl c


theorem mono_convParams (c c' : Ctx) (ps : List Param) (pq : List (Key × Q))
    (h : convParams c ps = .ok (c', pq)) : Mono c c' := by
  induction ps generalizing c pq with
  | nil => simp [convParams] at h; rw [← h.1]; exact Mono.refl c
  | cons p rest ih =>
    simp only [convParams] at h
    split at h; · cases h
    next c1 hp =>
    split at h; · cases h
    next c2 ps2 hrest =>
    injection h with h; injection h with h _; subst h
    refine Mono.trans ?_ (ih c1 ps2 hrest)
    unfold convParam at hp
    split at hp; · cases hp
    split at hp; · cases hp
    split at hp; · cases hp
    exact mono_declare c c1 _ _ false hp

/-! ## availability right after a resolution -/

theorem vin_of_getExtended (t : Table) (k : Key) (q q' : Q) (s : Bool) (h : t.getExtended k = some (q, s)) :
    vin t k q' = some (q, s) := by
  unfold Table.getExtended at h
  cases hf : t.find k with
  | none => simp [hf] at h
  | some ni =>
    cases ni with
    | extended eq es => simp [hf] at h; simp [vin, varInfoByName, Table.getCompact, Table.getExtended, hf, h]
    | const _ _ => simp [hf] at h
    | compacts _ => simp [hf] at h

theorem vin_of_getCompact (t : Table) (k : Key) (q : Q) (s : Bool) (h : t.getCompact k q = some s) :
    vin t k q = some (q, s) := by
  simp [vin, varInfoByName, h]

/-- the variable is in the current table of `c'`, or it is a SHARED variable of the global table seen from a
subprogram -/
def Avail (c c' : Ctx) (k : Key) (q : Q) : Prop :=
  (vin c'.cur k q).isSome = true ∨ (c.inSub = true ∧ ∃ x, vin c.globals k q = some (x, true))

theorem getExtendedRec_some (c : Ctx) (k : Key) (q : Q) (home : Scope) (h : c.getExtendedRec k = some (q, home)) :
    (∃ s, c.cur.getExtended k = some (q, s)) ∨ (c.inSub = true ∧ c.globals.getExtended k = some (q, true)) := by
  unfold Ctx.getExtendedRec at h
  split at h
  · next q0 s0 heq => injection h with h; injection h with h1 _; subst h1; exact Or.inl ⟨s0, heq⟩
  · split at h
    · next hin =>
      split at h
      · next q0 heq => injection h with h; injection h with h1 _; subst h1; exact Or.inr ⟨hin, heq⟩
      · cases h
    · cases h

theorem getCompactRec_some (c : Ctx) (k : Key) (q : Q) (home : Scope) (h : c.getCompactRec k q = some home) :
    (∃ s, c.cur.getCompact k q = some s) ∨ (c.inSub = true ∧ c.globals.getCompact k q = some true) := by
  unfold Ctx.getCompactRec at h
  split at h
  · next s0 heq => exact Or.inl ⟨s0, heq⟩
  · split at h
    · next hin =>
      split at h
      · next heq => exact Or.inr ⟨hin, heq⟩
      · cases h
    · cases h

theorem resolveVar_avail (c c' : Ctx) (k k' : Key) (sfx : Option Q) (m : Mode) (q : Q) (home : Scope)
    (h : resolveVar c k sfx m = .ok (c', .var k' q home)) : Avail c c' k' q := by
  unfold resolveVar at h
  split at h; · cases h
  split at h
  · next q0 home0 hext =>
    split at h
    · injection h with h; injection h with hc hr; injection hr with h1 h2 h3
      subst hc; subst h1; subst h2
      rcases getExtendedRec_some c k q0 home0 hext with ⟨s, hs⟩ | ⟨hin, hg⟩
      · exact Or.inl (by rw [vin_of_getExtended _ _ _ q0 _ hs]; rfl)
      · exact Or.inr ⟨hin, q0, vin_of_getExtended _ _ _ q0 _ hg⟩
    · cases h
  · simp only [] at h
    split at h
    · next home0 hcomp =>
      injection h with h; injection h with hc hr; injection hr with h1 h2 h3
      subst hc; subst h1; subst h2
      rcases getCompactRec_some c k _ home0 hcomp with ⟨s, hs⟩ | ⟨hin, hg⟩
      · exact Or.inl (by rw [vin_of_getCompact _ _ _ _ hs]; rfl)
      · exact Or.inr ⟨hin, _, vin_of_getCompact _ _ _ _ hg⟩
    · split at h
      · unfold resolveConst at h
        split at h <;> simp [Except.map] at h
      · unfold resolveTail at h
        split at h
        · split at h
          · split at h
            · split at h
              · injection h with h; injection h with hc hr; injection hr with h1 h2 h3
                subst hc; subst h1; subst h2
                exact Or.inl (by rw [setCur_cur, vin_insertCompact_self]; rfl)
              · cases h
            · cases h
          · split at h
            · injection h with h; injection h with _ hr; cases hr
            · cases h
        · split at h
          · unfold resolveConst at h
            split at h <;> simp [Except.map] at h
          · unfold addImplicit at h
            injection h with h; injection h with hc hr; injection hr with h1 h2 h3
            subst hc; subst h1; subst h2
            exact Or.inl (by rw [setCur_cur, vin_insertCompact_self]; rfl)

theorem convStmt_avail (c c' : Ctx) (s : Stmt) (r : RStmt) (k : Key) (q : Q)
    (h : convStmt c s = .ok (c', r)) (ho : r.varOcc = some (k, q)) : Avail c c' k q := by
  cases s with
  | dim sh n d =>
    simp only [convStmt] at h
    cases hd : convDim c sh (fold n) d with
    | error e => simp [hd, Except.map] at h
    | ok c1 => simp [hd, Except.map] at h; rw [← h.2] at ho; simp [RStmt.varOcc] at ho
  | const n l =>
    simp only [convStmt] at h
    cases hd : convConst c (fold n.name) n.sfx l with
    | error e => simp [hd, Except.map] at h
    | ok c1 => simp [hd, Except.map] at h; rw [← h.2] at ho; simp [RStmt.varOcc] at ho
  | assign n b t =>
    simp only [convStmt] at h
    split at h; · cases h
    split at h
    · cases h
    · next c1 k1 q1 home1 hr =>
      split at h
      · cases h
      · injection h with h; injection h with hc hrr; subst hc; rw [← hrr] at ho
        simp [RStmt.varOcc] at ho
        rw [← ho.1, ← ho.2]
        exact resolveVar_avail c c1 _ k1 _ _ q1 home1 hr
    · cases h
  | print n =>
    simp only [convStmt] at h
    split at h
    · cases h
    · next c1 r1 hr =>
      injection h with h; injection h with hc hrr; subst hc; rw [← hrr] at ho
      cases r1 with
      | var k1 q1 home1 =>
        simp [RStmt.varOcc] at ho
        rw [← ho.1, ← ho.2]
        exact resolveVar_avail c c1 _ k1 _ _ q1 home1 hr
      | constant _ _ => simp [RStmt.varOcc] at ho
      | call _ _ => simp [RStmt.varOcc] at ho
      | undefCall _ => simp [RStmt.varOcc] at ho
  | callSub n a =>
    simp only [convStmt] at h
    injection h with h; injection h with _ hrr; rw [← hrr] at ho; simp [RStmt.varOcc] at ho
  | printCall n a =>
    simp only [convStmt] at h
    split at h
    · cases h
    · next r1 hr =>
      injection h with h; injection h with _ hrr; rw [← hrr] at ho
      unfold resolveCall at hr
      split at hr; · cases hr
      split at hr
      · split at hr
        · injection hr with hr; rw [← hr] at ho; simp [RStmt.varOcc] at ho
        · cases hr
      · injection hr with hr; rw [← hr] at ho; simp [RStmt.varOcc] at ho

theorem convStmts_ok (c c' : Ctx) (l : List Stmt) (rs : List RStmt) (h : convStmts c l = .ok (c', rs)) :
    Mono c c' ∧ ∀ r ∈ rs, ∀ k q, r.varOcc = some (k, q) → Avail c c' k q := by
  induction l generalizing c rs with
  | nil =>
    simp [convStmts] at h; obtain ⟨h1, h2⟩ := h; subst h1; subst h2
    exact ⟨Mono.refl c, fun r hr => by cases hr⟩
  | cons s rest ih =>
    simp only [convStmts] at h
    split at h; · cases h
    next c1 r1 h1 =>
    split at h; · cases h
    next c2 rs2 h2 =>
    injection h with h; injection h with hc hrs; subst hc; subst hrs
    have m1 := mono_convStmt c c1 s r1 h1
    obtain ⟨m2, a2⟩ := ih c1 rs2 h2
    refine ⟨Mono.trans m1 m2, ?_⟩
    intro r hr k q ho
    rcases List.mem_cons.1 hr with hr | hr
    · subst hr
      rcases convStmt_avail c c1 s r k q h1 ho with hl | hrr
      · exact Or.inl (m2.loc k q hl)
      · exact Or.inr hrr
    · rcases a2 r hr k q ho with hl | ⟨hin, x, hx⟩
      · exact Or.inl hl
      · have hin0 : c.inSub = true := by rw [← m1.inSub]; exact hin
        exact Or.inr ⟨hin0, x, by rw [← m1.same hin0]; exact hx⟩

/-! ## subprograms and items -/

theorem enter_inSub (c : Ctx) (sc : Scope) (h : sc ≠ Scope.global) : (enter c sc).inSub = true := by
  simp [enter, Ctx.inSub, h]

/-- what holds for the linted body of a subprogram: every variable is in the scope's final table or is a SHARED
variable of the global table -/
def BodyOK (loc g : Table) (body : List RStmt) : Prop :=
  ∀ r ∈ body, ∀ k q, r.varOcc = some (k, q) → (vin loc k q).isSome = true ∨ ∃ x, vin g k q = some (x, true)

theorem convSubprogram_ok (c c' : Ctx) (sc : Scope) (ps : List Param) (body : List Stmt)
    (pq : List (Key × Q)) (rs : List RStmt) (loc : Table) (hsc : sc ≠ Scope.global)
    (h : convSubprogram c sc ps body = .ok (c', pq, rs, loc)) :
    c'.globals = c.globals ∧ c'.scope = Scope.global ∧ BodyOK loc c.globals rs := by
  unfold convSubprogram at h
  simp only [] at h
  split at h; · cases h
  next c2 pq2 h2 =>
  split at h; · cases h
  next c3 rs3 h3 =>
  injection h with h; injection h with hc hrest; injection hrest with _ hrest; injection hrest with hrs hloc
  subst hc; subst hrs; subst hloc
  have hin1 : (enter c sc).inSub = true := enter_inSub c sc hsc
  have mp := mono_convParams (enter c sc) c2 ps pq2 h2
  obtain ⟨mb, ab⟩ := convStmts_ok c2 c3 body rs3 h3
  have hin2 : c2.inSub = true := by rw [mp.inSub]; exact hin1
  have hin3 : c3.inSub = true := by rw [mb.inSub]; exact hin2
  have hg2 : c2.globals = c.globals := mp.same hin1
  have hg3 : c3.globals = c.globals := (mb.same hin2).trans hg2
  refine ⟨hg3, rfl, ?_⟩
  intro r hr k q ho
  rcases ab r hr k q ho with hl | ⟨_, x, hx⟩
  · left; have : c3.cur = c3.locals := by simp [Ctx.cur, hin3]
    rw [← this]; exact hl
  · right; exact ⟨x, by rw [← hg2]; exact hx⟩

/-- the facts about one linted item relative to a (later) global table `g` -/
def ItemOK (g : Table) : RItem → Prop
  | .stmt r => ∀ k q, r.varOcc = some (k, q) → (vin g k q).isSome = true
  | .sub _ _ body loc => BodyOK loc g body
  | .func _ _ _ body loc => BodyOK loc g body

theorem ItemOK.mono {g g' : Table} (hg : ∀ k q v, vin g k q = some v → vin g' k q = some v) (it : RItem)
    (h : ItemOK g it) : ItemOK g' it := by
  have hsome : ∀ k q, (vin g k q).isSome = true → (vin g' k q).isSome = true := by
    intro k q hs
    cases hv : vin g k q with
    | none => simp [hv] at hs
    | some v => rw [hg k q v hv]; rfl
  cases it with
  | stmt r => exact fun k q ho => hsome k q (h k q ho)
  | sub n ps body loc =>
    intro r hr k q ho
    rcases h r hr k q ho with hl | ⟨x, hx⟩
    · exact Or.inl hl
    · exact Or.inr ⟨x, hg _ _ _ hx⟩
  | func n fq ps body loc =>
    intro r hr k q ho
    rcases h r hr k q ho with hl | ⟨x, hx⟩
    · exact Or.inl hl
    · exact Or.inr ⟨x, hg _ _ _ hx⟩

theorem convItem_ok (c c' : Ctx) (it : Item) (items : List RItem) (hg : c.scope = Scope.global)
    (h : convItem c it = .ok (c', items)) :
    c'.scope = Scope.global ∧ (∀ k q v, vin c.globals k q = some v → vin c'.globals k q = some v) ∧
    ∀ ri ∈ items, ItemOK c'.globals ri := by
  have hin : c.inSub = false := by simp [Ctx.inSub, hg]
  cases it with
  | defType q rs =>
    simp [convItem] at h; obtain ⟨h1, h2⟩ := h; subst h1; subst h2
    exact ⟨hg, fun _ _ _ hv => hv, fun ri hri => by cases hri⟩
  | stmt s =>
    simp only [convItem] at h
    cases hc : convStmt c s with
    | error e => simp [hc, Except.map] at h
    | ok p =>
      obtain ⟨c1, r1⟩ := p
      simp [hc, Except.map] at h
      rw [← h.1, ← h.2]
      have m := mono_convStmt c c1 s r1 hc
      have hin1 : c1.inSub = false := by rw [m.inSub]; exact hin
      refine ⟨m.scope.trans hg, m.glob hin, ?_⟩
      intro ri hri
      simp at hri; subst hri
      intro k q ho
      rcases convStmt_avail c c1 s r1 k q hc ho with hl | ⟨hc2, _⟩
      · rw [cur_of_global c1 hin1] at hl; exact hl
      · rw [hin] at hc2; cases hc2
  | sub n ps body =>
    simp only [convItem] at h
    split at h; · cases h
    next c1 pq rs loc hc =>
    injection h with h; injection h with h1 h2; subst h1; subst h2
    obtain ⟨hgl, hsc, hb⟩ := convSubprogram_ok c c1 _ ps body pq rs loc (by simp) hc
    refine ⟨hsc, fun k q v hv => by rw [hgl]; exact hv, ?_⟩
    intro ri hri; simp at hri; subst hri
    show BodyOK loc c1.globals rs
    rw [hgl]; exact hb
  | func n ps body =>
    simp only [convItem] at h
    split at h; · cases h
    next c1 pq rs loc hc =>
    injection h with h; injection h with h1 h2; subst h1; subst h2
    obtain ⟨hgl, hsc, hb⟩ := convSubprogram_ok c c1 _ ps body pq rs loc (by simp) hc
    refine ⟨hsc, fun k q v hv => by rw [hgl]; exact hv, ?_⟩
    intro ri hri; simp at hri; subst hri
    show BodyOK loc c1.globals rs
    rw [hgl]; exact hb

theorem convItems_ok (c c' : Ctx) (l : List Item) (items : List RItem) (hg : c.scope = Scope.global)
    (h : convItems c l = .ok (c', items)) :
    c'.scope = Scope.global ∧ (∀ k q v, vin c.globals k q = some v → vin c'.globals k q = some v) ∧
    ∀ ri ∈ items, ItemOK c'.globals ri := by
  induction l generalizing c items with
  | nil =>
    simp [convItems] at h; obtain ⟨h1, h2⟩ := h; subst h1; subst h2
    exact ⟨hg, fun _ _ _ hv => hv, fun ri hri => by cases hri⟩
  | cons it rest ih =>
    simp only [convItems] at h
    split at h; · cases h
    next c1 r1 h1 =>
    split at h; · cases h
    next c2 r2 h2 =>
    injection h with h; injection h with hc hr; subst hc; subst hr
    obtain ⟨s1, g1, ok1⟩ := convItem_ok c c1 it r1 hg h1
    obtain ⟨s2, g2, ok2⟩ := ih c1 r2 s1 h2
    refine ⟨s2, fun k q v hv => g2 k q v (g1 k q v hv), ?_⟩
    intro ri hri
    rcases List.mem_append.1 hri with hri | hri
    · exact ItemOK.mono g2 ri (ok1 ri hri)
    · exact ok2 ri hri

/-! ## the theorem -/

theorem stmtResolved_of (loc g : Table) (inSub : Bool) (r : RStmt)
    (h : ∀ k q, r.varOcc = some (k, q) →
      (vin loc k q).isSome = true ∨ (inSub = true ∧ ∃ x, vin g k q = some (x, true))) :
    stmtResolved loc g inSub r = true := by
  unfold stmtResolved
  cases ho : r.varOcc with
  | none => rfl
  | some p =>
    obtain ⟨k, q⟩ := p
    simp only []
    unfold resolvedInfo
    cases hv : varInfoByName loc k q with
    | some i => rfl
    | none =>
      rcases h k q ho with hl | ⟨hin, x, hx⟩
      · simp [vin, hv] at hl
      · simp only [hin, if_true]
        have : varInfoByName g k q = some (x, true) := hx
        rw [this]; rfl

theorem itemResolved_of (g : Table) (it : RItem) (h : ItemOK g it) : itemResolved g it = true := by
  cases it with
  | stmt r =>
    exact stmtResolved_of g g false r (fun k q ho => Or.inl (h k q ho))
  | sub n ps body loc =>
    simp only [itemResolved, List.all_eq_true]
    intro r hr
    exact stmtResolved_of loc g true r (fun k q ho => by
      rcases h r hr k q ho with hl | hx
      · exact Or.inl hl
      · exact Or.inr ⟨rfl, hx⟩)
  | func n fq ps body loc =>
    simp only [itemResolved, List.all_eq_true]
    intro r hr
    exact stmtResolved_of loc g true r (fun k q ho => by
      rcases h r hr k q ho with hl | hx
      · exact Or.inl hl
      · exact Or.inr ⟨rfl, hx⟩)

/-- **resolution_total_on_accepted.**  For every script the checker accepts, every variable occurrence of the
linted program has its lint-time information in the final name tables: the look-up the instruction generator
performs (`Names::get_resolved_variable_info`, modelled by `resolvedInfo`) is defined — in the variable's own scope,
or in the global table with the SHARED flag set.  The `panic!`s of that function are unreachable. -/
theorem resolution_total_on_accepted (s : Script) (items : List RItem) (glob : Table)
    (h : lint s = .ok (items, glob)) : allResolved items glob = true := by
  unfold lint at h
  split at h; · cases h
  next p hp =>
  simp only [] at h
  split at h; · cases h
  next cEnd its hconv =>
  split at h; · cases h
  split at h; · cases h
  injection h with h; injection h with h1 h2; subst h1; subst h2
  obtain ⟨_, _, hok⟩ := convItems_ok _ cEnd s its rfl hconv
  simp only [allResolved, List.all_eq_true]
  intro it hit
  exact itemResolved_of _ it (hok it hit)

/-- the same, read off the result of `runScript` (what the driver reports and the harness compares) -/
theorem runScript_resolved (s : Script) (tr : List Res) (out : Option (List Val)) (b : Bool)
    (h : runScript s = .accepted tr out b) : b = true := by
  unfold runScript at h
  split at h
  · cases h
  · next items glob hl =>
    injection h with _ _ hb
    rw [← hb]; exact resolution_total_on_accepted s items glob hl

/-- non-trivial instance: a SHARED global used inside a SUB, an implicit local and a parameter -/
example : ∃ items glob,
    lint [.stmt (.dim true [65] (.compact .int)),
          .sub [83] [⟨[66], .extended .str⟩] [.assign ⟨[65], some .int⟩ false 1, .print ⟨[66], none⟩, .print ⟨[67], none⟩],
          .stmt (.callSub [83] [true])] = .ok (items, glob) := ⟨_, _, rfl⟩


/-! ## run-time part: SHARED identity, fresh locals per call -/

/-- **SHARED identity.**  A value written through a name that resolves to the global frame — by the main module
(`g1 = true`) or from inside any subprogram (`g1 = false`) — is what every read through a name resolving to the
global frame sees, whichever frame the reader runs in. -/
theorem shared_identity (m : Mem) (g1 g2 : Bool) (k : Key) (q : Q) (v : Val) :
    readVar (writeVar m g1 k q Scope.global v) g2 k q Scope.global = v := by
  simp [readVar, writeVar, Frame.get, Frame.set]

/-- a write to a local of a subprogram leaves the global frame alone, and a write to the global frame leaves the
locals alone -/
theorem local_write_keeps_globals (m : Mem) (k : Key) (q : Q) (sc : Scope) (v : Val) (h : sc ≠ Scope.global) :
    (writeVar m false k q sc v).global = m.global ∧
    (writeVar m false k q Scope.global v).locl = m.locl := by
  simp [writeVar, h]

theorem frame_get_append_miss (f1 f2 : Frame) (n : Key × Q) (h : ∀ e ∈ f1, e.1 ≠ n) :
    Frame.get (f1 ++ f2) n = Frame.get f2 n := by
  induction f1 with
  | nil => rfl
  | cons e rest ih =>
    obtain ⟨n', v⟩ := e
    have hne : n' ≠ n := h (n', v) (List.mem_cons_self ..)
    simp only [List.cons_append, Frame.get, hne, if_false]
    exact ih (fun e he => h e (List.mem_cons_of_mem _ he))

theorem bindParams_keys (ps : List (Key × Q)) (j : Nat) : ∀ e ∈ bindParams ps j, e.1 ∈ ps := by
  induction ps generalizing j with
  | nil => intro e he; cases he
  | cons p rest ih =>
    obtain ⟨k, q⟩ := p
    intro e he
    simp only [bindParams, List.mem_append, List.mem_singleton] at he
    rcases he with he | he
    · exact List.mem_cons_of_mem _ (ih (j + 1) e he)
    · subst he; exact List.mem_cons_self ..

/-- a name that is not a parameter starts every call with the default value of its type -/
theorem bindParams_fresh (ps : List (Key × Q)) (j : Nat) (k : Key) (q : Q) (h : (k, q) ∉ ps) :
    Frame.get (bindParams ps j) (k, q) = ⟨Src.default, q⟩ := by
  induction ps generalizing j with
  | nil => rfl
  | cons p rest ih =>
    obtain ⟨k', q'⟩ := p
    have hne : (k', q') ≠ (k, q) := fun he => h (by rw [he]; exact List.mem_cons_self ..)
    have hrest : (k, q) ∉ rest := fun hm => h (List.mem_cons_of_mem _ hm)
    simp only [bindParams]
    rw [frame_get_append_miss]
    · simp [Frame.get, hne]
    · intro e he heq
      exact hrest (by rw [← heq]; exact bindParams_keys rest (j + 1) e he)

/-- **Fresh locals per call.**  A call of a SUB runs its body on a local frame that holds the parameters only —
nothing of the caller's locals and nothing of an earlier call — and the caller's own locals are back afterwards. -/
theorem callSub_fresh_locals (prog : List RItem) (fuel : Nat) (k : Key) (args : List Bool) (rest : List RStmt)
    (g : Bool) (m : Mem) (ps : List (Key × Q)) (body : List RStmt) (hf : findSub prog k = some (ps, body)) :
    exec prog (fuel + 1) (.callSub k args :: rest) g m =
      match exec prog fuel body false { m with locl := bindParams ps 0 } with
      | none => none
      | some m' => exec prog fuel rest g { m' with locl := m.locl } := by
  cases h : exec prog fuel body false { m with locl := bindParams ps 0 } <;> simp [exec, hf, h]

/-- the first read of a non-parameter local inside a called SUB sees the default, whatever the caller's or an
earlier call's locals held -/
theorem first_local_read_is_default (m : Mem) (ps : List (Key × Q)) (k : Key) (q : Q) (sc : Scope)
    (hsc : sc ≠ Scope.global) (h : (k, q) ∉ ps) :
    readVar { m with locl := bindParams ps 0 } false k q sc = ⟨Src.default, q⟩ := by
  simp [readVar, hsc, bindParams_fresh ps 0 k q h]

end RbThm.C13Total
