import Thm.JmpLRef
import Thm.JmpLShape
/-!
Jump layer, the reference semantics `JmpL.Ref.exec` alone: **a program that keeps the jump discipline never answers
`illFormed`**.

The discipline is stated on the lean syntax (`Disc`, below) relative to two functions `fd`, `sd` that give every label a
FOR depth and a SELECT depth, and to the whole program body `P`:

* a `label L` at FOR depth `d` / SELECT depth `e` has `fd L = d`, `sd L = e` (the recorded depths are the real ones);
* a `goto L` at depths `d` / `e` has `fd L ≤ d`, `sd L ≤ e`; a GOTO inside a FOR body (the blocks of a SELECT) whose label is
  outside the body (the blocks) names a label that is not deeper than the FOR (the SELECT) itself;
* a `gosub L` names a label of `P` recorded at depth 0 / 0.

`Thm/JmpLNoIll.lean` shows that the desugared body of every program with the premise `ProgWf` of the simulation theorem keeps
it.  The invariant (`Inv`, by induction on the fuel over the five mutual functions): a statement that keeps the discipline at
depths `d` / `e` never answers `illFormed`, in `run` mode and in `seek L` mode with `fd L = d ∧ sd L = e` (the sought label is
not inside a FOR body or a SELECT block *of this statement*).  The seek condition is re-established at every place the
semantics starts a seek: a construct that catches a `jump L` has `L` among its own labels (recorded depths ≥ its own) and the
jump left one of its parts (recorded depths ≤ its own, `jump_le`); a FOR round and a SELECT do the same one level further in;
a GOSUB seeks a label at depth 0 / 0 from the top of the program.
-/
namespace RbThm.JmpLNoIll
set_option linter.unusedVariables false
set_option linter.unusedSimpArgs false
open RbModel RbModel.Num RbModel.JmpL RbModel.JmpL.Ref
open RbModel.Ast (Pos PrintItem CaseExpr)
open RbModel.Ref (St)
open RbThm.JmpLShape (gotosS gotosC)
open RbThm.JmpLRef

/-! ### the jump discipline on the lean syntax -/

mutual
/-- the statement keeps the jump discipline at FOR depth `d` and SELECT depth `e` -/
def Disc (fd sd : Nat → Nat) (P : Stmt) : Nat → Nat → Stmt → Prop
  | d, e, .seq a b => Disc fd sd P d e a ∧ Disc fd sd P d e b
  | d, e, .ifs _ thn els _ => Disc fd sd P d e thn ∧ Disc fd sd P d e els
  | d, e, .select _ cases _ =>
    DiscC fd sd P d (e + 1) cases ∧ ∀ L ∈ gotosC cases, cases.hasLabel L = true ∨ sd L ≤ e
  | d, e, .forLoop _ _ _ _ _ body _ =>
    Disc fd sd P (d + 1) e body ∧ ∀ L ∈ gotosS body, body.hasLabel L = true ∨ fd L ≤ d
  | d, e, .while _ body _ => Disc fd sd P d e body
  | d, e, .doLoop _ _ _ body _ => Disc fd sd P d e body
  | d, e, .label L => fd L = d ∧ sd L = e
  | d, e, .goto L => fd L ≤ d ∧ sd L ≤ e
  | _, _, .gosub L => fd L = 0 ∧ sd L = 0 ∧ P.hasLabel L = true
  | _, _, .skip => True
  | _, _, .assign _ _ _ _ => True
  | _, _, .print _ _ => True
  | _, _, .read _ _ _ => True
  | _, _, .end_ _ => True
  | _, _, .ret _ => True
def DiscC (fd sd : Nat → Nat) (P : Stmt) : Nat → Nat → Cases → Prop
  | _, _, .nil => True
  | d, e, .else_ body => Disc fd sd P d e body
  | d, e, .case _ body rest => Disc fd sd P d e body ∧ DiscC fd sd P d e rest
end

theorem mem_labels {s : Stmt} {L : Nat} : L ∈ s.labels ↔ s.hasLabel L = true := by
  simp [Stmt.hasLabel]

theorem mem_labelsC {cs : Cases} {L : Nat} : L ∈ cs.labels ↔ cs.hasLabel L = true := by
  simp [Cases.hasLabel]

section
variable {fd sd : Nat → Nat} {P : Stmt}

mutual
/-- a label inside a statement is recorded at least as deep as the statement -/
theorem label_ge : ∀ (s : Stmt) (d e L : Nat), Disc fd sd P d e s → s.hasLabel L = true → d ≤ fd L ∧ e ≤ sd L
  | .seq a b, d, e, L, h, hl => by
    simp only [hasLabel_seq, Bool.or_eq_true] at hl
    rcases hl with hl | hl
    · exact label_ge a d e L h.1 hl
    · exact label_ge b d e L h.2 hl
  | .ifs _ thn els _, d, e, L, h, hl => by
    simp only [hasLabel_ifs, Bool.or_eq_true] at hl
    rcases hl with hl | hl
    · exact label_ge thn d e L h.1 hl
    · exact label_ge els d e L h.2 hl
  | .select _ cases _, d, e, L, h, hl => by
    simp only [hasLabel_select] at hl
    have := label_geC cases d (e + 1) L h.1 hl
    omega
  | .forLoop _ _ _ _ _ body _, d, e, L, h, hl => by
    simp only [hasLabel_forLoop] at hl
    have := label_ge body (d + 1) e L h.1 hl
    omega
  | .while _ body _, d, e, L, h, hl => by
    simp only [hasLabel_while] at hl
    exact label_ge body d e L h hl
  | .doLoop _ _ _ body _, d, e, L, h, hl => by
    simp only [hasLabel_doLoop] at hl
    exact label_ge body d e L h hl
  | .label L', d, e, L, h, hl => by
    simp only [hasLabel_label, decide_eq_true_eq] at hl
    subst hl
    have h' : fd L = d ∧ sd L = e := h
    omega
  | .goto _, _, _, _, _, hl => by simp at hl
  | .gosub _, _, _, _, _, hl => by simp at hl
  | .skip, _, _, _, _, hl => by simp at hl
  | .assign _ _ _ _, _, _, _, _, hl => by simp at hl
  | .print _ _, _, _, _, _, hl => by simp at hl
  | .read _ _ _, _, _, _, _, hl => by simp at hl
  | .end_ _, _, _, _, _, hl => by simp at hl
  | .ret _, _, _, _, _, hl => by simp at hl
theorem label_geC : ∀ (cs : Cases) (d e L : Nat), DiscC fd sd P d e cs → cs.hasLabel L = true → d ≤ fd L ∧ e ≤ sd L
  | .nil, _, _, _, _, hl => by simp at hl
  | .else_ body, d, e, L, h, hl => by
    simp only [casesHasLabel_else] at hl
    exact label_ge body d e L h hl
  | .case _ body rest, d, e, L, h, hl => by
    simp only [casesHasLabel_case, Bool.or_eq_true] at hl
    rcases hl with hl | hl
    · exact label_ge body d e L h.1 hl
    · exact label_geC rest d e L h.2 hl
end

mutual
/-- a GOTO inside a statement whose label is outside it names a label that is not deeper than the statement -/
theorem goto_le : ∀ (s : Stmt) (d e L : Nat), Disc fd sd P d e s → L ∈ gotosS s → s.hasLabel L = false →
    fd L ≤ d ∧ sd L ≤ e
  | .seq a b, d, e, L, h, hg, hl => by
    simp only [gotosS, List.mem_append] at hg
    simp only [hasLabel_seq, Bool.or_eq_false_iff] at hl
    rcases hg with hg | hg
    · exact goto_le a d e L h.1 hg hl.1
    · exact goto_le b d e L h.2 hg hl.2
  | .ifs _ thn els _, d, e, L, h, hg, hl => by
    simp only [gotosS, List.mem_append] at hg
    simp only [hasLabel_ifs, Bool.or_eq_false_iff] at hl
    rcases hg with hg | hg
    · exact goto_le thn d e L h.1 hg hl.1
    · exact goto_le els d e L h.2 hg hl.2
  | .select _ cases _, d, e, L, h, hg, hl => by
    simp only [gotosS] at hg
    simp only [hasLabel_select] at hl
    have h1 := goto_leC cases d (e + 1) L h.1 hg hl
    rcases h.2 L hg with h2 | h2
    · rw [hl] at h2; cases h2
    · exact ⟨h1.1, h2⟩
  | .forLoop _ _ _ _ _ body _, d, e, L, h, hg, hl => by
    simp only [gotosS] at hg
    simp only [hasLabel_forLoop] at hl
    have h1 := goto_le body (d + 1) e L h.1 hg hl
    rcases h.2 L hg with h2 | h2
    · rw [hl] at h2; cases h2
    · exact ⟨h2, h1.2⟩
  | .while _ body _, d, e, L, h, hg, hl => by
    simp only [gotosS] at hg
    simp only [hasLabel_while] at hl
    exact goto_le body d e L h hg hl
  | .doLoop _ _ _ body _, d, e, L, h, hg, hl => by
    simp only [gotosS] at hg
    simp only [hasLabel_doLoop] at hl
    exact goto_le body d e L h hg hl
  | .goto L', d, e, L, h, hg, _ => by
    simp only [gotosS, List.mem_singleton] at hg
    subst hg
    exact h
  | .label _, _, _, _, _, hg, _ => by simp [gotosS] at hg
  | .gosub _, _, _, _, _, hg, _ => by simp [gotosS] at hg
  | .skip, _, _, _, _, hg, _ => by simp [gotosS] at hg
  | .assign _ _ _ _, _, _, _, _, hg, _ => by simp [gotosS] at hg
  | .print _ _, _, _, _, _, hg, _ => by simp [gotosS] at hg
  | .read _ _ _, _, _, _, _, hg, _ => by simp [gotosS] at hg
  | .end_ _, _, _, _, _, hg, _ => by simp [gotosS] at hg
  | .ret _, _, _, _, _, hg, _ => by simp [gotosS] at hg
theorem goto_leC : ∀ (cs : Cases) (d e L : Nat), DiscC fd sd P d e cs → L ∈ gotosC cs → cs.hasLabel L = false →
    fd L ≤ d ∧ sd L ≤ e
  | .nil, _, _, _, _, hg, _ => by simp [gotosC] at hg
  | .else_ body, d, e, L, h, hg, hl => by
    simp only [gotosC] at hg
    simp only [casesHasLabel_else] at hl
    exact goto_le body d e L h hg hl
  | .case _ body rest, d, e, L, h, hg, hl => by
    simp only [gotosC, List.mem_append] at hg
    simp only [casesHasLabel_case, Bool.or_eq_false_iff] at hl
    rcases hg with hg | hg
    · exact goto_le body d e L h.1 hg hl.1
    · exact goto_leC rest d e L h.2 hg hl.2
end

/-- **the label of a jump that leaves a statement is not deeper than the statement** -/
theorem jump_le {n : Nat} {s : Stmt} {m : Mode} {st st' : St} {L d e : Nat} (hd : Disc fd sd P d e s)
    (h : exec n P s m st = (st', .jump L)) : fd L ≤ d ∧ sd L ≤ e := by
  obtain ⟨hg, hl⟩ := RbThm.JmpLShape.jump_shape n P s m st st' L h
  exact goto_le s d e L hd hg hl

/-- a jump that comes out of the blocks of a SELECT in run mode left the block it was executed in -/
theorem execCases_jump_le : ∀ (cs : Cases) (n : Nat) (p : Pos) (v : Val) (st st' : St) (L d e : Nat),
    DiscC fd sd P d e cs → execCases n P p v cs st = (st', .jump L) → fd L ≤ d ∧ sd L ≤ e
  | _, 0, _, _, _, _, _, _, _, _, h => by simp [execCases] at h
  | .nil, _ + 1, _, _, _, _, _, _, _, _, h => by simp [execCases] at h
  | .else_ body, n + 1, _, _, _, _, _, _, _, hd, h => by
    simp only [execCases] at h
    exact jump_le hd h
  | .case conds body rest, n + 1, p, v, st, st', L, d, e, hd, h => by
    simp only [execCases] at h
    split at h
    · rename_i o ho
      simp only [Prod.mk.injEq] at h
      exact absurd h.2 (isFail_ne_jump (anyMatches_error ho) L)
    · exact jump_le hd.1 h
    · exact execCases_jump_le rest n p v st st' L d e hd.2 h

/-- the same for a block entered at a label -/
theorem seekCases_jump_le : ∀ (cs : Cases) (n : Nat) (L0 : Nat) (st st' : St) (L d e : Nat),
    DiscC fd sd P d e cs → seekCases n P cs L0 st = (st', .jump L) → fd L ≤ d ∧ sd L ≤ e
  | _, 0, _, _, _, _, _, _, _, h => by simp [seekCases] at h
  | .nil, _ + 1, _, _, _, _, _, _, _, h => by simp [seekCases] at h
  | .else_ body, n + 1, _, _, _, _, _, _, hd, h => by
    simp only [seekCases] at h
    exact jump_le hd h
  | .case conds body rest, n + 1, L0, st, st', L, d, e, hd, h => by
    simp only [seekCases] at h
    split at h
    · exact jump_le hd.1 h
    · exact seekCases_jump_le rest n L0 st st' L d e hd.2 h

/-! ### the invariant -/

/-- the mode a statement at depths `d` / `e` may be executed in: `run`, or `seek L` for a label recorded at exactly these
depths (inside the statement it is not below a FOR or a SELECT) -/
def ModeOk (fd sd : Nat → Nat) (d e : Nat) : Mode → Prop
  | .run => True
  | .seek L => fd L = d ∧ sd L = e

/-- the five functions of the mutual block never answer `illFormed`, at one amount of fuel -/
structure Inv (fd sd : Nat → Nat) (P : Stmt) (n : Nat) : Prop where
  exec : ∀ (s : Stmt) (d e : Nat) (m : Mode) (st st' : St), Disc fd sd P d e s → ModeOk fd sd d e m →
    exec n P s m st ≠ (st', .illFormed)
  execCases : ∀ (p : Pos) (v : Val) (cs : Cases) (d e : Nat) (st st' : St), DiscC fd sd P d e cs →
    execCases n P p v cs st ≠ (st', .illFormed)
  seekCases : ∀ (cs : Cases) (L d e : Nat) (st st' : St), DiscC fd sd P d e cs → fd L = d ∧ sd L = e →
    seekCases n P cs L st ≠ (st', .illFormed)
  selectSeek : ∀ (cs : Cases) (L d e : Nat) (st st' : St), DiscC fd sd P d e cs → fd L = d ∧ sd L = e →
    selectSeek n P cs L st ≠ (st', .illFormed)
  forIter : ∀ (x : Nat) (t : Ty) (h sv : Val) (up : Bool) (body : Stmt) (p : Pos) (m : Mode) (d e : Nat) (st st' : St),
    Disc fd sd P d e body → ModeOk fd sd d e m → forIter n P x t h sv up body p m st ≠ (st', .illFormed)

theorem inv_zero : Inv fd sd P 0 := by
  refine ⟨?_, ?_, ?_, ?_, ?_⟩ <;> intros <;> simp_all [exec, execCases, seekCases, selectSeek, forIter]

theorem isFail_ne_illFormed {o : Outcome} (h : Outcome.isFail o = true) : o ≠ .illFormed := by
  cases o <;> simp_all [Outcome.isFail]

/-- `printItems` answers `normal`, an error or `inexact` -/
theorem printItems_ne_illFormed (s s' : St) (items : List PrintItem) : printItems s items ≠ (s', .illFormed) := by
  intro h
  have := printItems_outcome s items
  rw [h] at this
  rcases this with h1 | h1
  · cases h1
  · cases h1


/-- the rule of `seq` and IF for a jump out of one of their parts -/
theorem catch_noIll {n : Nat} (ih : Inv fd sd P n) (whole : Stmt) (d e : Nat) (hw : Disc fd sd P d e whole)
    (r : St × Outcome) (st' : St) (hr1 : ∀ s1, r ≠ (s1, .illFormed))
    (hr2 : ∀ s1 L1, r = (s1, .jump L1) → fd L1 ≤ d ∧ sd L1 ≤ e)
    (h : (match r with
          | (s', .jump L) => if whole.hasLabel L = true then exec n P whole (.seek L) s' else (s', .jump L)
          | r => r) = (st', .illFormed)) : False := by
  obtain ⟨s1, o1⟩ := r
  cases o1 with
  | jump L1 =>
    simp only at h
    split at h
    · rename_i hl
      have hge := label_ge whole d e L1 hw hl
      have hle := hr2 _ _ rfl
      exact ih.exec whole d e (.seek L1) s1 st' hw ⟨by omega, by omega⟩ h
    · simp at h
  | illFormed => exact hr1 s1 rfl
  | _ => simp at h

/-- the rule of WHILE and DO for the answer of the body -/
theorem loop_noIll {n : Nat} (ih : Inv fd sd P n) (whole body : Stmt) (d e : Nat) (hw : Disc fd sd P d e whole)
    (hb : Disc fd sd P d e body) (r : St × Outcome) (st' : St) (hr1 : ∀ s1, r ≠ (s1, .illFormed))
    (hr2 : ∀ s1 L1, r = (s1, .jump L1) → fd L1 ≤ d ∧ sd L1 ≤ e)
    (h : (match r with
          | (s', .normal) => exec n P whole .run s'
          | (s', .jump L) => if body.hasLabel L = true then exec n P whole (.seek L) s' else (s', .jump L)
          | r => r) = (st', .illFormed)) : False := by
  obtain ⟨s1, o1⟩ := r
  cases o1 with
  | normal => exact ih.exec whole d e .run s1 st' hw trivial h
  | jump L1 =>
    simp only at h
    split at h
    · rename_i hl
      have hge := label_ge body d e L1 hb hl
      have hle := hr2 _ _ rfl
      exact ih.exec whole d e (.seek L1) s1 st' hw ⟨by omega, by omega⟩ h
    · simp at h
  | illFormed => exact hr1 s1 rfl
  | _ => simp at h

theorem evalCond_ne_illFormed {env : List Val} {c : Ast.Expr} {o : Outcome} (h : evalCond env c = .error o) :
    o ≠ .illFormed := isFail_ne_illFormed (evalCond_error h)

/-- the induction step; `hP`: the whole program keeps the discipline at depth 0 / 0; `hG`: every GOTO of the program names
a label of the program -/
theorem inv_succ (hP : Disc fd sd P 0 0 P) (hG : ∀ L ∈ gotosS P, P.hasLabel L = true) (n : Nat)
    (ih : Inv fd sd P n) : Inv fd sd P (n + 1) := by
  refine ⟨?_, ?_, ?_, ?_, ?_⟩
  · intro s d e m st st' hd hm h
    cases s with
    | skip => cases m <;> simp [exec] at h
    | assign x t ex p =>
      cases m with
      | seek _ => simp [exec] at h
      | run =>
        simp only [exec] at h
        split at h <;> simp at h
    | print items p =>
      cases m with
      | seek _ => simp [exec] at h
      | run =>
        simp only [exec] at h
        generalize hr : printItems st items = r at h
        obtain ⟨s1, o1⟩ := r
        cases o1 with
        | illFormed => exact printItems_ne_illFormed _ _ _ hr
        | normal => simp only at h; split at h <;> simp at h
        | _ => simp at h
    | read x t p =>
      cases m with
      | seek _ => simp [exec] at h
      | run =>
        simp only [exec] at h
        split at h
        · simp at h
        · split at h <;> simp at h
    | end_ p => cases m <;> simp [exec] at h
    | label L' =>
      cases m with
      | run => simp [exec] at h
      | seek L0 => simp only [exec] at h; split at h <;> simp at h
    | goto L' => cases m <;> simp [exec] at h
    | ret p => cases m <;> simp [exec] at h
    | gosub L' =>
      cases m with
      | seek _ => simp [exec] at h
      | run =>
        simp only [exec] at h
        have hd' : fd L' = 0 ∧ sd L' = 0 ∧ P.hasLabel L' = true := hd
        generalize hr : exec n P P (.seek L') st = r at h
        obtain ⟨s1, o1⟩ := r
        cases o1 with
        | jump L1 =>
          have hs := RbThm.JmpLShape.jump_shape n P P _ st s1 L1 hr
          have := hG L1 hs.1
          rw [hs.2] at this
          cases this
        | notHere => exact exec_seek_ne_notHere hr hd'.2.2 rfl
        | illFormed => exact ih.exec P 0 0 (.seek L') st s1 hP ⟨hd'.1, hd'.2.1⟩ hr
        | _ => simp at h
    | seq a b =>
      have hd' : Disc fd sd P d e a ∧ Disc fd sd P d e b := hd
      simp only [exec] at h
      split at h
      · refine catch_noIll ih (.seq a b) d e hd _ st' ?_ ?_ h
        · intro s1 hr
          split at hr
          · generalize hra : exec n P a m st = ra at hr
            obtain ⟨s2, o2⟩ := ra
            cases o2 with
            | normal => exact ih.exec b d e .run s2 s1 hd'.2 trivial hr
            | illFormed => exact ih.exec a d e m st s2 hd'.1 hm hra
            | _ => simp at hr
          · exact ih.exec b d e m st s1 hd'.2 hm hr
        · intro s1 L1 hr
          split at hr
          · generalize hra : exec n P a m st = ra at hr
            obtain ⟨s2, o2⟩ := ra
            cases o2 with
            | normal => exact jump_le hd'.2 hr
            | jump L2 =>
              simp only [Prod.mk.injEq, Outcome.jump.injEq] at hr
              obtain ⟨_, rfl⟩ := hr
              exact jump_le hd'.1 hra
            | _ => simp at hr
          · exact jump_le hd'.2 hr
      · simp at h
    | ifs c thn els p =>
      have hd' : Disc fd sd P d e thn ∧ Disc fd sd P d e els := hd
      simp only [exec] at h
      split at h
      · refine catch_noIll ih (.ifs c thn els p) d e hd _ st' ?_ ?_ h
        · intro s1 hr
          cases m with
          | run =>
            simp only at hr
            cases hc : evalCond st.env c with
            | error o =>
              rw [hc] at hr
              simp only [Prod.mk.injEq] at hr
              exact evalCond_ne_illFormed hc hr.2
            | ok bv =>
              rw [hc] at hr
              cases bv with
              | true => exact ih.exec thn d e .run st s1 hd'.1 trivial hr
              | false => exact ih.exec els d e .run st s1 hd'.2 trivial hr
          | seek L0 =>
            simp only at hr
            split at hr
            · exact ih.exec thn d e (.seek L0) st s1 hd'.1 hm hr
            · exact ih.exec els d e (.seek L0) st s1 hd'.2 hm hr
        · intro s1 L1 hr
          cases m with
          | run =>
            simp only at hr
            cases hc : evalCond st.env c with
            | error o =>
              rw [hc] at hr
              simp only [Prod.mk.injEq] at hr
              exact absurd hr.2 (isFail_ne_jump (evalCond_error hc) L1)
            | ok bv =>
              rw [hc] at hr
              cases bv with
              | true => exact jump_le hd'.1 hr
              | false => exact jump_le hd'.2 hr
          | seek L0 =>
            simp only at hr
            split at hr
            · exact jump_le hd'.1 hr
            · exact jump_le hd'.2 hr
      · simp at h
    | select ex cases p =>
      have hd' : DiscC fd sd P d (e + 1) cases ∧ ∀ L ∈ gotosC cases, cases.hasLabel L = true ∨ sd L ≤ e := hd
      cases m with
      | seek L0 =>
        simp only [exec] at h
        split at h
        · rename_i hl
          have hge := label_geC cases d (e + 1) L0 hd'.1 hl
          have hm' : fd L0 = d ∧ sd L0 = e := hm
          omega
        · simp at h
      | run =>
        simp only [exec] at h
        cases he : evalE st.env ex with
        | error o =>
          rw [he] at h
          simp only [Prod.mk.injEq] at h
          exact isFail_ne_illFormed (evalE_error he) h.2
        | ok subject =>
          rw [he] at h
          simp only at h
          generalize hr : execCases n P p subject cases st = r at h
          obtain ⟨s1, o1⟩ := r
          cases o1 with
          | jump L1 =>
            simp only at h
            split at h
            · rename_i hl
              have hle := execCases_jump_le cases n p subject st s1 L1 d (e + 1) hd'.1 hr
              have hge := label_geC cases d (e + 1) L1 hd'.1 hl
              exact ih.selectSeek cases L1 d (e + 1) s1 st' hd'.1 ⟨by omega, by omega⟩ h
            · simp at h
          | illFormed => exact ih.execCases p subject cases d (e + 1) st s1 hd'.1 hr
          | _ => simp at h
    | forLoop x t lo hi step body p =>
      have hd' : Disc fd sd P (d + 1) e body ∧ ∀ L ∈ gotosS body, body.hasLabel L = true ∨ fd L ≤ d := hd
      cases m with
      | seek L0 =>
        simp only [exec] at h
        split at h
        · rename_i hl
          have hge := label_ge body (d + 1) e L0 hd'.1 hl
          have hm' : fd L0 = d ∧ sd L0 = e := hm
          omega
        · simp at h
      | run =>
        simp only [exec] at h
        have key : ∀ (h' sv : Val) (up : Bool) (s0 : St), forIter n P x t h' sv up body p .run s0 = (st', .illFormed) →
            False := fun h' sv up s0 hf => ih.forIter x t h' sv up body p .run (d + 1) e s0 st' hd'.1 trivial hf
        split at h
        · simp at h
        · simp at h
        · split at h
          · simp at h
          · simp at h
          · split at h
            · exact key _ _ _ _ h
            · split at h
              · rename_i o ho
                simp only [Prod.mk.injEq] at h
                exact isFail_ne_illFormed (evalE_error ho) h.2
              · split at h
                · rename_i o ho
                  simp only [Prod.mk.injEq] at h
                  exact isFail_ne_illFormed (stepSign_error ho) h.2
                · exact key _ _ _ _ h
                · exact key _ _ _ _ h
                · simp at h
    | «while» c body p =>
      have hd' : Disc fd sd P d e body := hd
      simp only [exec] at h
      split at h
      · split at h
        · rename_i o ho
          simp only [Prod.mk.injEq] at h
          cases m with
          | run => exact evalCond_ne_illFormed ho h.2
          | seek _ => simp at ho
        · simp at h
        · refine loop_noIll ih (.while c body p) body d e hd hd' _ st' ?_ ?_ h
          · intro s1 hr; exact ih.exec body d e m st s1 hd' hm hr
          · intro s1 L1 hr; exact jump_le hd' hr
      · simp at h
    | doLoop c top until_ body p =>
      have hd' : Disc fd sd P d e body := hd
      simp only [exec] at h
      split at h
      · split at h
        · split at h
          · rename_i o ho
            simp only [Prod.mk.injEq] at h
            cases m with
            | run => exact evalCond_ne_illFormed ho h.2
            | seek _ => simp at ho
          · split at h
            · refine loop_noIll ih (.doLoop c top until_ body p) body d e hd hd' _ st' ?_ ?_ h
              · intro s1 hr; exact ih.exec body d e m st s1 hd' hm hr
              · intro s1 L1 hr; exact jump_le hd' hr
            · simp at h
        · generalize hr : exec n P body m st = r at h
          obtain ⟨s1, o1⟩ := r
          cases o1 with
          | normal =>
            simp only at h
            split at h
            · rename_i o ho
              simp only [Prod.mk.injEq] at h
              exact evalCond_ne_illFormed ho h.2
            · split at h
              · exact ih.exec _ d e .run s1 st' hd trivial h
              · simp at h
          | jump L1 =>
            simp only at h
            split at h
            · rename_i hl
              have hge := label_ge body d e L1 hd' hl
              have hle := jump_le hd' hr
              exact ih.exec _ d e (.seek L1) s1 st' hd ⟨by omega, by omega⟩ h
            · simp at h
          | illFormed => exact ih.exec body d e m st s1 hd' hm hr
          | _ => simp at h
      · simp at h
  · intro p v cs d e st st' hd h
    cases cs with
    | nil => simp [execCases] at h
    | else_ body =>
      simp only [execCases] at h
      exact ih.exec body d e .run st st' hd trivial h
    | case conds body rest =>
      have hd' : Disc fd sd P d e body ∧ DiscC fd sd P d e rest := hd
      simp only [execCases] at h
      split at h
      · rename_i o ho
        simp only [Prod.mk.injEq] at h
        exact isFail_ne_illFormed (anyMatches_error ho) h.2
      · exact ih.exec body d e .run st st' hd'.1 trivial h
      · exact ih.execCases p v rest d e st st' hd'.2 h
  · intro cs L d e st st' hd hm h
    cases cs with
    | nil => simp [seekCases] at h
    | else_ body =>
      simp only [seekCases] at h
      exact ih.exec body d e (.seek L) st st' hd hm h
    | case conds body rest =>
      have hd' : Disc fd sd P d e body ∧ DiscC fd sd P d e rest := hd
      simp only [seekCases] at h
      split at h
      · exact ih.exec body d e (.seek L) st st' hd'.1 hm h
      · exact ih.seekCases rest L d e st st' hd'.2 hm h
  · intro cs L d e st st' hd hm h
    simp only [selectSeek] at h
    generalize hr : seekCases n P cs L st = r at h
    obtain ⟨s1, o1⟩ := r
    cases o1 with
    | jump L1 =>
      simp only at h
      split at h
      · rename_i hl
        have hle := seekCases_jump_le cs n L st s1 L1 d e hd hr
        have hge := label_geC cs d e L1 hd hl
        exact ih.selectSeek cs L1 d e s1 st' hd ⟨by omega, by omega⟩ h
      · simp at h
    | illFormed => exact ih.seekCases cs L d e st s1 hd hm hr
    | _ => simp at h
  · intro x t hv sv up body p m d e st st' hd hm h
    simp only [forIter] at h
    split at h
    · rename_i o ho
      simp only [Prod.mk.injEq] at h
      cases m with
      | run => exact isFail_ne_illFormed (relTest_error ho) h.2
      | seek _ => simp at ho
    · simp at h
    · generalize hr : exec n P body m st = r at h
      obtain ⟨s1, o1⟩ := r
      cases o1 with
      | normal =>
        simp only at h
        split at h
        · exact ih.forIter x t hv sv up body p .run d e _ st' hd trivial h
        · simp at h
        · simp at h
      | jump L1 =>
        simp only at h
        split at h
        · rename_i hl
          have hge := label_ge body d e L1 hd hl
          have hle := jump_le hd hr
          exact ih.forIter x t hv sv up body p (.seek L1) d e s1 st' hd ⟨by omega, by omega⟩ h
        · simp at h
      | illFormed => exact ih.exec body d e m st s1 hd hm hr
      | _ => simp at h

theorem inv_all (hP : Disc fd sd P 0 0 P) (hG : ∀ L ∈ gotosS P, P.hasLabel L = true) : ∀ n, Inv fd sd P n
  | 0 => inv_zero
  | n + 1 => inv_succ hP hG n (inv_all hP hG n)

/-- **a statement of a disciplined program never answers `illFormed`**: in `run` mode at any depths, and in `seek L` mode when
`L` is recorded at the depths of the statement (the seek does not have to enter a FOR body or a SELECT block) -/
theorem exec_never_illFormed (hP : Disc fd sd P 0 0 P) (hG : ∀ L ∈ gotosS P, P.hasLabel L = true) (n : Nat) (s : Stmt)
    (d e : Nat) (m : Mode) (st : St) (hd : Disc fd sd P d e s) (hm : ModeOk fd sd d e m) :
    (exec n P s m st).2 ≠ .illFormed := by
  intro h
  exact (inv_all hP hG n).exec s d e m st (exec n P s m st).1 hd hm (Prod.ext rfl h)

/-- the whole program, run from its first statement: no `illFormed`, no `jump` (every GOTO names a label of the program, and a
statement handles the jumps to its own labels), no `notHere` -/
theorem top_never (hP : Disc fd sd P 0 0 P) (hG : ∀ L ∈ gotosS P, P.hasLabel L = true) (n : Nat) (st : St) :
    (exec n P P .run st).2 ≠ .illFormed ∧ (∀ L, (exec n P P .run st).2 ≠ .jump L) ∧ (exec n P P .run st).2 ≠ .notHere := by
  refine ⟨exec_never_illFormed hP hG n P 0 0 .run st hP trivial, ?_, ?_⟩
  · intro L h
    have hs := RbThm.JmpLShape.jump_shape n P P .run st (exec n P P .run st).1 L (Prod.ext rfl h)
    have := hG L hs.1
    rw [hs.2] at this
    cases this
  · exact exec_run_ne_notHere (s' := (exec n P P .run st).1) rfl

end

end RbThm.JmpLNoIll
