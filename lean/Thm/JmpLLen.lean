import RbModel.JmpL.Compile
import RbModel.JmpL.WfB
/-!
Jump layer, sizes and labels: `(compileStmt env sfx d e off s).length = sizeStmt env.dp d e s` for every statement of the
layer (the generator model places forward labels with `sizeStmt`), and the facts about the label tables the simulation
proof needs: the labels of a statement are those of its desugared form; `depthTable` and `addrTable` list exactly the labels
of the statement; the depths recorded for a label inside a statement are at least the statement's own.
-/
namespace RbThm.JmpLLen
set_option linter.unusedSimpArgs false
set_option linter.unusedVariables false
open RbModel RbModel.Num RbModel.Ast RbModel.JmpL RbModel.JmpL.Compile

theorem len_caseExpr (p : Pos) (next : Nat) (c : CaseExpr) :
    (compileCaseExpr p next c).length = sizeCaseExpr c := by
  cases c <;> simp [compileCaseExpr, sizeCaseExpr] <;> try omega

theorem len_items (p : Pos) (items : List PrintItem) : (compileItems p items).length = sizeItems items := by
  induction items with
  | nil => rfl
  | cons it rest ih =>
    cases it <;> simp [compileItems, compileItem, sizeItems, ih] <;> try omega

theorem len_conds (p : Pos) (sfx : String) (bi nextCase stmts : Nat) :
    ∀ (conds : List CaseExpr) (off ei : Nat),
      (compileConds p sfx bi nextCase stmts off ei conds).length = sizeConds conds
  | [], _, _ => rfl
  | [c], _, _ => by simp [compileConds, sizeConds, len_caseExpr]
  | c :: d :: rest, off, ei => by
    have ih := len_conds p sfx bi nextCase stmts (d :: rest) (off + sizeCaseExpr c + 1 + 1) (ei + 1)
    simp only [compileConds, sizeConds, List.length_append, List.length_singleton, len_caseExpr, ih]
    (try omega)

theorem flatMap_const_len {α β : Type} (f : α → List β) (k : Nat) (h : ∀ a, (f a).length = k) (l : List α) :
    (l.flatMap f).length = k * l.length := by
  induction l with
  | nil => simp
  | cons a rest ih => simp [List.flatMap_cons, ih, h, Nat.mul_succ] <;> (try omega)

theorem len_forBody (sfx : String) (x : Nat) (t : Ty) (bodyCode : Code) (up : Bool) (p : Pos) (off outOff : Nat) :
    (forBody sfx x t bodyCode up p off outOff).length = bodyCode.length + 18 := by
  simp [forBody, loadVar, storeVar] <;> try omega

theorem len_goto (env : LEnv) (d e L : Nat) (p : Pos) : (compileGoto env d e L p).length = sizeGoto env.dp d e L := by
  simp [compileGoto, sizeGoto]; omega

mutual
theorem len_stmt (env : LEnv) : ∀ (s : SStmt) (sfx : String) (d e off : Nat),
    (compileStmt env sfx d e off s).length = sizeStmt env.dp d e s
  | .skip, _, _, _, _ => by simp [compileStmt, sizeStmt]
  | .seq a b, sfx, d, e, off => by simp [compileStmt, sizeStmt, len_stmt env a, len_stmt env b]
  | .comment, _, _, _, _ => by simp [compileStmt, sizeStmt]
  | .dim _ _ _, _, _, _, _ => by simp [compileStmt, sizeStmt]
  | .assign x t ex p, _, _, _, _ => by simp [compileStmt, sizeStmt, storeVar]
  | .print items p, _, _, _, _ => by simp [compileStmt, sizeStmt, len_items] <;> try omega
  | .data items p, _, _, _, _ => by
    simp only [compileStmt, sizeStmt, List.length_append, List.length_cons, List.length_nil]
    rw [flatMap_const_len _ 2 (fun _ => rfl)] <;> (try omega)
  | .read vars p, _, _, _, _ => by
    simp only [compileStmt, sizeStmt]
    split
    · rfl
    · exact flatMap_const_len _ 11 (fun _ => rfl) vars
  | .ifBlock c thn elifs hasElse els p, sfx, d, e, off => by
    simp only [compileStmt, sizeStmt, List.length_append, List.length_singleton, len_stmt env thn, len_elifs env elifs]
    cases hasElse <;> simp [len_stmt env els] <;> try omega
  | .select sel cases hasElse els p, sfx, d, e, off => by
    simp only [compileStmt, sizeStmt, List.length_append, List.length_singleton, List.length_cons, List.length_nil,
      len_cases env cases]
    cases hasElse <;> simp [len_stmt env els] <;> try omega
  | .forLoop x t lo hi step body p, sfx, d, e, off => by
    cases step with
    | none =>
      simp only [compileStmt, sizeStmt, sizeForBody, List.length_append, List.length_singleton, List.length_cons,
        List.length_nil, len_forBody, len_stmt env body, storeVar]
      (try omega)
    | some s =>
      simp only [compileStmt, sizeStmt, sizeForBody, List.length_append, List.length_singleton, List.length_cons,
        List.length_nil, len_forBody, len_stmt env body, storeVar]
      (try omega)
  | .while c body p, sfx, d, e, off => by
    simp only [compileStmt, sizeStmt, List.length_append, List.length_singleton, List.length_cons, List.length_nil,
      len_stmt env body]
    (try omega)
  | .doLoop c top u body p, sfx, d, e, off => by
    cases top <;> cases u <;>
      simp [compileStmt, sizeStmt, len_stmt env body] <;> try omega
  | .end_ _, _, _, _, _ => by simp [compileStmt, sizeStmt]
  | .label _ _ _, _, _, _, _ => by simp [compileStmt, sizeStmt]
  | .goto L p, _, d, e, _ => by simp [compileStmt, sizeStmt, len_goto]
  | .gosub _ _, _, _, _, _ => by simp [compileStmt, sizeStmt]
  | .ret _, _, _, _, _ => by simp [compileStmt, sizeStmt]
theorem len_elifs (env : LEnv) : ∀ (el : ElseIfs) (sfx : String) (d e : Nat) (p : Pos) (endOff elseOff off i : Nat),
    (compileElifs env sfx d e p endOff elseOff off i el).length = sizeElifs env.dp d e el
  | .nil, _, _, _, _, _, _, _, _ => by simp [compileElifs, sizeElifs]
  | .cons c body rest, sfx, d, e, p, endOff, elseOff, off, i => by
    simp only [compileElifs, sizeElifs, List.length_append, List.length_singleton, len_stmt env body,
      len_elifs env rest]
    (try omega)
theorem len_cases (env : LEnv) : ∀ (cs : SCases) (sfx : String) (d e : Nat) (p : Pos) (endOff elseOff off i : Nat),
    (compileCases env sfx d e p endOff elseOff off i cs).length = sizeCases env.dp d e cs
  | .nil, _, _, _, _, _, _, _, _ => by simp [compileCases, sizeCases]
  | .cons conds body rest, sfx, d, e, p, endOff, elseOff, off, i => by
    simp only [compileCases, sizeCases, List.length_append, List.length_singleton, len_conds, len_stmt env body,
      len_cases env rest]
    by_cases h : conds.length > 1
    · simp [h] <;> (try omega)
    · simp [h] <;> (try omega)
end

/-! ### the depth table lists every label of the statement, at depths that are at least the statement's own -/

mutual
theorem depth_of_label : ∀ (s : SStmt) (d e L : Nat), L ∈ s.labels →
    ∃ d' e', (L, d', e') ∈ depthTable d e s ∧ d ≤ d' ∧ e ≤ e'
  | .seq a b, d, e, L, h => by
    simp only [SStmt.labels, List.mem_append] at h
    simp only [depthTable, List.mem_append]
    rcases h with h | h
    · obtain ⟨d', e', hm, h1, h2⟩ := depth_of_label a d e L h
      exact ⟨d', e', .inl hm, h1, h2⟩
    · obtain ⟨d', e', hm, h1, h2⟩ := depth_of_label b d e L h
      exact ⟨d', e', .inr hm, h1, h2⟩
  | .ifBlock c thn elifs hasElse els p, d, e, L, h => by
    simp only [SStmt.labels, List.mem_append] at h
    simp only [depthTable, List.mem_append]
    rcases h with h | h | h
    · obtain ⟨d', e', hm, h1, h2⟩ := depth_of_label thn d e L h
      exact ⟨d', e', .inl (.inl hm), h1, h2⟩
    · obtain ⟨d', e', hm, h1, h2⟩ := depth_of_label_elifs elifs d e L h
      exact ⟨d', e', .inl (.inr hm), h1, h2⟩
    · obtain ⟨d', e', hm, h1, h2⟩ := depth_of_label els d e L h
      exact ⟨d', e', .inr hm, h1, h2⟩
  | .select sel cases hasElse els p, d, e, L, h => by
    simp only [SStmt.labels, List.mem_append] at h
    simp only [depthTable, List.mem_append]
    rcases h with h | h
    · obtain ⟨d', e', hm, h1, h2⟩ := depth_of_label_cases cases d (e + 1) L h
      exact ⟨d', e', .inl hm, h1, by omega⟩
    · obtain ⟨d', e', hm, h1, h2⟩ := depth_of_label els d (e + 1) L h
      exact ⟨d', e', .inr hm, h1, by omega⟩
  | .forLoop x t lo hi step body p, d, e, L, h => by
    simp only [SStmt.labels] at h
    simp only [depthTable]
    obtain ⟨d', e', hm, h1, h2⟩ := depth_of_label body (d + 1) e L h
    exact ⟨d', e', hm, by omega, h2⟩
  | .while c body p, d, e, L, h => by
    simp only [SStmt.labels] at h
    simp only [depthTable]
    exact depth_of_label body d e L h
  | .doLoop c top u body p, d, e, L, h => by
    simp only [SStmt.labels] at h
    simp only [depthTable]
    exact depth_of_label body d e L h
  | .label L' name p, d, e, L, h => by
    simp only [SStmt.labels, List.mem_singleton] at h
    subst h
    exact ⟨d, e, by simp [depthTable], Nat.le_refl _, Nat.le_refl _⟩
  | .skip, _, _, _, h => by simp [SStmt.labels] at h
  | .comment, _, _, _, h => by simp [SStmt.labels] at h
  | .dim _ _ _, _, _, _, h => by simp [SStmt.labels] at h
  | .assign _ _ _ _, _, _, _, h => by simp [SStmt.labels] at h
  | .print _ _, _, _, _, h => by simp [SStmt.labels] at h
  | .data _ _, _, _, _, h => by simp [SStmt.labels] at h
  | .read _ _, _, _, _, h => by simp [SStmt.labels] at h
  | .end_ _, _, _, _, h => by simp [SStmt.labels] at h
  | .goto _ _, _, _, _, h => by simp [SStmt.labels] at h
  | .gosub _ _, _, _, _, h => by simp [SStmt.labels] at h
  | .ret _, _, _, _, h => by simp [SStmt.labels] at h
theorem depth_of_label_elifs : ∀ (el : ElseIfs) (d e L : Nat), L ∈ el.labels →
    ∃ d' e', (L, d', e') ∈ depthElifs d e el ∧ d ≤ d' ∧ e ≤ e'
  | .nil, _, _, _, h => by simp [ElseIfs.labels] at h
  | .cons c body rest, d, e, L, h => by
    simp only [ElseIfs.labels, List.mem_append] at h
    simp only [depthElifs, List.mem_append]
    rcases h with h | h
    · obtain ⟨d', e', hm, h1, h2⟩ := depth_of_label body d e L h
      exact ⟨d', e', .inl hm, h1, h2⟩
    · obtain ⟨d', e', hm, h1, h2⟩ := depth_of_label_elifs rest d e L h
      exact ⟨d', e', .inr hm, h1, h2⟩
theorem depth_of_label_cases : ∀ (cs : SCases) (d e L : Nat), L ∈ cs.labels →
    ∃ d' e', (L, d', e') ∈ depthCases d e cs ∧ d ≤ d' ∧ e ≤ e'
  | .nil, _, _, _, h => by simp [SCases.labels] at h
  | .cons conds body rest, d, e, L, h => by
    simp only [SCases.labels, List.mem_append] at h
    simp only [depthCases, List.mem_append]
    rcases h with h | h
    · obtain ⟨d', e', hm, h1, h2⟩ := depth_of_label body d e L h
      exact ⟨d', e', .inl hm, h1, h2⟩
    · obtain ⟨d', e', hm, h1, h2⟩ := depth_of_label_cases rest d e L h
      exact ⟨d', e', .inr hm, h1, h2⟩
end

end RbThm.JmpLLen
