import RbModel.TyCore
import Thm.C12
import Thm.C01SimRead
/-!
# C12 on the core language: a program the checker accepts never raises Type mismatch

The statement-level extension of `C12_type_sound`, over the reference semantics `RbModel.Ref` of the
core language (C01: `C01_core_correct` shows that the real instruction list run by the VM model computes
exactly `Ref.run`).  `RbModel.TyCore.tyB` is the typing discipline the checker establishes (the harness
has the driver evaluate it on the linted tree of every accepted core program).

`wf_no_type_mismatch`: if `tyB` holds, a run of the program ends in error 13 (Type mismatch) only at a
READ statement (conversion of external data, excluded by the property).
-/
namespace RbThm.C12Core
open RbModel RbModel.Num RbModel.Ast RbModel.Ref RbModel.TyCore
open RbModel.Ty (kindOf Kind)
open Gen.NumTables
open RbThm.C01Sim RbThm.C01Sim.SimRead
open RbThm.C12 (bind_ne cast_same_kind arith_kinds tryCmp_kinds divide_kinds divide_ok_num KindsOk kindsOk_of_table
  binType_kinds modulo_no_mismatch negate_ne unaryNot_ne kind_num isRel)

/-! ## operators, without range hypotheses -/

theorem codeOf_13 {e : Err} (h : codeOf e = 13) : e = .typeMismatch := by
  cases e <;> simp [codeOf] at h ⊢

theorem lift_err13 {p q : Pos} {r : Res Val} (h : lift p r = .err 13 q) : r = .err .typeMismatch := by
  cases r with
  | ok v => cases h
  | inexact => cases h
  | err e =>
    simp only [lift, ERes.err.injEq] at h
    rw [codeOf_13 h.1]

theorem eres_bind_err {r : ERes} {f : Val → ERes} {c : Nat} {p : Pos} (h : r.bind f = .err c p) :
    r = .err c p ∨ ∃ v, r = .ok v ∧ f v = .err c p := by
  cases r with
  | ok v => exact Or.inr ⟨v, rfl, h⟩
  | err c' p' => simp only [ERes.bind] at h; exact Or.inl h
  | inexact => cases h

theorem int_of_tag {x : Val} (h : x.tag = .int) : ∃ n, x = .int n := by
  cases x <;> simp [Val.tag] at h; exact ⟨_, rfl⟩

/-- The operator step of `RbThm.C12.operatorStepFull_holds` without the range hypotheses (the conversions
to INTEGER in front of AND / OR produce INTEGERs: `cast_tag`). -/
theorem vmBin_no13 (op : Op) (a b : Val) (hk : KindsOk op a.tag b.tag) :
    vmBin binType op a b ≠ .err .typeMismatch := by
  have hnn : isRel op = false → op ≠ .plus → a.tag ≠ .str ∧ b.tag ≠ .str := by
    intro h1 h2
    rcases hk with h | ⟨_, _, h3⟩
    · exact h
    · rcases h3 with h3 | h3
      · exact absurd h3 h2
      · rw [h1] at h3; cases h3
  have hnum : ∀ (o : Arith), o.toOp = op → arith o a b ≠ .err .typeMismatch := by
    intro o ho
    apply arith_kinds
    rcases hk with h | ⟨h1, h2, h3⟩
    · exact Or.inl h
    · refine Or.inr ⟨h1, h2, ?_⟩
      subst ho
      cases o <;> simp_all [Arith.toOp, isRel]
  have hrel : kindOf a.tag = kindOf b.tag := by
    rcases hk with ⟨h1, h2⟩ | ⟨h1, h2, _⟩
    · rw [kind_num.mp h1, kind_num.mp h2]
    · rw [h1, h2]
  have hlog : ∀ (f : Val → Val → Res Val), (∀ n m, f (.int n) (.int m) ≠ .err .typeMismatch) →
      a.tag ≠ .str → b.tag ≠ .str →
      ((RbModel.Num.cast a .int).bind fun x => (RbModel.Num.cast b .int).bind fun y => f x y) ≠ .err .typeMismatch := by
    intro f hf h1 h2
    apply bind_ne
    · apply cast_same_kind; rw [kind_num.mp h1]; rfl
    · intro x hx
      obtain ⟨n, rfl⟩ := int_of_tag (cast_tag a .int x hx)
      apply bind_ne
      · apply cast_same_kind; rw [kind_num.mp h2]; rfl
      · intro y hy
        obtain ⟨m, rfl⟩ := int_of_tag (cast_tag b .int y hy)
        exact hf n m
  cases op <;> simp only [vmBin]
  case plus => exact hnum .add rfl
  case minus => exact hnum .sub rfl
  case multiply => exact hnum .mul rfl
  case modulo =>
    obtain ⟨h1, h2⟩ := hnn rfl (by decide)
    exact modulo_no_mismatch a b h1 h2
  case divide =>
    obtain ⟨h1, h2⟩ := hnn rfl (by decide)
    obtain ⟨t, ht, hts⟩ := RbThm.C12.num_table_total .divide a.tag b.tag h1 h2
    rw [ht]
    apply bind_ne (divide_kinds a b h1 h2)
    intro q hq
    apply cast_same_kind
    rw [kind_num.mp (divide_ok_num a b q h1 h2 hq), kind_num.mp hts]
  case and =>
    obtain ⟨h1, h2⟩ := hnn rfl (by decide)
    exact hlog RbModel.Num.and (by intro n m; simp [RbModel.Num.and]) h1 h2
  case or =>
    obtain ⟨h1, h2⟩ := hnn rfl (by decide)
    exact hlog RbModel.Num.or (by intro n m; simp [RbModel.Num.or]) h1 h2
  all_goals exact bind_ne (tryCmp_kinds a b hrel) (by intro o _; simp)

/-- the operator node of static type `t` (`Ref.binStep`): `/` converts the quotient to `t` -/
theorem binStep_no13 (op : Op) (t : Ty) (a b : Val) (ht : binType op a.tag b.tag = some t) :
    binStep op t a b ≠ .err .typeMismatch := by
  by_cases hd : op = .divide
  · subst hd
    simp only [binStep]
    rcases binType_kinds .divide a.tag b.tag t ht with ⟨h1, h2, h3⟩ | ⟨_, _, h3⟩
    · apply bind_ne (divide_kinds a b h1 h2)
      intro q hq
      apply cast_same_kind
      rw [kind_num.mp (divide_ok_num a b q h1 h2 hq), kind_num.mp h3]
    · rcases h3 with ⟨h, _⟩ | ⟨h, _⟩ <;> simp [isRel] at h
  · have hb' : binStep op t a b = vmBin binType op a b := by
      cases op <;> first | rfl | exact absurd rfl hd
    rw [hb']
    exact vmBin_no13 op a b (kindsOk_of_table ht)

/-! ## expressions -/

theorem exprTy_wt (sl : List Ty) : ∀ e, exprTyB sl e = true → ExprWt sl e
  | .lit _ _, _ => trivial
  | .var x t _, h => by
    simp only [exprTyB, decide_eq_true_eq] at h
    exact h
  | .un _ e _, h => by
    simp only [exprTyB, Bool.and_eq_true] at h
    exact exprTy_wt sl e h.1
  | .bin op l r t _, h => by
    simp only [exprTyB, Bool.and_eq_true, decide_eq_true_eq] at h
    exact ⟨exprTy_wt sl l h.1.1, exprTy_wt sl r h.1.2, Or.inr h.2⟩
  | .paren e _, h => by
    simp only [exprTyB] at h
    exact exprTy_wt sl e h

/-- **Expressions.** In an environment whose variables hold values of their declared types, a well typed
expression never evaluates to Type mismatch. -/
theorem eval_no13 (sl : List Ty) (env : List Val) (hty : Typed sl env) :
    ∀ (e : Ast.Expr), exprTyB sl e = true → ∀ p, eval env e ≠ .err 13 p := by
  intro e
  induction e with
  | lit w q => intro _ p h; simp [eval] at h
  | var x t q => intro _ p h; simp [eval] at h
  | paren e q ih => intro hw p h; simp only [eval] at h; simp only [exprTyB] at hw; exact ih hw p h
  | un op e q ih =>
    intro hw p h
    simp only [exprTyB, Bool.and_eq_true, decide_eq_true_eq] at hw
    have hnum : ∀ a, eval env e = .ok a → a.tag ≠ .str := by
      intro a ha; rw [eval_tag sl env hty e a (exprTy_wt sl e hw.1) ha]; exact hw.2
    cases op with
    | neg =>
      simp only [eval] at h
      rcases eres_bind_err h with h | ⟨a, ha, h⟩
      · exact ih hw.1 p h
      · exact negate_ne a (hnum a ha) (lift_err13 h)
    | not =>
      simp only [eval] at h
      rcases eres_bind_err h with h | ⟨a, ha, h⟩
      · exact ih hw.1 p h
      · exact unaryNot_ne a (hnum a ha) (lift_err13 h)
  | bin op l r t q ihl ihr =>
    intro hw p h
    simp only [exprTyB, Bool.and_eq_true, decide_eq_true_eq] at hw
    simp only [eval] at h
    rcases eres_bind_err h with h | ⟨a, ha, h⟩
    · exact ihl hw.1.1 p h
    · rcases eres_bind_err h with h | ⟨b, hb, h⟩
      · exact ihr hw.1.2 p h
      · have hta := eval_tag sl env hty l a (exprTy_wt sl l hw.1.1) ha
        have htb := eval_tag sl env hty r b (exprTy_wt sl r hw.1.2) hb
        exact binStep_no13 op t a b (by rw [hta, htb]; exact hw.2) (lift_err13 h)


/-! ## the pieces of a statement -/

theorem evalTo_no13 (sl : List Ty) (env : List Val) (hty : Typed sl env) (e : Ast.Expr) (t : Ty)
    (hw : exprTyB sl e = true) (hk : kindOf e.ty = kindOf t) : ∀ p, evalTo env e t ≠ .err 13 p := by
  intro p h
  unfold evalTo at h
  rcases eres_bind_err h with h | ⟨v, hv, h⟩
  · exact eval_no13 sl env hty e hw p h
  · have hv' := eval_tag sl env hty e v (exprTy_wt sl e hw) hv
    have h := lift_err13 h
    unfold storeCast at h
    split at h
    · cases h
    · exact cast_same_kind v t (by rw [hv', hk]) h

theorem truthy_num {v : Val} (h : v.tag ≠ .str) : ∃ b, truthy v = some b := by
  cases v <;> simp [truthy, Val.tag] at h ⊢

theorem evalCond_no13 (sl : List Ty) (env : List Val) (hty : Typed sl env) (c : Ast.Expr)
    (hw : numB sl c = true) : ∀ p, evalCond env c ≠ .error (.error 13 p) := by
  intro p h
  simp only [numB, Bool.and_eq_true, decide_eq_true_eq] at hw
  unfold evalCond at h
  cases hev : eval env c with
  | err code q =>
    simp only [hev] at h
    injection h with h; injection h with h1 h2
    subst h1; subst h2
    exact eval_no13 sl env hty c hw.1 q hev
  | inexact => simp only [hev] at h; injection h with h; cases h
  | ok v =>
    simp only [hev] at h
    have hv := eval_tag sl env hty c v (exprTy_wt sl c hw.1) hev
    obtain ⟨b, hb⟩ := truthy_num (v := v) (by rw [hv]; exact hw.2)
    simp only [hb] at h
    cases h

theorem evalE_no13 (sl : List Ty) (env : List Val) (hty : Typed sl env) (e : Ast.Expr)
    (hw : exprTyB sl e = true) : ∀ p, evalE env e ≠ .error (.error 13 p) := by
  intro p h
  unfold evalE at h
  cases hev : eval env e with
  | err code q =>
    simp only [hev] at h
    injection h with h; injection h with h1 h2
    subst h1; subst h2
    exact eval_no13 sl env hty e hw q hev
  | inexact => simp only [hev] at h; injection h with h; cases h
  | ok v => simp only [hev] at h; cases h

theorem evalE_tag (sl : List Ty) (env : List Val) (hty : Typed sl env) (e : Ast.Expr)
    (hw : exprTyB sl e = true) {v : Val} (h : evalE env e = .ok v) : v.tag = e.ty := by
  unfold evalE at h
  cases hev : eval env e with
  | err code q => simp only [hev] at h; cases h
  | inexact => simp only [hev] at h; cases h
  | ok w =>
    simp only [hev] at h
    injection h with h; subst h
    exact eval_tag sl env hty e w (exprTy_wt sl e hw) hev

theorem relTest_no13 (q : Pos) (op : Op) (a b : Val) (hk : kindOf a.tag = kindOf b.tag) :
    ∀ p, relTest q op a b ≠ .error (.error 13 p) := by
  intro p h
  unfold relTest at h
  cases hc : tryCmp a b with
  | ok o => simp only [hc] at h; cases h
  | inexact => simp only [hc] at h; injection h with h; cases h
  | err e =>
    simp only [hc] at h
    injection h with h; injection h with h1 h2
    rw [codeOf_13 h1] at hc
    exact tryCmp_kinds a b hk hc

/-- `Except.bind` to an error -/
theorem except_bind_err {α β : Type} {x : Except Outcome α} {f : α → Except Outcome β} {o : Outcome}
    (h : (x >>= f) = .error o) : x = .error o ∨ ∃ a, x = .ok a ∧ f a = .error o := by
  cases x with
  | error e => left; simpa [bind, Except.bind] using h
  | ok a => right; exact ⟨a, rfl, by simpa [bind, Except.bind] using h⟩

theorem caseMatches_no13 (sl : List Ty) (env : List Val) (hty : Typed sl env) (q : Pos) (subj : Val)
    (c : CaseExpr) (hw : caseTyB sl (kindOf subj.tag) c = true) :
    ∀ p, caseMatches env q subj c ≠ .error (.error 13 p) := by
  intro p h
  cases c with
  | simple e =>
    simp only [caseTyB, Bool.and_eq_true, decide_eq_true_eq] at hw
    simp only [caseMatches] at h
    rcases except_bind_err h with h | ⟨v, hv, h⟩
    · exact evalE_no13 sl env hty e hw.1 p h
    · exact relTest_no13 q .equal subj v (by rw [evalE_tag sl env hty e hw.1 hv, hw.2]) p h
  | is op e =>
    simp only [caseTyB, Bool.and_eq_true, decide_eq_true_eq] at hw
    simp only [caseMatches] at h
    rcases except_bind_err h with h | ⟨v, hv, h⟩
    · exact evalE_no13 sl env hty e hw.1 p h
    · exact relTest_no13 q op subj v (by rw [evalE_tag sl env hty e hw.1 hv, hw.2]) p h
  | range lo hi =>
    simp only [caseTyB, Bool.and_eq_true, decide_eq_true_eq] at hw
    obtain ⟨⟨⟨hlo, hklo⟩, hhi⟩, hkhi⟩ := hw
    simp only [caseMatches] at h
    rcases except_bind_err h with h | ⟨l, hl, h⟩
    · exact evalE_no13 sl env hty lo hlo p h
    · rcases except_bind_err h with h | ⟨b1, _, h⟩
      · exact relTest_no13 q .greaterOrEqual subj l (by rw [evalE_tag sl env hty lo hlo hl, hklo]) p h
      · cases b1 with
        | false => simp [pure, Except.pure] at h
        | true =>
          simp only [if_true] at h
          rcases except_bind_err h with h | ⟨hv, hh, h⟩
          · exact evalE_no13 sl env hty hi hhi p h
          · exact relTest_no13 q .lessOrEqual subj hv (by rw [evalE_tag sl env hty hi hhi hh, hkhi]) p h

theorem anyMatches_no13 (sl : List Ty) (env : List Val) (hty : Typed sl env) (q : Pos) (subj : Val) :
    ∀ (cs : List CaseExpr), condsTyB sl (kindOf subj.tag) cs = true →
      ∀ p, anyMatches env q subj cs ≠ .error (.error 13 p)
  | [], _, p, h => by simp [anyMatches, pure, Except.pure] at h
  | c :: rest, hw, p, h => by
    simp only [condsTyB, Bool.and_eq_true] at hw
    simp only [anyMatches] at h
    rcases except_bind_err h with h | ⟨b, _, h⟩
    · exact caseMatches_no13 sl env hty q subj c hw.1 p h
    · cases b with
      | true => simp [pure, Except.pure] at h
      | false =>
        simp only [Bool.false_eq_true, if_false] at h
        exact anyMatches_no13 sl env hty q subj rest hw.2 p h

theorem stepSign_no13 (q : Pos) (sv : Val) (hn : sv.tag ≠ .str) : ∀ p, stepSign q sv ≠ .error (.error 13 p) := by
  intro p h
  have hk : kindOf sv.tag = kindOf (Val.int 0).tag := by rw [kind_num.mp hn]; rfl
  unfold stepSign at h
  rcases except_bind_err h with h | ⟨b, _, h⟩
  · exact relTest_no13 q .less sv (.int 0) hk p h
  · cases b with
    | true => simp [pure, Except.pure] at h
    | false =>
      simp only [Bool.false_eq_true, if_false] at h
      rcases except_bind_err h with h | ⟨b2, _, h⟩
      · exact relTest_no13 q .greater sv (.int 0) hk p h
      · cases b2 <;> simp [pure, Except.pure] at h

theorem printItems_no13 (sl : List Ty) : ∀ (items : List PrintItem) (s s' : St) (p : Pos),
    itemsTyB sl items = true → Typed sl s.env → printItems s items ≠ (s', .error 13 p)
  | [], s, s', p, _, _, h => by simp only [printItems] at h; cases h
  | .comma :: rest, s, s', p, hw, hty, h => by
    simp only [itemsTyB] at hw
    simp only [printItems] at h
    exact printItems_no13 sl rest { s with out := s.out.moveToNextPrintZone } s' p hw hty h
  | .semicolon :: rest, s, s', p, hw, hty, h => by
    simp only [itemsTyB] at hw
    simp only [printItems] at h
    exact printItems_no13 sl rest _ s' p hw hty h
  | .expr e :: rest, s, s', p, hw, hty, h => by
    simp only [itemsTyB, Bool.and_eq_true] at hw
    simp only [printItems] at h
    cases hev : eval s.env e with
    | err c q =>
      simp only [hev] at h
      injection h with _ h; injection h with h1 h2
      subst h1; subst h2
      exact eval_no13 sl s.env hty e hw.1 q hev
    | inexact => simp only [hev] at h; injection h with _ h; cases h
    | ok v =>
      simp only [hev] at h
      cases hpv : printValue v with
      | none => simp only [hpv] at h; injection h with _ h; cases h
      | some pv =>
        simp only [hpv] at h
        exact printItems_no13 sl rest { s with out := s.out.print (Print.valueText pv) } s' p hw.2 hty h


/-! ## statements -/

mutual
/-- the typing discipline implies what type preservation (`pres_all`, C01) needs -/
theorem ty_wfA (sl : List Ty) : ∀ (st : Stmt), tyB sl st = true → WfA sl st
  | .skip, _ => by simp [WfA]
  | .seq a b, h => by
    simp only [tyB, Bool.and_eq_true] at h
    simp only [WfA]; exact ⟨ty_wfA sl a h.1, ty_wfA sl b h.2⟩
  | .assign x t e _, h => by
    simp only [tyB, Bool.and_eq_true, decide_eq_true_eq] at h
    simp only [WfA]; exact ⟨h.1.1, exprTy_wt sl e h.1.2⟩
  | .print _ _, _ => by simp [WfA]
  | .read x t _, h => by
    simp only [tyB, decide_eq_true_eq] at h
    simp only [WfA]; exact h
  | .ifs c thn els _, h => by
    simp only [tyB, Bool.and_eq_true] at h
    simp only [WfA]; exact ⟨ty_wfA sl thn h.1.2, ty_wfA sl els h.2⟩
  | .select e cases _, h => by
    simp only [tyB, Bool.and_eq_true] at h
    simp only [WfA]; exact ty_wfAC sl _ cases h.2
  | .forLoop x t lo hi step body _, h => by
    simp only [tyB, numB, Bool.and_eq_true, decide_eq_true_eq] at h
    simp only [WfA]; exact ⟨h.1.1.1.1.1, exprTy_wt sl lo h.1.1.1.2.1, ty_wfA sl body h.2⟩
  | .while c body _, h => by
    simp only [tyB, Bool.and_eq_true] at h
    simp only [WfA]; exact ty_wfA sl body h.2
  | .doLoop c _ _ body _, h => by
    simp only [tyB, Bool.and_eq_true] at h
    simp only [WfA]; exact ty_wfA sl body h.2
  | .end_ _, _ => by simp [WfA]
theorem ty_wfAC (sl : List Ty) (k : Kind) : ∀ (cs : Cases), tyCasesB sl k cs = true → WfAC sl cs
  | .nil, _ => by simp [WfAC]
  | .else_ body, h => by
    simp only [tyCasesB] at h
    simp only [WfAC]; exact ty_wfA sl body h
  | .case conds body rest, h => by
    simp only [tyCasesB, Bool.and_eq_true] at h
    simp only [WfAC]; exact ⟨ty_wfA sl body h.1.2, ty_wfAC sl k rest h.2⟩
end

/-- "an error 13 comes from a READ", at a given amount of fuel, for the three mutually recursive functions -/
def NoTM (sl : List Ty) (fuel : Nat) : Prop :=
  (∀ stmt s s' p, tyB sl stmt = true → Typed sl s.env → exec fuel stmt s = (s', .error 13 p) → ReadAt p stmt) ∧
  (∀ q subj cs s s' p, tyCasesB sl (kindOf subj.tag) cs = true → Typed sl s.env →
      execCases fuel q subj cs s = (s', .error 13 p) → ReadAtC p cs) ∧
  (∀ x t h sv up body q s s' p, sl[x]? = some t → t ≠ .str → h.tag ≠ .str → sv.tag ≠ .str → tyB sl body = true →
      Typed sl s.env → forIter fuel x t h sv up body q s = (s', .error 13 p) → ReadAt p body)

theorem noTM_zero (sl : List Ty) : NoTM sl 0 := by
  refine ⟨?_, ?_, ?_⟩
  · intro stmt s s' p _ _ h; simp only [exec] at h; cases h
  · intro q subj cs s s' p _ _ h; simp only [execCases] at h; cases h
  · intro x t hv sv up body q s s' p _ _ _ _ _ _ h; simp only [forIter] at h; cases h

theorem num_of_kind {a b : Ty} (h : a ≠ .str) (hb : b ≠ .str) : kindOf a = kindOf b := by
  rw [kind_num.mp h, kind_num.mp hb]

theorem noTM_succ (sl : List Ty) (n : Nat) (ih : NoTM sl n) : NoTM sl (n + 1) := by
  obtain ⟨ihE, ihC, ihF⟩ := ih
  have presE := (pres_all sl n).1
  refine ⟨?_, ?_, ?_⟩
  · intro stmt s s' p hw hty h
    cases stmt with
    | skip => simp only [exec] at h; cases h
    | end_ q => simp only [exec] at h; cases h
    | seq a b =>
      simp only [tyB, Bool.and_eq_true] at hw
      simp only [exec] at h
      generalize hr : exec n a s = r at h
      obtain ⟨s1, o1⟩ := r
      cases o1 with
      | normal =>
        simp only at h
        exact Or.inr (ihE b s1 s' p hw.2 (presE a s s1 (ty_wfA sl a hw.1) hty hr) h)
      | halted => simp only at h; cases h
      | error c q => simp only at h; cases h; exact Or.inl (ihE a s s' p hw.1 hty hr)
      | inexact => simp only at h; cases h
      | outOfFuel => simp only at h; cases h
    | assign x t e q =>
      simp only [tyB, Bool.and_eq_true, decide_eq_true_eq] at hw
      simp only [exec] at h
      cases hev : evalTo s.env e t with
      | err c r =>
        simp only [hev] at h; cases h
        exact absurd hev (evalTo_no13 sl s.env hty e t hw.1.2 hw.2 p)
      | inexact => simp only [hev] at h; cases h
      | ok v => simp only [hev] at h; cases h
    | print items q =>
      simp only [tyB] at hw
      simp only [exec] at h
      generalize hr : printItems s items = r at h
      obtain ⟨s1, o1⟩ := r
      cases o1 with
      | normal => simp only at h; split at h <;> cases h
      | halted => simp only at h; cases h
      | error c r => simp only at h; cases h; exact absurd hr (printItems_no13 sl items s s' p hw hty)
      | inexact => simp only at h; cases h
      | outOfFuel => simp only at h; cases h
    | read x t q =>
      simp only [exec] at h
      cases hd : s.data[s.dataIdx]? with
      | none => simp only [hd] at h; cases h
      | some v =>
        simp only [hd] at h
        cases hc : RbModel.Num.cast v t with
        | err e =>
          simp only [hc, Prod.mk.injEq, Outcome.error.injEq] at h
          simp only [ReadAt]; exact h.2.2
        | inexact => simp only [hc] at h; cases h
        | ok w => simp only [hc] at h; cases h
    | ifs c thn els q =>
      simp only [tyB, Bool.and_eq_true] at hw
      simp only [exec] at h
      cases hc : evalCond s.env c with
      | error o' =>
        simp only [hc] at h; cases h
        exact absurd hc (evalCond_no13 sl s.env hty c hw.1.1 p)
      | ok b =>
        cases b with
        | true => simp only [hc] at h; exact Or.inl (ihE thn s s' p hw.1.2 hty h)
        | false => simp only [hc] at h; exact Or.inr (ihE els s s' p hw.2 hty h)
    | select e cases q =>
      simp only [tyB, Bool.and_eq_true] at hw
      simp only [exec] at h
      cases he : evalE s.env e with
      | error o' =>
        simp only [he] at h; cases h
        exact absurd he (evalE_no13 sl s.env hty e hw.1 p)
      | ok subj =>
        simp only [he] at h
        have hk := evalE_tag sl s.env hty e hw.1 he
        exact ihC q subj cases s s' p (by rw [hk]; exact hw.2) hty h
    | forLoop x t lo hi step body q =>
      simp only [tyB, numB, Bool.and_eq_true, decide_eq_true_eq] at hw
      obtain ⟨⟨⟨⟨⟨hx, ht⟩, hlo, hlon⟩, hhi, hhin⟩, hstep⟩, hbody⟩ := hw
      simp only [exec] at h
      cases hl : evalTo s.env lo t with
      | err c r =>
        simp only [hl] at h; cases h
        exact absurd hl (evalTo_no13 sl s.env hty lo t hlo (num_of_kind hlon ht) p)
      | inexact => simp only [hl] at h; cases h
      | ok l =>
        simp only [hl] at h
        have hty1 : Typed sl (s.set x l).env :=
          typed_set hty hx (evalTo_tag sl s.env hty lo t l (exprTy_wt sl lo hlo) hl)
        cases hh : evalTo (s.set x l).env hi t with
        | err c r =>
          simp only [hh] at h; cases h
          exact absurd hh (evalTo_no13 sl _ hty1 hi t hhi (num_of_kind hhin ht) p)
        | inexact => simp only [hh] at h; cases h
        | ok hv =>
          simp only [hh] at h
          have hhv : hv.tag ≠ .str := by
            rw [evalTo_tag sl _ hty1 hi t hv (exprTy_wt sl hi hhi) hh]; exact ht
          cases step with
          | none =>
            simp only at h
            exact ihF x t hv _ true body q _ s' p hx ht hhv (by simp [Val.tag]) hbody hty1 h
          | some se =>
            simp only [Bool.and_eq_true, decide_eq_true_eq] at hstep
            simp only at h
            cases hs : evalE (s.set x l).env se with
            | error o' =>
              simp only [hs] at h; cases h
              exact absurd hs (evalE_no13 sl _ hty1 se hstep.1 p)
            | ok sv =>
              simp only [hs] at h
              have hsv : sv.tag ≠ .str := by rw [evalE_tag sl _ hty1 se hstep.1 hs]; exact hstep.2
              cases hsg : stepSign q sv with
              | error o' =>
                simp only [hsg] at h; cases h
                exact absurd hsg (stepSign_no13 q sv hsv p)
              | ok sg =>
                cases sg with
                | neg => simp only [hsg] at h; exact ihF x t hv sv false body q _ s' p hx ht hhv hsv hbody hty1 h
                | pos => simp only [hsg] at h; exact ihF x t hv sv true body q _ s' p hx ht hhv hsv hbody hty1 h
                | zero => simp only [hsg] at h; cases h
    | «while» c body q =>
      have hw0 := hw
      simp only [tyB, Bool.and_eq_true] at hw
      simp only [exec] at h
      cases hc : evalCond s.env c with
      | error o' =>
        simp only [hc] at h; cases h
        exact absurd hc (evalCond_no13 sl s.env hty c hw.1 p)
      | ok b =>
        cases b with
        | false => simp only [hc] at h; cases h
        | true =>
          simp only [hc] at h
          generalize hr : exec n body s = r at h
          obtain ⟨s1, o1⟩ := r
          cases o1 with
          | normal =>
            simp only at h
            have := ihE _ s1 s' p hw0 (presE body s s1 (ty_wfA sl body hw.2) hty hr) h
            simpa only [ReadAt] using this
          | halted => simp only at h; cases h
          | error c r => simp only at h; cases h; simp only [ReadAt]; exact ihE body s s' p hw.2 hty hr
          | inexact => simp only at h; cases h
          | outOfFuel => simp only at h; cases h
    | doLoop c top until_ body q =>
      have hw0 := hw
      simp only [tyB, Bool.and_eq_true] at hw
      simp only [exec] at h
      cases top with
      | true =>
        simp only [if_true] at h
        cases hc : evalCond s.env c with
        | error o' =>
          simp only [hc] at h; cases h
          exact absurd hc (evalCond_no13 sl s.env hty c hw.1 p)
        | ok b =>
          simp only [hc] at h
          split at h
          · generalize hr : exec n body s = r at h
            obtain ⟨s1, o1⟩ := r
            cases o1 with
            | normal =>
              simp only at h
              have := ihE _ s1 s' p hw0 (presE body s s1 (ty_wfA sl body hw.2) hty hr) h
              simpa only [ReadAt] using this
            | halted => simp only at h; cases h
            | error c r => simp only at h; cases h; simp only [ReadAt]; exact ihE body s s' p hw.2 hty hr
            | inexact => simp only at h; cases h
            | outOfFuel => simp only at h; cases h
          · cases h
      | false =>
        simp only [Bool.false_eq_true, if_false] at h
        generalize hr : exec n body s = r at h
        obtain ⟨s1, o1⟩ := r
        cases o1 with
        | normal =>
          simp only at h
          have hty1 := presE body s s1 (ty_wfA sl body hw.2) hty hr
          cases hc : evalCond s1.env c with
          | error o' =>
            simp only [hc] at h; cases h
            exact absurd hc (evalCond_no13 sl _ hty1 c hw.1 p)
          | ok b =>
            simp only [hc] at h
            split at h
            · have := ihE _ s1 s' p hw0 hty1 h
              simpa only [ReadAt] using this
            · cases h
        | halted => simp only at h; cases h
        | error c r => simp only at h; cases h; simp only [ReadAt]; exact ihE body s s' p hw.2 hty hr
        | inexact => simp only at h; cases h
        | outOfFuel => simp only at h; cases h
  · intro q subj cs s s' p hw hty h
    cases cs with
    | nil => simp only [execCases] at h; cases h
    | else_ body =>
      simp only [tyCasesB] at hw
      simp only [execCases] at h
      simp only [ReadAtC]; exact ihE body s s' p hw hty h
    | case conds body rest =>
      simp only [tyCasesB, Bool.and_eq_true] at hw
      simp only [execCases] at h
      cases hm : anyMatches s.env q subj conds with
      | error o' =>
        simp only [hm] at h; cases h
        exact absurd hm (anyMatches_no13 sl s.env hty q subj conds hw.1.1 p)
      | ok b =>
        cases b with
        | true => simp only [hm] at h; exact Or.inl (ihE body s s' p hw.1.2 hty h)
        | false => simp only [hm] at h; exact Or.inr (ihC q subj rest s s' p hw.2 hty h)
  · intro x t hv sv up body q s s' p hx ht hhv hsv hbody hty h
    simp only [forIter] at h
    have hcur : (s.env.getD x (Ref.zeroOf t)).tag = t := typed_getD_tag hty hx _
    cases hrt : relTest q (if up then .lessOrEqual else .greaterOrEqual) (s.env.getD x (Ref.zeroOf t)) hv with
    | error o' =>
      simp only [hrt] at h; cases h
      exact absurd hrt (relTest_no13 q _ _ hv (by rw [hcur]; exact num_of_kind ht hhv) p)
    | ok b =>
      cases b with
      | false => simp only [hrt] at h; cases h
      | true =>
        simp only [hrt] at h
        generalize hr : exec n body s = r at h
        obtain ⟨s1, o1⟩ := r
        cases o1 with
        | normal =>
          simp only at h
          have hty1 := presE body s s1 (ty_wfA sl body hbody) hty hr
          have hcur1 : (s1.env.getD x (Ref.zeroOf t)).tag = t := typed_getD_tag hty1 hx _
          cases hpl : (plus (s1.env.getD x (Ref.zeroOf t)) sv).bind (fun v => RbModel.Num.cast v t) with
          | ok v =>
            simp only [hpl] at h
            obtain ⟨w, _, hc⟩ := res_bind_ok hpl
            exact ihF x t hv sv up body q _ s' p hx ht hhv hsv hbody
              (typed_set hty1 hx (cast_tag w t v hc)) h
          | inexact => simp only [hpl] at h; cases h
          | err e =>
            simp only [hpl] at h
            injection h with _ h; injection h with hcode _
            exfalso
            rw [codeOf_13 hcode] at hpl
            refine bind_ne ?_ ?_ hpl
            · exact arith_kinds .add _ sv (Or.inl ⟨by rw [hcur1]; exact ht, hsv⟩)
            · intro w hw'
              apply cast_same_kind
              have := RbThm.C06.arith_typed .add _ sv w hw'
              rcases binType_kinds _ _ _ _ this.1 with ⟨_, _, h3⟩ | ⟨h1, _, _⟩
              · exact num_of_kind h3 ht
              · rw [hcur1] at h1; exact absurd h1 ht
        | halted => simp only at h; cases h
        | error c r => simp only at h; cases h; exact ihE body s s' p hbody hty hr
        | inexact => simp only at h; cases h
        | outOfFuel => simp only at h; cases h

theorem noTM_all (sl : List Ty) : ∀ n, NoTM sl n
  | 0 => noTM_zero sl
  | n + 1 => noTM_succ sl n (noTM_all sl n)

theorem typed_init (sl : List Ty) : Typed sl (sl.map Ref.zeroOf) := by
  refine ⟨by simp, ?_⟩
  intro x t hx
  refine ⟨Ref.zeroOf t, by simp [List.getElem?_map, hx], by cases t <;> rfl⟩

/-- **wf_no_type_mismatch (C12_type_sound for statements).** A core program on which the checker's typing
discipline `tyB` holds never ends in Type mismatch (13), for any amount of fuel and any DATA, except at a
READ statement (conversion of external data: a DATA string read into a numeric variable). -/
theorem wf_no_type_mismatch (prog : Program) (fuel : Nat) (hw : tyB prog.slots prog.body = true) (p : Pos)
    (h : (Ref.run fuel prog).2 = .error 13 p) : ReadAt p prog.body := by
  unfold Ref.run at h
  generalize hr : exec fuel prog.body _ = r at h
  obtain ⟨s', o⟩ := r
  simp only at h
  subst h
  exact (noTM_all prog.slots fuel).1 prog.body _ s' p hw (typed_init prog.slots) hr

mutual
def noRead : Stmt → Bool
  | .skip => true
  | .seq a b => noRead a && noRead b
  | .assign _ _ _ _ => true
  | .print _ _ => true
  | .read _ _ _ => false
  | .ifs _ thn els _ => noRead thn && noRead els
  | .select _ cases _ => noReadC cases
  | .forLoop _ _ _ _ _ body _ => noRead body
  | .while _ body _ => noRead body
  | .doLoop _ _ _ body _ => noRead body
  | .end_ _ => true
def noReadC : Cases → Bool
  | .nil => true
  | .else_ body => noRead body
  | .case _ body rest => noRead body && noReadC rest
end

mutual
theorem noRead_readAt (p : Pos) : ∀ (st : Stmt), noRead st = true → ¬ ReadAt p st
  | .skip, _ => by simp [ReadAt]
  | .seq a b, h => by
    simp only [noRead, Bool.and_eq_true] at h
    simp only [ReadAt, not_or]; exact ⟨noRead_readAt p a h.1, noRead_readAt p b h.2⟩
  | .assign _ _ _ _, _ => by simp [ReadAt]
  | .print _ _, _ => by simp [ReadAt]
  | .read _ _ _, h => by simp [noRead] at h
  | .ifs _ thn els _, h => by
    simp only [noRead, Bool.and_eq_true] at h
    simp only [ReadAt, not_or]; exact ⟨noRead_readAt p thn h.1, noRead_readAt p els h.2⟩
  | .select _ cases _, h => by
    simp only [noRead] at h
    simp only [ReadAt]; exact noReadC_readAt p cases h
  | .forLoop _ _ _ _ _ body _, h => by
    simp only [noRead] at h
    simp only [ReadAt]; exact noRead_readAt p body h
  | .while _ body _, h => by
    simp only [noRead] at h
    simp only [ReadAt]; exact noRead_readAt p body h
  | .doLoop _ _ _ body _, h => by
    simp only [noRead] at h
    simp only [ReadAt]; exact noRead_readAt p body h
  | .end_ _, _ => by simp [ReadAt]
theorem noReadC_readAt (p : Pos) : ∀ (cs : Cases), noReadC cs = true → ¬ ReadAtC p cs
  | .nil, _ => by simp [ReadAtC]
  | .else_ body, h => by
    simp only [noReadC] at h
    simp only [ReadAtC]; exact noRead_readAt p body h
  | .case _ body rest, h => by
    simp only [noReadC, Bool.and_eq_true] at h
    simp only [ReadAtC, not_or]; exact ⟨noRead_readAt p body h.1, noReadC_readAt p rest h.2⟩
end

/-- Without READ statements: no Type mismatch at all. -/
theorem wf_no_type_mismatch_noread (prog : Program) (fuel : Nat) (hw : tyB prog.slots prog.body = true)
    (hn : noRead prog.body = true) (p : Pos) : (Ref.run fuel prog).2 ≠ .error 13 p :=
  fun h => noRead_readAt p prog.body hn (wf_no_type_mismatch prog fuel hw p h)


/-- The same for a program as the front end delivers it (`Src.SProgram`, what the driver request `ty.core`
evaluates `tyTopB` on; `C01_core_correct` relates `Ref.run` of this program to the VM run of the real code). -/
theorem core_no_type_mismatch (sp : Src.SProgram) (fuel : Nat) (hw : tyTopB sp = true) (p : Pos)
    (h : (Ref.run fuel sp.toAst).2 = .error 13 p) : ReadAt p (Src.desugar sp.body) :=
  wf_no_type_mismatch sp.toAst fuel hw p h

/-- the hypotheses are satisfiable by a non-trivial program:
`I% = 1 : FOR I% = 1 TO 3 STEP I% / 2 : PRINT S$ + "a" : NEXT : SELECT CASE S$ : CASE "x" TO "y" : END SELECT` -/
def exProg : Program :=
  let p : Pos := ⟨1, 1⟩
  ⟨[.int, .str], [],
   .seq (.assign 0 .int (.lit (.int 1) p) p)
    (.seq (.forLoop 0 .int (.lit (.int 1) p) (.lit (.int 3) p) (some (.bin .divide (.var 0 .int p) (.lit (.int 2) p) .sgl p))
        (.print [.expr (.bin .plus (.var 1 .str p) (.lit (.str ['a']) p) .str p)] p) p)
      (.select (.var 1 .str p) (.case [.range (.lit (.str ['x']) p) (.lit (.str ['y']) p)] .skip .nil) p))⟩

example : tyB exProg.slots exProg.body = true ∧ noRead exProg.body = true := by decide +kernel

/-- each clause of the discipline is needed: a string FOR bound, a string CASE item for a numeric selector, a
string condition, a string operand of `/` are outside it — and do raise Type mismatch in `Ref` -/
example :
    let p : Pos := ⟨1, 1⟩
    tyB [.int] (.forLoop 0 .int (.lit (.str ['a']) p) (.lit (.int 3) p) none .skip p) = false ∧
    tyB [.int] (.select (.var 0 .int p) (.case [.simple (.lit (.str ['a']) p)] .skip .nil) p) = false ∧
    tyB [.int] (.ifs (.lit (.str ['a']) p) .skip .skip p) = false ∧
    tyB [.int] (.print [.expr (.bin .divide (.lit (.str ['a']) p) (.lit (.int 2) p) .sgl p)] p) = false := by
  decide +kernel

example :
    let p : Pos := ⟨1, 1⟩
    (match (Ref.run 5 ⟨[.int], [], .select (.var 0 .int p) (.case [.simple (.lit (.str ['a']) p)] .skip .nil) p⟩).2 with
     | .error 13 _ => true | _ => false) = true := by decide +kernel

end RbThm.C12Core
