import RbModel.Core
import RbModel.Rewrite
/-!
C02, code level: WHILE … WEND and DO WHILE … LOOP generate the same instructions up to the names of
their labels (model of the code generator: `RbModel.Core.compileStmt`, tied to the real generator by
C01's exact instruction-list comparison).

DO UNTIL c and DO WHILE NOT (c) do **not** generate the same instructions since repository commit
a8146c8 (UNTIL is `JumpIfFalse do-body; Jump loop; Label do-body`, WHILE NOT is `NotA; JumpIfFalse
loop`): their equivalence is the source-level theorem `doUntil_eq_doWhileNot` together with C01's
`compileStmt_correct`; what is true of the code is only the size relation `doUntil_doWhileNot_size`.
-/
namespace RbThm.C02
open RbModel RbModel.Ast RbModel.Src RbModel.Core

/-- forget the name of a label (jumps are already resolved to addresses in the model) -/
def eraseLabel : CInstr × Pos → CInstr × Pos
  | (.label _, p) => (.label "", p)
  | ip => ip

theorem eraseLabel_append (a b : Code) : (a ++ b).map eraseLabel = a.map eraseLabel ++ b.map eraseLabel :=
  List.map_append

/-- **WHILE and DO WHILE generate the same code up to label names**, at every address and under every
label suffix (hence inside every enclosing construct). -/
theorem while_doWhile_same_code (sfx : String) (off : Nat) (c : Ast.Expr) (body : SStmt) (p : Pos) :
    (compileStmt sfx off (.while c body p)).map eraseLabel =
      (compileStmt sfx off (.doLoop c true false body p)).map eraseLabel := by
  simp [compileStmt, eraseLabel]

theorem while_doWhile_same_size (c : Ast.Expr) (body : SStmt) (p : Pos) :
    sizeStmt (.while c body p) = sizeStmt (.doLoop c true false body p) := by
  simp [sizeStmt]

/-- what is true of DO UNTIL c vs DO WHILE NOT (c) at the code level: the UNTIL spelling is one
instruction longer (two jumps and a label instead of `NotA` and one jump) -/
theorem doUntil_doWhileNot_size (c : Ast.Expr) (body : SStmt) (p : Pos) :
    sizeStmt (.doLoop c true true body p) = sizeStmt (.doLoop (RbModel.Rewrite.notE c) true false body p) + 1 := by
  simp [sizeStmt, compileExpr, RbModel.Rewrite.notE]
  omega

end RbThm.C02
