import Thm.C01Sim
import RbModel.CoreWf
/-!
C01: a verified boolean checker for the premise of `C01_core_correct`.

`WfTop sl body` (Thm/C01SimProg.lean) is what the theorem asks of a program: names resolved to typed slots,
expressions typed as the checker's table says, numeric conditions, CASE IS with relational operators, non-empty
CASE lists, DATA only at top level.  `wfTopB` decides a sufficient condition; `wfTopB_sound` proves it implies
`WfTop`.  The driver runs `wfTopB` on the syntax tree of every explored program as the real front end delivers it
(request `core.wf`), so the share of real programs inside the theorem's domain is measured, not assumed.
-/
namespace RbThm.C01Sim
open RbModel RbModel.Num RbModel.Ast RbModel.Src RbModel.Core RbModel.CoreVm RbModel.Ref RbModel.CoreWf

theorem slotsB_sound (n : Nat) : ∀ e, slotsB n e = true → SlotsBelow n e
  | .lit _ _, _ => trivial
  | .var x _ _, h => by simpa [slotsB, SlotsBelow] using h
  | .un _ e _, h => slotsB_sound n e (by simpa [slotsB] using h)
  | .bin _ l r _ _, h => by
    simp only [slotsB, Bool.and_eq_true] at h
    exact ⟨slotsB_sound n l h.1, slotsB_sound n r h.2⟩
  | .paren e _, h => slotsB_sound n e (by simpa [slotsB] using h)

theorem exprWtB_sound (sl : List Ty) : ∀ e, exprWtB sl e = true → ExprWt sl e
  | .lit _ _, _ => trivial
  | .var x t _, h => by simpa [exprWtB, ExprWt] using h
  | .un _ e _, h => exprWtB_sound sl e (by simpa [exprWtB] using h)
  | .bin op l r t _, h => by
    simp only [exprWtB, Bool.and_eq_true, Bool.or_eq_true, decide_eq_true_eq] at h
    exact ⟨exprWtB_sound sl l h.1.1, exprWtB_sound sl r h.1.2, h.2⟩
  | .paren e _, h => exprWtB_sound sl e (by simpa [exprWtB] using h)

/-- a well-typed expression whose static type is not STRING is a numeric condition -/
theorem numericCond_of_ty (sl : List Ty) (c : Ast.Expr) (hw : ExprWt sl c) (ht : c.ty ≠ .str) : NumericCond sl c := by
  intro env hty v hv
  have htag := SimRead.eval_tag sl env hty c v hw hv
  cases v with
  | str s => exact absurd htag.symm (by simpa [Val.tag] using ht)
  | int _ => rfl
  | long _ => rfl
  | sgl _ => rfl
  | dbl _ => rfl

theorem condB_sound (sl : List Ty) (c : Ast.Expr) (h : condB sl c = true) :
    SlotsBelow sl.length c ∧ NumericCond sl c := by
  simp only [condB, Bool.and_eq_true, decide_eq_true_eq] at h
  exact ⟨slotsB_sound _ c h.1.1, numericCond_of_ty sl c (exprWtB_sound sl c h.1.2) h.2⟩

theorem itemsB_sound (n : Nat) : ∀ items, itemsB n items = true → ItemsSlots n items
  | [], _ => trivial
  | .expr e :: rest, h => by
    simp only [itemsB, Bool.and_eq_true] at h
    exact ⟨slotsB_sound n e h.1, itemsB_sound n rest h.2⟩
  | .comma :: rest, h => itemsB_sound n rest (by simpa [itemsB] using h)
  | .semicolon :: rest, h => itemsB_sound n rest (by simpa [itemsB] using h)

theorem caseB_sound (n : Nat) : ∀ c, caseB n c = true → CaseSlots n c
  | .simple e, h => slotsB_sound n e (by simpa [caseB] using h)
  | .is op e, h => by
    simp only [caseB, Bool.and_eq_true] at h
    refine ⟨?_, slotsB_sound n e h.2⟩
    cases op <;> simp [isRelB] at h <;> simp
  | .range lo hi, h => by
    simp only [caseB, Bool.and_eq_true] at h
    exact ⟨slotsB_sound n lo h.1, slotsB_sound n hi h.2⟩

theorem condsB_sound (n : Nat) : ∀ cs, condsB n cs = true → CondsSlots n cs
  | [], _ => trivial
  | c :: rest, h => by
    simp only [condsB, Bool.and_eq_true] at h
    exact ⟨caseB_sound n c h.1, condsB_sound n rest h.2⟩

theorem readB_sound (sl : List Ty) : ∀ vars, readB sl vars = true → ∀ v ∈ vars, sl[v.1]? = some v.2.1
  | [], _ => by intro v hv; cases hv
  | w :: rest, h => by
    simp only [readB, Bool.and_eq_true, decide_eq_true_eq] at h
    intro v hv
    cases hv with
    | head => exact h.1
    | tail _ hm => exact readB_sound sl rest h.2 v hm

theorem isSkipB_sound : ∀ s, isSkipB s = true → s = .skip := by
  intro s h; cases s <;> simp [isSkipB] at h ⊢

theorem elseB_sound {hasElse : Bool} {els : SStmt} (h : (hasElse || isSkipB els) = true) :
    hasElse = false → els = .skip := by
  intro hf
  subst hf
  exact isSkipB_sound els (by simpa using h)

mutual
theorem wfB_sound (sl : List Ty) : ∀ s, wfB sl s = true → Wf sl s
  | .skip, _ => trivial
  | .comment, _ => trivial
  | .seq a b, h => by
    simp only [wfB, Bool.and_eq_true] at h
    exact ⟨wfB_sound sl a h.1, wfB_sound sl b h.2⟩
  | .dim x t _, h => by simpa [wfB, Wf] using h
  | .assign x t e _, h => by
    simp only [wfB, Bool.and_eq_true, decide_eq_true_eq] at h
    exact ⟨h.1.1, slotsB_sound _ e h.1.2, exprWtB_sound sl e h.2⟩
  | .print items _, h => itemsB_sound _ items (by simpa [wfB] using h)
  | .ifBlock c thn elifs hasElse els _, h => by
    simp only [wfB, Bool.and_eq_true] at h
    obtain ⟨⟨⟨⟨hc, ht⟩, he⟩, hl⟩, hs⟩ := h
    have hcc := condB_sound sl c hc
    exact ⟨hcc.1, hcc.2, wfB_sound sl thn ht, wfElifsB_sound sl elifs he, wfB_sound sl els hl, elseB_sound hs⟩
  | .while c body _, h => by
    simp only [wfB, Bool.and_eq_true] at h
    have hcc := condB_sound sl c h.1
    exact ⟨hcc.1, hcc.2, wfB_sound sl body h.2⟩
  | .doLoop c _ _ body _, h => by
    simp only [wfB, Bool.and_eq_true] at h
    have hcc := condB_sound sl c h.1
    exact ⟨hcc.1, hcc.2, wfB_sound sl body h.2⟩
  | .end_ _, _ => trivial
  | .data _ _, h => by simp [wfB] at h
  | .read vars _, h => readB_sound sl vars (by simpa [wfB] using h)
  | .select e cases hasElse els _, h => by
    simp only [wfB, Bool.and_eq_true] at h
    obtain ⟨⟨⟨he, hcs⟩, hl⟩, hs⟩ := h
    exact ⟨slotsB_sound _ e he, wfCasesB_sound sl cases hcs, wfB_sound sl els hl, elseB_sound hs⟩
  | .forLoop x t lo hi step body _, h => by
    simp only [wfB, Bool.and_eq_true, decide_eq_true_eq] at h
    obtain ⟨⟨⟨⟨⟨hx, hlo⟩, hwlo⟩, hhi⟩, hst⟩, hb⟩ := h
    refine ⟨hx, slotsB_sound _ lo hlo, exprWtB_sound sl lo hwlo, slotsB_sound _ hi hhi, ?_, wfB_sound sl body hb⟩
    intro se hse
    subst hse
    exact slotsB_sound _ se hst
theorem wfElifsB_sound (sl : List Ty) : ∀ e, wfElifsB sl e = true → WfElifs sl e
  | .nil, _ => trivial
  | .cons c body rest, h => by
    simp only [wfElifsB, Bool.and_eq_true] at h
    have hcc := condB_sound sl c h.1.1
    exact ⟨hcc.1, hcc.2, wfB_sound sl body h.1.2, wfElifsB_sound sl rest h.2⟩
theorem wfCasesB_sound (sl : List Ty) : ∀ cs, wfCasesB sl cs = true → WfCases sl cs
  | .nil, _ => trivial
  | .cons conds body rest, h => by
    simp only [wfCasesB, Bool.and_eq_true, Bool.not_eq_true'] at h
    obtain ⟨⟨⟨hne, hcs⟩, hb⟩, hr⟩ := h
    refine ⟨?_, condsB_sound _ conds hcs, wfB_sound sl body hb, wfCasesB_sound sl rest hr⟩
    intro hnil
    subst hnil
    simp at hne
end

/-- **the checker is sound**: a program it accepts satisfies the premise of `C01_core_correct` -/
theorem wfTopB_sound (sl : List Ty) : ∀ body, wfTopB sl body = true → WfTop sl body
  | .seq a b, h => by
    simp only [wfTopB, Bool.and_eq_true] at h
    exact ⟨wfTopB_sound sl a h.1, wfTopB_sound sl b h.2⟩
  | .data _ _, _ => trivial
  | .skip, h => wfB_sound sl _ h
  | .comment, h => wfB_sound sl _ h
  | .dim _ _ _, h => wfB_sound sl _ h
  | .assign _ _ _ _, h => wfB_sound sl _ h
  | .print _ _, h => wfB_sound sl _ h
  | .read _ _, h => wfB_sound sl _ h
  | .ifBlock _ _ _ _ _ _, h => wfB_sound sl _ h
  | .select _ _ _ _ _, h => wfB_sound sl _ h
  | .forLoop _ _ _ _ _ _ _, h => wfB_sound sl _ h
  | .while _ _ _, h => wfB_sound sl _ h
  | .doLoop _ _ _ _ _, h => wfB_sound sl _ h
  | .end_ _, h => wfB_sound sl _ h

/-- **C01 for checked programs**: the premise of `C01_core_correct` replaced by the boolean check the driver runs on
the real front end's tree -/
theorem C01_core_correct_checked (prog : SProgram) (fuel : Nat) (hw : wfTopB prog.slots prog.body = true) :
    match Ref.run fuel prog.toAst with
    | (s', .normal) => ∃ τ υ, Steps (compile prog) (Vm.init prog.slots) τ ∧
        CoreVm.step (compile prog) τ = .halt υ ∧ υ.env = s'.env ∧ υ.out = s'.out
    | (s', .halted) => ∃ τ υ, Steps (compile prog) (Vm.init prog.slots) τ ∧
        CoreVm.step (compile prog) τ = .halt υ ∧ υ.env = s'.env ∧ υ.out = s'.out
    | (s', .error c p) => ∃ τ υ, Steps (compile prog) (Vm.init prog.slots) τ ∧
        CoreVm.step (compile prog) τ = .error c p υ ∧ υ.out = s'.out
    | (_, .inexact) => True
    | (_, .outOfFuel) => True :=
  C01_core_correct prog fuel (wfTopB_sound prog.slots prog.body hw)

end RbThm.C01Sim
