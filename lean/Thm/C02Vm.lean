import Thm.C02Typed
import Thm.C01Wf
import Thm.C08Core
/-!
# C02 down to the VM: a respelled program prints the same

`Thm/C02Core.lean`, `Thm/C02.lean`, `Thm/C02For.lean` prove the respellings of property C02 and the context lemma over
the reference semantics `Ref`.  `Thm/C01Sim.lean` proves that the VM model running the generator model's code ends as
`Ref` prescribes.  This file spells out the composition DESIGN.md lists as "not stated":

* `sim_same_vm_end` / `equiv_same_vm_end` (generic): two source programs with the same slot table and the same DATA,
  both accepted by the premise checker `wfTopB`, whose desugared bodies are related by `Sim` (one direction suffices;
  `Equiv` gives it from whichever side finishes): if the reference run of the first finishes, then for every
  sufficient step budget both VM runs (`CoreVm.run` on `Core.compile`) halt with the same output and the same
  variables outside the temporaries, or both stop with a BASIC error of the same code with the same output
  (`SameVmEnd`).  `simT_same_vm_end` is the same for the typed simulation `SimT` of `for_eq_while`.
* `Respelling` collects the five respellings proved for the untyped `Equiv` (`whileToDo`, `untilToWhileNot`,
  `forAddStep1`, `wrapLoopBody`, `selectToIf`) with their side conditions, and
  **`C02_rewrites_preserve_output`** instantiates the generic theorem: `P`'s tree is `C[a]`, `P'`'s tree is `C[a']`
  for any context `C` (sequence on either side, IF branch, CASE block, loop body, to any depth) not mentioning the
  temporary.
* **`C02_for_while_preserves_output`**: the same for `forToWhile` at a site in any context, through the typed context
  lemma of `Thm/C02Typed.lean` (`for_eq_while_in_context`); premise: the step is not zero in any well-typed state —
  discharged statically for FOR without STEP and with a non-zero whole-number literal STEP
  (`C02_for_while_preserves_output_static`); `for_while_site_preserves_output` is the top-level site, where the
  premise is needed of the start state only.

The programs are source programs (`Src.SProgram`, what `Core.compile` takes); the rewrites are functions on the
desugared tree (`Ast.Stmt`, what `Ref` runs and what the harness request `rw.apply` rewrites), hence the hypotheses
`desugar P.body = C.fill a`.  A temporary is a slot of *both* programs (unused in the original): `StEq` compares
environments of equal length.
-/
namespace RbThm.C02Vm
open RbModel RbModel.Num RbModel.Ast RbModel.Src RbModel.Core RbModel.CoreVm RbModel.Ref RbModel.Rewrite
open RbModel.CoreWf
open RbThm.C01 RbThm.C01Sim RbThm.C01Sim.SimRead RbThm.C02
open RbThm.C08Core (Finished finished)

/-- the two VM runs ended alike: both halted with the same output and the same variables except the temporaries
`zs`, or both stopped with a BASIC error of the same code (the position may differ: two spellings put their tests at
different source positions) with the same output -/
def SameVmEnd (zs : List Nat) : RunRes → RunRes → Prop
  | .halted υ, .halted υ' =>
      υ.out = υ'.out ∧ υ.env.length = υ'.env.length ∧ ∀ x, x ∉ zs → υ.env[x]? = υ'.env[x]?
  | .error c _ υ, .error c' _ υ' => c = c' ∧ υ.out = υ'.out
  | _, _ => False

theorem startSt_stEq {P P' : SProgram} {zs : List Nat} (hsl : P'.slots = P.slots)
    (hd : dataOf P'.body = dataOf P.body) (hz : ∀ z, z ∈ zs → z < P.slots.length) :
    StEq zs (startSt P) (startSt P') := by
  refine ⟨by simp [startSt, hsl], ?_, fun x _ => by simp [startSt, hsl], rfl, by simp [startSt, hd], rfl⟩
  intro z hzz
  simpa [startSt] using hz z hzz

/-- **generic composition, typed form.**  `Pr` is the extra premise on the start state a typed simulation may carry
(`StepNonZero` for FOR ≡ WHILE at the top-level site). -/
theorem simT_same_vm_end (P P' : SProgram) (zs : List Nat) (Pr : St → Prop)
    (hsl : P'.slots = P.slots) (hd : dataOf P'.body = dataOf P.body)
    (hz : ∀ z, z ∈ zs → z < P.slots.length)
    (hw : wfTopB P.slots P.body = true) (hw' : wfTopB P'.slots P'.body = true)
    (hsim : SimT P.slots Pr zs (desugar P.body) (desugar P'.body)) (hPr : Pr (startSt P))
    (fuel : Nat) (hfin : Finished (Ref.run fuel P.toAst).2) :
    ∃ n, ∀ m m', n ≤ m → n ≤ m' →
      SameVmEnd zs (CoreVm.run (compile P) m (Vm.init P.slots)) (CoreVm.run (compile P') m' (Vm.init P'.slots)) := by
  have h := C01_run_correct P fuel (wfTopB_sound _ _ hw)
  rcases hr : Ref.run fuel P.toAst with ⟨s1', o⟩
  rw [hr] at h hfin
  have hnf : Outcome.isFuel o = false := by cases o <;> simp [Finished, finished, Outcome.isFuel] at hfin ⊢
  have ht1 : Typed P.slots (startSt P).env := typed_init P.slots
  have ht2 : Typed P.slots (startSt P').env := by
    have := typed_init P'.slots
    rw [hsl] at this
    simpa [startSt, hsl] using this
  obtain ⟨fuel', s2', o', he', hs', ho'⟩ :=
    hsim fuel (startSt P) (startSt P') s1' o ht1 ht2 hPr (startSt_stEq hsl hd hz) (by rw [← run_eq]; exact hr) hnf
  have h' := C01_run_correct P' fuel' (wfTopB_sound _ _ hw')
  rw [run_eq, he'] at h'
  cases o with
  | normal =>
    cases o' <;> simp only [OEq] at ho'
    obtain ⟨n, υ, hn, hen, hon⟩ := h
    obtain ⟨n', υ', hn', hen', hon'⟩ := h'
    refine ⟨max n n', fun m m' hm hm' => ?_⟩
    rw [hn m (by omega), hn' m' (by omega)]
    refine ⟨by rw [hon, hon', hs'.out], by rw [hen, hen', hs'.len], fun x hx => ?_⟩
    rw [hen, hen']; exact hs'.env x hx
  | halted =>
    cases o' <;> simp only [OEq] at ho'
    obtain ⟨n, υ, hn, hen, hon⟩ := h
    obtain ⟨n', υ', hn', hen', hon'⟩ := h'
    refine ⟨max n n', fun m m' hm hm' => ?_⟩
    rw [hn m (by omega), hn' m' (by omega)]
    refine ⟨by rw [hon, hon', hs'.out], by rw [hen, hen', hs'.len], fun x hx => ?_⟩
    rw [hen, hen']; exact hs'.env x hx
  | error c p =>
    cases o' <;> simp only [OEq] at ho'
    obtain ⟨n, υ, hn, hon⟩ := h
    obtain ⟨n', υ', hn', hon'⟩ := h'
    refine ⟨max n n', fun m m' hm hm' => ?_⟩
    rw [hn m (by omega), hn' m' (by omega)]
    exact ⟨ho', by rw [hon, hon', hs'.out]⟩
  | inexact => simp [Finished, finished] at hfin
  | outOfFuel => simp [Finished, finished] at hfin

theorem sim_toSimT {zs : List Nat} {a b : Stmt} (h : Sim zs a b) (sl : List Ty) : SimT sl (fun _ => True) zs a b :=
  fun fuel s1 s2 s1' o _ _ _ hs he ho => h fuel s1 s2 s1' o hs he ho

/-- **generic composition**: whatever two accepted programs are related by `Sim` produce the same VM output -/
theorem sim_same_vm_end (P P' : SProgram) (zs : List Nat)
    (hsl : P'.slots = P.slots) (hd : dataOf P'.body = dataOf P.body)
    (hz : ∀ z, z ∈ zs → z < P.slots.length)
    (hw : wfTopB P.slots P.body = true) (hw' : wfTopB P'.slots P'.body = true)
    (hsim : Sim zs (desugar P.body) (desugar P'.body))
    (fuel : Nat) (hfin : Finished (Ref.run fuel P.toAst).2) :
    ∃ n, ∀ m m', n ≤ m → n ≤ m' →
      SameVmEnd zs (CoreVm.run (compile P) m (Vm.init P.slots)) (CoreVm.run (compile P') m' (Vm.init P'.slots)) :=
  simT_same_vm_end P P' zs (fun _ => True) hsl hd hz hw hw' (sim_toSimT hsim _) trivial fuel hfin

theorem SameVmEnd.symm {zs : List Nat} {r r' : RunRes} (h : SameVmEnd zs r r') : SameVmEnd zs r' r := by
  cases r <;> cases r' <;> simp only [SameVmEnd] at h ⊢
  · exact ⟨h.1.symm, h.2.1.symm, fun x hx => (h.2.2 x hx).symm⟩
  · exact ⟨h.1.symm, h.2.symm⟩

/-- ... and for `Equiv` it is enough that the reference run of *either* program finishes -/
theorem equiv_same_vm_end (P P' : SProgram) (zs : List Nat)
    (hsl : P'.slots = P.slots) (hd : dataOf P'.body = dataOf P.body)
    (hz : ∀ z, z ∈ zs → z < P.slots.length)
    (hw : wfTopB P.slots P.body = true) (hw' : wfTopB P'.slots P'.body = true)
    (heq : Equiv zs (desugar P.body) (desugar P'.body))
    (fuel : Nat) (hfin : Finished (Ref.run fuel P.toAst).2 ∨ Finished (Ref.run fuel P'.toAst).2) :
    ∃ n, ∀ m m', n ≤ m → n ≤ m' →
      SameVmEnd zs (CoreVm.run (compile P) m (Vm.init P.slots)) (CoreVm.run (compile P') m' (Vm.init P'.slots)) := by
  rcases hfin with hfin | hfin
  · exact sim_same_vm_end P P' zs hsl hd hz hw hw' heq.1 fuel hfin
  · obtain ⟨n, hn⟩ := sim_same_vm_end P' P zs hsl.symm hd.symm (by rw [hsl]; exact hz) hw' hw heq.2 fuel hfin
    exact ⟨n, fun m m' hm hm' => (hn m' m hm' hm).symm⟩

/-- the typed form for `EquivT`: it is enough that the reference run of either program finishes -/
theorem equivT_same_vm_end (P P' : SProgram) (zs : List Nat) (Pr : St → Prop)
    (hsl : P'.slots = P.slots) (hd : dataOf P'.body = dataOf P.body)
    (hz : ∀ z, z ∈ zs → z < P.slots.length)
    (hw : wfTopB P.slots P.body = true) (hw' : wfTopB P'.slots P'.body = true)
    (heq : EquivT P.slots Pr zs (desugar P.body) (desugar P'.body))
    (hPr : Pr (startSt P)) (hPr' : Pr (startSt P'))
    (fuel : Nat) (hfin : Finished (Ref.run fuel P.toAst).2 ∨ Finished (Ref.run fuel P'.toAst).2) :
    ∃ n, ∀ m m', n ≤ m → n ≤ m' →
      SameVmEnd zs (CoreVm.run (compile P) m (Vm.init P.slots)) (CoreVm.run (compile P') m' (Vm.init P'.slots)) := by
  rcases hfin with hfin | hfin
  · exact simT_same_vm_end P P' zs Pr hsl hd hz hw hw' heq.1 hPr fuel hfin
  · obtain ⟨n, hn⟩ := simT_same_vm_end P' P zs Pr hsl.symm hd.symm (by rw [hsl]; exact hz) hw' hw
      (by rw [hsl]; exact heq.2) hPr' fuel hfin
    exact ⟨n, fun m m' hm hm' => (hn m' m hm' hm).symm⟩

/-! ### the respellings -/

/-- the respellings proved for the untyped equivalence, with their side conditions; the list is the list of
temporaries the respelled statement introduces -/
inductive Respelling : List Nat → Stmt → Stmt → Prop
  /-- `WHILE c … WEND ↦ DO WHILE c … LOOP` -/
  | whileDo {a a' : Stmt} : whileToDo a = some a' → Respelling [] a a'
  /-- `DO/LOOP UNTIL c ↦ DO/LOOP WHILE NOT (c)`, `c` a comparison (the function checks it) -/
  | untilNot {a a' : Stmt} : untilToWhileNot a = some a' → Respelling [] a a'
  /-- `FOR x = a TO b ↦ FOR x = a TO b STEP 1` -/
  | forStep1 {a a' : Stmt} : forAddStep1 a = some a' → Respelling [] a a'
  /-- `<loop> body ↦ <loop> IF -1 THEN body END IF` -/
  | wrapLoop {a a' : Stmt} : wrapLoopBody a = some a' → Respelling [] a a'
  /-- `SELECT CASE e … ↦ z = e : IF z … THEN … ELSE IF …`, `z` not in the SELECT, CASE IS relational -/
  | selectIf {z : Nat} {a a' : Stmt} : selectToIf z a = some a' → usesS [z] a = false →
      (∀ e cs p, a = .select e cs p → casesWF cs = true) → Respelling [z] a a'

/-- every respelling is an equivalence over `Ref` (the theorems of `Thm/C02.lean`) -/
theorem Respelling.equiv {zs : List Nat} {a a' : Stmt} (h : Respelling zs a a') : Equiv zs a a' := by
  cases h with
  | whileDo h => exact whileToDo_equiv h
  | untilNot h => exact untilToWhileNot_equiv h
  | forStep1 h => exact forAddStep1_equiv h
  | wrapLoop h => exact (wrapLoopBody_equiv h).symm
  | selectIf h hf hwf => exact selectToIf_equiv h hf hwf

/-- **`C02_rewrites_preserve_output`** — property C02 over generator + VM.  `P` and `P'` are accepted source programs
(`wfTopB`, the check the driver evaluates) over the same slot table with the same DATA; `P`'s tree is `C[a]` and
`P'`'s tree is `C[a']` where `a'` is a respelling of `a` at one site and `C` is any one-hole context not mentioning the
respelling's temporary (which is a declared slot).  If the reference run of either program finishes (normal / END /
BASIC error: not cut by fuel, not outside the exact float domain), then for every sufficient step budget both VM runs
halt with the same output and the same variables outside the temporary, or both stop with the same BASIC error code
and the same output. -/
theorem C02_rewrites_preserve_output (P P' : SProgram) (C : Ctx) (zs : List Nat) (a a' : Stmt)
    (hP : desugar P.body = C.fill a) (hP' : desugar P'.body = C.fill a')
    (hrule : Respelling zs a a') (hC : C.uses zs = false)
    (hsl : P'.slots = P.slots) (hd : dataOf P'.body = dataOf P.body)
    (hz : ∀ z, z ∈ zs → z < P.slots.length)
    (hw : wfTopB P.slots P.body = true) (hw' : wfTopB P'.slots P'.body = true)
    (fuel : Nat) (hfin : Finished (Ref.run fuel P.toAst).2 ∨ Finished (Ref.run fuel P'.toAst).2) :
    ∃ n, ∀ m m', n ≤ m → n ≤ m' →
      SameVmEnd zs (CoreVm.run (compile P) m (Vm.init P.slots)) (CoreVm.run (compile P') m' (Vm.init P'.slots)) := by
  have heq := exec_congr hrule.equiv C hC
  rw [← hP, ← hP'] at heq
  exact equiv_same_vm_end P P' zs hsl hd hz hw hw' heq fuel hfin

/-- without temporaries (`whileDo`, `untilNot`, `forStep1`, `wrapLoop`) no side condition on the context is left and
*all* variables agree -/
theorem C02_rewrites_preserve_output_nil (P P' : SProgram) (C : Ctx) (a a' : Stmt)
    (hP : desugar P.body = C.fill a) (hP' : desugar P'.body = C.fill a')
    (hrule : Respelling [] a a')
    (hsl : P'.slots = P.slots) (hd : dataOf P'.body = dataOf P.body)
    (hw : wfTopB P.slots P.body = true) (hw' : wfTopB P'.slots P'.body = true)
    (fuel : Nat) (hfin : Finished (Ref.run fuel P.toAst).2 ∨ Finished (Ref.run fuel P'.toAst).2) :
    ∃ n, ∀ m m', n ≤ m → n ≤ m' →
      SameVmEnd [] (CoreVm.run (compile P) m (Vm.init P.slots)) (CoreVm.run (compile P') m' (Vm.init P'.slots)) :=
  C02_rewrites_preserve_output P P' C [] a a' hP hP' hrule (Ctx.uses_nil C) hsl hd (by simp) hw hw' fuel hfin

/-! ### FOR ≡ WHILE at the top-level site (the typed equivalence; in contexts: `Thm/C02Typed.lean`) -/

/-- an accepted program body is well typed in the sense type preservation needs -/
theorem wfA_top (sl : List Ty) : ∀ body, WfTop sl body → WfA sl (desugar body)
  | .seq a b, h => by
    simp only [WfTop] at h
    simp only [desugar, WfA]
    exact ⟨wfA_top sl a h.1, wfA_top sl b h.2⟩
  | .data _ _, _ => by simp only [desugar, WfA]
  | .skip, h => wfA_desugar sl _ h
  | .comment, h => wfA_desugar sl _ h
  | .dim _ _ _, h => wfA_desugar sl _ h
  | .assign _ _ _ _, h => wfA_desugar sl _ h
  | .print _ _, h => wfA_desugar sl _ h
  | .read _ _, h => wfA_desugar sl _ h
  | .ifBlock _ _ _ _ _ _, h => wfA_desugar sl _ h
  | .select _ _ _ _ _, h => wfA_desugar sl _ h
  | .forLoop _ _ _ _ _ _ _, h => wfA_desugar sl _ h
  | .while _ _ _, h => wfA_desugar sl _ h
  | .doLoop _ _ _ _ _, h => wfA_desugar sl _ h
  | .end_ _, h => wfA_desugar sl _ h

theorem lt_of_slot {sl : List Ty} {z : Nat} {t : Ty} (h : sl[z]? = some t) : z < sl.length :=
  (List.getElem?_eq_some_iff.mp h).1

/-- `P`'s tree is a FOR statement, `P'`'s tree is its `forToWhile` spelling: same VM output, provided the step is
not zero when the loop is entered (a zero step is error 258 in FOR and has no WHILE spelling) -/
theorem for_while_site_preserves_output (P P' : SProgram)
    {x : Nat} {t : Ty} {lo hi : Ast.Expr} {step : Option Ast.Expr} {body : Stmt} {p : Pos} {zl zs : Nat} {tres : Ty}
    (hP : desugar P.body = .forLoop x t lo hi step body p)
    (hft : forToWhile zl zs tres (.forLoop x t lo hi step body p) = some (desugar P'.body))
    (hne : zl ≠ zs)
    (hfresh : usesS [zl, zs] (.forLoop x t lo hi step body p) = false)
    (hwhi : ExprWt P.slots hi)
    (hwst : ∀ se, step = some se → ExprWt P.slots se)
    (hzl : P.slots[zl]? = some t) (hzs : P.slots[zs]? = some (stepTy step))
    (htres : Gen.NumTables.binType .plus t (stepTy step) = some tres)
    (hnz : StepNonZero x t lo (stepE step p) p (startSt P))
    (hsl : P'.slots = P.slots) (hd : dataOf P'.body = dataOf P.body)
    (hw : wfTopB P.slots P.body = true) (hw' : wfTopB P'.slots P'.body = true)
    (fuel : Nat) (hfin : Finished (Ref.run fuel P.toAst).2) :
    ∃ n, ∀ m m', n ≤ m → n ≤ m' →
      SameVmEnd [zl, zs] (CoreVm.run (compile P) m (Vm.init P.slots)) (CoreVm.run (compile P') m' (Vm.init P'.slots)) := by
  have hwa : WfA P.slots (.forLoop x t lo hi step body p) := by
    rw [← hP]; exact wfA_top _ _ (wfTopB_sound _ _ hw)
  have heq := for_eq_while hft hne hfresh hwa hwhi hwst hzl hzs htres
  rw [← hP] at heq
  refine simT_same_vm_end P P' [zl, zs] _ hsl hd ?_ hw hw' heq.1 hnz fuel hfin
  intro z hz
  simp only [List.mem_cons, List.not_mem_nil, or_false] at hz
  rcases hz with rfl | rfl
  · exact lt_of_slot hzl
  · exact lt_of_slot hzs

/-- the step of a FOR without STEP, or with a non-zero whole-number literal STEP (the shapes `forToWhile` handles
without a step temporary), is statically non-zero: `StepNonZero` holds in every state -/
theorem stepNonZero_static (x : Nat) (t : Ty) (lo : Ast.Expr) (step : Option Ast.Expr) (p : Pos)
    (hst : step = none ∨ ∃ v q up, step = some (.lit v q) ∧ constSign v = some up) (s : St) :
    StepNonZero x t lo (stepE step p) p s := by
  intro l svv _ hev
  rcases hst with rfl | ⟨v, q, up, rfl, hc⟩
  · simp only [stepE, evalE, eval] at hev
    cases hev
    rw [stepSign_one]; intro h; cases h
  · simp only [stepE, evalE, eval] at hev
    cases hev
    rw [constSign_stepSign p hc]
    cases up <;> (intro h; cases h)

/-- **`C02_for_while_preserves_output`** — FOR ≡ WHILE over generator + VM at a site in any context.  `P`'s tree is
`C[FOR …]`, `P'`'s tree is `C[st']` with `st'` the `forToWhile` spelling; both accepted (`wfTopB`), same slot table
(the temporaries `zl`, `zs` are slots of both, of the counter's and the step's type, not mentioned by the FOR nor by
the context), same DATA; the step is not zero in any well-typed state (`hnz`; a zero step is error 258 in FOR and
has no WHILE spelling).  Then both VM runs end alike as soon as the reference run of either finishes. -/
theorem C02_for_while_preserves_output (P P' : SProgram) (C : Ctx)
    {x : Nat} {t : Ty} {lo hi : Ast.Expr} {step : Option Ast.Expr} {body : Stmt} {p : Pos} {zl zs : Nat} {tres : Ty}
    {st' : Stmt}
    (hP : desugar P.body = C.fill (.forLoop x t lo hi step body p)) (hP' : desugar P'.body = C.fill st')
    (hft : forToWhile zl zs tres (.forLoop x t lo hi step body p) = some st')
    (hne : zl ≠ zs)
    (hfresh : usesS [zl, zs] (.forLoop x t lo hi step body p) = false) (hC : C.uses [zl, zs] = false)
    (hwhi : ExprWt P.slots hi) (hwst : ∀ se, step = some se → ExprWt P.slots se)
    (hzl : P.slots[zl]? = some t) (hzs : P.slots[zs]? = some (stepTy step))
    (htres : Gen.NumTables.binType .plus t (stepTy step) = some tres)
    (hnz : ∀ s, Typed P.slots s.env → StepNonZero x t lo (stepE step p) p s)
    (hsl : P'.slots = P.slots) (hd : dataOf P'.body = dataOf P.body)
    (hw : wfTopB P.slots P.body = true) (hw' : wfTopB P'.slots P'.body = true)
    (fuel : Nat) (hfin : Finished (Ref.run fuel P.toAst).2 ∨ Finished (Ref.run fuel P'.toAst).2) :
    ∃ n, ∀ m m', n ≤ m → n ≤ m' →
      SameVmEnd [zl, zs] (CoreVm.run (compile P) m (Vm.init P.slots)) (CoreVm.run (compile P') m' (Vm.init P'.slots)) := by
  have hwa : WfA P.slots (C.fill (.forLoop x t lo hi step body p)) := by
    rw [← hP]; exact wfA_top _ _ (wfTopB_sound _ _ hw)
  have hwa' : WfA P.slots (C.fill st') := by
    rw [← hP', ← hsl]; exact wfA_top _ _ (wfTopB_sound _ _ hw')
  have heq := for_eq_while_in_context hft hne hfresh hwhi hwst hzl hzs htres hnz C hC hwa hwa'
  rw [← hP, ← hP'] at heq
  refine equivT_same_vm_end P P' [zl, zs] _ hsl hd ?_ hw hw' heq trivial trivial fuel hfin
  intro z hz
  simp only [List.mem_cons, List.not_mem_nil, or_false] at hz
  rcases hz with rfl | rfl
  · exact lt_of_slot hzl
  · exact lt_of_slot hzs

/-- ... with the premise on the step discharged for the shapes without a step temporary: FOR without STEP, FOR with
a non-zero whole-number literal STEP -/
theorem C02_for_while_preserves_output_static (P P' : SProgram) (C : Ctx)
    {x : Nat} {t : Ty} {lo hi : Ast.Expr} {step : Option Ast.Expr} {body : Stmt} {p : Pos} {zl zs : Nat} {tres : Ty}
    {st' : Stmt}
    (hP : desugar P.body = C.fill (.forLoop x t lo hi step body p)) (hP' : desugar P'.body = C.fill st')
    (hft : forToWhile zl zs tres (.forLoop x t lo hi step body p) = some st')
    (hst : step = none ∨ ∃ v q up, step = some (.lit v q) ∧ constSign v = some up)
    (hne : zl ≠ zs)
    (hfresh : usesS [zl, zs] (.forLoop x t lo hi step body p) = false) (hC : C.uses [zl, zs] = false)
    (hwhi : ExprWt P.slots hi)
    (hzl : P.slots[zl]? = some t) (hzs : P.slots[zs]? = some (stepTy step))
    (htres : Gen.NumTables.binType .plus t (stepTy step) = some tres)
    (hsl : P'.slots = P.slots) (hd : dataOf P'.body = dataOf P.body)
    (hw : wfTopB P.slots P.body = true) (hw' : wfTopB P'.slots P'.body = true)
    (fuel : Nat) (hfin : Finished (Ref.run fuel P.toAst).2 ∨ Finished (Ref.run fuel P'.toAst).2) :
    ∃ n, ∀ m m', n ≤ m → n ≤ m' →
      SameVmEnd [zl, zs] (CoreVm.run (compile P) m (Vm.init P.slots)) (CoreVm.run (compile P') m' (Vm.init P'.slots)) := by
  refine C02_for_while_preserves_output P P' C hP hP' hft hne hfresh hC hwhi ?_ hzl hzs htres
    (fun s _ => stepNonZero_static x t lo step p hst s) hsl hd hw hw' fuel hfin
  intro se hse
  rcases hst with rfl | ⟨v, q, up, rfl, _⟩
  · cases hse
  · cases hse; trivial

/-! ### non-vacuity -/

private def q0 : Pos := ⟨1, 1⟩
private def cond1 : Ast.Expr := .bin .less (.var 0 .int ⟨3, 7⟩) (.lit (.int 2) ⟨3, 11⟩) .int ⟨3, 9⟩
private def lbody : SStmt :=
  .seq (.print [.expr (.var 0 .int ⟨4, 7⟩)] ⟨4, 1⟩)
    (.seq (.assign 0 .int (.bin .plus (.var 0 .int ⟨5, 5⟩) (.lit (.int 1) ⟨5, 9⟩) .int ⟨5, 7⟩) ⟨5, 1⟩) .skip)
/-- `X% = 0 : IF 1 THEN <loop> END IF` -/
private def around (loop : SStmt) : SStmt :=
  .seq (.assign 0 .int (.lit (.int 0) ⟨1, 5⟩) ⟨1, 1⟩)
    (.seq (.ifBlock (.lit (.int 1) ⟨2, 4⟩) (.seq loop .skip) .nil false .skip ⟨2, 1⟩) .skip)
private def aroundC : Ctx :=
  .seqR (.assign 0 .int (.lit (.int 0) ⟨1, 5⟩) ⟨1, 1⟩)
    (.seqL (.ifThen (.lit (.int 1) ⟨2, 4⟩) (.seqL .hole .skip) .skip ⟨2, 1⟩) .skip)
/-- `WHILE X% < 2 : PRINT X% : X% = X% + 1 : WEND` and its `DO WHILE … LOOP` spelling, inside an IF behind an
assignment -/
private def wP : SProgram := ⟨[.int], around (.while cond1 lbody ⟨3, 1⟩)⟩
private def wP' : SProgram := ⟨[.int], around (.doLoop cond1 true false lbody ⟨3, 1⟩)⟩

example : desugar wP.body = aroundC.fill (desugar (.while cond1 lbody ⟨3, 1⟩)) ∧
    desugar wP'.body = aroundC.fill (desugar (.doLoop cond1 true false lbody ⟨3, 1⟩)) ∧
    Respelling [] (desugar (.while cond1 lbody ⟨3, 1⟩)) (desugar (.doLoop cond1 true false lbody ⟨3, 1⟩)) ∧
    wfTopB wP.slots wP.body = true ∧ wfTopB wP'.slots wP'.body = true ∧
    Finished (Ref.run 100 wP.toAst).2 := by
  refine ⟨by simp [wP, around, aroundC, desugar, desugarElifs, Ctx.fill],
    by simp [wP', around, aroundC, desugar, desugarElifs, Ctx.fill],
    .whileDo (by simp [desugar, whileToDo]), by decide +kernel, by decide +kernel, by decide +kernel⟩

/-- `DO : … : LOOP UNTIL X% >= 2` ↦ `LOOP WHILE NOT (X% >= 2)`, same surroundings -/
private def cond2 : Ast.Expr := .bin .greaterOrEqual (.var 0 .int ⟨6, 12⟩) (.lit (.int 2) ⟨6, 18⟩) .int ⟨6, 15⟩
private def uP : SProgram := ⟨[.int], around (.doLoop cond2 false true lbody ⟨3, 1⟩)⟩
private def uP' : SProgram := ⟨[.int], around (.doLoop (notE cond2) false false lbody ⟨3, 1⟩)⟩

example : desugar uP.body = aroundC.fill (desugar (.doLoop cond2 false true lbody ⟨3, 1⟩)) ∧
    desugar uP'.body = aroundC.fill (desugar (.doLoop (notE cond2) false false lbody ⟨3, 1⟩)) ∧
    Respelling [] (desugar (.doLoop cond2 false true lbody ⟨3, 1⟩)) (desugar (.doLoop (notE cond2) false false lbody ⟨3, 1⟩)) ∧
    wfTopB uP.slots uP.body = true ∧ wfTopB uP'.slots uP'.body = true ∧
    Finished (Ref.run 100 uP.toAst).2 := by
  refine ⟨by simp [uP, around, aroundC, desugar, desugarElifs, Ctx.fill],
    by simp [uP', around, aroundC, desugar, desugarElifs, Ctx.fill],
    .untilNot (by simp [desugar, untilToWhileNot, cond2, isCmp, isRel]), by decide +kernel, by decide +kernel,
    by decide +kernel⟩

/-- `SELECT CASE X% : CASE 1 TO 3 : PRINT "a" : CASE ELSE : PRINT "b" : END SELECT` ↦ `Z% = X% : IF Z% >= 1 THEN IF
Z% <= 3 THEN PRINT "a" ELSE PRINT "b" END IF ELSE PRINT "b" END IF`, behind `X% = 2` (slots X = 0, Z = 1) -/
private def pa : SStmt := .print [.expr (.lit (.str ['a']) ⟨3, 7⟩)] ⟨3, 1⟩
private def pb : SStmt := .print [.expr (.lit (.str ['b']) ⟨5, 7⟩)] ⟨5, 1⟩
private def selS : SStmt :=
  .select (.var 0 .int ⟨2, 13⟩) (.cons [.range (.lit (.int 1) ⟨3, 6⟩) (.lit (.int 3) ⟨3, 11⟩)] pa .nil) true pb ⟨2, 1⟩
private def chainS : SStmt :=
  .seq (.assign 1 .int (.var 0 .int ⟨2, 13⟩) ⟨2, 1⟩)
    (.ifBlock (relE .greaterOrEqual 1 .int (.lit (.int 1) ⟨3, 6⟩) ⟨2, 1⟩)
      (.ifBlock (relE .lessOrEqual 1 .int (.lit (.int 3) ⟨3, 11⟩) ⟨2, 1⟩) pa .nil true pb ⟨2, 1⟩) .nil true pb ⟨2, 1⟩)
private def sAround (st : SStmt) : SStmt := .seq (.assign 0 .int (.lit (.int 2) ⟨1, 5⟩) ⟨1, 1⟩) (.seq st .skip)
private def sC : Ctx := .seqR (.assign 0 .int (.lit (.int 2) ⟨1, 5⟩) ⟨1, 1⟩) (.seqL .hole .skip)
private def sP : SProgram := ⟨[.int, .int], sAround selS⟩
private def sP' : SProgram := ⟨[.int, .int], sAround chainS⟩

example : desugar sP.body = sC.fill (desugar selS) ∧ desugar sP'.body = sC.fill (desugar chainS) ∧
    Respelling [1] (desugar selS) (desugar chainS) ∧ sC.uses [1] = false ∧
    wfTopB sP.slots sP.body = true ∧ wfTopB sP'.slots sP'.body = true ∧
    Finished (Ref.run 100 sP.toAst).2 := by
  refine ⟨by simp [sP, sAround, sC, desugar, Ctx.fill], by simp [sP', sAround, sC, desugar, Ctx.fill],
    .selectIf ?_ ?_ ?_, by decide +kernel, by decide +kernel, by decide +kernel, by decide +kernel⟩
  · simp [selS, chainS, pa, pb, desugar, desugarCases, desugarElifs, selectToIf, chain, chainItems, Ast.Expr.ty]
  · decide +kernel
  · intro e cs p h
    simp only [selS, desugar, desugarCases, pa, pb, if_true] at h
    cases h
    decide +kernel

/-- `FOR X% = 1 TO 3 : PRINT X% : NEXT` ↦ `X% = 1 : ZL% = 3 : WHILE X% <= ZL% : PRINT X% : X% = X% + 1 : WEND`
(slots X = 0, limit temporary 1, step temporary 2 (unused in this shape)) -/
private def fbody : SStmt := .print [.expr (.var 0 .int ⟨2, 7⟩)] ⟨2, 1⟩
private def fP : SProgram := ⟨[.int, .int, .int], .forLoop 0 .int (.lit (.int 1) ⟨1, 10⟩) (.lit (.int 3) ⟨1, 15⟩) none fbody q0⟩
private def fP' : SProgram := ⟨[.int, .int, .int],
  .seq (.assign 0 .int (.lit (.int 1) ⟨1, 10⟩) q0) (.seq (.assign 1 .int (.lit (.int 3) ⟨1, 15⟩) q0)
    (.while (.bin .lessOrEqual (.var 0 .int q0) (.var 1 .int q0) .int q0)
      (.seq fbody (.assign 0 .int (.bin .plus (.var 0 .int q0) (.lit (.int 1) q0) .int q0) q0)) q0))⟩

example : desugar fP.body = .forLoop 0 .int (.lit (.int 1) ⟨1, 10⟩) (.lit (.int 3) ⟨1, 15⟩) none (desugar fbody) q0 ∧
    forToWhile 1 2 .int (.forLoop 0 .int (.lit (.int 1) ⟨1, 10⟩) (.lit (.int 3) ⟨1, 15⟩) none (desugar fbody) q0)
      = some (desugar fP'.body) ∧
    usesS [1, 2] (.forLoop 0 .int (.lit (.int 1) ⟨1, 10⟩) (.lit (.int 3) ⟨1, 15⟩) none (desugar fbody) q0) = false ∧
    wfTopB fP.slots fP.body = true ∧ wfTopB fP'.slots fP'.body = true ∧
    Gen.NumTables.binType .plus .int (stepTy none) = some .int ∧
    Finished (Ref.run 100 fP.toAst).2 := by
  refine ⟨by simp [fP, desugar], ?_, by decide +kernel, by decide +kernel, by decide +kernel, by decide +kernel,
    by decide +kernel⟩
  simp [fP', fbody, desugar, forToWhile, countLoop, incr]

/-- the FOR loop of `fP` and its WHILE spelling nested in `X% = 0 : IF 1 THEN … END IF` (context `aroundC`): the
hypotheses of `C02_for_while_preserves_output_static` hold -/
private def nP : SProgram := ⟨[.int, .int, .int], around fP.body⟩
private def nP' : SProgram := ⟨[.int, .int, .int], around fP'.body⟩

example : desugar nP.body = aroundC.fill (desugar fP.body) ∧ desugar nP'.body = aroundC.fill (desugar fP'.body) ∧
    aroundC.uses [1, 2] = false ∧
    wfTopB nP.slots nP.body = true ∧ wfTopB nP'.slots nP'.body = true ∧
    ExprWt nP.slots (.lit (.int 3) ⟨1, 15⟩) ∧
    Finished (Ref.run 100 nP.toAst).2 := by
  refine ⟨by simp [nP, around, aroundC, desugar, desugarElifs, Ctx.fill],
    by simp [nP', around, aroundC, desugar, desugarElifs, Ctx.fill], by decide +kernel, by decide +kernel,
    by decide +kernel, trivial, by decide +kernel⟩

end RbThm.C02Vm
