import Thm.ProcJSimBase
import Thm.ProcJShape
import Thm.ProcJCatch
/-!
Layer "procedures ∪ jumps", simulation part: `FOR … NEXT`, with and without `STEP` (port of `Thm/ProcSimFor.lean` — state
threading through the header expressions, `Rel`, the register frame of the body — and of `Thm/JmpLSimFor.lean` — entry forms,
`jump` / `ret` clauses, `LabAt` plumbing).

The limit and the step live in registers C and D of the register frame that is current when the header runs; the body runs in
its own frame (`PushRegisters` / `PopRegisters`), one FOR deeper (`fd + 1`) on top of the saved frame (`f :: regStack`:
`ActInv.enterFor`).  Everything is relative in the stacks, and the body can answer

* `jump L`: it never names a label of the body (`JumpDepths` for the body): the branch `forIter … (.seek L)` of the reference
  semantics is dead, the jump leaves the loop and is the outcome of the FOR statement itself, so `JumpDepths` for the FOR
  statement (whose `Wf` contains `Leaves dp.fd fd`) says `fd L ≤ fd`: the `PopRegisters` run of the GOTO has removed the loop's
  frame: `(f :: R).drop (fd + 1 − fd L) = R.drop (fd − fd L)`.  (The rounds are proved for a fixed `top` = the outcome of the
  statement, with the invariant `forIter f … s = top`.)
* `ret p`: passed on: `X ++ (f :: R).drop (fd + 1) = X ++ R.drop fd`;
* `exited`: passed on: `ExitedTo` is anchored at the bottom of the stacks, the loop's frame lies above the activation's mark;
* a FOR entered in seek mode from outside answers `illFormed` / `notHere`: nothing is claimed.
-/
namespace RbThm.ProcJSim
set_option linter.unusedVariables false
set_option linter.unusedSimpArgs false
open RbModel RbModel.ProcJ RbModel.ProcJ.Compile RbModel.ProcJ.Vm
open RbModel.Num hiding Expr
open RbModel.Ast (Pos)
open RbModel.Proc (Var SlotTabs Expr Args PrintItem CaseExpr ProcDecl zeroOf Sigs sigsOf)
open RbModel.Proc.Compile (Layout Layout.addr sizeExpr sizePush refCount sizeExprTo sizeSubCall sizeItems sizeCaseExpr sizeConds
  sizeExit labelName stepSuffix maxPos)
open RbModel.Proc.Vm (Regs Regs.new Frame CtxState getVar setVar curVars modCur curStatic applyArgs readVars binInstr)
open RbModel.ProcJ.Ref (Outcome Mode Act)
open RbThm.ProcJLen
open RbThm.ProcSim (Scope EWf)

/-! ### instruction groups -/

theorem pjfor_truthy_ofBool (b : Bool) : RbModel.Ref.truthy (ofBool b) = some b := by
  cases b <;> rfl

/-- the relational instructions are `try_cmp` turned into −1 / 0 -/
def PjForIsRel (op : Op) : Prop :=
  ∀ a b, binInstr op a b = (tryCmp a b).bind fun o => Res.ok (ofBool (relHolds op o))

/-- compare A with B by a relational operator and branch on the outcome -/
theorem pjfor_cmp_jump (code : Code) (op : Op) (hop : PjForIsRel op) (p : Pos) (target : Nat) (off : Nat) (τ : Vm)
    (hc : CodeAt code off [(CInstr.bin op, p), (CInstr.jumpIfFalse target, p)]) (hpc : τ.pc = off) :
    match tryCmp τ.regs.a τ.regs.b with
    | .ok o =>
      if relHolds op o then Steps code τ { τ with pc := off + 2, regs := { τ.regs with a := ofBool true } }
      else Steps code τ { τ with pc := target, regs := { τ.regs with a := ofBool false } }
    | .err e => ErrsWith code τ (RbModel.Proc.Ref.codeOf e) p τ.out
    | .inexact => True := by
  subst hpc
  have h0 : code[τ.pc]? = some (CInstr.bin op, p) := hc.head
  have h1 : code[τ.pc + 1]? = some (CInstr.jumpIfFalse target, p) := hc.tail.head
  have s0 : Vm.step code τ = Vm.resA τ p (binInstr op τ.regs.a τ.regs.b) := by
    simp only [Vm.step, h0]
  rw [hop] at s0
  cases hcmp : tryCmp τ.regs.a τ.regs.b with
  | ok o =>
    simp only [hcmp, Res.bind, Vm.resA] at s0 ⊢
    cases hb : relHolds op o with
    | true =>
      simp only [hb, if_true] at s0 ⊢
      refine Steps.cons s0 (Steps.one ?_)
      simp only [Vm.step, Vm.advance, Vm.setA, h1, pjfor_truthy_ofBool]
    | false =>
      simp only [hb] at s0 ⊢
      refine Steps.cons s0 (Steps.one ?_)
      simp only [Vm.step, Vm.advance, Vm.setA, h1, pjfor_truthy_ofBool]
  | err e =>
    simp only [hcmp, Res.bind, Vm.resA] at s0 ⊢
    exact ⟨τ, τ, Steps.refl τ, s0, rfl⟩
  | inexact => trivial

/-- the head of one FOR round: label, `CopyCToB`, load the counter, compare, branch, `PushRegisters` -/
def pjforHeadCode (lbl : String) (x : Var) (t : Ty) (op : Op) (p : Pos) (outOff : Nat) : Code :=
  [(CInstr.label lbl, p), (CInstr.copyCToB, p)] ++ loadVar x t p ++
    [(CInstr.bin op, p), (CInstr.jumpIfFalse outOff, p), (CInstr.pushRegs, p)]

/-- the tail of one FOR round: `PopRegisters`, counter := cast (counter + D), jump back -/
def pjforTailCode (x : Var) (t : Ty) (p : Pos) (bo : Nat) : Code :=
  [(CInstr.popRegs, p)] ++ loadVar x t p ++ [(CInstr.copyDToB, p), (CInstr.bin .plus, p), (CInstr.cast t, p)] ++
    storeVar x t p ++ [(CInstr.jump bo, p)]

theorem pjfor_forBody_split (sfx : String) (x : Var) (t : Ty) (bc : Code) (up : Bool) (p : Pos) (bo outOff : Nat) :
    forBody sfx x t bc up p bo outOff =
      pjforHeadCode (labelName (if up then "positive-loop" else "negative-loop") p sfx) x t
        (if up then .lessOrEqual else .greaterOrEqual) p outOff ++ (bc ++ pjforTailCode x t p bo) := by
  simp [forBody, pjforHeadCode, pjforTailCode, loadVar, storeVar]

theorem pjfor_head (W : World) (sc : Scope) (pre below : List CtxState) (s : St) (lbl : String) (x : Var) (t : Ty)
    (op : Op) (hop : PjForIsRel op) (p : Pos) (bo outOff : Nat) (h sv : Val) (σ : Vm)
    (hc : CodeAt W.code bo (pjforHeadCode lbl x t op p outOff)) (hpc : σ.pc = bo) (hC : σ.regs.c = h) (hD : σ.regs.d = sv)
    (hr : Rel W sc pre below s σ) (hx : sc.slots.get? x = some t) :
    match tryCmp (s.get x t) h with
    | .ok o =>
      if relHolds op o then
        ∃ a, Steps W.code σ { σ with pc := bo + 8, regs := Regs.new, regStack := ⟨a, h, h, sv⟩ :: σ.regStack }
      else ∃ a, Steps W.code σ { σ with pc := outOff, regs := ⟨a, h, h, sv⟩ }
    | .err e => ErrsWith W.code σ (RbModel.Proc.Ref.codeOf e) p σ.out
    | .inexact => True := by
  subst hpc
  subst hC
  subst hD
  simp only [pjforHeadCode] at hc
  have h0 : W.code[σ.pc]? = some (CInstr.label lbl, p) := hc.append_left.append_left.head
  have h1 : W.code[σ.pc + 1]? = some (CInstr.copyCToB, p) := hc.append_left.append_left.tail.head
  have hl : CodeAt W.code (σ.pc + 2) (loadVar x t p) := hc.append_left.append_right
  have hcj : CodeAt W.code (σ.pc + 5) [(CInstr.bin op, p), (CInstr.jumpIfFalse outOff, p), (CInstr.pushRegs, p)] :=
    hc.append_right
  have hcj2 : CodeAt W.code (σ.pc + 5) [(CInstr.bin op, p), (CInstr.jumpIfFalse outOff, p)] :=
    CodeAt.append_left (a := [(CInstr.bin op, p), (CInstr.jumpIfFalse outOff, p)]) (b := [(CInstr.pushRegs, p)]) hcj
  have h7 : W.code[σ.pc + 7]? = some (CInstr.pushRegs, p) := hcj.tail.tail.head
  let σ1 : Vm := Vm.advance σ
  let σ2 : Vm := Vm.advance { σ1 with regs := { σ1.regs with b := σ1.regs.c } }
  let σ3 : Vm := loadSt σ2 (s.get x t)
  have s1 : Vm.step W.code σ = .next σ1 := by simp only [Vm.step, h0]; rfl
  have s2 : Vm.step W.code σ1 = .next σ2 := by simp only [Vm.step, σ1, Vm.advance, h1]; rfl
  have hr2 : Rel W sc pre below s σ2 := hr.same rfl rfl rfl rfl rfl rfl
  have s3 : Steps W.code σ2 σ3 := var_steps W sc pre below s x t p σ2 hl hr2 hx
  have pre3 : Steps W.code σ σ3 := Steps.cons s1 (Steps.cons s2 s3)
  have hcmp := pjfor_cmp_jump W.code op hop p outOff (σ.pc + 5) σ3 hcj2 rfl
  have ha : σ3.regs.a = s.get x t := rfl
  have hb : σ3.regs.b = σ.regs.c := rfl
  rw [ha, hb] at hcmp
  cases hcm : tryCmp (s.get x t) σ.regs.c with
  | ok o =>
    simp only [hcm] at hcmp ⊢
    cases hrl : relHolds op o with
    | true =>
      simp only [hrl, if_true] at hcmp ⊢
      refine ⟨ofBool true, (pre3.trans hcmp).trans (Steps.one ?_)⟩
      simp only [Vm.step, h7]
      rfl
    | false =>
      simp only [hrl] at hcmp ⊢
      exact ⟨ofBool false, pre3.trans hcmp⟩
  | err e =>
    simp only [hcm] at hcmp ⊢
    exact ErrsWith.of_steps pre3 hcmp
  | inexact => trivial

/-- the state before the store of the increment: the saved register frame is back, A holds the new counter -/
def pjforTailPre (υ : Vm) (r : Regs) (rest : List Regs) (v : Val) : Vm :=
  { υ with pc := υ.pc + 7, regs := ⟨v, r.d, r.c, r.d⟩, regStack := rest }

/-- the state after the increment: the saved register frame is back, A holds the new counter, the counter is stored -/
def pjforTailSt (υ : Vm) (r : Regs) (rest : List Regs) (bo : Nat) (x : Var) (v : Val) : Vm :=
  { storeSt (pjforTailPre υ r rest v) x with pc := bo }

theorem pjfor_tail (W : World) (sc : Scope) (pre below : List CtxState) (s : St) (x : Var) (t : Ty) (p : Pos)
    (q bo : Nat) (υ : Vm) (r : Regs) (rest : List Regs)
    (hc : CodeAt W.code q (pjforTailCode x t p bo)) (hpc : υ.pc = q) (hrs : υ.regStack = r :: rest)
    (hr : Rel W sc pre below s υ) (hx : sc.slots.get? x = some t) :
    match (plus (s.get x t) r.d).bind (fun w => cast w t) with
    | .ok v => Steps W.code υ (pjforTailSt υ r rest bo x v)
    | .err e => ErrsWith W.code υ (RbModel.Proc.Ref.codeOf e) p υ.out
    | .inexact => True := by
  subst hpc
  simp only [pjforTailCode] at hc
  have h0 : W.code[υ.pc]? = some (CInstr.popRegs, p) := hc.append_left.append_left.append_left.append_left.head
  have hl : CodeAt W.code (υ.pc + 1) (loadVar x t p) := hc.append_left.append_left.append_left.append_right
  have h3 : CodeAt W.code (υ.pc + 4) [(CInstr.copyDToB, p), (CInstr.bin .plus, p), (CInstr.cast t, p)] :=
    hc.append_left.append_left.append_right
  have hs : CodeAt W.code (υ.pc + 7) (storeVar x t p) := hc.append_left.append_right
  have hj : W.code[υ.pc + 9]? = some (CInstr.jump bo, p) := hc.append_right.head
  let υ1 : Vm := Vm.advance { υ with regs := r, regStack := rest }
  let υ2 : Vm := loadSt υ1 (s.get x t)
  let υ3 : Vm := Vm.advance { υ2 with regs := { υ2.regs with b := υ2.regs.d } }
  have s1 : Vm.step W.code υ = .next υ1 := by simp only [Vm.step, h0, hrs]; rfl
  have hr1 : Rel W sc pre below s υ1 := hr.same rfl rfl rfl rfl rfl rfl
  have s2 : Steps W.code υ1 υ2 := var_steps W sc pre below s x t p υ1 hl hr1 hx
  have s3 : Vm.step W.code υ2 = .next υ3 := by
    have := h3.head
    simp only [Vm.step, υ2, loadSt, υ1, Vm.advance, this]; rfl
  have s4 : Vm.step W.code υ3 = Vm.resA υ3 p (plus (s.get x t) r.d) := by
    have := h3.tail.head
    simp only [Vm.step, υ3, υ2, loadSt, υ1, Vm.advance, this]; rfl
  have pre3 : Steps W.code υ υ3 := Steps.cons s1 (s2.trans (Steps.one s3))
  cases hpl : plus (s.get x t) r.d with
  | ok w =>
    simp only [Res.bind]
    let υ4 : Vm := Vm.advance (Vm.setA υ3 w)
    have s4' : Vm.step W.code υ3 = .next υ4 := by rw [s4, hpl]; rfl
    have s5 : Vm.step W.code υ4 = Vm.resA υ4 p (cast w t) := by
      have := h3.tail.tail.head
      simp only [Vm.step, υ4, υ3, υ2, loadSt, υ1, Vm.advance, Vm.setA, this]
    cases hcs : cast w t with
    | ok v =>
      simp only
      let υ5 : Vm := Vm.advance (Vm.setA υ4 v)
      have s5' : Vm.step W.code υ4 = .next υ5 := by rw [s5, hcs]; rfl
      have s6 := store_steps W.code x t p υ5 hs
      refine (pre3.trans (Steps.cons s4' (Steps.cons s5' s6))).trans (Steps.one ?_)
      have hj' : W.code[(storeSt υ5 x).pc]? = some (CInstr.jump bo, p) := hj
      simp only [Vm.step, hj']
      rfl
    | err e =>
      simp only
      refine ⟨υ4, υ4, pre3.trans (Steps.one s4'), ?_, rfl⟩
      rw [s5, hcs]; rfl
    | inexact => trivial
  | err e =>
    simp only [Res.bind]
    refine ⟨υ3, υ3, pre3, ?_, rfl⟩
    rw [s4, hpl]; rfl
  | inexact => trivial

/-! ### leaving the body -/

/-- `EXIT SUB / FUNCTION` out of a FOR body (entered by `PushRegisters` from a state with the stacks of `σ`): the loop's frame
lies above the activation's mark -/
theorem pjfor_leaveFor {sc : Scope} {fd sd : Nat} {σ σ' τ : Vm} (hinv : ActInv sc fd sd σ) (h : ExitedTo σ' τ) (r : Regs)
    (hreg : σ'.regStack = r :: σ.regStack) (hv : σ'.vals = σ.vals) (hg : σ'.gosubs = σ.gosubs) (hrets : σ'.rets = σ.rets)
    (hm : σ'.marks = σ.marks) (hp : σ'.paths = σ.paths) (ht : σ'.trace = σ.trace)
    (hk : σ.skipNewline = false → σ'.skipNewline = false) : ExitedTo σ τ := by
  refine h.mono hrets hm (fun n hn => ?_) (fun n _ => by rw [hv]) (fun n _ => by rw [hg]) hp ht hk
  rw [hreg]
  apply truncTop_cons
  cases hip : sc.inProc with
  | false =>
    rw [(hinv.main hip).1] at hn
    simp at hn
  | true =>
    obtain ⟨a, rets, m, marks, h1, h2, h3, h4, h5, h6, h7⟩ := hinv.act hip
    simp only [h2, List.head?_cons, Option.map_some, Option.getD_some] at hn
    omega

/-! ### the rounds -/

/-- **the FOR rounds**: from the loop-head label with the limit in C and the step in D, the generated code does what
`forIter` (entered in run mode) prescribes and leaves through the `out-of-for` address; relative to the stacks of the
loop-head state, at the depths of the FOR statement.  The body runs at FOR depth `fd + 1` on top of the saved frame.
`top`: the outcome of the FOR statement (= of every pending round); a jump that leaves the statement is not deeper than it. -/
theorem pjfor_loop (W : World) (hjd : JumpDepths W) (B : BodyCtx) (hB : B.Ok W) (fuel : Nat) (ih : IHle W fuel)
    (below : List CtxState)
    (x : Var) (t : Ty) (body : SStmt) (p : Pos) (sfx : String) (fd sd : Nat) (up : Bool) (bo outOff : Nat) (h sv : Val)
    (hx : B.sc.slots.get? x = some t) (hwb : Wf W.sg B.sc W.env.dp B.body.labels (fd + 1) sd body)
    (hlb : LabAt W.env (fd + 1) sd (bo + 8) body)
    (top : St × Outcome) (htop : ∀ (s' : St) (L : Nat), top = (s', .jump L) → W.env.dp.fd L ≤ fd)
    (hc : CodeAt W.code bo
      (forBody sfx x t (compileStmt W.lay W.env (stepSuffix sfx up) (fd + 1) sd (bo + 8) body) up p bo outOff)) :
    ∀ f, f ≤ fuel → ∀ (σ : Vm) (s : St), σ.pc = bo → σ.regs.c = h → σ.regs.d = sv → Rel W B.sc [] below s σ →
      ActInv B.sc fd sd σ → ProcJ.Ref.forIter W.P f B.act x t h sv up (desugar body) p .run s = top →
      StmtPost W B.sc below fd sd outOff σ (ProcJ.Ref.forIter W.P f B.act x t h sv up (desugar body) p .run s) := by
  rw [pjfor_forBody_split] at hc
  have hch := hc.append_left
  have hlenH : (pjforHeadCode (labelName (if up then "positive-loop" else "negative-loop") p sfx) x t
        (if up then Op.lessOrEqual else Op.greaterOrEqual) p outOff).length = 8 := by
    simp [pjforHeadCode, loadVar]
  have hcb : CodeAt W.code (bo + 8) (compileStmt W.lay W.env (stepSuffix sfx up) (fd + 1) sd (bo + 8) body) := by
    have := hc.append_right.append_left
    rwa [hlenH] at this
  have hct : CodeAt W.code (bo + 8 + sizeStmt W.env.dp (fd + 1) sd body) (pjforTailCode x t p bo) := by
    have := hc.append_right.append_right
    rwa [hlenH, len_stmt] at this
  have hop : PjForIsRel (if up then Op.lessOrEqual else Op.greaterOrEqual) := by
    cases up <;> exact fun _ _ => rfl
  intro f
  induction f with
  | zero => intro _ σ s _ _ _ _ _ _; simp only [ProcJ.Ref.forIter, StmtPost]
  | succ f' ihf =>
    intro hf σ s hpc hC hD hr ha heq
    have hhead := pjfor_head W B.sc [] below s _ x t _ hop p bo outOff h sv σ hch hpc hC hD hr hx
    simp only [ProcJ.Ref.forIter, ProcJ.Ref.relTest] at heq ⊢
    cases hcm : tryCmp (s.get x t) h with
    | err e =>
      simp only [hcm] at hhead ⊢
      simp only [StmtPost]
      rw [← hr.out]; exact hhead
    | inexact => simp only [StmtPost]
    | ok o =>
      simp only [hcm] at hhead heq ⊢
      cases hrel : relHolds (if up then Op.lessOrEqual else Op.greaterOrEqual) o with
      | false =>
        simp only [hrel] at hhead ⊢
        obtain ⟨a, st⟩ := hhead
        simp only [StmtPost]
        exact ⟨_, st, rfl, hr.same rfl rfl rfl rfl rfl rfl, ⟨rfl, rfl, rfl, rfl, rfl, rfl, rfl, id⟩⟩
      | true =>
        simp only [hrel, if_true] at hhead heq ⊢
        obtain ⟨a, st⟩ := hhead
        let τ0 : Vm := { σ with pc := bo + 8, regs := Regs.new, regStack := ⟨a, h, h, sv⟩ :: σ.regStack }
        have hrel0 : Rel W B.sc [] below s τ0 := hr.same rfl rfl rfl rfl rfl rfl
        have ha0 : ActInv B.sc (fd + 1) sd τ0 := ha.enterFor ⟨a, h, h, sv⟩ rfl rfl rfl rfl rfl rfl id
        have hb := (ih f' (by omega)).stmt B body (stepSuffix sfx up) (fd + 1) sd (bo + 8) .run below s τ0 hB hcb hlb
          hwb rfl hrel0 ha0
        generalize hrb : ProcJ.Ref.exec W.P f' B.act (desugar body) .run s = rb at hb heq ⊢
        obtain ⟨s1, o1⟩ := rb
        cases o1 with
        | normal =>
          obtain ⟨υ, st2, hp2, hrel2, hss2⟩ := hb
          have htail := pjfor_tail W B.sc [] below s1 x t p (bo + 8 + sizeStmt W.env.dp (fd + 1) sd body) bo υ
            ⟨a, h, h, sv⟩ σ.regStack hct hp2 hss2.regStack hrel2 hx
          simp only [] at htail heq ⊢
          cases hinc : (plus (s1.get x t) sv).bind (fun v => cast v t) with
          | ok v =>
            simp only [hinc] at htail heq ⊢
            have hv : v.tag = t := by
              cases hpl : plus (s1.get x t) sv with
              | ok w => rw [hpl] at hinc; exact RbThm.C01Sim.SimRead.cast_tag _ _ _ hinc
              | err e => rw [hpl] at hinc; cases hinc
              | inexact => rw [hpl] at hinc; cases hinc
            let υ1 : Vm := pjforTailSt υ ⟨a, h, h, sv⟩ σ.regStack bo x v
            have hrelp : Rel W B.sc [] below s1 (pjforTailPre υ ⟨a, h, h, sv⟩ σ.regStack v) :=
              hrel2.same rfl rfl rfl rfl rfl rfl
            have hrel3 : Rel W B.sc [] below (s1.set x v) υ1 := (hrelp.storeSt hx hv).setPc bo
            have hssp : SameStacks σ (pjforTailPre υ ⟨a, h, h, sv⟩ σ.regStack v) :=
              ⟨hss2.vals, hss2.paths, rfl, hss2.rets, hss2.marks, hss2.gosubs, hss2.trace, hss2.skip⟩
            have hss3 : SameStacks σ υ1 :=
              (hssp.trans (SameStacks.storeSt _ x)).trans ⟨rfl, rfl, rfl, rfl, rfl, rfl, rfl, id⟩
            have hregs : υ1.regs = ⟨v, sv, h, sv⟩ := storeSt_regs _ x
            have hloop := ihf (by omega) υ1 (s1.set x v) rfl (by rw [hregs]) (by rw [hregs]) hrel3
              (ha.of_same hss3) heq
            exact StmtPost.of_steps ((st.trans st2).trans htail) hss3 hloop
          | err e =>
            simp only [hinc] at htail ⊢
            simp only [StmtPost]
            rw [← hrel2.out]
            exact ErrsWith.of_steps (st.trans st2) htail
          | inexact => simp only [StmtPost]
        | exited =>
          obtain ⟨υ, st2, hxt, hrel2⟩ := hb
          exact ⟨υ, st.trans st2, pjfor_leaveFor ha hxt ⟨a, h, h, sv⟩ rfl rfl rfl rfl rfl rfl rfl id, hrel2⟩
        | jump L =>
          simp only at heq ⊢
          obtain ⟨hnl, _⟩ := hjd B.sc B.body.labels body (fd + 1) sd hwb f' B.act .run s s1 L hrb
          have hL : (desugar body).hasLabel L = false := (hasLabel_false_iff hwb L).mpr hnl
          simp only [hL, Bool.false_eq_true, if_false] at heq ⊢
          have hfd : W.env.dp.fd L ≤ fd := htop s1 L heq.symm
          obtain ⟨τ, st2, hp, hrel2, h1, h2, h3, h4, h5, h6, h7, h8⟩ := hb
          simp only [StmtPost]
          refine ⟨τ, st.trans st2, hp, hrel2, ?_, h2, h3, h4, h5, h6, h7, h8⟩
          have e1 : fd + 1 - W.env.dp.fd L = (fd - W.env.dp.fd L) + 1 := by omega
          rw [h1]
          show List.drop (fd + 1 - W.env.dp.fd L) (_ :: σ.regStack) = _
          rw [e1, List.drop_succ_cons]
        | ret q =>
          obtain ⟨τ, st2, hp, hrel2, ⟨X, hX⟩, hY, h3, h4, h5, h6, h7, h8⟩ := hb
          simp only [StmtPost]
          refine ⟨τ, st.trans st2, hp, hrel2, ⟨X, ?_⟩, hY, h3, h4, h5, h6, h7, h8⟩
          rw [hX]
          show X ++ List.drop (fd + 1) (_ :: σ.regStack) = _
          rw [List.drop_succ_cons]
        | halted => exact HaltsWith.of_steps st hb
        | error cd q => exact ErrsWith.of_steps st hb
        | inexact => trivial
        | outOfFuel => trivial
        | illFormed => trivial
        | notHere => trivial

/-- leaving the loop: the rounds end at the `out-of-for` label, one more step reaches the end of the statement -/
theorem pjfor_finish (W : World) (sc : Scope) (below : List CtxState) (fd sd : Nat) (σ σd : Vm)
    (outOff fin : Nat) (lbl : String) (p : Pos)
    (pre : Steps W.code σ σd) (hss : SameStacks σ σd)
    (hlab : W.code[outOff]? = some (CInstr.label lbl, p)) (hn : fin = outOff + 1) (r : St × Outcome)
    (h : StmtPost W sc below fd sd outOff σd r) : StmtPost W sc below fd sd fin σ r := by
  refine StmtPost.of_steps pre hss ?_
  obtain ⟨s', o⟩ := r
  cases o with
  | normal =>
    obtain ⟨τ, st, hp, hrel, hs⟩ := h
    have s2 : Vm.step W.code τ = .next (Vm.advance τ) := by
      simp only [Vm.step, hp, hlab]
    exact ⟨Vm.advance τ, st.trans (Steps.one s2), by simp only [Vm.advance, hp, hn], hrel.advance,
      hs.trans ⟨rfl, rfl, rfl, rfl, rfl, rfl, rfl, id⟩⟩
  | exited => exact h
  | jump L => exact h
  | ret q => exact h
  | halted => exact h
  | error c q => exact h
  | inexact => trivial
  | outOfFuel => trivial
  | illFormed => trivial
  | notHere => trivial

theorem pjfor_stepSign_eq (p : Pos) (sv : Val) : ProcJ.Ref.stepSign p sv =
    match tryCmp sv (.int 0) with
    | .ok .lt => .ok .neg
    | .ok .gt => .ok .pos
    | .ok .eq => .ok .zero
    | .err e => .error (.error (RbModel.Proc.Ref.codeOf e) p)
    | .inexact => .error .inexact := by
  simp only [ProcJ.Ref.stepSign, ProcJ.Ref.relTest]
  cases tryCmp sv (.int 0) with
  | ok o => cases o <;> rfl
  | err e => rfl
  | inexact => rfl

/-- the sign test of a FOR with STEP: `step < 0` → the negative loop, else `step > 0` → the positive loop, else
`ForLoopZeroStep` -/
theorem pjfor_sign (code : Code) (p q : Pos) (lblT lblZ lblO : String) (a0 testPos zeroOff : Nat) (τ : Vm)
    (hc : CodeAt code a0 [(CInstr.loadA (.int 0), p), (CInstr.copyAToB, p), (CInstr.copyDToA, p),
      (CInstr.bin .less, p), (CInstr.jumpIfFalse testPos, p)])
    (hcT : CodeAt code testPos [(CInstr.label lblT, p), (CInstr.copyDToA, p), (CInstr.bin .greater, p),
      (CInstr.jumpIfFalse zeroOff, p)])
    (hcZ : CodeAt code zeroOff [(CInstr.label lblZ, p), (CInstr.throwZeroStep, q), (CInstr.label lblO, p)])
    (hpc : τ.pc = a0) :
    match tryCmp τ.regs.d (.int 0) with
    | .ok .lt => ∃ a, Steps code τ { τ with pc := a0 + 5, regs := ⟨a, .int 0, τ.regs.c, τ.regs.d⟩ }
    | .ok .gt => ∃ a, Steps code τ { τ with pc := testPos + 4, regs := ⟨a, .int 0, τ.regs.c, τ.regs.d⟩ }
    | .ok .eq => ErrsWith code τ RbModel.Proc.Ref.codeZeroStep q τ.out
    | .err e => ErrsWith code τ (RbModel.Proc.Ref.codeOf e) p τ.out
    | .inexact => True := by
  subst hpc
  have h0 : code[τ.pc]? = some (CInstr.loadA (.int 0), p) := hc.head
  have h1 : code[τ.pc + 1]? = some (CInstr.copyAToB, p) := hc.tail.head
  have h2 : code[τ.pc + 1 + 1]? = some (CInstr.copyDToA, p) := hc.tail.tail.head
  have hcj : CodeAt code (τ.pc + 3) [(CInstr.bin .less, p), (CInstr.jumpIfFalse testPos, p)] := hc.tail.tail.tail
  let τ1 : Vm := Vm.advance (Vm.setA τ (.int 0))
  let τ2 : Vm := Vm.advance { τ1 with regs := { τ1.regs with b := τ1.regs.a } }
  let τ3 : Vm := Vm.advance { τ2 with regs := { τ2.regs with a := τ2.regs.d } }
  have s1 : Vm.step code τ = .next τ1 := by simp only [Vm.step, h0]; rfl
  have s2 : Vm.step code τ1 = .next τ2 := by simp only [Vm.step, τ1, Vm.advance, Vm.setA, h1]; rfl
  have s3 : Vm.step code τ2 = .next τ3 := by simp only [Vm.step, τ2, τ1, Vm.advance, Vm.setA, h2]; rfl
  have pre : Steps code τ τ3 := Steps.cons s1 (Steps.cons s2 (Steps.one s3))
  have hcmp := pjfor_cmp_jump code .less (fun _ _ => rfl) p testPos (τ.pc + 3) τ3 hcj rfl
  have ha : τ3.regs.a = τ.regs.d := rfl
  have hb : τ3.regs.b = .int 0 := rfl
  rw [ha, hb] at hcmp
  -- the second test
  have hT0 : code[testPos]? = some (CInstr.label lblT, p) := hcT.head
  have hT1 : code[testPos + 1]? = some (CInstr.copyDToA, p) := hcT.tail.head
  have hcj' : CodeAt code (testPos + 2) [(CInstr.bin .greater, p), (CInstr.jumpIfFalse zeroOff, p)] := hcT.tail.tail
  let τ4 : Vm := { τ3 with pc := testPos, regs := { τ3.regs with a := ofBool false } }
  let τ5 : Vm := Vm.advance τ4
  let τ6 : Vm := Vm.advance { τ5 with regs := { τ5.regs with a := τ5.regs.d } }
  have s5 : Vm.step code τ4 = .next τ5 := by simp only [Vm.step, τ4, hT0]; rfl
  have s6 : Vm.step code τ5 = .next τ6 := by simp only [Vm.step, τ5, τ4, Vm.advance, hT1]; rfl
  have hcmp2 := pjfor_cmp_jump code .greater (fun _ _ => rfl) p zeroOff (testPos + 2) τ6 hcj' rfl
  have ha2 : τ6.regs.a = τ.regs.d := rfl
  have hb2 : τ6.regs.b = .int 0 := rfl
  rw [ha2, hb2] at hcmp2
  cases hcm : tryCmp τ.regs.d (.int 0) with
  | err e =>
    simp only [hcm] at hcmp ⊢
    exact ErrsWith.of_steps pre hcmp
  | inexact => trivial
  | ok o =>
    simp only [hcm] at hcmp hcmp2
    cases o with
    | lt =>
      have : relHolds .less .lt = true := rfl
      simp only [this, if_true] at hcmp ⊢
      exact ⟨_, pre.trans hcmp⟩
    | eq =>
      have e1 : relHolds .less .eq = false := rfl
      have e2 : relHolds .greater .eq = false := rfl
      simp only [e1, e2] at hcmp hcmp2 ⊢
      have hZ0 : code[zeroOff]? = some (CInstr.label lblZ, p) := hcZ.head
      have hZ1 : code[zeroOff + 1]? = some (CInstr.throwZeroStep, q) := hcZ.tail.head
      let τ7 : Vm := { τ6 with pc := zeroOff, regs := { τ6.regs with a := ofBool false } }
      have s7 : Vm.step code τ7 = .next (Vm.advance τ7) := by simp only [Vm.step, τ7, hZ0]
      refine ⟨Vm.advance τ7, Vm.advance τ7,
        (pre.trans hcmp).trans (Steps.cons s5 (Steps.cons s6 (hcmp2.trans (Steps.one s7)))), ?_, rfl⟩
      simp only [Vm.step, τ7, Vm.advance, hZ1]
      rfl
    | gt =>
      have e1 : relHolds .less .gt = false := rfl
      have e2 : relHolds .greater .gt = true := rfl
      simp only [e1, e2, if_true] at hcmp hcmp2 ⊢
      exact ⟨_, (pre.trans hcmp).trans (Steps.cons s5 (Steps.cons s6 hcmp2))⟩

/-- the header of a FOR without STEP after the limit is in A: limit to C, step 1 to D, the resume point -/
theorem pjfor_hdr_none (code : Code) (p : Pos) (lbl : String) (a0 j o : Nat) (τ : Vm)
    (hc : CodeAt code a0 [(CInstr.copyAToC, p), (CInstr.loadA (.int 1), p), (CInstr.copyAToD, p),
      (CInstr.jump j, p), (CInstr.jump o, p), (CInstr.label lbl, p)])
    (hj : j = a0 + 5) (hpc : τ.pc = a0) :
    Steps code τ { τ with pc := a0 + 6, regs := ⟨.int 1, τ.regs.b, τ.regs.a, .int 1⟩ } := by
  subst hpc
  subst hj
  have i0 := hc.head
  have i1 := hc.tail.head
  have i2 := hc.tail.tail.head
  have i3 := hc.tail.tail.tail.head
  have i5 : code[τ.pc + 5]? = some (CInstr.label lbl, p) := hc.tail.tail.tail.tail.tail.head
  let σ1 : Vm := Vm.advance { τ with regs := { τ.regs with c := τ.regs.a } }
  let σ2 : Vm := Vm.advance (Vm.setA σ1 (.int 1))
  let σ3 : Vm := Vm.advance { σ2 with regs := { σ2.regs with d := σ2.regs.a } }
  let σ4 : Vm := { σ3 with pc := τ.pc + 5 }
  have s1 : Vm.step code τ = .next σ1 := by simp only [Vm.step, i0]; rfl
  have s2 : Vm.step code σ1 = .next σ2 := by simp only [Vm.step, σ1, Vm.advance, i1]; rfl
  have s3 : Vm.step code σ2 = .next σ3 := by simp only [Vm.step, σ2, σ1, Vm.advance, Vm.setA, i2]; rfl
  have s4 : Vm.step code σ3 = .next σ4 := by simp only [Vm.step, σ3, σ2, σ1, Vm.advance, Vm.setA, i3]; rfl
  have s5 : Vm.step code σ4 = .next (Vm.advance σ4) := by
    have : code[σ4.pc]? = some (CInstr.label lbl, p) := i5
    simp only [Vm.step, this]
  exact Steps.cons s1 (Steps.cons s2 (Steps.cons s3 (Steps.cons s4 (Steps.one s5))))

/-- the header of a FOR with STEP after the step is in A and the limit on the value stack: step to D, limit to C, the
resume point -/
theorem pjfor_hdr_step (code : Code) (p : Pos) (lbl : String) (a0 j o : Nat) (τ : Vm) (h : Val) (vs : List Val)
    (hc : CodeAt code a0 [(CInstr.copyAToD, p), (CInstr.popA, p), (CInstr.copyAToC, p),
      (CInstr.jump j, p), (CInstr.jump o, p), (CInstr.label lbl, p)])
    (hj : j = a0 + 5) (hpc : τ.pc = a0) (hv : τ.vals = h :: vs) :
    Steps code τ { τ with pc := a0 + 6, regs := ⟨h, τ.regs.b, h, τ.regs.a⟩, vals := vs } := by
  subst hpc
  subst hj
  have i0 := hc.head
  have i1 := hc.tail.head
  have i2 := hc.tail.tail.head
  have i3 := hc.tail.tail.tail.head
  have i5 : code[τ.pc + 5]? = some (CInstr.label lbl, p) := hc.tail.tail.tail.tail.tail.head
  let σ1 : Vm := Vm.advance { τ with regs := { τ.regs with d := τ.regs.a } }
  let σ2 : Vm := Vm.advance { Vm.setA σ1 h with vals := vs }
  let σ3 : Vm := Vm.advance { σ2 with regs := { σ2.regs with c := σ2.regs.a } }
  let σ4 : Vm := { σ3 with pc := τ.pc + 5 }
  have s1 : Vm.step code τ = .next σ1 := by simp only [Vm.step, i0]; rfl
  have s2 : Vm.step code σ1 = .next σ2 := by simp only [Vm.step, σ1, Vm.advance, i1, hv]; rfl
  have s3 : Vm.step code σ2 = .next σ3 := by simp only [Vm.step, σ2, σ1, Vm.advance, Vm.setA, i2]; rfl
  have s4 : Vm.step code σ3 = .next σ4 := by simp only [Vm.step, σ3, σ2, σ1, Vm.advance, Vm.setA, i3]; rfl
  have s5 : Vm.step code σ4 = .next (Vm.advance σ4) := by
    have : code[σ4.pc]? = some (CInstr.label lbl, p) := i5
    simp only [Vm.step, this]
  exact Steps.cons s1 (Steps.cons s2 (Steps.cons s3 (Steps.cons s4 (Steps.one s5))))

/-! ### the statement -/

/-- **FOR … NEXT**, with and without STEP -/
theorem case_for (W : World) (hjd : JumpDepths W) (B : BodyCtx) (hB : B.Ok W) (fuel : Nat) (ih : IHle W fuel) (x : Var) (t : Ty) (lo hi : Expr) (step : Option Expr) (body : SStmt) (p : Pos)
    (sfx : String) (fd sd off : Nat) (m : Mode) (below : List CtxState) (s : St) (σ : Vm)
    (hc : CodeAt W.code off (compileStmt W.lay W.env sfx fd sd off (.forLoop x t lo hi step body p)))
    (hl : LabAt W.env fd sd off (.forLoop x t lo hi step body p))
    (hw : Wf W.sg B.sc W.env.dp B.body.labels fd sd (.forLoop x t lo hi step body p))
    (hen : Entry W.env off (.forLoop x t lo hi step body p) m σ) (hr : Rel W B.sc [] below s σ)
    (hinv : ActInv B.sc fd sd σ) :
    StmtPost W B.sc below fd sd (off + sizeStmt W.env.dp fd sd (.forLoop x t lo hi step body p)) σ
      (ProcJ.Ref.exec W.P (fuel + 1) B.act (desugar (.forLoop x t lo hi step body p)) m s) := by
  cases m with
  | seek L =>
    -- a FOR body is not entered from outside: nothing is claimed
    simp only [desugar, ProcJ.Ref.exec]
    split <;> simp only [StmtPost]
  | run =>
  have hpc : σ.pc = off := hen
  -- a jump that is the outcome of the statement names a label that is not deeper than the statement
  have htop : ∀ (s' : St) (L : Nat),
      ProcJ.Ref.exec W.P (fuel + 1) B.act (desugar (.forLoop x t lo hi step body p)) .run s = (s', .jump L) →
      W.env.dp.fd L ≤ fd :=
    fun s' L h => (hjd B.sc B.body.labels _ fd sd hw (fuel + 1) B.act .run s s' L h).2.1
  simp only [Wf] at hw
  obtain ⟨hx, hwlo, hwhi, hwstep, hwb, hleave⟩ := hw
  simp only [compileStmt] at hc
  have hclo : CodeAt W.code off (compileExprTo W.lay off lo t) := hc.append_left.append_left.append_left
  have hcst : CodeAt W.code (off + sizeExprTo lo t) (storeVar x t p) := by
    have := hc.append_left.append_left.append_right
    rwa [len_exprTo] at this
  have hchi : CodeAt W.code (off + sizeExprTo lo t + 2) (compileExprTo W.lay (off + sizeExprTo lo t + 2) hi t) :=
    hc.append_left.append_right.at (by
      simp only [List.length_append, storeVar, List.length_cons, List.length_nil, len_exprTo]; omega)
  have hrest := hc.append_right.at (off' := (off + sizeExprTo lo t + 2 + sizeExprTo hi t)) (by
      simp only [List.length_append, storeVar, List.length_cons, List.length_nil, len_exprTo]; omega)
  -- the start value
  have helo := exprTo_correct' W fuel ih B.sc lo t off [] below s σ hclo hpc hr hwlo
  simp only [desugar, ProcJ.Ref.exec] at htop ⊢
  generalize ProcJ.Ref.evalTo W.P fuel lo t s = r1 at helo htop ⊢
  obtain ⟨s1, rv1⟩ := r1
  cases rv1 with
  | error o => exact StmtPost.of_err helo
  | ok l =>
    obtain ⟨τ1, st1, hp1, ha1, hrel1, hss1, htag1⟩ := helo
    have hcs : CodeAt W.code τ1.pc (storeVar x t p) := by rw [hp1]; exact hcst
    have st2 := store_steps W.code x t p τ1 hcs
    have hrel1' := hrel1.storeSt hx (by rw [ha1]; exact htag1)
    rw [ha1] at hrel1'
    have hssb : SameStacks σ (storeSt τ1 x) := hss1.trans (SameStacks.storeSt τ1 x)
    -- the limit
    have hehi := exprTo_correct' W fuel ih B.sc hi t (off + sizeExprTo lo t + 2) [] below (s1.set x l) (storeSt τ1 x)
      hchi (by rw [storeSt_pc, hp1]) hrel1' hwhi
    simp only at htop ⊢
    generalize ProcJ.Ref.evalTo W.P fuel hi t (s1.set x l) = r2 at hehi htop ⊢
    obtain ⟨s2, rv2⟩ := r2
    cases rv2 with
    | error o => exact StmtPost.of_err (ErrPost.of_steps (st1.trans st2) hehi)
    | ok h =>
      obtain ⟨τ2, st3, hp2, ha2, hrel2, hss2, htag2⟩ := hehi
      have pre3 : Steps W.code σ τ2 := (st1.trans st2).trans st3
      have hss3 : SameStacks σ τ2 := hssb.trans hss2
      simp only at htop ⊢
      cases step with
      | none =>
        simp only [] at hrest htop ⊢
        have hhd := pjfor_hdr_none W.code p _ (off + sizeExprTo lo t + 2 + sizeExprTo hi t) _ _ τ2
          hrest.append_left.append_left rfl hp2
        let σ5 : Vm := { τ2 with pc := (off + sizeExprTo lo t + 2 + sizeExprTo hi t) + 6,
                                 regs := ⟨.int 1, τ2.regs.b, τ2.regs.a, .int 1⟩ }
        have hss5 : SameStacks σ σ5 := hss3.trans ⟨rfl, rfl, rfl, rfl, rfl, rfl, rfl, id⟩
        have hr5 : Rel W B.sc [] below s2 σ5 := hrel2.same rfl rfl rfl rfl rfl rfl
        have hloop := pjfor_loop W hjd B hB fuel ih below x t body p sfx fd sd true _ _ h (.int 1) hx hwb hl.forNone _ htop
          hrest.append_left.append_right fuel (Nat.le_refl _) σ5 s2 rfl ha2 rfl hr5 (hinv.of_same hss5) rfl
        refine pjfor_finish W B.sc below fd sd σ σ5 _ _ (labelName "out-of-for" p sfx) p (pre3.trans hhd) hss5
          ?_ ?_ _ hloop
        · have := hrest.append_right.head
          simp only [List.length_append, List.length_cons, List.length_nil, len_forBody, len_stmt] at this
          rw [← this]; congr 1
          simp only [sizeForBody]; omega
        · simp only [sizeStmt, sizeForBody]; omega
      | some se =>
        simp only [] at hrest htop ⊢
        obtain ⟨hwse, _⟩ := hwstep se rfl
        obtain ⟨hlneg, hlpos⟩ := hl.forSome
        have hpush : W.code[(off + sizeExprTo lo t + 2 + sizeExprTo hi t)]? = some (CInstr.pushA, p) :=
          hrest.append_left.append_left.append_left.append_left.append_left.append_left.head
        have hcse : CodeAt W.code ((off + sizeExprTo lo t + 2 + sizeExprTo hi t) + 1)
            (compileExpr W.lay ((off + sizeExprTo lo t + 2 + sizeExprTo hi t) + 1) se) :=
          hrest.append_left.append_left.append_left.append_left.append_left.append_right
        have h11 := hrest.append_left.append_left.append_left.append_left.append_right.at
          (off' := (off + sizeExprTo lo t + 2 + sizeExprTo hi t) + 1 + sizeExpr se) (by
          simp only [List.length_append, List.length_cons, List.length_nil, len_forBody, len_stmt, len_expr, sizeForBody]; omega)
        have hneg := hrest.append_left.append_left.append_left.append_right
        have h5 := hrest.append_left.append_left.append_right
        have hpos := hrest.append_left.append_right
        have h4 := hrest.append_right
        -- push the limit, evaluate the step
        let τ2' : Vm := Vm.advance { τ2 with vals := τ2.regs.a :: τ2.vals }
        have sp : Vm.step W.code τ2 = .next τ2' := by
          have : W.code[τ2.pc]? = some (CInstr.pushA, p) := by rw [hp2]; exact hpush
          simp only [Vm.step, this]; rfl
        have hrel2' : Rel W B.sc [] below s2 τ2' := hrel2.same rfl rfl rfl rfl rfl rfl
        have hexp := ih.self.expr B.sc se ((off + sizeExprTo lo t + 2 + sizeExprTo hi t) + 1) [] below s2 τ2' hcse
          (by simp only [τ2', Vm.advance, hp2]) hrel2' hwse
        generalize ProcJ.Ref.eval W.P fuel se s2 = r3 at hexp htop ⊢
        obtain ⟨s3, rv3⟩ := r3
        cases rv3 with
        | error o => exact StmtPost.of_err (ErrPost.of_steps (pre3.trans (Steps.one sp)) hexp)
        | ok sv =>
          obtain ⟨τ3, st5, hp3, ha3, hrel3, hss4, htag3⟩ := hexp
          have hv3 : τ3.vals = h :: τ2.vals := by
            rw [hss4.vals]; simp only [τ2', Vm.advance, ha2]
          have hblock : CodeAt W.code ((off + sizeExprTo lo t + 2 + sizeExprTo hi t) + 1 + sizeExpr se)
              ([(CInstr.copyAToD, p), (CInstr.popA, p), (CInstr.copyAToC, p),
                (CInstr.jump ((off + sizeExprTo lo t + 2 + sizeExprTo hi t) + 1 + sizeExpr se + 5), p),
                (CInstr.jump ((off + sizeExprTo lo t + 2 + sizeExprTo hi t) + 1 + sizeExpr se + 11 + sizeForBody W.env.dp fd sd body + 1 + 4 + sizeForBody W.env.dp fd sd body + 1 + 2), p),
                (CInstr.label (labelName "for-begin" p sfx), p)] ++
               [(CInstr.loadA (.int 0), p), (CInstr.copyAToB, p), (CInstr.copyDToA, p), (CInstr.bin .less, p),
                (CInstr.jumpIfFalse ((off + sizeExprTo lo t + 2 + sizeExprTo hi t) + 1 + sizeExpr se + 11 + sizeForBody W.env.dp fd sd body + 1), p)]) := h11
          have hhd := pjfor_hdr_step W.code p _ ((off + sizeExprTo lo t + 2 + sizeExprTo hi t) + 1 + sizeExpr se) _ _ τ3 h
            τ2.vals hblock.append_left rfl hp3 hv3
          let σ5 : Vm := { τ3 with pc := (off + sizeExprTo lo t + 2 + sizeExprTo hi t) + 1 + sizeExpr se + 6,
                                   regs := ⟨h, τ3.regs.b, h, τ3.regs.a⟩, vals := τ2.vals }
          have pre5 : Steps W.code σ σ5 := (pre3.trans (Steps.cons sp st5)).trans hhd
          have hss5 : SameStacks σ σ5 :=
            hss3.trans ⟨rfl, hss4.paths, hss4.regStack, hss4.rets, hss4.marks, hss4.gosubs, hss4.trace, hss4.skip⟩
          have hr5 : Rel W B.sc [] below s3 σ5 := hrel3.same rfl rfl rfl rfl rfl rfl
          have hsign := pjfor_sign W.code p se.pos _ _ _ ((off + sizeExprTo lo t + 2 + sizeExprTo hi t) + 1 + sizeExpr se + 6)
            _ _ σ5 hblock.append_right
            (CodeAt.at h5.tail (by simp only [List.length_append, List.length_cons, List.length_nil, len_forBody, len_stmt, len_expr, sizeForBody]; omega))
            (CodeAt.at h4.tail (by simp only [List.length_append, List.length_cons, List.length_nil, len_forBody, len_stmt, len_expr, sizeForBody]; omega)) rfl
          have hd5 : σ5.regs.d = sv := ha3
          rw [hd5] at hsign
          have hlab : W.code[(off + sizeExprTo lo t + 2 + sizeExprTo hi t) + 1 + sizeExpr se + 11 + sizeForBody W.env.dp fd sd body + 1 + 4 + sizeForBody W.env.dp fd sd body + 1 + 2]? =
              some (CInstr.label (labelName "out-of-for" p sfx), p) := by
            have := h4.tail.tail.tail.head
            rw [← this]; congr 1
            simp only [List.length_append, List.length_cons, List.length_nil, len_forBody, len_stmt, len_expr, sizeForBody]; omega
          simp only [pjfor_stepSign_eq] at htop ⊢
          cases hcm : tryCmp sv (.int 0) with
          | err e =>
            simp only [hcm] at hsign ⊢
            simp only [StmtPost]
            rw [← hr5.out]
            exact ErrsWith.of_steps pre5 hsign
          | inexact => simp only [StmtPost]
          | ok o =>
            cases o with
            | lt =>
              simp only [hcm] at hsign htop ⊢
              obtain ⟨a, st6⟩ := hsign
              let σ6 : Vm := { σ5 with pc := (off + sizeExprTo lo t + 2 + sizeExprTo hi t) + 1 + sizeExpr se + 6 + 5,
                                       regs := ⟨a, .int 0, h, sv⟩ }
              have st6' : Steps W.code σ5 σ6 := Steps.cast st6 (by simp only [σ6, σ5, ha3])
              have hss6 : SameStacks σ σ6 := hss5.trans ⟨rfl, rfl, rfl, rfl, rfl, rfl, rfl, id⟩
              have hr6 : Rel W B.sc [] below s3 σ6 := hr5.same rfl rfl rfl rfl rfl rfl
              have hloop := pjfor_loop W hjd B hB fuel ih below x t body p sfx fd sd false
                (off + sizeExprTo lo t + 2 + sizeExprTo hi t + 1 + sizeExpr se + 11) _ h sv hx hwb hlneg _ htop
                (CodeAt.at hneg (by simp only [List.length_append, List.length_cons, List.length_nil, len_forBody, len_stmt, len_expr, sizeForBody]; omega))
                fuel (Nat.le_refl _) σ6 s3 (by dsimp only [σ6] <;> omega) rfl rfl hr6 (hinv.of_same hss6) rfl
              refine pjfor_finish W B.sc below fd sd σ σ6 _ _ (labelName "out-of-for" p sfx) p (pre5.trans st6')
                hss6 hlab ?_ _ hloop
              simp only [sizeStmt, sizeForBody]; omega
            | gt =>
              simp only [hcm] at hsign htop ⊢
              obtain ⟨a, st6⟩ := hsign
              let σ6 : Vm := { σ5 with pc := (off + sizeExprTo lo t + 2 + sizeExprTo hi t) + 1 + sizeExpr se + 11 + sizeForBody W.env.dp fd sd body + 1 + 4,
                                       regs := ⟨a, .int 0, h, sv⟩ }
              have st6' : Steps W.code σ5 σ6 := Steps.cast st6 (by simp only [σ6, σ5, ha3])
              have hss6 : SameStacks σ σ6 := hss5.trans ⟨rfl, rfl, rfl, rfl, rfl, rfl, rfl, id⟩
              have hr6 : Rel W B.sc [] below s3 σ6 := hr5.same rfl rfl rfl rfl rfl rfl
              have hloop := pjfor_loop W hjd B hB fuel ih below x t body p sfx fd sd true
                (off + sizeExprTo lo t + 2 + sizeExprTo hi t + 1 + sizeExpr se + 11 + sizeForBody W.env.dp fd sd body + 1 + 4) _
                h sv hx hwb hlpos _ htop
                (CodeAt.at hpos (by simp only [List.length_append, List.length_cons, List.length_nil, len_forBody, len_stmt, len_expr, sizeForBody]; omega))
                fuel (Nat.le_refl _) σ6 s3 (by dsimp only [σ6] <;> omega) rfl rfl hr6 (hinv.of_same hss6) rfl
              refine pjfor_finish W B.sc below fd sd σ σ6 _ _ (labelName "out-of-for" p sfx) p (pre5.trans st6')
                hss6 hlab ?_ _ hloop
              simp only [sizeStmt, sizeForBody]; omega
            | eq =>
              simp only [hcm] at hsign ⊢
              simp only [StmtPost]
              rw [← hr5.out]
              exact ErrsWith.of_steps pre5 hsign

end RbThm.ProcJSim
