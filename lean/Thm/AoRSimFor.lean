import Thm.AoRSimExpr0
/-!
Layer AoR (port of the records-layer file `Thm/RecLSimFor.lean`), simulation part — the case lemma for `FOR … NEXT` (with and without `STEP`); port of `Thm/ProcSimFor.lean` (itself a port of
`Thm.C01SimFor`).

The limit and the step live in registers C and D of the register frame that is current when the header runs.  They are
written AFTER the last expression of the header (the limit waits on the value stack while the STEP expression runs), the
loop head and the increment evaluate no expression, and the body runs in its own register frame (`PushRegisters` /
`PopRegisters`), so nothing the body does can clobber them.
-/
namespace RbThm.AoRSim
set_option linter.unusedVariables false
set_option linter.unusedSimpArgs false
open RbModel RbModel.Num RbModel.AoR RbModel.AoR.Compile RbModel.AoR.Vm
open RbModel.Ast (Pos)
open RbModel.RecL (ETy FTy FFields expand zeroOf)
open RbModel.RecL.Vm (allocTy defaultVar)
open RbThm.AoRLen RbThm.ArrLNum RbThm.RecLTy RbThm.AoRTy

set_option linter.unusedSectionVars false
variable [ExprOk]

namespace SimFor

theorem truthy_ofBool (b : Bool) : _root_.RbModel.Ref.truthy (ofBool b) = some b := by
  cases b <;> rfl

/-- the relational instructions are `try_cmp` turned into −1 / 0 -/
def IsRel (op : Op) : Prop :=
  ∀ a b, Vm.binInstr op a b = (tryCmp a b).bind fun o => Res.ok (ofBool (relHolds op o))

/-- compare A with B by a relational operator and branch on the outcome -/
theorem cmp_jump (code : Code) (op : Op) (hop : IsRel op) (p : Pos) (target : Nat) (off : Nat) (τ : Vm) (a : Val)
    (hc : CodeAt code off [(CInstr.bin op, p), (CInstr.jumpIfFalse target, p)]) (hpc : τ.pc = off)
    (ha : τ.regs.a = .leaf a) :
    match tryCmp a τ.regs.b with
    | .ok o =>
      if relHolds op o then Steps code τ { τ with pc := off + 2, regs := { τ.regs with a := .leaf (ofBool true) } }
      else Steps code τ { τ with pc := target, regs := { τ.regs with a := .leaf (ofBool false) } }
    | .err e => ErrsWith code τ (Vm.codeOf e) p τ.out
    | .inexact => True := by
  subst hpc
  have h0 : code[τ.pc]? = some (CInstr.bin op, p) := hc.head
  have h1 : code[τ.pc + 1]? = some (CInstr.jumpIfFalse target, p) := hc.tail.head
  have s0 : Vm.step code τ = Vm.resA τ p (Vm.binInstr op a τ.regs.b) := by
    simp only [Vm.step, h0, onA, ha]
  rw [hop] at s0
  cases hcmp : tryCmp a τ.regs.b with
  | ok o =>
    simp only [hcmp, Res.bind, Vm.resA] at s0 ⊢
    cases hb : relHolds op o with
    | true =>
      simp only [hb, if_true] at s0 ⊢
      refine Steps.cons s0 (Steps.one ?_)
      simp only [Vm.step, Vm.advance, Vm.setA, h1, onA, truthy_ofBool]
    | false =>
      simp only [hb] at s0 ⊢
      refine Steps.cons s0 (Steps.one ?_)
      simp only [Vm.step, Vm.advance, Vm.setA, h1, onA, truthy_ofBool]
  | err e =>
    simp only [hcmp, Res.bind, Vm.resA] at s0 ⊢
    exact ⟨τ, τ, Steps.refl τ, s0, rfl⟩
  | inexact => trivial

/-- the head of one FOR round: label, `CopyCToB`, load the counter, compare, branch, `PushRegisters` -/
def forHeadCode (lbl : String) (x : Nat) (t : Ty) (op : Op) (p : Pos) (outOff : Nat) : Code :=
  [(CInstr.label lbl, p), (CInstr.copyCToB, p)] ++ loadVar x p ++
    [(CInstr.bin op, p), (CInstr.jumpIfFalse outOff, p), (CInstr.pushRegs, p)]

/-- the tail of one FOR round: `PopRegisters`, counter := cast (counter + D), jump back -/
def forTailCode (x : Nat) (t : Ty) (p : Pos) (bo : Nat) : Code :=
  [(CInstr.popRegs, p)] ++ loadVar x p ++ [(CInstr.copyDToB, p), (CInstr.bin .plus, p), (CInstr.cast t, p)] ++
    storeVar x p ++ [(CInstr.jump bo, p)]

theorem forBody_split (sfx : String) (x : Nat) (t : Ty) (bc : Code) (up : Bool) (p : Pos) (bo outOff : Nat) :
    forBody sfx x t bc up p bo outOff =
      forHeadCode (labelName (if up then "positive-loop" else "negative-loop") p sfx) x t
        (if up then .lessOrEqual else .greaterOrEqual) p outOff ++ (bc ++ forTailCode x t p bo) := by
  simp [forBody, forHeadCode, forTailCode, loadVar, storeVar]

theorem for_head (code : Code) (sc : Scope) (s : St) (lbl : String) (x : Nat) (t : Ty)
    (op : Op) (hop : IsRel op) (p : Pos) (bo outOff : Nat) (h sv : Val) (σ : Vm)
    (hc : CodeAt code bo (forHeadCode lbl x t op p outOff)) (hpc : σ.pc = bo) (hC : σ.regs.c = h) (hD : σ.regs.d = sv)
    (hr : Rel sc s σ) (hx : sc.slots[x]? = some (.sc t)) :
    match tryCmp (s.getS x t) h with
    | .ok o =>
      if relHolds op o then
        ∃ a, Steps code σ { σ with pc := bo + 8, regs := Regs.new, regStack := ⟨a, h, h, sv⟩ :: σ.regStack }
      else ∃ a, Steps code σ { σ with pc := outOff, regs := ⟨a, h, h, sv⟩ }
    | .err e => ErrsWith code σ (Vm.codeOf e) p σ.out
    | .inexact => True := by
  subst hpc
  subst hC
  subst hD
  simp only [forHeadCode] at hc
  have h0 : code[σ.pc]? = some (CInstr.label lbl, p) := hc.append_left.append_left.head
  have h1 : code[σ.pc + 1]? = some (CInstr.copyCToB, p) := hc.append_left.append_left.tail.head
  have hl : CodeAt code (σ.pc + 2) (loadVar x p) := hc.append_left.append_right
  have hcj : CodeAt code (σ.pc + 5) [(CInstr.bin op, p), (CInstr.jumpIfFalse outOff, p), (CInstr.pushRegs, p)] :=
    hc.append_right
  have hcj2 : CodeAt code (σ.pc + 5) [(CInstr.bin op, p), (CInstr.jumpIfFalse outOff, p)] :=
    CodeAt.append_left (a := [(CInstr.bin op, p), (CInstr.jumpIfFalse outOff, p)]) (b := [(CInstr.pushRegs, p)]) hcj
  have h7 : code[σ.pc + 7]? = some (CInstr.pushRegs, p) := hcj.tail.tail.head
  let σ1 : Vm := Vm.advance σ
  let σ2 : Vm := Vm.advance { σ1 with regs := { σ1.regs with b := σ1.regs.c } }
  let σ3 : Vm := loadSt σ2 (s.getS x t)
  have s1 : Vm.step code σ = .next σ1 := by simp only [Vm.step, h0]; rfl
  have s2 : Vm.step code σ1 = .next σ2 := by simp only [Vm.step, σ1, Vm.advance, h1]; rfl
  have hr2 : Rel sc s σ2 := hr.same rfl rfl rfl rfl rfl rfl rfl rfl
  have s3 : Steps code σ2 σ3 := var_steps code sc s x t p σ2 hl hr2 hx
  have pre3 : Steps code σ σ3 := Steps.cons s1 (Steps.cons s2 s3)
  have hcmp := cmp_jump code op hop p outOff (σ.pc + 5) σ3 (s.getS x t) hcj2 rfl rfl
  have hb : σ3.regs.b = σ.regs.c := rfl
  rw [hb] at hcmp
  cases hcm : tryCmp (s.getS x t) σ.regs.c with
  | ok o =>
    simp only [hcm] at hcmp ⊢
    cases hrl : relHolds op o with
    | true =>
      simp only [hrl, if_true] at hcmp ⊢
      refine ⟨.leaf (ofBool true), (pre3.trans hcmp).trans (Steps.one ?_)⟩
      simp only [Vm.step, h7]
      rfl
    | false =>
      simp only [hrl] at hcmp ⊢
      exact ⟨.leaf (ofBool false), pre3.trans hcmp⟩
  | err e =>
    simp only [hcm] at hcmp ⊢
    exact ErrsWith.of_steps pre3 hcmp
  | inexact => trivial

/-- the state after the increment: the saved register frame is back, A holds the new counter, the counter is stored -/
def tailSt (υ : Vm) (r : Regs) (rest : List Regs) (bo x : Nat) (v : Val) : Vm :=
  { υ with pc := bo, regs := ⟨.leaf v, r.d, r.c, r.d⟩, regStack := rest, vars := υ.vars.set x (.leaf v) }

theorem for_tail (code : Code) (sc : Scope) (s : St) (x : Nat) (t : Ty) (p : Pos)
    (q bo : Nat) (υ : Vm) (r : Regs) (rest : List Regs)
    (hc : CodeAt code q (forTailCode x t p bo)) (hpc : υ.pc = q) (hrs : υ.regStack = r :: rest)
    (hr : Rel sc s υ) (hx : sc.slots[x]? = some (.sc t)) :
    match (plus (s.getS x t) r.d).bind (fun w => cast w t) with
    | .ok v => Steps code υ (tailSt υ r rest bo x v)
    | .err e => ErrsWith code υ (Vm.codeOf e) p υ.out
    | .inexact => True := by
  subst hpc
  simp only [forTailCode] at hc
  have h0 : code[υ.pc]? = some (CInstr.popRegs, p) := hc.append_left.append_left.append_left.append_left.head
  have hl : CodeAt code (υ.pc + 1) (loadVar x p) := hc.append_left.append_left.append_left.append_right
  have h3 : CodeAt code (υ.pc + 4) [(CInstr.copyDToB, p), (CInstr.bin .plus, p), (CInstr.cast t, p)] :=
    hc.append_left.append_left.append_right
  have hs : CodeAt code (υ.pc + 7) (storeVar x p) := hc.append_left.append_right
  have hj : code[υ.pc + 9]? = some (CInstr.jump bo, p) := hc.append_right.head
  let υ1 : Vm := Vm.advance { υ with regs := r, regStack := rest }
  let υ2 : Vm := loadSt υ1 (s.getS x t)
  let υ3 : Vm := Vm.advance { υ2 with regs := { υ2.regs with b := υ2.regs.d } }
  have s1 : Vm.step code υ = .next υ1 := by simp only [Vm.step, h0, hrs]; rfl
  have hr1 : Rel sc s υ1 := hr.same rfl rfl rfl rfl rfl rfl rfl rfl
  have s2 : Steps code υ1 υ2 := var_steps code sc s x t p υ1 hl hr1 hx
  have s3 : Vm.step code υ2 = .next υ3 := by
    have := h3.head
    simp only [Vm.step, υ2, loadSt, υ1, Vm.advance, this]; rfl
  have s4 : Vm.step code υ3 = Vm.resA υ3 p (plus (s.getS x t) r.d) := by
    have := h3.tail.head
    simp only [Vm.step, υ3, υ2, loadSt, υ1, Vm.advance, this, onA]; rfl
  have pre3 : Steps code υ υ3 := Steps.cons s1 (s2.trans (Steps.one s3))
  cases hpl : plus (s.getS x t) r.d with
  | ok w =>
    simp only [Res.bind]
    let υ4 : Vm := Vm.advance (Vm.setA υ3 w)
    have s4' : Vm.step code υ3 = .next υ4 := by rw [s4, hpl]; rfl
    have s5 : Vm.step code υ4 = Vm.resA υ4 p (cast w t) := by
      have := h3.tail.tail.head
      simp only [Vm.step, υ4, υ3, υ2, loadSt, υ1, Vm.advance, Vm.setA, this, onA]
    cases hcs : cast w t with
    | ok v =>
      simp only
      let υ5 : Vm := Vm.advance (Vm.setA υ4 v)
      have s5' : Vm.step code υ4 = .next υ5 := by rw [s5, hcs]; rfl
      have s6 := store_steps code x p υ5 v hs rfl (hr.lt hx)
      refine (pre3.trans (Steps.cons s4' (Steps.cons s5' s6))).trans (Steps.one ?_)
      have hj' : code[(storeSt υ5 x v).pc]? = some (CInstr.jump bo, p) := hj
      simp only [Vm.step, hj']
      rfl
    | err e =>
      simp only
      refine ⟨υ4, υ4, pre3.trans (Steps.one s4'), ?_, rfl⟩
      rw [s5, hcs]; rfl
    | inexact => trivial
  | err e =>
    simp only [Res.bind]
    refine ⟨υ3, υ3, pre3, ?_, rfl⟩
    rw [s4, hpl]; rfl
  | inexact => trivial

/-- **the FOR rounds**: from the loop-head label with the limit in C and the step in D, the generated code does what
`forIter` prescribes and leaves through the `out-of-for` address -/
theorem for_loop (code : Code) (fuel : Nat) (ih : IHle code fuel) (sc : Scope) (x : Nat) (t : Ty)
    (body : SStmt) (p : Pos) (sfx : String) (up : Bool) (bo outOff : Nat) (h sv : Val)
    (hx : sc.slots[x]? = some (.sc t)) (hts : t ≠ .str) (hwb : Wf sc body)
    (hc : CodeAt code bo (forBody sfx x t (compileStmt (stepSuffix sfx up) (bo + 8) body) up p bo
      outOff)) :
    ∀ f, f ≤ fuel → ∀ (σ : Vm) (s : St), σ.pc = bo → σ.regs.c = h → σ.regs.d = sv → Rel sc s σ →
      ActInv σ →
      StmtPost code sc 0 outOff σ (AoR.Ref.forIter f x t h sv up (desugar body) p s) := by
  rw [forBody_split] at hc
  have hch := hc.append_left
  have hlenH : (forHeadCode (labelName (if up then "positive-loop" else "negative-loop") p sfx) x t
        (if up then Op.lessOrEqual else Op.greaterOrEqual) p outOff).length = 8 := by
    simp [forHeadCode, loadVar]
  have hcb : CodeAt code (bo + 8) (compileStmt (stepSuffix sfx up) (bo + 8) body) := by
    have := hc.append_right.append_left
    rwa [hlenH] at this
  have hct : CodeAt code (bo + 8 + sizeStmt body) (forTailCode x t p bo) := by
    have := hc.append_right.append_right
    rwa [hlenH, len_stmt] at this
  have hop : IsRel (if up then Op.lessOrEqual else Op.greaterOrEqual) := by
    cases up <;> exact fun _ _ => rfl
  intro f
  induction f with
  | zero => intro _ σ s _ _ _ _ _; simp only [AoR.Ref.forIter, StmtPost]
  | succ f' ihf =>
    intro hf σ s hpc hC hD hr ha
    have hhead := for_head code sc s _ x t _ hop p bo outOff h sv σ hch hpc hC hD hr hx
    simp only [AoR.Ref.forIter, AoR.Ref.relTest]
    cases hcm : tryCmp (s.getS x t) h with
    | err e =>
      simp only [hcm] at hhead ⊢
      simp only [StmtPost]
      rw [← hr.out]; exact hhead
    | inexact => simp only [StmtPost]
    | ok o =>
      simp only [hcm] at hhead ⊢
      cases hrel : relHolds (if up then Op.lessOrEqual else Op.greaterOrEqual) o with
      | false =>
        simp only [hrel] at hhead ⊢
        obtain ⟨a, st⟩ := hhead
        simp only [StmtPost]
        exact ⟨_, st, by simp, hr.same rfl rfl rfl rfl rfl rfl rfl rfl, ⟨rfl, rfl, rfl, rfl, rfl, id⟩⟩
      | true =>
        simp only [hrel, if_true] at hhead ⊢
        obtain ⟨a, st⟩ := hhead
        let τ0 : Vm := { σ with pc := bo + 8, regs := Regs.new, regStack := ⟨a, h, h, sv⟩ :: σ.regStack }
        have hrel0 : Rel sc s τ0 := hr.same rfl rfl rfl rfl rfl rfl rfl rfl
        have ha0 : ActInv τ0 := ⟨ha.quiet⟩
        have hb := (ih f' (by omega)).stmt sc body (stepSuffix sfx up) (bo + 8) s τ0 hcb rfl hrel0
          hwb ha0
        generalize hrb : AoR.Ref.exec f' (desugar body) s = rb at hb ⊢
        obtain ⟨s1, o1⟩ := rb
        cases o1 with
        | normal =>
          obtain ⟨υ, st2, hp2, hrel2, hss2⟩ := hb
          have htail := for_tail code sc s1 x t p (bo + 8 + sizeStmt body) bo υ ⟨a, h, h, sv⟩
            σ.regStack hct hp2 hss2.regStack hrel2 hx
          simp only [] at htail ⊢
          cases hinc : (plus (s1.getS x t) sv).bind (fun v => cast v t) with
          | ok v =>
            simp only [hinc] at htail ⊢
            have hv : v.tag = t := by
              cases hpl : plus (s1.getS x t) sv with
              | ok w => rw [hpl] at hinc; exact cast_tag _ _ _ hinc
              | err e => rw [hpl] at hinc; cases hinc
              | inexact => rw [hpl] at hinc; cases hinc
            let υ1 : Vm := tailSt υ ⟨a, h, h, sv⟩ σ.regStack bo x v
            have hrel3 : Rel sc (s1.set x v) υ1 :=
              hrel2.store hx hv (noNulVal_of_tag (by rw [hv]; exact hts)) rfl rfl rfl rfl rfl rfl rfl rfl
            have hss3 : SameStacks σ υ1 :=
              ⟨hss2.vals, hss2.paths, rfl, hss2.ctx, hss2.trace, hss2.skip⟩
            have hloop := ihf (by omega) υ1 (s1.set x v) rfl rfl rfl hrel3 (ha.of_same hss3)
            exact StmtPost.of_steps ((st.trans st2).trans htail) hss3 hloop
          | err e =>
            simp only [hinc] at htail ⊢
            simp only [StmtPost]
            rw [← hrel2.out]
            exact ErrsWith.of_steps (st.trans st2) htail
          | inexact => simp only [StmtPost]
        | halted => exact HaltsWith.of_steps st hb
        | error cd q => exact ErrsWith.of_steps st hb
        | inexact => trivial
        | outOfFuel => trivial
        | illFormed => trivial
        | tooBig => trivial

/-- leaving the loop: the rounds end at the `out-of-for` label, one more step reaches the end of the statement -/
theorem for_finish (code : Code) (sc : Scope) (σ σd : Vm)
    (outOff off n : Nat) (lbl : String) (p : Pos)
    (pre : Steps code σ σd) (hss : SameStacks σ σd)
    (hlab : code[outOff]? = some (CInstr.label lbl, p)) (hn : off + n = outOff + 1) (r : St × Outcome)
    (h : StmtPost code sc 0 outOff σd r) : StmtPost code sc n off σ r := by
  refine StmtPost.of_steps pre hss ?_
  obtain ⟨s', o⟩ := r
  cases o with
  | normal =>
    obtain ⟨τ, st, hp, hrel, hs⟩ := h
    have s2 : Vm.step code τ = .next (Vm.advance τ) := by
      simp only [Vm.step, hp, Nat.add_zero, hlab]
    exact ⟨Vm.advance τ, st.trans (Steps.one s2), by simp [Vm.advance, hp]; omega, hrel.advance,
      hs.trans ⟨rfl, rfl, rfl, rfl, rfl, id⟩⟩
  | halted => exact h
  | error c q => exact h
  | inexact => trivial
  | outOfFuel => trivial
  | illFormed => trivial
  | tooBig => trivial

theorem stepSign_eq (p : Pos) (sv : Val) : AoR.Ref.stepSign p sv =
    match tryCmp sv (.int 0) with
    | .ok .lt => .ok .neg
    | .ok .gt => .ok .pos
    | .ok .eq => .ok .zero
    | .err e => .error (.error (AoR.Ref.codeOf e) p)
    | .inexact => .error .inexact := by
  simp only [AoR.Ref.stepSign, AoR.Ref.relTest]
  cases tryCmp sv (.int 0) with
  | ok o => cases o <;> rfl
  | err e => rfl
  | inexact => rfl

/-- the sign test of a FOR with STEP: `step < 0` → the negative loop, else `step > 0` → the positive loop, else
`ForLoopZeroStep` -/
theorem for_sign (code : Code) (p q : Pos) (lblT lblZ lblO : String) (a0 testPos zeroOff : Nat) (τ : Vm)
    (hc : CodeAt code a0 [(CInstr.loadA (.int 0), p), (CInstr.copyAToB, p), (CInstr.copyDToA, p),
      (CInstr.bin .less, p), (CInstr.jumpIfFalse testPos, p)])
    (hcT : CodeAt code testPos [(CInstr.label lblT, p), (CInstr.copyDToA, p), (CInstr.bin .greater, p),
      (CInstr.jumpIfFalse zeroOff, p)])
    (hcZ : CodeAt code zeroOff [(CInstr.label lblZ, p), (CInstr.throwZeroStep, q), (CInstr.label lblO, p)])
    (hpc : τ.pc = a0) :
    match tryCmp τ.regs.d (.int 0) with
    | .ok .lt => ∃ a : RV, Steps code τ { τ with pc := a0 + 5, regs := ⟨a, .int 0, τ.regs.c, τ.regs.d⟩ }
    | .ok .gt => ∃ a : RV, Steps code τ { τ with pc := testPos + 4, regs := ⟨a, .int 0, τ.regs.c, τ.regs.d⟩ }
    | .ok .eq => ErrsWith code τ AoR.Ref.codeZeroStep q τ.out
    | .err e => ErrsWith code τ (Vm.codeOf e) p τ.out
    | .inexact => True := by
  subst hpc
  have h0 : code[τ.pc]? = some (CInstr.loadA (.int 0), p) := hc.head
  have h1 : code[τ.pc + 1]? = some (CInstr.copyAToB, p) := hc.tail.head
  have h2 : code[τ.pc + 1 + 1]? = some (CInstr.copyDToA, p) := hc.tail.tail.head
  have hcj : CodeAt code (τ.pc + 3) [(CInstr.bin .less, p), (CInstr.jumpIfFalse testPos, p)] := hc.tail.tail.tail
  let τ1 : Vm := Vm.advance (Vm.setA τ (.int 0))
  let τ2 : Vm := Vm.advance { τ1 with regs := { τ1.regs with b := .int 0 } }
  let τ3 : Vm := Vm.advance (Vm.setA τ2 τ2.regs.d)
  have s1 : Vm.step code τ = .next τ1 := by simp only [Vm.step, h0]; rfl
  have s2 : Vm.step code τ1 = .next τ2 := by simp only [Vm.step, τ1, Vm.advance, Vm.setA, h1, onA]; rfl
  have s3 : Vm.step code τ2 = .next τ3 := by simp only [Vm.step, τ2, τ1, Vm.advance, Vm.setA, h2]; rfl
  have pre : Steps code τ τ3 := Steps.cons s1 (Steps.cons s2 (Steps.one s3))
  have hcmp := cmp_jump code .less (fun _ _ => rfl) p testPos (τ.pc + 3) τ3 τ.regs.d hcj rfl rfl
  have hb : τ3.regs.b = .int 0 := rfl
  rw [hb] at hcmp
  -- the second test
  have hT0 : code[testPos]? = some (CInstr.label lblT, p) := hcT.head
  have hT1 : code[testPos + 1]? = some (CInstr.copyDToA, p) := hcT.tail.head
  have hcj' : CodeAt code (testPos + 2) [(CInstr.bin .greater, p), (CInstr.jumpIfFalse zeroOff, p)] := hcT.tail.tail
  let τ4 : Vm := { τ3 with pc := testPos, regs := { τ3.regs with a := .leaf (ofBool false) } }
  let τ5 : Vm := Vm.advance τ4
  let τ6 : Vm := Vm.advance (Vm.setA τ5 τ5.regs.d)
  have s5 : Vm.step code τ4 = .next τ5 := by simp only [Vm.step, τ4, hT0]; rfl
  have s6 : Vm.step code τ5 = .next τ6 := by simp only [Vm.step, τ5, τ4, Vm.advance, hT1]; rfl
  have hcmp2 := cmp_jump code .greater (fun _ _ => rfl) p zeroOff (testPos + 2) τ6 τ.regs.d hcj' rfl rfl
  have hb2 : τ6.regs.b = .int 0 := rfl
  rw [hb2] at hcmp2
  cases hcm : tryCmp τ.regs.d (.int 0) with
  | err e =>
    simp only [hcm] at hcmp ⊢
    exact ErrsWith.of_steps pre hcmp
  | inexact => trivial
  | ok o =>
    simp only [hcm] at hcmp hcmp2
    cases o with
    | lt =>
      have : relHolds .less .lt = true := rfl
      simp only [this, if_true] at hcmp ⊢
      exact ⟨_, pre.trans hcmp⟩
    | eq =>
      have e1 : relHolds .less .eq = false := rfl
      have e2 : relHolds .greater .eq = false := rfl
      simp only [e1, e2] at hcmp hcmp2 ⊢
      have hZ0 : code[zeroOff]? = some (CInstr.label lblZ, p) := hcZ.head
      have hZ1 : code[zeroOff + 1]? = some (CInstr.throwZeroStep, q) := hcZ.tail.head
      let τ7 : Vm := { τ6 with pc := zeroOff, regs := { τ6.regs with a := .leaf (ofBool false) } }
      have s7 : Vm.step code τ7 = .next (Vm.advance τ7) := by simp only [Vm.step, τ7, hZ0]
      refine ⟨Vm.advance τ7, Vm.advance τ7,
        (pre.trans hcmp).trans (Steps.cons s5 (Steps.cons s6 (hcmp2.trans (Steps.one s7)))), ?_, rfl⟩
      simp only [Vm.step, τ7, Vm.advance, hZ1]
    | gt =>
      have e1 : relHolds .less .gt = false := rfl
      have e2 : relHolds .greater .gt = true := rfl
      simp only [e1, e2, if_true] at hcmp hcmp2 ⊢
      exact ⟨_, (pre.trans hcmp).trans (Steps.cons s5 (Steps.cons s6 hcmp2))⟩

/-- the header of a FOR without STEP after the limit is in A: limit to C, step 1 to D, the resume point -/
theorem hdr_none (code : Code) (p : Pos) (lbl : String) (a0 j o : Nat) (τ : Vm)
    (hc : CodeAt code a0 [(CInstr.copyAToC, p), (CInstr.loadA (.int 1), p), (CInstr.copyAToD, p),
      (CInstr.jump j, p), (CInstr.jump o, p), (CInstr.label lbl, p)])
    (hj : j = a0 + 5) (hpc : τ.pc = a0) (hv : Val) (ha : τ.regs.a = .leaf hv) :
    Steps code τ { τ with pc := a0 + 6, regs := ⟨.leaf (.int 1), τ.regs.b, hv, .int 1⟩ } := by
  subst hpc
  subst hj
  have i0 := hc.head
  have i1 := hc.tail.head
  have i2 := hc.tail.tail.head
  have i3 := hc.tail.tail.tail.head
  have i5 : code[τ.pc + 5]? = some (CInstr.label lbl, p) := hc.tail.tail.tail.tail.tail.head
  let σ1 : Vm := Vm.advance { τ with regs := { τ.regs with a := .leaf hv, c := hv } }
  let σ2 : Vm := Vm.advance (Vm.setA σ1 (.int 1))
  let σ3 : Vm := Vm.advance { σ2 with regs := { σ2.regs with d := .int 1 } }
  let σ4 : Vm := { σ3 with pc := τ.pc + 5 }
  have s1 : Vm.step code τ = .next σ1 := by simp only [Vm.step, i0, onA, ha]; rfl
  have s2 : Vm.step code σ1 = .next σ2 := by simp only [Vm.step, σ1, Vm.advance, i1]; rfl
  have s3 : Vm.step code σ2 = .next σ3 := by simp only [Vm.step, σ2, σ1, Vm.advance, Vm.setA, i2, onA]; rfl
  have s4 : Vm.step code σ3 = .next σ4 := by simp only [Vm.step, σ3, σ2, σ1, Vm.advance, Vm.setA, i3]; rfl
  have s5 : Vm.step code σ4 = .next (Vm.advance σ4) := by
    have : code[σ4.pc]? = some (CInstr.label lbl, p) := i5
    simp only [Vm.step, this]
  exact Steps.cons s1 (Steps.cons s2 (Steps.cons s3 (Steps.cons s4 (Steps.one s5))))

/-- the header of a FOR with STEP after the step is in A and the limit on the value stack: step to D, limit to C, the
resume point -/
theorem hdr_step (code : Code) (p : Pos) (lbl : String) (a0 j o : Nat) (τ : Vm) (h sv : Val) (vs : List RV)
    (hc : CodeAt code a0 [(CInstr.copyAToD, p), (CInstr.popA, p), (CInstr.copyAToC, p),
      (CInstr.jump j, p), (CInstr.jump o, p), (CInstr.label lbl, p)])
    (hj : j = a0 + 5) (hpc : τ.pc = a0) (hv : τ.vals = .leaf h :: vs) (ha : τ.regs.a = .leaf sv) :
    Steps code τ { τ with pc := a0 + 6, regs := ⟨.leaf h, τ.regs.b, h, sv⟩, vals := vs } := by
  subst hpc
  subst hj
  have i0 := hc.head
  have i1 := hc.tail.head
  have i2 := hc.tail.tail.head
  have i3 := hc.tail.tail.tail.head
  have i5 : code[τ.pc + 5]? = some (CInstr.label lbl, p) := hc.tail.tail.tail.tail.tail.head
  let σ1 : Vm := Vm.advance { τ with regs := { τ.regs with a := .leaf sv, d := sv } }
  let σ2 : Vm := Vm.advance { Vm.setRA σ1 (.leaf h) with vals := vs }
  let σ3 : Vm := Vm.advance { σ2 with regs := { σ2.regs with c := h } }
  let σ4 : Vm := { σ3 with pc := τ.pc + 5 }
  have s1 : Vm.step code τ = .next σ1 := by simp only [Vm.step, i0, onA, ha]; rfl
  have s2 : Vm.step code σ1 = .next σ2 := by simp only [Vm.step, σ1, Vm.advance, i1, hv]; rfl
  have s3 : Vm.step code σ2 = .next σ3 := by simp only [Vm.step, σ2, σ1, Vm.advance, Vm.setRA, i2, onA]; rfl
  have s4 : Vm.step code σ3 = .next σ4 := by simp only [Vm.step, σ3, σ2, σ1, Vm.advance, Vm.setRA, i3]; rfl
  have s5 : Vm.step code σ4 = .next (Vm.advance σ4) := by
    have : code[σ4.pc]? = some (CInstr.label lbl, p) := i5
    simp only [Vm.step, this]
  exact Steps.cons s1 (Steps.cons s2 (Steps.cons s3 (Steps.cons s4 (Steps.one s5))))

end SimFor

open SimFor in
/-- **FOR … NEXT**, with and without STEP -/
theorem case_for (code : Code) (fuel : Nat) (ih : IHle code fuel) (x : Nat) (t : Ty) (lo hi : AoR.Expr)
    (step : Option AoR.Expr) (body : SStmt) (p : Pos)
    (sc : Scope) (sfx : String) (off : Nat) (s : St) (σ : Vm)
    (hc : CodeAt code off (compileStmt sfx off (.forLoop x t lo hi step body p))) (hpc : σ.pc = off)
    (hr : Rel sc s σ) (hw : Wf sc (.forLoop x t lo hi step body p)) (ha : ActInv σ) :
    StmtPost code sc (sizeStmt (.forLoop x t lo hi step body p)) off σ
      (AoR.Ref.exec (fuel + 1) (desugar (.forLoop x t lo hi step body p)) s) := by
  simp only [Wf] at hw
  obtain ⟨hx, hts, hwlo, hwhi, hwstep, hwb⟩ := hw
  simp only [compileStmt] at hc
  have hclo : CodeAt code off (compileExprTo lo t) := hc.append_left.append_left.append_left
  have hcst : CodeAt code (off + (compileExprTo lo t).length) (storeVar x p) := by
    exact hc.append_left.append_left.append_right
  have hchi : CodeAt code (off + (compileExprTo lo t).length + 2) (compileExprTo hi t) :=
    hc.append_left.append_right.at (by
      simp only [List.length_append, storeVar, List.length_cons, List.length_nil]; omega)
  have hrest := hc.append_right.at (off' := (off + (compileExprTo lo t).length + 2 + (compileExprTo hi t).length)) (by
      simp only [List.length_append, storeVar, List.length_cons, List.length_nil]; omega)
  -- the start value
  obtain ⟨helo, hlotag⟩ := exprTo_correct' code sc lo t off s σ hclo hpc hr hwlo
  simp only [desugar, AoR.Ref.exec]
  generalize AoR.Ref.evalToS s.env s.arrs lo t = r1 at helo hlotag ⊢
  cases r1 with
  | err c q => exact helo
  | inexact => trivial
  | illFormed => trivial
  | ok l =>
    obtain ⟨τ1, st1, hp1, ha1, hrel1, hss1⟩ := helo
    obtain ⟨htag1, hnn1⟩ := hlotag l rfl
    have hcs : CodeAt code τ1.pc (storeVar x p) := by rw [hp1]; exact hcst
    have st2 := store_steps code x p τ1 l hcs ha1 (hrel1.lt hx)
    have hrel1' := hrel1.storeSt (w := l) hx htag1 hnn1
    have hssb : SameStacks σ (storeSt τ1 x l) := hss1.trans (SameStacks.storeSt τ1 x l)
    -- the limit
    obtain ⟨hehi, _⟩ := exprTo_correct' code sc hi t (off + (compileExprTo lo t).length + 2) (s.set x l)
      (storeSt τ1 x l) hchi (by simp only [storeSt, hp1]) hrel1' hwhi
    simp only
    generalize AoR.Ref.evalToS (s.set x l).env (s.set x l).arrs hi t = r2 at hehi ⊢
    cases r2 with
    | err c q => exact ErrsWith.of_steps (st1.trans st2) hehi
    | inexact => trivial
    | illFormed => trivial
    | ok h =>
      obtain ⟨τ2, st3, hp2, ha2, hrel2, hss2⟩ := hehi
      have pre3 : Steps code σ τ2 := (st1.trans st2).trans st3
      have hss3 : SameStacks σ τ2 := hssb.trans hss2
      simp only
      cases step with
      | none =>
        simp only [] at hrest ⊢
        have hhd := hdr_none code p _ (off + (compileExprTo lo t).length + 2 + (compileExprTo hi t).length) _ _ τ2 hrest.append_left.append_left rfl hp2 h ha2
        let σ5 : Vm := { τ2 with pc := (off + (compileExprTo lo t).length + 2 + (compileExprTo hi t).length) + 6, regs := ⟨.leaf (.int 1), τ2.regs.b, h, .int 1⟩ }
        have hss5 : SameStacks σ σ5 := hss3.trans ⟨rfl, rfl, rfl, rfl, rfl, id⟩
        have hr5 : Rel sc (s.set x l) σ5 := hrel2.same rfl rfl rfl rfl rfl rfl rfl rfl
        have hloop := for_loop code fuel ih sc x t body p sfx true _ _ h (.int 1) hx hts hwb
          hrest.append_left.append_right fuel (Nat.le_refl _) σ5 (s.set x l) rfl rfl rfl hr5 (ha.of_same hss5)
        refine for_finish code sc σ σ5 _ off _ (labelName "out-of-for" p sfx) p (pre3.trans hhd) hss5
          ?_ ?_ _ hloop
        · have := hrest.append_right.head
          simp only [List.length_append, List.length_cons, List.length_nil, len_forBody, len_stmt] at this
          rw [← this]; congr 1
          simp only [sizeForBody]; omega
        · simp only [sizeStmt, sizeForBody]; omega
      | some se =>
        simp only [] at hrest ⊢
        have hwse := hwstep se rfl
        have hpush : code[(off + (compileExprTo lo t).length + 2 + (compileExprTo hi t).length)]? = some (CInstr.pushA, p) :=
          hrest.append_left.append_left.append_left.append_left.append_left.append_left.head
        have hcse : CodeAt code ((off + (compileExprTo lo t).length + 2 + (compileExprTo hi t).length) + 1) (compileExpr se) :=
          hrest.append_left.append_left.append_left.append_left.append_left.append_right
        have h11 := hrest.append_left.append_left.append_left.append_left.append_right.at (off' := (off + (compileExprTo lo t).length + 2 + (compileExprTo hi t).length) + 1 + (compileExpr se).length) (by
          simp only [List.length_append, List.length_cons, List.length_nil, len_forBody, len_stmt, sizeForBody]; omega)
        have hneg := hrest.append_left.append_left.append_left.append_right
        have h5 := hrest.append_left.append_left.append_right
        have hpos := hrest.append_left.append_right
        have h4 := hrest.append_right
        -- push the limit, evaluate the step
        let τ2' : Vm := Vm.advance { τ2 with vals := τ2.regs.a :: τ2.vals }
        have sp : Vm.step code τ2 = .next τ2' := by
          have : code[τ2.pc]? = some (CInstr.pushA, p) := by rw [hp2]; exact hpush
          simp only [Vm.step, this]; rfl
        have hrel2' : Rel sc (s.set x l) τ2' := hrel2.same rfl rfl rfl rfl rfl rfl rfl rfl
        have hexp := evalE_correct' code sc se ((off + (compileExprTo lo t).length + 2 + (compileExprTo hi t).length) + 1)
          (s.set x l) τ2' hcse (by simp only [τ2', Vm.advance, hp2]) hrel2' hwse
        generalize AoR.Ref.evalE (s.set x l) se = rv3 at hexp ⊢
        cases rv3 with
        | error o => exact StmtPost.of_err (ErrPost.of_steps (pre3.trans (Steps.one sp)) hexp)
        | ok sv =>
          obtain ⟨τ3, st5, hp3, ha3, hrel3, hss4⟩ := hexp
          have hv3 : τ3.vals = .leaf h :: τ2.vals := by
            rw [hss4.vals]; simp only [τ2', Vm.advance, ha2]
          have hblock : CodeAt code ((off + (compileExprTo lo t).length + 2 + (compileExprTo hi t).length) + 1 + (compileExpr se).length)
              ([(CInstr.copyAToD, p), (CInstr.popA, p), (CInstr.copyAToC, p),
                (CInstr.jump ((off + (compileExprTo lo t).length + 2 + (compileExprTo hi t).length) + 1 + (compileExpr se).length + 5), p),
                (CInstr.jump ((off + (compileExprTo lo t).length + 2 + (compileExprTo hi t).length) + 1 + (compileExpr se).length + 11 + sizeForBody x body + 1 + 4 + sizeForBody x body + 1 + 2), p),
                (CInstr.label (labelName "for-begin" p sfx), p)] ++
               [(CInstr.loadA (.int 0), p), (CInstr.copyAToB, p), (CInstr.copyDToA, p), (CInstr.bin .less, p),
                (CInstr.jumpIfFalse ((off + (compileExprTo lo t).length + 2 + (compileExprTo hi t).length) + 1 + (compileExpr se).length + 11 + sizeForBody x body + 1), p)]) := h11
          have hhd := hdr_step code p _ ((off + (compileExprTo lo t).length + 2 + (compileExprTo hi t).length) + 1 + (compileExpr se).length) _ _ τ3 h sv τ2.vals hblock.append_left rfl hp3 hv3 ha3
          let σ5 : Vm := { τ3 with pc := (off + (compileExprTo lo t).length + 2 + (compileExprTo hi t).length) + 1 + (compileExpr se).length + 6, regs := ⟨.leaf h, τ3.regs.b, h, sv⟩, vals := τ2.vals }
          have pre5 : Steps code σ σ5 := (pre3.trans (Steps.cons sp st5)).trans hhd
          have hss5 : SameStacks σ σ5 :=
            hss3.trans ⟨rfl, hss4.paths, hss4.regStack, hss4.ctx, hss4.trace, hss4.skip⟩
          have hr5 : Rel sc (s.set x l) σ5 := hrel3.same rfl rfl rfl rfl rfl rfl rfl rfl
          have hsign := for_sign code p se.pos _ _ _ ((off + (compileExprTo lo t).length + 2 + (compileExprTo hi t).length) + 1 + (compileExpr se).length + 6) _ _ σ5 hblock.append_right
            (CodeAt.at h5.tail (by simp only [List.length_append, List.length_cons, List.length_nil, len_forBody, len_stmt, sizeForBody]; omega))
            (CodeAt.at h4.tail (by simp only [List.length_append, List.length_cons, List.length_nil, len_forBody, len_stmt, sizeForBody]; omega)) rfl
          have hd5 : σ5.regs.d = sv := rfl
          rw [hd5] at hsign
          have hlab : code[(off + (compileExprTo lo t).length + 2 + (compileExprTo hi t).length) + 1 + (compileExpr se).length + 11 + sizeForBody x body + 1 + 4 + sizeForBody x body + 1 + 2]? =
              some (CInstr.label (labelName "out-of-for" p sfx), p) := by
            have := h4.tail.tail.tail.head
            rw [← this]; congr 1
            simp only [List.length_append, List.length_cons, List.length_nil, len_forBody, len_stmt, sizeForBody]; omega
          simp only
          rw [stepSign_eq]
          cases hcm : tryCmp sv (.int 0) with
          | err e =>
            simp only [hcm] at hsign ⊢
            simp only [StmtPost]
            rw [← hr5.out]
            exact ErrsWith.of_steps pre5 hsign
          | inexact => simp only [StmtPost]
          | ok o =>
            cases o with
            | lt =>
              simp only [hcm] at hsign ⊢
              obtain ⟨a, st6⟩ := hsign
              let σ6 : Vm := { σ5 with pc := (off + (compileExprTo lo t).length + 2 + (compileExprTo hi t).length) + 1 + (compileExpr se).length + 6 + 5, regs := ⟨a, .int 0, h, sv⟩ }
              have st6' : Steps code σ5 σ6 := Steps.cast st6 (by simp only [σ6, σ5])
              have hss6 : SameStacks σ σ6 := hss5.trans ⟨rfl, rfl, rfl, rfl, rfl, id⟩
              have hr6 : Rel sc (s.set x l) σ6 := hr5.same rfl rfl rfl rfl rfl rfl rfl rfl
              have hloop := for_loop code fuel ih sc x t body p sfx false _ _ h sv hx hts hwb
                (CodeAt.at hneg (by simp only [List.length_append, List.length_cons, List.length_nil, len_forBody, len_stmt, sizeForBody]; omega))
                fuel (Nat.le_refl _) σ6 (s.set x l) (by dsimp only [σ6] <;> omega) rfl rfl hr6 (ha.of_same hss6)
              refine for_finish code sc σ σ6 _ off _ (labelName "out-of-for" p sfx) p (pre5.trans st6')
                hss6 hlab ?_ _ hloop
              simp only [sizeStmt, sizeForBody]; omega
            | gt =>
              simp only [hcm] at hsign ⊢
              obtain ⟨a, st6⟩ := hsign
              let σ6 : Vm := { σ5 with pc := (off + (compileExprTo lo t).length + 2 + (compileExprTo hi t).length) + 1 + (compileExpr se).length + 11 + sizeForBody x body + 1 + 4, regs := ⟨a, .int 0, h, sv⟩ }
              have st6' : Steps code σ5 σ6 := Steps.cast st6 (by simp only [σ6, σ5])
              have hss6 : SameStacks σ σ6 := hss5.trans ⟨rfl, rfl, rfl, rfl, rfl, id⟩
              have hr6 : Rel sc (s.set x l) σ6 := hr5.same rfl rfl rfl rfl rfl rfl rfl rfl
              have hloop := for_loop code fuel ih sc x t body p sfx true _ _ h sv hx hts hwb
                (CodeAt.at hpos (by simp only [List.length_append, List.length_cons, List.length_nil, len_forBody, len_stmt, sizeForBody]; omega))
                fuel (Nat.le_refl _) σ6 (s.set x l) (by dsimp only [σ6] <;> omega) rfl rfl hr6 (ha.of_same hss6)
              refine for_finish code sc σ σ6 _ off _ (labelName "out-of-for" p sfx) p (pre5.trans st6')
                hss6 hlab ?_ _ hloop
              simp only [sizeStmt, sizeForBody]; omega
            | eq =>
              simp only [hcm] at hsign ⊢
              simp only [StmtPost]
              rw [← hr5.out]
              exact ErrsWith.of_steps pre5 hsign

end RbThm.AoRSim
