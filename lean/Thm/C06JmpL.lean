import Thm.C06Core
import Thm.C08Layers2
/-!
C06 over the jump layer (`RbModel.JmpL`: the core language plus `label`, `GOTO`, `GOSUB`, `RETURN` in the main module).

`Thm/C06Core.lean` carries "a numeric variable only ever holds a value of its own type and range" through every run of
the core language.  Here the same invariant (`C06Core.Good`: every slot holds a value of its declared type, every value of
the environment and every DATA item is in range for its tag) is carried through every run of the reference semantics of
the jump layer (`JmpL.Ref.exec`: modes `run` / `seek L`, jumps restarted inside the construct that owns the label or
passed on, a FOR left by a jump keeping its counter, GOSUB as a nested run of the *whole* body), whose agreement with the
code the generator model emits is `JmpLSim.compile_correct`.  The expression-level lemmas of `C06Core` (`evalTo_good`,
`increment_good`, `cast_sound`) are reused unchanged: expressions, conversions and the state are those of the core language.

* `RangeWf` / `rangeB` / `progRangeB` — literals of the stored expressions (assignments, FOR start values) and DATA items
  are values of their own types (what the parser produces); `progRangeB_sound`.
* `WfA`, `wfA_desugar`, `wfA_top` — the static premise on the reference syntax, from `JmpLSim.Wf` / `WfTop`.
* `Pres`, `pres_zero`, `pres_succ`, `pres_all` — preservation for `exec`, `execCases`, `seekCases`, `selectSeek`, `forIter`,
  for **every mode and every outcome** (the statement is about the first component of the answer, whatever the second is).
  `WfA sl P ∧ RangeWf P` for the whole body `P` is a standing hypothesis: `gosub` runs `P` again.
* `exec_inrange`, `exec_inrange_src`, `run_inrange`, `run_inrange_checked`.
* `jmpl_run_inrange`, `jmpl_vmrun_inrange` — transfer to the VM model (`Steps … Halt`, bounded `Vm.run`).
* `jump_out_of_for_counter_inrange` (with `for_jump_leaves`, `forIter_jump_leaves`, `forIter_counter_inrange`),
  `gosub_inrange` (with `gosub_normal`, `gosub_routine_inrange`) — clause level.
-/
namespace RbThm.C06JmpL
set_option linter.unusedVariables false
open RbModel RbModel.Num RbModel.JmpL RbModel.JmpL.Compile RbModel.JmpL.Vm
open RbModel.Ast (Pos PrintItem CaseExpr)
open RbModel.Ref (St ERes eval evalTo codeOf zeroOf printValue)
open RbModel.JmpL.Ref
open RbThm.C01Sim (Typed ExprWt)
open RbThm.C06Core (LitsInRange Good zeroOf_inRange good_set good_of_env evalTo_good increment_good)
open RbThm.JmpLSim (Steps Wf WfElifs WfCases WfTop ProgWf dpOf startSt)

/-! ### hypotheses: literals and DATA items are values of their own types -/

mutual
/-- the expressions whose values are stored (assigned expressions, FOR start values) have in-range literals -/
def RangeWf : Stmt → Prop
  | .skip => True
  | .seq a b => RangeWf a ∧ RangeWf b
  | .assign _ _ e _ => LitsInRange e
  | .print _ _ => True
  | .read _ _ _ => True
  | .ifs _ thn els _ => RangeWf thn ∧ RangeWf els
  | .select _ cases _ => RangeWfC cases
  | .forLoop _ _ lo _ _ body _ => LitsInRange lo ∧ RangeWf body
  | .while _ body _ => RangeWf body
  | .doLoop _ _ _ body _ => RangeWf body
  | .end_ _ => True
  | .label _ => True
  | .goto _ => True
  | .gosub _ => True
  | .ret _ => True
def RangeWfC : Cases → Prop
  | .nil => True
  | .else_ body => RangeWf body
  | .case _ body rest => RangeWf body ∧ RangeWfC rest
end

/-- `LitsInRange`, executable -/
def litsB : Ast.Expr → Bool
  | .lit v _ => decide v.InRange
  | .var _ _ _ => true
  | .un _ e _ => litsB e
  | .bin _ l r _ _ => litsB l && litsB r
  | .paren e _ => litsB e

theorem litsB_sound : ∀ e : Ast.Expr, litsB e = true → LitsInRange e
  | .lit v _, h => by simpa [litsB, LitsInRange] using h
  | .var _ _ _, _ => trivial
  | .un _ e _, h => by simp only [litsB] at h; simp only [LitsInRange]; exact litsB_sound e h
  | .bin _ l r _ _, h => by
    simp only [litsB, Bool.and_eq_true] at h
    simp only [LitsInRange]; exact ⟨litsB_sound l h.1, litsB_sound r h.2⟩
  | .paren e _, h => by simp only [litsB] at h; simp only [LitsInRange]; exact litsB_sound e h

mutual
/-- `RangeWf`, executable -/
def rangeB : Stmt → Bool
  | .skip => true
  | .seq a b => rangeB a && rangeB b
  | .assign _ _ e _ => litsB e
  | .print _ _ => true
  | .read _ _ _ => true
  | .ifs _ thn els _ => rangeB thn && rangeB els
  | .select _ cases _ => rangeCB cases
  | .forLoop _ _ lo _ _ body _ => litsB lo && rangeB body
  | .while _ body _ => rangeB body
  | .doLoop _ _ _ body _ => rangeB body
  | .end_ _ => true
  | .label _ => true
  | .goto _ => true
  | .gosub _ => true
  | .ret _ => true
def rangeCB : Cases → Bool
  | .nil => true
  | .else_ body => rangeB body
  | .case _ body rest => rangeB body && rangeCB rest
end

mutual
theorem rangeB_sound : ∀ s : Stmt, rangeB s = true → RangeWf s
  | .skip, _ => by simp only [RangeWf]
  | .seq a b, h => by
    simp only [rangeB, Bool.and_eq_true] at h
    simp only [RangeWf]; exact ⟨rangeB_sound a h.1, rangeB_sound b h.2⟩
  | .assign _ _ e _, h => by simp only [rangeB] at h; simp only [RangeWf]; exact litsB_sound e h
  | .print _ _, _ => by simp only [RangeWf]
  | .read _ _ _, _ => by simp only [RangeWf]
  | .ifs _ thn els _, h => by
    simp only [rangeB, Bool.and_eq_true] at h
    simp only [RangeWf]; exact ⟨rangeB_sound thn h.1, rangeB_sound els h.2⟩
  | .select _ cases _, h => by simp only [rangeB] at h; simp only [RangeWf]; exact rangeCB_sound cases h
  | .forLoop _ _ lo _ _ body _, h => by
    simp only [rangeB, Bool.and_eq_true] at h
    simp only [RangeWf]; exact ⟨litsB_sound lo h.1, rangeB_sound body h.2⟩
  | .while _ body _, h => by simp only [rangeB] at h; simp only [RangeWf]; exact rangeB_sound body h
  | .doLoop _ _ _ body _, h => by simp only [rangeB] at h; simp only [RangeWf]; exact rangeB_sound body h
  | .end_ _, _ => by simp only [RangeWf]
  | .label _, _ => by simp only [RangeWf]
  | .goto _, _ => by simp only [RangeWf]
  | .gosub _, _ => by simp only [RangeWf]
  | .ret _, _ => by simp only [RangeWf]
theorem rangeCB_sound : ∀ cs : Cases, rangeCB cs = true → RangeWfC cs
  | .nil, _ => by simp only [RangeWfC]
  | .else_ body, h => by simp only [rangeCB] at h; simp only [RangeWfC]; exact rangeB_sound body h
  | .case _ body rest, h => by
    simp only [rangeCB, Bool.and_eq_true] at h
    simp only [RangeWfC]; exact ⟨rangeB_sound body h.1, rangeCB_sound rest h.2⟩
end

/-- the range premise of a program, executable: the literals of the stored expressions of the (desugared) body and the
DATA items are values of their own types -/
def progRangeB (prog : SProgram) : Bool :=
  rangeB (desugar prog.body) && (dataOf prog.body).all (fun v => decide v.InRange)

theorem progRangeB_sound (prog : SProgram) (h : progRangeB prog = true) :
    RangeWf (desugar prog.body) ∧ ∀ v ∈ dataOf prog.body, v.InRange := by
  simp only [progRangeB, Bool.and_eq_true, List.all_eq_true, decide_eq_true_eq] at h
  exact ⟨rangeB_sound _ h.1, h.2⟩

/-! ### the static premise on the reference syntax -/

mutual
/-- what preservation needs of a statement of the reference syntax: assigned, read and loop variables are declared slots
used at their declared types, assigned expressions (and FOR's start value) are well typed -/
def WfA (sl : List Ty) : Stmt → Prop
  | .skip => True
  | .seq a b => WfA sl a ∧ WfA sl b
  | .assign x t e _ => sl[x]? = some t ∧ ExprWt sl e
  | .print _ _ => True
  | .read x t _ => sl[x]? = some t
  | .ifs _ thn els _ => WfA sl thn ∧ WfA sl els
  | .select _ cases _ => WfAC sl cases
  | .forLoop x t lo _ _ body _ => sl[x]? = some t ∧ ExprWt sl lo ∧ WfA sl body
  | .while _ body _ => WfA sl body
  | .doLoop _ _ _ body _ => WfA sl body
  | .end_ _ => True
  | .label _ => True
  | .goto _ => True
  | .gosub _ => True
  | .ret _ => True
def WfAC (sl : List Ty) : Cases → Prop
  | .nil => True
  | .else_ body => WfA sl body
  | .case _ body rest => WfA sl body ∧ WfAC sl rest
end

theorem wfA_readSeq (sl : List Ty) (p : Pos) : ∀ (vars : List (Nat × Ty × Pos)),
    (∀ v ∈ vars, sl[v.1]? = some v.2.1) → WfA sl (readSeq p vars)
  | [], _ => by simp only [readSeq, WfA]
  | (x, t, q) :: rest, h => by
    simp only [readSeq, WfA]
    exact ⟨h (x, t, q) (List.mem_cons_self ..), wfA_readSeq sl p rest (fun v hv => h v (List.mem_cons_of_mem _ hv))⟩

mutual
theorem wfA_desugar (sl : List Ty) (dp : Dp) : ∀ (s : SStmt) (d e : Nat), Wf sl dp d e s → WfA sl (desugar s)
  | .skip, _, _, _ => by simp only [desugar, WfA]
  | .comment, _, _, _ => by simp only [desugar, WfA]
  | .seq a b, d, e, h => by
    simp only [Wf] at h
    simp only [desugar, WfA]
    exact ⟨wfA_desugar sl dp a d e h.1, wfA_desugar sl dp b d e h.2⟩
  | .dim x t p, _, _, h => by
    simp only [Wf] at h
    simp only [desugar, WfA, ExprWt]
    exact ⟨h, trivial⟩
  | .assign x t ex p, _, _, h => by
    simp only [Wf] at h
    simp only [desugar, WfA]
    exact ⟨h.1, h.2.2⟩
  | .print items p, _, _, _ => by simp only [desugar, WfA]
  | .data items p, _, _, h => by simp only [Wf] at h
  | .read vars p, _, _, h => by
    simp only [Wf] at h
    simp only [desugar]
    exact wfA_readSeq sl p vars h
  | .ifBlock c thn elifs hasElse els p, d, e, h => by
    simp only [Wf] at h
    simp only [desugar, WfA]
    exact ⟨wfA_desugar sl dp thn d e h.2.2.1,
      wfA_elifs sl dp elifs d e _ p h.2.2.2.1 (wfA_desugar sl dp els d e h.2.2.2.2.1)⟩
  | .select sel cases hasElse els p, d, e, h => by
    simp only [Wf] at h
    simp only [desugar, WfA]
    refine wfA_cases sl dp cases d (e + 1) _ h.2.1 ?_
    cases hasElse
    · simp only [Bool.false_eq_true, if_false, WfAC]
    · simp only [if_true, WfAC]; exact wfA_desugar sl dp els d (e + 1) h.2.2.1
  | .forLoop x t lo hi step body p, d, e, h => by
    simp only [Wf] at h
    simp only [desugar, WfA]
    exact ⟨h.1, h.2.2.1, wfA_desugar sl dp body (d + 1) e h.2.2.2.2.2.1⟩
  | .while c body p, d, e, h => by
    simp only [Wf] at h
    simp only [desugar, WfA]
    exact wfA_desugar sl dp body d e h.2.2
  | .doLoop c top u body p, d, e, h => by
    simp only [Wf] at h
    simp only [desugar, WfA]
    exact wfA_desugar sl dp body d e h.2.2
  | .end_ p, _, _, _ => by simp only [desugar, WfA]
  | .label _ _ _, _, _, _ => by simp only [desugar, WfA]
  | .goto _ _, _, _, _ => by simp only [desugar, WfA]
  | .gosub _ _, _, _, _ => by simp only [desugar, WfA]
  | .ret _, _, _, _ => by simp only [desugar, WfA]
theorem wfA_elifs (sl : List Ty) (dp : Dp) : ∀ (el : ElseIfs) (d e : Nat) (els : Stmt) (p : Pos),
    WfElifs sl dp d e el → WfA sl els → WfA sl (desugarElifs el els p)
  | .nil, _, _, els, p, _, h => by simp only [desugarElifs]; exact h
  | .cons c body rest, d, e, els, p, hw, h => by
    simp only [WfElifs] at hw
    simp only [desugarElifs, WfA]
    exact ⟨wfA_desugar sl dp body d e hw.2.2.1, wfA_elifs sl dp rest d e els p hw.2.2.2 h⟩
theorem wfA_cases (sl : List Ty) (dp : Dp) : ∀ (cs : SCases) (d e : Nat) (tail : Cases),
    WfCases sl dp d e cs → WfAC sl tail → WfAC sl (desugarCases cs tail)
  | .nil, _, _, tail, _, h => by simp only [desugarCases]; exact h
  | .cons conds body rest, d, e, tail, hw, h => by
    simp only [WfCases] at hw
    simp only [desugarCases, WfAC]
    exact ⟨wfA_desugar sl dp body d e hw.2.2.1, wfA_cases sl dp rest d e tail hw.2.2.2 h⟩
end

/-- a program body (DATA statements at top level are `skip` in the reference syntax) -/
theorem wfA_top (sl : List Ty) (dp : Dp) (body : SStmt) (h : WfTop sl dp body) : WfA sl (desugar body) := by
  rw [← RbThm.JmpLSim.desugar_strip]
  exact wfA_desugar sl dp _ 0 0 (RbThm.JmpLSim.wf_strip sl dp body h)


/-! ### the invariant along every run -/

/-- the shapes of the result handling of `JmpL.Ref.exec`, once and for all -/
theorem shapeN {G : St → Prop} (X : St × Outcome) (Y : St → St × Outcome)
    (hX : G X.1) (hY : ∀ s, G s → G (Y s).1) :
    G (match X with
       | (s', .normal) => Y s'
       | r => r).1 := by
  obtain ⟨s1, o1⟩ := X
  cases o1 <;> first | exact hY _ hX | exact hX

theorem shapeJ {G : St → Prop} (X : St × Outcome) (c : Nat → Bool) (Z : Nat → St → St × Outcome)
    (hX : G X.1) (hZ : ∀ L s, G s → G (Z L s).1) :
    G (match X with
       | (s', .jump L) => if c L then Z L s' else (s', .jump L)
       | r => r).1 := by
  obtain ⟨s1, o1⟩ := X
  cases o1 <;> first | exact hX | skip
  next L =>
    show G (if c L then Z L s1 else (s1, .jump L)).1
    split
    · exact hZ _ _ hX
    · exact hX

theorem shapeNJ {G : St → Prop} (X : St × Outcome) (Y : St → St × Outcome) (c : Nat → Bool)
    (Z : Nat → St → St × Outcome)
    (hX : G X.1) (hY : ∀ s, G s → G (Y s).1) (hZ : ∀ L s, G s → G (Z L s).1) :
    G (match X with
       | (s', .normal) => Y s'
       | (s', .jump L) => if c L then Z L s' else (s', .jump L)
       | r => r).1 := by
  obtain ⟨s1, o1⟩ := X
  cases o1 <;> first | exact hY _ hX | exact hX | skip
  next L =>
    show G (if c L then Z L s1 else (s1, .jump L)).1
    split
    · exact hZ _ _ hX
    · exact hX

theorem shapeG {G : St → Prop} (X : St × Outcome) (hX : G X.1) :
    G (match X with
       | (s', .ret _) => (s', Outcome.normal)
       | (s', .normal) => (s', .halted)
       | (s', .halted) => (s', .halted)
       | (s', .jump _) => (s', .illFormed)
       | (s', .notHere) => (s', .illFormed)
       | r => r).1 := by
  obtain ⟨s1, o1⟩ := X
  cases o1 <;> exact hX

/-- PRINT changes the output device only -/
theorem printItems_good (sl : List Ty) (items : List PrintItem) :
    ∀ s : St, Good sl s → Good sl (printItems s items).1 := by
  induction items with
  | nil => intro s hg; exact hg
  | cons it rest ih =>
    intro s hg
    cases it with
    | comma => simp only [printItems]; exact ih _ (good_of_env hg rfl rfl)
    | semicolon => simp only [printItems]; exact ih _ hg
    | expr e =>
      simp only [printItems]
      split
      · exact hg
      · exact hg
      · split
        · exact hg
        · exact ih _ (good_of_env hg rfl rfl)

/-- preservation at a given amount of fuel, for the five mutually recursive functions, for every mode and every outcome
(the result state is the first component whatever the second is); `P` is the whole program body (what a GOSUB runs) -/
def Pres (sl : List Ty) (P : Stmt) (fuel : Nat) : Prop :=
  (∀ stmt m s, WfA sl stmt → RangeWf stmt → Good sl s → Good sl (exec fuel P stmt m s).1) ∧
  (∀ p subj cs s, WfAC sl cs → RangeWfC cs → Good sl s → Good sl (execCases fuel P p subj cs s).1) ∧
  (∀ cs L s, WfAC sl cs → RangeWfC cs → Good sl s → Good sl (seekCases fuel P cs L s).1) ∧
  (∀ cs L s, WfAC sl cs → RangeWfC cs → Good sl s → Good sl (selectSeek fuel P cs L s).1) ∧
  (∀ x t h sv up body p m s, sl[x]? = some t → WfA sl body → RangeWf body → Good sl s →
      Good sl (forIter fuel P x t h sv up body p m s).1)

theorem pres_zero (sl : List Ty) (P : Stmt) : Pres sl P 0 := by
  refine ⟨?_, ?_, ?_, ?_, ?_⟩
  · intro stmt m s _ _ hg; simp only [exec]; exact hg
  · intro p subj cs s _ _ hg; simp only [execCases]; exact hg
  · intro cs L s _ _ hg; simp only [seekCases]; exact hg
  · intro cs L s _ _ hg; simp only [selectSeek]; exact hg
  · intro x t hv sv up body p m s _ _ _ hg; simp only [forIter]; exact hg

theorem pres_succ (sl : List Ty) (P : Stmt) (hP : WfA sl P) (hPr : RangeWf P) (n : Nat) (ih : Pres sl P n) :
    Pres sl P (n + 1) := by
  obtain ⟨ihE, ihC, ihK, ihS, ihF⟩ := ih
  refine ⟨?_, ?_, ?_, ?_, ?_⟩
  · intro stmt m s hw hr hg
    have hw0 := hw
    have hr0 := hr
    cases stmt with
    | skip => simp only [exec]; split <;> exact hg
    | seq a b =>
      simp only [WfA] at hw
      simp only [RangeWf] at hr
      simp only [exec]
      split
      · refine shapeJ _ _ _ ?_ (fun L s1 h1 => ihE _ _ s1 hw0 hr0 h1)
        split
        · exact shapeN _ _ (ihE a m s hw.1 hr.1 hg) (fun s1 h1 => ihE b _ s1 hw.2 hr.2 h1)
        · exact ihE b m s hw.2 hr.2 hg
      · exact hg
    | assign x t e p =>
      simp only [WfA] at hw
      simp only [RangeWf] at hr
      simp only [exec]
      split
      · exact hg
      · split <;> (try exact hg)
        next v hev =>
          obtain ⟨h1, h2⟩ := evalTo_good sl s hg e t v hw.2 hr hev
          exact good_set hg hw.1 h1 h2
    | print items p =>
      simp only [exec]
      split
      · exact hg
      · refine shapeN _ _ (printItems_good sl items s hg) ?_
        intro s1 h1
        split
        · exact h1
        · exact good_of_env h1 rfl rfl
    | read x t p =>
      simp only [WfA] at hw
      simp only [exec]
      split
      · exact hg
      · split
        · exact hg
        · next v hd =>
          have hv : v.InRange := hg.2.2 v (List.mem_of_getElem? hd)
          split <;> (try exact hg)
          next w hc =>
            obtain ⟨h1, h2⟩ := RbThm.C06.cast_sound v t w hv hc
            exact good_of_env (good_set hg hw h1 h2) rfl rfl
    | ifs c thn els p =>
      simp only [WfA] at hw
      simp only [RangeWf] at hr
      simp only [exec]
      split
      · refine shapeJ _ _ _ ?_ (fun L s1 h1 => ihE _ _ s1 hw0 hr0 h1)
        split
        · split
          · exact hg
          · exact ihE thn _ s hw.1 hr.1 hg
          · exact ihE els _ s hw.2 hr.2 hg
        · split
          · exact ihE thn _ s hw.1 hr.1 hg
          · exact ihE els _ s hw.2 hr.2 hg
      · exact hg
    | select e cases p =>
      simp only [WfA] at hw
      simp only [RangeWf] at hr
      simp only [exec]
      split
      · split <;> exact hg
      · split
        · exact hg
        · exact shapeJ _ _ _ (ihC p _ cases s hw hr hg) (fun L s1 h1 => ihS cases L s1 hw hr h1)
    | forLoop x t lo hi step body p =>
      simp only [WfA] at hw
      simp only [RangeWf] at hr
      obtain ⟨hx, hlo, hwb⟩ := hw
      simp only [exec]
      split
      · split <;> exact hg
      · split <;> (try exact hg)
        next l hl =>
          obtain ⟨l1, l2⟩ := evalTo_good sl s hg lo t l hlo hr.1 hl
          have hg1 : Good sl (s.set x l) := good_set hg hx l1 l2
          split <;> (try exact hg1)
          split
          · exact ihF x t _ _ true body p .run _ hx hwb hr.2 hg1
          · split
            · exact hg1
            · split
              · exact hg1
              · exact ihF x t _ _ false body p .run _ hx hwb hr.2 hg1
              · exact ihF x t _ _ true body p .run _ hx hwb hr.2 hg1
              · exact hg1
    | «while» c body p =>
      simp only [WfA] at hw
      simp only [RangeWf] at hr
      simp only [exec]
      split
      · split
        · exact hg
        · exact hg
        · exact shapeNJ _ _ _ _ (ihE body m s hw hr hg) (fun s1 h1 => ihE _ _ s1 hw0 hr0 h1)
            (fun L s1 h1 => ihE _ _ s1 hw0 hr0 h1)
      · exact hg
    | doLoop c top until_ body p =>
      simp only [WfA] at hw
      simp only [RangeWf] at hr
      simp only [exec]
      split
      · split
        · split
          · exact hg
          · split
            · exact shapeNJ _ _ _ _ (ihE body m s hw hr hg) (fun s1 h1 => ihE _ _ s1 hw0 hr0 h1)
                (fun L s1 h1 => ihE _ _ s1 hw0 hr0 h1)
            · exact hg
        · refine shapeNJ _ _ _ _ (ihE body m s hw hr hg) ?_ (fun L s1 h1 => ihE _ _ s1 hw0 hr0 h1)
          intro s1 h1
          split
          · exact h1
          · split
            · exact ihE _ _ s1 hw0 hr0 h1
            · exact h1
      · exact hg
    | end_ p => simp only [exec]; split <;> exact hg
    | label L' =>
      simp only [exec]
      split
      · exact hg
      · split <;> exact hg
    | goto L => simp only [exec]; split <;> exact hg
    | gosub L =>
      simp only [exec]
      split
      · exact hg
      · exact shapeG _ (ihE P (.seek L) s hP hPr hg)
    | ret p => simp only [exec]; split <;> exact hg
  · intro p subj cs s hw hr hg
    cases cs with
    | nil => simp only [execCases]; exact hg
    | else_ body =>
      simp only [WfAC] at hw; simp only [RangeWfC] at hr
      simp only [execCases]; exact ihE body _ s hw hr hg
    | case conds body rest =>
      simp only [WfAC] at hw
      simp only [RangeWfC] at hr
      simp only [execCases]
      split
      · exact hg
      · exact ihE body _ s hw.1 hr.1 hg
      · exact ihC p subj rest s hw.2 hr.2 hg
  · intro cs L s hw hr hg
    cases cs with
    | nil => simp only [seekCases]; exact hg
    | else_ body =>
      simp only [WfAC] at hw; simp only [RangeWfC] at hr
      simp only [seekCases]; exact ihE body _ s hw hr hg
    | case conds body rest =>
      simp only [WfAC] at hw
      simp only [RangeWfC] at hr
      simp only [seekCases]
      split
      · exact ihE body _ s hw.1 hr.1 hg
      · exact ihK rest L s hw.2 hr.2 hg
  · intro cs L s hw hr hg
    simp only [selectSeek]
    exact shapeJ _ _ _ (ihK cs L s hw hr hg) (fun L' s1 h1 => ihS cs L' s1 hw hr h1)
  · intro x t hv sv up body p m s hx hwb hrb hg
    simp only [forIter]
    split
    · exact hg
    · exact hg
    · refine shapeNJ _ _ _ _ (ihE body m s hwb hrb hg) ?_
        (fun L s1 h1 => ihF x t hv sv up body p _ s1 hx hwb hrb h1)
      intro s1 h1
      split
      · next v hp =>
        obtain ⟨a, b⟩ := increment_good _ sv v t hp
        exact ihF x t hv sv up body p _ _ hx hwb hrb (good_set h1 hx a b)
      · exact h1
      · exact h1

theorem pres_all (sl : List Ty) (P : Stmt) (hP : WfA sl P) (hPr : RangeWf P) : ∀ n, Pres sl P n
  | 0 => pres_zero sl P
  | n + 1 => pres_succ sl P hP hPr n (pres_all sl P hP hPr n)

/-! ### the property-level theorems -/

/-- **`exec_inrange`** (reference syntax) — every statement of the jump layer, run as part of the program body `P` in
**any mode** (from its start, or entered at a label inside it), any amount of fuel, **any outcome** (normal end, END,
`jump L` = left by a GOTO, `ret` = left by a RETURN, BASIC error, out of the exact float domain, out of fuel, `illFormed`,
`notHere`): if before it every variable holds a value of its declared type within that type's range, so it does afterwards.
`hP`, `hPr`: the whole body is well formed / has in-range literals too — a GOSUB runs it again from a label. -/
theorem exec_inrange (sl : List Ty) (P : Stmt) (hP : WfA sl P) (hPr : RangeWf P) (fuel : Nat) (stmt : Stmt) (m : Mode)
    (s s' : St) (o : Outcome) (hw : WfA sl stmt) (hr : RangeWf stmt) (hg : Good sl s)
    (h : exec fuel P stmt m s = (s', o)) : Good sl s' := by
  have := (pres_all sl P hP hPr fuel).1 stmt m s hw hr hg
  rw [h] at this; exact this

/-- the same for a statement of the faithful syntax inside a program that satisfies the premise of the program theorem -/
theorem exec_inrange_src (prog : SProgram) (hw : ProgWf prog) (hr : progRangeB prog = true) (fuel : Nat)
    (stmt : SStmt) (d e : Nat) (m : Mode) (s s' : St) (o : Outcome)
    (hws : Wf prog.slots (dpOf prog) d e stmt) (hrs : RangeWf (desugar stmt)) (hg : Good prog.slots s)
    (h : exec fuel (desugar prog.body) (desugar stmt) m s = (s', o)) : Good prog.slots s' :=
  exec_inrange prog.slots _ (wfA_top _ _ _ hw.1) (progRangeB_sound prog hr).1 fuel _ m s s' o
    (wfA_desugar _ _ stmt d e hws) hrs hg h

theorem good_start (prog : SProgram) (hd : ∀ v ∈ dataOf prog.body, v.InRange) :
    Good prog.slots (startSt prog) := by
  refine ⟨RbThm.JmpLSim.typed_init prog.slots, ?_, hd⟩
  intro v hv
  simp only [startSt, List.mem_map] at hv
  obtain ⟨t, _, rfl⟩ := hv
  exact zeroOf_inRange t

/-- **`run_inrange`** — whole programs of the jump layer: however the run ends (also with error 3, RETURN without GOSUB,
out of fuel, `illFormed`), every variable holds a value of its declared type within that type's range. -/
theorem run_inrange (prog : SProgram) (fuel : Nat) (hw : ProgWf prog) (hr : progRangeB prog = true) :
    Good prog.slots (JmpL.Ref.run fuel prog.toAst).1 := by
  rw [RbThm.JmpLSim.run_eq]
  obtain ⟨hr1, hd⟩ := progRangeB_sound prog hr
  have hP := wfA_top prog.slots (dpOf prog) prog.body hw.1
  have h0 := (pres_all prog.slots _ hP hr1 fuel).1 (desugar prog.body) .run (startSt prog) hP hr1 (good_start prog hd)
  generalize exec fuel (desugar prog.body) (desugar prog.body) .run (startSt prog) = r at h0 ⊢
  obtain ⟨s1, o1⟩ := r
  cases o1 <;> exact h0

/-- the premise replaced by the boolean check the driver evaluates (`jmpl.wf`) -/
theorem run_inrange_checked (prog : SProgram) (fuel : Nat) (hw : progWfB prog = true) (hr : progRangeB prog = true) :
    Good prog.slots (JmpL.Ref.run fuel prog.toAst).1 :=
  run_inrange prog fuel (RbThm.JmpLSim.progWfB_sound prog hw) hr

/-- **`jmpl_run_inrange`** — corollary over `JmpLSim.compile_correct_checked`: when the reference run ends (normally or
with END), the VM model running the code the generator model emits reaches `Halt` with an environment in which every
variable has its declared type and is within that type's range. -/
theorem jmpl_run_inrange (prog : SProgram) (fuel : Nat) (hw : progWfB prog = true) (hr : progRangeB prog = true) :
    match JmpL.Ref.run fuel prog.toAst with
    | (_, .normal) => ∃ τ υ, Steps (compile prog) (Vm.init prog.slots) τ ∧
        Vm.step (compile prog) τ = .halt υ ∧ Typed prog.slots υ.env ∧ ∀ v ∈ υ.env, v.InRange
    | (_, .halted) => ∃ τ υ, Steps (compile prog) (Vm.init prog.slots) τ ∧
        Vm.step (compile prog) τ = .halt υ ∧ Typed prog.slots υ.env ∧ ∀ v ∈ υ.env, v.InRange
    | _ => True := by
  have h1 := RbThm.JmpLSim.compile_correct_checked prog fuel hw
  have h2 := run_inrange_checked prog fuel hw hr
  generalize JmpL.Ref.run fuel prog.toAst = r at h1 h2
  obtain ⟨s', o⟩ := r
  cases o with
  | normal =>
    obtain ⟨τ, υ, a, b, he, _⟩ := h1
    exact ⟨τ, υ, a, b, he ▸ h2.1, he ▸ h2.2.1⟩
  | halted =>
    obtain ⟨τ, υ, a, b, he, _⟩ := h1
    exact ⟨τ, υ, a, b, he ▸ h2.1, he ▸ h2.2.1⟩
  | _ => trivial

/-- the same for the bounded interpreter `JmpL.Vm.run` (what the correspondence check executes against the real VM): with
every sufficient step budget the run has halted with all variables typed and in range -/
theorem jmpl_vmrun_inrange (prog : SProgram) (fuel : Nat) (hw : progWfB prog = true) (hr : progRangeB prog = true) :
    match JmpL.Ref.run fuel prog.toAst with
    | (_, .normal) => ∃ n, ∀ m, n ≤ m → ∃ υ, Vm.run (compile prog) m (Vm.init prog.slots) = .halted υ ∧
        Typed prog.slots υ.env ∧ ∀ v ∈ υ.env, v.InRange
    | (_, .halted) => ∃ n, ∀ m, n ≤ m → ∃ υ, Vm.run (compile prog) m (Vm.init prog.slots) = .halted υ ∧
        Typed prog.slots υ.env ∧ ∀ v ∈ υ.env, v.InRange
    | _ => True := by
  have h1 := jmpl_run_inrange prog fuel hw hr
  generalize JmpL.Ref.run fuel prog.toAst = r at h1
  obtain ⟨s', o⟩ := r
  cases o with
  | normal =>
    obtain ⟨τ, υ, a, b, c⟩ := h1
    obtain ⟨n, hn⟩ := RbThm.JmpLSim.run_of_steps _ a b
    exact ⟨n, fun m hm => ⟨υ, hn m hm, c⟩⟩
  | halted =>
    obtain ⟨τ, υ, a, b, c⟩ := h1
    obtain ⟨n, hn⟩ := RbThm.JmpLSim.run_of_steps _ a b
    exact ⟨n, fun m hm => ⟨υ, hn m hm, c⟩⟩
  | _ => trivial

/-! ### clause level: a GOTO out of a FOR, GOSUB … RETURN -/

/-- one round of a FOR loop (and all that follow), in any mode, any outcome: the counter holds a value of its type in range -/
theorem forIter_counter_inrange (sl : List Ty) (P : Stmt) (hP : WfA sl P) (hPr : RangeWf P) (fuel x : Nat) (t : Ty)
    (hv sv : Val) (up : Bool) (body : Stmt) (p : Pos) (m : Mode) (s s' : St) (o : Outcome)
    (hx : sl[x]? = some t) (hwb : WfA sl body) (hrb : RangeWf body) (hg : Good sl s)
    (h : forIter fuel P x t hv sv up body p m s = (s', o)) :
    Good sl s' ∧ ∃ v, s'.env[x]? = some v ∧ v.tag = t ∧ v.InRange := by
  have := (pres_all sl P hP hPr fuel).2.2.2.2 x t hv sv up body p m s hx hwb hrb hg
  rw [h] at this
  exact ⟨this, this.var hx⟩

theorem relTest_not_jump (p : Pos) (op : Op) (a b : Val) (o : Outcome) (h : relTest p op a b = .error o) :
    ∀ L, o ≠ .jump L := by
  intro L hL
  subst hL
  unfold relTest at h
  split at h <;> cases h

/-- a `jump L` that comes out of the rounds of a FOR loop really leaves the loop: `L` is not a label of the body (a jump
to a label of the body is taken inside the current round) -/
theorem forIter_jump_leaves (P : Stmt) (x : Nat) (t : Ty) (hv sv : Val) (up : Bool) (body : Stmt) (p : Pos) :
    ∀ (fuel : Nat) (m : Mode) (s s' : St) (L : Nat),
      forIter fuel P x t hv sv up body p m s = (s', .jump L) → body.hasLabel L = false := by
  intro fuel
  induction fuel with
  | zero => intro m s s' L h; simp only [forIter] at h; cases h
  | succ n ih =>
    intro m s s' L h
    simp only [forIter] at h
    split at h
    · next o heq =>
      cases h
      cases m with
      | run => exact absurd rfl (relTest_not_jump _ _ _ _ _ heq L)
      | seek L' => cases heq
    · cases h
    · generalize exec n P body m s = r at h
      obtain ⟨s1, o1⟩ := r
      cases o1 <;> simp only at h
      case normal =>
        split at h
        · exact ih _ _ _ _ h
        · cases h
        · cases h
      case jump L' =>
        split at h
        · exact ih _ _ _ _ h
        · next hl => cases h; simpa using hl
      all_goals cases h

theorem evalE_not_jump (env : List Val) (e : Ast.Expr) (o : Outcome) (h : evalE env e = .error o) :
    ∀ L, o ≠ .jump L := by
  intro L hL
  subst hL
  unfold evalE at h
  split at h <;> cases h

theorem stepSign_not_jump (p : Pos) (v : Val) (o : Outcome) (h : stepSign p v = .error o) : ∀ L, o ≠ .jump L := by
  intro L hL
  subst hL
  simp only [stepSign, bind, Except.bind, pure, Except.pure] at h
  split at h
  · next heq => cases h; exact relTest_not_jump _ _ _ _ _ heq L rfl
  · split at h
    · cases h
    · split at h
      · next heq => cases h; exact relTest_not_jump _ _ _ _ _ heq L rfl
      · split at h <;> cases h

/-- the same for the FOR statement: a `jump L` that comes out of it names a label outside its body -/
theorem for_jump_leaves (P : Stmt) (fuel x : Nat) (t : Ty) (lo hi : Ast.Expr) (step : Option Ast.Expr) (body : Stmt)
    (p : Pos) (s s' : St) (L : Nat) (h : exec fuel P (.forLoop x t lo hi step body p) .run s = (s', .jump L)) :
    body.hasLabel L = false := by
  cases fuel with
  | zero => simp only [exec] at h; cases h
  | succ n =>
    simp only [exec] at h
    split at h
    · cases h
    · cases h
    · split at h
      · cases h
      · cases h
      · split at h
        · exact forIter_jump_leaves _ _ _ _ _ _ _ _ _ _ _ _ _ h
        · split at h
          · next heq => cases h; exact absurd rfl (evalE_not_jump _ _ _ heq L)
          · split at h
            · next heq => cases h; exact absurd rfl (stepSign_not_jump _ _ _ heq L)
            · exact forIter_jump_leaves _ _ _ _ _ _ _ _ _ _ _ _ _ h
            · exact forIter_jump_leaves _ _ _ _ _ _ _ _ _ _ _ _ _ h
            · cases h

/-- **a GOTO out of a FOR loop**: when a FOR statement is left by `jump L` (a GOTO in its body to a label outside; in the
generated code the loop's register frame is popped in front of the `Jump`), the counter variable still holds a value of its
declared type within that type's range — and so does every other variable; `L` is indeed a label outside the body. -/
theorem jump_out_of_for_counter_inrange (sl : List Ty) (P : Stmt) (hP : WfA sl P) (hPr : RangeWf P) (fuel x : Nat) (t : Ty)
    (lo hi : Ast.Expr) (step : Option Ast.Expr) (body : Stmt) (p : Pos) (s s' : St) (L : Nat)
    (hw : WfA sl (.forLoop x t lo hi step body p)) (hr : RangeWf (.forLoop x t lo hi step body p)) (hg : Good sl s)
    (h : exec fuel P (.forLoop x t lo hi step body p) .run s = (s', .jump L)) :
    Good sl s' ∧ (∃ v, s'.env[x]? = some v ∧ v.tag = t ∧ v.InRange) ∧ body.hasLabel L = false := by
  have hg' := exec_inrange sl P hP hPr fuel _ _ s s' _ hw hr hg h
  simp only [WfA] at hw
  exact ⟨hg', hg'.var hw.1, for_jump_leaves P fuel x t lo hi step body p s s' L h⟩

/-- what `GOSUB L` answering `normal` means: the nested run of the whole body entered at `L` ended with a RETURN -/
theorem gosub_normal (P : Stmt) (fuel L : Nat) (s s' : St) (h : exec (fuel + 1) P (.gosub L) .run s = (s', .normal)) :
    ∃ p, exec fuel P P (.seek L) s = (s', .ret p) := by
  simp only [exec] at h
  generalize exec fuel P P (.seek L) s = r at h
  obtain ⟨s1, o1⟩ := r
  cases o1 <;> simp only [Prod.mk.injEq, reduceCtorEq, and_false] at h
  next q => exact ⟨q, by rw [h.1]⟩

/-- **GOSUB … RETURN**: after `GOSUB L` has come back (the routine at `L` ran to a RETURN), every variable holds a value of
its declared type within that type's range. -/
theorem gosub_inrange (sl : List Ty) (P : Stmt) (hP : WfA sl P) (hPr : RangeWf P) (fuel L : Nat) (s s' : St)
    (hg : Good sl s) (h : exec fuel P (.gosub L) .run s = (s', .normal)) : Good sl s' :=
  exec_inrange sl P hP hPr fuel (.gosub L) .run s s' .normal (by simp only [WfA]) (by simp only [RangeWf]) hg h

/-- … and already at the RETURN, whatever the routine did (any depth of nested GOSUBs, jumps out of loops) -/
theorem gosub_routine_inrange (sl : List Ty) (P : Stmt) (hP : WfA sl P) (hPr : RangeWf P) (fuel L : Nat) (s s' : St)
    (p : Pos) (hg : Good sl s) (h : exec fuel P P (.seek L) s = (s', .ret p)) : Good sl s' :=
  exec_inrange sl P hP hPr fuel P (.seek L) s s' _ hP hPr hg h

/-! ### non-vacuity -/

open RbThm.C08Layers2.Jumps (demo)

/-- the premises hold for the demonstration programs of `Thm/C08Layers2.lean` (GOSUB, a FOR inside the routine, RETURN
from inside the FOR body, GOTO over the routine, END) -/
example : progWfB (demo 0) = true ∧ progRangeB (demo 0) = true := by decide +kernel
example : progWfB (demo 32767) = true ∧ progRangeB (demo 32767) = true := by decide +kernel
/-- … and fail for a literal that is not a value of its type -/
example : progRangeB (demo 40000) = false := by decide +kernel

/-- `demo 0` ends with END: the VM model halts with `X% = 2`, `I% = 2` typed and in range -/
example : ∃ τ υ, Steps (compile (demo 0)) (Vm.init (demo 0).slots) τ ∧ Vm.step (compile (demo 0)) τ = .halt υ ∧
    Typed (demo 0).slots υ.env ∧ ∀ v ∈ υ.env, v.InRange := by
  have h := jmpl_run_inrange (demo 0) 60 (by decide +kernel) (by decide +kernel)
  have hr : (JmpL.Ref.run 60 (demo 0).toAst).2 = .halted := by decide +kernel
  generalize JmpL.Ref.run 60 (demo 0).toAst = r at h hr
  obtain ⟨s', o⟩ := r
  cases hr
  exact h

example : ∃ n, ∀ m, n ≤ m → ∃ υ, Vm.run (compile (demo 0)) m (Vm.init (demo 0).slots) = .halted υ ∧
    Typed (demo 0).slots υ.env ∧ ∀ v ∈ υ.env, v.InRange := by
  have h := jmpl_vmrun_inrange (demo 0) 60 (by decide +kernel) (by decide +kernel)
  have hr : (JmpL.Ref.run 60 (demo 0).toAst).2 = .halted := by decide +kernel
  generalize JmpL.Ref.run 60 (demo 0).toAst = r at h hr
  obtain ⟨s', o⟩ := r
  cases hr
  exact h

/-- `demo 32767`: Overflow (6) at `X% = X% + 1` inside the routine, inside its FOR body, a GOSUB pending: nothing is
stored, `X%` keeps 32767 -/
example : Good (demo 32767).slots (JmpL.Ref.run 60 (demo 32767).toAst).1 :=
  run_inrange_checked (demo 32767) 60 (by decide +kernel) (by decide +kernel)
example : (JmpL.Ref.run 60 (demo 32767).toAst).2 = .error 6 ⟨7, 11⟩ ∧
    (JmpL.Ref.run 60 (demo 32767).toAst).1.env = [.int 32767, .int 1] := by decide +kernel

/-- `FOR I% = 1 TO 3 : X% = X% + I% : IF I% = 2 THEN GOTO Out : NEXT` (slot 0 = X%, slot 1 = I%) -/
def demoFor : SStmt :=
  .forLoop 1 .int (.lit (.int 1) ⟨1, 10⟩) (.lit (.int 3) ⟨1, 15⟩) none
    (.seq (.assign 0 .int (.bin .plus (.var 0 .int ⟨2, 8⟩) (.var 1 .int ⟨2, 13⟩) .int ⟨2, 11⟩) ⟨2, 3⟩)
    (.seq (.ifBlock (.bin .equal (.var 1 .int ⟨3, 6⟩) (.lit (.int 2) ⟨3, 11⟩) .int ⟨3, 9⟩)
        (.seq (.goto 0 ⟨3, 18⟩) .skip) .nil false .skip ⟨3, 3⟩) .skip)) ⟨1, 1⟩

/-- `demoFor : Out: PRINT I%` -/
def demoJump : SProgram :=
  ⟨[.int, .int], .seq demoFor (.seq (.label 0 "Out" ⟨5, 1⟩) (.seq (.print [.expr (.var 1 .int ⟨6, 7⟩)] ⟨6, 1⟩) .skip))⟩

example : progWfB demoJump = true ∧ progRangeB demoJump = true ∧
    (JmpL.Ref.run 40 demoJump.toAst).2 = .normal := by decide +kernel

/-- the FOR statement of `demoJump` is left by `jump 0` with the counter at 2: the hypothesis of
`jump_out_of_for_counter_inrange` is satisfiable -/
example :
    (exec 40 (desugar demoJump.body) (desugar demoFor) .run (startSt demoJump)).2 = .jump 0 ∧
    (exec 40 (desugar demoJump.body) (desugar demoFor) .run (startSt demoJump)).1.env = [.int 3, .int 2] := by
  decide +kernel

/-- … and the theorem applies -/
example : ∃ v, (exec 40 (desugar demoJump.body) (desugar demoFor) .run (startSt demoJump)).1.env[1]? = some v ∧
    v.tag = .int ∧ v.InRange := by
  have hw := RbThm.JmpLSim.progWfB_sound demoJump (by decide +kernel)
  obtain ⟨hr, hd⟩ := progRangeB_sound demoJump (by decide +kernel)
  have hP : WfA demoJump.slots (.seq (desugar demoFor) _) := wfA_top _ _ _ hw.1
  have hr' : RangeWf (.seq (desugar demoFor) _) := hr
  have hj : (exec 40 (desugar demoJump.body) (desugar demoFor) .run (startSt demoJump)).2 = .jump 0 := by
    decide +kernel
  simp only [WfA] at hP
  simp only [RangeWf] at hr'
  exact (jump_out_of_for_counter_inrange demoJump.slots (desugar demoJump.body) (wfA_top _ _ _ hw.1) hr 40 1 .int
    _ _ _ _ _ (startSt demoJump) _ 0 hP.1 hr'.1 (good_start demoJump hd) (Prod.ext rfl hj)).2.1

/-- the GOSUB of `demo 0` comes back (`normal`): the hypothesis of `gosub_inrange` is satisfiable -/
example :
    (exec 50 (desugar (demo 0).body) (.gosub 0) .run (startSt (demo 0))).2 = .normal ∧
    (exec 50 (desugar (demo 0).body) (.gosub 0) .run (startSt (demo 0))).1.env = [.int 2, .int 2] := by decide +kernel


end RbThm.C06JmpL
