import Thm.C12Core
import Thm.C01Wf
import Thm.C08Core
/-!
# C12 down to the VM: an accepted core program's VM run does not stop with Type mismatch

`Thm/C12Core.lean` proves the statement-level soundness of the checker's typing discipline over the reference
semantics (`wf_no_type_mismatch`: if `tyB` holds, `Ref.run` ends in error 13 only at a READ).  `Thm/C01Sim.lean`
proves that the VM model running the generator model's code ends as `Ref.run` prescribes (`C01_core_correct`,
premise `WfTop`, decided by `wfTopB`: `wfTopB_sound`).  This file spells out the composition, which the two checks
(C12: `ty.core`, C01: `core.wf`) so far only evaluated side by side:

`vm_no_type_mismatch` — for a core program as the front end delivers it on which both decidable premises hold
(`tyTopB` = `tyB` on the desugared tree, `wfTopB`) and on which the reference run finishes at some fuel, the bounded
VM interpreter `CoreVm.run` on `Core.compile prog` never stops with error 13 (Type mismatch), whatever its step
budget, except at the position of a READ statement of the program (conversion of external data: a DATA string read
into a numeric variable — excluded by the property's text).

The two premises are different predicates (C01's `Wf` does not type `/` and unary operands: `PRINT "a" / 2` is
`Wf`; `tyB` does not bound slots by the slot table's length nor forbid DATA in blocks), so both are needed; both are
evaluated by the driver on the real linted tree of every explored core program.
-/
namespace RbThm.C12Vm
open RbModel RbModel.Num RbModel.Ast RbModel.Src RbModel.Core RbModel.CoreVm RbModel.Ref RbModel.TyCore
open RbModel.CoreWf
open RbThm.C01Sim
open RbThm.C08Core (Finished finished)
open RbThm.C12Core (noRead noRead_readAt core_no_type_mismatch)

/-- **`vm_no_type_mismatch`** (`tyB ∧ wfTopB ⇒` the VM run has no error 13 outside READ).  `sp` is the program as
the serialiser of the real linted tree delivers it; `hty` is what `ty.core` evaluates, `hwf` what `core.wf`
evaluates; `hfin`: at fuel `fuel` the reference run is neither cut by the fuel nor outside the exact float domain
(`outOfFuel`, `inexact` — nothing is claimed for those).  Conclusion: for *every* step budget `m`, if the VM model
stops with error 13 at position `p`, then `p` is the position of a READ statement of the program. -/
theorem vm_no_type_mismatch (sp : SProgram) (fuel : Nat)
    (hty : tyTopB sp = true) (hwf : wfTopB sp.slots sp.body = true)
    (hfin : Finished (Ref.run fuel sp.toAst).2) :
    ∀ (m : Nat) (p : Pos) (ω : Vm),
      CoreVm.run (compile sp) m (Vm.init sp.slots) = .error 13 p ω → ReadAt p (desugar sp.body) := by
  intro m p ω hrun
  have h := C01_core_correct_checked sp fuel hwf
  have h13 := core_no_type_mismatch sp fuel hty
  rcases hr : Ref.run fuel sp.toAst with ⟨s', o⟩
  rw [hr] at h hfin h13
  cases o with
  | normal =>
    obtain ⟨τ, υ, hs, hh, _⟩ := h
    rcases RbThm.C08Core.run_of_steps_halt _ hs hh m with h1 | h1 <;> rw [h1] at hrun <;> cases hrun
  | halted =>
    obtain ⟨τ, υ, hs, hh, _⟩ := h
    rcases RbThm.C08Core.run_of_steps_halt _ hs hh m with h1 | h1 <;> rw [h1] at hrun <;> cases hrun
  | error c q =>
    obtain ⟨τ, υ, hs, hh, _⟩ := h
    rcases RbThm.C08Core.run_of_steps_error _ hs hh m with h1 | h1
    · rw [h1] at hrun; cases hrun
    · rw [h1] at hrun
      cases hrun
      exact h13 p rfl
  | inexact => simp [Finished, finished] at hfin
  | outOfFuel => simp [Finished, finished] at hfin

/-- READ-free programs: the VM run never stops with Type mismatch at all. -/
theorem vm_no_type_mismatch_noread (sp : SProgram) (fuel : Nat)
    (hty : tyTopB sp = true) (hwf : wfTopB sp.slots sp.body = true)
    (hn : noRead (desugar sp.body) = true)
    (hfin : Finished (Ref.run fuel sp.toAst).2) :
    ∀ (m : Nat) (p : Pos) (ω : Vm), CoreVm.run (compile sp) m (Vm.init sp.slots) ≠ .error 13 p ω :=
  fun m p ω h => noRead_readAt p _ hn (vm_no_type_mismatch sp fuel hty hwf hfin m p ω h)

/-- The positive form: with a sufficient budget the VM run *ends*, and it ends halted or with a BASIC error which is
not Type mismatch unless it is raised at a READ.  (`vm_no_type_mismatch` alone would also hold of a VM that never
ends.) -/
theorem vm_ends_without_type_mismatch (sp : SProgram) (fuel : Nat)
    (hty : tyTopB sp = true) (hwf : wfTopB sp.slots sp.body = true)
    (hfin : Finished (Ref.run fuel sp.toAst).2) :
    ∃ n, ∀ m, n ≤ m →
      (∃ ω, CoreVm.run (compile sp) m (Vm.init sp.slots) = .halted ω) ∨
      (∃ c p ω, CoreVm.run (compile sp) m (Vm.init sp.slots) = .error c p ω ∧
        (c = 13 → ReadAt p (desugar sp.body))) := by
  obtain ⟨n, hn⟩ := RbThm.C08Core.core_basic_level_outcome sp fuel (wfTopB_sound _ _ hwf) hfin
  refine ⟨n, fun m hm => ?_⟩
  rcases hn m hm with h | ⟨c, p, ω, h, _⟩
  · exact .inl h
  · refine .inr ⟨c, p, ω, h, fun hc => ?_⟩
    subst hc
    exact vm_no_type_mismatch sp fuel hty hwf hfin m p ω h

/-! ### non-vacuity -/

/-- `X% = 0 : WHILE X% < 2 : PRINT X% / 2 : X% = X% + 1 : WEND : SELECT CASE X% : CASE 1 TO 2 : PRINT "a" + "b" :
END SELECT` — both premises hold, the reference finishes, no READ -/
private def okProg : SProgram :=
  { slots := [.int],
    body := .seq (.assign 0 .int (.lit (.int 0) ⟨1, 5⟩) ⟨1, 1⟩)
      (.seq (.while (.bin .less (.var 0 .int ⟨2, 7⟩) (.lit (.int 2) ⟨2, 11⟩) .int ⟨2, 9⟩)
              (.seq (.print [.expr (.bin .divide (.var 0 .int ⟨3, 7⟩) (.lit (.int 2) ⟨3, 12⟩) .sgl ⟨3, 10⟩)] ⟨3, 1⟩)
                (.seq (.assign 0 .int (.bin .plus (.var 0 .int ⟨4, 5⟩) (.lit (.int 1) ⟨4, 9⟩) .int ⟨4, 7⟩) ⟨4, 1⟩) .skip)) ⟨2, 1⟩)
        (.seq (.select (.var 0 .int ⟨6, 13⟩)
                (.cons [.range (.lit (.int 1) ⟨7, 6⟩) (.lit (.int 2) ⟨7, 11⟩)]
                  (.print [.expr (.bin .plus (.lit (.str ['a']) ⟨8, 7⟩) (.lit (.str ['b']) ⟨8, 13⟩) .str ⟨8, 11⟩)] ⟨8, 1⟩) .nil)
                false .skip ⟨6, 1⟩) .skip)) }

example : tyTopB okProg = true ∧ wfTopB okProg.slots okProg.body = true ∧ noRead (desugar okProg.body) = true ∧
    Finished (Ref.run 100 okProg.toAst).2 := by decide +kernel

/-- `DATA "abc" : READ X%` — both premises hold, the reference finishes with error 13 *at the READ*: the exception
in the conclusion is inhabited, and by `C01_run_correct` the VM model does stop there with error 13 -/
private def readProg : SProgram :=
  { slots := [.int],
    body := .seq (.data [(.str ['a', 'b', 'c'], ⟨1, 6⟩)] ⟨1, 1⟩) (.seq (.read [(0, .int, ⟨2, 6⟩)] ⟨2, 1⟩) .skip) }

example : tyTopB readProg = true ∧ wfTopB readProg.slots readProg.body = true ∧
    (match (Ref.run 10 readProg.toAst).2 with | .error 13 ⟨2, 1⟩ => true | _ => false) = true ∧
    ReadAt ⟨2, 1⟩ (desugar readProg.body) := by
  refine ⟨by decide +kernel, by decide +kernel, by decide +kernel, ?_⟩
  simp [readProg, desugar, readSeq, ReadAt]

/-- the VM model on that program: stops with error 13 at the READ's position (so the exception cannot be dropped) -/
example : (match CoreVm.run (compile readProg) 50 (Vm.init readProg.slots) with
    | .error 13 ⟨2, 1⟩ _ => true | _ => false) = true := by decide +kernel

/-- each premise is needed, (1): `PRINT "a" / 2` passes `wfTopB` (C01's premise does not type `/`), fails `tyTopB`,
and its VM run does stop with error 13 outside any READ -/
private def divProg : SProgram :=
  { slots := [],
    body := .seq (.print [.expr (.bin .divide (.lit (.str ['a']) ⟨1, 7⟩) (.lit (.int 2) ⟨1, 13⟩) .sgl ⟨1, 11⟩)] ⟨1, 1⟩) .skip }

example : wfTopB divProg.slots divProg.body = true ∧ tyTopB divProg = false ∧
    (match CoreVm.run (compile divProg) 50 (Vm.init divProg.slots) with | .error 13 _ _ => true | _ => false) = true := by
  decide +kernel

end RbThm.C12Vm
